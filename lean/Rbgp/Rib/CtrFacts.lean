/-
  Rbgp.Rib.CtrFacts — what one step of the model does to the recounts (`recvCount`, `accCount`) and to
  the prefix-limit counters (`Table.ctrs`).  Used by the C15 master theorem.  The recounts are read off
  the statistics, which the invariant ties to the RIB before and after the step.
-/
import Rbgp.Rib.EntryInsert
import Rbgp.Rib.InvPurge
namespace Rbgp.Rib.C15

/-! ## The statement -/

/-- a purge of the paths of `a` in family `f` that was handed the counter of source `ctr` -/
def PurgeSpec (t t' : Table) (a : Nat) (f : Fam) (ctr : Option Nat) : Prop :=
  ∃ gone, recvCount a (t'.rib f) + gone = recvCount a (t.rib f) ∧
    (∀ a' f', (a', f') ≠ (a, f) → recvCount a' (t'.rib f') = recvCount a' (t.rib f')) ∧
    t'.ctrs = purgeCtrs t f gone ctr

def CtrSpec (t t' : Table) (r : Res) : Op → Prop
  | .insert src fam net _ _ _ _ _ =>
      (r = .limit → (!(t.entries fam net).any (sameAddr src.addr)) = true ∧
          (∃ max, src.lim = some max ∧ max ≤ t.ctr (src.id, fam)) ∧ t' = t) ∧
      (r ≠ .limit →
        recvCount src.addr (t'.rib fam) =
          recvCount src.addr (t.rib fam) + (!(t.entries fam net).any (sameAddr src.addr)).toNat ∧
        (∀ a f, (a, f) ≠ (src.addr, fam) → recvCount a (t'.rib f) = recvCount a (t.rib f)) ∧
        t'.ctrs = (if (!(t.entries fam net).any (sameAddr src.addr)) && src.lim.isSome then
            aset (src.id, fam) (atomicInc (t.ctr (src.id, fam))) t.ctrs else t.ctrs) ∧
        ((!(t.entries fam net).any (sameAddr src.addr)) = true → ∀ max, src.lim = some max →
          t.ctr (src.id, fam) < max))
  | .remove src fam _ _ =>
      ∃ d : Bool, recvCount src.addr (t'.rib fam) + d.toNat = recvCount src.addr (t.rib fam) ∧
        (∀ a f, (a, f) ≠ (src.addr, fam) → recvCount a (t'.rib f) = recvCount a (t.rib f)) ∧
        t'.ctrs = (if d && src.lim.isSome then
            aset (src.id, fam) (atomicDec (t.ctr (src.id, fam))) t.ctrs else t.ctrs)
  | .drop a f => PurgeSpec t t' a f none
  | .dropStale a f ctr => PurgeSpec t t' a f ctr
  | .dropLlgr a f ctr => PurgeSpec t t' a f ctr
  | .dropNoLlgr a f ctr => PurgeSpec t t' a f ctr
  | _ => (∀ a f, recvCount a (t'.rib f) = recvCount a (t.rib f)) ∧ t'.ctrs = t.ctrs

structure CtrFacts (t : Table) (op : Op) (t' : Table) (r : Res) : Prop where
  /-- no step adds more than one accepted path of a peer -/
  accLe : ∀ a f, accCount a (t'.rib f) ≤ accCount a (t.rib f) + 1
  spec : CtrSpec t t' r op

/-! ## Recounts through the statistics -/

section
variable {c : Case} {g : Nat → Fam} {t t' : Table}

theorem counts_of_lookup (h : Inv c g t) (h' : Inv c g t') {a : Nat} {f : Fam}
    (hl : alookup (a, f) t'.stats = alookup (a, f) t.stats) :
    recvCount a (t'.rib f) = recvCount a (t.rib f) ∧ accCount a (t'.rib f) = accCount a (t.rib f) := by
  have h1 := h.stats.get a f
  have h2 := h'.stats.get a f
  unfold statsGet at h1 h2
  rw [hl, h1] at h2
  exact ⟨(congrArg Prod.fst h2).symm, (congrArg Prod.snd h2).symm⟩

theorem counts_of_stats_eq (h : Inv c g t) (h' : Inv c g t') (hs : t'.stats = t.stats) (a : Nat) (f : Fam) :
    recvCount a (t'.rib f) = recvCount a (t.rib f) ∧ accCount a (t'.rib f) = accCount a (t.rib f) :=
  counts_of_lookup h h' (by rw [hs])

theorem counts_of_aset (h' : Inv c g t') {a : Nat} {f : Fam} {st : Nat × Nat} {l : List ((Nat × Fam) × (Nat × Nat))}
    (hs : t'.stats = aset (a, f) st l) : st = (recvCount a (t'.rib f), accCount a (t'.rib f)) := by
  have h2 := h'.stats.get a f
  unfold statsGet at h2
  rw [hs, alookup_aset_self] at h2
  exact h2

/-- a step that leaves statistics and counters alone -/
theorem ctrFacts_same (h : Inv c g t) (h' : Inv c g t') (hs : t'.stats = t.stats) :
    (∀ a f, accCount a (t'.rib f) ≤ accCount a (t.rib f) + 1) ∧
    (∀ a f, recvCount a (t'.rib f) = recvCount a (t.rib f)) :=
  ⟨fun a f => by rw [(counts_of_stats_eq h h' hs a f).2]; omega, fun a f => (counts_of_stats_eq h h' hs a f).1⟩

/-! ## `insert` -/

theorem insertStats_fst {p : Profile} {sg st : Nat × Nat} {rep : Option Entry} {isNew filtered : Bool}
    (h : insertStats p sg rep isNew filtered = .ok st) (hr : rep.isSome = true → isNew = false) :
    st.1 = sg.1 + isNew.toNat := by
  unfold insertStats at h
  cases rep with
  | some old =>
    have hn := hr rfl
    subst hn
    simp only [] at h
    split at h
    · cases h; rfl
    · split at h
      · cases hs : subU64 p sg.2 1 with
        | panic => rw [hs] at h; cases h
        | ok a => rw [hs] at h; cases h; rfl
      · cases h; rfl
  | none =>
    simp only [] at h
    cases isNew <;> cases filtered <;> simp only [Bool.false_eq_true, if_false, if_true] at h <;> cases h <;> rfl

theorem eA_sublist {addr : Nat} {l l' : List Entry} (h : l'.Sublist l) : eA addr l' ≤ eA addr l :=
  (h.filter _).length_le

theorem ctrFacts_insert (p : Profile) (hinv : Inv c g t) (hinv' : Inv c g t') (src : Src) (fam : Fam) (net : Net)
    (rpid : Nat) (nh : Option Nat) (attr : Attrs) (filtered nhInv : Bool) {r : Res}
    (hstep : t.insert p src fam net rpid nh attr filtered nhInv = .ok (t', r)) :
    CtrFacts t (.insert src fam net rpid nh attr filtered nhInv) t' r := by
  obtain ⟨spec, hes, _⟩ := insert_plan_spec hinv src fam net rpid
  have hnew : (insertPlan t src fam net rpid).isNew = !(t.entries fam net).any (sameAddr src.addr) := by
    cases spec with
    | fresh _ _ _ hn => rw [hn, hes]
    | repl i old _ _ hi hm _ hn =>
      rw [hn, ← hes]
      have : (insertPlan t src fam net rpid).dst.entries.any (sameAddr src.addr) = true :=
        List.any_eq_true.mpr ⟨old, mem_of_getElem? hi, sameAddr_of_eq (addr_of_matchKey hm)⟩
      rw [this]; rfl
  have hrep : (insertPlan t src fam net rpid).replaced.isSome = true →
      (insertPlan t src fam net rpid).isNew = false := by
    cases spec with
    | fresh hr _ _ _ => rw [hr]; intro h; exact absurd h (by simp)
    | repl i old _ _ _ _ _ hn => exact fun _ => hn
  rw [insert_eq2] at hstep
  by_cases hlim : limitHit t src fam net rpid = true
  · rw [if_pos hlim] at hstep
    cases hstep
    unfold limitHit at hlim
    rw [Bool.and_eq_true] at hlim
    have ht : insertLimit t fam net (insertPlan t src fam net rpid) = t :=
      insertLimit_eq hinv src fam net rpid hlim.1
    rw [ht]
    refine ⟨fun a f => by omega, ?_, fun h => absurd rfl h⟩
    intro _
    refine ⟨by rw [← hnew]; exact hlim.1, ?_, rfl⟩
    have h2 := hlim.2
    cases hl : src.lim with
    | none => rw [hl] at h2; exact absurd h2 (by simp)
    | some max => rw [hl] at h2; exact ⟨max, rfl, by simpa using h2⟩
  · rw [if_neg hlim] at hstep
    cases hasp : attr.asPathLen p with
    | panic => rw [hasp] at hstep; cases hstep
    | ok aslen =>
      rw [hasp] at hstep
      simp only [] at hstep
      cases hst : insertStats p (statsGet t (src.addr, fam)) (insertPlan t src fam net rpid).replaced
          (insertPlan t src fam net rpid).isNew filtered with
      | panic => rw [hst] at hstep; cases hstep
      | ok st =>
        rw [hst] at hstep
        simp only [] at hstep
        rw [insertCommit_eq'] at hstep
        cases hstep
        have hstats : (insTable t src fam net (insertPlan t src fam net rpid)
            (newEntry (insertPlan t src fam net rpid) src nh attr rpid filtered nhInv aslen) st).stats =
            aset (src.addr, fam) st t.stats := by unfold insTable; rw [upd_stats]
        have hctrs : (insTable t src fam net (insertPlan t src fam net rpid)
            (newEntry (insertPlan t src fam net rpid) src nh attr rpid filtered nhInv aslen) st).ctrs =
            (if (insertPlan t src fam net rpid).isNew && src.lim.isSome then
              aset (src.id, fam) (atomicInc (t.ctr (src.id, fam))) t.ctrs else t.ctrs) := by
          unfold insTable; rw [upd_ctrs]
        have hself := counts_of_aset hinv' hstats
        have hsg := hinv.stats.get src.addr fam
        have h1 := insertStats_fst hst hrep
        rw [hsg] at h1
        simp only [] at h1
        have h2 : st.2 ≤ accCount src.addr (t.rib fam) + 1 := by
          have hcnt := dests_perm_old net (t.rib fam).dests src.addr
          rw [← entries_eq_oldEs, ← hes] at hcnt
          obtain ⟨st0, hst0, _, hb⟩ := insertStats_ok p spec (cmpFor t.flags net.t2)
            (e := newEntry (insertPlan t src fam net rpid) src nh attr rpid filtered nhInv aslen) rfl
            (recvCount src.addr (t.rib fam)) (accCount src.addr (t.rib fam))
            (by rw [accCount_eq, hcnt.2]; omega)
          rw [hsg] at hst
          have e0 : st0 = st := by
            have := hst0.symm.trans hst
            cases this; rfl
          subst e0
          have hp := insertSorted_perm (cmpFor t.flags net.t2)
            (newEntry (insertPlan t src fam net rpid) src nh attr rpid filtered nhInv aslen)
            (insertPlan t src fam net rpid).entries
          rw [eA_perm hp, eA_cons] at hb
          have hsub := eA_sublist (addr := src.addr) spec.sublist
          split at hb <;> omega
        have hoth : ∀ a f, (a, f) ≠ (src.addr, fam) →
            recvCount a ((insTable t src fam net (insertPlan t src fam net rpid)
              (newEntry (insertPlan t src fam net rpid) src nh attr rpid filtered nhInv aslen) st).rib f) =
              recvCount a (t.rib f) ∧
            accCount a ((insTable t src fam net (insertPlan t src fam net rpid)
              (newEntry (insertPlan t src fam net rpid) src nh attr rpid filtered nhInv aslen) st).rib f) =
              accCount a (t.rib f) := by
          intro a f hk
          exact counts_of_lookup hinv hinv' (by rw [hstats, alookup_aset_ne hk])
        have hnl : ∀ (b : Bool) (ch : Change), (if b then Res.noChange else Res.changed ch) ≠ Res.limit := by
          intro b ch; cases b <;> simp
        refine ⟨?_, fun h => absurd h (hnl _ _), fun _ => ⟨?_, fun a f hk => (hoth a f hk).1, ?_, ?_⟩⟩
        · intro a f
          by_cases hk : (a, f) = (src.addr, fam)
          · cases hk
            have e2 : st.2 = _ := congrArg Prod.snd hself
            simp only [] at e2
            rw [← e2]
            exact h2
          · rw [(hoth a f hk).2]; omega
        · have e1 : st.1 = _ := congrArg Prod.fst hself
          simp only [] at e1
          rw [← e1, h1, hnew]
        · rw [hctrs, hnew]
        · intro hn max hmax
          unfold limitHit at hlim
          rw [hnew, hn, hmax] at hlim
          simpa using hlim

/-! ## `remove` -/

theorem ctrFacts_remove (p : Profile) (hinv : Inv c g t) (hinv' : Inv c g t') (src : Src) (fam : Fam) (net : Net)
    (rpid : Nat) {r : Res} (hstep : t.remove p src fam net rpid = .ok (t', r)) :
    CtrFacts t (.remove src fam net rpid) t' r := by
  have hsame : t' = t → CtrFacts t (.remove src fam net rpid) t' r := by
    intro e; subst e
    exact ⟨fun a f => by omega, false, rfl, fun _ _ _ => rfl, rfl⟩
  cases h : alookup net (t.rib fam).dests with
  | none => rw [remove_eq_none h] at hstep; cases hstep; exact hsame rfl
  | some dst =>
    cases hf : dst.entries.findIdx? (matchKey src.addr rpid) with
    | none => rw [remove_eq_notfound h hf] at hstep; cases hstep; exact hsame rfl
    | some i =>
      obtain ⟨hlt, hm, _⟩ := List.findIdx?_eq_some_iff_getElem.mp hf
      have hi : dst.entries[i]? = some dst.entries[i] := List.getElem?_eq_getElem hlt
      generalize dst.entries[i] = removed at hm hi
      have hmem : removed ∈ dst.entries := mem_of_getElem? hi
      have haddr : removed.src.addr = src.addr := addr_of_matchKey hm
      have hperm := eraseIdx_perm hi
      have hold : oldEs net (t.rib fam).dests = dst.entries := by unfold oldEs; rw [h]
      have hdin : (net, dst) ∈ (t.rib fam).dests := alookup_some_mem h
      have hsI := hinv.stats src.addr fam
      cases hs : alookup (src.addr, fam) t.stats with
      | none =>
        rw [hs] at hsI
        have := hsI (net, dst) hdin
        have h2 : dst.entries.any (sameAddr src.addr) = true :=
          List.any_eq_true.mpr ⟨removed, hmem, sameAddr_of_eq haddr⟩
        rw [h2] at this; exact absurd this (by simp)
      | some st =>
        rw [hs] at hsI
        simp only [] at hsI
        have hcnt := dests_perm_old net (t.rib fam).dests src.addr
        rw [hold, eR_perm hperm, eA_perm hperm, eR_cons, eA_cons, sameAddr_of_eq haddr] at hcnt
        have hpg : (if (dst.entries.eraseIdx i).any (sameAddr src.addr) then 0 else 1) =
            1 - eR src.addr (dst.entries.eraseIdx i) := by
          unfold eR; split <;> rfl
        have hra : (if removed.filtered then 0 else 1) = (if (true && !removed.filtered) then 1 else 0) := by
          cases removed.filtered <;> rfl
        have hle := eR_le_one src.addr (dst.entries.eraseIdx i)
        have hrs := removeStats_ok_le p (R := recvCount src.addr (t.rib fam)) (A := accCount src.addr (t.rib fam))
          (pg := if (dst.entries.eraseIdx i).any (sameAddr src.addr) then 0 else 1)
          (ra := if removed.filtered then 0 else 1)
          (by rw [hpg, recvCount_eq, hcnt.1]; simp only [if_true]; omega)
          (by rw [hra, accCount_eq, hcnt.2]; omega)
        rw [← hsI] at hrs
        have heq := remove_eq_found h hf hi hs hrs
        rw [removeCommit_eq, hstep] at heq
        cases heq
        have hstats : (t.upd fam (remRib (t.rib fam) net dst (dst.entries.eraseIdx i))
            (aset (src.addr, fam) (recvCount src.addr (t.rib fam) -
                (if (dst.entries.eraseIdx i).any (sameAddr src.addr) then 0 else 1),
              accCount src.addr (t.rib fam) - (if removed.filtered then 0 else 1)) t.stats)
            (remCtrs t src fam (dst.entries.eraseIdx i))).stats = aset (src.addr, fam) _ t.stats := upd_stats ..
        have hself := counts_of_aset hinv' hstats
        have e1 := congrArg Prod.fst hself
        have e2 := congrArg Prod.snd hself
        simp only [] at e1 e2
        have hoth : ∀ a f, (a, f) ≠ (src.addr, fam) → _ := fun a f hk =>
          counts_of_lookup hinv hinv' (a := a) (f := f) (by rw [hstats, alookup_aset_ne hk])
        have hR1 : 1 ≤ recvCount src.addr (t.rib fam) := by
          rw [recvCount_eq, hcnt.1]; simp only [if_true]; omega
        refine ⟨?_, !(dst.entries.eraseIdx i).any (sameAddr src.addr), ?_, fun a f hk => (hoth a f hk).1, ?_⟩
        · intro a f
          by_cases hk : (a, f) = (src.addr, fam)
          · cases hk; rw [← e2]; omega
          · rw [(hoth a f hk).2]; omega
        · rw [← e1]
          cases (dst.entries.eraseIdx i).any (sameAddr src.addr)
          · simp only [Bool.false_eq_true, if_false, Bool.not_false, Bool.toNat_true]; omega
          · simp only [if_true, Bool.not_true, Bool.toNat_false]; omega
        · rw [upd_ctrs]; rfl

/-! ## purges -/

theorem ctrFacts_purge (p : Profile) (hinv : Inv c g t) (hinv' : Inv c g t') {addr : Nat} {fam : Fam}
    {pred : Entry → Bool} (ctr : Option Nat) (dropStats : Bool)
    (hp : ∀ e, pred e = true → sameAddr addr e = true)
    (hdrop : dropStats = true → pred = sameAddr addr) {r : Res}
    (hstep : t.purge p addr fam pred ctr dropStats = .ok (t', r)) :
    (∀ a f, accCount a (t'.rib f) ≤ accCount a (t.rib f) + 1) ∧ PurgeSpec t t' addr fam ctr := by
  obtain ⟨stats', hrun, hst, _, _⟩ := purge_stats (fam := fam) p ctr dropStats hp hdrop hinv
  rw [hrun] at hstep
  cases hstep
  have hne : ∀ nd ∈ (t.rib fam).dests, nd.2.entries ≠ [] :=
    fun nd hnd => ((hinv.rib fam).dest nd hnd).nonEmpty
  have hsh := purgeTable_shape t fam addr pred ctr stats'
  have hoth : ∀ a f, (a, f) ≠ (addr, fam) → _ := fun a f hk =>
    counts_of_lookup hinv hinv' (a := a) (f := f) (by rw [purgeTable_stats]; exact hst _ hk)
  refine ⟨?_, purgeGone fam addr pred (t.rib fam), ?_, fun a f hk => (hoth a f hk).1, rfl⟩
  · intro a f
    by_cases hk : (a, f) = (addr, fam)
    · cases hk
      rw [hsh.ribSame]
      have := accCount_purge_self fam hp hne
      omega
    · rw [(hoth a f hk).2]; omega
  · rw [hsh.ribSame]
    exact recvCount_purge_self fam hp hne

/-! ## every operation -/

theorem ctrFacts_step (p : Profile) (hinv : Inv c g t) (hinv' : Inv c g t') (op : Op) {r : Res}
    (hstep : t.step p op = .ok (t', r)) : CtrFacts t op t' r := by
  cases op with
  | insert src fam net rpid nh attr filtered nhInv =>
    exact ctrFacts_insert p hinv hinv' src fam net rpid nh attr filtered nhInv hstep
  | remove src fam net rpid => exact ctrFacts_remove p hinv hinv' src fam net rpid hstep
  | drop addr fam =>
    obtain ⟨h1, h2⟩ := ctrFacts_purge p hinv hinv' none true (fun _ h => h) (fun _ => rfl) hstep
    exact ⟨h1, h2⟩
  | dropStale addr fam ctr =>
    obtain ⟨h1, h2⟩ := ctrFacts_purge p hinv hinv' ctr false (fun e h => by simp at h; exact h.1)
      (fun h => by simp at h) hstep
    exact ⟨h1, h2⟩
  | dropLlgr addr fam ctr =>
    obtain ⟨h1, h2⟩ := ctrFacts_purge p hinv hinv' ctr false (fun e h => by simp at h; exact h.1)
      (fun h => by simp at h) hstep
    exact ⟨h1, h2⟩
  | dropNoLlgr addr fam ctr =>
    obtain ⟨h1, h2⟩ := ctrFacts_purge p hinv hinv' ctr false (fun e h => by simp at h; exact h.1)
      (fun h => by simp at h) hstep
    exact ⟨h1, h2⟩
  | restale addr fam =>
    cases hstep
    have hs : (t.restaleGen addr fam false).1.stats = t.stats := by simp [Table.restaleGen]
    obtain ⟨h1, h2⟩ := ctrFacts_same hinv hinv' hs
    exact ⟨h1, h2, by simp⟩
  | restaleLlgr addr fam =>
    cases hstep
    have hs : (t.restaleGen addr fam true).1.stats = t.stats := by simp [Table.restaleGen]
    obtain ⟨h1, h2⟩ := ctrFacts_same hinv hinv' hs
    exact ⟨h1, h2, by simp⟩
  | nhValidity nh reachable =>
    cases hstep
    obtain ⟨h1, h2⟩ := ctrFacts_same hinv hinv' (show (t.nhValidity nh reachable).1.stats = t.stats from rfl)
    exact ⟨h1, h2, rfl⟩
  | startDeferral fam =>
    cases hstep
    have hs : (t.startDeferral fam).stats = t.stats := by simp [Table.startDeferral]
    obtain ⟨h1, h2⟩ := ctrFacts_same hinv hinv' hs
    exact ⟨h1, h2, by simp [Table.startDeferral]⟩
  | endDeferral fam =>
    cases hstep
    have hs : (t.endDeferral fam).1.stats = t.stats := by simp [Table.endDeferral]
    obtain ⟨h1, h2⟩ := ctrFacts_same hinv hinv' hs
    exact ⟨h1, h2, by simp⟩

end

end Rbgp.Rib.C15
