/-
  Rbgp.Rib.CtrFacts — what one step of the model does to the recounts (`recvCount`, `accCount`, the
  per-session `sessCount`) and to the prefix-limit counters (`Table.ctrs`).  Used by the C15 theorems.
  The per-address recounts are read off the statistics, which the invariant ties to the RIB before and
  after the step; the per-session recount is followed through the RIB.
-/
import Rbgp.Rib.EntryInsert
import Rbgp.Rib.InvPurge
namespace Rbgp.Rib

/-- number of destinations with at least one path satisfying `q` -/
def cntBy (q : Entry → Bool) (r : Rib) : Nat := (r.dests.filter fun nd => nd.2.entries.any q).length

/-- recount of a session's limit counter: destinations with at least one path of that Source -/
def sessCount (i : Nat) (r : Rib) : Nat := cntBy (fun e => e.src.id == i) r

end Rbgp.Rib

namespace Rbgp.Rib.C15

/-! ## The statement -/

/-- what an `insert` / `remove` of source `src` for prefix (fam, net) does to the OTHER sessions' recounts:
    they can only go down, and stay if no path of theirs has the address of `src` -/
def OtherSess (t t' : Table) (src : Src) (fam : Fam) (net : Net) : Prop :=
  (∀ i f, (i, f) ≠ (src.id, fam) → sessCount i (t'.rib f) ≤ sessCount i (t.rib f)) ∧
  (∀ i f, (i, f) ≠ (src.id, fam) →
    (f = fam → ∀ x ∈ t.entries fam net, x.src.id = i → x.src.addr ≠ src.addr) →
    sessCount i (t'.rib f) = sessCount i (t.rib f))

/-- a purge of the paths of `a` in family `f` selected by `pred` that was handed the counter of source `ctr` -/
def PurgeSpec (t t' : Table) (a : Nat) (f : Fam) (ctr : Option Nat) (pred : Entry → Bool) : Prop :=
  ∃ gone, t'.ctrs = purgeCtrs t f gone ctr ∧
    (∀ i f', sessCount i (t'.rib f') ≤ sessCount i (t.rib f')) ∧
    (∀ i f', (f' = f → ∀ nd ∈ (t.rib f).dests, ∀ e ∈ nd.2.entries, e.src.id = i → pred e = false) →
      sessCount i (t'.rib f') = sessCount i (t.rib f')) ∧
    (∀ i, (∀ nd ∈ (t.rib f).dests, ∀ e ∈ nd.2.entries, (e.src.id = i ↔ e.src.addr = a)) →
      sessCount i (t'.rib f) + gone = sessCount i (t.rib f))

def CtrSpec (t t' : Table) (r : Res) : Op → Prop
  | .insert src fam net _ _ _ _ _ =>
      (r = .limit → ((t.entries fam net).any fun e => e.src.id == src.id) = false ∧
          (∃ max, src.lim = some max ∧ max ≤ t.ctr (src.id, fam)) ∧ t' = t) ∧
      (r ≠ .limit →
        sessCount src.id (t'.rib fam) =
          sessCount src.id (t.rib fam) + (!(t.entries fam net).any fun e => e.src.id == src.id).toNat ∧
        t'.ctrs = (if (!(t.entries fam net).any fun e => e.src.id == src.id) && src.lim.isSome then
            aset (src.id, fam) (atomicInc (t.ctr (src.id, fam))) t.ctrs else t.ctrs) ∧
        (((t.entries fam net).any fun e => e.src.id == src.id) = false → ∀ max, src.lim = some max →
          t.ctr (src.id, fam) < max) ∧
        OtherSess t t' src fam net)
  | .remove src fam net _ =>
      ∃ d : Bool, sessCount src.id (t'.rib fam) + d.toNat = sessCount src.id (t.rib fam) ∧
        t'.ctrs = (if d && src.lim.isSome then
            aset (src.id, fam) (atomicDec (t.ctr (src.id, fam))) t.ctrs else t.ctrs) ∧
        OtherSess t t' src fam net
  | .drop a f => PurgeSpec t t' a f none (sameAddr a)
  | .dropStale a f ctr => PurgeSpec t t' a f ctr (fun e => sameAddr a e && e.isStale t.flags)
  | .dropLlgr a f ctr => PurgeSpec t t' a f ctr (fun e => sameAddr a e && t.flags.llgr.contains e.src.id)
  | .dropNoLlgr a f ctr => PurgeSpec t t' a f ctr (fun e => sameAddr a e && e.attr.hasNoLlgr)
  | _ => (∀ i f, sessCount i (t'.rib f) = sessCount i (t.rib f)) ∧ t'.ctrs = t.ctrs

structure CtrFacts (t : Table) (op : Op) (t' : Table) (r : Res) : Prop where
  /-- no step adds more than one prefix / accepted path of a peer -/
  recvLe : ∀ a f, recvCount a (t'.rib f) ≤ recvCount a (t.rib f) + 1
  accLe : ∀ a f, accCount a (t'.rib f) ≤ accCount a (t.rib f) + 1
  spec : CtrSpec t t' r op

/-! ## Counting destinations -/

theorem any_congr_of_mem {α} {p q : α → Bool} {l : List α} (h : ∀ a ∈ l, p a = q a) : l.any p = l.any q := by
  induction l with
  | nil => rfl
  | cons a l ih =>
    simp only [List.any_cons, h a List.mem_cons_self, ih (fun b hb => h b (List.mem_cons_of_mem _ hb))]

theorem any_of_sublist {α} {q : α → Bool} {l l' : List α} (h : l'.Sublist l) (h' : l'.any q = true) :
    l.any q = true := by
  obtain ⟨x, hx, hq⟩ := List.any_eq_true.mp h'
  exact List.any_eq_true.mpr ⟨x, h.subset hx, hq⟩

theorem toNat_le_of_imp {a b : Bool} (h : a = true → b = true) : a.toNat ≤ b.toNat := by
  cases a <;> cases b <;> simp_all

def cntL (q : Entry → Bool) (l : List (Net × Dest)) : Nat := (l.filter fun nd => nd.2.entries.any q).length

theorem cntBy_eq (q : Entry → Bool) (r : Rib) : cntBy q r = cntL q r.dests := rfl

theorem cntL_perm {q : Entry → Bool} {l l' : List (Net × Dest)} (h : l.Perm l') : cntL q l = cntL q l' :=
  (h.filter _).length_eq

theorem cntL_cons (q : Entry → Bool) (nd : Net × Dest) (l : List (Net × Dest)) :
    cntL q (nd :: l) = (nd.2.entries.any q).toNat + cntL q l := by
  unfold cntL; rw [List.filter_cons]
  cases nd.2.entries.any q <;> simp <;> omega

theorem cntL_split (q : Entry → Bool) (net : Net) (dests : List (Net × Dest)) :
    cntL q dests = ((oldEs net dests).any q).toNat + cntL q (aerase net dests) := by
  unfold oldEs
  cases h : alookup net dests with
  | none => simp [aerase_of_lookup_none h]
  | some d => rw [cntL_perm (perm_aerase h), cntL_cons]

theorem cntL_aset (q : Entry → Bool) (net : Net) (d' : Dest) (dests : List (Net × Dest)) :
    cntL q (aset net d' dests) + ((oldEs net dests).any q).toNat = cntL q dests + (d'.entries.any q).toNat := by
  rw [cntL_perm (perm_aset net d' dests), cntL_cons, cntL_split q net dests]
  simp only []
  omega

theorem cntL_aerase (q : Entry → Bool) (net : Net) (dests : List (Net × Dest)) :
    cntL q (aerase net dests) + ((oldEs net dests).any q).toNat = cntL q dests := by
  rw [cntL_split q net dests]; omega

theorem cntL_map_congr {q : Entry → Bool} {F : Net × Dest → Net × Dest} {l : List (Net × Dest)}
    (h : ∀ nd ∈ l, (F nd).2.entries.any q = nd.2.entries.any q) : cntL q (l.map F) = cntL q l := by
  unfold cntL
  rw [List.filter_map, List.length_map]
  congr 1
  exact List.filter_congr h

theorem cntL_eq_sum (q : Entry → Bool) (l : List (Net × Dest)) :
    cntL q l = (l.map fun nd => (nd.2.entries.any q).toNat).sum := by
  unfold cntL; rw [length_filter_eq_sum]

theorem sum_map_le {α} {h k : α → Nat} {l : List α} (e : ∀ x ∈ l, h x ≤ k x) : (l.map h).sum ≤ (l.map k).sum := by
  induction l with
  | nil => simp
  | cons x l ih =>
    have := e x List.mem_cons_self
    have := ih (fun y hy => e y (List.mem_cons_of_mem _ hy))
    simp only [List.map_cons, List.sum_cons]
    omega

/-! ## Recounts through the statistics -/

section
variable {c : Case} {g : Nat → Fam} {t t' : Table}

theorem counts_of_lookup (h : Inv c g t) (h' : Inv c g t') {a : Nat} {f : Fam}
    (hl : alookup (a, f) t'.stats = alookup (a, f) t.stats) :
    recvCount a (t'.rib f) = recvCount a (t.rib f) ∧ accCount a (t'.rib f) = accCount a (t.rib f) := by
  have h1 := h.stats.get a f
  have h2 := h'.stats.get a f
  unfold statsGet at h1 h2
  rw [hl, h1] at h2
  exact ⟨(congrArg Prod.fst h2).symm, (congrArg Prod.snd h2).symm⟩

theorem counts_of_stats_eq (h : Inv c g t) (h' : Inv c g t') (hs : t'.stats = t.stats) (a : Nat) (f : Fam) :
    recvCount a (t'.rib f) = recvCount a (t.rib f) ∧ accCount a (t'.rib f) = accCount a (t.rib f) :=
  counts_of_lookup h h' (by rw [hs])

theorem counts_of_aset (h' : Inv c g t') {a : Nat} {f : Fam} {st : Nat × Nat} {l : List ((Nat × Fam) × (Nat × Nat))}
    (hs : t'.stats = aset (a, f) st l) : st = (recvCount a (t'.rib f), accCount a (t'.rib f)) := by
  have h2 := h'.stats.get a f
  unfold statsGet at h2
  rw [hs, alookup_aset_self] at h2
  exact h2

/-- a step that leaves the statistics alone -/
theorem le_of_stats_eq (h : Inv c g t) (h' : Inv c g t') (hs : t'.stats = t.stats) :
    (∀ a f, recvCount a (t'.rib f) ≤ recvCount a (t.rib f) + 1) ∧
    (∀ a f, accCount a (t'.rib f) ≤ accCount a (t.rib f) + 1) :=
  ⟨fun a f => by rw [(counts_of_stats_eq h h' hs a f).1]; omega,
   fun a f => by rw [(counts_of_stats_eq h h' hs a f).2]; omega⟩

/-! ## `insert` -/

theorem insertStats_fst {p : Profile} {sg st : Nat × Nat} {rep : Option Entry} {isNew filtered : Bool}
    (h : insertStats p sg rep isNew filtered = .ok st) (hr : rep.isSome = true → isNew = false) :
    st.1 = sg.1 + isNew.toNat := by
  unfold insertStats at h
  cases rep with
  | some old =>
    have hn := hr rfl
    subst hn
    simp only [] at h
    split at h
    · cases h; rfl
    · split at h
      · cases hs : subU64 p sg.2 1 with
        | panic => rw [hs] at h; cases h
        | ok a => rw [hs] at h; cases h; rfl
      · cases h; rfl
  | none =>
    simp only [] at h
    cases isNew <;> cases filtered <;> simp only [Bool.false_eq_true, if_false, if_true] at h <;> cases h <;> rfl

theorem eA_sublist {addr : Nat} {l l' : List Entry} (h : l'.Sublist l) : eA addr l' ≤ eA addr l :=
  (h.filter _).length_le

theorem plan_any_eq {dst : Dest} {a rpid : Nat} {pl : InsPlan} (spec : PlanSpec dst a rpid pl) {q : Entry → Bool}
    (h : ∀ x ∈ dst.entries, x.src.addr = a → q x = false) : pl.entries.any q = dst.entries.any q := by
  cases spec with
  | fresh _ he _ _ => rw [he]
  | repl i old _ he hi hm _ _ =>
    rw [he, (eraseIdx_perm hi).any_eq, List.any_cons, h old (mem_of_getElem? hi) (addr_of_matchKey hm)]
    rfl

/-- the destination of an accepted `insert`, counted -/
theorem insert_cnt (hinv : Inv c g t) (src : Src) (fam : Fam) (net : Net) (rpid : Nat) (e : Entry)
    (st : Nat × Nat) (q : Entry → Bool) :
    cntBy q ((insTable t src fam net (insertPlan t src fam net rpid) e st).rib fam) +
        ((t.entries fam net).any q).toNat =
      cntBy q (t.rib fam) + (q e || (insertPlan t src fam net rpid).entries.any q).toNat := by
  obtain ⟨_, _, hdests⟩ := insert_plan_spec hinv src fam net rpid
  unfold insTable
  rw [upd_rib_self, cntBy_eq, cntBy_eq]
  show cntL q (aset net (insDest t.flags net (insertPlan t src fam net rpid) e)
    (insertPlan t src fam net rpid).rib.dests) + _ = _
  rw [hdests, entries_eq_oldEs, cntL_aset]
  congr 2
  show (insertSorted (cmpFor t.flags net.t2) e (insertPlan t src fam net rpid).entries).any q = _
  rw [(insertSorted_perm _ _ _).any_eq, List.any_cons]

theorem insTable_rib_ne (src : Src) {fam f : Fam} (net : Net) (pl : InsPlan) (e : Entry) (st : Nat × Nat)
    (hf : f ≠ fam) : (insTable t src fam net pl e st).rib f = t.rib f := by
  unfold insTable; rw [upd_rib_ne _ _ _ _ hf]

theorem ctrFacts_insert (p : Profile) (hinv : Inv c g t) (hinv' : Inv c g t') (src : Src) (fam : Fam) (net : Net)
    (rpid : Nat) (nh : Option Nat) (attr : Attrs) (filtered nhInv : Bool) {r : Res}
    (hstep : t.insert p src fam net rpid nh attr filtered nhInv = .ok (t', r)) :
    CtrFacts t (.insert src fam net rpid nh attr filtered nhInv) t' r := by
  obtain ⟨spec, hes, _⟩ := insert_plan_spec hinv src fam net rpid
  have hhas : (insertPlan t src fam net rpid).sessHas = (t.entries fam net).any fun e => e.src.id == src.id := by
    rw [← hes, insertPlan_eq]; rfl
  have hrep : (insertPlan t src fam net rpid).replaced.isSome = true →
      (insertPlan t src fam net rpid).isNew = false := by
    cases spec with
    | fresh hr _ _ _ => rw [hr]; intro h; exact absurd h (by simp)
    | repl i old _ _ _ _ _ hn => exact fun _ => hn
  rw [insert_eq2] at hstep
  by_cases hlim : limitHit t src fam net rpid = true
  · rw [if_pos hlim] at hstep
    cases hstep
    unfold limitHit at hlim
    rw [Bool.and_eq_true] at hlim
    have ht : insertLimit t fam net (insertPlan t src fam net rpid) = t := insertLimit_eq hinv src fam net rpid
    rw [ht]
    refine ⟨fun a f => by omega, fun a f => by omega, ?_, fun h => absurd rfl h⟩
    intro _
    refine ⟨by rw [← hhas]; simpa using hlim.1, ?_, rfl⟩
    have h2 := hlim.2
    cases hl : src.lim with
    | none => rw [hl] at h2; exact absurd h2 (by simp)
    | some max => rw [hl] at h2; exact ⟨max, rfl, by simpa using h2⟩
  · rw [if_neg hlim] at hstep
    cases hasp : attr.asPathLen p with
    | panic => rw [hasp] at hstep; cases hstep
    | ok aslen =>
      rw [hasp] at hstep
      simp only [] at hstep
      cases hst : insertStats p (statsGet t (src.addr, fam)) (insertPlan t src fam net rpid).replaced
          (insertPlan t src fam net rpid).isNew filtered with
      | panic => rw [hst] at hstep; cases hstep
      | ok st =>
        rw [hst] at hstep
        simp only [] at hstep
        rw [insertCommit_eq'] at hstep
        cases hstep
        generalize hE : newEntry (insertPlan t src fam net rpid) src nh attr rpid filtered nhInv aslen = E at hinv' ⊢
        have hEsrc : E.src = src := by rw [← hE]; rfl
        have hstats : (insTable t src fam net (insertPlan t src fam net rpid) E st).stats =
            aset (src.addr, fam) st t.stats := by unfold insTable; rw [upd_stats]
        have hctrs : (insTable t src fam net (insertPlan t src fam net rpid) E st).ctrs =
            (if !(insertPlan t src fam net rpid).sessHas && src.lim.isSome then
              aset (src.id, fam) (atomicInc (t.ctr (src.id, fam))) t.ctrs else t.ctrs) := by
          unfold insTable; rw [upd_ctrs]
        have hself := counts_of_aset hinv' hstats
        have hsg := hinv.stats.get src.addr fam
        have h1 := insertStats_fst hst hrep
        rw [hsg] at h1
        simp only [] at h1
        have h2 : st.2 ≤ accCount src.addr (t.rib fam) + 1 := by
          have hcnt := dests_perm_old net (t.rib fam).dests src.addr
          rw [← entries_eq_oldEs, ← hes] at hcnt
          obtain ⟨st0, hst0, _, hb⟩ := insertStats_ok p spec (cmpFor t.flags net.t2) (e := E)
            (by rw [hEsrc]) (recvCount src.addr (t.rib fam)) (accCount src.addr (t.rib fam))
            (by rw [accCount_eq, hcnt.2]; omega)
          rw [hsg] at hst
          have hfil : E.filtered = filtered := by rw [← hE]; rfl
          rw [hfil] at hst0
          have e0 : st0 = st := by
            have := hst0.symm.trans hst
            cases this; rfl
          subst e0
          have hp := insertSorted_perm (cmpFor t.flags net.t2) E (insertPlan t src fam net rpid).entries
          rw [eA_perm hp, eA_cons] at hb
          have hsub := eA_sublist (addr := src.addr) spec.sublist
          split at hb <;> omega
        have hoth : ∀ a f, (a, f) ≠ (src.addr, fam) →
            recvCount a ((insTable t src fam net (insertPlan t src fam net rpid) E st).rib f) =
              recvCount a (t.rib f) ∧
            accCount a ((insTable t src fam net (insertPlan t src fam net rpid) E st).rib f) =
              accCount a (t.rib f) := by
          intro a f hk
          exact counts_of_lookup hinv hinv' (by rw [hstats, alookup_aset_ne hk])
        have hnl : ∀ (b : Bool) (ch : Change), (if b then Res.noChange else Res.changed ch) ≠ Res.limit := by
          intro b ch; cases b <;> simp
        have e1 : st.1 = _ := congrArg Prod.fst hself
        have e2 : st.2 = _ := congrArg Prod.snd hself
        simp only [] at e1 e2
        -- the per-session recounts
        have hcnt := fun i => insert_cnt hinv src fam net rpid E st (fun x => x.src.id == i)
        have hsub : ∀ i, (insertPlan t src fam net rpid).entries.any (fun x => x.src.id == i) = true →
            (t.entries fam net).any (fun x => x.src.id == i) = true := by
          intro i h; rw [← hes]; exact any_of_sublist spec.sublist h
        refine ⟨?_, ?_, fun h => absurd h (hnl _ _), fun _ => ⟨?_, ?_, ?_, ?_, ?_⟩⟩
        · intro a f
          by_cases hk : (a, f) = (src.addr, fam)
          · cases hk; rw [← e1, h1]; cases (insertPlan t src fam net rpid).isNew <;> simp
          · rw [(hoth a f hk).1]; omega
        · intro a f
          by_cases hk : (a, f) = (src.addr, fam)
          · cases hk; rw [← e2]; exact h2
          · rw [(hoth a f hk).2]; omega
        · have := hcnt src.id
          rw [hEsrc] at this
          simp only [beq_self_eq_true, Bool.true_or, Bool.toNat_true] at this
          unfold sessCount
          generalize ((t.entries fam net).any fun e => e.src.id == src.id) = b at this ⊢
          cases b <;>
            simp only [Bool.toNat_false, Bool.toNat_true, Bool.not_false, Bool.not_true] at this ⊢ <;> omega
        · rw [hctrs, hhas]
        · intro hn max hmax
          unfold limitHit at hlim
          rw [hhas, hn, hmax] at hlim
          simpa using hlim
        · intro i f hk
          by_cases hf : f = fam
          · subst hf
            have hi : (src.id == i) = false := by
              rw [beq_eq_false_iff_ne]; intro e; exact hk (by rw [e])
            have := hcnt i
            rw [hEsrc, hi, Bool.false_or] at this
            have hle := toNat_le_of_imp (hsub i)
            unfold sessCount
            omega
          · rw [insTable_rib_ne src net _ E st hf]; exact Nat.le_refl _
        · intro i f hk hno
          by_cases hf : f = fam
          · subst hf
            have hi : (src.id == i) = false := by
              rw [beq_eq_false_iff_ne]; intro e; exact hk (by rw [e])
            have := hcnt i
            rw [hEsrc, hi, Bool.false_or] at this
            have heq : (insertPlan t src f net rpid).entries.any (fun x => x.src.id == i) =
                (t.entries f net).any (fun x => x.src.id == i) := by
              rw [← hes]
              apply plan_any_eq spec
              intro x hx ha
              rw [beq_eq_false_iff_ne]
              intro hxi
              exact hno rfl x (by rw [← hes]; exact hx) hxi ha
            rw [heq] at this
            unfold sessCount
            omega
          · rw [insTable_rib_ne src net _ E st hf]

/-! ## `remove` -/

theorem remove_cnt {fam : Fam} {net : Net} {dst : Dest} (h : alookup net (t.rib fam).dests = some dst)
    (es' : List Entry) (st : List ((Nat × Fam) × (Nat × Nat))) (cs : List ((Nat × Fam) × Nat)) (q : Entry → Bool) :
    cntBy q ((t.upd fam (remRib (t.rib fam) net dst es') st cs).rib fam) + (dst.entries.any q).toNat =
      cntBy q (t.rib fam) + (es'.any q).toNat := by
  have hold : oldEs net (t.rib fam).dests = dst.entries := by unfold oldEs; rw [h]
  rw [upd_rib_self, cntBy_eq, cntBy_eq]
  unfold remRib
  split
  · rename_i he
    rw [List.isEmpty_iff.mp he]
    have := cntL_aerase q net (t.rib fam).dests
    rw [hold] at this
    simpa using this
  · have := cntL_aset q net { dst with entries := es' } (t.rib fam).dests
    rw [hold] at this
    exact this

theorem ctrFacts_remove (p : Profile) (hinv : Inv c g t) (hinv' : Inv c g t') (src : Src) (fam : Fam) (net : Net)
    (rpid : Nat) {r : Res} (hstep : t.remove p src fam net rpid = .ok (t', r)) :
    CtrFacts t (.remove src fam net rpid) t' r := by
  have hsame : t' = t → CtrFacts t (.remove src fam net rpid) t' r := by
    intro e; subst e
    exact ⟨fun a f => by omega, fun a f => by omega, false, rfl, rfl, fun _ _ _ => Nat.le_refl _,
      fun _ _ _ _ => rfl⟩
  cases h : alookup net (t.rib fam).dests with
  | none => rw [remove_eq_none h] at hstep; cases hstep; exact hsame rfl
  | some dst =>
    cases hf : dst.entries.findIdx? (matchKey src.addr rpid) with
    | none => rw [remove_eq_notfound h hf] at hstep; cases hstep; exact hsame rfl
    | some i =>
      obtain ⟨hlt, hm, _⟩ := List.findIdx?_eq_some_iff_getElem.mp hf
      have hi : dst.entries[i]? = some dst.entries[i] := List.getElem?_eq_getElem hlt
      generalize dst.entries[i] = removed at hm hi
      have hmem : removed ∈ dst.entries := mem_of_getElem? hi
      have haddr : removed.src.addr = src.addr := addr_of_matchKey hm
      have hperm := eraseIdx_perm hi
      have hold : oldEs net (t.rib fam).dests = dst.entries := by unfold oldEs; rw [h]
      have hent : t.entries fam net = dst.entries := by unfold Table.entries; rw [h]
      have hdin : (net, dst) ∈ (t.rib fam).dests := alookup_some_mem h
      have hsI := hinv.stats src.addr fam
      cases hs : alookup (src.addr, fam) t.stats with
      | none =>
        rw [hs] at hsI
        have := hsI (net, dst) hdin
        have h2 : dst.entries.any (sameAddr src.addr) = true :=
          List.any_eq_true.mpr ⟨removed, hmem, sameAddr_of_eq haddr⟩
        rw [h2] at this; exact absurd this (by simp)
      | some st =>
        rw [hs] at hsI
        simp only [] at hsI
        have hcnt := dests_perm_old net (t.rib fam).dests src.addr
        rw [hold, eR_perm hperm, eA_perm hperm, eR_cons, eA_cons, sameAddr_of_eq haddr] at hcnt
        have hpg : (if (dst.entries.eraseIdx i).any (sameAddr src.addr) then 0 else 1) =
            1 - eR src.addr (dst.entries.eraseIdx i) := by
          unfold eR; split <;> rfl
        have hra : (if removed.filtered then 0 else 1) = (if (true && !removed.filtered) then 1 else 0) := by
          cases removed.filtered <;> rfl
        have hle := eR_le_one src.addr (dst.entries.eraseIdx i)
        have hrs := removeStats_ok_le p (R := recvCount src.addr (t.rib fam)) (A := accCount src.addr (t.rib fam))
          (pg := if (dst.entries.eraseIdx i).any (sameAddr src.addr) then 0 else 1)
          (ra := if removed.filtered then 0 else 1)
          (by rw [hpg, recvCount_eq, hcnt.1]; simp only [if_true]; omega)
          (by rw [hra, accCount_eq, hcnt.2]; omega)
        rw [← hsI] at hrs
        have heq := remove_eq_found h hf hi hs hrs
        rw [removeCommit_eq, hstep] at heq
        cases heq
        have hstats : (t.upd fam (remRib (t.rib fam) net dst (dst.entries.eraseIdx i))
            (aset (src.addr, fam) (recvCount src.addr (t.rib fam) -
                (if (dst.entries.eraseIdx i).any (sameAddr src.addr) then 0 else 1),
              accCount src.addr (t.rib fam) - (if removed.filtered then 0 else 1)) t.stats)
            (remCtrs t src fam removed (dst.entries.eraseIdx i))).stats = aset (src.addr, fam) _ t.stats := upd_stats ..
        have hself := counts_of_aset hinv' hstats
        have e1 := congrArg Prod.fst hself
        have e2 := congrArg Prod.snd hself
        simp only [] at e1 e2
        have hoth : ∀ a f, (a, f) ≠ (src.addr, fam) → _ := fun a f hk =>
          counts_of_lookup hinv hinv' (a := a) (f := f) (by rw [hstats, alookup_aset_ne hk])
        have hq := fun k => remove_cnt (t := t) h (dst.entries.eraseIdx i)
          (aset (src.addr, fam) (recvCount src.addr (t.rib fam) -
                (if (dst.entries.eraseIdx i).any (sameAddr src.addr) then 0 else 1),
              accCount src.addr (t.rib fam) - (if removed.filtered then 0 else 1)) t.stats)
          (remCtrs t src fam removed (dst.entries.eraseIdx i)) (fun x => x.src.id == k)
        have hany : ∀ k, dst.entries.any (fun x => x.src.id == k) =
            (removed.src.id == k || (dst.entries.eraseIdx i).any fun x => x.src.id == k) := by
          intro k; rw [hperm.any_eq, List.any_cons]
        have hne : ∀ {f : Fam}, f ≠ fam → ∀ k, sessCount k ((t.upd fam (remRib (t.rib fam) net dst (dst.entries.eraseIdx i))
            (aset (src.addr, fam) (recvCount src.addr (t.rib fam) -
                (if (dst.entries.eraseIdx i).any (sameAddr src.addr) then 0 else 1),
              accCount src.addr (t.rib fam) - (if removed.filtered then 0 else 1)) t.stats)
            (remCtrs t src fam removed (dst.entries.eraseIdx i))).rib f) = sessCount k (t.rib f) := by
          intro f hf k; rw [upd_rib_ne _ _ _ _ hf]
        refine ⟨?_, ?_, removed.src.id == src.id && !((dst.entries.eraseIdx i).any fun x => x.src.id == src.id),
          ?_, ?_, ?_, ?_⟩
        · intro a f
          by_cases hk : (a, f) = (src.addr, fam)
          · cases hk; rw [← e1]; omega
          · rw [(hoth a f hk).1]; omega
        · intro a f
          by_cases hk : (a, f) = (src.addr, fam)
          · cases hk; rw [← e2]; omega
          · rw [(hoth a f hk).2]; omega
        · have := hq src.id
          rw [hany src.id] at this
          unfold sessCount
          generalize (removed.src.id == src.id) = b1 at this ⊢
          generalize ((dst.entries.eraseIdx i).any fun x => x.src.id == src.id) = b2 at this ⊢
          cases b1 <;> cases b2 <;> simp at this ⊢ <;> omega
        · rw [upd_ctrs]; unfold remCtrs; rfl
        · intro k f hk
          by_cases hf : f = fam
          · subst hf
            have := hq k
            rw [hany k] at this
            unfold sessCount
            generalize (removed.src.id == k) = b1 at this ⊢
            generalize ((dst.entries.eraseIdx i).any fun x => x.src.id == k) = b2 at this ⊢
            cases b1 <;> cases b2 <;> simp at this ⊢ <;> omega
          · rw [hne hf]; exact Nat.le_refl _
        · intro k f hk hno
          by_cases hf : f = fam
          · subst hf
            have hrk : (removed.src.id == k) = false := by
              rw [beq_eq_false_iff_ne]
              intro e
              exact hno rfl removed (by rw [hent]; exact hmem) e haddr
            have := hq k
            rw [hany k, hrk, Bool.false_or] at this
            unfold sessCount
            omega
          · rw [hne hf]

/-! ## purges -/

theorem cntBy_purge (fam : Fam) (addr : Nat) (pred : Entry → Bool) (q : Entry → Bool) {rib : Rib}
    (hne : ∀ nd ∈ rib.dests, nd.2.entries ≠ []) :
    cntBy q (purgeRib fam addr pred rib) =
      (rib.dests.map fun nd => ((keptD pred nd.2).entries.any q).toNat).sum := by
  unfold cntBy
  rw [purgeRib_dests fam addr pred hne]
  unfold keptDests
  rw [List.filter_filter, List.filter_map, List.length_map, length_filter_eq_sum]
  apply sum_map_congr
  intro nd _
  simp only [Function.comp]
  by_cases hk : (keptD pred nd.2).entries = []
  · simp [hk]
  · have he : (keptD pred nd.2).entries.isEmpty = false := by
      rw [Bool.eq_false_iff, Ne, List.isEmpty_iff]; exact hk
    rw [he]; simp

theorem ctrFacts_purge (p : Profile) (hinv : Inv c g t) (hinv' : Inv c g t') {addr : Nat} {fam : Fam}
    {pred : Entry → Bool} (ctr : Option Nat) (dropStats : Bool)
    (hp : ∀ e, pred e = true → sameAddr addr e = true)
    (hdrop : dropStats = true → pred = sameAddr addr) {r : Res}
    (hstep : t.purge p addr fam pred ctr dropStats = .ok (t', r)) :
    (∀ a f, recvCount a (t'.rib f) ≤ recvCount a (t.rib f) + 1) ∧
    (∀ a f, accCount a (t'.rib f) ≤ accCount a (t.rib f) + 1) ∧ PurgeSpec t t' addr fam ctr pred := by
  obtain ⟨stats', hrun, hst, _, _⟩ := purge_stats (fam := fam) p ctr dropStats hp hdrop hinv
  rw [hrun] at hstep
  cases hstep
  have hne : ∀ nd ∈ (t.rib fam).dests, nd.2.entries ≠ [] :=
    fun nd hnd => ((hinv.rib fam).dest nd hnd).nonEmpty
  have hsh := purgeTable_shape t fam addr pred ctr stats'
  have hoth : ∀ a f, (a, f) ≠ (addr, fam) → _ := fun a f hk =>
    counts_of_lookup hinv hinv' (a := a) (f := f) (by rw [purgeTable_stats]; exact hst _ hk)
  have hsum : ∀ q : Entry → Bool, cntBy q (t.rib fam) =
      ((t.rib fam).dests.map fun nd => (nd.2.entries.any q).toNat).sum := fun q => cntL_eq_sum q _
  have hsub : ∀ nd : Net × Dest, (keptD pred nd.2).entries.Sublist nd.2.entries := fun nd => List.filter_sublist
  refine ⟨?_, ?_, purgeGone fam addr pred (t.rib fam), rfl, ?_, ?_, ?_⟩
  · intro a f
    by_cases hk : (a, f) = (addr, fam)
    · cases hk
      rw [hsh.ribSame]
      have := recvCount_purge_self fam hp hne
      omega
    · rw [(hoth a f hk).1]; omega
  · intro a f
    by_cases hk : (a, f) = (addr, fam)
    · cases hk
      rw [hsh.ribSame]
      have := accCount_purge_self fam hp hne
      omega
    · rw [(hoth a f hk).2]; omega
  · intro i f'
    by_cases hf : f' = fam
    · subst hf
      unfold sessCount
      rw [hsh.ribSame, cntBy_purge f' addr pred _ hne, hsum]
      exact sum_map_le fun nd _ => toNat_le_of_imp (any_of_sublist (hsub nd))
    · rw [hsh.ribOther f' hf]; exact Nat.le_refl _
  · intro i f' hno
    by_cases hf : f' = fam
    · subst hf
      unfold sessCount
      rw [hsh.ribSame, cntBy_purge f' addr pred _ hne, hsum]
      apply sum_map_congr
      intro nd hnd
      congr 1
      rw [keptD_entries, List.any_filter]
      apply any_congr_of_mem
      intro e he
      cases hq : (e.src.id == i)
      · simp
      · have : pred e = false := hno rfl nd hnd e he (by simpa using hq)
        simp [this]
    · rw [hsh.ribOther f' hf]
  · intro i hag
    have hq : ∀ nd ∈ (t.rib fam).dests, ∀ e ∈ nd.2.entries, (e.src.id == i) = sameAddr addr e := by
      intro nd hnd e he
      rw [Bool.eq_iff_iff, beq_iff_eq]
      simp only [sameAddr, beq_iff_eq]
      exact hag nd hnd e he
    have h1 : sessCount i (t.rib fam) = recvCount addr (t.rib fam) := by
      unfold sessCount cntBy recvCount
      congr 1
      exact List.filter_congr fun nd hnd => any_congr_of_mem (hq nd hnd)
    have h2 : sessCount i (purgeRib fam addr pred (t.rib fam)) = recvCount addr (purgeRib fam addr pred (t.rib fam)) := by
      unfold sessCount
      rw [cntBy_purge fam addr pred _ hne, recvCount_purge fam addr pred addr hne]
      apply sum_map_congr
      intro nd hnd
      congr 1
      exact any_congr_of_mem fun e he => hq nd hnd e ((hsub nd).subset he)
    rw [hsh.ribSame, h1, h2]
    exact recvCount_purge_self fam hp hne

/-! ## every operation -/

theorem ctrFacts_mapped (hinv : Inv c g t) (hinv' : Inv c g t') (hs : t'.stats = t.stats) (hc : t'.ctrs = t.ctrs)
    {F : Fam → Net × Dest → Net × Dest} (hd : ∀ f, (t'.rib f).dests = (t.rib f).dests.map (F f))
    (hF : ∀ f, ∀ nd ∈ (t.rib f).dests, ∀ i,
      ((F f nd).2.entries.any fun e => e.src.id == i) = nd.2.entries.any fun e => e.src.id == i) :
    (∀ a f, recvCount a (t'.rib f) ≤ recvCount a (t.rib f) + 1) ∧
    (∀ a f, accCount a (t'.rib f) ≤ accCount a (t.rib f) + 1) ∧
    (∀ i f, sessCount i (t'.rib f) = sessCount i (t.rib f)) ∧ t'.ctrs = t.ctrs := by
  obtain ⟨h1, h2⟩ := le_of_stats_eq hinv hinv' hs
  refine ⟨h1, h2, ?_, hc⟩
  intro i f
  unfold sessCount
  rw [cntBy_eq, cntBy_eq, hd f]
  exact cntL_map_congr fun nd hnd => hF f nd hnd i

/-! ### `restale`, `update_nexthop_validity`, deferral: the paths of every destination stay (up to order
    and the next-hop validity bit) -/

theorem restaleDest_any (fam : Fam) (addr : Nat) (m : Bool) (fl : Flags) (nd : Net × Dest) (q : Entry → Bool) :
    (restaleDest fam addr m fl nd).2.1.2.entries.any q = nd.2.entries.any q := by
  obtain ⟨net, dst⟩ := nd
  unfold restaleDest
  simp only []
  split
  · rfl
  · exact (sortBy_perm _ _).any_eq

theorem restaleLoop_cnt (fam : Fam) (addr : Nat) (m : Bool) (q : Entry → Bool) :
    ∀ (l : List (Net × Dest)) (fl : Flags), cntL q (restaleLoop fam addr m l fl).2.1 = cntL q l := by
  intro l
  induction l with
  | nil => intro fl; rfl
  | cons nd l ih =>
    intro fl
    have h1 := restaleDest_any fam addr m fl nd q
    have h2 := ih (restaleDest fam addr m fl nd).1
    show cntL q ((restaleDest fam addr m fl nd).2.1 ::
      (restaleLoop fam addr m l (restaleDest fam addr m fl nd).1).2.1) = _
    rw [cntL_cons, cntL_cons, h1, h2]

theorem restaleGen_dests' (addr : Nat) (fam : Fam) (m : Bool) (f : Fam) :
    ((t.restaleGen addr fam m).1.rib f).dests =
      if f = fam then (restaleLoop fam addr m (t.rib fam).dests t.flags).2.1 else (t.rib f).dests := by
  cases fam <;> cases f <;> rfl

theorem nhvDest_any (fam : Fam) (nh : Nat) (reachable : Bool) (nd : Net × Dest) (i : Nat) :
    ((nhvDest fam nh reachable nd).1.2.entries.any fun e => e.src.id == i) =
      nd.2.entries.any fun e => e.src.id == i := by
  obtain ⟨net, dst⟩ := nd
  unfold nhvDest
  simp only []
  split
  · rfl
  · simp only [List.any_map]
    apply any_congr_of_mem
    intro e _
    simp only [Function.comp]
    split <;> rfl

theorem nhValidity_dests (nh : Nat) (reachable : Bool) (f : Fam) :
    ((t.nhValidity nh reachable).1.rib f).dests = (t.rib f).dests.map fun nd => (nhvDest f nh reachable nd).1 := by
  cases f <;> simp [Table.nhValidity, Table.rib, Rib.nhv, List.map_map, Function.comp_def]

theorem setDeferring_dests' (fam : Fam) (b : Bool) (f : Fam) :
    ((t.setRib fam { t.rib fam with deferring := b }).rib f).dests = (t.rib f).dests := by
  cases fam <;> cases f <;> rfl

theorem ctrFacts_step (p : Profile) (hinv : Inv c g t) (hinv' : Inv c g t') (op : Op) {r : Res}
    (hstep : t.step p op = .ok (t', r)) : CtrFacts t op t' r := by
  have hgen : t'.stats = t.stats → t'.ctrs = t.ctrs →
      (∀ i f, cntL (fun e => e.src.id == i) (t'.rib f).dests = cntL (fun e => e.src.id == i) (t.rib f).dests) →
      (∀ a f, recvCount a (t'.rib f) ≤ recvCount a (t.rib f) + 1) ∧
      (∀ a f, accCount a (t'.rib f) ≤ accCount a (t.rib f) + 1) ∧
      (∀ i f, sessCount i (t'.rib f) = sessCount i (t.rib f)) ∧ t'.ctrs = t.ctrs := by
    intro hs hc hd
    obtain ⟨h1, h2⟩ := le_of_stats_eq hinv hinv' hs
    exact ⟨h1, h2, fun i f => hd i f, hc⟩
  have hrestale : ∀ addr fam m, t' = (t.restaleGen addr fam m).1 →
      (∀ a f, recvCount a (t'.rib f) ≤ recvCount a (t.rib f) + 1) ∧
      (∀ a f, accCount a (t'.rib f) ≤ accCount a (t.rib f) + 1) ∧
      (∀ i f, sessCount i (t'.rib f) = sessCount i (t.rib f)) ∧ t'.ctrs = t.ctrs := by
    intro addr fam m e
    subst e
    refine hgen (by simp [Table.restaleGen]) (by simp [Table.restaleGen]) ?_
    intro i f
    rw [restaleGen_dests']
    by_cases hf : f = fam
    · subst hf; rw [if_pos rfl]; exact restaleLoop_cnt f addr m _ _ _
    · rw [if_neg hf]
  cases op with
  | insert src fam net rpid nh attr filtered nhInv =>
    exact ctrFacts_insert p hinv hinv' src fam net rpid nh attr filtered nhInv hstep
  | remove src fam net rpid => exact ctrFacts_remove p hinv hinv' src fam net rpid hstep
  | drop addr fam =>
    obtain ⟨h1, h2, h3⟩ := ctrFacts_purge p hinv hinv' none true (fun _ h => h) (fun _ => rfl) hstep
    exact ⟨h1, h2, h3⟩
  | dropStale addr fam ctr =>
    obtain ⟨h1, h2, h3⟩ := ctrFacts_purge p hinv hinv' ctr false (fun e h => by simp at h; exact h.1)
      (fun h => by simp at h) hstep
    exact ⟨h1, h2, h3⟩
  | dropLlgr addr fam ctr =>
    obtain ⟨h1, h2, h3⟩ := ctrFacts_purge p hinv hinv' ctr false (fun e h => by simp at h; exact h.1)
      (fun h => by simp at h) hstep
    exact ⟨h1, h2, h3⟩
  | dropNoLlgr addr fam ctr =>
    obtain ⟨h1, h2, h3⟩ := ctrFacts_purge p hinv hinv' ctr false (fun e h => by simp at h; exact h.1)
      (fun h => by simp at h) hstep
    exact ⟨h1, h2, h3⟩
  | restale addr fam =>
    obtain ⟨h1, h2, h3, h4⟩ := hrestale addr fam false (by cases hstep; rfl)
    exact ⟨h1, h2, h3, h4⟩
  | restaleLlgr addr fam =>
    obtain ⟨h1, h2, h3, h4⟩ := hrestale addr fam true (by cases hstep; rfl)
    exact ⟨h1, h2, h3, h4⟩
  | nhValidity nh reachable =>
    have e : t' = (t.nhValidity nh reachable).1 := by cases hstep; rfl
    subst e
    obtain ⟨h1, h2, h3, h4⟩ := hgen rfl rfl (by
      intro i f
      rw [nhValidity_dests]
      exact cntL_map_congr fun nd _ => nhvDest_any f nh reachable nd i)
    exact ⟨h1, h2, h3, h4⟩
  | startDeferral fam =>
    have e : t' = t.startDeferral fam := by cases hstep; rfl
    subst e
    obtain ⟨h1, h2, h3, h4⟩ := hgen (by simp [Table.startDeferral]) (by simp [Table.startDeferral])
      (fun i f => by unfold Table.startDeferral; rw [setDeferring_dests'])
    exact ⟨h1, h2, h3, h4⟩
  | endDeferral fam =>
    have e : t' = (t.endDeferral fam).1 := by cases hstep; rfl
    subst e
    obtain ⟨h1, h2, h3, h4⟩ := hgen (by simp [Table.endDeferral]) (by simp [Table.endDeferral])
      (fun i f => by unfold Table.endDeferral; rw [setDeferring_dests'])
    exact ⟨h1, h2, h3, h4⟩

end

end Rbgp.Rib.C15
