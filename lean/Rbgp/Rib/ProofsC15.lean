/-
  Rbgp.Rib.ProofsC15 — the C15 theorems: the limit counter of a session follows the recount of the
  session's own paths (`GInv`), the partial master theorem (the reference checker accepts every run of a
  case with one session per limited peer) and the refutation of the full-strength statement.
-/
import Rbgp.Rib.CtrFacts
import Rbgp.Rib.ObsC15
import Rbgp.Rib.Run
import Rbgp.Rib.GoodDef
namespace Rbgp.Rib
open SpecC15

/-! ## The histories covered -/

/-- what both codecs guarantee about a stale-path purge that is handed a limit counter: the named
    source exists, has a prefix limit, has the purged address and is the only source of the case with
    that address (so that settling the counter by address is settling it by source) -/
def PurgeArgOk (c : Case) (a : Nat) (ctr : Option Nat) : Prop :=
  ∀ i, ctr = some i → ∃ s, c.srcs[i]? = some s ∧ s.lim.isSome = true ∧ s.addr = a ∧
    ∀ s' ∈ c.srcs, s'.addr = a → s'.id = i

def Op.PurgeCtrOk (c : Case) : Op → Prop
  | .dropStale a _ ctr => PurgeArgOk c a ctr
  | .dropLlgr a _ ctr => PurgeArgOk c a ctr
  | .dropNoLlgr a _ ctr => PurgeArgOk c a ctr
  | _ => True

def Case.PurgeCtrOk (c : Case) : Prop := ∀ op ∈ c.ops, op.PurgeCtrOk c

/-- fewer than 2^63 steps, so that no honest 64-bit count reaches the "underflow" half -/
def Case.Short (c : Case) : Prop := c.ops.length < SpecC15.HALF

/-- a session with a prefix limit is the only source of its peer address (no restarted session of a
    limited peer: the histories outside the open finding) -/
def Case.OneSession (c : Case) : Prop :=
  ∀ s1 ∈ c.srcs, ∀ s2 ∈ c.srcs, s1.addr = s2.addr → s1.lim.isSome = true → s1 = s2

instance (c : Case) : Decidable c.Short := by unfold Case.Short; exact inferInstance
instance (c : Case) : Decidable c.OneSession := by unfold Case.OneSession; exact inferInstance

/-- the operations that settle the counter of session `s` in family `f` -/
def Op.targets (s : Src) (f : Fam) : Op → Bool
  | .insert src fam .. => fam == f && src.id == s.id
  | .remove src fam .. => fam == f && src.id == s.id
  | .dropStale a fam ctr => fam == f && a == s.addr && ctr.isSome
  | .dropLlgr a fam ctr => fam == f && a == s.addr && ctr.isSome
  | .dropNoLlgr a fam ctr => fam == f && a == s.addr && ctr.isSome
  | _ => false

/-- the operations that may take paths of session `s` in family `f` away without settling its counter:
    an announcement / withdrawal by ANOTHER session of the same peer, a drop of the peer, a purge of
    its stale paths that is handed no counter -/
def Op.disturbs (s : Src) (f : Fam) : Op → Bool
  | .insert src fam .. => fam == f && src.addr == s.addr && src.id != s.id
  | .remove src fam .. => fam == f && src.addr == s.addr && src.id != s.id
  | .drop a fam => fam == f && a == s.addr
  | .dropStale a fam ctr => fam == f && a == s.addr && ctr.isNone
  | .dropLlgr a fam ctr => fam == f && a == s.addr && ctr.isNone
  | .dropNoLlgr a fam ctr => fam == f && a == s.addr && ctr.isNone
  | _ => false

end Rbgp.Rib

namespace Rbgp.Rib.C15
open SpecC15

/-! ## Counter arithmetic -/

theorem half_lt_u64 : HALF < U64 := by decide

theorem atomicInc_small {v : Nat} (h : v < HALF) : atomicInc v = v + 1 := by
  unfold atomicInc
  have := half_lt_u64
  unfold HALF at h this
  exact Nat.mod_eq_of_lt (by unfold U64 at *; omega)

theorem atomicDec_pos {v : Nat} (h : 1 ≤ v) : atomicDec v = v - 1 := by
  unfold atomicDec; rw [if_neg (by omega)]

theorem atomicDecN_small {k v : Nat} (hk : k ≤ v) (hv : v < HALF) : atomicDecN k v = v - k := by
  unfold atomicDecN
  unfold HALF at hv
  have h1 : k % U64 = k := Nat.mod_eq_of_lt (by unfold U64; omega)
  rw [h1]
  have h2 : v + U64 - k = (v - k) + U64 := by omega
  rw [h2, Nat.add_mod_right]
  exact Nat.mod_eq_of_lt (by unfold U64; omega)

theorem ctr_of_ctrs_eq {t t' : Table} (h : t'.ctrs = t.ctrs) (k : Nat × Fam) : t'.ctr k = t.ctr k := by
  unfold Table.ctr; rw [h]

theorem ctr_aset_self {t t' : Table} {k : Nat × Fam} {v : Nat} (h : t'.ctrs = aset k v t.ctrs) : t'.ctr k = v := by
  unfold Table.ctr; rw [h, alookup_aset_self]

theorem ctr_aset_ne {t t' : Table} {k k' : Nat × Fam} {v : Nat} (h : t'.ctrs = aset k v t.ctrs) (hk : k' ≠ k) :
    t'.ctr k' = t.ctr k' := by
  unfold Table.ctr; rw [h, alookup_aset_ne hk]

/-! ## Sessions in progress -/

def isLive (live : List Live) (i : Nat) (f : Fam) : Prop := ∃ l ∈ live, l.src = i ∧ l.fam = f

theorem isLive_of_mem {live : List Live} {l : Live} (h : l ∈ live) : isLive live l.src l.fam := ⟨l, h, rfl, rfl⟩

theorem isLive_activate {c : Case} (hone : ∀ s1 ∈ c.srcs, ∀ s2 ∈ c.srcs, s1.addr = s2.addr → s1.lim.isSome = true → s1 = s2)
    {st : St} (hlive : ∀ i f, isLive st.live i f → ∃ s : Src, s.WF c ∧ s.lim.isSome = true ∧ i = s.id)
    {s : Src} (hs : s.lim.isSome = true → s.WF c) (f0 : Fam) (i : Nat) (f : Fam) :
    isLive (activate c st s f0) i f ↔
      isLive st.live i f ∨ (s.lim.isSome = true ∧ (s.id, f0) ∉ st.dead ∧ i = s.id ∧ f = f0) := by
  unfold activate
  by_cases h1 : (s.lim.isNone || st.dead.contains (s.id, f0)) = true
  · rw [if_pos h1]
    constructor
    · exact Or.inl
    · rintro (h | ⟨hl, hd, _⟩)
      · exact h
      · exfalso
        rw [Bool.or_eq_true] at h1
        rcases h1 with h1 | h1
        · cases hh : s.lim <;> simp [hh] at hl h1
        · exact hd (List.contains_iff_mem.mp h1)
  · rw [if_neg h1]
    rw [Bool.or_eq_true, not_or] at h1
    have hlim : s.lim.isSome = true := by cases hh : s.lim <;> simp [hh] at h1 ⊢
    have hnd : (s.id, f0) ∉ st.dead := fun hm => h1.2 (List.contains_iff_mem.mpr hm)
    by_cases h2 : (st.live.any fun l => decide (l.src = s.id ∧ l.fam = f0)) = true
    · rw [if_pos h2]
      constructor
      · exact Or.inl
      · rintro (h | ⟨_, _, rfl, rfl⟩)
        · exact h
        · obtain ⟨l, hl, hq⟩ := List.any_eq_true.mp h2
          exact ⟨l, hl, of_decide_eq_true hq⟩
    · rw [if_neg h2]
      constructor
      · rintro ⟨l, hl, rfl, rfl⟩
        rcases List.mem_cons.mp hl with rfl | hl
        · exact Or.inr ⟨hlim, hnd, rfl, rfl⟩
        · exact Or.inl ⟨l, (List.mem_filter.mp hl).1, rfl, rfl⟩
      · rintro (⟨l, hl, rfl, rfl⟩ | ⟨_, _, rfl, rfl⟩)
        · by_cases hq : (!(decide (l.fam = f0) && (addrOf c l.src == some s.addr))) = true
          · exact ⟨l, List.mem_cons_of_mem _ (List.mem_filter.mpr ⟨hl, hq⟩), rfl, rfl⟩
          · -- a live session of the same peer and family is this very session
            simp only [Bool.not_eq_true', Bool.not_eq_false, Bool.and_eq_true, decide_eq_true_eq, beq_iff_eq] at hq
            obtain ⟨s', hs', hl', hid⟩ := hlive l.src l.fam (isLive_of_mem hl)
            have ha : addrOf c l.src = some s'.addr := by rw [hid]; exact addrOf_wf hs'
            rw [ha, Option.some.injEq] at hq
            have : s' = s := hone s' (src_mem_of_wf hs') s (src_mem_of_wf (hs hlim)) hq.2 hl'
            subst this
            exact ⟨_, List.mem_cons_self, hid.symm, hq.1.symm⟩
        · exact ⟨_, List.mem_cons_self, rfl, rfl⟩

theorem kill_match_iff (c : Case) (a : Nat) (f f0 : Fam) (i : Nat) :
    (decide (f = f0) && (addrOf c i == some a)) = true ↔ f = f0 ∧ addrOf c i = some a := by
  simp

theorem isLive_deactivate (c : Case) (live : List Live) (a : Nat) (f0 : Fam) (i : Nat) (f : Fam) :
    isLive (deactivate c live a f0) i f ↔ isLive live i f ∧ ¬ (f = f0 ∧ addrOf c i = some a) := by
  unfold deactivate isLive
  constructor
  · rintro ⟨l, hl, rfl, rfl⟩
    obtain ⟨hm, hq⟩ := List.mem_filter.mp hl
    refine ⟨⟨l, hm, rfl, rfl⟩, ?_⟩
    intro h
    rw [(kill_match_iff c a l.fam f0 l.src).mpr h] at hq
    exact absurd hq (by simp)
  · rintro ⟨⟨l, hl, rfl, rfl⟩, hq⟩
    refine ⟨l, List.mem_filter.mpr ⟨hl, ?_⟩, rfl, rfl⟩
    cases hm : (decide (l.fam = f0) && (addrOf c l.src == some a))
    · rfl
    · exact absurd ((kill_match_iff c a l.fam f0 l.src).mp hm) hq

theorem mem_dead_kill (c : Case) (st : St) (a : Nat) (f0 : Fam) (i : Nat) (f : Fam) :
    (i, f) ∈ ((st.live.filter fun l => l.fam = f0 && addrOf c l.src == some a).map fun l => (l.src, l.fam)) ++ st.dead ↔
      (isLive st.live i f ∧ f = f0 ∧ addrOf c i = some a) ∨ (i, f) ∈ st.dead := by
  rw [List.mem_append, List.mem_map]
  constructor
  · rintro (⟨l, hl, he⟩ | h)
    · obtain ⟨hm, hq⟩ := List.mem_filter.mp hl
      cases he
      simp only [Bool.and_eq_true, decide_eq_true_eq, beq_iff_eq] at hq
      exact Or.inl ⟨⟨l, hm, rfl, rfl⟩, hq.1, hq.2⟩
    · exact Or.inr h
  · rintro (⟨⟨l, hl, rfl, rfl⟩, hf, ha⟩ | h)
    · exact Or.inl ⟨l, List.mem_filter.mpr ⟨hl, by simp [hf, ha]⟩, rfl⟩
    · exact Or.inr h

/-! ## One step, seen from one limited session -/

section Count
variable {c : Case} {g : Nat → Fam} {t t' : Table} {r : Res}

theorem entries_wf (hinv : Inv c g t) {f : Fam} {n : Net} {x : Entry} (hx : x ∈ t.entries f n) : x.src.WF c := by
  unfold Table.entries at hx
  cases hl : alookup n (t.rib f).dests with
  | none => rw [hl] at hx; simp at hx
  | some d =>
    rw [hl] at hx
    exact (((hinv.rib f).dest _ (alookup_some_mem hl)).srcOk x hx).1

/-- with one session per limited peer, the recount by source is the recount by address -/
theorem sess_eq_recv (hone : c.OneSession) {fl : Flags} {f : Fam} {rib : Rib} (hr : RibInv c g fl f rib)
    {s : Src} (hw : s.WF c) (hl : s.lim.isSome = true) : sessCount s.id rib = recvCount s.addr rib := by
  unfold sessCount cntBy recvCount
  congr 1
  apply List.filter_congr
  intro nd hnd
  apply any_congr_of_mem
  intro e he
  have hew := ((hr.dest nd hnd).srcOk e he).1
  rw [Bool.eq_iff_iff, beq_iff_eq]
  simp only [sameAddr, beq_iff_eq]
  constructor
  · intro h; rw [src_eq_of_id hew hw h]
  · intro h
    have := hone s (src_mem_of_wf hw) e.src (src_mem_of_wf hew) h.symm hl
    rw [← this]

/-- the three outcomes of a step for the pair (recount, counter) of one limited session: both move
    together (by at most one up, or down), or the step took paths away without settling the counter -/
def Moved (t t' : Table) (s : Src) (f : Fam) (tg dist : Bool) : Prop :=
  (∃ up dn : Nat, up ≤ 1 ∧ dn ≤ sessCount s.id (t.rib f) ∧
      sessCount s.id (t'.rib f) + dn = sessCount s.id (t.rib f) + up ∧
      t'.ctr (s.id, f) + dn = t.ctr (s.id, f) + up ∧ (tg = false → up = 0 ∧ dn = 0)) ∨
  (dist = true ∧ sessCount s.id (t'.rib f) ≤ sessCount s.id (t.rib f) ∧ t'.ctr (s.id, f) = t.ctr (s.id, f))

theorem moved_same {s : Src} {f : Fam} (tg dist : Bool) (h1 : sessCount s.id (t'.rib f) = sessCount s.id (t.rib f))
    (h2 : t'.ctr (s.id, f) = t.ctr (s.id, f)) : Moved t t' s f tg dist :=
  Or.inl ⟨0, 0, by omega, by omega, by omega, by omega, fun _ => ⟨rfl, rfl⟩⟩

theorem count_purge (hinv : Inv c g t) {a : Nat} {f0 : Fam} {ctr : Option Nat} (hpo : PurgeArgOk c a ctr)
    {pred : Entry → Bool} (hp : ∀ e, pred e = true → sameAddr a e = true)
    (hspec : PurgeSpec t t' a f0 ctr pred) {s : Src} (hw : s.WF c) (f : Fam)
    (hge : sessCount s.id (t.rib f) ≤ t.ctr (s.id, f)) (hlt : t.ctr (s.id, f) < HALF) :
    Moved t t' s f (f0 == f && a == s.addr && ctr.isSome) (f0 == f && a == s.addr && ctr.isNone) := by
  obtain ⟨gone, hctrs, hle, hsame, hagree⟩ := hspec
  by_cases htg : s.addr = a ∧ f = f0
  · obtain ⟨rfl, rfl⟩ := htg
    cases hc : ctr with
    | none =>
      rw [hc] at hctrs
      exact Or.inr ⟨by simp, hle s.id f, ctr_of_ctrs_eq hctrs _⟩
    | some i =>
      obtain ⟨s0, hs0, _, _, hall⟩ := hpo i hc
      have hi : s.id = i := hall s (src_mem_of_wf hw) rfl
      subst hi
      have hag := hagree s.id (by
        intro nd hnd e he
        have hew := (((hinv.rib f).dest nd hnd).srcOk e he).1
        constructor
        · intro h; rw [src_eq_of_id hew hw h]
        · intro h; exact hall e.src (src_mem_of_wf hew) h)
      rw [hc] at hctrs
      refine Or.inl ⟨0, gone, by omega, by omega, by omega, ?_, fun h => absurd h (by simp)⟩
      rw [ctr_aset_self (show t'.ctrs = aset (s.id, f) _ t.ctrs from hctrs),
        atomicDecN_small (by omega) hlt]
      omega
  · have h1 : sessCount s.id (t'.rib f) = sessCount s.id (t.rib f) := by
      apply hsame
      intro hf nd hnd e he hei
      have hew := (((hinv.rib f0).dest nd hnd).srcOk e he).1
      have hes : e.src = s := src_eq_of_id hew hw hei
      cases hpe : pred e
      · rfl
      · have := hp e hpe
        simp only [sameAddr, beq_iff_eq, hes] at this
        exact absurd ⟨this, hf⟩ htg
    refine moved_same _ _ h1 ?_
    cases hc : ctr with
    | none => rw [hc] at hctrs; exact ctr_of_ctrs_eq hctrs _
    | some i =>
      rw [hc] at hctrs
      have hne : (s.id, f) ≠ (i, f0) := by
        intro e
        obtain ⟨e1, e2⟩ := Prod.mk.inj e
        subst e1
        obtain ⟨s0, hs0, _, ha0, _⟩ := hpo s.id hc
        rw [show c.srcs[s.id]? = some s from hw, Option.some.injEq] at hs0
        subst hs0
        exact htg ⟨ha0, e2⟩
      exact ctr_aset_ne (show t'.ctrs = aset (i, f0) _ t.ctrs from hctrs) hne

theorem count_other {src : Src} {fam : Fam} {net : Net} (hinv : Inv c g t) (hO : OtherSess t t' src fam net)
    {s : Src} (hw : s.WF c) (f : Fam) (htg : ¬ (src.id = s.id ∧ fam = f))
    (hc : t'.ctr (s.id, f) = t.ctr (s.id, f)) :
    Moved t t' s f (fam == f && src.id == s.id) (fam == f && src.addr == s.addr && src.id != s.id) := by
  have hkk : (s.id, f) ≠ (src.id, fam) := by
    intro e
    obtain ⟨e1, e2⟩ := Prod.mk.inj e
    exact htg ⟨e1.symm, e2.symm⟩
  by_cases hd : fam = f ∧ src.addr = s.addr
  · obtain ⟨rfl, ha⟩ := hd
    have hid : src.id ≠ s.id := fun h => htg ⟨h, rfl⟩
    exact Or.inr ⟨by simp [ha, hid], hO.1 s.id fam hkk, hc⟩
  · refine moved_same _ _ (hO.2 s.id f hkk ?_) hc
    intro hf x hx hxi
    rw [src_eq_of_id (entries_wf hinv hx) hw hxi]
    exact fun ha => hd ⟨hf.symm, ha.symm⟩

/-- **one step, one session** -/
theorem count_step {op : Op} (hpo : op.PurgeCtrOk c) (hwf : op.WF c g) (hinv : Inv c g t)
    (hcf : CtrFacts t op t' r) {s : Src} (hw : s.WF c) (hl : s.lim.isSome = true) (f : Fam)
    (hge : sessCount s.id (t.rib f) ≤ t.ctr (s.id, f)) (hlt : t.ctr (s.id, f) < HALF) :
    Moved t t' s f (op.targets s f) (op.disturbs s f) := by
  cases op with
  | insert src fam net rpid nh attr filtered nhInv =>
    obtain ⟨_, _, hlimit, hok⟩ := hcf
    by_cases hr : r = .limit
    · rw [(hlimit hr).2.2]; exact moved_same _ _ rfl rfl
    · obtain ⟨h1, h3, _, hO⟩ := hok hr
      by_cases htg : src.id = s.id ∧ fam = f
      · obtain ⟨hid, rfl⟩ := htg
        have : src = s := src_eq_of_id hwf.1 hw hid
        subst this
        refine Or.inl ⟨(!(t.entries fam net).any fun e => e.src.id == src.id).toNat, 0, ?_, by omega,
          by rw [h1]; rfl, ?_, fun h => absurd h (by simp [Op.targets])⟩
        · cases (!(t.entries fam net).any fun e => e.src.id == src.id) <;> simp
        · rw [hl] at h3
          cases hn : (!(t.entries fam net).any fun e => e.src.id == src.id)
          · rw [hn] at h3
            simp only [Bool.false_and, Bool.false_eq_true, if_false] at h3
            rw [ctr_of_ctrs_eq h3]; rfl
          · rw [hn] at h3
            simp only [Bool.and_self, if_true] at h3
            rw [ctr_aset_self h3, atomicInc_small hlt]
            rfl
      · refine count_other hinv hO hw f htg ?_
        have hkk : (s.id, f) ≠ (src.id, fam) := by
          intro e
          obtain ⟨e1, e2⟩ := Prod.mk.inj e
          exact htg ⟨e1.symm, e2.symm⟩
        split at h3
        · exact ctr_aset_ne h3 hkk
        · exact ctr_of_ctrs_eq h3 _
  | remove src fam net rpid =>
    obtain ⟨_, _, d, h1, h3, hO⟩ := hcf
    by_cases htg : src.id = s.id ∧ fam = f
    · obtain ⟨hid, rfl⟩ := htg
      have : src = s := src_eq_of_id hwf.1 hw hid
      subst this
      refine Or.inl ⟨0, d.toNat, by omega, by omega, by omega, ?_, fun h => absurd h (by simp [Op.targets])⟩
      rw [hl] at h3
      cases d
      · simp only [Bool.false_and, Bool.false_eq_true, if_false] at h3
        rw [ctr_of_ctrs_eq h3]; rfl
      · simp only [Bool.and_self, if_true] at h3
        simp only [Bool.toNat_true] at h1 ⊢
        rw [ctr_aset_self h3, atomicDec_pos (by omega)]
        omega
    · refine count_other hinv hO hw f htg ?_
      have hkk : (s.id, f) ≠ (src.id, fam) := by
        intro e
        obtain ⟨e1, e2⟩ := Prod.mk.inj e
        exact htg ⟨e1.symm, e2.symm⟩
      split at h3
      · exact ctr_aset_ne h3 hkk
      · exact ctr_of_ctrs_eq h3 _
  | drop a f0 =>
    have := count_purge hinv (ctr := none) (fun i h => by cases h) (fun _ h => h) hcf.spec hw f hge hlt
    simpa [Op.targets, Op.disturbs] using this
  | dropStale a f0 ctr =>
    exact count_purge hinv hpo (fun e h => by simp at h; exact h.1) hcf.spec hw f hge hlt
  | dropLlgr a f0 ctr =>
    exact count_purge hinv hpo (fun e h => by simp at h; exact h.1) hcf.spec hw f hge hlt
  | dropNoLlgr a f0 ctr =>
    exact count_purge hinv hpo (fun e h => by simp at h; exact h.1) hcf.spec hw f hge hlt
  | restale a f0 => exact moved_same _ _ (hcf.spec.1 _ _) (ctr_of_ctrs_eq hcf.spec.2 _)
  | restaleLlgr a f0 => exact moved_same _ _ (hcf.spec.1 _ _) (ctr_of_ctrs_eq hcf.spec.2 _)
  | nhValidity nh reachable => exact moved_same _ _ (hcf.spec.1 _ _) (ctr_of_ctrs_eq hcf.spec.2 _)
  | startDeferral fam => exact moved_same _ _ (hcf.spec.1 _ _) (ctr_of_ctrs_eq hcf.spec.2 _)
  | endDeferral fam => exact moved_same _ _ (hcf.spec.1 _ _) (ctr_of_ctrs_eq hcf.spec.2 _)

/-- only counters of limited sources of the case are ever written -/
theorem ctrs_shape {op : Op} (hpo : op.PurgeCtrOk c) (hwf : op.WF c g) (hcf : CtrFacts t op t' r) :
    t'.ctrs = t.ctrs ∨ ∃ s : Src, s.WF c ∧ s.lim.isSome = true ∧ ∃ f v, t'.ctrs = aset (s.id, f) v t.ctrs := by
  have hpurge : ∀ (a : Nat) (f0 : Fam) (ctr : Option Nat) (pred : Entry → Bool), PurgeArgOk c a ctr →
      PurgeSpec t t' a f0 ctr pred →
      t'.ctrs = t.ctrs ∨ ∃ s : Src, s.WF c ∧ s.lim.isSome = true ∧ ∃ f v, t'.ctrs = aset (s.id, f) v t.ctrs := by
    intro a f0 ctr pred hpa ⟨gone, hctrs, _⟩
    cases hc : ctr with
    | none => rw [hc] at hctrs; exact Or.inl hctrs
    | some i =>
      rw [hc] at hctrs
      obtain ⟨s0, hs0, hl0, ha0, hall⟩ := hpa i hc
      have hi0 : s0.id = i := hall s0 (List.mem_of_getElem? hs0) ha0
      refine Or.inr ⟨s0, by unfold Src.WF; rw [hi0]; exact hs0, hl0, f0,
        atomicDecN gone (t.ctr (i, f0)), ?_⟩
      rw [hi0]; exact hctrs
  cases op with
  | insert src fam net rpid nh attr filtered nhInv =>
    by_cases hr : r = .limit
    · rw [(hcf.spec.1 hr).2.2]; exact Or.inl rfl
    · obtain ⟨_, h3, _, _⟩ := hcf.spec.2 hr
      split at h3
      · rename_i hcnd
        rw [Bool.and_eq_true] at hcnd
        exact Or.inr ⟨src, hwf.1, hcnd.2, fam, _, h3⟩
      · exact Or.inl h3
  | remove src fam net rpid =>
    obtain ⟨d, _, h3, _⟩ := hcf.spec
    split at h3
    · rename_i hcnd
      rw [Bool.and_eq_true] at hcnd
      exact Or.inr ⟨src, hwf.1, hcnd.2, fam, _, h3⟩
    · exact Or.inl h3
  | drop a f0 => exact hpurge a f0 none _ (fun i h => by cases h) hcf.spec
  | dropStale a f0 ctr => exact hpurge a f0 ctr _ hpo hcf.spec
  | dropLlgr a f0 ctr => exact hpurge a f0 ctr _ hpo hcf.spec
  | dropNoLlgr a f0 ctr => exact hpurge a f0 ctr _ hpo hcf.spec
  | restale a f0 => exact Or.inl hcf.spec.2
  | restaleLlgr a f0 => exact Or.inl hcf.spec.2
  | nhValidity nh reachable => exact Or.inl hcf.spec.2
  | startDeferral fam => exact Or.inl hcf.spec.2
  | endDeferral fam => exact Or.inl hcf.spec.2

/-- every counter of the table stays bounded by the number of steps -/
theorem ctrAll_step {op : Op} {k : Nat} (hpo : op.PurgeCtrOk c) (hwf : op.WF c g) (hcf : CtrFacts t op t' r)
    (hall : ∀ key, t.ctr key ≤ k)
    (hge' : ∀ s : Src, s.WF c → s.lim.isSome = true → ∀ f, t'.ctr (s.id, f) ≤ k + 1) :
    ∀ key, t'.ctr key ≤ k + 1 := by
  intro key
  rcases ctrs_shape hpo hwf hcf with h | ⟨s, hw, hl, f, v, h⟩
  · rw [ctr_of_ctrs_eq h]; have := hall key; omega
  · by_cases hk : key = (s.id, f)
    · subst hk; exact hge' s hw hl f
    · rw [ctr_aset_ne h hk]; have := hall key; omega

end Count

/-! ## The counters along a run (any number of sessions per peer) -/

/-- after `k` steps (the operations `done`): every recount is at most `k`; the counter of a limited
    session is at least the recount of its own paths and at most `k`; and it EQUALS that recount as
    long as no operation took paths of the session away without settling its counter -/
structure GInv (c : Case) (t : Table) (k : Nat) (done : List Op) : Prop where
  bound : ∀ a f, recvCount a (t.rib f) ≤ k ∧ accCount a (t.rib f) ≤ k
  all : ∀ key, t.ctr key ≤ k
  ge : ∀ s : Src, s.WF c → s.lim.isSome = true → ∀ f,
      sessCount s.id (t.rib f) ≤ t.ctr (s.id, f) ∧ t.ctr (s.id, f) ≤ k
  eq : ∀ s : Src, s.WF c → s.lim.isSome = true → ∀ f, (∀ o ∈ done, o.disturbs s f = false) →
      t.ctr (s.id, f) = sessCount s.id (t.rib f)

theorem ginv_empty (c : Case) : GInv c {} 0 [] := by
  have hr : ∀ a f, recvCount a (({} : Table).rib f) = 0 := by intro a f; cases f <;> rfl
  have ha : ∀ a f, accCount a (({} : Table).rib f) = 0 := by intro a f; cases f <;> rfl
  have hs : ∀ i f, sessCount i (({} : Table).rib f) = 0 := by intro i f; cases f <;> rfl
  refine ⟨?_, ?_, ?_, ?_⟩
  · intro a f; rw [hr, ha]; exact ⟨Nat.le_refl _, Nat.le_refl _⟩
  · intro key; exact Nat.le_refl _
  · intro s _ _ f; rw [hs]; exact ⟨Nat.zero_le _, Nat.le_refl _⟩
  · intro s _ _ f _; rw [hs]; rfl

theorem ginv_step {c : Case} {g : Nat → Fam} {t t' : Table} {r : Res} {k : Nat} {done : List Op} {op : Op}
    (hpo : op.PurgeCtrOk c) (hwf : op.WF c g) (hk : k < HALF) (hinv : Inv c g t) (hcf : CtrFacts t op t' r)
    (hg : GInv c t k done) : GInv c t' (k + 1) (done ++ [op]) := by
  have hge : ∀ s : Src, s.WF c → s.lim.isSome = true → ∀ f,
      sessCount s.id (t'.rib f) ≤ t'.ctr (s.id, f) ∧ t'.ctr (s.id, f) ≤ k + 1 := by
    intro s hw hl f
    have h0 := hg.ge s hw hl f
    rcases count_step hpo hwf hinv hcf hw hl f h0.1 (by omega) with ⟨up, dn, h1, h2, h3, h4, _⟩ | ⟨_, h3, h4⟩
    · omega
    · omega
  refine ⟨?_, ctrAll_step hpo hwf hcf hg.all (fun s hw hl f => (hge s hw hl f).2), hge, ?_⟩
  · intro a f
    have := hg.bound a f
    have := hcf.recvLe a f
    have := hcf.accLe a f
    omega
  · intro s hw hl f hno
    have h0 := hg.ge s hw hl f
    have he := hg.eq s hw hl f (fun o ho => hno o (List.mem_append_left _ ho))
    rcases count_step hpo hwf hinv hcf hw hl f h0.1 (by omega) with ⟨up, dn, h1, h2, h3, h4, _⟩ | ⟨hd, _, _⟩
    · omega
    · rw [hno op (List.mem_append_right _ List.mem_cons_self)] at hd
      exact absurd hd (by simp)

/-! ## The invariant of the checker state along a run (one session per limited peer) -/

section Aux
variable {c : Case} {g : Nat → Fam} {t : Table}

theorem entries_fam (hinv : Inv c g t) {f : Fam} {n : Net} {x : Entry} (hx : x ∈ t.entries f n) : g x.src.id = f := by
  unfold Table.entries at hx
  cases hl : alookup n (t.rib f).dests with
  | none => rw [hl] at hx; simp at hx
  | some d =>
    rw [hl] at hx
    exact (((hinv.rib f).dest _ (alookup_some_mem hl)).srcOk x hx).2

theorem sessCount_pos_of_mem {f : Fam} {n : Net} {x : Entry} (hx : x ∈ t.entries f n) {i : Nat}
    (hid : x.src.id = i) : 0 < sessCount i (t.rib f) := by
  unfold Table.entries at hx
  cases hl : alookup n (t.rib f).dests with
  | none => rw [hl] at hx; simp at hx
  | some d =>
    rw [hl] at hx
    unfold sessCount cntBy
    apply List.length_pos_of_mem (a := (n, d))
    exact List.mem_filter.mpr ⟨alookup_some_mem hl, List.any_eq_true.mpr ⟨x, hx, by simpa using hid⟩⟩

theorem sessCount_zero_of_fam (hinv : Inv c g t) {s : Src} {f : Fam} (hf : g s.id ≠ f) :
    sessCount s.id (t.rib f) = 0 := by
  unfold sessCount cntBy
  rw [List.length_eq_zero_iff, List.filter_eq_nil_iff]
  intro nd hnd h
  obtain ⟨e, he, hq⟩ := List.any_eq_true.mp h
  have := (((hinv.rib f).dest nd hnd).srcOk e he).2
  rw [show e.src.id = s.id by simpa using hq] at this
  exact hf this

end Aux

structure SInv (c : Case) (g : Nat → Fam) (t : Table) (st : St) (k : Nat) : Prop where
  prev : ∀ f, famDests st.prev f = (famObs c t f).dests
  bound : ∀ a f, recvCount a (t.rib f) ≤ k ∧ accCount a (t.rib f) ≤ k
  all : ∀ key, t.ctr key ≤ k
  ctr : ∀ s : Src, s.WF c → s.lim.isSome = true → ∀ f,
      sessCount s.id (t.rib f) ≤ t.ctr (s.id, f) ∧ t.ctr (s.id, f) ≤ k
  eq : ∀ s : Src, s.WF c → s.lim.isSome = true → ∀ f, (s.id, f) ∉ st.dead →
      t.ctr (s.id, f) = sessCount s.id (t.rib f)
  idle : ∀ s : Src, s.WF c → s.lim.isSome = true → ∀ f, (s.id, f) ∉ st.dead → ¬ isLive st.live s.id f →
      sessCount s.id (t.rib f) = 0
  live : ∀ i f, isLive st.live i f → (i, f) ∉ st.dead ∧ ∃ s : Src, s.WF c ∧ s.lim.isSome = true ∧ i = s.id
  /-- a session whose Source is marked (LLGR-)stale has ended -/
  fresh : ∀ s : Src, s.WF c → s.lim.isSome = true → (s.id ∈ t.stale ∨ s.id ∈ t.llgr) → (s.id, g s.id) ∈ st.dead

section Trans
variable {c : Case} {g : Nat → Fam} {t t' : Table} {st : St} {k : Nat}

/-- a step that may start one session's use of its counter -/
theorem sinv_A (hs : SInv c g t st k) {ref' : SpecRef.RefSt} {live' : List Live} {prev' : List FamObs}
    (act : Option (Nat × Fam))
    (hlive : ∀ i f, isLive live' i f ↔ isLive st.live i f ∨ (act = some (i, f) ∧ (i, f) ∉ st.dead))
    (hact : ∀ i f, act = some (i, f) → ∃ s : Src, s.WF c ∧ s.lim.isSome = true ∧ i = s.id)
    (hprev : ∀ f, famDests prev' f = (famObs c t' f).dests)
    (hbound : ∀ a f, recvCount a (t'.rib f) ≤ recvCount a (t.rib f) + 1 ∧
      accCount a (t'.rib f) ≤ accCount a (t.rib f) + 1)
    (hall : ∀ key, t'.ctr key ≤ k + 1)
    (hst : ∀ i, i ∈ t'.stale → i ∈ t.stale) (hll : ∀ i, i ∈ t'.llgr → i ∈ t.llgr)
    (hcnt : ∀ s : Src, s.WF c → s.lim.isSome = true → ∀ f,
      (∃ up dn : Nat, up ≤ 1 ∧ dn ≤ sessCount s.id (t.rib f) ∧
        sessCount s.id (t'.rib f) + dn = sessCount s.id (t.rib f) + up ∧
        t'.ctr (s.id, f) + dn = t.ctr (s.id, f) + up ∧ (act ≠ some (s.id, f) → up = 0 ∧ dn = 0)) ∨
      ((s.id, f) ∈ st.dead ∧ sessCount s.id (t'.rib f) ≤ sessCount s.id (t.rib f) ∧
        t'.ctr (s.id, f) = t.ctr (s.id, f))) :
    SInv c g t' { ref := ref', live := live', dead := st.dead, prev := prev' } (k + 1) := by
  refine ⟨hprev, ?_, hall, ?_, ?_, ?_, ?_, ?_⟩
  · intro a f
    have h1 := hs.bound a f
    have h2 := hbound a f
    omega
  · intro s hw hl f
    have := hs.ctr s hw hl f
    rcases hcnt s hw hl f with ⟨up, dn, h1, h2, h3, h4, _⟩ | ⟨_, h3, h4⟩ <;> omega
  · intro s hw hl f hd
    have := hs.eq s hw hl f hd
    rcases hcnt s hw hl f with ⟨up, dn, h1, h2, h3, h4, _⟩ | ⟨h, _, _⟩
    · omega
    · exact absurd h hd
  · intro s hw hl f hd hnl
    rcases hcnt s hw hl f with ⟨up, dn, h1, h2, h3, h4, h5⟩ | ⟨h, _, _⟩
    · have hn : ¬ isLive st.live s.id f := fun h => hnl ((hlive s.id f).mpr (Or.inl h))
      have ha : act ≠ some (s.id, f) := fun h => hnl ((hlive s.id f).mpr (Or.inr ⟨h, hd⟩))
      have := hs.idle s hw hl f hd hn
      have := h5 ha
      omega
    · exact absurd h hd
  · intro i f h
    rcases (hlive i f).mp h with h | ⟨ha, hd⟩
    · exact hs.live i f h
    · exact ⟨hd, hact i f ha⟩
  · intro s hw hl h
    exact hs.fresh s hw hl (h.elim (fun h => Or.inl (hst _ h)) (fun h => Or.inr (hll _ h)))

/-- a step that ends the sessions of peer `a` in family `f0` -/
theorem sinv_K (hs : SInv c g t st k) (a : Nat) (f0 : Fam) {ref' : SpecRef.RefSt} {prev' : List FamObs}
    (hprev : ∀ f, famDests prev' f = (famObs c t' f).dests)
    (hbound : ∀ a f, recvCount a (t'.rib f) ≤ recvCount a (t.rib f) + 1 ∧
      accCount a (t'.rib f) ≤ accCount a (t.rib f) + 1)
    (hall : ∀ key, t'.ctr key ≤ k + 1)
    (hmark : ∀ s : Src, s.WF c → s.lim.isSome = true → (s.id ∈ t'.stale ∨ s.id ∈ t'.llgr) →
      (s.id ∈ t.stale ∨ s.id ∈ t.llgr) ∨
      (addrOf c s.id = some a ∧ g s.id = f0 ∧ 0 < sessCount s.id (t.rib f0)))
    (hcnt : ∀ s : Src, s.WF c → s.lim.isSome = true → ∀ f,
      sessCount s.id (t'.rib f) ≤ sessCount s.id (t.rib f) ∧ t'.ctr (s.id, f) = t.ctr (s.id, f) ∧
      (¬ (f = f0 ∧ addrOf c s.id = some a) → sessCount s.id (t'.rib f) = sessCount s.id (t.rib f))) :
    SInv c g t' { ref := ref', live := deactivate c st.live a f0,
                  dead := ((st.live.filter fun l => l.fam = f0 && addrOf c l.src == some a).map
                    fun l => (l.src, l.fam)) ++ st.dead,
                  prev := prev' } (k + 1) := by
  refine ⟨hprev, ?_, hall, ?_, ?_, ?_, ?_, ?_⟩
  · intro a' f
    have h1 := hs.bound a' f
    have h2 := hbound a' f
    omega
  · intro s hw hl f
    have := hs.ctr s hw hl f
    obtain ⟨h1, h2, _⟩ := hcnt s hw hl f
    rw [h2]
    omega
  · intro s hw hl f hd
    simp only [] at hd
    rw [mem_dead_kill, not_or] at hd
    obtain ⟨h1, h2, h3⟩ := hcnt s hw hl f
    rw [h2]
    by_cases hq : f = f0 ∧ addrOf c s.id = some a
    · have hn : ¬ isLive st.live s.id f := fun h => hd.1 ⟨h, hq⟩
      have h0 := hs.idle s hw hl f hd.2 hn
      have := hs.eq s hw hl f hd.2
      omega
    · rw [h3 hq]; exact hs.eq s hw hl f hd.2
  · intro s hw hl f hd hnl
    simp only [] at hd hnl
    rw [mem_dead_kill, not_or] at hd
    rw [isLive_deactivate] at hnl
    obtain ⟨h1, h2, h3⟩ := hcnt s hw hl f
    by_cases hq : f = f0 ∧ addrOf c s.id = some a
    · have hn : ¬ isLive st.live s.id f := fun h => hd.1 ⟨h, hq⟩
      have h0 := hs.idle s hw hl f hd.2 hn
      omega
    · have hn : ¬ isLive st.live s.id f := fun h => hnl ⟨h, hq⟩
      rw [h3 hq]; exact hs.idle s hw hl f hd.2 hn
  · intro i f h
    simp only [] at h ⊢
    rw [isLive_deactivate] at h
    refine ⟨?_, (hs.live i f h.1).2⟩
    rw [mem_dead_kill, not_or]
    exact ⟨fun hh => h.2 hh.2, (hs.live i f h.1).1⟩
  · intro s hw hl h
    simp only []
    rw [mem_dead_kill]
    rcases hmark s hw hl h with h | ⟨ha, hg, hpos⟩
    · exact Or.inr (hs.fresh s hw hl h)
    · by_cases hd : (s.id, g s.id) ∈ st.dead
      · exact Or.inr hd
      · rw [hg] at hd ⊢
        refine Or.inl ⟨?_, rfl, ha⟩
        apply Classical.byContradiction
        intro hn
        have := hs.idle s hw hl f0 hd hn
        omega

end Trans

/-! ## One step keeps the invariant of the checker state -/

section Step
variable {c : Case} {g : Nat → Fam} {t t' : Table} {st : St} {k : Nat} {r : Res}

theorem act_of_src (st : St) (src : Src) (fam : Fam) (i : Nat) (f : Fam) :
    (src.lim.isSome = true ∧ (src.id, fam) ∉ st.dead ∧ i = src.id ∧ f = fam) ↔
      ((if src.lim.isSome then some (src.id, fam) else none) = some (i, f) ∧ (i, f) ∉ st.dead) := by
  cases src.lim.isSome
  · simp
  · simp only [if_true, Option.some.injEq, Prod.mk.injEq, true_and]
    constructor
    · rintro ⟨hd, rfl, rfl⟩; exact ⟨⟨rfl, rfl⟩, hd⟩
    · rintro ⟨⟨rfl, rfl⟩, hd⟩; exact ⟨hd, rfl, rfl⟩

/-- what a step that does not end sessions needs from `count_step` -/
theorem cnt_of_moved {s : Src} {f : Fam} {tg dist : Bool} {act : Option (Nat × Fam)}
    (h : Moved t t' s f tg dist) (hd : dist = false) (hta : tg = true → act = some (s.id, f)) :
    ∃ up dn : Nat, up ≤ 1 ∧ dn ≤ sessCount s.id (t.rib f) ∧
      sessCount s.id (t'.rib f) + dn = sessCount s.id (t.rib f) + up ∧
      t'.ctr (s.id, f) + dn = t.ctr (s.id, f) + up ∧ (act ≠ some (s.id, f) → up = 0 ∧ dn = 0) := by
  rcases h with ⟨up, dn, h1, h2, h3, h4, h5⟩ | ⟨h, _, _⟩
  · refine ⟨up, dn, h1, h2, h3, h4, fun ha => h5 ?_⟩
    cases htg : tg
    · rfl
    · exact absurd (hta htg) ha
  · rw [hd] at h; exact absurd h (by simp)

/-- what a step that ends the sessions of (a, f0) needs from `count_step` -/
theorem kill_of_moved {s : Src} {f f0 : Fam} {a : Nat} {tg dist : Bool} (hw : s.WF c)
    (h : Moved t t' s f tg dist) (htg : tg = false) (hd : dist = true → f = f0 ∧ s.addr = a) :
    sessCount s.id (t'.rib f) ≤ sessCount s.id (t.rib f) ∧ t'.ctr (s.id, f) = t.ctr (s.id, f) ∧
      (¬ (f = f0 ∧ addrOf c s.id = some a) → sessCount s.id (t'.rib f) = sessCount s.id (t.rib f)) := by
  rcases h with ⟨up, dn, h1, h2, h3, h4, h5⟩ | ⟨h, h1, h2⟩
  · obtain ⟨rfl, rfl⟩ := h5 htg
    exact ⟨by omega, by omega, fun _ => by omega⟩
  · refine ⟨h1, h2, fun hn => absurd ?_ hn⟩
    obtain ⟨hf, ha⟩ := hd h
    exact ⟨hf, by rw [addrOf_wf hw, ha]⟩

theorem sinv_step (hone : c.OneSession) {op : Op} (hpo : op.PurgeCtrOk c) (hwf : op.WF c g) (hk : k < HALF)
    (hinv : Inv c g t) (hcf : CtrFacts t op t' r) (hX : EntryExact t op t' r) (hs : SInv c g t st k)
    (ref' : SpecRef.RefSt) :
    SInv c g t' { ref := ref', live := liveStep c st op, dead := deadStep c st op,
                  prev := (stepObs c op (t', r)).fams } (k + 1) := by
  have hprev : ∀ f, famDests (stepObs c op (t', r)).fams f = (famObs c t' f).dests :=
    fun f => famDests_allFams c t' f
  have hbound : ∀ a f, recvCount a (t'.rib f) ≤ recvCount a (t.rib f) + 1 ∧
      accCount a (t'.rib f) ≤ accCount a (t.rib f) + 1 := fun a f => ⟨hcf.recvLe a f, hcf.accLe a f⟩
  have hmv : ∀ s : Src, s.WF c → s.lim.isSome = true → ∀ f, Moved t t' s f (op.targets s f) (op.disturbs s f) := by
    intro s hw hl f
    have h0 := hs.ctr s hw hl f
    exact count_step hpo hwf hinv hcf hw hl f h0.1 (by omega)
  have hall : ∀ key, t'.ctr key ≤ k + 1 := by
    refine ctrAll_step hpo hwf hcf hs.all ?_
    intro s hw hl f
    have h0 := hs.ctr s hw hl f
    rcases hmv s hw hl f with ⟨up, dn, h1, h2, h3, h4, _⟩ | ⟨_, _, h4⟩ <;> omega
  -- the stale markers change only through restale / restale_llgr
  have hst : (∀ a f, op ≠ .restale a f) → ∀ i, i ∈ t'.stale → i ∈ t.stale := by
    intro hno i hi
    rcases (hX.stale i).mp hi with h | ⟨a, f, e, _⟩
    · exact h
    · exact absurd e (hno a f)
  have hll : (∀ a f, op ≠ .restaleLlgr a f) → ∀ i, i ∈ t'.llgr → i ∈ t.llgr := by
    intro hno i hi
    rcases (hX.llgr i).mp hi with h | ⟨a, f, e, _⟩
    · exact h
    · exact absurd e (hno a f)
  -- another session of a limited peer does not exist
  have hsame : ∀ (s src : Src), s.WF c → s.lim.isSome = true → src.WF c → src.addr = s.addr → src.id = s.id := by
    intro s src hw hl hsw ha
    rw [hone s (src_mem_of_wf hw) src (src_mem_of_wf hsw) ha.symm hl]
  have hmarked : ∀ (a : Nat) (f0 : Fam) (s : Src), s.WF c → marksOf t a f0 s.id →
      addrOf c s.id = some a ∧ g s.id = f0 ∧ 0 < sessCount s.id (t.rib f0) := by
    rintro a f0 s hw ⟨n, x, hx, hxa, hxi⟩
    have hxs : x.src = s := src_eq_of_id (entries_wf hinv hx) hw hxi
    refine ⟨?_, ?_, sessCount_pos_of_mem hx hxi⟩
    · rw [addrOf_wf hw, ← hxs]; simpa [sameAddr] using hxa
    · rw [← hxi]; exact entries_fam hinv hx
  have hnone : (∀ a f, op ≠ .restale a f) → (∀ a f, op ≠ .restaleLlgr a f) →
      (∀ s f, op.targets s f = false) → (∀ s f, op.disturbs s f = false) →
      SInv c g t' { ref := ref', live := st.live, dead := st.dead, prev := (stepObs c op (t', r)).fams } (k + 1) := by
    intro hn1 hn2 h1 h2
    refine sinv_A hs none (fun i f => ⟨Or.inl, ?_⟩) (fun i f h => absurd h (by simp)) hprev hbound hall
      (hst hn1) (hll hn2) ?_
    · rintro (h | ⟨h, _⟩)
      · exact h
      · exact absurd h (by simp)
    · intro s hw hl f
      exact Or.inl (cnt_of_moved (hmv s hw hl f) (h2 s f) (fun h => by rw [h1 s f] at h; cases h))
  have hkill : ∀ a f0, (∀ s f, op.targets s f = false) →
      (∀ (s : Src) f, op.disturbs s f = true → f = f0 ∧ s.addr = a) →
      (∀ i, i ∈ t'.stale → i ∈ t.stale ∨ marksOf t a f0 i) → (∀ i, i ∈ t'.llgr → i ∈ t.llgr ∨ marksOf t a f0 i) →
      SInv c g t' { ref := ref', live := deactivate c st.live a f0,
                    dead := ((st.live.filter fun l => l.fam = f0 && addrOf c l.src == some a).map
                      fun l => (l.src, l.fam)) ++ st.dead,
                    prev := (stepObs c op (t', r)).fams } (k + 1) := by
    intro a f0 h1 h2 hs1 hs2
    refine sinv_K hs a f0 hprev hbound hall ?_
      (fun s hw hl f => kill_of_moved hw (hmv s hw hl f) (h1 s f) (h2 s f))
    intro s hw hl h
    rcases h with h | h
    · rcases hs1 _ h with h | h
      · exact Or.inl (Or.inl h)
      · exact Or.inr (hmarked a f0 s hw h)
    · rcases hs2 _ h with h | h
      · exact Or.inl (Or.inr h)
      · exact Or.inr (hmarked a f0 s hw h)
  have hact : ∀ (src : Src) (fam : Fam), (∀ a f, op ≠ .restale a f) → (∀ a f, op ≠ .restaleLlgr a f) →
      (src.lim.isSome = true → src.WF c) →
      (∀ (s : Src), s.WF c → s.lim.isSome = true → ∀ f, op.disturbs s f = false) →
      (∀ (s : Src), s.WF c → s.lim.isSome = true → ∀ f, op.targets s f = true →
        src.lim.isSome = true ∧ src.id = s.id ∧ fam = f) →
      SInv c g t' { ref := ref', live := activate c st src fam, dead := st.dead,
                    prev := (stepObs c op (t', r)).fams } (k + 1) := by
    intro src fam hn1 hn2 hsw h1 h2
    refine sinv_A hs (if src.lim.isSome then some (src.id, fam) else none) ?_ ?_ hprev hbound hall
      (hst hn1) (hll hn2) ?_
    · intro i f
      rw [isLive_activate hone (fun i f h => (hs.live i f h).2) hsw fam i f, act_of_src]
    · intro i f h
      cases hl : src.lim.isSome
      · rw [hl] at h; simp at h
      · rw [hl] at h
        simp only [if_true, Option.some.injEq, Prod.mk.injEq] at h
        exact ⟨src, hsw hl, hl, h.1.symm⟩
    · intro s hw hl f
      refine Or.inl (cnt_of_moved (hmv s hw hl f) (h1 s hw hl f) ?_)
      intro htg
      obtain ⟨e1, e2, e3⟩ := h2 s hw hl f htg
      rw [e1, e2, e3]; rfl
  -- a stale-path purge that is handed a counter starts (or continues) that session
  have hpurgeSome : ∀ (a : Nat) (f0 : Fam) (i : Nat), PurgeArgOk c a (some i) →
      (∀ a f, op ≠ .restale a f) → (∀ a f, op ≠ .restaleLlgr a f) →
      (∀ (s : Src) f, op.targets s f = (f0 == f && a == s.addr && true)) →
      (∀ (s : Src) f, op.disturbs s f = (f0 == f && a == s.addr && false)) →
      ∃ s0, c.srcs[i]? = some s0 ∧
        SInv c g t' { ref := ref', live := activate c st s0 f0, dead := st.dead,
                      prev := (stepObs c op (t', r)).fams } (k + 1) := by
    intro a f0 i hpa hn1 hn2 ht hd
    obtain ⟨s0, hs0, _, ha0, hall0⟩ := hpa i rfl
    have hi0 : s0.id = i := hall0 s0 (List.mem_of_getElem? hs0) ha0
    have hw0 : s0.WF c := by unfold Src.WF; rw [hi0]; exact hs0
    refine ⟨s0, hs0, hact s0 f0 hn1 hn2 (fun _ => hw0) (fun s _ _ f => by rw [hd]; simp) ?_⟩
    intro s hw hl f htg
    rw [ht] at htg
    simp only [Bool.and_true, Bool.and_eq_true, beq_iff_eq] at htg
    have hsid : s.id = i := hall0 s (src_mem_of_wf hw) htg.2.symm
    have : s0 = s := src_eq_of_id hw0 hw (by rw [hi0, hsid])
    subst this
    exact ⟨hl, rfl, htg.1⟩
  -- a counter-less purge of the paths of sessions marked (LLGR-)stale: the sessions in progress are not
  -- marked, so they lose nothing
  have hquiet : ∀ (a : Nat) (f0 : Fam) (pred : Entry → Bool), PurgeSpec t t' a f0 none pred →
      (∀ e, pred e = true → e.src.id ∈ t.stale ∨ e.src.id ∈ t.llgr) →
      (∀ a f, op ≠ .restale a f) → (∀ a f, op ≠ .restaleLlgr a f) →
      SInv c g t' { ref := ref', live := st.live, dead := st.dead, prev := (stepObs c op (t', r)).fams } (k + 1) := by
    intro a f0 pred ⟨gone, hctrs, hle, hsm, _⟩ hpred hn1 hn2
    refine sinv_A hs none (fun i f => ⟨Or.inl, ?_⟩) (fun i f h => absurd h (by simp)) hprev hbound hall
      (hst hn1) (hll hn2) ?_
    · rintro (h | ⟨h, _⟩)
      · exact h
      · exact absurd h (by simp)
    · intro s hw hl f
      have hc : t'.ctr (s.id, f) = t.ctr (s.id, f) := ctr_of_ctrs_eq hctrs _
      by_cases hd : (s.id, f) ∈ st.dead
      · exact Or.inr ⟨hd, hle s.id f, hc⟩
      · refine Or.inl ⟨0, 0, by omega, by omega, ?_, by omega, fun _ => ⟨rfl, rfl⟩⟩
        rw [hsm s.id f]
        intro hf nd hnd e he hei
        cases hpe : pred e
        · rfl
        · exfalso
          have hgf : g s.id = f := by
            rw [← hei, hf]; exact (((hinv.rib f0).dest nd hnd).srcOk e he).2
          have := hs.fresh s hw hl (by rw [← hei]; exact hpred e hpe)
          rw [hgf] at this
          exact hd this
  cases op with
  | insert src fam net rpid nh attr filtered nhInv =>
    refine hact src fam (fun _ _ h => by cases h) (fun _ _ h => by cases h) (fun _ => hwf.1) ?_ ?_
    · intro s hw hl f
      cases hd : (Op.insert src fam net rpid nh attr filtered nhInv).disturbs s f
      · rfl
      · simp only [Op.disturbs, Bool.and_eq_true, beq_iff_eq, bne_iff_ne] at hd
        exact absurd (hsame s src hw hl hwf.1 hd.1.2) hd.2
    · intro s hw hl f htg
      simp only [Op.targets, Bool.and_eq_true, beq_iff_eq] at htg
      have : src = s := src_eq_of_id hwf.1 hw htg.2
      subst this
      exact ⟨hl, rfl, htg.1⟩
  | remove src fam net rpid =>
    refine hact src fam (fun _ _ h => by cases h) (fun _ _ h => by cases h) (fun _ => hwf.1) ?_ ?_
    · intro s hw hl f
      cases hd : (Op.remove src fam net rpid).disturbs s f
      · rfl
      · simp only [Op.disturbs, Bool.and_eq_true, beq_iff_eq, bne_iff_ne] at hd
        exact absurd (hsame s src hw hl hwf.1 hd.1.2) hd.2
    · intro s hw hl f htg
      simp only [Op.targets, Bool.and_eq_true, beq_iff_eq] at htg
      have : src = s := src_eq_of_id hwf.1 hw htg.2
      subst this
      exact ⟨hl, rfl, htg.1⟩
  | drop a f0 =>
    refine hkill a f0 (fun _ _ => rfl) (fun s f h => ?_)
      (fun i hi => Or.inl (hst (fun _ _ h => by cases h) i hi)) (fun i hi => Or.inl (hll (fun _ _ h => by cases h) i hi))
    simp only [Op.disturbs, Bool.and_eq_true, beq_iff_eq] at h
    exact ⟨h.1.symm, h.2.symm⟩
  | dropStale a f0 ctr =>
    cases ctr with
    | none =>
      exact hquiet a f0 _ hcf.spec (fun e h => by
        simp only [Bool.and_eq_true, Entry.isStale] at h
        exact Or.inl (List.contains_iff_mem.mp h.2)) (fun _ _ h => by cases h) (fun _ _ h => by cases h)
    | some i =>
      obtain ⟨s0, hs0, h⟩ := hpurgeSome a f0 i hpo (fun _ _ h => by cases h) (fun _ _ h => by cases h)
        (fun _ _ => rfl) (fun _ _ => rfl)
      have hl : liveStep c st (.dropStale a f0 (some i)) = activate c st s0 f0 := by
        show (match c.srcs[i]? with | some s => activate c st s f0 | none => st.live) = _
        rw [hs0]
      rw [hl]; exact h
  | dropLlgr a f0 ctr =>
    cases ctr with
    | none =>
      exact hquiet a f0 _ hcf.spec (fun e h => by
        simp only [Bool.and_eq_true] at h
        exact Or.inr (List.contains_iff_mem.mp h.2)) (fun _ _ h => by cases h) (fun _ _ h => by cases h)
    | some i =>
      obtain ⟨s0, hs0, h⟩ := hpurgeSome a f0 i hpo (fun _ _ h => by cases h) (fun _ _ h => by cases h)
        (fun _ _ => rfl) (fun _ _ => rfl)
      have hl : liveStep c st (.dropLlgr a f0 (some i)) = activate c st s0 f0 := by
        show (match c.srcs[i]? with | some s => activate c st s f0 | none => st.live) = _
        rw [hs0]
      rw [hl]; exact h
  | dropNoLlgr a f0 ctr =>
    cases ctr with
    | none =>
      refine hkill a f0 (fun s f => by simp [Op.targets]) (fun s f h => ?_)
        (fun i hi => Or.inl (hst (fun _ _ h => by cases h) i hi))
        (fun i hi => Or.inl (hll (fun _ _ h => by cases h) i hi))
      simp only [Op.disturbs, Option.isNone_none, Bool.and_true, Bool.and_eq_true, beq_iff_eq] at h
      exact ⟨h.1.symm, h.2.symm⟩
    | some i =>
      obtain ⟨s0, hs0, h⟩ := hpurgeSome a f0 i hpo (fun _ _ h => by cases h) (fun _ _ h => by cases h)
        (fun _ _ => rfl) (fun _ _ => rfl)
      have hl : liveStep c st (.dropNoLlgr a f0 (some i)) = activate c st s0 f0 := by
        show (match c.srcs[i]? with | some s => activate c st s f0 | none => deactivate c st.live a f0) = _
        rw [hs0]
      have hd : deadStep c st (.dropNoLlgr a f0 (some i)) = st.dead := by
        show (match c.srcs[i]? with | some _ => st.dead | none => _) = _
        rw [hs0]
      rw [hl, hd]; exact h
  | restale a f0 =>
    refine hkill a f0 (fun _ _ => rfl) (fun s f h => by simp [Op.disturbs] at h) ?_
      (fun i hi => Or.inl (hll (fun _ _ h => by cases h) i hi))
    intro i hi
    rcases (hX.stale i).mp hi with h | ⟨a', f', e, hm⟩
    · exact Or.inl h
    · cases e; exact Or.inr hm
  | restaleLlgr a f0 =>
    refine hkill a f0 (fun _ _ => rfl) (fun s f h => by simp [Op.disturbs] at h)
      (fun i hi => Or.inl (hst (fun _ _ h => by cases h) i hi)) ?_
    intro i hi
    rcases (hX.llgr i).mp hi with h | ⟨a', f', e, hm⟩
    · exact Or.inl h
    · cases e; exact Or.inr hm
  | nhValidity nh reachable =>
    exact hnone (fun _ _ h => by cases h) (fun _ _ h => by cases h) (fun _ _ => rfl) (fun _ _ => rfl)
  | startDeferral fam =>
    exact hnone (fun _ _ h => by cases h) (fun _ _ h => by cases h) (fun _ _ => rfl) (fun _ _ => rfl)
  | endDeferral fam =>
    exact hnone (fun _ _ h => by cases h) (fun _ _ h => by cases h) (fun _ _ => rfl) (fun _ _ => rfl)

end Step

/-! ## One step passes the checker -/

theorem res_obs_limit {sh : Nat} {fl : Flags} {r : Res} (h : r.obs sh fl = .limit) : r = .limit := by
  cases r with
  | removed c => cases c <;> simp [Res.obs] at h
  | limit => rfl
  | _ => simp [Res.obs] at h

theorem checkStep_ok {c : Case} {g : Nat → Fam} {t t' : Table} {r : Res} {st : St} {k : Nat} {op : Op}
    {ref' : SpecRef.RefSt} {live' : List Live} {dead' : List (Nat × Fam)} {prev' : List FamObs} (hone : c.OneSession)
    (hinv : Inv c g t) (hinv' : Inv c g t') (hk : k + 1 < HALF)
    (hs : SInv c g t st k)
    (hs' : SInv c g t' { ref := ref', live := live', dead := dead', prev := prev' } (k + 1))
    (hwf : op.WF c g) (hcf : CtrFacts t op t' r) :
    checkStep c st live' op (stepObs c op (t', r)) = none := by
  unfold checkStep
  simp only []
  rw [firstSome_none]
  · rw [Option.orElse_none, firstSome_none]
    · rw [Option.orElse_none, ctrs_any_stepObs hinv' op r (fun key => by have := hs'.all key; omega)]
      simp only [Bool.false_eq_true, if_false]
      rw [Option.orElse_none]
      cases op with
      | insert src fam net rpid nh attr filtered nhInv =>
        simp only []
        cases hlim : src.lim with
        | none => rfl
        | some max =>
          simp only []
          rw [if_neg]
          intro h
          simp only [Bool.and_eq_true, decide_eq_true_eq, Bool.not_eq_true'] at h
          obtain ⟨⟨h1, h2⟩, h3⟩ := h
          rw [hs.prev fam, obs_known t fam (hinv.rib fam)] at h1
          have hr : r ≠ .limit := fun e => h2 (by rw [e]; rfl)
          have hl : src.lim.isSome = true := by rw [hlim]; rfl
          have hhas : ((t.entries fam net).any fun e => e.src.id == src.id) = false := by
            rw [List.any_eq_false] at h1 ⊢
            intro x hx hq
            apply h1 x hx
            have hxs : x.src = src := src_eq_of_id (entries_wf hinv hx) hwf.1 (by simpa using hq)
            simp [sameAddr, hxs]
          obtain ⟨e1, _, e4, _⟩ := hcf.spec.2 hr
          rw [hhas] at e1
          have hn := obs_unf_le t' fam (hinv'.rib fam) src.addr
          rw [show famDests (stepObs c (.insert src fam net rpid nh attr filtered nhInv) (t', r)).fams fam =
            (famObs c t' fam).dests from famDests_allFams c t' fam] at h3
          have hc := (hs.ctr src hwf.1 hl fam).1
          have := e4 hhas max hlim
          have hsr := sess_eq_recv hone (hinv'.rib fam) hwf.1 hl
          simp only [Bool.not_false, Bool.toNat_true] at e1
          omega
      | _ => rfl
    · intro l hl
      obtain ⟨hnd, s, hw, hlim, hid⟩ := hs'.live l.src l.fam (isLive_of_mem hl)
      rw [hid] at hnd ⊢
      rw [addrOf_wf hw]
      simp only []
      rw [ctrOf_stepObs hinv' op r s.id l.fam,
        show (stepObs c op (t', r)).fams = allFams.map (famObs c t') from rfl,
        fams_any, famDests_allFams, obs_sess t' l.fam (hinv'.rib l.fam)]
      have heq := hs'.eq s hw hlim l.fam hnd
      have hb := (hs'.ctr s hw hlim l.fam).2
      rw [if_neg (by omega), if_neg]
      rw [heq]; simp
  · intro fo hfo
    obtain ⟨f, rfl⟩ := mem_fams (c := c) (t := t') hfo
    obtain ⟨e1, e2, e3⟩ := obs_state t' f (hinv'.rib f)
    rw [if_neg (fun h => h e1), if_neg (fun h => h e2), if_neg (fun h => h e3)]
    apply firstSome_none
    intro a ha
    have ha' : a ∈ c.srcs.map (·.addr) := List.mem_eraseDups.mp ha
    have hst := statOf_stepObs hinv' op r ha' f
    have hb := hs'.bound a f
    rw [show (famObs c t' f).fam = f from rfl, hst]
    simp only []
    rw [if_neg (by simp only [Bool.or_eq_true, decide_eq_true_eq]; omega),
      if_neg (fun h => h (obs_recv t' f (hinv'.rib f) a).symm),
      if_neg (fun h => h (obs_acc t' f (hinv'.rib f) a).symm)]

/-! ## The master theorem -/

theorem sinv_empty (c : Case) (g : Nat → Fam) : SInv c g {} {} 0 := by
  have hr : ∀ a f, recvCount a (({} : Table).rib f) = 0 := by intro a f; cases f <;> rfl
  have ha : ∀ a f, accCount a (({} : Table).rib f) = 0 := by intro a f; cases f <;> rfl
  have hsc : ∀ i f, sessCount i (({} : Table).rib f) = 0 := by intro i f; cases f <;> rfl
  refine ⟨?_, ?_, ?_, ?_, ?_, ?_, ?_, ?_⟩
  · intro f; cases f <;> rfl
  · intro a f; rw [hr, ha]; exact ⟨Nat.le_refl _, Nat.le_refl _⟩
  · intro key; exact Nat.le_refl _
  · intro s _ _ f; rw [hsc]; exact ⟨Nat.zero_le _, Nat.le_refl _⟩
  · intro s _ _ f _; rw [hsc]; rfl
  · intro s _ _ f _ _; exact hsc _ _
  · rintro i f ⟨l, hl, _⟩; simp at hl
  · intro s _ _ h; rcases h with h | h <;> simp at h

theorem runFrom_length (hS : AllSound) {c : Case} {g : Nat → Fam} (p : Profile) (ops : List Op)
    (hops : ∀ op ∈ ops, op.WF c g) (t : Table) (hinv : Inv c g t) : (runFrom p t ops).1.length = ops.length := by
  induction ops generalizing t with
  | nil => rfl
  | cons op ops ih =>
    obtain ⟨t', r, _, hrun, hinv', _⟩ := run_step hS p ops (hops op List.mem_cons_self) hinv
    rw [hrun]
    simp only [List.length_cons]
    rw [ih (fun o ho => hops o (List.mem_cons_of_mem _ ho)) t' hinv']

theorem checkSteps_ok (hS : AllSound) (hR : RefSound) {c : Case} {g : Nat → Fam} (p : Profile) (hone : c.OneSession) :
    ∀ (ops : List Op) (t : Table) (st : St) (k i : Nat), (∀ op ∈ ops, op.WF c g) → (∀ op ∈ ops, op.AttrRef c) →
      (∀ op ∈ ops, op.PurgeCtrOk c) → k + ops.length < HALF → Inv c g t → SInv c g t st k →
      RefRel t st.ref → AttrRefInv c t →
      checkSteps c i st ops (List.zipWith (stepObs c) ops (runFrom p t ops).1) = .ok := by
  intro ops
  induction ops with
  | nil => intro t st k i _ _ _ _ _ _ _ _; rfl
  | cons op ops ih =>
    intro t st k i hwf har hpo hk hinv hs hrel hattr
    obtain ⟨t', r, hstep, hrun, hinv', _, hE, hX⟩ := run_step hS p ops (hwf op List.mem_cons_self) hinv
    have hcf := ctrFacts_step p hinv hinv' op hstep
    have hlen : k + (ops.length + 1) < HALF := by simpa using hk
    have hattr' := attrRef_step hattr (har op List.mem_cons_self) hE
    obtain ⟨hrel', hchk0⟩ := hR c g p t op t' r st.ref (hwf op List.mem_cons_self) hinv hinv' hstep hE hX hattr
      hattr' hrel
    have hs' := sinv_step hone (hpo op List.mem_cons_self) (hwf op List.mem_cons_self) (by omega) hinv hcf hX hs
      (SpecRef.refStep c st.ref op (r.obs c.shard t'.flags))
    have hchk := checkStep_ok hone hinv hinv' (by omega) hs hs' (hwf op List.mem_cons_self) hcf
    rw [hrun]
    simp only [List.zipWith_cons_cons]
    rw [checkSteps]
    rw [show SpecRef.check c (SpecRef.refStep c st.ref op (stepObs c op (t', r)).res) (stepObs c op (t', r)) = none
      from hchk0, Option.orElse_none, hchk]
    exact ih t' _ (k + 1) (i + 1) (fun o ho => hwf o (List.mem_cons_of_mem _ ho))
      (fun o ho => har o (List.mem_cons_of_mem _ ho))
      (fun o ho => hpo o (List.mem_cons_of_mem _ ho)) (by omega) hinv' hs' hrel' hattr'

/-- **C15, partial**: with one session per limited peer the reference checker accepts every model run. -/
theorem check_run_ok_partial (hS : AllSound) (hR : RefSound) {c : Case} {g : Nat → Fam} (p : Profile)
    (h : c.Good g) (hpc : c.PurgeCtrOk) (hsh : c.Short) (hone : c.OneSession) :
    SpecC15.check c (observe p c) = .ok := by
  have hsteps : (observe p c).steps = List.zipWith (stepObs c) c.ops (runFrom p {} c.ops).1 := rfl
  have hpan : (observe p c).panicked = (runFrom p {} c.ops).2 := rfl
  unfold SpecC15.check
  rw [hsteps, checkSteps_ok hS hR p hone c.ops {} {} 0 0 h.wf h.attrRef hpc
    (by simpa using (show c.ops.length < HALF from hsh)) (inv_empty c g) (sinv_empty c g) refRel_empty
    (attrRefInv_empty c)]
  simp only []
  rw [hpan, runFrom_no_panic hS p c.ops h.wf {} (inv_empty c g)]
  simp only [Bool.false_eq_true, if_false]
  rw [if_neg]
  intro hne
  apply hne
  rw [List.length_zipWith, runFrom_length hS p c.ops h.wf {} (inv_empty c g), Nat.min_self]

/-! ## The states of a run (any number of sessions per peer) -/

/-- what holds at step `i` of a run: the step equation, the invariant before and after, and the
    counters before and after -/
theorem run_at (hS : AllSound) {c : Case} {g : Nat → Fam} (p : Profile) :
    ∀ (ops : List Op) (t : Table) (k : Nat) (done : List Op),
      (∀ op ∈ ops, op.WF c g) → (∀ op ∈ ops, op.PurgeCtrOk c) → k + ops.length < HALF → Inv c g t →
      GInv c t k done →
      ∀ (i : Nat) (tA tB : Table) (op : Op) (r : Res),
        (t :: (runFrom p t ops).1.map (·.1))[i]? = some tA → ops[i]? = some op →
        (runFrom p t ops).1[i]? = some (tB, r) →
        Inv c g tA ∧ Inv c g tB ∧ tA.step p op = .ok (tB, r) ∧
        GInv c tA (k + i) (done ++ ops.take i) ∧ GInv c tB (k + i + 1) (done ++ ops.take (i + 1)) := by
  intro ops
  induction ops with
  | nil => intro t k done _ _ _ _ _ i tA tB op r _ h2; simp at h2
  | cons o ops ih =>
    intro t k done hwf hpo hk hinv hg i tA tB op r h1 h2 h3
    obtain ⟨t1, r1, hstep, hrun, hinv1, _⟩ := run_step hS p ops (hwf o List.mem_cons_self) hinv
    have hcf := ctrFacts_step p hinv hinv1 o hstep
    have hlen : k + (ops.length + 1) < HALF := by simpa using hk
    have hg1 := ginv_step (hpo o List.mem_cons_self) (hwf o List.mem_cons_self) (by omega) hinv hcf hg
    rw [hrun] at h1 h3
    cases i with
    | zero =>
      simp only [List.getElem?_cons_zero, Option.some.injEq] at h1 h2 h3
      subst h1; subst h2
      cases h3
      refine ⟨hinv, hinv1, hstep, by simpa using hg, ?_⟩
      simpa using hg1
    | succ i =>
      simp only [List.getElem?_cons_succ, List.map_cons] at h1 h2 h3
      obtain ⟨e1, e2, e3, e4, e5⟩ := ih t1 (k + 1) (done ++ [o]) (fun o' ho' => hwf o' (List.mem_cons_of_mem _ ho'))
        (fun o' ho' => hpo o' (List.mem_cons_of_mem _ ho')) (by omega) hinv1 hg1 i tA tB op r h1 h2 h3
      refine ⟨e1, e2, e3, ?_, ?_⟩
      · rw [show k + (i + 1) = k + 1 + i by omega, List.take_succ_cons, List.append_cons]; exact e4
      · rw [show k + (i + 1) + 1 = k + 1 + i + 1 by omega, List.take_succ_cons, List.append_cons]; exact e5

/-! ## The full-strength statement is false for the model (residual of the finding: the stale paths a
    restarted session inherits are not counted against its limit) -/

def C15_full : Prop := ∀ (p : Profile) (c : Case), c.WF → SpecC15.check c (observe p c) = .ok

def wS0 : Src := { id := 0, addr := 1, rid := 1, role := .ebgp, lim := some 1 }
def wS1 : Src := { id := 1, addr := 1, rid := 1, role := .ebgp, lim := some 1 }
def wA : Attrs :=
  { id := 0, lp := none, origin := none, asPath := none, oid := none, cluster := none, comm := none, ext := none }
def wN1 : Net := { t2 := false, k := 1 }
def wN2 : Net := { t2 := false, k := 2 }

/-- a session of peer 1 (limit: one prefix) announces a prefix and goes down (its path is kept as
    stale); a new session of the same peer announces ANOTHER prefix: the peer now has two prefixes in the
    RIB, no limit was signalled (the new session's own counter is 1) -/
def wCase : Case :=
  { srcs := [wS0, wS1], attrs := [wA],
    ops := [.insert wS0 .v4 wN1 0 none wA false false, .restale 1 .v4, .insert wS1 .v4 wN2 0 none wA false false] }

theorem wA_wf : wA.WF := ⟨fun _ h => (by cases h), fun _ h => (by cases h), fun _ h => (by cases h)⟩

theorem wCase_wf : wCase.WF := by
  refine ⟨fun _ => .v4, ?_⟩
  intro op hop
  simp only [wCase, List.mem_cons, List.not_mem_nil, or_false] at hop
  rcases hop with rfl | rfl | rfl
  · exact ⟨rfl, rfl, wA_wf⟩
  · trivial
  · exact ⟨rfl, rfl, wA_wf⟩

set_option maxRecDepth 100000 in
theorem wCase_fails : SpecC15.check wCase (observe .debug wCase) ≠ .ok := by decide

set_option maxRecDepth 100000 in
theorem wCase_verdict : SpecC15.check wCase (observe .debug wCase) =
    .fail 2 "limit-exceeded-not-signalled class=inherited-stale-paths" := by decide

theorem not_C15_full : ¬ C15_full := fun h => wCase_fails (h .debug wCase wCase_wf)

end Rbgp.Rib.C15
