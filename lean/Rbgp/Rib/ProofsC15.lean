/-
  Rbgp.Rib.ProofsC15 — the C15 master theorem (partial: outside the two open findings) and the
  refutation of the full-strength statement.
-/
import Rbgp.Rib.CtrFacts
import Rbgp.Rib.ObsC15
import Rbgp.Rib.Run
namespace Rbgp.Rib
open SpecC15

/-! ## The histories covered -/

/-- histories outside the open finding (and inside what the harness can produce): a session with a
    prefix limit is the only source of its peer address; a stale-path purge of such a peer is handed that
    session's counter or none, and a purge is never handed the counter of a limited session of ANOTHER
    peer; the history is shorter than 2^63 steps (so that no honest 64-bit count reaches the
    "underflow" half). -/
structure Case.PlainLimits (c : Case) : Prop where
  oneSession : ∀ s1 ∈ c.srcs, ∀ s2 ∈ c.srcs, s1.addr = s2.addr → s1.lim.isSome = true → s1 = s2
  purgeCtr : ∀ op ∈ c.ops, ∀ s ∈ c.srcs, s.lim.isSome = true →
    (match op with
     | .dropStale a _ ctr | .dropLlgr a _ ctr | .dropNoLlgr a _ ctr =>
        s.addr = a → ctr = none ∨ ctr = some s.id
     | _ => True)
  ctrPeer : ∀ op ∈ c.ops, ∀ i s, c.srcs[i]? = some s → s.lim.isSome = true →
    (match op with
     | .dropStale a _ ctr | .dropLlgr a _ ctr | .dropNoLlgr a _ ctr => ctr = some i → s.addr = a
     | _ => True)
  short : c.ops.length < SpecC15.HALF

/-- the operations after which the sessions of peer `a` in family `f` no longer use their counter:
    the peer is dropped or re-marked stale, or its stale paths are purged without a counter -/
def Op.endsSessions (c : Case) : Op → Option (Nat × Fam)
  | .drop a f => some (a, f)
  | .restale a f => some (a, f)
  | .restaleLlgr a f => some (a, f)
  | .dropStale a f ctr => if (ctr.bind (c.srcs[·]?)).isNone then some (a, f) else none
  | .dropLlgr a f ctr => if (ctr.bind (c.srcs[·]?)).isNone then some (a, f) else none
  | .dropNoLlgr a f ctr => if (ctr.bind (c.srcs[·]?)).isNone then some (a, f) else none
  | _ => none

end Rbgp.Rib

namespace Rbgp.Rib.C15
open SpecC15

/-! ## Counter arithmetic -/

theorem half_lt_u64 : HALF < U64 := by decide

theorem atomicInc_small {v : Nat} (h : v < HALF) : atomicInc v = v + 1 := by
  unfold atomicInc
  have := half_lt_u64
  unfold HALF at h this
  exact Nat.mod_eq_of_lt (by unfold U64 at *; omega)

theorem atomicDec_pos {v : Nat} (h : 1 ≤ v) : atomicDec v = v - 1 := by
  unfold atomicDec; rw [if_neg (by omega)]

theorem atomicDecN_small {k v : Nat} (hk : k ≤ v) (hv : v < HALF) : atomicDecN k v = v - k := by
  unfold atomicDecN
  unfold HALF at hv
  have h1 : k % U64 = k := Nat.mod_eq_of_lt (by unfold U64; omega)
  rw [h1]
  have h2 : v + U64 - k = (v - k) + U64 := by omega
  rw [h2, Nat.add_mod_right]
  exact Nat.mod_eq_of_lt (by unfold U64; omega)

theorem ctr_of_ctrs_eq {t t' : Table} (h : t'.ctrs = t.ctrs) (k : Nat × Fam) : t'.ctr k = t.ctr k := by
  unfold Table.ctr; rw [h]

theorem ctr_aset_self {t t' : Table} {k : Nat × Fam} {v : Nat} (h : t'.ctrs = aset k v t.ctrs) : t'.ctr k = v := by
  unfold Table.ctr; rw [h, alookup_aset_self]

theorem ctr_aset_ne {t t' : Table} {k k' : Nat × Fam} {v : Nat} (h : t'.ctrs = aset k v t.ctrs) (hk : k' ≠ k) :
    t'.ctr k' = t.ctr k' := by
  unfold Table.ctr; rw [h, alookup_aset_ne hk]

/-! ## Sessions in progress -/

def isLive (live : List Live) (i : Nat) (f : Fam) : Prop := ∃ l ∈ live, l.src = i ∧ l.fam = f

theorem isLive_of_mem {live : List Live} {l : Live} (h : l ∈ live) : isLive live l.src l.fam := ⟨l, h, rfl, rfl⟩

theorem isLive_activate {c : Case} (hone : ∀ s1 ∈ c.srcs, ∀ s2 ∈ c.srcs, s1.addr = s2.addr → s1.lim.isSome = true → s1 = s2)
    {st : St} (hlive : ∀ i f, isLive st.live i f → ∃ s : Src, s.WF c ∧ s.lim.isSome = true ∧ i = s.id)
    {s : Src} (hs : s.lim.isSome = true → s.WF c) (f0 : Fam) (i : Nat) (f : Fam) :
    isLive (activate c st s f0) i f ↔
      isLive st.live i f ∨ (s.lim.isSome = true ∧ (s.id, f0) ∉ st.dead ∧ i = s.id ∧ f = f0) := by
  unfold activate
  by_cases h1 : (s.lim.isNone || st.dead.contains (s.id, f0)) = true
  · rw [if_pos h1]
    constructor
    · exact Or.inl
    · rintro (h | ⟨hl, hd, _⟩)
      · exact h
      · exfalso
        rw [Bool.or_eq_true] at h1
        rcases h1 with h1 | h1
        · cases hh : s.lim <;> simp [hh] at hl h1
        · exact hd (List.contains_iff_mem.mp h1)
  · rw [if_neg h1]
    rw [Bool.or_eq_true, not_or] at h1
    have hlim : s.lim.isSome = true := by cases hh : s.lim <;> simp [hh] at h1 ⊢
    have hnd : (s.id, f0) ∉ st.dead := fun hm => h1.2 (List.contains_iff_mem.mpr hm)
    by_cases h2 : (st.live.any fun l => decide (l.src = s.id ∧ l.fam = f0)) = true
    · rw [if_pos h2]
      constructor
      · exact Or.inl
      · rintro (h | ⟨_, _, rfl, rfl⟩)
        · exact h
        · obtain ⟨l, hl, hq⟩ := List.any_eq_true.mp h2
          exact ⟨l, hl, of_decide_eq_true hq⟩
    · rw [if_neg h2]
      constructor
      · rintro ⟨l, hl, rfl, rfl⟩
        rcases List.mem_cons.mp hl with rfl | hl
        · exact Or.inr ⟨hlim, hnd, rfl, rfl⟩
        · exact Or.inl ⟨l, (List.mem_filter.mp hl).1, rfl, rfl⟩
      · rintro (⟨l, hl, rfl, rfl⟩ | ⟨_, _, rfl, rfl⟩)
        · by_cases hq : (!(decide (l.fam = f0) && (addrOf c l.src == some s.addr))) = true
          · exact ⟨l, List.mem_cons_of_mem _ (List.mem_filter.mpr ⟨hl, hq⟩), rfl, rfl⟩
          · -- a live session of the same peer and family is this very session
            simp only [Bool.not_eq_true', Bool.not_eq_false, Bool.and_eq_true, decide_eq_true_eq, beq_iff_eq] at hq
            obtain ⟨s', hs', hl', hid⟩ := hlive l.src l.fam (isLive_of_mem hl)
            have ha : addrOf c l.src = some s'.addr := by rw [hid]; exact addrOf_wf hs'
            rw [ha, Option.some.injEq] at hq
            have : s' = s := hone s' (src_mem_of_wf hs') s (src_mem_of_wf (hs hlim)) hq.2 hl'
            subst this
            exact ⟨_, List.mem_cons_self, hid.symm, hq.1.symm⟩
        · exact ⟨_, List.mem_cons_self, rfl, rfl⟩

theorem kill_match_iff (c : Case) (a : Nat) (f f0 : Fam) (i : Nat) :
    (decide (f = f0) && (addrOf c i == some a)) = true ↔ f = f0 ∧ addrOf c i = some a := by
  simp

theorem isLive_deactivate (c : Case) (live : List Live) (a : Nat) (f0 : Fam) (i : Nat) (f : Fam) :
    isLive (deactivate c live a f0) i f ↔ isLive live i f ∧ ¬ (f = f0 ∧ addrOf c i = some a) := by
  unfold deactivate isLive
  constructor
  · rintro ⟨l, hl, rfl, rfl⟩
    obtain ⟨hm, hq⟩ := List.mem_filter.mp hl
    refine ⟨⟨l, hm, rfl, rfl⟩, ?_⟩
    intro h
    rw [(kill_match_iff c a l.fam f0 l.src).mpr h] at hq
    exact absurd hq (by simp)
  · rintro ⟨⟨l, hl, rfl, rfl⟩, hq⟩
    refine ⟨l, List.mem_filter.mpr ⟨hl, ?_⟩, rfl, rfl⟩
    cases hm : (decide (l.fam = f0) && (addrOf c l.src == some a))
    · rfl
    · exact absurd ((kill_match_iff c a l.fam f0 l.src).mp hm) hq

theorem mem_dead_kill (c : Case) (st : St) (a : Nat) (f0 : Fam) (i : Nat) (f : Fam) :
    (i, f) ∈ ((st.live.filter fun l => l.fam = f0 && addrOf c l.src == some a).map fun l => (l.src, l.fam)) ++ st.dead ↔
      (isLive st.live i f ∧ f = f0 ∧ addrOf c i = some a) ∨ (i, f) ∈ st.dead := by
  rw [List.mem_append, List.mem_map]
  constructor
  · rintro (⟨l, hl, he⟩ | h)
    · obtain ⟨hm, hq⟩ := List.mem_filter.mp hl
      cases he
      simp only [Bool.and_eq_true, decide_eq_true_eq, beq_iff_eq] at hq
      exact Or.inl ⟨⟨l, hm, rfl, rfl⟩, hq.1, hq.2⟩
    · exact Or.inr h
  · rintro (⟨⟨l, hl, rfl, rfl⟩, hf, ha⟩ | h)
    · exact Or.inl ⟨l, List.mem_filter.mpr ⟨hl, by simp [hf, ha]⟩, rfl⟩
    · exact Or.inr h

/-! ## The invariant of the checker state along a run -/

structure SInv (c : Case) (t : Table) (st : St) (k : Nat) : Prop where
  prev : ∀ f, famDests st.prev f = (famObs t f).dests
  bound : ∀ a f, recvCount a (t.rib f) ≤ k ∧ accCount a (t.rib f) ≤ k
  ctr : ∀ s : Src, s.WF c → s.lim.isSome = true → ∀ f,
      recvCount s.addr (t.rib f) ≤ t.ctr (s.id, f) ∧ t.ctr (s.id, f) ≤ k
  eq : ∀ s : Src, s.WF c → s.lim.isSome = true → ∀ f, (s.id, f) ∉ st.dead →
      t.ctr (s.id, f) = recvCount s.addr (t.rib f)
  idle : ∀ s : Src, s.WF c → s.lim.isSome = true → ∀ f, (s.id, f) ∉ st.dead → ¬ isLive st.live s.id f →
      recvCount s.addr (t.rib f) = 0
  live : ∀ i f, isLive st.live i f → (i, f) ∉ st.dead ∧ ∃ s : Src, s.WF c ∧ s.lim.isSome = true ∧ i = s.id

section Trans
variable {c : Case} {t t' : Table} {st : St} {k : Nat}

/-- a step that may start one session's use of its counter -/
theorem sinv_A (hs : SInv c t st k) {live' : List Live} {prev' : List FamObs} (act : Option (Nat × Fam))
    (hlive : ∀ i f, isLive live' i f ↔ isLive st.live i f ∨ (act = some (i, f) ∧ (i, f) ∉ st.dead))
    (hact : ∀ i f, act = some (i, f) → ∃ s : Src, s.WF c ∧ s.lim.isSome = true ∧ i = s.id)
    (hprev : ∀ f, famDests prev' f = (famObs t' f).dests)
    (hbound : ∀ a f, recvCount a (t'.rib f) ≤ recvCount a (t.rib f) + 1 ∧
      accCount a (t'.rib f) ≤ accCount a (t.rib f) + 1)
    (hcnt : ∀ s : Src, s.WF c → s.lim.isSome = true → ∀ f, ∃ up dn : Nat,
        up ≤ 1 ∧ dn ≤ recvCount s.addr (t.rib f) ∧
        recvCount s.addr (t'.rib f) + dn = recvCount s.addr (t.rib f) + up ∧
        t'.ctr (s.id, f) + dn = t.ctr (s.id, f) + up ∧ (act ≠ some (s.id, f) → up = 0 ∧ dn = 0)) :
    SInv c t' { live := live', dead := st.dead, prev := prev' } (k + 1) := by
  refine ⟨hprev, ?_, ?_, ?_, ?_, ?_⟩
  · intro a f
    have h1 := hs.bound a f
    have h2 := hbound a f
    omega
  · intro s hw hl f
    obtain ⟨up, dn, h1, h2, h3, h4, _⟩ := hcnt s hw hl f
    have := hs.ctr s hw hl f
    omega
  · intro s hw hl f hd
    obtain ⟨up, dn, h1, h2, h3, h4, _⟩ := hcnt s hw hl f
    have := hs.eq s hw hl f hd
    omega
  · intro s hw hl f hd hnl
    obtain ⟨up, dn, h1, h2, h3, h4, h5⟩ := hcnt s hw hl f
    have hn : ¬ isLive st.live s.id f := fun h => hnl ((hlive s.id f).mpr (Or.inl h))
    have ha : act ≠ some (s.id, f) := fun h => hnl ((hlive s.id f).mpr (Or.inr ⟨h, hd⟩))
    have := hs.idle s hw hl f hd hn
    have := h5 ha
    omega
  · intro i f h
    rcases (hlive i f).mp h with h | ⟨ha, hd⟩
    · exact hs.live i f h
    · exact ⟨hd, hact i f ha⟩

/-- a step that ends the sessions of peer `a` in family `f0` -/
theorem sinv_K (hs : SInv c t st k) (a : Nat) (f0 : Fam) {prev' : List FamObs}
    (hprev : ∀ f, famDests prev' f = (famObs t' f).dests)
    (hacc : ∀ a f, accCount a (t'.rib f) ≤ accCount a (t.rib f) + 1)
    (hle : ∀ a' f', recvCount a' (t'.rib f') ≤ recvCount a' (t.rib f'))
    (hsame : ∀ a' f', (a', f') ≠ (a, f0) → recvCount a' (t'.rib f') = recvCount a' (t.rib f'))
    (hctr : ∀ s : Src, s.WF c → ∀ f, t'.ctr (s.id, f) = t.ctr (s.id, f)) :
    SInv c t' { live := deactivate c st.live a f0,
                dead := ((st.live.filter fun l => l.fam = f0 && addrOf c l.src == some a).map
                  fun l => (l.src, l.fam)) ++ st.dead,
                prev := prev' } (k + 1) := by
  have hm : ∀ s : Src, s.WF c → ∀ f, ¬ (f = f0 ∧ addrOf c s.id = some a) →
      recvCount s.addr (t'.rib f) = recvCount s.addr (t.rib f) := by
    intro s hw f hn
    apply hsame
    intro e
    cases e
    exact hn ⟨rfl, addrOf_wf hw⟩
  refine ⟨hprev, ?_, ?_, ?_, ?_, ?_⟩
  · intro a' f
    have h1 := hs.bound a' f
    have h2 := hle a' f
    have h3 := hacc a' f
    omega
  · intro s hw hl f
    have := hs.ctr s hw hl f
    have := hle s.addr f
    rw [hctr s hw]
    omega
  · intro s hw hl f hd
    simp only [] at hd
    rw [mem_dead_kill, not_or] at hd
    rw [hctr s hw]
    by_cases hq : f = f0 ∧ addrOf c s.id = some a
    · have hn : ¬ isLive st.live s.id f := fun h => hd.1 ⟨h, hq⟩
      have h0 := hs.idle s hw hl f hd.2 hn
      have := hs.eq s hw hl f hd.2
      have := hle s.addr f
      omega
    · rw [hm s hw f hq]; exact hs.eq s hw hl f hd.2
  · intro s hw hl f hd hnl
    simp only [] at hd hnl
    rw [mem_dead_kill, not_or] at hd
    rw [isLive_deactivate] at hnl
    by_cases hq : f = f0 ∧ addrOf c s.id = some a
    · have hn : ¬ isLive st.live s.id f := fun h => hd.1 ⟨h, hq⟩
      have h0 := hs.idle s hw hl f hd.2 hn
      have := hle s.addr f
      omega
    · have hn : ¬ isLive st.live s.id f := fun h => hnl ⟨h, hq⟩
      rw [hm s hw f hq]; exact hs.idle s hw hl f hd.2 hn
  · intro i f h
    simp only [] at h ⊢
    rw [isLive_deactivate] at h
    refine ⟨?_, (hs.live i f h.1).2⟩
    rw [mem_dead_kill, not_or]
    exact ⟨fun hh => h.2 hh.2, (hs.live i f h.1).1⟩

end Trans

/-! ## One step keeps the invariant of the checker state -/

section Step
variable {c : Case} {g : Nat → Fam} {t t' : Table} {st : St} {k : Nat} {r : Res}

theorem addr_ne_of_id_ne (hp : c.PlainLimits) {s src : Src} (hw : s.WF c) (hl : s.lim.isSome = true)
    (hsrc : src.WF c) (hne : src.id ≠ s.id) : s.addr ≠ src.addr := by
  intro e
  have := hp.oneSession s (src_mem_of_wf hw) src (src_mem_of_wf hsrc) e hl
  subst this
  exact hne rfl

theorem key_ne_of_not_tg (hp : c.PlainLimits) {s src : Src} (hw : s.WF c) (hl : s.lim.isSome = true)
    (hsrc : src.WF c) {f fam : Fam} (htg : ¬ (src.id = s.id ∧ fam = f)) :
    (s.addr, f) ≠ (src.addr, fam) ∧ (s.id, f) ≠ (src.id, fam) := by
  constructor
  · intro e
    obtain ⟨e1, e2⟩ := Prod.mk.inj e
    exact addr_ne_of_id_ne hp hw hl hsrc (fun h => htg ⟨h, e2.symm⟩) e1
  · intro e
    obtain ⟨e1, e2⟩ := Prod.mk.inj e
    exact htg ⟨e1.symm, e2.symm⟩

theorem act_of_src (st : St) (src : Src) (fam : Fam) (i : Nat) (f : Fam) :
    (src.lim.isSome = true ∧ (src.id, fam) ∉ st.dead ∧ i = src.id ∧ f = fam) ↔
      ((if src.lim.isSome then some (src.id, fam) else none) = some (i, f) ∧ (i, f) ∉ st.dead) := by
  cases src.lim.isSome
  · simp
  · simp only [if_true, Option.some.injEq, Prod.mk.injEq, true_and]
    constructor
    · rintro ⟨hd, rfl, rfl⟩; exact ⟨⟨rfl, rfl⟩, hd⟩
    · rintro ⟨⟨rfl, rfl⟩, hd⟩; exact ⟨hd, rfl, rfl⟩

theorem sinv_insert (hp : c.PlainLimits) (hk : k < HALF) (hs : SInv c t st k) {src : Src} {fam : Fam} {net : Net}
    {rpid : Nat} {nh : Option Nat} {attr : Attrs} {filtered nhInv : Bool} (hsrc : src.WF c)
    (hcf : CtrFacts t (.insert src fam net rpid nh attr filtered nhInv) t' r) {prev' : List FamObs}
    (hprev : ∀ f, famDests prev' f = (famObs t' f).dests) :
    SInv c t' { live := activate c st src fam, dead := st.dead, prev := prev' } (k + 1) := by
  obtain ⟨hacc, hlimit, hok⟩ := hcf
  refine sinv_A hs (if src.lim.isSome then some (src.id, fam) else none) ?_ ?_ hprev ?_ ?_
  · intro i f
    rw [isLive_activate hp.oneSession (fun i f h => (hs.live i f h).2) (fun _ => hsrc) fam i f, act_of_src]
  · intro i f h
    cases hl : src.lim.isSome
    · rw [hl] at h; simp at h
    · rw [hl] at h
      simp only [if_true, Option.some.injEq, Prod.mk.injEq] at h
      exact ⟨src, hsrc, hl, h.1.symm⟩
  · intro a f
    refine ⟨?_, hacc a f⟩
    by_cases hr : r = .limit
    · rw [(hlimit hr).2.2]; omega
    · obtain ⟨h1, h2, _, _⟩ := hok hr
      by_cases hkey : (a, f) = (src.addr, fam)
      · cases hkey
        rw [h1]
        cases (!(t.entries fam net).any (sameAddr src.addr)) <;> simp
      · rw [h2 a f hkey]; omega
  · intro s hw hl f
    by_cases hr : r = .limit
    · rw [(hlimit hr).2.2]
      exact ⟨0, 0, by omega, by omega, rfl, rfl, fun _ => ⟨rfl, rfl⟩⟩
    · obtain ⟨h1, h2, h3, _⟩ := hok hr
      by_cases htg : src.id = s.id ∧ fam = f
      · obtain ⟨hid, rfl⟩ := htg
        have : src = s := src_eq_of_id hsrc hw hid
        subst this
        refine ⟨(!(t.entries fam net).any (sameAddr src.addr)).toNat, 0, ?_, by omega, by rw [h1]; rfl, ?_,
          fun h => absurd (by rw [hl]; rfl) h⟩
        · cases (!(t.entries fam net).any (sameAddr src.addr)) <;> simp
        · rw [hl] at h3
          cases hn : (!(t.entries fam net).any (sameAddr src.addr))
          · rw [hn] at h3
            simp only [Bool.false_and, Bool.false_eq_true, if_false] at h3
            rw [ctr_of_ctrs_eq h3]; rfl
          · rw [hn] at h3
            simp only [Bool.and_self, if_true] at h3
            rw [ctr_aset_self h3, atomicInc_small (by have := (hs.ctr src hw hl fam).2; omega)]
            rfl
      · obtain ⟨ha, hkk⟩ := key_ne_of_not_tg hp hw hl hsrc htg
        refine ⟨0, 0, by omega, by omega, by rw [h2 _ _ ha], ?_, fun _ => ⟨rfl, rfl⟩⟩
        split at h3
        · rw [ctr_aset_ne h3 hkk]
        · rw [ctr_of_ctrs_eq h3]

theorem sinv_remove (hp : c.PlainLimits) (hs : SInv c t st k) {src : Src} {fam : Fam} {net : Net}
    {rpid : Nat} (hsrc : src.WF c) (hcf : CtrFacts t (.remove src fam net rpid) t' r) {prev' : List FamObs}
    (hprev : ∀ f, famDests prev' f = (famObs t' f).dests) :
    SInv c t' { live := activate c st src fam, dead := st.dead, prev := prev' } (k + 1) := by
  obtain ⟨hacc, d, h1, h2, h3⟩ := hcf
  refine sinv_A hs (if src.lim.isSome then some (src.id, fam) else none) ?_ ?_ hprev ?_ ?_
  · intro i f
    rw [isLive_activate hp.oneSession (fun i f h => (hs.live i f h).2) (fun _ => hsrc) fam i f, act_of_src]
  · intro i f h
    cases hl : src.lim.isSome
    · rw [hl] at h; simp at h
    · rw [hl] at h
      simp only [if_true, Option.some.injEq, Prod.mk.injEq] at h
      exact ⟨src, hsrc, hl, h.1.symm⟩
  · intro a f
    refine ⟨?_, hacc a f⟩
    by_cases hkey : (a, f) = (src.addr, fam)
    · cases hkey; omega
    · rw [h2 a f hkey]; omega
  · intro s hw hl f
    by_cases htg : src.id = s.id ∧ fam = f
    · obtain ⟨hid, rfl⟩ := htg
      have : src = s := src_eq_of_id hsrc hw hid
      subst this
      refine ⟨0, d.toNat, by omega, by omega, by omega, ?_, fun h => absurd (by rw [hl]; rfl) h⟩
      rw [hl] at h3
      cases d
      · simp only [Bool.false_and, Bool.false_eq_true, if_false] at h3
        rw [ctr_of_ctrs_eq h3]; rfl
      · simp only [Bool.and_self, if_true] at h3
        have hc := (hs.ctr src hw hl fam).1
        simp only [Bool.toNat_true] at h1 ⊢
        rw [ctr_aset_self h3, atomicDec_pos (by omega)]
        omega
    · obtain ⟨ha, hkk⟩ := key_ne_of_not_tg hp hw hl hsrc htg
      refine ⟨0, 0, by omega, by omega, by rw [h2 _ _ ha], ?_, fun _ => ⟨rfl, rfl⟩⟩
      split at h3
      · rw [ctr_aset_ne h3 hkk]
      · rw [ctr_of_ctrs_eq h3]

theorem sinv_purge (hp : c.PlainLimits) (hk : k < HALF) (hs : SInv c t st k) {a : Nat} {f0 : Fam} {ctr : Option Nat}
    (hpc : ∀ s ∈ c.srcs, s.lim.isSome = true → s.addr = a → ctr = none ∨ ctr = some s.id)
    (hcp : ∀ i s, c.srcs[i]? = some s → s.lim.isSome = true → ctr = some i → s.addr = a)
    (hacc : ∀ a f, accCount a (t'.rib f) ≤ accCount a (t.rib f) + 1)
    (hspec : PurgeSpec t t' a f0 ctr) {prev' : List FamObs}
    (hprev : ∀ f, famDests prev' f = (famObs t' f).dests) :
    SInv c t' { live := (match ctr.bind (c.srcs[·]?) with
                  | some s => activate c st s f0
                  | none => deactivate c st.live a f0),
                dead := (match ctr.bind (c.srcs[·]?) with
                  | some _ => st.dead
                  | none => ((st.live.filter fun l => l.fam = f0 && addrOf c l.src == some a).map
                      fun l => (l.src, l.fam)) ++ st.dead),
                prev := prev' } (k + 1) := by
  obtain ⟨gone, hR, hoth, hctrs⟩ := hspec
  have hle : ∀ a' f', recvCount a' (t'.rib f') ≤ recvCount a' (t.rib f') := by
    intro a' f'
    by_cases hkey : (a', f') = (a, f0)
    · cases hkey; omega
    · rw [hoth a' f' hkey]; omega
  cases hb : ctr.bind (c.srcs[·]?) with
  | none =>
    -- no counter: the judgement of the peer's sessions in the family ends
    simp only []
    refine sinv_K hs a f0 hprev hacc hle hoth ?_
    intro s hw f
    cases hc : ctr with
    | none => rw [hc] at hctrs; exact ctr_of_ctrs_eq hctrs _
    | some i =>
      rw [hc] at hctrs hb
      have hne : (s.id, f) ≠ (i, f0) := by
        intro e
        obtain ⟨e1, _⟩ := Prod.mk.inj e
        subst e1
        have : c.srcs[s.id]? = none := hb
        rw [show c.srcs[s.id]? = some s from hw] at this
        cases this
      exact ctr_aset_ne (show t'.ctrs = aset (i, f0) _ t.ctrs from hctrs) hne
  | some s' =>
    simp only []
    obtain ⟨j, hj⟩ : ∃ j, ctr = some j := by
      cases hc : ctr with
      | none => rw [hc] at hb; simp at hb
      | some j => exact ⟨j, rfl⟩
    have hjs : c.srcs[j]? = some s' := by rw [hj] at hb; exact hb
    -- a limited source whose counter was handed over is a well-formed source of the purged peer
    have hsrc : s'.lim.isSome = true → s'.WF c ∧ s'.addr = a ∧ j = s'.id := by
      intro hl
      have ha := hcp j s' hjs hl hj
      rcases hpc s' (List.mem_of_getElem? hjs) hl ha with h | h
      · rw [hj] at h; cases h
      · rw [hj, Option.some.injEq] at h
        subst h
        exact ⟨hjs, ha, rfl⟩
    refine sinv_A hs (if s'.lim.isSome then some (s'.id, f0) else none) ?_ ?_ hprev
      (fun a' f' => ⟨by have := hle a' f'; omega, hacc a' f'⟩) ?_
    · intro i f
      rw [isLive_activate hp.oneSession (fun i f h => (hs.live i f h).2) (fun hl => (hsrc hl).1) f0 i f,
        act_of_src]
    · intro i f h
      cases hl : s'.lim.isSome
      · rw [hl] at h; simp at h
      · rw [hl] at h
        simp only [if_true, Option.some.injEq, Prod.mk.injEq] at h
        exact ⟨s', (hsrc hl).1, hl, h.1.symm⟩
    · intro s hw hl f
      by_cases htg : s.addr = a ∧ f = f0
      · obtain ⟨rfl, rfl⟩ := htg
        have hc : ctr = some s.id := by
          rcases hpc s (src_mem_of_wf hw) hl rfl with h | h
          · rw [hj] at h; cases h
          · exact h
        have hss : s' = s := by
          rw [hc] at hb
          have : c.srcs[s.id]? = some s' := hb
          rw [show c.srcs[s.id]? = some s from hw] at this
          exact (Option.some.inj this).symm
        subst hss
        have hcc := hs.ctr s' hw hl f
        refine ⟨0, gone, by omega, by omega, by omega, ?_, fun h => absurd (by rw [hl]; rfl) h⟩
        rw [hc] at hctrs
        rw [ctr_aset_self (show t'.ctrs = aset (s'.id, f) _ t.ctrs from hctrs),
          atomicDecN_small (by omega) (by omega)]
        omega
      · have hkey : (s.addr, f) ≠ (a, f0) := by
          intro e
          obtain ⟨e1, e2⟩ := Prod.mk.inj e
          exact htg ⟨e1, e2⟩
        refine ⟨0, 0, by omega, by omega, by rw [hoth _ _ hkey], ?_, fun _ => ⟨rfl, rfl⟩⟩
        rw [hj] at hctrs
        have hne : (s.id, f) ≠ (j, f0) := by
          intro e
          obtain ⟨e1, e2⟩ := Prod.mk.inj e
          subst e1
          exact htg ⟨hcp s.id s hw hl hj, e2⟩
        rw [ctr_aset_ne (show t'.ctrs = aset (j, f0) _ t.ctrs from hctrs) hne]

theorem sinv_step (hp : c.PlainLimits) {op : Op} (hop : op ∈ c.ops) (hwf : op.WF c g) (hk : k < HALF)
    (hcf : CtrFacts t op t' r) (hs : SInv c t st k) :
    SInv c t' { live := liveStep c st op, dead := deadStep c st op, prev := (stepObs c (t', r)).fams } (k + 1) := by
  have hprev : ∀ f, famDests (stepObs c (t', r)).fams f = (famObs t' f).dests := fun f => famDests_allFams t' f
  have hnone : t'.ctrs = t.ctrs → (∀ a f, recvCount a (t'.rib f) = recvCount a (t.rib f)) →
      SInv c t' { live := st.live, dead := st.dead, prev := (stepObs c (t', r)).fams } (k + 1) := by
    intro hc hr
    refine sinv_A hs none (fun i f => ⟨Or.inl, ?_⟩) (fun i f h => absurd h (by simp)) hprev ?_ ?_
    · rintro (h | ⟨h, _⟩)
      · exact h
      · exact absurd h (by simp)
    · intro a f
      have := hcf.accLe a f
      rw [hr a f]; omega
    · intro s hw hl f
      exact ⟨0, 0, by omega, by omega, by rw [hr], by rw [ctr_of_ctrs_eq hc], fun _ => ⟨rfl, rfl⟩⟩
  have hkill : ∀ a f0, (∀ s : Src, s.WF c → ∀ f, t'.ctr (s.id, f) = t.ctr (s.id, f)) →
      (∀ a' f', recvCount a' (t'.rib f') ≤ recvCount a' (t.rib f')) →
      (∀ a' f', (a', f') ≠ (a, f0) → recvCount a' (t'.rib f') = recvCount a' (t.rib f')) →
      SInv c t' { live := deactivate c st.live a f0,
                  dead := ((st.live.filter fun l => l.fam = f0 && addrOf c l.src == some a).map
                    fun l => (l.src, l.fam)) ++ st.dead,
                  prev := (stepObs c (t', r)).fams } (k + 1) :=
    fun a f0 hc hle hsame => sinv_K hs a f0 hprev hcf.accLe hle hsame hc
  cases op with
  | insert src fam net rpid nh attr filtered nhInv => exact sinv_insert hp hk hs hwf.1 hcf hprev
  | remove src fam net rpid => exact sinv_remove hp hs hwf.1 hcf hprev
  | drop a f0 =>
    obtain ⟨gone, hR, hoth, hctrs⟩ := hcf.spec
    refine hkill a f0 (fun s _ f => ctr_of_ctrs_eq hctrs _) ?_ hoth
    intro a' f'
    by_cases hkey : (a', f') = (a, f0)
    · cases hkey; omega
    · rw [hoth a' f' hkey]; omega
  | dropStale a f0 ctr =>
    exact sinv_purge hp hk hs (fun s hm hl => hp.purgeCtr _ hop s hm hl)
      (fun i s hi hl => hp.ctrPeer _ hop i s hi hl) hcf.accLe hcf.spec hprev
  | dropLlgr a f0 ctr =>
    exact sinv_purge hp hk hs (fun s hm hl => hp.purgeCtr _ hop s hm hl)
      (fun i s hi hl => hp.ctrPeer _ hop i s hi hl) hcf.accLe hcf.spec hprev
  | dropNoLlgr a f0 ctr =>
    exact sinv_purge hp hk hs (fun s hm hl => hp.purgeCtr _ hop s hm hl)
      (fun i s hi hl => hp.ctrPeer _ hop i s hi hl) hcf.accLe hcf.spec hprev
  | restale a f0 =>
    exact hkill a f0 (fun s _ f => ctr_of_ctrs_eq hcf.spec.2 _) (fun a' f' => by rw [hcf.spec.1 a' f']; omega)
      (fun a' f' _ => hcf.spec.1 a' f')
  | restaleLlgr a f0 =>
    exact hkill a f0 (fun s _ f => ctr_of_ctrs_eq hcf.spec.2 _) (fun a' f' => by rw [hcf.spec.1 a' f']; omega)
      (fun a' f' _ => hcf.spec.1 a' f')
  | nhValidity nh reachable => exact hnone hcf.spec.2 hcf.spec.1
  | startDeferral fam => exact hnone hcf.spec.2 hcf.spec.1
  | endDeferral fam => exact hnone hcf.spec.2 hcf.spec.1

end Step

/-! ## One step passes the checker -/

theorem res_obs_limit {fl : Flags} {r : Res} (h : r.obs fl = .limit) : r = .limit := by
  cases r with
  | removed c => cases c <;> simp [Res.obs] at h
  | limit => rfl
  | _ => simp [Res.obs] at h

theorem checkStep_ok {c : Case} {g : Nat → Fam} {t t' : Table} {r : Res} {st : St} {k : Nat} {op : Op}
    {live' : List Live} {dead' : List (Nat × Fam)} {prev' : List FamObs}
    (hinv : Inv c g t) (hinv' : Inv c g t') (hk : k + 1 < HALF)
    (hs : SInv c t st k) (hs' : SInv c t' { live := live', dead := dead', prev := prev' } (k + 1))
    (hwf : op.WF c g) (hcf : CtrFacts t op t' r) :
    checkStep c st live' op (stepObs c (t', r)) = none := by
  unfold checkStep
  simp only []
  rw [firstSome_none]
  · rw [Option.orElse_none, firstSome_none]
    · rw [Option.orElse_none]
      cases op with
      | insert src fam net rpid nh attr filtered nhInv =>
        simp only []
        cases hlim : src.lim with
        | none => rfl
        | some max =>
          simp only []
          rw [if_neg]
          intro h
          simp only [Bool.and_eq_true, decide_eq_true_eq, Bool.not_eq_true'] at h
          obtain ⟨⟨h1, h2⟩, h3⟩ := h
          rw [hs.prev fam, obs_known t fam (hinv.rib fam)] at h1
          have hr : r ≠ .limit := fun e => h2 (by rw [e]; rfl)
          obtain ⟨e1, _, _, e4⟩ := hcf.spec.2 hr
          rw [h1] at e1 e4
          have hn := obs_unf_le t' fam (hinv'.rib fam) src.addr
          rw [show famDests (stepObs c (t', r)).fams fam = (famObs t' fam).dests from famDests_allFams t' fam] at h3
          have hc := (hs.ctr src hwf.1 (by rw [hlim]; rfl) fam).1
          have := e4 rfl max hlim
          simp only [Bool.not_false, Bool.toNat_true] at e1
          omega
      | _ => rfl
    · intro l hl
      obtain ⟨hnd, s, hw, hlim, hid⟩ := hs'.live l.src l.fam (isLive_of_mem hl)
      rw [hid] at hnd ⊢
      rw [addrOf_wf hw]
      simp only []
      rw [ctrOf_stepObs hinv' r s.id l.fam, show (stepObs c (t', r)).fams = allFams.map (famObs t') from rfl, fams_any, famDests_allFams, obs_recv t' l.fam (hinv'.rib l.fam)]
      have heq := hs'.eq s hw hlim l.fam hnd
      have hb := (hs'.bound s.addr l.fam).1
      rw [if_neg (by omega), if_neg]
      rw [heq]; simp
  · intro fo hfo
    obtain ⟨f, rfl⟩ := mem_fams (t := t') hfo
    obtain ⟨e1, e2, e3⟩ := obs_state t' f (hinv'.rib f)
    rw [if_neg (fun h => h e1), if_neg (fun h => h e2), if_neg (fun h => h e3)]
    apply firstSome_none
    intro a ha
    have ha' : a ∈ c.srcs.map (·.addr) := List.mem_eraseDups.mp ha
    have hst := statOf_stepObs hinv' r ha' f
    have hb := hs'.bound a f
    rw [show (famObs t' f).fam = f from rfl, hst]
    simp only []
    rw [if_neg (by simp only [Bool.or_eq_true, decide_eq_true_eq]; omega),
      if_neg (fun h => h (obs_recv t' f (hinv'.rib f) a).symm),
      if_neg (fun h => h (obs_acc t' f (hinv'.rib f) a).symm)]

/-! ## The master theorem -/

theorem sinv_empty (c : Case) : SInv c {} {} 0 := by
  have hr : ∀ a f, recvCount a (({} : Table).rib f) = 0 := by intro a f; cases f <;> rfl
  have ha : ∀ a f, accCount a (({} : Table).rib f) = 0 := by intro a f; cases f <;> rfl
  refine ⟨?_, ?_, ?_, ?_, ?_, ?_⟩
  · intro f; cases f <;> rfl
  · intro a f; rw [hr, ha]; exact ⟨Nat.le_refl _, Nat.le_refl _⟩
  · intro s _ _ f; rw [hr]; exact ⟨Nat.zero_le _, Nat.le_refl _⟩
  · intro s _ _ f _; rw [hr]; rfl
  · intro s _ _ f _ _; exact hr _ _
  · rintro i f ⟨l, hl, _⟩; simp at hl

theorem checkSteps_ok (hS : AllSound) {c : Case} {g : Nat → Fam} (p : Profile) (hp : c.PlainLimits) :
    ∀ (ops : List Op) (t : Table) (st : St) (k i : Nat), (∀ op ∈ ops, op.WF c g) → (∀ op ∈ ops, op ∈ c.ops) →
      k + ops.length < HALF → Inv c g t → SInv c t st k →
      checkSteps c i st ops ((runFrom p t ops).1.map (stepObs c)) = .ok := by
  intro ops
  induction ops with
  | nil => intro t st k i _ _ _ _ _; rfl
  | cons op ops ih =>
    intro t st k i hwf hmem hk hinv hs
    obtain ⟨t', r, hstep, hrun, hinv', _, _⟩ := run_step hS p ops (hwf op List.mem_cons_self) hinv
    have hcf := ctrFacts_step p hinv hinv' op hstep
    have hlen : k + (ops.length + 1) < HALF := by simpa using hk
    have hs' := sinv_step hp (hmem op List.mem_cons_self) (hwf op List.mem_cons_self) (by omega) hcf hs
    have hchk := checkStep_ok hinv hinv' (by omega) hs hs' (hwf op List.mem_cons_self) hcf
    rw [hrun]
    simp only [List.map_cons]
    rw [checkSteps, hchk]
    exact ih t' _ (k + 1) (i + 1) (fun o ho => hwf o (List.mem_cons_of_mem _ ho))
      (fun o ho => hmem o (List.mem_cons_of_mem _ ho)) (by omega) hinv' hs'

/-! ## The states of a run -/

/-- every ended session was ended by one of the operations executed so far -/
def DeadProv (c : Case) (dead : List (Nat × Fam)) (done : List Op) : Prop :=
  ∀ i f, (i, f) ∈ dead → ∃ op ∈ done, ∃ a, op.endsSessions c = some (a, f) ∧ addrOf c i = some a

theorem deadProv_step {c : Case} {st : St} {done : List Op} (h : DeadProv c st.dead done) (op : Op) :
    DeadProv c (deadStep c st op) (done ++ [op]) := by
  have hold : DeadProv c st.dead (done ++ [op]) := by
    intro i f hm
    obtain ⟨o, ho, a, h1, h2⟩ := h i f hm
    exact ⟨o, List.mem_append_left _ ho, a, h1, h2⟩
  have hkill : ∀ a f0, op.endsSessions c = some (a, f0) →
      DeadProv c (((st.live.filter fun l => l.fam = f0 && addrOf c l.src == some a).map
        fun l => (l.src, l.fam)) ++ st.dead) (done ++ [op]) := by
    intro a f0 hop i f hm
    rcases (mem_dead_kill c st a f0 i f).mp hm with ⟨_, hf, ha⟩ | hm
    · exact ⟨op, List.mem_append_right _ List.mem_cons_self, a, by rw [hop, hf], ha⟩
    · exact hold i f hm
  have hpurge : ∀ (a : Nat) (f0 : Fam) (ctr : Option Nat), (ctr.bind (c.srcs[·]?) = none → op.endsSessions c = some (a, f0)) →
      DeadProv c (match ctr.bind (c.srcs[·]?) with
        | some _ => st.dead
        | none => ((st.live.filter fun l => l.fam = f0 && addrOf c l.src == some a).map
            fun l => (l.src, l.fam)) ++ st.dead) (done ++ [op]) := by
    intro a f0 ctr hop
    cases hb : ctr.bind (c.srcs[·]?) with
    | none => exact hkill a f0 (hop hb)
    | some _ => exact hold
  cases op with
  | drop a f0 => exact hkill a f0 rfl
  | restale a f0 => exact hkill a f0 rfl
  | restaleLlgr a f0 => exact hkill a f0 rfl
  | dropStale a f0 ctr => exact hpurge a f0 ctr (fun hb => by simp [Op.endsSessions, hb])
  | dropLlgr a f0 ctr => exact hpurge a f0 ctr (fun hb => by simp [Op.endsSessions, hb])
  | dropNoLlgr a f0 ctr => exact hpurge a f0 ctr (fun hb => by simp [Op.endsSessions, hb])
  | _ => exact hold

/-- what holds at step `i` of a run: the step equation, the invariants before and after, and the
    provenance of the ended sessions -/
theorem run_at (hS : AllSound) {c : Case} {g : Nat → Fam} (p : Profile) (hp : c.PlainLimits) :
    ∀ (ops : List Op) (t : Table) (st : St) (k : Nat) (done : List Op),
      (∀ op ∈ ops, op.WF c g) → (∀ op ∈ ops, op ∈ c.ops) → k + ops.length < HALF → Inv c g t → SInv c t st k →
      DeadProv c st.dead done →
      ∀ (i : Nat) (tA tB : Table) (op : Op) (r : Res),
        (t :: (runFrom p t ops).1.map (·.1))[i]? = some tA → ops[i]? = some op →
        (runFrom p t ops).1[i]? = some (tB, r) →
        Inv c g tA ∧ Inv c g tB ∧ tA.step p op = .ok (tB, r) ∧
        ∃ stA, SInv c tA stA (k + i) ∧ DeadProv c stA.dead (done ++ ops.take i) ∧
          SInv c tB { live := liveStep c stA op, dead := deadStep c stA op, prev := (stepObs c (tB, r)).fams }
            (k + i + 1) ∧
          DeadProv c (deadStep c stA op) (done ++ ops.take (i + 1)) := by
  intro ops
  induction ops with
  | nil => intro t st k done _ _ _ _ _ _ i tA tB op r _ h2; simp at h2
  | cons o ops ih =>
    intro t st k done hwf hmem hk hinv hs hd i tA tB op r h1 h2 h3
    obtain ⟨t1, r1, hstep, hrun, hinv1, _, _⟩ := run_step hS p ops (hwf o List.mem_cons_self) hinv
    have hcf := ctrFacts_step p hinv hinv1 o hstep
    have hlen : k + (ops.length + 1) < HALF := by simpa using hk
    have hs1 := sinv_step hp (hmem o List.mem_cons_self) (hwf o List.mem_cons_self) (by omega) hcf hs
    have hd1 := deadProv_step hd o
    rw [hrun] at h1 h3
    cases i with
    | zero =>
      simp only [List.getElem?_cons_zero, Option.some.injEq] at h1 h2 h3
      subst h1; subst h2
      cases h3
      refine ⟨hinv, hinv1, hstep, st, hs, by simpa using hd, hs1, ?_⟩
      simpa using hd1
    | succ i =>
      simp only [List.getElem?_cons_succ, List.map_cons] at h1 h2 h3
      have := ih t1 _ (k + 1) (done ++ [o]) (fun o' ho' => hwf o' (List.mem_cons_of_mem _ ho'))
        (fun o' ho' => hmem o' (List.mem_cons_of_mem _ ho')) (by omega) hinv1 hs1 hd1 i tA tB op r h1 h2 h3
      obtain ⟨e1, e2, e3, stA, e4, e5, e6, e7⟩ := this
      refine ⟨e1, e2, e3, stA, ?_, ?_, ?_, ?_⟩
      · rw [show k + (i + 1) = k + 1 + i by omega]; exact e4
      · rw [List.take_succ_cons, List.append_cons]; exact e5
      · rw [show k + (i + 1) + 1 = k + 1 + i + 1 by omega]; exact e6
      · rw [List.take_succ_cons, List.append_cons]; exact e7

/-- **C15, partial**: outside the two open findings the reference checker accepts every model run. -/
theorem check_run_ok_partial (hS : AllSound) {c : Case} {g : Nat → Fam} (p : Profile) (h : c.WFWith g)
    (hp : c.PlainLimits) : SpecC15.check c (observe p c) = .ok := by
  have hsteps : (observe p c).steps = (runFrom p {} c.ops).1.map (stepObs c) := rfl
  have hpan : (observe p c).panicked = (runFrom p {} c.ops).2 := rfl
  unfold SpecC15.check
  rw [hsteps, checkSteps_ok hS p hp c.ops {} {} 0 0 h (fun _ ho => ho) (by simpa using hp.short)
    (inv_empty c g) (sinv_empty c)]
  simp only []
  rw [hpan, runFrom_no_panic hS p c.ops h {} (inv_empty c g)]
  rfl

/-! ## The full-strength statement is false for the model (open finding: inherited stale paths) -/

def C15_full : Prop := ∀ (p : Profile) (c : Case), c.WF → SpecC15.check c (observe p c) = .ok

def wS0 : Src := { id := 0, addr := 1, rid := 1, role := .ebgp, lim := some 3 }
def wS1 : Src := { id := 1, addr := 1, rid := 1, role := .ebgp, lim := some 3 }
def wA : Attrs :=
  { id := 0, lp := none, origin := none, asPath := none, oid := none, cluster := none, comm := none, ext := none }
def wN : Net := { t2 := false, k := 1 }

/-- a session of peer 1 announces a prefix, goes down (its paths are kept as stale), and a new session
    of the same peer re-announces the prefix: the new session's counter stays 0 while it has a prefix -/
def wCase : Case :=
  { srcs := [wS0, wS1], attrs := [wA],
    ops := [.insert wS0 .v4 wN 0 none wA false false, .restale 1 .v4, .insert wS1 .v4 wN 0 none wA false false] }

theorem wA_wf : wA.WF := ⟨fun _ h => (by cases h), fun _ h => (by cases h), fun _ h => (by cases h)⟩

theorem wCase_wf : wCase.WF := by
  refine ⟨fun _ => .v4, ?_⟩
  intro op hop
  simp only [wCase, List.mem_cons, List.not_mem_nil, or_false] at hop
  rcases hop with rfl | rfl | rfl
  · exact ⟨rfl, rfl, wA_wf⟩
  · trivial
  · exact ⟨rfl, rfl, wA_wf⟩

set_option maxRecDepth 100000 in
theorem wCase_fails : SpecC15.check wCase (observe .debug wCase) ≠ .ok := by decide

set_option maxRecDepth 100000 in
theorem wCase_verdict : SpecC15.check wCase (observe .debug wCase) =
    .fail 2 "limit-counter-ne-recount class=inherited-stale-paths" := by decide

theorem not_C15_full : ¬ C15_full := fun h => wCase_fails (h .debug wCase wCase_wf)

end Rbgp.Rib.C15
