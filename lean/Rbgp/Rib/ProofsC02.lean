/-
  Rbgp.Rib.ProofsC02 — helper lemmas for the C02 theorems: a ranked list of well-formed entries passes
  `SpecC02.checkRanking`, and the pieces of the master theorem.
-/
import Rbgp.Rib.BridgeC02
import Rbgp.Rib.ObsLemmas
import Rbgp.Rib.Lemmas
import Rbgp.Rib.ObsFacts
import Rbgp.Rib.Run
import Rbgp.Rib.GoodDef
namespace Rbgp.Rib
open SpecC02

/-! ## A ranked list passes `checkRanking` -/

/-- the `Arc` identities of an entry resolve to its records in the case tables -/
structure EntryRef (c : Case) (e : Entry) : Prop where
  src : c.srcs[e.src.id]? = some e.src
  attr : c.attrs[e.attr.id]? = some e.attr

/-- the spec's context reads the same flags as the model for every source of the case -/
structure FlagsAgree (c : Case) (fl : Flags) (x : Ctx) : Prop where
  case : x.c = c
  stale : ∀ id, id < c.srcs.length → x.stale.contains id = fl.stale.contains id
  llgr : ∀ id, id < c.srcs.length → x.llgr.contains id = fl.llgr.contains id

theorem EntryRef.id_lt {c : Case} {e : Entry} (h : EntryRef c e) : e.src.id < c.srcs.length := by
  have := h.src
  rcases Nat.lt_or_ge e.src.id c.srcs.length with hlt | hge
  · exact hlt
  · rw [List.getElem?_eq_none hge] at this; simp at this

theorem ctx_key_eq {c : Case} {fl : Flags} {x : Ctx} (hx : FlagsAgree c fl x) (t2 : Bool) {e : Entry}
    (hr : EntryRef c e) : x.key t2 e.src.id e.attr.id = some (specKey fl t2 e) := by
  unfold Ctx.key
  rw [hx.case, hr.src, hr.attr]
  simp only [specKey, keyOf, hx.stale _ hr.id_lt, hx.llgr _ hr.id_lt]

theorem mapM_key {c : Case} {fl : Flags} {x : Ctx} (hx : FlagsAgree c fl x) (t2 : Bool) (es : List Entry)
    (hr : ∀ e ∈ es, EntryRef c e) :
    (es.map fun e => (e.src.id, e.attr.id)).mapM (fun i => x.key t2 i.1 i.2) = some (es.map (specKey fl t2)) := by
  induction es with
  | nil => rfl
  | cons e es ih =>
    simp only [List.map_cons, List.mapM_cons]
    rw [ctx_key_eq hx t2 (hr e List.mem_cons_self), ih (fun e' he' => hr e' (List.mem_cons_of_mem _ he'))]
    rfl

theorem subMulti_refl {α} [DecidableEq α] (l : List α) : subMulti l l = true := by
  induction l with
  | nil => rfl
  | cons a l ih => simp [subMulti, ih]

/-- no later key beats an earlier one in a ranked list -/
theorem ranked_of_sorted (fl : Flags) (t2 : Bool) {es : List Entry} (hs : Sorted (cmpFor fl t2) es)
    (hok : ∀ e ∈ es, EntryOk e) : ranked (es.map (specKey fl t2)) = true := by
  induction es with
  | nil => rfl
  | cons a es ih =>
    simp only [Sorted, List.pairwise_cons] at hs
    simp only [List.map_cons, ranked, Bool.and_eq_true, List.all_eq_true, List.mem_map]
    refine ⟨?_, ih hs.2 (fun e he => hok e (List.mem_cons_of_mem _ he))⟩
    rintro k ⟨b, hb, rfl⟩
    have ha := keyRel_of_entry fl t2 (hok a List.mem_cons_self)
    have hb' := keyRel_of_entry fl t2 (hok b (List.mem_cons_of_mem _ hb))
    rw [beats_eq_cmpK hb' ha, ← cmpFor_eq_cmpK]
    have h1 := hs.1 b hb
    have := (cmpFor_lawful fl t2).swap a b
    cases hc : cmpFor fl t2 b a
    · rw [hc] at this
      have : cmpFor fl t2 a b = .gt := by
        cases h : cmpFor fl t2 a b <;> simp_all [Ordering.swap]
      exact absurd this h1
    · rfl
    · rfl

/-- the head of a ranked list is not beaten by any member -/
theorem head_not_beaten (fl : Flags) (t2 : Bool) {a : Entry} {es : List Entry}
    (hs : Sorted (cmpFor fl t2) (a :: es)) (hok : ∀ e ∈ a :: es, EntryOk e) :
    ((a :: es).map (specKey fl t2)).any (fun k => beats k (specKey fl t2 a)) = false := by
  have hr := ranked_of_sorted fl t2 hs hok
  simp only [List.map_cons, ranked, Bool.and_eq_true] at hr
  simp only [List.map_cons, List.any_cons, Bool.or_eq_false_iff]
  constructor
  · have ha := keyRel_of_entry fl t2 (hok a List.mem_cons_self)
    rw [beats_eq_cmpK ha ha, cmpK_lawful.refl]; rfl
  · have h1 := hr.1
    simp only [List.all_eq_true] at h1
    apply List.any_eq_false.mpr
    intro k hk
    simpa using h1 k hk

theorem takeWhile_congr' {α} {p q : α → Bool} {l : List α} (h : ∀ a ∈ l, p a = q a) :
    l.takeWhile p = l.takeWhile q := by
  induction l with
  | nil => rfl
  | cons a l ih =>
    simp only [List.takeWhile_cons, h a List.mem_cons_self]
    rw [ih (fun b hb => h b (List.mem_cons_of_mem _ hb))]

theorem leadingRun_eq_ecmpCount (fl : Flags) (t2 : Bool) (es : List Entry) (hok : ∀ e ∈ es, EntryOk e) :
    leadingRun (es.map (specKey fl t2)) = ecmpCount fl t2 es := by
  cases es with
  | nil => rfl
  | cons b l =>
    simp only [List.map_cons, leadingRun, ecmpCount]
    rw [← List.map_cons, List.takeWhile_map, List.length_map]
    congr 1
    apply takeWhile_congr'
    intro e he
    have hb := keyRel_of_entry fl t2 (hok b List.mem_cons_self)
    have he' := keyRel_of_entry fl t2 (hok e he)
    simp only [Function.comp]
    have h1 := tied_iff hb he'
    have h2 := ecmpKey_eq_iff fl t2 e b
    cases h : tiedBeforeRid (specKey fl t2 b) (specKey fl t2 e)
    · cases h' : (ecmpKey fl t2 e == ecmpKey fl t2 b)
      · rfl
      · have := h2.mp h'; rw [h1.mpr this.symm] at h; exact absurd h (by simp)
    · have := h1.mp h
      exact (h2.mpr this.symm).symm

theorem ecmpIds_eq (fl : Flags) (t2 : Bool) (es : List Entry) (hok : ∀ e ∈ es, EntryOk e) :
    ecmpIds fl t2 es = ((es.map Entry.ref).map (·.lpid)).take (leadingRun (es.map (specKey fl t2))) := by
  rw [leadingRun_eq_ecmpCount fl t2 es hok, List.map_map, ← List.map_take]
  rfl

/-- **A ranked list of well-formed entries, reported as it is, passes the ranking check.** -/
theorem checkRanking_ok {c : Case} {fl : Flags} {x : Ctx} (hx : FlagsAgree c fl x) (net : Net)
    (es : List Entry) (hs : Sorted (cmpFor fl net.t2) es) (hok : ∀ e ∈ es, EntryOk e)
    (hr : ∀ e ∈ es, EntryRef c e) (complete : Bool) :
    checkRanking x net (es.map fun e => (e.src.id, e.attr.id)) (es.map Entry.ref)
      (ecmpIds fl net.t2 es) complete = none := by
  have hids : (es.map Entry.ref).map (fun p => (p.src, p.attr)) = es.map fun e => (e.src.id, e.attr.id) := by
    rw [List.map_map]; rfl
  have hrk := ranked_of_sorted fl net.t2 hs hok
  have hlr := ecmpIds_eq fl net.t2 es hok
  have hm := mapM_key hx net.t2 es hr
  unfold checkRanking
  cases es with
  | nil => simp [subMulti, ranked, leadingRun, ecmpIds, ecmpCount]
  | cons a l =>
    have hb := head_not_beaten fl net.t2 hs hok
    simp only [hids, hm, subMulti_refl, Bool.not_true, Bool.false_eq_true, if_false, Bool.and_false]
    simp only [List.map_cons] at hb hrk hlr ⊢
    simp only [hb, hrk, hlr, List.isEmpty_cons, Bool.false_and, Bool.not_true, Bool.false_eq_true, if_false,
      bne_self_eq_false]

theorem checkShownRanked_ok {c : Case} {fl : Flags} {x : Ctx} (hx : FlagsAgree c fl x) (net : Net)
    (es : List Entry) (hs : Sorted (cmpFor fl net.t2) es) (hok : ∀ e ∈ es, EntryOk e)
    (hr : ∀ e ∈ es, EntryRef c e) :
    checkShownRanked x net (es.map fun e => (e.src.id, e.attr.id)) = none := by
  have hrk := ranked_of_sorted fl net.t2 hs hok
  have hm := mapM_key hx net.t2 es hr
  unfold checkShownRanked
  rw [hm]
  cases es with
  | nil => simp [ranked]
  | cons a l =>
    have hb := head_not_beaten fl net.t2 hs hok
    simp only [List.map_cons] at hb hrk ⊢
    simp only [hb, hrk, Bool.not_true, Bool.false_eq_true, if_false]

/-! ## The spec's bookkeeping of next-hop reachability tracks the model's flags -/

def NhRel (t : Table) (m : NhMap) : Prop :=
  ∀ f n, ∀ e ∈ t.entries f n, nhGet (f, n, e.src.addr, e.rpid) m = some (e.nh, e.nhInv)

theorem nhGet_nhSet_self (k : Fam × Net × Nat × Nat) (v : Option Nat × Bool) (m : NhMap) :
    nhGet k (nhSet k v m) = some v := by
  induction m with
  | nil => simp [nhSet, nhGet]
  | cons x m ih =>
    obtain ⟨k', v'⟩ := x
    by_cases h : k' = k <;> simp [nhSet, nhGet, h, ih]

theorem nhGet_nhSet_ne {k k' : Fam × Net × Nat × Nat} (h : k' ≠ k) (v : Option Nat × Bool) (m : NhMap) :
    nhGet k' (nhSet k v m) = nhGet k' m := by
  induction m with
  | nil => simp [nhSet, nhGet, Ne.symm h]
  | cons x m ih =>
    obtain ⟨k'', v''⟩ := x
    by_cases h1 : k'' = k
    · subst h1; simp [nhSet, nhGet, Ne.symm h]
    · by_cases h2 : k'' = k'
      · subst h2; simp [nhSet, nhGet, h1]
      · simp [nhSet, nhGet, h1, h2, ih]

theorem nhGet_map_flip (k0 : Nat) (reach : Bool) (key : Fam × Net × Nat × Nat) (m : NhMap) :
    nhGet key (m.map fun (kk, (nh, inv)) => if nh = some k0 then (kk, (nh, !reach)) else (kk, (nh, inv))) =
      (nhGet key m).map fun (nh, inv) => if nh = some k0 then (nh, !reach) else (nh, inv) := by
  induction m with
  | nil => rfl
  | cons x m ih =>
    obtain ⟨kk, nh, inv⟩ := x
    by_cases h : kk = key
    · subst h
      by_cases h2 : nh = some k0 <;> simp [nhGet, h2]
    · by_cases h2 : nh = some k0 <;> simp [nhGet, h, h2, ih]

theorem obs_eq_limit (sh : Nat) (fl : Flags) (r : Res) : r.obs sh fl = .limit ↔ r = .limit := by
  cases r with
  | removed c => cases c <;> simp [Res.obs]
  | _ => simp [Res.obs]

theorem nhRel_step {t t' : Table} {op : Op} {r : Res} (sh : Nat) (fl : Flags) {m : NhMap} (h : NhRel t m)
    (hE : EntryFacts t op t' r) : NhRel t' (nhStep m op (r.obs sh fl)) := by
  intro f n x hx
  cases op with
  | insert src fam net rpid nh attr filtered nhInv =>
    simp only [nhStep]
    by_cases hl : r = .limit
    · rw [if_pos ((obs_eq_limit sh fl r).mpr hl)]
      have := hE.limit hl f n
      rw [this] at hx
      exact h f n x hx
    · rw [if_neg (fun e => hl ((obs_eq_limit sh fl r).mp e))]
      rcases hE.mem f n x hx with ⟨x0, hx0, hxe, hnr⟩ | ⟨hins, _⟩
      · rw [show x = x0 from hxe, nhGet_nhSet_ne]
        · exact h f n x0 hx0
        · intro e
          simp only [Prod.mk.injEq] at e
          rcases hnr with hlim | hnr
          · exact hl hlim
          · exact hnr ⟨e.1, e.2.1, e.2.2.1, e.2.2.2⟩
      · simp only [Op.inserts] at hins
        obtain ⟨rfl, rfl, hs, hr, hn, hi, _, _⟩ := hins
        rw [hs, hr, hn, hi]
        exact nhGet_nhSet_self _ _ _
  | nhValidity k reach =>
    simp only [nhStep]
    rcases hE.mem f n x hx with ⟨x0, hx0, rfl, _⟩ | ⟨hins, _⟩
    · simp only [Op.flip]
      obtain ⟨h1, h2, h3, _, h5⟩ := nhFlip_fields k reach x0
      rw [h1, h2, h3, h5, nhGet_map_flip, h f n x0 hx0]
      by_cases hh : x0.nh = some k <;> simp [hh]
    · simp [Op.inserts] at hins
  | _ =>
    simp only [nhStep]
    rcases hE.mem f n x hx with ⟨x0, hx0, hxe, _⟩ | ⟨hins, _⟩
    · simp only [Op.flip] at hxe
      rw [hxe]
      exact h f n x0 hx0
    · simp [Op.inserts] at hins

end Rbgp.Rib

namespace Rbgp.Rib
open SpecC02

/-! ## One observed step passes `checkStep` -/

theorem firstSome_none {α} {f : α → Option String} {l : List α} (h : ∀ a ∈ l, f a = none) :
    firstSome f l = none := by
  induction l with
  | nil => rfl
  | cons a l ih =>
    simp only [firstSome, h a List.mem_cons_self]
    exact ih (fun b hb => h b (List.mem_cons_of_mem _ hb))

theorem lookupNet_eq_find {α} (n : Net) (l : List (Net × α)) :
    lookupNet n l = (l.find? (fun a => a.1 = n)).map (·.2) := by
  induction l with
  | nil => rfl
  | cons x l ih =>
    obtain ⟨k, v⟩ := x
    by_cases h : k = n
    · simp [lookupNet, h]
    · simp [lookupNet, h, ih]

theorem elig_eq_filter (t : Table) (f : Fam) (n : Net) :
    t.elig f n = (t.entries f n).filter Entry.eligible := by
  unfold Table.elig Table.entries
  cases alookup n (t.rib f).dests <;> rfl

variable {c : Case} {g : Nat → Fam}

theorem entries_destInv {t : Table} (hinv : Inv c g t) (f : Fam) (n : Net) {d : Dest}
    (h : alookup n (t.rib f).dests = some d) : DestInv c g t.flags f n d :=
  (hinv.rib f).dest (n, d) (alookup_some_mem h)

theorem entries_ok {t : Table} (hinv : Inv c g t) (ha : AttrRefInv c t) (f : Fam) (n : Net) :
    ∀ e ∈ t.entries f n, EntryOk e ∧ EntryRef c e := by
  intro e he
  have he' := he
  unfold Table.entries at he
  cases hd : alookup n (t.rib f).dests with
  | none => rw [hd] at he; simp at he
  | some d =>
    rw [hd] at he
    have di := entries_destInv hinv f n hd
    exact ⟨⟨(di.attrOk e he).1, (di.attrOk e he).2⟩, ⟨(di.srcOk e he).1, ha f n e he'⟩⟩

theorem entries_sorted {t : Table} (hinv : Inv c g t) (f : Fam) (n : Net) :
    Sorted (cmpFor t.flags n.t2) (t.entries f n) := by
  unfold Table.entries
  cases hd : alookup n (t.rib f).dests with
  | none => simp [Sorted]
  | some d => exact (entries_destInv hinv f n hd).sorted

theorem elig_sorted {t : Table} (hinv : Inv c g t) (f : Fam) (n : Net) :
    Sorted (cmpFor t.flags n.t2) (t.elig f n) := by
  rw [elig_eq_filter]
  exact (entries_sorted hinv f n).sublist List.filter_sublist

theorem elig_ok {t : Table} (hinv : Inv c g t) (ha : AttrRefInv c t) (f : Fam) (n : Net) :
    ∀ e ∈ t.elig f n, EntryOk e ∧ EntryRef c e := by
  intro e he
  rw [elig_eq_filter] at he
  exact entries_ok hinv ha f n e (List.mem_filter.mp he).1

theorem filterMap_congr' {α β} {f1 f2 : α → Option β} {l : List α} (h : ∀ a ∈ l, f1 a = f2 a) :
    l.filterMap f1 = l.filterMap f2 := by
  induction l with
  | nil => rfl
  | cons a l ih =>
    simp only [List.filterMap_cons, h a List.mem_cons_self]
    rw [ih (fun b hb => h b (List.mem_cons_of_mem _ hb))]

theorem filterMap_if_eq {α β} (p : α → Bool) (gf : α → β) (l : List α) :
    l.filterMap (fun a => if p a = true then some (gf a) else none) = (l.filter p).map gf := by
  induction l with
  | nil => rfl
  | cons a l ih =>
    by_cases h : p a = true <;> simp [List.filterMap_cons, List.filter_cons, h, ih]

/-- the spec's eligibility test on the observed paths of a prefix selects the model's eligible list -/
theorem eligibleOf_entries (x : Ctx) (hx : x.c = c) (fl : Flags) (m : NhMap) (f : Fam) (n : Net) (es : List Entry)
    (hr : ∀ e ∈ es, c.srcs[e.src.id]? = some e.src)
    (hn : ∀ e ∈ es, nhGet (f, n, e.src.addr, e.rpid) m = some (e.nh, e.nhInv)) :
    eligibleOf x m f n (es.map (dentryOf fl)) = (es.filter Entry.eligible).map fun e => (e.src.id, e.attr.id) := by
  unfold eligibleOf
  rw [List.filterMap_map, ← filterMap_if_eq]
  apply filterMap_congr'
  intro e he
  simp only [Function.comp, dentryOf, hx, hr e he, hn e he, Entry.eligible]
  by_cases h : (!e.filtered && !e.nhInv) = true <;> simp [h]

theorem flagsAgree_stepObs (c : Case) (op : Op) (tr : Table × Res) :
    FlagsAgree c tr.1.flags { c := c, stale := (stepObs c op tr).stale, llgr := (stepObs c op tr).llgr } where
  case := rfl
  stale id h := by
    obtain ⟨t, r⟩ := tr
    exact contains_sortOn_filter t.stale c.srcs.length id h
  llgr id h := by
    obtain ⟨t, r⟩ := tr
    exact contains_sortOn_filter t.llgr c.srcs.length id h

theorem find_famObs (c : Case) (t : Table) (f : Fam) :
    (allFams.map (famObs c t)).find? (fun fo => fo.fam = f) = some (famObs c t f) := by
  cases f <;> simp [allFams, famObs]

/-- the paths the observation lists for prefix (f, n) -/
theorem lookup_dests {t : Table} (hinv : Inv c g t) (f : Fam) (n : Net) :
    optList (lookupNet n (famObs c t f).dests) = (t.entries f n).map (dentryOf t.flags) := by
  rw [lookupNet_eq_find, famObs_dests_find t f (hinv.rib f) n]
  unfold Table.entries
  cases alookup n (t.rib f).dests <;> rfl

theorem checkChange_eq (x : Ctx) (m : NhMap) (fams : List FamObs) (ch : ChangeObs) (fo : FamObs)
    (h : fams.find? (fun f => f.fam = ch.fam) = some fo) (hb : ch.newBest = ch.paths.head?.map (·.lpid)) :
    checkChange x m fams ch =
      checkRanking x ch.net (eligibleOf x m ch.fam ch.net (optList (lookupNet ch.net fo.dests))) ch.paths ch.ecmp false := by
  unfold checkChange
  rw [h]
  simp only [hb, bne_self_eq_false, Bool.false_eq_true, if_false]

theorem entries_srcRef {t : Table} (hinv : Inv c g t) (f : Fam) (n : Net) :
    ∀ e ∈ t.entries f n, c.srcs[e.src.id]? = some e.src := by
  intro e he
  unfold Table.entries at he
  cases hd : alookup n (t.rib f).dests with
  | none => rw [hd] at he; simp at he
  | some d => rw [hd] at he; exact ((entries_destInv hinv f n hd).srcOk e he).1

theorem eligibleOf_obs {t : Table} (hinv : Inv c g t) {m : NhMap} (hnh : NhRel t m) (x : Ctx) (hx : x.c = c)
    (f : Fam) (n : Net) :
    eligibleOf x m f n ((t.entries f n).map (dentryOf t.flags)) =
      (t.elig f n).map fun e => (e.src.id, e.attr.id) := by
  rw [elig_eq_filter]
  exact eligibleOf_entries x hx _ m f n _ (entries_srcRef hinv f n) (hnh f n)

/-- the same for a sub-list of the prefix's paths selected by `q` -/
theorem eligibleOf_obs_filter {t : Table} (hinv : Inv c g t) {m : NhMap} (hnh : NhRel t m) (x : Ctx) (hx : x.c = c)
    (f : Fam) (n : Net) (q : Entry → Bool) :
    eligibleOf x m f n (((t.entries f n).filter q).map (dentryOf t.flags)) =
      (((t.entries f n).filter q).filter Entry.eligible).map fun e => (e.src.id, e.attr.id) :=
  eligibleOf_entries x hx _ m f n _
    (fun e he => entries_srcRef hinv f n e (List.mem_filter.mp he).1)
    (fun e he => hnh f n e (List.mem_filter.mp he).1)

theorem mem_changesOf_obs {sh : Nat} {fl : Flags} {r : Res} {ch : ChangeObs} (h : ch ∈ changesOf (r.obs sh fl)) :
    ∃ c0 ∈ r.chs, ch = c0.obs sh fl := by
  cases r with
  | unit => simp [Res.obs, changesOf] at h
  | noChange => simp [Res.obs, changesOf] at h
  | limit => simp [Res.obs, changesOf] at h
  | changed c0 => simp [Res.obs, changesOf] at h; exact ⟨c0, by simp [Res.chs], h⟩
  | removed c0 =>
    cases c0 with
    | none => simp [Res.obs, changesOf] at h
    | some c0 => simp [Res.obs, changesOf] at h; exact ⟨c0, by simp [Res.chs], h⟩
  | changes cs =>
    simp only [Res.obs, changesOf, changesObs, mem_sortOn, List.mem_map] at h
    obtain ⟨c0, hc0, rfl⟩ := h
    exact ⟨c0, by simpa [Res.chs] using hc0, rfl⟩

theorem checkChange_ok {t : Table} {op : Op} {r : Res} (hinv : Inv c g t) (ha : AttrRefInv c t) {m : NhMap}
    (hnh : NhRel t m) (hexact : ∀ ch ∈ r.chs, ch.paths = t.elig ch.fam ch.net)
    {ch : ChangeObs} (hch : ch ∈ changesOf (r.obs c.shard t.flags)) :
    checkChange { c := c, stale := (stepObs c op (t, r)).stale, llgr := (stepObs c op (t, r)).llgr } m
      (stepObs c op (t, r)).fams ch = none := by
  obtain ⟨c0, hc0, rfl⟩ := mem_changesOf_obs hch
  have hfa := flagsAgree_stepObs c op (t, r)
  have hb : (c0.obs c.shard t.flags).newBest = (c0.obs c.shard t.flags).paths.head?.map (·.lpid) := by
    simp only [Change.obs]
    cases c0.paths <;> rfl
  rw [checkChange_eq _ _ (stepObs c op (t, r)).fams _ _ (find_famObs c t c0.fam) hb]
  show checkRanking _ c0.net (eligibleOf _ m c0.fam c0.net (optList (lookupNet c0.net (famObs c t c0.fam).dests)))
    (c0.paths.map Entry.ref) (ecmpIds t.flags c0.net.t2 c0.paths) false = none
  rw [lookup_dests hinv, eligibleOf_obs hinv hnh _ rfl, hexact c0 hc0]
  exact checkRanking_ok hfa c0.net (t.elig c0.fam c0.net) (elig_sorted hinv _ _)
    (fun e he => (elig_ok hinv ha _ _ e he).1) (fun e he => (elig_ok hinv ha _ _ e he).2) false

/-! ### the clauses of `checkFam` -/

/-- what `checkFam`'s clauses need to know about one destination of the dump -/
structure DumpDest (t : Table) (f : Fam) (d : Net × List DEntry) : Prop where
  ent : d.2 = (t.entries f d.1).map (dentryOf t.flags)
  dest : ∃ dst, alookup d.1 (t.rib f).dests = some dst

theorem dumpDest_of_mem {t : Table} (hinv : Inv c g t) (f : Fam) {d : Net × List DEntry}
    (hd : d ∈ (famObs c t f).dests) : DumpDest t f d := by
  obtain ⟨nd, hnd, rfl⟩ := (famObs_dests_mem t f (hinv.rib f)).mp hd
  have hlk : alookup nd.1 (t.rib f).dests = some nd.2 := alookup_of_mem (hinv.rib f).keys hnd
  exact ⟨by simp only [Table.entries, hlk], nd.2, hlk⟩

theorem clauseDest_ok {t : Table} {op : Op} (r : Res) (hinv : Inv c g t) (ha : AttrRefInv c t) {m : NhMap}
    (hnh : NhRel t m) (f : Fam) {d : Net × List DEntry} (hd : d ∈ (famObs c t f).dests) :
    clauseDest { c := c, stale := (stepObs c op (t, r)).stale, llgr := (stepObs c op (t, r)).llgr } m
      (t.rib f).deferring (famObs c t f) d = none := by
  have hfa := flagsAgree_stepObs c op (t, r)
  obtain ⟨hent, dst, hlk⟩ := dumpDest_of_mem hinv f hd
  unfold clauseDest
  show (match (famObs c t f).loc.find? (fun l => l.net = d.1) with
    | some l => checkRanking _ d.1 (eligibleOf _ m f d.1 d.2) l.paths l.ecmp true
    | none => if ((eligibleOf _ m f d.1 d.2).isEmpty || (t.rib f).deferring) = true then none
              else some "eligible-path-missing") = none
  cases hdf : (t.rib f).deferring with
  | true => rw [famObs_loc_deferring t f hdf]; simp
  | false =>
  rw [hent, eligibleOf_obs hinv hnh _ rfl, famObs_loc_find t f (hinv.rib f) hdf d.1]
  by_cases he : (t.elig f d.1).isEmpty = true
  · simp [he]
  · have hid : t.destId f d.1 = some dst.id := by unfold Table.destId; rw [hlk]; rfl
    rw [if_neg he, hid]
    exact checkRanking_ok hfa d.1 (t.elig f d.1) (elig_sorted hinv _ _)
      (fun e he => (elig_ok hinv ha _ _ e he).1) (fun e he => (elig_ok hinv ha _ _ e he).2) true

theorem clauseLoc_ok {t : Table} (hinv : Inv c g t) (f : Fam) {l : LocObs} (hl : l ∈ (famObs c t f).loc) :
    clauseLoc (famObs c t f) l = none := by
  have hrib := hinv.rib f
  have hdf : (t.rib f).deferring = false := by
    cases hx : (t.rib f).deferring with
    | false => rfl
    | true => rw [famObs_loc_deferring t f hx] at hl; exact absurd hl List.not_mem_nil
  obtain ⟨nd, hnd, hne, rfl⟩ := famObs_loc_mem t f hl
  have hlk : alookup nd.1 (t.rib f).dests = some nd.2 := alookup_of_mem hrib.keys hnd
  have helig : t.elig f nd.1 = nd.2.entries.filter Entry.eligible := by unfold Table.elig; rw [hlk]
  have hne' : (t.elig f nd.1).isEmpty = false := by
    rw [helig]; cases h : nd.2.entries.filter Entry.eligible with
    | nil => exact absurd h hne
    | cons _ _ => rfl
  have h2 : (lookupNet nd.1 (famObs c t f).dests).isNone = false := by
    rw [lookupNet_eq_find, famObs_dests_find t f hrib nd.1, hlk]; rfl
  have h3 : lookupNet nd.1 (famObs c t f).lim2 = some (((t.elig f nd.1).take 2).map (·.lpid)) := by
    rw [lookupNet_eq_find, famObs_lim2_find t f hrib hdf nd.1]; simp [hne']
  have h4 : lookupNet nd.1 (famObs c t f).lim3 = some (((t.elig f nd.1).take 3).map (·.lpid)) := by
    rw [lookupNet_eq_find, famObs_lim3_find t f hrib hdf nd.1]; simp [hne']
  unfold clauseLoc
  simp only [locOf, h2, h3, h4, Bool.false_eq_true, if_false]
  rw [helig]
  simp [List.map_take, Entry.ref, Function.comp_def]

theorem filter_map_dentry (fl : Flags) (q' : DEntry → Bool) (q : Entry → Bool) (es : List Entry)
    (h : ∀ e ∈ es, q' (dentryOf fl e) = q e) :
    (es.map (dentryOf fl)).filter q' = (es.filter q).map (dentryOf fl) := by
  induction es with
  | nil => rfl
  | cons e es ih =>
    simp only [List.map_cons, List.filter_cons, h e List.mem_cons_self]
    rw [ih (fun a ha => h a (List.mem_cons_of_mem _ ha))]
    cases q e <;> rfl

theorem nonEmptyList_optList {β} (l : List β) : optList (nonEmptyList l) = l := by
  cases l <;> rfl

theorem clauseShown_ok {t : Table} {op : Op} (r : Res) (hinv : Inv c g t) (ha : AttrRefInv c t) {m : NhMap}
    (hnh : NhRel t m) (f : Fam) {d : Net × List DEntry} (hd : d ∈ (famObs c t f).dests) :
    clauseShown { c := c, stale := (stepObs c op (t, r)).stale, llgr := (stepObs c op (t, r)).llgr } m
      (t.rib f).deferring (famObs c t f) d = none := by
  obtain ⟨hent, dst, hlk⟩ := dumpDest_of_mem hinv f hd
  have hshown : optList (lookupNet d.1 (famObs c t f).nofilt) =
      ((t.entries f d.1).filter fun e => !e.filtered).map (dentryOf t.flags) := by
    rw [lookupNet_eq_find, famObs_nofilt_find t f (hinv.rib f) d.1]
    simp only [Table.entries, hlk, Option.bind_some]
    exact nonEmptyList_optList _
  have hrank : (t.rib f).deferring = false → (match (famObs c t f).loc.find? (fun l => l.net = d.1) with
      | some l => l.paths.map fun p => (p.src, p.attr)
      | none => ([] : List (Nat × Nat))) = (t.elig f d.1).map fun e => (e.src.id, e.attr.id) := by
    intro hdf
    rw [famObs_loc_find t f (hinv.rib f) hdf d.1]
    have hid : t.destId f d.1 = some dst.id := by unfold Table.destId; rw [hlk]; rfl
    by_cases he : (t.elig f d.1).isEmpty = true
    · rw [if_pos he]
      cases h : t.elig f d.1 with
      | nil => rfl
      | cons a l => rw [h] at he; simp at he
    · rw [if_neg he, hid]
      simp [locOf, List.map_map, Entry.ref, Function.comp_def]
  have hfilt : d.2.filter (fun e => !e.filtered) = ((t.entries f d.1).filter fun e => !e.filtered).map (dentryOf t.flags) := by
    rw [hent]
    exact filter_map_dentry t.flags _ _ _ (fun e _ => rfl)
  unfold clauseShown
  show (if (optList (lookupNet d.1 (famObs c t f).nofilt) != d.2.filter (fun e => !e.filtered)) = true
      then some "api-list-is-not-the-unfiltered-paths"
    else if (t.rib f).deferring = true then
      checkShownRanked _ d.1 (eligibleOf _ m f d.1 (optList (lookupNet d.1 (famObs c t f).nofilt)))
    else if (eligibleOf _ m f d.1 (optList (lookupNet d.1 (famObs c t f).nofilt)) ==
      (match (famObs c t f).loc.find? (fun l => l.net = d.1) with
        | some l => l.paths.map fun p => (p.src, p.attr)
        | none => ([] : List (Nat × Nat)))) = true then none else some "api-list-order-differs-from-ranking") = none
  have hEl : (t.entries f d.1).filter (fun e => e.eligible && !e.filtered) = (t.entries f d.1).filter Entry.eligible := by
    apply List.filter_congr
    intro e _
    simp only [Entry.eligible]
    cases e.filtered <;> cases e.nhInv <;> rfl
  cases hdf : (t.rib f).deferring with
  | true =>
    rw [hshown, hfilt, eligibleOf_obs_filter hinv hnh _ rfl, List.filter_filter, hEl, ← elig_eq_filter]
    simp only [bne_self_eq_false, Bool.false_eq_true, if_false, if_true]
    exact checkShownRanked_ok (flagsAgree_stepObs c op (t, r)) d.1 (t.elig f d.1) (elig_sorted hinv _ _)
      (fun e he => (elig_ok hinv ha _ _ e he).1) (fun e he => (elig_ok hinv ha _ _ e he).2)
  | false =>
  rw [hshown, hrank hdf, hfilt, eligibleOf_obs_filter hinv hnh _ rfl, elig_eq_filter, List.filter_filter, hEl]
  simp

theorem isRsClient_ref {e : Entry} (h : c.srcs[e.src.id]? = some e.src) :
    isRsClient c e.src.id = (e.src.role == .rs) := by
  simp [isRsClient, h]

theorem addrOfSrc_ref {e : Entry} (h : c.srcs[e.src.id]? = some e.src) : addrOfSrc c e.src.id = e.src.addr := by
  simp [addrOfSrc, h]

theorem find?_eq_head?_filter' {α} (q : α → Bool) (l : List α) : l.find? q = (l.filter q).head? := by
  induction l with
  | nil => rfl
  | cons a l ih =>
    by_cases h : q a = true
    · rw [List.find?_cons, List.filter_cons]; simp only [h, if_true, List.head?_cons]
    · rw [List.find?_cons, List.filter_cons]; simp only [h, if_false]; exact ih

def rsVerdict (x : Ctx) (t2 : Bool) (cands : List (Nat × Nat)) (sh : Option DEntry) : Option String :=
  match sh with
  | none => if cands.isEmpty then none else some "rs-local-view-misses-prefix"
  | some e =>
      if !cands.contains (e.src, e.attr) then some "rs-local-view-shows-unusable-path"
      else match x.key t2 e.src e.attr, cands.mapM (fun i => x.key t2 i.1 i.2) with
        | some k, some cks => if cks.any (fun ck => beats ck k) then some "rs-local-view-best-is-beaten" else none
        | _, _ => some "unknown-reference"

theorem clauseRsLocal_eq (x : Ctx) (m : NhMap) (fo : FamObs) (peer : Nat) (shown : List (Net × DEntry))
    (d : Net × List DEntry) :
    clauseRsLocal x m fo peer shown d =
      rsVerdict x d.1.t2
        (eligibleOf x m fo.fam d.1 (d.2.filter fun e => isRsClient x.c e.src && addrOfSrc x.c e.src != peer))
        (lookupNet d.1 shown) := by
  unfold clauseRsLocal rsVerdict
  cases lookupNet d.1 shown <;> rfl

theorem clauseAdjIn_core (x : Ctx) (peer : Nat) (shown : List (Net × List DEntry)) (d : Net × List DEntry)
    (l1 l2 : List DEntry) (h1 : optList (lookupNet d.1 shown) = l1)
    (h2 : d.2.filter (fun e => addrOfSrc x.c e.src == peer) = l2) :
    clauseAdjIn x peer shown d = if l1 = l2 then none else some "adj-in-view-differs" := by
  subst h1; subst h2; rfl

theorem clauseRsLocal_ok {t : Table} {op : Op} (r : Res) (hinv : Inv c g t) (ha : AttrRefInv c t) {m : NhMap}
    (hnh : NhRel t m) (f : Fam) {v : Nat × List (Net × DEntry)} (hv : v ∈ (famObs c t f).rsLocal)
    {d : Net × List DEntry} (hd : d ∈ (famObs c t f).dests) :
    clauseRsLocal { c := c, stale := (stepObs c op (t, r)).stale, llgr := (stepObs c op (t, r)).llgr } m (famObs c t f)
      v.1 v.2 d = none := by
  have hfa := flagsAgree_stepObs c op (t, r)
  obtain ⟨hent, dst, hlk⟩ := dumpDest_of_mem hinv f hd
  simp only [famObs, List.mem_map] at hv
  obtain ⟨a, _, rfl⟩ := hv
  -- the candidates
  let q : Entry → Bool := fun e => e.src.role == .rs && !sameAddr a e
  have hsrc := entries_srcRef hinv f d.1
  have hfilt : d.2.filter (fun e => isRsClient c e.src && addrOfSrc c e.src != a) =
      ((t.entries f d.1).filter q).map (dentryOf t.flags) := by
    rw [hent]
    apply filter_map_dentry
    intro e he
    simp only [dentryOf, isRsClient_ref (hsrc e he), addrOfSrc_ref (hsrc e he), q, sameAddr]
    cases (e.src.role == Role.rs) <;> simp [bne]
  have hshown : lookupNet d.1 (viewOf (fun es => (rsLocalOf a es).map fun e =>
      { dentryOf t.flags e with rpid := 0, filtered := false }) (t.rib f).dests) =
      (rsLocalOf a (t.entries f d.1)).map fun e => { dentryOf t.flags e with rpid := 0, filtered := false } := by
    rw [lookupNet_eq_find, viewOf_find _ _ (hinv.rib f).keys]
    simp only [Table.entries, hlk, Option.bind_some]
  -- `rsLocalOf` is the head of the ranked list of usable candidates
  have hrs : rsLocalOf a (t.entries f d.1) = (((t.entries f d.1).filter q).filter Entry.eligible).head? := by
    unfold rsLocalOf
    rw [find?_eq_head?_filter', List.filter_filter]
    congr 1
    apply List.filter_congr
    intro e _
    simp only [q, Bool.and_comm, Bool.and_assoc]
  have hsub : (((t.entries f d.1).filter q).filter Entry.eligible).Sublist (t.entries f d.1) :=
    (List.filter_sublist).trans List.filter_sublist
  have hsorted := (entries_sorted hinv f d.1).sublist hsub
  have hok : ∀ e ∈ ((t.entries f d.1).filter q).filter Entry.eligible, EntryOk e ∧ EntryRef c e :=
    fun e he => entries_ok hinv ha f d.1 e (hsub.subset he)
  have hc : eligibleOf { c := c, stale := (stepObs c op (t, r)).stale, llgr := (stepObs c op (t, r)).llgr } m
      (famObs c t f).fam d.1 (d.2.filter fun e => isRsClient c e.src && addrOfSrc c e.src != a) =
      (((t.entries f d.1).filter q).filter Entry.eligible).map fun e => (e.src.id, e.attr.id) := by
    rw [hfilt]; exact eligibleOf_obs_filter hinv hnh _ rfl f d.1 q
  rw [clauseRsLocal_eq, hc, hshown, hrs]
  cases hcands : ((t.entries f d.1).filter q).filter Entry.eligible with
  | nil => rfl
  | cons b rest =>
    rw [hcands] at hsorted hok
    have hkeyb := ctx_key_eq hfa d.1.t2 (hok b List.mem_cons_self).2
    have hm := mapM_key hfa d.1.t2 (b :: rest) (fun e he => (hok e he).2)
    have hnb := head_not_beaten t.flags d.1.t2 hsorted (fun e he => (hok e he).1)
    simp only [List.map_cons] at hm hnb
    simp only [rsVerdict, List.head?_cons, Option.map_some, dentryOf, List.map_cons, List.contains_cons, beq_self_eq_true,
      Bool.true_or, Bool.not_true, Bool.false_eq_true, if_false, hkeyb, hm, hnb]

theorem clauseAdjIn_ok {t : Table} {op : Op} (r : Res) (hinv : Inv c g t) (f : Fam)
    {v : Nat × List (Net × List DEntry)} (hv : v ∈ (famObs c t f).adjIn)
    {d : Net × List DEntry} (hd : d ∈ (famObs c t f).dests) :
    clauseAdjIn { c := c, stale := (stepObs c op (t, r)).stale, llgr := (stepObs c op (t, r)).llgr } v.1 v.2 d = none := by
  obtain ⟨hent, dst, hlk⟩ := dumpDest_of_mem hinv f hd
  simp only [famObs, List.mem_map] at hv
  obtain ⟨a, _, rfl⟩ := hv
  have hsrc := entries_srcRef hinv f d.1
  have hfilt : d.2.filter (fun e => addrOfSrc c e.src == a) =
      ((t.entries f d.1).filter (sameAddr a)).map (dentryOf t.flags) := by
    rw [hent]
    apply filter_map_dentry
    intro e he
    simp only [dentryOf, addrOfSrc_ref (hsrc e he), sameAddr]
  have hshown : optList (lookupNet d.1 (viewOf (fun es => nonEmptyList ((es.filter (sameAddr a)).map (dentryOf t.flags)))
      (t.rib f).dests)) = ((t.entries f d.1).filter (sameAddr a)).map (dentryOf t.flags) := by
    rw [lookupNet_eq_find, viewOf_find _ _ (hinv.rib f).keys]
    simp only [Table.entries, hlk, Option.bind_some]
    exact nonEmptyList_optList _
  rw [clauseAdjIn_core _ _ _ _ _ _ hshown hfilt]
  simp

theorem orElse_none {α} (a : Option α) (b : Unit → Option α) (ha : a = none) : a.orElse b = b () := by
  subst ha; rfl

theorem checkFam_ok {t : Table} {op : Op} (r : Res) (hinv : Inv c g t) (ha : AttrRefInv c t) {m : NhMap}
    (hnh : NhRel t m) (f : Fam) :
    checkFam { c := c, stale := (stepObs c op (t, r)).stale, llgr := (stepObs c op (t, r)).llgr } m
      (t.rib f).deferring (famObs c t f) = none := by
  unfold checkFam
  rw [orElse_none _ _ (firstSome_none fun d hd => clauseDest_ok r hinv ha hnh f hd),
    orElse_none _ _ (firstSome_none fun l hl => clauseLoc_ok hinv f hl),
    orElse_none _ _ (firstSome_none fun d hd => clauseShown_ok r hinv ha hnh f hd),
    orElse_none _ _ (firstSome_none fun v hv => firstSome_none fun d hd => clauseRsLocal_ok r hinv ha hnh f hv hd)]
  exact firstSome_none fun v hv => firstSome_none fun d hd => clauseAdjIn_ok r hinv f hv hd

/-- the checker's fold of the deferring families agrees with the table -/
def DefRel (t : Table) (df : List Fam) : Prop := ∀ f, df.contains f = (t.rib f).deferring

theorem defRel_step {t t' : Table} {op : Op} {r : Res} {df : List Fam} (h : DefRel t df)
    (hf : StepFacts t op t' r) : DefRel t' (dfStep df op) := by
  intro f
  rw [hf.deferring f, ← h f]
  cases op <;> simp only [dfStep, Op.isStartDeferral, Op.isEndDeferral, Bool.false_eq_true, if_false]
  all_goals (cases f <;> rename_i f0 <;> cases f0 <;> simp)

theorem checkStep_ok {t : Table} {op : Op} {r : Res} (hinv : Inv c g t) (ha : AttrRefInv c t) {m : NhMap}
    (hnh : NhRel t m) {df : List Fam} (hdf : DefRel t df) (hexact : ∀ ch ∈ r.chs, ch.paths = t.elig ch.fam ch.net) :
    checkStep c m df (stepObs c op (t, r)) = none := by
  unfold checkStep
  have h1 : firstSome (checkChange { c := c, stale := (stepObs c op (t, r)).stale, llgr := (stepObs c op (t, r)).llgr } m
      (stepObs c op (t, r)).fams) (changesOf (stepObs c op (t, r)).res) = none := by
    apply firstSome_none
    intro ch hch
    exact checkChange_ok hinv ha hnh hexact hch
  simp only [h1, Option.orElse]
  apply firstSome_none
  intro fo hfo
  simp only [stepObs, allFams, List.map_cons, List.map_nil, List.mem_cons, List.not_mem_nil, or_false] at hfo
  rcases hfo with rfl | rfl
  · show checkFam _ m (df.contains .v4) (famObs c t .v4) = none
    rw [hdf .v4]; exact checkFam_ok r hinv ha hnh .v4
  · show checkFam _ m (df.contains .ev) (famObs c t .ev) = none
    rw [hdf .ev]; exact checkFam_ok r hinv ha hnh .ev

end Rbgp.Rib

namespace Rbgp.Rib
open SpecC02

/-! ## The reference checker accepts every run -/

theorem nhRel_empty : NhRel {} [] := by
  intro f n e he; cases f <;> simp [Table.entries, Table.rib, alookup] at he

theorem checkSteps_ok (hS : AllSound) (hR : RefSound) {c : Case} {g : Nat → Fam} (p : Profile) (ops : List Op)
    (hg : ∀ op ∈ ops, op.WF c g) (hr : ∀ op ∈ ops, op.AttrRef c)
    (t : Table) (hinv : Inv c g t) (ha : AttrRefInv c t) (m : NhMap) (hnh : NhRel t m)
    (df : List Fam) (hdf : DefRel t df)
    (rs : SpecRef.RefSt) (hrs : RefRel t rs) (i : Nat) :
    checkSteps c i m df rs ops (List.zipWith (stepObs c) ops (runFrom p t ops).1) = .ok := by
  induction ops generalizing t m df rs i with
  | nil => simp [runFrom, checkSteps]
  | cons op ops ih =>
    obtain ⟨t', r, hstep, hrun, hinv', hfacts, hE, hX⟩ := run_step hS p ops (hg op List.mem_cons_self) hinv
    rw [hrun]
    simp only [List.zipWith_cons_cons, checkSteps]
    have hres : (stepObs c op (t', r)).res = r.obs c.shard t'.flags := rfl
    have ha' := attrRef_step ha (hr op List.mem_cons_self) hE
    have hnh' : NhRel t' (nhStep m op (stepObs c op (t', r)).res) := by
      rw [hres]; exact nhRel_step c.shard t'.flags hnh hE
    obtain ⟨hrs', hrc⟩ := hR c g p t op t' r rs (hg op List.mem_cons_self) hinv hinv' hstep hE hX ha ha' hrs
    rw [hres, hrc]
    simp only [Option.orElse]
    rw [← hres, checkStep_ok hinv' ha' hnh' (defRel_step hdf hfacts) hfacts.exact]
    rw [hres]
    exact ih (fun o ho => hg o (List.mem_cons_of_mem _ ho)) (fun o ho => hr o (List.mem_cons_of_mem _ ho))
      t' hinv' ha' _ (by rw [← hres]; exact hnh') _ (defRel_step hdf hfacts) _ hrs' (i + 1)

theorem runFrom_length (hS : AllSound) {c : Case} {g : Nat → Fam} (p : Profile) (ops : List Op)
    (hops : ∀ op ∈ ops, op.WF c g) (t : Table) (hinv : Inv c g t) : (runFrom p t ops).1.length = ops.length := by
  induction ops generalizing t with
  | nil => rfl
  | cons op ops ih =>
    obtain ⟨t', r, _, hrun, hinv', _, _, _⟩ := run_step hS p ops (hops op List.mem_cons_self) hinv
    rw [hrun]
    simp [ih (fun o ho => hops o (List.mem_cons_of_mem _ ho)) t' hinv']

/-- **Master theorem (helper form)**: the C02 reference checker accepts the observation of every run
    of the model on a well-formed case, in both profiles. -/
theorem check_observe_ok (hS : AllSound) (hR : RefSound) {c : Case} {g : Nat → Fam} (p : Profile) (h : c.Good g) :
    SpecC02.check c (observe p c) = .ok := by
  unfold SpecC02.check observe run
  simp only
  rw [checkSteps_ok hS hR p c.ops h.wf h.attrRef {} (inv_empty c g) (attrRefInv_empty c) [] nhRel_empty [] (fun f => by cases f <;> rfl) {} refRel_empty 0]
  rw [runFrom_no_panic hS p c.ops h.wf {} (inv_empty c g)]
  simp [List.length_zipWith, runFrom_length hS p c.ops h.wf {} (inv_empty c g)]

end Rbgp.Rib
