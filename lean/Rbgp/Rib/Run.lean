/-
  Rbgp.Rib.Run — one step of a run of a well-formed case, given soundness of every operation.
  The master theorems are inductions over `runFrom` that use `run_step` at every step.
-/
import Rbgp.Rib.EntryDef
namespace Rbgp.Rib

/-- soundness of every operation: discharged in Rbgp.Rib.StepAll from InvInsert / InvPurge / InvMisc -/
structure AllSound : Prop where
  step : StepSound (fun _ => True)
  entry : EntrySound (fun _ => True)
  exact : ExactSound (fun _ => True)

theorem runFrom_nil (p : Profile) (t : Table) : runFrom p t [] = ([], false) := rfl

theorem runFrom_cons_ok {p : Profile} {t t' : Table} {op : Op} {r : Res} (ops : List Op)
    (h : t.step p op = .ok (t', r)) :
    runFrom p t (op :: ops) = ((t', r) :: (runFrom p t' ops).1, (runFrom p t' ops).2) := by
  simp [runFrom, h]

/-- One step of a run from a state satisfying the invariant: no panic, invariant again, and the
    facts about notifications and paths. -/
theorem run_step (hS : AllSound) {c : Case} {g : Nat → Fam} (p : Profile) {t : Table} {op : Op} (ops : List Op)
    (hop : op.WF c g) (hinv : Inv c g t) :
    ∃ t' r, t.step p op = .ok (t', r) ∧
      runFrom p t (op :: ops) = ((t', r) :: (runFrom p t' ops).1, (runFrom p t' ops).2) ∧
      Inv c g t' ∧ StepFacts t op t' r ∧ EntryFacts t op t' r ∧ EntryExact t op t' r := by
  obtain ⟨t', r, hstep, hinv', hfacts⟩ := hS.step c g p t op trivial hop hinv
  exact ⟨t', r, hstep, runFrom_cons_ok ops hstep, hinv', hfacts, hS.entry c g p t op t' r trivial hop hinv hstep,
    hS.exact c g p t op t' r trivial hop hinv hstep⟩

/-- the empty table satisfies the invariant -/
theorem inv_empty (c : Case) (g : Nat → Fam) : Inv c g {} where
  rib f := by
    cases f <;> exact { keys := by simp [Table.rib], ids := by simp [Table.rib], used := by simp [Table.rib],
                         dest := by simp [Table.rib] }
  stats := by intro addr f; cases f <;> simp [alookup, Table.rib]
  statsKeys := by simp
  ctrKeys := by simp

/-- a run of a well-formed case never panics (in either profile) -/
theorem runFrom_no_panic (hS : AllSound) {c : Case} {g : Nat → Fam} (p : Profile) (ops : List Op)
    (hops : ∀ op ∈ ops, op.WF c g) (t : Table) (hinv : Inv c g t) : (runFrom p t ops).2 = false := by
  induction ops generalizing t with
  | nil => rfl
  | cons op ops ih =>
    obtain ⟨t', r, _, hrun, hinv', _, _, _⟩ := run_step hS p ops (hops op List.mem_cons_self) hinv
    rw [hrun]
    exact ih (fun o ho => hops o (List.mem_cons_of_mem _ ho)) t' hinv'

/-- every state of a run satisfies the invariant -/
theorem runFrom_inv (hS : AllSound) {c : Case} {g : Nat → Fam} (p : Profile) (ops : List Op)
    (hops : ∀ op ∈ ops, op.WF c g) (t : Table) (hinv : Inv c g t) :
    ∀ tr ∈ (runFrom p t ops).1, Inv c g tr.1 := by
  induction ops generalizing t with
  | nil => simp [runFrom]
  | cons op ops ih =>
    obtain ⟨t', r, _, hrun, hinv', _, _, _⟩ := run_step hS p ops (hops op List.mem_cons_self) hinv
    rw [hrun]
    intro tr htr
    rcases List.mem_cons.mp htr with rfl | htr
    · exact hinv'
    · exact ih (fun o ho => hops o (List.mem_cons_of_mem _ ho)) t' hinv' tr htr

end Rbgp.Rib
