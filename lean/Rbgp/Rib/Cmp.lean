/-
  Rbgp.Rib.Cmp — the comparator of the model is a lawful total preorder (C02 `cmp_lawful`), and
  insertion / re-sorting keep a list ranked.  Helper lemmas only; the readable statements are in
  PropsC02.lean.
-/
import Rbgp.Rib.Model
namespace Rbgp.Rib

/-- A comparator that is a total preorder: swapping the arguments swaps the result, and `≤`
    (= "not greater") is transitive.  This is what `sort` / `partition_point` silently assume. -/
structure LawfulCmp {α : Type} (c : α → α → Ordering) : Prop where
  swap : ∀ a b, (c a b).swap = c b a
  trans : ∀ a b d, c a b ≠ .gt → c b d ≠ .gt → c a d ≠ .gt

namespace LawfulCmp
variable {α : Type} {c : α → α → Ordering}

theorem refl (h : LawfulCmp c) (a : α) : c a a = .eq := by
  have := h.swap a a
  cases hc : c a a <;> simp_all [Ordering.swap]

theorem eq_symm (h : LawfulCmp c) {a b : α} (hab : c a b = .eq) : c b a = .eq := by
  have := h.swap a b; rw [hab] at this; simpa [Ordering.swap] using this.symm

theorem gt_of_lt (h : LawfulCmp c) {a b : α} (hab : c a b = .lt) : c b a = .gt := by
  have := h.swap a b; rw [hab] at this; simpa [Ordering.swap] using this.symm

theorem lt_of_gt (h : LawfulCmp c) {a b : α} (hab : c a b = .gt) : c b a = .lt := by
  have := h.swap a b; rw [hab] at this; simpa [Ordering.swap] using this.symm

/-- total: one of the two directions is `≤` -/
theorem total (h : LawfulCmp c) (a b : α) : c a b ≠ .gt ∨ c b a ≠ .gt := by
  cases hab : c a b
  · left; simp
  · left; simp
  · right; rw [h.lt_of_gt hab]; simp

/-- `a < b ≤ d → a < d` -/
theorem lt_of_lt_of_le (h : LawfulCmp c) {a b d : α} (hab : c a b = .lt) (hbd : c b d ≠ .gt) : c a d = .lt := by
  have had : c a d ≠ .gt := h.trans a b d (by rw [hab]; simp) hbd
  cases hc : c a d
  · rfl
  · -- a = d, so d ≤ a < b gives d ≤ b... and b ≤ d, then b ≤ a, contradiction
    exfalso
    have hda : c d a ≠ .gt := by rw [h.eq_symm hc]; simp
    have hba : c b a ≠ .gt := h.trans b d a hbd hda
    rw [h.gt_of_lt hab] at hba; exact hba rfl
  · exact absurd hc had

/-- `a ≤ b < d → a < d` -/
theorem lt_of_le_of_lt (h : LawfulCmp c) {a b d : α} (hab : c a b ≠ .gt) (hbd : c b d = .lt) : c a d = .lt := by
  have had : c a d ≠ .gt := h.trans a b d hab (by rw [hbd]; simp)
  cases hc : c a d
  · rfl
  · exfalso
    have hda : c d a ≠ .gt := by rw [h.eq_symm hc]; simp
    have hdb : c d b ≠ .gt := h.trans d a b hda hab
    rw [h.gt_of_lt hbd] at hdb; exact hdb rfl
  · exact absurd hc had

theorem eq_trans (h : LawfulCmp c) {a b d : α} (hab : c a b = .eq) (hbd : c b d = .eq) : c a d = .eq := by
  have h1 : c a d ≠ .gt := h.trans a b d (by rw [hab]; simp) (by rw [hbd]; simp)
  have h2 : c d a ≠ .gt := h.trans d b a (by rw [h.eq_symm hbd]; simp) (by rw [h.eq_symm hab]; simp)
  cases hc : c a d
  · rw [h.gt_of_lt hc] at h2; exact absurd rfl h2
  · rfl
  · exact absurd hc h1

/-- comparing a natural-number key -/
theorem ofKey (f : α → Nat) : LawfulCmp (fun a b => compare (f a) (f b)) where
  swap a b := Nat.compare_swap (f a) (f b)
  trans a b d := by
    simp only [ne_eq, Nat.compare_ne_gt]
    omega

/-- the reversed comparator is lawful too -/
theorem flip (h : LawfulCmp c) : LawfulCmp (fun a b => c b a) where
  swap a b := h.swap b a
  trans a b d h1 h2 := h.trans d b a h2 h1

/-- comparing a key in reverse (higher is better) -/
theorem ofKeyRev (f : α → Nat) : LawfulCmp (fun a b => compare (f b) (f a)) := (ofKey f).flip

/-- lexicographic composition `c1.then c2` -/
theorem thenCmp {c1 c2 : α → α → Ordering} (h1 : LawfulCmp c1) (h2 : LawfulCmp c2) :
    LawfulCmp (fun a b => (c1 a b).then (c2 a b)) where
  swap a b := by
    have s1 := h1.swap a b
    have s2 := h2.swap a b
    rw [← s1, ← s2]
    cases c1 a b <;> simp [Ordering.then, Ordering.swap]
  trans a b d hab hbd := by
    cases e1 : c1 a b <;> cases e2 : c1 b d <;> simp only [e1, e2, Ordering.then] at hab hbd
    · -- lt, lt
      have := h1.lt_of_lt_of_le e1 (by rw [e2]; simp); simp [this, Ordering.then]
    · have := h1.lt_of_lt_of_le e1 (by rw [e2]; simp); simp [this, Ordering.then]
    · exact absurd rfl hbd
    · have := h1.lt_of_le_of_lt (by rw [e1]; simp) e2; simp [this, Ordering.then]
    · have := h1.eq_trans e1 e2; simp only [this, Ordering.then]; exact h2.trans a b d hab hbd
    · exact absurd rfl hbd
    · exact absurd rfl hab
    · exact absurd rfl hab
    · exact absurd rfl hab


/-- pulling a lawful comparator back along a key function -/
theorem comap {β : Type} {c : β → β → Ordering} (h : LawfulCmp c) (f : α → β) :
    LawfulCmp (fun a b => c (f a) (f b)) where
  swap a b := h.swap (f a) (f b)
  trans a b d := h.trans (f a) (f b) (f d)

end LawfulCmp

/-! ## The rank key: the comparator is a lexicographic comparison of nine numbers -/

/-- What `impl Ord for RibEntry` / `evpn_type2_cmp` look at, as numbers. -/
structure RKey where
  /-- 0 = no MAC mobility (or not a type-2 route), `seq + 1` otherwise -/
  mm : Nat
  llgr : Nat
  lp : Nat
  aslen : Nat
  origin : Nat
  ebgp : Nat
  stale : Nat
  cluster : Nat
  oid : Nat
  deriving DecidableEq, Repr

def mmRank : Option Nat → Nat
  | some x => x + 1
  | none => 0

def rkey (fl : Flags) (t2 : Bool) (e : Entry) : RKey :=
  { mm := if t2 then mmRank e.attr.mm else 0
    llgr := (e.isLlgr fl).toNat
    lp := e.attr.localPref
    aslen := e.aslen
    origin := e.attr.originV
    ebgp := e.src.role.prefersOverIbgp.toNat
    stale := (e.isStale fl).toNat
    cluster := e.attr.clusterLen
    oid := e.originatorId }

/-- lexicographic comparison of rank keys; higher `mm`, `lp`, `ebgp` are better -/
def cmpK (x y : RKey) : Ordering :=
  (compare y.mm x.mm).then <|
  (compare x.llgr y.llgr).then <|
  (compare y.lp x.lp).then <|
  (compare x.aslen y.aslen).then <|
  (compare x.origin y.origin).then <|
  (compare y.ebgp x.ebgp).then <|
  (compare x.stale y.stale).then <|
  (compare x.cluster y.cluster).then <|
  (compare x.oid y.oid)

theorem cmpK_lawful : LawfulCmp cmpK := by
  unfold cmpK
  exact (LawfulCmp.ofKeyRev RKey.mm).thenCmp <|
    (LawfulCmp.ofKey RKey.llgr).thenCmp <|
    (LawfulCmp.ofKeyRev RKey.lp).thenCmp <|
    (LawfulCmp.ofKey RKey.aslen).thenCmp <|
    (LawfulCmp.ofKey RKey.origin).thenCmp <|
    (LawfulCmp.ofKeyRev RKey.ebgp).thenCmp <|
    (LawfulCmp.ofKey RKey.stale).thenCmp <|
    (LawfulCmp.ofKey RKey.cluster).thenCmp <|
    (LawfulCmp.ofKey RKey.oid)

theorem then_eq_eq {a b : Ordering} : a.then b = .eq ↔ a = .eq ∧ b = .eq := by
  cases a <;> simp [Ordering.then]

/-- ties are exactly equal keys -/
theorem cmpK_eq_iff (x y : RKey) : cmpK x y = .eq ↔ x = y := by
  constructor
  · intro h
    simp only [cmpK, then_eq_eq, Nat.compare_eq_eq] at h
    obtain ⟨h1, h2, h3, h4, h5, h6, h7, h8, h9⟩ := h
    cases x; cases y; simp_all
  · intro h; subst h; exact cmpK_lawful.refl x

theorem cmpEntry_eq_cmpK (fl : Flags) (a b : Entry) :
    cmpEntry fl a b = cmpK (rkey fl false a) (rkey fl false b) := by
  simp [cmpEntry, cmpK, rkey, cmpBool, Ordering.then]

theorem compare_succ_succ (x y : Nat) : compare (y + 1) (x + 1) = compare y x := by
  rcases Nat.lt_trichotomy y x with h | h | h
  · rw [Nat.compare_eq_lt.mpr h, Nat.compare_eq_lt.mpr (by omega)]
  · rw [Nat.compare_eq_eq.mpr h, Nat.compare_eq_eq.mpr (by omega)]
  · rw [Nat.compare_eq_gt.mpr h, Nat.compare_eq_gt.mpr (by omega)]

theorem cmpK_mm (x y : RKey) :
    cmpK x y = (compare y.mm x.mm).then (cmpK { x with mm := 0 } { y with mm := 0 }) := by
  simp [cmpK, Ordering.then]

theorem cmpEvpn_eq_cmpK (fl : Flags) (a b : Entry) :
    cmpEvpn fl a b = cmpK (rkey fl true a) (rkey fl true b) := by
  rw [cmpK_mm]
  have h : cmpK { rkey fl true a with mm := 0 } { rkey fl true b with mm := 0 } = cmpEntry fl a b := by
    rw [cmpEntry_eq_cmpK]; rfl
  rw [h]
  simp only [cmpEvpn, rkey, if_true]
  cases ha : a.attr.mm <;> cases hb : b.attr.mm <;> simp only [mmRank]
  · simp [Ordering.then]
  · rw [Nat.compare_eq_gt.mpr (by omega)]; rfl
  · rw [Nat.compare_eq_lt.mpr (by omega)]; rfl
  · rw [compare_succ_succ]

theorem cmpFor_eq_cmpK (fl : Flags) (t2 : Bool) (a b : Entry) :
    cmpFor fl t2 a b = cmpK (rkey fl t2 a) (rkey fl t2 b) := by
  cases t2
  · simpa [cmpFor] using cmpEntry_eq_cmpK fl a b
  · simpa [cmpFor] using cmpEvpn_eq_cmpK fl a b

/-- **cmp_lawful** (helper form): the model comparator is a total preorder. -/
theorem cmpFor_lawful (fl : Flags) (t2 : Bool) : LawfulCmp (cmpFor fl t2) := by
  have h := cmpK_lawful.comap (rkey fl t2)
  have e : cmpFor fl t2 = fun a b => cmpK (rkey fl t2 a) (rkey fl t2 b) := by
    funext a b; exact cmpFor_eq_cmpK fl t2 a b
  rw [e]; exact h

theorem cmpFor_eq_iff (fl : Flags) (t2 : Bool) (a b : Entry) :
    cmpFor fl t2 a b = .eq ↔ rkey fl t2 a = rkey fl t2 b := by
  rw [cmpFor_eq_cmpK, cmpK_eq_iff]

/-- The comparator looks at the flag sets only through the two entries' own source ids. -/
theorem rkey_congr {fl fl' : Flags} (t2 : Bool) (e : Entry)
    (hs : fl.stale.contains e.src.id = fl'.stale.contains e.src.id)
    (hl : fl.llgr.contains e.src.id = fl'.llgr.contains e.src.id) : rkey fl t2 e = rkey fl' t2 e := by
  simp only [rkey, Entry.isLlgr, Entry.isStale, hs, hl]

/-! ## Ranked lists -/

/-- best first: no later element is strictly better than an earlier one -/
def Sorted (c : Entry → Entry → Ordering) (l : List Entry) : Prop := l.Pairwise fun a b => c a b ≠ .gt

theorem Sorted.sublist {c} {l l' : List Entry} (h : Sorted c l) (hs : l'.Sublist l) : Sorted c l' :=
  List.Pairwise.sublist hs h

theorem insertSorted_perm (c : Entry → Entry → Ordering) (e : Entry) (l : List Entry) :
    (insertSorted c e l).Perm (e :: l) := by
  induction l with
  | nil => simp [insertSorted]
  | cons a l ih =>
    simp only [insertSorted]
    split
    · exact (List.Perm.cons a ih).trans (List.Perm.swap e a l)
    · exact List.Perm.refl _

theorem mem_insertSorted {c : Entry → Entry → Ordering} {e x : Entry} {l : List Entry} :
    x ∈ insertSorted c e l ↔ x = e ∨ x ∈ l := by
  rw [(insertSorted_perm c e l).mem_iff]; simp

/-- **insert_preserves_sorted** (helper form) -/
theorem insertSorted_sorted {c : Entry → Entry → Ordering} (hc : LawfulCmp c) (e : Entry) {l : List Entry}
    (h : Sorted c l) : Sorted c (insertSorted c e l) := by
  induction l with
  | nil => simp [insertSorted, Sorted]
  | cons a l ih =>
    simp only [Sorted, List.pairwise_cons] at h
    simp only [insertSorted]
    split
    · -- e is not better than a: a stays in front
      rename_i hge
      have hae : c a e ≠ .gt := by
        intro hgt
        have := hc.lt_of_gt hgt
        simp [this] at hge
      simp only [Sorted, List.pairwise_cons]
      refine ⟨?_, ih h.2⟩
      intro x hx
      rcases mem_insertSorted.mp hx with rfl | hx
      · exact hae
      · exact h.1 x hx
    · rename_i hlt
      have hea : c e a = .lt := by
        cases hh : c e a <;> simp_all
      simp only [Sorted, List.pairwise_cons]
      refine ⟨?_, h.1, h.2⟩
      intro x hx
      rcases List.mem_cons.mp hx with rfl | hx
      · rw [hea]; simp
      · have := hc.lt_of_lt_of_le hea (h.1 x hx); rw [this]; simp

theorem sortBy_perm_aux (c : Entry → Entry → Ordering) (l acc : List Entry) :
    (l.foldl (fun acc x => insertSorted c x acc) acc).Perm (l ++ acc) := by
  induction l generalizing acc with
  | nil => simp
  | cons x l ih =>
    simp only [List.foldl_cons]
    refine (ih _).trans ?_
    refine (List.Perm.append_left l (insertSorted_perm c x acc)).trans ?_
    simp

theorem sortBy_perm (c : Entry → Entry → Ordering) (l : List Entry) : (sortBy c l).Perm l := by
  simpa [sortBy] using sortBy_perm_aux c l []

theorem sortBy_sorted_aux {c : Entry → Entry → Ordering} (hc : LawfulCmp c) (l acc : List Entry)
    (h : Sorted c acc) : Sorted c (l.foldl (fun acc x => insertSorted c x acc) acc) := by
  induction l generalizing acc with
  | nil => simpa
  | cons x l ih => exact ih _ (insertSorted_sorted hc x h)

/-- **resort_sorted** (helper form) -/
theorem sortBy_sorted {c : Entry → Entry → Ordering} (hc : LawfulCmp c) (l : List Entry) : Sorted c (sortBy c l) :=
  sortBy_sorted_aux hc l [] (by simp [Sorted])

theorem mem_sortBy {c : Entry → Entry → Ordering} {x : Entry} {l : List Entry} : x ∈ sortBy c l ↔ x ∈ l :=
  (sortBy_perm c l).mem_iff

/-- A ranked list stays ranked when the comparator changes only on pairs that do not occur in it. -/
theorem Sorted.congr {c c' : Entry → Entry → Ordering} {l : List Entry} (h : Sorted c l)
    (hcc : ∀ a ∈ l, ∀ b ∈ l, c a b = c' a b) : Sorted c' l := by
  induction l with
  | nil => simp [Sorted]
  | cons a l ih =>
    simp only [Sorted, List.pairwise_cons] at h ⊢
    refine ⟨fun x hx => ?_, ih h.2 (fun a ha b hb => hcc a (List.mem_cons_of_mem _ ha) b (List.mem_cons_of_mem _ hb))⟩
    rw [← hcc a (List.mem_cons_self) x (List.mem_cons_of_mem _ hx)]
    exact h.1 x hx

/-! ## Two rankings of the same set have the same key sequence -/

theorem perm_eq_of_sorted {β : Type} (le : β → β → Prop) (antisymm : ∀ a b, le a b → le b a → a = b)
    (l₁ l₂ : List β) (h₁ : l₁.Pairwise le) (h₂ : l₂.Pairwise le) (hp : l₁.Perm l₂) : l₁ = l₂ := by
  induction l₁ generalizing l₂ with
  | nil => exact (List.Perm.nil_eq hp)
  | cons a t₁ ih =>
    cases l₂ with
    | nil => exact absurd hp.symm (List.Perm.nil_eq · |> fun h => by simp at h)
    | cons b t₂ =>
      have hab : a = b := by
        have hb : b ∈ a :: t₁ := hp.symm.mem_iff.mp List.mem_cons_self
        have ha : a ∈ b :: t₂ := hp.mem_iff.mp List.mem_cons_self
        rcases List.mem_cons.mp hb with h | hb'
        · exact h.symm
        · rcases List.mem_cons.mp ha with h | ha'
          · exact h
          · exact antisymm a b ((List.pairwise_cons.mp h₁).1 b hb') ((List.pairwise_cons.mp h₂).1 a ha')
      subst hab
      rw [ih t₂ (List.pairwise_cons.mp h₁).2 (List.pairwise_cons.mp h₂).2 ((List.perm_cons a).mp hp)]

/-- **order_independent** (helper form): two ranked lists that are permutations of each other have
    the same sequence of rank keys. -/
theorem sorted_perm_keys_eq (fl : Flags) (t2 : Bool) {l₁ l₂ : List Entry}
    (h₁ : Sorted (cmpFor fl t2) l₁) (h₂ : Sorted (cmpFor fl t2) l₂) (hp : l₁.Perm l₂) :
    l₁.map (rkey fl t2) = l₂.map (rkey fl t2) := by
  apply perm_eq_of_sorted (fun x y => cmpK x y ≠ .gt)
  · intro x y hxy hyx
    have : cmpK x y = .eq := by
      cases h : cmpK x y
      · rw [cmpK_lawful.gt_of_lt h] at hyx; exact absurd rfl hyx
      · rfl
      · exact absurd h hxy
    exact (cmpK_eq_iff x y).mp this
  · rw [List.pairwise_map]; exact h₁.imp (by intro a b h; rwa [← cmpFor_eq_cmpK])
  · rw [List.pairwise_map]; exact h₂.imp (by intro a b h; rwa [← cmpFor_eq_cmpK])
  · exact hp.map _

end Rbgp.Rib
