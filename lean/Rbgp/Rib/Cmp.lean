/-
  Rbgp.Rib.Cmp — the comparator of the model is a lawful total preorder (C02 `cmp_lawful`), and
  insertion / re-sorting keep a list ranked.  Helper lemmas only; the readable statements are in
  PropsC02.lean.
-/
import Rbgp.Rib.Model
namespace Rbgp.Rib

/-- A comparator that is a total preorder: swapping the arguments swaps the result, and `≤`
    (= "not greater") is transitive.  This is what `sort` / `partition_point` silently assume. -/
structure LawfulCmp {α : Type} (c : α → α → Ordering) : Prop where
  swap : ∀ a b, (c a b).swap = c b a
  trans : ∀ a b d, c a b ≠ .gt → c b d ≠ .gt → c a d ≠ .gt

namespace LawfulCmp
variable {α : Type} {c : α → α → Ordering}

theorem refl (h : LawfulCmp c) (a : α) : c a a = .eq := by
  have := h.swap a a
  cases hc : c a a <;> simp_all [Ordering.swap]

theorem eq_symm (h : LawfulCmp c) {a b : α} (hab : c a b = .eq) : c b a = .eq := by
  have := h.swap a b; rw [hab] at this; simpa [Ordering.swap] using this.symm

theorem gt_of_lt (h : LawfulCmp c) {a b : α} (hab : c a b = .lt) : c b a = .gt := by
  have := h.swap a b; rw [hab] at this; simpa [Ordering.swap] using this.symm

theorem lt_of_gt (h : LawfulCmp c) {a b : α} (hab : c a b = .gt) : c b a = .lt := by
  have := h.swap a b; rw [hab] at this; simpa [Ordering.swap] using this.symm

/-- total: one of the two directions is `≤` -/
theorem total (h : LawfulCmp c) (a b : α) : c a b ≠ .gt ∨ c b a ≠ .gt := by
  cases hab : c a b
  · left; simp
  · left; simp
  · right; rw [h.lt_of_gt hab]; simp

/-- `a < b ≤ d → a < d` -/
theorem lt_of_lt_of_le (h : LawfulCmp c) {a b d : α} (hab : c a b = .lt) (hbd : c b d ≠ .gt) : c a d = .lt := by
  have had : c a d ≠ .gt := h.trans a b d (by rw [hab]; simp) hbd
  cases hc : c a d
  · rfl
  · -- a = d, so d ≤ a < b gives d ≤ b... and b ≤ d, then b ≤ a, contradiction
    exfalso
    have hda : c d a ≠ .gt := by rw [h.eq_symm hc]; simp
    have hba : c b a ≠ .gt := h.trans b d a hbd hda
    rw [h.gt_of_lt hab] at hba; exact hba rfl
  · exact absurd hc had

/-- `a ≤ b < d → a < d` -/
theorem lt_of_le_of_lt (h : LawfulCmp c) {a b d : α} (hab : c a b ≠ .gt) (hbd : c b d = .lt) : c a d = .lt := by
  have had : c a d ≠ .gt := h.trans a b d hab (by rw [hbd]; simp)
  cases hc : c a d
  · rfl
  · exfalso
    have hda : c d a ≠ .gt := by rw [h.eq_symm hc]; simp
    have hdb : c d b ≠ .gt := h.trans d a b hda hab
    rw [h.gt_of_lt hbd] at hdb; exact hdb rfl
  · exact absurd hc had

theorem eq_trans (h : LawfulCmp c) {a b d : α} (hab : c a b = .eq) (hbd : c b d = .eq) : c a d = .eq := by
  have h1 : c a d ≠ .gt := h.trans a b d (by rw [hab]; simp) (by rw [hbd]; simp)
  have h2 : c d a ≠ .gt := h.trans d b a (by rw [h.eq_symm hbd]; simp) (by rw [h.eq_symm hab]; simp)
  cases hc : c a d
  · rw [h.gt_of_lt hc] at h2; exact absurd rfl h2
  · rfl
  · exact absurd hc h1

/-- comparing a natural-number key -/
theorem ofKey (f : α → Nat) : LawfulCmp (fun a b => compare (f a) (f b)) where
  swap a b := by
    simp only [Nat.compare_def_lt]
    split <;> split <;> simp_all [Ordering.swap] <;> omega
  trans a b d := by
    simp only [Nat.compare_def_lt]
    intro h1 h2
    split at h1 <;> split at h2 <;> split <;> simp_all <;> omega

/-- the reversed comparator is lawful too -/
theorem flip (h : LawfulCmp c) : LawfulCmp (fun a b => c b a) where
  swap a b := h.swap b a
  trans a b d h1 h2 := h.trans d b a h2 h1

/-- comparing a key in reverse (higher is better) -/
theorem ofKeyRev (f : α → Nat) : LawfulCmp (fun a b => compare (f b) (f a)) := (ofKey f).flip

/-- lexicographic composition `c1.then c2` -/
theorem thenCmp {c1 c2 : α → α → Ordering} (h1 : LawfulCmp c1) (h2 : LawfulCmp c2) :
    LawfulCmp (fun a b => (c1 a b).then (c2 a b)) where
  swap a b := by
    have s1 := h1.swap a b
    have s2 := h2.swap a b
    cases h : c1 a b <;> rw [h] at s1 <;> simp [Ordering.then, Ordering.swap] at s1 ⊢ <;> rw [← s1] <;> simp [Ordering.then, s2]
  trans a b d hab hbd := by
    cases e1 : c1 a b <;> cases e2 : c1 b d <;> simp only [e1, e2, Ordering.then] at hab hbd
    · -- lt, lt
      have := h1.lt_of_lt_of_le e1 (by rw [e2]; simp); simp [this, Ordering.then]
    · have := h1.lt_of_lt_of_le e1 (by rw [e2]; simp); simp [this, Ordering.then]
    · exact absurd rfl hbd
    · have := h1.lt_of_le_of_lt (by rw [e1]; simp) e2; simp [this, Ordering.then]
    · have := h1.eq_trans e1 e2; simp only [this, Ordering.then]; exact h2.trans a b d hab hbd
    · exact absurd rfl hbd
    · exact absurd rfl hab
    · exact absurd rfl hab
    · exact absurd rfl hab

end LawfulCmp

end Rbgp.Rib
