/-
  Rbgp.Rib.StepAll — every operation of the model is sound: no panic on well-formed input, the
  invariant is preserved, and the facts about notifications and paths hold.
-/
import Rbgp.Rib.EntryInsert
import Rbgp.Rib.EntryPurge
import Rbgp.Rib.EntryMisc
import Rbgp.Rib.ExactInsert
import Rbgp.Rib.ExactPurge
import Rbgp.Rib.ExactMisc
import Rbgp.Rib.Run
namespace Rbgp.Rib

theorem allSound : AllSound where
  step := by
    intro c g p t op _ hop hinv
    cases op with
    | insert => exact stepSound_insert_remove c g p t _ trivial hop hinv
    | remove => exact stepSound_insert_remove c g p t _ trivial hop hinv
    | drop => exact stepSound_purge c g p t _ trivial hop hinv
    | dropStale => exact stepSound_purge c g p t _ trivial hop hinv
    | dropLlgr => exact stepSound_purge c g p t _ trivial hop hinv
    | dropNoLlgr => exact stepSound_purge c g p t _ trivial hop hinv
    | restale => exact stepSound_misc c g p t _ trivial hop hinv
    | restaleLlgr => exact stepSound_misc c g p t _ trivial hop hinv
    | nhValidity => exact stepSound_misc c g p t _ trivial hop hinv
    | startDeferral => exact stepSound_misc c g p t _ trivial hop hinv
    | endDeferral => exact stepSound_misc c g p t _ trivial hop hinv
  entry := by
    intro c g p t op t' r _ hop hinv hstep
    cases op with
    | insert => exact entrySound_insert_remove c g p t _ t' r trivial hop hinv hstep
    | remove => exact entrySound_insert_remove c g p t _ t' r trivial hop hinv hstep
    | drop => exact entrySound_purge c g p t _ t' r trivial hop hinv hstep
    | dropStale => exact entrySound_purge c g p t _ t' r trivial hop hinv hstep
    | dropLlgr => exact entrySound_purge c g p t _ t' r trivial hop hinv hstep
    | dropNoLlgr => exact entrySound_purge c g p t _ t' r trivial hop hinv hstep
    | restale => exact entrySound_misc c g p t _ t' r trivial hop hinv hstep
    | restaleLlgr => exact entrySound_misc c g p t _ t' r trivial hop hinv hstep
    | nhValidity => exact entrySound_misc c g p t _ t' r trivial hop hinv hstep
    | startDeferral => exact entrySound_misc c g p t _ t' r trivial hop hinv hstep
    | endDeferral => exact entrySound_misc c g p t _ t' r trivial hop hinv hstep
  exact := by
    intro c g p t op t' r _ hop hinv hstep
    cases op with
    | insert => exact exactSound_insert_remove c g p t _ t' r trivial hop hinv hstep
    | remove => exact exactSound_insert_remove c g p t _ t' r trivial hop hinv hstep
    | drop => exact exactSound_purge c g p t _ t' r trivial hop hinv hstep
    | dropStale => exact exactSound_purge c g p t _ t' r trivial hop hinv hstep
    | dropLlgr => exact exactSound_purge c g p t _ t' r trivial hop hinv hstep
    | dropNoLlgr => exact exactSound_purge c g p t _ t' r trivial hop hinv hstep
    | restale => exact exactSound_misc c g p t _ t' r trivial hop hinv hstep
    | restaleLlgr => exact exactSound_misc c g p t _ t' r trivial hop hinv hstep
    | nhValidity => exact exactSound_misc c g p t _ t' r trivial hop hinv hstep
    | startDeferral => exact exactSound_misc c g p t _ t' r trivial hop hinv hstep
    | endDeferral => exact exactSound_misc c g p t _ t' r trivial hop hinv hstep

end Rbgp.Rib
