/-
  Rbgp.Rib.InvRestale — the "map every destination" framework shared by the operations that keep the
  set of destinations (`restale`, `restale_llgr`, `update_nexthop_validity`, start / end of deferral),
  and the facts about `restale` / `restale_llgr`.  Used by InvMisc.lean.
-/
import Rbgp.Rib.Lemmas
namespace Rbgp.Rib

/-! ## small list facts -/

theorem alookup_map (F : Net × Dest → Net × Dest) (hF : ∀ nd, (F nd).1 = nd.1) (n : Net)
    (l : List (Net × Dest)) : alookup n (l.map F) = (alookup n l).map fun d => (F (n, d)).2 := by
  induction l with
  | nil => simp [alookup]
  | cons x l ih =>
    obtain ⟨k, d⟩ := x
    have e : F (k, d) = (k, (F (k, d)).2) := Prod.ext (hF (k, d)) rfl
    rw [List.map_cons, e]
    by_cases hk : k = n
    · subst hk; simp [alookup]
    · simp [alookup, hk, ih]

theorem eq_of_nodup_map {α β : Type} (f : α → β) {l : List α} (hn : (l.map f).Nodup) {a b : α}
    (ha : a ∈ l) (hb : b ∈ l) (hab : f a = f b) : a = b := by
  induction l with
  | nil => simp at ha
  | cons x l ih =>
    simp only [List.map_cons, List.nodup_cons, List.mem_map, not_exists, not_and] at hn
    rcases List.mem_cons.mp ha with ha' | ha' <;> rcases List.mem_cons.mp hb with hb' | hb'
    · rw [ha', hb']
    · subst ha'; exact absurd hab.symm (hn.1 b hb')
    · subst hb'; exact absurd hab (hn.1 a ha')
    · exact ih hn.2 ha' hb'

theorem filterMap_keys_sublist {α β γ : Type} (G : α → Option β) (kb : β → γ) (ka : α → γ)
    (hG : ∀ a b, G a = some b → kb b = ka a) (l : List α) :
    ((l.filterMap G).map kb).Sublist (l.map ka) := by
  induction l with
  | nil => simp
  | cons a l ih =>
    rw [List.filterMap_cons]
    cases h : G a with
    | none => simpa using List.Sublist.cons _ ih
    | some b => simpa [hG a b h] using ih

/-! ## entries up to the next-hop validity bit -/

/-- an entry with the next-hop validity bit erased: everything the invariant reads -/
def Entry.k (e : Entry) : Entry := { e with nhInv := false }

theorem rkey_k (fl : Flags) (t2 : Bool) (e : Entry) : rkey fl t2 e.k = rkey fl t2 e := rfl

theorem cmpFor_of_k (fl : Flags) (t2 : Bool) {a a' b b' : Entry} (ha : a'.k = a.k) (hb : b'.k = b.k) :
    cmpFor fl t2 a' b' = cmpFor fl t2 a b := by
  rw [cmpFor_eq_cmpK, cmpFor_eq_cmpK, ← rkey_k fl t2 a', ← rkey_k fl t2 b', ha, hb, rkey_k, rkey_k]

/-- a destination after a step that keeps its paths (up to order and the validity bit) -/
structure DestOk (fl' : Flags) (nd nd' : Net × Dest) : Prop where
  key : nd'.1 = nd.1
  id : nd'.2.id = nd.2.id
  perm : (nd'.2.entries.map Entry.k).Perm (nd.2.entries.map Entry.k)
  sorted : Sorted (cmpFor fl' nd.1.t2) nd'.2.entries

theorem DestOk.mem_k {fl' : Flags} {nd nd' : Net × Dest} (h : DestOk fl' nd nd') {e : Entry}
    (he : e ∈ nd'.2.entries) : ∃ e0 ∈ nd.2.entries, e.k = e0.k := by
  have : e.k ∈ nd.2.entries.map Entry.k := h.perm.mem_iff.mp (List.mem_map.mpr ⟨e, he, rfl⟩)
  obtain ⟨e0, h0, h1⟩ := List.mem_map.mp this
  exact ⟨e0, h0, h1.symm⟩

theorem DestOk.any_sameAddr {fl' : Flags} {nd nd' : Net × Dest} (h : DestOk fl' nd nd') (addr : Nat) :
    nd'.2.entries.any (sameAddr addr) = nd.2.entries.any (sameAddr addr) := by
  have e : ∀ l : List Entry, l.any (sameAddr addr) = (l.map Entry.k).any (sameAddr addr) := by
    intro l; rw [List.any_map]; rfl
  rw [e nd'.2.entries, e nd.2.entries]; exact h.perm.any_eq

theorem DestOk.acc {fl' : Flags} {nd nd' : Net × Dest} (h : DestOk fl' nd nd') (addr : Nat) :
    (nd'.2.entries.filter fun e => sameAddr addr e && !e.filtered).length
      = (nd.2.entries.filter fun e => sameAddr addr e && !e.filtered).length := by
  have e : ∀ l : List Entry, (l.filter fun e => sameAddr addr e && !e.filtered).length
      = (l.map Entry.k).countP (fun e => sameAddr addr e && !e.filtered) := by
    intro l; rw [List.countP_map, List.countP_eq_length_filter]; rfl
  rw [e nd'.2.entries, e nd.2.entries]; exact h.perm.countP_eq _

theorem DestOk.inv {c : Case} {g : Nat → Fam} {fl fl' : Flags} {f : Fam} {nd nd' : Net × Dest}
    (h : DestOk fl' nd nd') (hi : DestInv c g fl f nd.1 nd.2) : DestInv c g fl' f nd'.1 nd'.2 where
  nonEmpty := by
    intro he
    have hl := h.perm.length_eq
    rw [he] at hl
    simp only [List.map_nil, List.length_nil, List.length_map] at hl
    exact hi.nonEmpty (List.length_eq_zero_iff.mp hl.symm)
  pathKeys := by
    have e : ∀ l : List Entry, (l.map fun e => (e.src.addr, e.rpid))
        = (l.map Entry.k).map fun e => (e.src.addr, e.rpid) := by
      intro l; rw [List.map_map]; rfl
    rw [e]; have := hi.pathKeys; rw [e] at this; exact (h.perm.map _).nodup_iff.mpr this
  lpids := by
    have e : ∀ l : List Entry, (l.map (·.lpid)) = (l.map Entry.k).map (·.lpid) := by
      intro l; rw [List.map_map]; rfl
    rw [e]; have := hi.lpids; rw [e] at this; exact (h.perm.map _).nodup_iff.mpr this
  sorted := by rw [h.key]; exact h.sorted
  srcOk := by
    intro e he
    obtain ⟨e0, h0, h1⟩ := h.mem_k he
    have : e.src = e0.src := (congrArg Entry.src h1 : e.k.src = e0.k.src)
    rw [this]; exact hi.srcOk e0 h0
  attrOk := by
    intro e he
    obtain ⟨e0, h0, h1⟩ := h.mem_k he
    have h2 : e.attr = e0.attr := (congrArg Entry.attr h1 : e.k.attr = e0.k.attr)
    have h3 : e.aslen = e0.aslen := (congrArg Entry.aslen h1 : e.k.aslen = e0.k.aslen)
    rw [h2, h3]; exact hi.attrOk e0 h0

theorem DestOk.refl {fl : Flags} {nd : Net × Dest} (h : Sorted (cmpFor fl nd.1.t2) nd.2.entries) :
    DestOk fl nd nd := ⟨rfl, rfl, List.Perm.refl _, h⟩

/-! ## ribs whose destinations are mapped one by one -/

theorem RibInv.mapDests {c : Case} {g : Nat → Fam} {fl fl' : Flags} {f : Fam} {r r' : Rib}
    {F : Net × Dest → Net × Dest} (h : RibInv c g fl f r) (hd : r'.dests = r.dests.map F)
    (hu : r'.used = r.used) (hF : ∀ nd ∈ r.dests, DestOk fl' nd (F nd)) : RibInv c g fl' f r' := by
  have hk : r'.dests.map (·.1) = r.dests.map (·.1) := by
    rw [hd, List.map_map]; exact List.map_congr_left fun nd hnd => (hF nd hnd).key
  have hi : r'.dests.map (·.2.id) = r.dests.map (·.2.id) := by
    rw [hd, List.map_map]; exact List.map_congr_left fun nd hnd => (hF nd hnd).id
  refine ⟨by rw [hk]; exact h.keys, by rw [hi]; exact h.ids, by rw [hi, hu]; exact h.used, ?_⟩
  intro nd' hnd'
  rw [hd] at hnd'
  obtain ⟨nd, hnd, rfl⟩ := List.mem_map.mp hnd'
  exact (hF nd hnd).inv (h.dest nd hnd)

theorem recvCount_mapDests {fl' : Flags} {r r' : Rib} {F : Net × Dest → Net × Dest}
    (hd : r'.dests = r.dests.map F) (hF : ∀ nd ∈ r.dests, DestOk fl' nd (F nd)) (addr : Nat) :
    recvCount addr r' = recvCount addr r := by
  unfold recvCount
  rw [hd, List.filter_map, List.length_map]
  congr 1
  exact List.filter_congr fun nd hnd => (hF nd hnd).any_sameAddr addr

theorem accCount_mapDests {fl' : Flags} {r r' : Rib} {F : Net × Dest → Net × Dest}
    (hd : r'.dests = r.dests.map F) (hF : ∀ nd ∈ r.dests, DestOk fl' nd (F nd)) (addr : Nat) :
    accCount addr r' = accCount addr r := by
  unfold accCount
  rw [hd, List.map_map]
  congr 1
  exact List.map_congr_left fun nd hnd => (hF nd hnd).acc addr

/-- the invariant is kept by a step that maps the destinations of every family one by one and
    touches neither the statistics nor the counters -/
theorem Inv.mapDests {c : Case} {g : Nat → Fam} {t t' : Table} {F : Fam → Net × Dest → Net × Dest}
    (h : Inv c g t) (hd : ∀ f, (t'.rib f).dests = (t.rib f).dests.map (F f))
    (hu : ∀ f, (t'.rib f).used = (t.rib f).used)
    (hF : ∀ f, ∀ nd ∈ (t.rib f).dests, DestOk t'.flags nd (F f nd))
    (hs : t'.stats = t.stats) (hc : t'.ctrs = t.ctrs) : Inv c g t' where
  rib f := (h.rib f).mapDests (hd f) (hu f) (hF f)
  stats := by
    intro addr f
    have h0 := h.stats addr f
    rw [hs]
    cases hl : alookup (addr, f) t.stats with
    | some st =>
      rw [hl] at h0
      simp only at h0 ⊢
      rw [h0, recvCount_mapDests (hd f) (hF f), accCount_mapDests (hd f) (hF f)]
    | none =>
      rw [hl] at h0
      simp only at h0 ⊢
      intro nd' hnd'
      rw [hd f] at hnd'
      obtain ⟨nd, hnd, rfl⟩ := List.mem_map.mp hnd'
      rw [(hF f nd hnd).any_sameAddr]; exact h0 nd hnd
  statsKeys := by rw [hs]; exact h.statsKeys
  ctrKeys := by rw [hc]; exact h.ctrKeys

/-! ## the notifications of such a step -/

theorem find?_eq_head?_filter {α : Type} (p : α → Bool) (l : List α) : l.find? p = (l.filter p).head? := by
  exact List.head?_filter.symm

theorem bestKey_eq_identOf (es : List Entry) : bestKey es = identOf (es.filter Entry.eligible) := by
  unfold bestKey identOf; rw [find?_eq_head?_filter]

theorem mem_chs_of_flatMap {t : Table} {cs : List Change} {G : Fam → Net × Dest → List Change}
    (hc : cs = (t.rib .v4).dests.flatMap (G .v4) ++ (t.rib .ev).dests.flatMap (G .ev)) {ch : Change} :
    ch ∈ cs ↔ ∃ f, ∃ nd ∈ (t.rib f).dests, ch ∈ G f nd := by
  rw [hc, List.mem_append, List.mem_flatMap, List.mem_flatMap]
  constructor
  · rintro (⟨nd, h1, h2⟩ | ⟨nd, h1, h2⟩)
    · exact ⟨.v4, nd, h1, h2⟩
    · exact ⟨.ev, nd, h1, h2⟩
  · rintro ⟨f, nd, h1, h2⟩
    cases f
    · exact Or.inl ⟨nd, h1, h2⟩
    · exact Or.inr ⟨nd, h1, h2⟩

theorem elig_mapDests {t t' : Table} {F : Fam → Net × Dest → Net × Dest}
    (hd : ∀ f, (t'.rib f).dests = (t.rib f).dests.map (F f)) (hF : ∀ f nd, (F f nd).1 = nd.1)
    (f : Fam) (n : Net) :
    t'.elig f n = match alookup n (t.rib f).dests with
      | some d => (F f (n, d)).2.entries.filter Entry.eligible
      | none => [] := by
  unfold Table.elig
  rw [hd f, alookup_map (F f) (hF f)]
  cases alookup n (t.rib f).dests <;> rfl

theorem destId_mapDests {t t' : Table} {F : Fam → Net × Dest → Net × Dest}
    (hd : ∀ f, (t'.rib f).dests = (t.rib f).dests.map (F f))
    (hF : ∀ f nd, (F f nd).1 = nd.1 ∧ (F f nd).2.id = nd.2.id) (f : Fam) (n : Net) :
    t'.destId f n = t.destId f n := by
  unfold Table.destId
  rw [hd f, alookup_map (F f) (fun nd => (hF f nd).1)]
  cases alookup n (t.rib f).dests with
  | none => rfl
  | some d => simp only [Option.map_some]; rw [(hF f (n, d)).2]

theorem flatMap_keys_sublist {α β γ : Type} (G : α → List β) (kb : β → γ) (ka : α → γ)
    (hG : ∀ a, ∀ b ∈ G a, kb b = ka a) (hlen : ∀ a, (G a).length ≤ 1) (l : List α) :
    ((l.flatMap G).map kb).Sublist (l.map ka) := by
  induction l with
  | nil => simp
  | cons a l ih =>
    rw [List.flatMap_cons, List.map_append, List.map_cons]
    have h1 : ((G a).map kb).Sublist [ka a] := by
      have hl := hlen a
      cases hg : G a with
      | nil => simp
      | cons b rest =>
        cases rest with
        | nil =>
          have : kb b = ka a := hG a b (by rw [hg]; exact List.mem_cons_self)
          simp [this]
        | cons _ _ => rw [hg] at hl; simp at hl
    exact List.Sublist.append h1 ih

/-- The facts about the notifications of a step that maps the destinations of every family one by
    one (`F`) and reports per destination (`G`, possibly several notifications). -/
theorem stepFacts_of_flatMap {t t' : Table} {op : Op} {r : Res} {F : Fam → Net × Dest → Net × Dest}
    {G : Fam → Net × Dest → List Change}
    (hd : ∀ f, (t'.rib f).dests = (t.rib f).dests.map (F f))
    (hc : r.chs = (t.rib .v4).dests.flatMap (G .v4) ++ (t.rib .ev).dests.flatMap (G .ev))
    (hk : ∀ f, ((t.rib f).dests.map (·.1)).Nodup)
    (hF : ∀ f nd, (F f nd).1 = nd.1 ∧ (F f nd).2.id = nd.2.id)
    (hG : ∀ f nd, ∀ ch ∈ G f nd, ch.fam = f ∧ ch.net = nd.1 ∧ ch.destId = nd.2.id ∧
      ch.paths = (F f nd).2.entries.filter Entry.eligible)
    (hOne : op.isRestaleLlgr = false → ∀ f nd, (G f nd).length ≤ 1)
    (hAny : ∀ f, (t.rib f).deferring = false → ∀ nd ∈ (t.rib f).dests,
      nd.2.entries.filter Entry.eligible ≠ (F f nd).2.entries.filter Entry.eligible →
      ∃ ch ∈ G f nd, ch.any = true)
    (hBest : ∀ f, (t.rib f).deferring = false → ∀ nd ∈ (t.rib f).dests,
      identOf (nd.2.entries.filter Entry.eligible) ≠ identOf ((F f nd).2.entries.filter Entry.eligible) →
      ∃ ch ∈ G f nd, ch.best = true)
    (hSil : ∀ f, (t.rib f).deferring = true → op.isEndDeferral f = false → ∀ nd, G f nd = [])
    (hEnd : ∀ f, op.isEndDeferral f = true → ∀ nd ∈ (t.rib f).dests,
      (F f nd).2.entries.filter Entry.eligible ≠ [] → ∃ ch ∈ G f nd, ch.best = true ∧ ch.any = true)
    (hDef : ∀ f, (t'.rib f).deferring =
      if op.isStartDeferral f then true else if op.isEndDeferral f then false else (t.rib f).deferring) :
    StepFacts t op t' r := by
  have hF1 : ∀ f nd, (F f nd).1 = nd.1 := fun f nd => (hF f nd).1
  have hmem := @mem_chs_of_flatMap t r.chs G hc
  -- a notification comes from a destination that can be looked up
  have hsrc : ∀ ch ∈ r.chs, ∃ d, alookup ch.net (t.rib ch.fam).dests = some d ∧
      ch ∈ G ch.fam (ch.net, d) := by
    intro ch hch
    obtain ⟨f, nd, hnd, hg⟩ := hmem.mp hch
    obtain ⟨h1, h2, -, -⟩ := hG f nd ch hg
    obtain ⟨n, d⟩ := nd
    simp only at h2
    subst h1; subst h2
    exact ⟨d, alookup_of_mem (hk _) hnd, hg⟩
  refine ⟨?_, ?_, ?_, ?_, ?_, ?_, ?_, ?_, hDef⟩
  · intro ch hch
    obtain ⟨d, h1, h2⟩ := hsrc ch hch
    rw [elig_mapDests hd hF1, h1]
    exact (hG _ _ _ h2).2.2.2
  · intro ch hch
    obtain ⟨d, h1, h2⟩ := hsrc ch hch
    left
    rw [destId_mapDests hd hF]
    unfold Table.destId
    rw [h1]; simp only [Option.map_some]
    rw [(hG _ _ _ h2).2.2.1]
  · intro hop
    rw [hc, List.map_append, List.nodup_append]
    have hs : ∀ f, (((t.rib f).dests.flatMap (G f)).map fun ch => (ch.fam, ch.net)).Sublist
        ((t.rib f).dests.map fun nd => (f, nd.1)) := by
      intro f
      apply flatMap_keys_sublist _ _ _ _ (hOne hop f)
      intro nd ch h
      obtain ⟨h1, h2, -⟩ := hG f nd ch h
      rw [h1, h2]
    have hn : ∀ f, ((t.rib f).dests.map fun nd => (f, nd.1)).Nodup := by
      intro f
      have : ((t.rib f).dests.map fun nd => (f, nd.1)) = ((t.rib f).dests.map (·.1)).map fun n => (f, n) := by
        rw [List.map_map]; rfl
      rw [this]
      exact List.Pairwise.map (fun n => (f, n)) (fun a b h e => h (Prod.mk.inj e).2) (hk f)
    refine ⟨(hs .v4).nodup (hn .v4), (hs .ev).nodup (hn .ev), ?_⟩
    intro a ha b hb hab
    obtain ⟨x, -, hx⟩ := List.mem_map.mp ((hs .v4).subset ha)
    obtain ⟨y, -, hy⟩ := List.mem_map.mp ((hs .ev).subset hb)
    rw [← hx, ← hy] at hab
    exact absurd (Prod.mk.inj hab).1 (by decide)
  · intro f n i hi
    left; rw [destId_mapDests hd hF]; exact hi
  · intro f n hdf hne
    rw [elig_mapDests hd hF1 f n] at hne
    unfold Table.elig at hne
    cases hl : alookup n (t.rib f).dests with
    | none => rw [hl] at hne; exact absurd rfl hne
    | some d =>
      rw [hl] at hne
      have hnd := alookup_some_mem hl
      obtain ⟨ch, h1, h2⟩ := hAny f hdf (n, d) hnd hne
      obtain ⟨h3, h4, -⟩ := hG f _ ch h1
      exact ⟨ch, hmem.mpr ⟨f, _, hnd, h1⟩, h3, h4, h2⟩
  · intro f n hdf hne
    rw [elig_mapDests hd hF1 f n] at hne
    unfold Table.elig at hne
    cases hl : alookup n (t.rib f).dests with
    | none => rw [hl] at hne; exact absurd rfl hne
    | some d =>
      rw [hl] at hne
      have hnd := alookup_some_mem hl
      obtain ⟨ch, h1, h2⟩ := hBest f hdf (n, d) hnd hne
      obtain ⟨h3, h4, -⟩ := hG f _ ch h1
      exact ⟨ch, hmem.mpr ⟨f, _, hnd, h1⟩, h3, h4, h2⟩
  · intro f hdf hop ch hch hcf
    obtain ⟨f', nd, -, hg⟩ := hmem.mp hch
    have := (hG f' nd ch hg).1
    rw [hcf] at this; subst this
    rw [hSil f hdf hop nd] at hg
    exact absurd hg (by simp)
  · intro f hop n hne
    rw [elig_mapDests hd hF1 f n] at hne
    cases hl : alookup n (t.rib f).dests with
    | none => rw [hl] at hne; exact absurd rfl hne
    | some d =>
      rw [hl] at hne
      have hnd := alookup_some_mem hl
      obtain ⟨ch, h1, h2⟩ := hEnd f hop (n, d) hnd hne
      obtain ⟨h3, h4, -⟩ := hG f _ ch h1
      exact ⟨ch, hmem.mpr ⟨f, _, hnd, h1⟩, h3, h4, h2⟩

theorem filterMap_eq_flatMap {α β : Type} (G : α → Option β) (l : List α) :
    l.filterMap G = l.flatMap fun a => (G a).toList := by
  induction l with
  | nil => rfl
  | cons a l ih =>
    rw [List.filterMap_cons, List.flatMap_cons, ← ih]
    cases G a <;> rfl

/-- ... with at most one notification per destination -/
theorem stepFacts_of_map {t t' : Table} {op : Op} {r : Res} {F : Fam → Net × Dest → Net × Dest}
    {G : Fam → Net × Dest → Option Change}
    (hd : ∀ f, (t'.rib f).dests = (t.rib f).dests.map (F f))
    (hc : r.chs = (t.rib .v4).dests.filterMap (G .v4) ++ (t.rib .ev).dests.filterMap (G .ev))
    (hk : ∀ f, ((t.rib f).dests.map (·.1)).Nodup)
    (hF : ∀ f nd, (F f nd).1 = nd.1 ∧ (F f nd).2.id = nd.2.id)
    (hG : ∀ f nd ch, G f nd = some ch → ch.fam = f ∧ ch.net = nd.1 ∧ ch.destId = nd.2.id ∧
      ch.paths = (F f nd).2.entries.filter Entry.eligible)
    (hAny : ∀ f, (t.rib f).deferring = false → ∀ nd ∈ (t.rib f).dests,
      nd.2.entries.filter Entry.eligible ≠ (F f nd).2.entries.filter Entry.eligible →
      ∃ ch, G f nd = some ch ∧ ch.any = true)
    (hBest : ∀ f, (t.rib f).deferring = false → ∀ nd ∈ (t.rib f).dests,
      identOf (nd.2.entries.filter Entry.eligible) ≠ identOf ((F f nd).2.entries.filter Entry.eligible) →
      ∃ ch, G f nd = some ch ∧ ch.best = true)
    (hSil : ∀ f, (t.rib f).deferring = true → op.isEndDeferral f = false → ∀ nd, G f nd = none)
    (hEnd : ∀ f, op.isEndDeferral f = true → ∀ nd ∈ (t.rib f).dests,
      (F f nd).2.entries.filter Entry.eligible ≠ [] → ∃ ch, G f nd = some ch ∧ ch.best = true ∧ ch.any = true)
    (hDef : ∀ f, (t'.rib f).deferring =
      if op.isStartDeferral f then true else if op.isEndDeferral f then false else (t.rib f).deferring) :
    StepFacts t op t' r := by
  refine stepFacts_of_flatMap (G := fun f nd => (G f nd).toList) hd ?_ hk hF ?_ ?_ ?_ ?_ ?_ ?_ hDef
  · rw [hc, filterMap_eq_flatMap, filterMap_eq_flatMap]
  · intro f nd ch hch
    exact hG f nd ch (Option.mem_toList.mp hch)
  · intro _ f nd
    cases G f nd <;> simp
  · intro f hdf nd hnd hne
    obtain ⟨ch, h1, h2⟩ := hAny f hdf nd hnd hne
    exact ⟨ch, Option.mem_toList.mpr h1, h2⟩
  · intro f hdf nd hnd hne
    obtain ⟨ch, h1, h2⟩ := hBest f hdf nd hnd hne
    exact ⟨ch, Option.mem_toList.mpr h1, h2⟩
  · intro f hdf hop nd
    rw [hSil f hdf hop nd]; rfl
  · intro f hop nd hnd hne
    obtain ⟨ch, h1, h2⟩ := hEnd f hop nd hnd hne
    exact ⟨ch, Option.mem_toList.mpr h1, h2⟩

/-! ## `restale` / `restale_llgr`: the flag sets -/

theorem addIds_cons (x : Nat) (ids s : List Nat) :
    addIds (x :: ids) s = addIds ids (if s.contains x then s else x :: s) := rfl

theorem mem_addIds (ids s : List Nat) (i : Nat) : i ∈ addIds ids s ↔ i ∈ s ∨ i ∈ ids := by
  induction ids generalizing s with
  | nil => simp [addIds]
  | cons x ids ih =>
    rw [addIds_cons, ih]
    by_cases h : s.contains x
    · rw [if_pos h]
      have hx : x ∈ s := List.contains_iff_mem.mp h
      constructor
      · rintro (h1 | h1)
        · exact Or.inl h1
        · exact Or.inr (List.mem_cons_of_mem _ h1)
      · rintro (h1 | h1)
        · exact Or.inl h1
        · rcases List.mem_cons.mp h1 with rfl | h1
          · exact Or.inl hx
          · exact Or.inr h1
    · rw [if_neg h]
      simp only [List.mem_cons]
      constructor
      · rintro ((h1 | h1) | h1)
        · exact Or.inr (Or.inl h1)
        · exact Or.inl h1
        · exact Or.inr (Or.inr h1)
      · rintro (h1 | h1 | h1)
        · exact Or.inl (Or.inr h1)
        · exact Or.inl (Or.inl h1)
        · exact Or.inr h1

/-- the flag set `restale` (`m = false`) / `restale_llgr` (`m = true`) writes -/
def Flags.marked (m : Bool) (fl : Flags) : List Nat := if m then fl.llgr else fl.stale
/-- ... and the one it leaves alone -/
def Flags.other (m : Bool) (fl : Flags) : List Nat := if m then fl.stale else fl.llgr

def markFl (m : Bool) (ids : List Nat) (fl : Flags) : Flags :=
  if m then { fl with llgr := addIds ids fl.llgr } else { fl with stale := addIds ids fl.stale }

theorem markFl_other (m : Bool) (ids : List Nat) (fl : Flags) : (markFl m ids fl).other m = fl.other m := by
  cases m <;> rfl

theorem markFl_marked (m : Bool) (ids : List Nat) (fl : Flags) :
    (markFl m ids fl).marked m = addIds ids (fl.marked m) := by
  cases m <;> rfl

/-- both flags of source `i` read the same in `fl` and `fl'` -/
def FlAgree (fl fl' : Flags) (i : Nat) : Prop :=
  fl.stale.contains i = fl'.stale.contains i ∧ fl.llgr.contains i = fl'.llgr.contains i

theorem FlAgree.of_marked {fl fl' : Flags} {i : Nat} (m : Bool)
    (h1 : (fl.marked m).contains i = (fl'.marked m).contains i) (h2 : fl.other m = fl'.other m) :
    FlAgree fl fl' i := by
  cases m
  · simp only [Flags.marked, Flags.other, Bool.false_eq_true, if_false] at h1 h2
    exact ⟨h1, by rw [h2]⟩
  · simp only [Flags.marked, Flags.other, if_true] at h1 h2
    exact ⟨by rw [h2], h1⟩

theorem cmpFor_agree {fl fl' : Flags} (t2 : Bool) {a b : Entry} (ha : FlAgree fl fl' a.src.id)
    (hb : FlAgree fl fl' b.src.id) : cmpFor fl t2 a b = cmpFor fl' t2 a b := by
  rw [cmpFor_eq_cmpK, cmpFor_eq_cmpK, rkey_congr t2 a ha.1 ha.2, rkey_congr t2 b hb.1 hb.2]

theorem Sorted.agree {fl fl' : Flags} {t2 : Bool} {l : List Entry} (h : Sorted (cmpFor fl t2) l)
    (ha : ∀ e ∈ l, FlAgree fl fl' e.src.id) : Sorted (cmpFor fl' t2) l :=
  h.congr fun a ha' b hb' => cmpFor_agree t2 (ha a ha') (ha b hb')

/-! ## re-sorting -/

theorem insertSorted_congr {c c' : Entry → Entry → Ordering} (x : Entry) {acc : List Entry}
    (h : ∀ a ∈ acc, c x a = c' x a) : insertSorted c x acc = insertSorted c' x acc := by
  induction acc with
  | nil => rfl
  | cons a l ih =>
    simp only [insertSorted]
    rw [h a List.mem_cons_self, ih fun b hb => h b (List.mem_cons_of_mem _ hb)]

theorem foldl_insertSorted_congr {c c' : Entry → Entry → Ordering} (L : List Entry)
    (h : ∀ a ∈ L, ∀ b ∈ L, c a b = c' a b) (l acc : List Entry) (hl : ∀ x ∈ l, x ∈ L)
    (hacc : ∀ x ∈ acc, x ∈ L) :
    l.foldl (fun acc x => insertSorted c x acc) acc = l.foldl (fun acc x => insertSorted c' x acc) acc := by
  induction l generalizing acc with
  | nil => rfl
  | cons x l ih =>
    simp only [List.foldl_cons]
    have hx : x ∈ L := hl x List.mem_cons_self
    rw [insertSorted_congr x fun a ha => h x hx a (hacc a ha)]
    apply ih _ fun y hy => hl y (List.mem_cons_of_mem _ hy)
    intro y hy
    rcases mem_insertSorted.mp hy with rfl | hy
    · exact hx
    · exact hacc y hy

theorem sortBy_congr {c c' : Entry → Entry → Ordering} {l : List Entry}
    (h : ∀ a ∈ l, ∀ b ∈ l, c a b = c' a b) : sortBy c l = sortBy c' l :=
  foldl_insertSorted_congr l h l [] (fun _ hx => hx) (by simp)

/-- an element that is not better than anything in the list goes to the end -/
theorem insertSorted_append {c : Entry → Entry → Ordering} (x : Entry) {acc : List Entry}
    (h : ∀ a ∈ acc, c x a ≠ .lt) : insertSorted c x acc = acc ++ [x] := by
  induction acc with
  | nil => rfl
  | cons a l ih =>
    simp only [insertSorted]
    have : (c x a != .lt) = true := by simpa using h a List.mem_cons_self
    rw [if_pos this, ih fun b hb => h b (List.mem_cons_of_mem _ hb)]; rfl

/-- an element that is better than everything in the list goes to the front -/
theorem insertSorted_front {c : Entry → Entry → Ordering} (x : Entry) {acc : List Entry}
    (h : ∀ a ∈ acc, c x a = .lt) : insertSorted c x acc = x :: acc := by
  cases acc with
  | nil => rfl
  | cons a l =>
    simp only [insertSorted]
    rw [h a List.mem_cons_self]; rfl

theorem foldl_insertSorted_of_sorted {c : Entry → Entry → Ordering} (hc : LawfulCmp c) (l acc : List Entry)
    (h : Sorted c (acc ++ l)) : l.foldl (fun acc x => insertSorted c x acc) acc = acc ++ l := by
  induction l generalizing acc with
  | nil => simp
  | cons x l ih =>
    simp only [List.foldl_cons]
    have hx : ∀ a ∈ acc, c x a ≠ .lt := by
      intro a ha hlt
      have h1 : c a x ≠ .gt := by
        have := List.pairwise_append.mp h
        exact this.2.2 a ha x List.mem_cons_self
      exact h1 (hc.gt_of_lt hlt)
    rw [insertSorted_append x hx, ih]
    · simp
    · simpa using h

/-- re-sorting a ranked list changes nothing -/
theorem sortBy_of_sorted {c : Entry → Entry → Ordering} (hc : LawfulCmp c) {l : List Entry}
    (h : Sorted c l) : sortBy c l = l := by
  have := foldl_insertSorted_of_sorted hc l [] (by simpa using h)
  simpa [sortBy] using this

theorem filter_insertSorted_neg {c : Entry → Entry → Ordering} (q : Entry → Bool) {x : Entry}
    (hq : q x = false) (acc : List Entry) : (insertSorted c x acc).filter q = acc.filter q := by
  induction acc with
  | nil => simp [insertSorted, hq]
  | cons a l ih =>
    simp only [insertSorted]
    split
    · rw [List.filter_cons, List.filter_cons, ih]
    · rw [List.filter_cons, hq]; rfl

theorem filter_insertSorted_pos {c : Entry → Entry → Ordering} (hc : LawfulCmp c) (q : Entry → Bool)
    {x : Entry} (hq : q x = true) {acc : List Entry} (h : Sorted c acc) :
    (insertSorted c x acc).filter q = insertSorted c x (acc.filter q) := by
  induction acc with
  | nil => simp [insertSorted, hq]
  | cons a l ih =>
    have h' := List.pairwise_cons.mp h
    simp only [insertSorted]
    split
    · rename_i hge
      rw [List.filter_cons, List.filter_cons, ih h'.2]
      by_cases hqa : q a
      · rw [if_pos hqa, if_pos hqa]; simp only [insertSorted]; rw [if_pos hge]
      · rw [if_neg hqa, if_neg hqa]
    · rename_i hlt
      have hxa : c x a = .lt := by
        cases hh : c x a <;> simp_all
      rw [List.filter_cons, if_pos hq]
      rw [insertSorted_front]
      intro b hb
      have hb' := (List.mem_filter.mp hb).1
      rcases List.mem_cons.mp hb' with rfl | hb'
      · exact hxa
      · exact hc.lt_of_lt_of_le hxa (h'.1 b hb')

/-- the stable sort commutes with filtering -/
theorem filter_foldl_insertSorted {c : Entry → Entry → Ordering} (hc : LawfulCmp c) (q : Entry → Bool)
    (l acc : List Entry) (h : Sorted c acc) :
    (l.foldl (fun acc x => insertSorted c x acc) acc).filter q
      = (l.filter q).foldl (fun acc x => insertSorted c x acc) (acc.filter q) := by
  induction l generalizing acc with
  | nil => rfl
  | cons x l ih =>
    simp only [List.foldl_cons]
    rw [ih _ (insertSorted_sorted hc x h), List.filter_cons]
    by_cases hq : q x
    · rw [if_pos hq, List.foldl_cons, filter_insertSorted_pos hc q hq h]
    · rw [if_neg hq, filter_insertSorted_neg q (by simpa using hq)]

theorem filter_sortBy {c : Entry → Entry → Ordering} (hc : LawfulCmp c) (q : Entry → Bool) (l : List Entry) :
    (sortBy c l).filter q = sortBy c (l.filter q) :=
  filter_foldl_insertSorted hc q l [] (by simp [Sorted])

/-- re-sorting keeps the order of any part that is already ranked -/
theorem filter_sortBy_of_sorted {c : Entry → Entry → Ordering} (hc : LawfulCmp c) (q : Entry → Bool)
    {l : List Entry} (h : Sorted c (l.filter q)) : (sortBy c l).filter q = l.filter q := by
  rw [filter_sortBy hc, sortBy_of_sorted hc h]

/-! ## one destination of `restale`, ranked by given flags -/

/-- `restaleDest` without the marking: the paths are ranked by the flags `FL` -/
def rd (fam : Fam) (addr : Nat) (m : Bool) (FL : Flags) (nd : Net × Dest) : (Net × Dest) × Option Change :=
  if !nd.2.entries.any (sameAddr addr) then (nd, none)
  else
    let anyUnf := nd.2.entries.any fun e => sameAddr addr e && !e.filtered
    let entries := sortBy (cmpFor FL nd.1.t2) nd.2.entries
    let bestChanged := bestLpid nd.2.entries != bestLpid entries ||
      (m && (match entries.find? Entry.eligible with | some e => sameAddr addr e | none => false))
    ((nd.1, { nd.2 with entries := entries }),
     if bestChanged || anyUnf then
       some { fam, net := nd.1, destId := nd.2.id, best := bestChanged, any := anyUnf, replaced := none,
              paths := entries.filter Entry.eligible }
     else none)

def addrIds (addr : Nat) (nd : Net × Dest) : List Nat :=
  (nd.2.entries.filter (sameAddr addr)).map (·.src.id)

/-- the notifications of one destination: `restale_llgr` reports every usable path of the peer -/
def expandOpt (m : Bool) (addr : Nat) : Option Change → List Change
  | some c => if m then expandLlgr addr c else [c]
  | none => []

variable {m : Bool}

theorem restaleDest_untouched (fam : Fam) (addr : Nat) (m : Bool) (fl : Flags) (nd : Net × Dest)
    (h : nd.2.entries.any (sameAddr addr) = false) : restaleDest fam addr m fl nd = (fl, nd, none) := by
  obtain ⟨net, dst⟩ := nd
  simp only [restaleDest]
  simp only at h
  rw [h]; rfl

theorem rd_untouched (fam : Fam) (addr : Nat) (FL : Flags) (nd : Net × Dest)
    (h : nd.2.entries.any (sameAddr addr) = false) : rd fam addr m FL nd = (nd, none) := by
  unfold rd; rw [h]; rfl

theorem restaleDest_touched (fam : Fam) (addr : Nat) (m : Bool) (fl : Flags) (nd : Net × Dest)
    (h : nd.2.entries.any (sameAddr addr) = true) :
    restaleDest fam addr m fl nd
      = (markFl m (addrIds addr nd) fl, rd fam addr m (markFl m (addrIds addr nd) fl) nd) := by
  obtain ⟨net, dst⟩ := nd
  simp only at h
  simp only [restaleDest, rd, h, markFl, addrIds]
  rfl

theorem rd_congr (fam : Fam) (addr : Nat) {FL FL' : Flags} (nd : Net × Dest)
    (h : ∀ e ∈ nd.2.entries, FlAgree FL FL' e.src.id) : rd fam addr m FL nd = rd fam addr m FL' nd := by
  have : sortBy (cmpFor FL nd.1.t2) nd.2.entries = sortBy (cmpFor FL' nd.1.t2) nd.2.entries :=
    sortBy_congr fun a ha b hb => cmpFor_agree _ (h a ha) (h b hb)
  unfold rd; rw [this]

theorem rd_key (fam : Fam) (addr : Nat) (FL : Flags) (nd : Net × Dest) :
    (rd fam addr m FL nd).1.1 = nd.1 ∧ (rd fam addr m FL nd).1.2.id = nd.2.id := by
  unfold rd; split <;> exact ⟨rfl, rfl⟩

theorem rd_entries_touched (fam : Fam) (addr : Nat) (FL : Flags) (nd : Net × Dest)
    (h : nd.2.entries.any (sameAddr addr) = true) :
    (rd fam addr m FL nd).1.2.entries = sortBy (cmpFor FL nd.1.t2) nd.2.entries := by
  unfold rd; rw [h]; rfl

/-! ## the loop over the destinations -/

theorem restaleLoop_cons (fam : Fam) (addr : Nat) (m : Bool) (nd : Net × Dest) (l : List (Net × Dest))
    (fl : Flags) :
    restaleLoop fam addr m (nd :: l) fl =
      ((restaleLoop fam addr m l (restaleDest fam addr m fl nd).1).1,
       (restaleDest fam addr m fl nd).2.1 :: (restaleLoop fam addr m l (restaleDest fam addr m fl nd).1).2.1,
       expandOpt m addr (restaleDest fam addr m fl nd).2.2 ++
         (restaleLoop fam addr m l (restaleDest fam addr m fl nd).1).2.2) := by
  show restaleLoop fam addr m (nd :: l) fl = _
  simp only [restaleLoop]
  cases (restaleDest fam addr m fl nd).2.2 <;> rfl

/-- What the loop computes, in terms of the FINAL flags `res.1`: every destination is the
    `rd` of the original one ranked by the final flags.  `P` describes the source ids that may get
    marked (sources of the peer bound to this family). -/
structure LoopSpec (fam : Fam) (addr : Nat) (m : Bool) (P : Nat → Prop) (l : List (Net × Dest)) (fl : Flags)
    (res : Flags × List (Net × Dest) × List Change) : Prop where
  other : res.1.other m = fl.other m
  mono : ∀ i, (fl.marked m).contains i = true → (res.1.marked m).contains i = true
  new : ∀ i, (res.1.marked m).contains i = true → (fl.marked m).contains i = true ∨ P i
  dests : res.2.1 = l.map fun nd => (rd fam addr m res.1 nd).1
  chs : res.2.2 = l.flatMap fun nd => expandOpt m addr (rd fam addr m res.1 nd).2
  marks : ∀ i, (res.1.marked m).contains i = true ↔
    ((fl.marked m).contains i = true ∨ ∃ nd ∈ l, i ∈ addrIds addr nd)

theorem restaleLoop_spec (fam : Fam) (addr : Nat) (m : Bool) (P : Nat → Prop) :
    ∀ (l : List (Net × Dest)) (fl : Flags),
      (∀ nd ∈ l, ∀ e ∈ nd.2.entries, sameAddr addr e = true ↔ P e.src.id) →
      LoopSpec fam addr m P l fl (restaleLoop fam addr m l fl) := by
  intro l
  induction l with
  | nil => intro fl _; exact ⟨rfl, fun _ h => h, fun _ h => Or.inl h, rfl, rfl,
      fun i => ⟨Or.inl, fun h => h.elim id (fun ⟨_, hx, _⟩ => absurd hx (by simp))⟩⟩
  | cons nd l ih =>
    intro fl hP
    have hPl : ∀ nd ∈ l, ∀ e ∈ nd.2.entries, sameAddr addr e = true ↔ P e.src.id :=
      fun x hx => hP x (List.mem_cons_of_mem _ hx)
    rw [restaleLoop_cons]
    cases ht : nd.2.entries.any (sameAddr addr) with
    | false =>
      rw [restaleDest_untouched fam addr m fl nd ht]
      have s := ih fl hPl
      simp only
      refine ⟨s.other, s.mono, s.new, ?_, ?_, ?_⟩
      · simp only [List.map_cons, rd_untouched fam addr _ nd ht]; rw [s.dests]
      · rw [List.flatMap_cons, rd_untouched fam addr _ nd ht]
        show [] ++ _ = [] ++ _
        rw [s.chs]
      · intro i
        rw [s.marks i]
        have hnone : ∀ i, i ∉ addrIds addr nd := by
          intro i hi
          obtain ⟨e, he, -⟩ := List.mem_map.mp hi
          have := List.mem_filter.mp he
          exact absurd (List.any_eq_true.mpr ⟨e, this.1, this.2⟩) (by rw [ht]; simp)
        constructor
        · rintro (h | ⟨x, hx, hi⟩)
          · exact Or.inl h
          · exact Or.inr ⟨x, List.mem_cons_of_mem _ hx, hi⟩
        · rintro (h | ⟨x, hx, hi⟩)
          · exact Or.inl h
          · rcases List.mem_cons.mp hx with rfl | hx
            · exact absurd hi (hnone i)
            · exact Or.inr ⟨x, hx, hi⟩
    | true =>
      rw [restaleDest_touched fam addr m fl nd ht]
      generalize hfl1 : markFl m (addrIds addr nd) fl = fl1
      have s := ih fl1 hPl
      have hmk : ∀ i, (fl1.marked m).contains i = true ↔
          ((fl.marked m).contains i = true ∨ i ∈ addrIds addr nd) := by
        intro i
        rw [← hfl1, markFl_marked, List.contains_iff_mem, List.contains_iff_mem, mem_addIds]
      have hids : ∀ i ∈ addrIds addr nd, P i := by
        intro i hi
        obtain ⟨e, he, rfl⟩ := List.mem_map.mp hi
        have := List.mem_filter.mp he
        exact (hP nd List.mem_cons_self e this.1).mp this.2
      -- the flags after this destination and the final ones agree on its entries
      have hag : ∀ e ∈ nd.2.entries, FlAgree fl1 (restaleLoop fam addr m l fl1).1 e.src.id := by
        intro e he
        refine FlAgree.of_marked m ?_ s.other.symm
        cases h1 : (fl1.marked m).contains e.src.id with
        | true => exact (s.mono _ h1).symm
        | false =>
          cases h2 : ((restaleLoop fam addr m l fl1).1.marked m).contains e.src.id with
          | false => rfl
          | true =>
            exfalso
            rcases s.new _ h2 with h3 | h3
            · rw [h1] at h3; exact absurd h3 (by simp)
            · have hs := (hP nd List.mem_cons_self e he).mpr h3
              have : e.src.id ∈ addrIds addr nd :=
                List.mem_map.mpr ⟨e, List.mem_filter.mpr ⟨he, hs⟩, rfl⟩
              have := (hmk _).mpr (Or.inr this)
              rw [h1] at this; exact absurd this (by simp)
      have hrd := rd_congr (m := m) fam addr nd hag
      simp only
      refine ⟨?_, ?_, ?_, ?_, ?_, ?_⟩
      · rw [s.other, ← hfl1, markFl_other]
      · intro i hi; exact s.mono i ((hmk i).mpr (Or.inl hi))
      · intro i hi
        rcases s.new i hi with h | h
        · rcases (hmk i).mp h with h | h
          · exact Or.inl h
          · exact Or.inr (hids i h)
        · exact Or.inr h
      · rw [List.map_cons, ← hrd, ← s.dests]
      · rw [List.flatMap_cons, ← hrd, ← s.chs]
      · intro i
        rw [s.marks i, hmk i]
        constructor
        · rintro ((h | h) | ⟨x, hx, hi⟩)
          · exact Or.inl h
          · exact Or.inr ⟨nd, List.mem_cons_self, h⟩
          · exact Or.inr ⟨x, List.mem_cons_of_mem _ hx, hi⟩
        · rintro (h | ⟨x, hx, hi⟩)
          · exact Or.inl (Or.inl h)
          · rcases List.mem_cons.mp hx with rfl | hx
            · exact Or.inl (Or.inr hi)
            · exact Or.inr ⟨x, hx, hi⟩

theorem LoopSpec.agree {fam : Fam} {addr : Nat} {m : Bool} {P : Nat → Prop} {l : List (Net × Dest)}
    {fl : Flags} {res : Flags × List (Net × Dest) × List Change} (s : LoopSpec fam addr m P l fl res)
    {i : Nat} (hi : ¬ P i) : FlAgree fl res.1 i := by
  refine FlAgree.of_marked m ?_ s.other.symm
  cases h1 : (fl.marked m).contains i with
  | true => exact (s.mono _ h1).symm
  | false =>
    cases h2 : (res.1.marked m).contains i with
    | false => rfl
    | true =>
      rcases s.new _ h2 with h3 | h3
      · rw [h1] at h3; exact absurd h3 (by simp)
      · exact absurd h3 hi

/-! ## one destination, ranked by the final flags -/

theorem rd_destOk {c : Case} {g : Nat → Fam} {fl FL : Flags} {f fam : Fam} {addr : Nat} {nd : Net × Dest}
    (hi : DestInv c g fl f nd.1 nd.2)
    (hag : nd.2.entries.any (sameAddr addr) = false → ∀ e ∈ nd.2.entries, FlAgree fl FL e.src.id) :
    DestOk FL nd (rd fam addr m FL nd).1 := by
  cases ht : nd.2.entries.any (sameAddr addr) with
  | false =>
    rw [rd_untouched fam addr FL nd ht]
    exact DestOk.refl (hi.sorted.agree (hag ht))
  | true =>
    refine ⟨(rd_key fam addr FL nd).1, (rd_key fam addr FL nd).2, ?_, ?_⟩
    · rw [rd_entries_touched fam addr FL nd ht]; exact (sortBy_perm _ _).map _
    · rw [rd_entries_touched fam addr FL nd ht]; exact sortBy_sorted (cmpFor_lawful _ _) _

/-- `best_changed` of `restale` / `restale_llgr` -/
def bestCh (addr : Nat) (m : Bool) (es es' : List Entry) : Bool :=
  bestLpid es != bestLpid es' ||
    (m && (match es'.find? Entry.eligible with | some e => sameAddr addr e | none => false))

theorem rd_emit {fam : Fam} {addr : Nat} {FL : Flags} {nd : Net × Dest}
    (ht : nd.2.entries.any (sameAddr addr) = true) :
    (rd fam addr m FL nd).2 =
      if (bestCh addr m nd.2.entries (sortBy (cmpFor FL nd.1.t2) nd.2.entries)
          || nd.2.entries.any fun e => sameAddr addr e && !e.filtered) then
        some { fam, net := nd.1, destId := nd.2.id,
               best := bestCh addr m nd.2.entries (sortBy (cmpFor FL nd.1.t2) nd.2.entries),
               any := nd.2.entries.any fun e => sameAddr addr e && !e.filtered, replaced := none,
               paths := (sortBy (cmpFor FL nd.1.t2) nd.2.entries).filter Entry.eligible }
      else none := by
  unfold rd; rw [ht]; rfl

theorem rd_change {fam : Fam} {addr : Nat} {FL : Flags} {nd : Net × Dest} {ch : Change}
    (h : (rd fam addr m FL nd).2 = some ch) :
    ch.fam = fam ∧ ch.net = nd.1 ∧ ch.destId = nd.2.id ∧
      ch.paths = (rd fam addr m FL nd).1.2.entries.filter Entry.eligible := by
  cases ht : nd.2.entries.any (sameAddr addr) with
  | false => rw [rd_untouched fam addr FL nd ht] at h; exact absurd h (by simp)
  | true =>
    rw [rd_entries_touched fam addr FL nd ht]
    rw [rd_emit ht] at h
    split at h
    · simp only [Option.some.injEq] at h
      subst h; exact ⟨rfl, rfl, rfl, rfl⟩
    · exact absurd h (by simp)

theorem rd_any {c : Case} {g : Nat → Fam} {fl FL : Flags} {f fam : Fam} {addr : Nat} {nd : Net × Dest}
    (hi : DestInv c g fl f nd.1 nd.2)
    (hag : ∀ e ∈ nd.2.entries, sameAddr addr e = false → FlAgree fl FL e.src.id)
    (hne : nd.2.entries.filter Entry.eligible ≠ (rd fam addr m FL nd).1.2.entries.filter Entry.eligible) :
    ∃ ch, (rd fam addr m FL nd).2 = some ch ∧ ch.any = true := by
  cases ht : nd.2.entries.any (sameAddr addr) with
  | false => rw [rd_untouched fam addr FL nd ht] at hne; exact absurd rfl hne
  | true =>
    rw [rd_entries_touched fam addr FL nd ht] at hne
    rw [rd_emit ht]
    cases hu : nd.2.entries.any fun e => sameAddr addr e && !e.filtered with
    | true => rw [Bool.or_true, if_pos rfl]; exact ⟨_, rfl, rfl⟩
    | false =>
      exfalso
      apply hne
      symm
      apply filter_sortBy_of_sorted (cmpFor_lawful _ _)
      refine (hi.sorted.sublist List.filter_sublist).agree ?_
      intro e he
      obtain ⟨he1, he2⟩ := List.mem_filter.mp he
      apply hag e he1
      have h1 := List.any_eq_false.mp hu e he1
      have h2 : e.filtered = false := by
        unfold Entry.eligible at he2
        cases hf : e.filtered
        · rfl
        · rw [hf] at he2; simp at he2
      rw [h2] at h1
      simpa using h1

theorem ident_of_bestLpid {es es' : List Entry} (hp : es'.Perm es) (hn : (es.map (·.lpid)).Nodup)
    (h : bestLpid es = bestLpid es') :
    identOf (es.filter Entry.eligible) = identOf (es'.filter Entry.eligible) := by
  rw [← bestKey_eq_identOf, ← bestKey_eq_identOf]
  unfold bestKey
  unfold bestLpid at h
  cases h1 : es.find? Entry.eligible with
  | none =>
    rw [h1] at h
    cases h2 : es'.find? Entry.eligible with
    | none => rfl
    | some b => rw [h2] at h; simp at h
  | some a =>
    rw [h1] at h
    cases h2 : es'.find? Entry.eligible with
    | none => rw [h2] at h; simp at h
    | some b =>
      rw [h2] at h
      simp only [Option.map_some, Option.some.injEq] at h
      have ha : a ∈ es := List.mem_of_find?_eq_some h1
      have hb : b ∈ es := hp.mem_iff.mp (List.mem_of_find?_eq_some h2)
      rw [eq_of_nodup_map _ hn ha hb h]

theorem rd_best {c : Case} {g : Nat → Fam} {fl FL : Flags} {f fam : Fam} {addr : Nat} {nd : Net × Dest}
    (hi : DestInv c g fl f nd.1 nd.2)
    (hne : identOf (nd.2.entries.filter Entry.eligible)
      ≠ identOf ((rd fam addr m FL nd).1.2.entries.filter Entry.eligible)) :
    ∃ ch, (rd fam addr m FL nd).2 = some ch ∧ ch.best = true := by
  cases ht : nd.2.entries.any (sameAddr addr) with
  | false => rw [rd_untouched fam addr FL nd ht] at hne; exact absurd rfl hne
  | true =>
    rw [rd_entries_touched fam addr FL nd ht] at hne
    rw [rd_emit ht]
    cases hb : bestCh addr m nd.2.entries (sortBy (cmpFor FL nd.1.t2) nd.2.entries) with
    | true => rw [Bool.true_or, if_pos rfl]; exact ⟨_, rfl, rfl⟩
    | false =>
      exfalso
      apply hne
      apply ident_of_bestLpid (sortBy_perm _ _) hi.lpids
      unfold bestCh at hb
      have := (Bool.or_eq_false_iff.mp hb).1
      simpa using this

/-! ## the expansion of `restale_llgr` -/

theorem mem_expandGo {c ch : Change} {b : Bool} {l : List Nat} (h : ch ∈ expandGo c b l) :
    ch.fam = c.fam ∧ ch.net = c.net ∧ ch.destId = c.destId ∧ ch.paths = c.paths ∧ ch.any = true := by
  induction l generalizing b with
  | nil => simp [expandGo] at h
  | cons pid l ih =>
    simp only [expandGo, List.mem_cons] at h
    rcases h with rfl | h
    · exact ⟨rfl, rfl, rfl, rfl, rfl⟩
    · exact ih h

theorem mem_expandLlgr {addr : Nat} {c ch : Change} (h : ch ∈ expandLlgr addr c) :
    ch.fam = c.fam ∧ ch.net = c.net ∧ ch.destId = c.destId ∧ ch.paths = c.paths := by
  unfold expandLlgr at h
  simp only at h
  split at h
  · rw [List.mem_singleton.mp h]; exact ⟨rfl, rfl, rfl, rfl⟩
  · obtain ⟨h1, h2, h3, h4, -⟩ := mem_expandGo h
    exact ⟨h1, h2, h3, h4⟩

theorem expandLlgr_any {addr : Nat} {c : Change} (h : c.any = true) : ∃ ch ∈ expandLlgr addr c, ch.any = true := by
  unfold expandLlgr
  simp only
  split
  · exact ⟨c, List.mem_singleton.mpr rfl, h⟩
  · rename_i hne
    cases hl : (c.paths.filter (sameAddr addr)).map (·.lpid) with
    | nil => rw [hl] at hne; simp at hne
    | cons pid l => exact ⟨_, by simp only [expandGo]; exact List.mem_cons_self, rfl⟩

theorem expandLlgr_best {addr : Nat} {c : Change} (h : c.best = true) :
    ∃ ch ∈ expandLlgr addr c, ch.best = true := by
  unfold expandLlgr
  simp only
  split
  · exact ⟨c, List.mem_singleton.mpr rfl, h⟩
  · rename_i hne
    cases hl : (c.paths.filter (sameAddr addr)).map (·.lpid) with
    | nil => rw [hl] at hne; simp at hne
    | cons pid l =>
      refine ⟨_, by simp only [expandGo]; exact List.mem_cons_self, ?_⟩
      simp [h]

theorem mem_expandOpt {addr : Nat} {oc : Option Change} {ch : Change} (h : ch ∈ expandOpt m addr oc) :
    ∃ c, oc = some c ∧ ch.fam = c.fam ∧ ch.net = c.net ∧ ch.destId = c.destId ∧ ch.paths = c.paths := by
  cases oc with
  | none => simp [expandOpt] at h
  | some c =>
    refine ⟨c, rfl, ?_⟩
    simp only [expandOpt] at h
    split at h
    · exact mem_expandLlgr h
    · rw [List.mem_singleton.mp h]; exact ⟨rfl, rfl, rfl, rfl⟩

theorem expandOpt_any {addr : Nat} {c : Change} (h : c.any = true) :
    ∃ ch ∈ expandOpt m addr (some c), ch.any = true := by
  simp only [expandOpt]
  split
  · exact expandLlgr_any h
  · exact ⟨c, List.mem_singleton.mpr rfl, h⟩

theorem expandOpt_best {addr : Nat} {c : Change} (h : c.best = true) :
    ∃ ch ∈ expandOpt m addr (some c), ch.best = true := by
  simp only [expandOpt]
  split
  · exact expandLlgr_best h
  · exact ⟨c, List.mem_singleton.mpr rfl, h⟩

theorem expandOpt_false_length (addr : Nat) (oc : Option Change) : (expandOpt false addr oc).length ≤ 1 := by
  cases oc <;> simp [expandOpt]

/-! ## tables -/

theorem rib_setRib_self (t : Table) (f : Fam) (r : Rib) : (t.setRib f r).rib f = r := by
  cases f <;> rfl

theorem rib_setRib_ne (t : Table) {f f' : Fam} (h : f' ≠ f) (r : Rib) : (t.setRib f r).rib f' = t.rib f' := by
  cases f <;> cases f' <;> first | rfl | exact absurd rfl h

theorem filterMap_none' {α β : Type} (l : List α) : l.filterMap (fun _ => (none : Option β)) = [] := by
  induction l with
  | nil => rfl
  | cons a l ih => rw [List.filterMap_cons]; exact ih

/-- notifications of a step that reports about one family only -/
theorem chs_single (t : Table) (fam : Fam) (H : Net × Dest → Option Change) :
    (t.rib fam).dests.filterMap H
      = (t.rib .v4).dests.filterMap (fun nd => if Fam.v4 = fam then H nd else none)
        ++ (t.rib .ev).dests.filterMap (fun nd => if Fam.ev = fam then H nd else none) := by
  cases fam
  · have e1 : (fun nd => if Fam.v4 = Fam.v4 then H nd else none) = H := by funext nd; rw [if_pos rfl]
    have e2 : (fun nd : Net × Dest => if Fam.ev = Fam.v4 then H nd else none) = fun _ => none := by
      funext nd; rw [if_neg (by decide)]
    rw [e1, e2, filterMap_none', List.append_nil]
  · have e1 : (fun nd => if Fam.ev = Fam.ev then H nd else none) = H := by funext nd; rw [if_pos rfl]
    have e2 : (fun nd : Net × Dest => if Fam.v4 = Fam.ev then H nd else none) = fun _ => none := by
      funext nd; rw [if_neg (by decide)]
    rw [e1, e2, filterMap_none', List.nil_append]

theorem filterMap_unless {α β : Type} (b : Bool) (l : List α) (K : α → Option β) :
    (if b = true then [] else l.filterMap K) = l.filterMap fun a => if b = true then none else K a := by
  cases b
  · simp
  · simp

theorem flatMap_nil' {α β : Type} (l : List α) : l.flatMap (fun _ => ([] : List β)) = [] := by
  induction l with
  | nil => rfl
  | cons a l ih => rw [List.flatMap_cons]; exact ih

theorem chs_single_flat (t : Table) (fam : Fam) (H : Net × Dest → List Change) :
    (t.rib fam).dests.flatMap H
      = (t.rib .v4).dests.flatMap (fun nd => if Fam.v4 = fam then H nd else [])
        ++ (t.rib .ev).dests.flatMap (fun nd => if Fam.ev = fam then H nd else []) := by
  cases fam
  · have e1 : (fun nd => if Fam.v4 = Fam.v4 then H nd else []) = H := by funext nd; rw [if_pos rfl]
    have e2 : (fun nd : Net × Dest => if Fam.ev = Fam.v4 then H nd else []) = fun _ => [] := by
      funext nd; rw [if_neg (by decide)]
    rw [e1, e2, flatMap_nil', List.append_nil]
  · have e1 : (fun nd => if Fam.ev = Fam.ev then H nd else []) = H := by funext nd; rw [if_pos rfl]
    have e2 : (fun nd : Net × Dest => if Fam.v4 = Fam.ev then H nd else []) = fun _ => [] := by
      funext nd; rw [if_neg (by decide)]
    rw [e1, e2, flatMap_nil', List.nil_append]

theorem flatMap_unless {α β : Type} (b : Bool) (l : List α) (K : α → List β) :
    (if b = true then [] else l.flatMap K) = l.flatMap fun a => if b = true then [] else K a := by
  cases b
  · simp
  · simp [flatMap_nil']

/-! ## `restale` / `restale_llgr` -/

theorem restaleGen_eq (t : Table) (addr : Nat) (fam : Fam) (m : Bool) :
    t.restaleGen addr fam m =
      ({ (t.setRib fam { t.rib fam with dests := (restaleLoop fam addr m (t.rib fam).dests t.flags).2.1 }) with
           stale := (restaleLoop fam addr m (t.rib fam).dests t.flags).1.stale,
           llgr := (restaleLoop fam addr m (t.rib fam).dests t.flags).1.llgr },
       .changes (if (t.rib fam).deferring then []
                 else (restaleLoop fam addr m (t.rib fam).dests t.flags).2.2)) := rfl

/-- the source ids `restale addr fam` may mark: sources of the peer that are bound to the family -/
def PeerId (c : Case) (g : Nat → Fam) (addr : Nat) (fam : Fam) (i : Nat) : Prop :=
  ∃ s, c.srcs[i]? = some s ∧ s.addr = addr ∧ g i = fam

theorem peerId_iff {c : Case} {g : Nat → Fam} {addr : Nat} {fam : Fam} {e : Entry}
    (h : e.src.WF c ∧ g e.src.id = fam) : sameAddr addr e = true ↔ PeerId c g addr fam e.src.id := by
  unfold sameAddr PeerId
  constructor
  · intro h1
    exact ⟨e.src, h.1, by simpa using h1, h.2⟩
  · rintro ⟨s, h1, h2, -⟩
    have : s = e.src := by
      have := h.1; unfold Src.WF at this; rw [this] at h1; exact (Option.some.inj h1).symm
    rw [this] at h2
    simpa using h2

theorem not_peerId_of_fam {c : Case} {g : Nat → Fam} {addr : Nat} {fam f : Fam} {i : Nat}
    (h : g i = f) (hf : f ≠ fam) : ¬ PeerId c g addr fam i := by
  rintro ⟨s, -, -, h3⟩
  exact hf (h.symm.trans h3)

theorem restaleGen_sound {c : Case} {g : Nat → Fam} {t : Table} (addr : Nat) (fam : Fam) (m : Bool)
    (op : Op) (hop1 : ∀ f, op.isEndDeferral f = false) (hop2 : ∀ f, op.isStartDeferral f = false)
    (hm : op.isRestaleLlgr = false → m = false) (hinv : Inv c g t) :
    Inv c g (t.restaleGen addr fam m).1 ∧
      StepFacts t op (t.restaleGen addr fam m).1 (t.restaleGen addr fam m).2 := by
  have hP : ∀ nd ∈ (t.rib fam).dests, ∀ e ∈ nd.2.entries,
      sameAddr addr e = true ↔ PeerId c g addr fam e.src.id :=
    fun nd hnd e he => peerId_iff (((hinv.rib fam).dest nd hnd).srcOk e he)
  have s := restaleLoop_spec fam addr m (PeerId c g addr fam) (t.rib fam).dests t.flags hP
  rw [restaleGen_eq]
  generalize restaleLoop fam addr m (t.rib fam).dests t.flags = res at s
  obtain ⟨FL, ds, cs⟩ := res
  simp only at s ⊢
  -- the mapping
  let F : Fam → Net × Dest → Net × Dest := fun f nd => if f = fam then (rd fam addr m FL nd).1 else nd
  let G : Fam → Net × Dest → List Change := fun f nd =>
    if f = fam then (if (t.rib fam).deferring = true then [] else expandOpt m addr (rd fam addr m FL nd).2) else []
  generalize ht' : ({ (t.setRib fam { t.rib fam with dests := ds }) with stale := FL.stale, llgr := FL.llgr } : Table) = t'
  have hflags : t'.flags = FL := by rw [← ht']; rfl
  have hrib : ∀ f, t'.rib f = (t.setRib fam { t.rib fam with dests := ds }).rib f := by
    intro f; rw [← ht']; cases f <;> rfl
  have hd : ∀ f, (t'.rib f).dests = (t.rib f).dests.map (F f) := by
    intro f
    rw [hrib]
    by_cases hf : f = fam
    · subst hf
      rw [rib_setRib_self]
      have : F f = fun nd => (rd f addr m FL nd).1 := by funext nd; simp only [F, if_pos]
      rw [this]; exact (s.dests : ds = _)
    · rw [rib_setRib_ne t hf]
      have : F f = fun nd => nd := by funext nd; simp only [F, if_neg hf]
      rw [this, List.map_id']
  have hu : ∀ f, (t'.rib f).used = (t.rib f).used := by
    intro f
    rw [hrib]
    by_cases hf : f = fam
    · subst hf; rw [rib_setRib_self]
    · rw [rib_setRib_ne t hf]
  have hdefr : ∀ f, (t'.rib f).deferring = (t.rib f).deferring := by
    intro f
    rw [hrib]
    by_cases hf : f = fam
    · subst hf; rw [rib_setRib_self]
    · rw [rib_setRib_ne t hf]
  -- flags of entries that are not of the peer (in this family) are unchanged
  have hag : ∀ f, ∀ nd ∈ (t.rib f).dests, ∀ e ∈ nd.2.entries, (f = fam → sameAddr addr e = false) →
      FlAgree t.flags FL e.src.id := by
    intro f nd hnd e he h
    apply s.agree
    have hs := ((hinv.rib f).dest nd hnd).srcOk e he
    by_cases hf : f = fam
    · subst hf
      intro hp
      have := (peerId_iff (addr := addr) hs).mpr hp
      rw [h rfl] at this; exact absurd this (by simp)
    · exact not_peerId_of_fam hs.2 hf
  have hFok : ∀ f, ∀ nd ∈ (t.rib f).dests, DestOk t'.flags nd (F f nd) := by
    intro f nd hnd
    rw [hflags]
    have hi := (hinv.rib f).dest nd hnd
    by_cases hf : f = fam
    · subst hf
      simp only [F, if_pos]
      apply rd_destOk hi
      intro ht e he
      exact hag f nd hnd e he fun _ => by
        cases h : sameAddr addr e
        · rfl
        · exact absurd (List.any_eq_true.mpr ⟨e, he, h⟩) (by rw [ht]; simp)
    · simp only [F, if_neg hf]
      exact DestOk.refl (hi.sorted.agree fun e he => hag f nd hnd e he fun h => absurd h hf)
  refine ⟨hinv.mapDests hd hu hFok (by rw [← ht']; cases fam <;> rfl) (by rw [← ht']; cases fam <;> rfl), ?_⟩
  refine stepFacts_of_flatMap (F := F) (G := G) hd ?_ (fun f => (hinv.rib f).keys) ?_ ?_ ?_ ?_ ?_ ?_ ?_ ?_
  · show (if (t.rib fam).deferring = true then [] else cs) = _
    have hcs : cs = _ := s.chs
    rw [hcs, flatMap_unless, chs_single_flat t fam]
  · intro f nd
    by_cases hf : f = fam
    · simp only [F, if_pos hf]; exact rd_key fam addr FL nd
    · simp only [F, if_neg hf]; exact ⟨trivial, trivial⟩
  · intro f nd ch h
    by_cases hf : f = fam
    · subst hf
      simp only [G, F, if_pos] at h ⊢
      split at h
      · exact absurd h (by simp)
      · obtain ⟨c0, hc0, h1, h2, h3, h4⟩ := mem_expandOpt h
        obtain ⟨g1, g2, g3, g4⟩ := rd_change hc0
        exact ⟨h1.trans g1, h2.trans g2, h3.trans g3, h4.trans g4⟩
    · simp only [G, if_neg hf] at h; exact absurd h (by simp)
  · intro hop f nd
    have hm0 := hm hop
    by_cases hf : f = fam
    · simp only [G, if_pos hf]
      split
      · simp
      · rw [hm0]; exact expandOpt_false_length addr _
    · simp only [G, if_neg hf]; simp
  · intro f hdf nd hnd hne
    have hi := (hinv.rib f).dest nd hnd
    by_cases hf : f = fam
    · subst hf
      simp only [G, F, if_pos] at hne ⊢
      rw [hdf]
      simp only [Bool.false_eq_true, if_false]
      obtain ⟨c0, hc0, hany⟩ := rd_any (m := m) hi (fun e he h => hag f nd hnd e he fun _ => h) hne
      rw [hc0]; exact expandOpt_any hany
    · simp only [F, if_neg hf] at hne; exact absurd rfl hne
  · intro f hdf nd hnd hne
    have hi := (hinv.rib f).dest nd hnd
    by_cases hf : f = fam
    · subst hf
      simp only [G, F, if_pos] at hne ⊢
      rw [hdf]
      simp only [Bool.false_eq_true, if_false]
      obtain ⟨c0, hc0, hb⟩ := rd_best (m := m) hi hne
      rw [hc0]; exact expandOpt_best hb
    · simp only [F, if_neg hf] at hne; exact absurd rfl hne
  · intro f hdf _ nd
    by_cases hf : f = fam
    · subst hf; simp only [G, if_pos]; rw [hdf]; rfl
    · simp only [G, if_neg hf]
  · intro f h; rw [hop1 f] at h; exact absurd h (by simp)
  · intro f; rw [hop1 f, hop2 f]; exact hdefr f

end Rbgp.Rib
