/-
  Rbgp.Rib.InvInsert — `Table::insert` and `Table::remove` never panic on a reachable table, keep the
  invariant, and tell their consumers everything they changed (`StepSound` for the two operations).
-/
import Rbgp.Rib.Lemmas
namespace Rbgp.Rib

def Op.isInsertOrRemove : Op → Prop
  | .insert .. => True
  | .remove .. => True
  | _ => False

/-! ## `as_path_length` of a decoded AS_PATH -/

theorem hopsOf_nil : hopsOf [] = 0 := by simp [hopsOf]
theorem hopsOf_cons (t l : Nat) (rest : List Nat) :
    hopsOf (t :: l :: rest) = (match t with | 1 => 1 | 2 => l | _ => 0) + hopsOf (rest.drop (l * 4)) := by
  rw [hopsOf.eq_def]; rfl
theorem asPathLengthAux_cons (p : Profile) (t l : Nat) (rest : List Nat) (acc : Nat) :
    asPathLengthAux p (t :: l :: rest) acc =
      match (match t with
        | 1 => addUsize p acc 1
        | 2 => addUsize p acc l
        | 3 => Out.ok acc
        | 4 => Out.ok acc
        | _ => Out.panic) with
      | .panic => .panic
      | .ok acc' => asPathLengthAux p (rest.drop (l * 4)) acc' := by
  rw [asPathLengthAux.eq_def]; rfl

theorem asPathLengthAux_ok (p : Profile) : ∀ (n : Nat) (bs : List Nat) (acc : Nat), bs.length ≤ n →
    asPathWf bs = true → acc + bs.length < U64 →
    asPathLengthAux p bs acc = .ok (acc + hopsOf bs) := by
  intro n
  induction n with
  | zero =>
    intro bs acc hn _ _
    have : bs = [] := List.length_eq_zero_iff.mp (by omega)
    subst this
    rw [asPathLengthAux, hopsOf_nil]; rfl
  | succ n ih =>
    intro bs acc hn hwf hlt
    match bs, hn, hwf, hlt with
    | [], _, _, _ => rw [asPathLengthAux, hopsOf_nil]; rfl
    | [_], _, hwf, _ => rw [asPathWf] at hwf; exact absurd hwf (by simp)
    | t :: l :: rest, hn, hwf, hlt =>
      rw [asPathWf] at hwf
      simp only [Bool.and_eq_true, decide_eq_true_eq] at hwf
      obtain ⟨⟨⟨h1, h4⟩, hl⟩, hrest⟩ := hwf
      simp only [List.length_cons] at hn hlt
      have hdl : (rest.drop (l * 4)).length = rest.length - l * 4 := List.length_drop
      rw [asPathLengthAux_cons, hopsOf_cons]
      have hcases : t = 1 ∨ t = 2 ∨ t = 3 ∨ t = 4 := by omega
      rcases hcases with rfl | rfl | rfl | rfl
      · have : addUsize p acc 1 = .ok (acc + 1) := by
          unfold addUsize; rw [if_pos (by omega)]
        simp only [this]
        rw [ih _ _ (by omega) hrest (by omega)]
        congr 1; omega
      · have : addUsize p acc l = .ok (acc + l) := by
          unfold addUsize; rw [if_pos (by omega)]
        simp only [this]
        rw [ih _ _ (by omega) hrest (by omega)]
        congr 1; omega
      · simp only []
        rw [ih _ _ (by omega) hrest (by omega)]
        congr 1; omega
      · simp only []
        rw [ih _ _ (by omega) hrest (by omega)]
        congr 1; omega

theorem asPathLen_ok (p : Profile) (a : Attrs) (h : a.WF) : a.asPathLen p = .ok a.hops := by
  unfold Attrs.asPathLen Attrs.hops
  cases hb : a.asPath with
  | none => rfl
  | some bs =>
    obtain ⟨hw, hl⟩ := h.asPath bs hb
    simp only [asPathLength]
    rw [asPathLengthAux_ok p bs.length bs 0 (Nat.le_refl _) hw (by omega)]
    simp

/-! ## List facts -/

theorem eraseIdx_perm {α : Type} {l : List α} {i : Nat} {x : α} (h : l[i]? = some x) :
    l.Perm (x :: l.eraseIdx i) := by
  induction l generalizing i with
  | nil => simp at h
  | cons a l ih =>
    cases i with
    | zero =>
      simp only [List.getElem?_cons_zero, Option.some.injEq] at h
      subst h; simp
    | succ i =>
      simp only [List.getElem?_cons_succ] at h
      simp only [List.eraseIdx_cons_succ]
      exact (List.Perm.cons a (ih h)).trans (List.Perm.swap x a _)

theorem filter_eraseIdx_of_not {α : Type} {p : α → Bool} {l : List α} {i : Nat} {x : α}
    (h : l[i]? = some x) (hp : p x = false) : (l.eraseIdx i).filter p = l.filter p := by
  induction l generalizing i with
  | nil => simp at h
  | cons a l ih =>
    cases i with
    | zero =>
      simp only [List.getElem?_cons_zero, Option.some.injEq] at h
      subst h; simp [hp]
    | succ i =>
      simp only [List.getElem?_cons_succ] at h
      simp only [List.eraseIdx_cons_succ, List.filter_cons, ih h]

theorem mem_of_getElem? {α : Type} {l : List α} {i : Nat} {x : α} (h : l[i]? = some x) : x ∈ l :=
  List.mem_iff_getElem?.mpr ⟨i, h⟩

/-- pigeonhole: `m + 1` consecutive numbers do not fit in a shorter list -/
theorem pigeon : ∀ (m : Nat) (l : List Nat) (n : Nat), (∀ k, k ≤ m → n + k ∈ l) → m + 1 ≤ l.length := by
  intro m
  induction m with
  | zero =>
    intro l n h
    have := h 0 (Nat.le_refl _)
    cases l with
    | nil => simp at this
    | cons a l => simp
  | succ m ih =>
    intro l n h
    have hm : n + (m + 1) ∈ l := h (m + 1) (Nat.le_refl _)
    have h1 := ih (l.erase (n + (m + 1))) n (by
      intro k hk
      rw [List.mem_erase_of_ne (by omega)]
      exact h k (by omega))
    rw [List.length_erase_of_mem hm] at h1
    omega

theorem firstFree_used (used : List Nat) : ∀ (fuel n : Nat), firstFree used fuel n ∈ used →
    ∀ k, k ≤ fuel → n + k ∈ used := by
  intro fuel
  induction fuel with
  | zero =>
    intro n h k hk
    have : k = 0 := by omega
    subst this; simpa [firstFree] using h
  | succ fuel ih =>
    intro n h k hk
    simp only [firstFree] at h
    by_cases hc : used.contains n = true
    · rw [if_pos hc] at h
      cases k with
      | zero => simpa using hc
      | succ k =>
        have := ih (n + 1) h k (by omega)
        have e : n + (k + 1) = n + 1 + k := by omega
        rw [e]; exact this
    · rw [if_neg hc] at h
      exact absurd (by simpa using h) hc

/-- `IdAllocator::alloc` returns an id that is not in use -/
theorem allocId_not_mem (used : List Nat) : allocId used ∉ used := by
  intro h
  have := pigeon used.length used 0 (firstFree_used used used.length 0 h)
  omega

theorem pathIdLoop_eq_firstFree (es : List Entry) : ∀ (fuel n : Nat),
    pathIdLoop es fuel n = firstFree (es.map (·.lpid)) fuel n := by
  intro fuel
  induction fuel with
  | zero => intro n; rfl
  | succ fuel ih =>
    intro n
    simp only [pathIdLoop, firstFree, ih]
    have : (es.any fun e => e.lpid == n) = (es.map (·.lpid)).contains n := by
      rw [Bool.eq_iff_iff]; simp
    rw [this]

/-- `alloc_path_id` returns a local path id that no path of the destination uses -/
theorem pathIdLoop_not_mem (es : List Entry) (n : Nat) :
    pathIdLoop es es.length n ∉ es.map (·.lpid) := by
  intro h
  rw [pathIdLoop_eq_firstFree] at h
  have := pigeon es.length (es.map (·.lpid)) n (firstFree_used _ es.length n h)
  rw [List.length_map] at this
  omega

/-! ## `replaced_idx` -/

def matchKey (addr rpid : Nat) (e : Entry) : Bool := sameAddr addr e && e.rpid == rpid

theorem matchKey_iff {addr rpid : Nat} {e : Entry} :
    matchKey addr rpid e = true ↔ (e.src.addr, e.rpid) = (addr, rpid) := by
  simp [matchKey, sameAddr]

theorem replacedIdx_cons (addr rpid : Nat) (e : Entry) (l : List Entry) (i : Nat) (acc : Option Nat) :
    replacedIdx addr rpid (e :: l) i acc =
      replacedIdx addr rpid l (i + 1) (if matchKey addr rpid e then some i else acc) := rfl

theorem replacedIdx_none_of {addr rpid : Nat} : ∀ (es : List Entry) (k : Nat) (acc : Option Nat),
    (∀ e ∈ es, matchKey addr rpid e = false) → replacedIdx addr rpid es k acc = acc := by
  intro es
  induction es with
  | nil => intro k acc _; rfl
  | cons e l ih =>
    intro k acc h
    rw [replacedIdx_cons, h e List.mem_cons_self]
    simp only [Bool.false_eq_true, if_false]
    exact ih _ _ (fun x hx => h x (List.mem_cons_of_mem _ hx))

theorem replacedIdx_some_of {addr rpid : Nat} : ∀ (es : List Entry) (k : Nat) (acc : Option Nat) (i : Nat)
    (old : Entry), (es.map fun e => (e.src.addr, e.rpid)).Nodup → es[i]? = some old →
    matchKey addr rpid old = true → replacedIdx addr rpid es k acc = some (k + i) := by
  intro es
  induction es with
  | nil => intro k acc i old _ h; simp at h
  | cons e l ih =>
    intro k acc i old hn hi hm
    simp only [List.map_cons, List.nodup_cons] at hn
    rw [replacedIdx_cons]
    cases i with
    | zero =>
      simp only [List.getElem?_cons_zero, Option.some.injEq] at hi
      subst hi
      rw [hm, if_pos rfl]
      rw [replacedIdx_none_of]
      · rfl
      · intro x hx
        cases hx' : matchKey addr rpid x with
        | false => rfl
        | true =>
          exfalso
          apply hn.1
          rw [matchKey_iff.mp hm, ← matchKey_iff.mp hx']
          exact List.mem_map.mpr ⟨x, hx, rfl⟩
    | succ i =>
      simp only [List.getElem?_cons_succ] at hi
      rw [ih _ _ i old hn.2 hi hm]
      congr 1; omega

/-- what `insert` finds: nothing, or the one path with the same (peer address, remote path id) -/
theorem replacedIdx_spec (addr rpid : Nat) (es : List Entry)
    (hn : (es.map fun e => (e.src.addr, e.rpid)).Nodup) :
    (replacedIdx addr rpid es 0 none = none ∧ ∀ e ∈ es, matchKey addr rpid e = false) ∨
    (∃ i old, replacedIdx addr rpid es 0 none = some i ∧ es[i]? = some old ∧
      matchKey addr rpid old = true ∧ ∀ e ∈ es.eraseIdx i, matchKey addr rpid e = false) := by
  cases h : es.any (matchKey addr rpid) with
  | false =>
    have h' : ∀ e ∈ es, matchKey addr rpid e = false := by
      intro e he
      have := List.any_eq_false.mp h e he
      simpa using this
    exact Or.inl ⟨replacedIdx_none_of es 0 none h', h'⟩
  | true =>
    right
    obtain ⟨old, hmem, hm⟩ := List.any_eq_true.mp h
    obtain ⟨i, hi⟩ := List.mem_iff_getElem?.mp hmem
    refine ⟨i, old, ?_, hi, hm, ?_⟩
    · rw [replacedIdx_some_of es 0 none i old hn hi hm]; simp
    · intro x hx
      have hp := (eraseIdx_perm hi).map fun e : Entry => (e.src.addr, e.rpid)
      have hn' := hp.nodup hn
      simp only [List.map_cons, List.nodup_cons] at hn'
      cases hx' : matchKey addr rpid x with
      | false => rfl
      | true =>
        exfalso
        apply hn'.1
        rw [matchKey_iff.mp hm, ← matchKey_iff.mp hx']
        exact List.mem_map.mpr ⟨x, hx, rfl⟩

/-! ## More association-list facts -/

section Assoc
variable {κ ν : Type} [DecidableEq κ]

theorem aset_of_lookup_none {k : κ} (v : ν) {l : List (κ × ν)} (h : alookup k l = none) :
    aset k v l = l ++ [(k, v)] := by
  induction l with
  | nil => rfl
  | cons x l ih =>
    obtain ⟨k', v'⟩ := x
    by_cases hk : k' = k
    · simp [alookup, hk] at h
    · simp only [alookup, hk, if_false] at h
      simp [aset, hk, ih h]

theorem aerase_of_lookup_none {k : κ} {l : List (κ × ν)} (h : alookup k l = none) : aerase k l = l := by
  induction l with
  | nil => rfl
  | cons x l ih =>
    obtain ⟨k', v'⟩ := x
    by_cases hk : k' = k
    · simp [alookup, hk] at h
    · simp only [alookup, hk, if_false] at h
      simp [aerase, hk, ih h]

theorem aset_same {k : κ} {v : ν} {l : List (κ × ν)} (h : alookup k l = some v) : aset k v l = l := by
  induction l with
  | nil => simp [alookup] at h
  | cons x l ih =>
    obtain ⟨k', v'⟩ := x
    by_cases hk : k' = k
    · simp only [alookup, hk, if_true, Option.some.injEq] at h
      simp [aset, hk, h]
    · simp only [alookup, hk, if_false] at h
      simp [aset, hk, ih h]

theorem perm_aset (k : κ) (v : ν) (l : List (κ × ν)) : (aset k v l).Perm ((k, v) :: aerase k l) := by
  induction l with
  | nil => simp [aset, aerase]
  | cons x l ih =>
    obtain ⟨k', v'⟩ := x
    by_cases hk : k' = k
    · simp [aset, aerase, hk]
    · simp only [aset, aerase, hk, if_false]
      exact (List.Perm.cons _ ih).trans (List.Perm.swap _ _ _)

theorem perm_aerase {k : κ} {d : ν} {l : List (κ × ν)} (h : alookup k l = some d) :
    l.Perm ((k, d) :: aerase k l) := by
  have := perm_aset k d l
  rwa [aset_same h] at this

theorem map_aset_of_lookup {β : Type} (f : κ × ν → β) {k : κ} {v d : ν} {l : List (κ × ν)}
    (h : alookup k l = some d) (hf : f (k, v) = f (k, d)) : (aset k v l).map f = l.map f := by
  induction l with
  | nil => simp [alookup] at h
  | cons x l ih =>
    obtain ⟨k', v'⟩ := x
    by_cases hk : k' = k
    · simp only [alookup, hk, if_true, Option.some.injEq] at h
      subst h; subst hk
      simp [aset, hf]
    · simp only [alookup, hk, if_false] at h
      simp [aset, hk, ih h]

theorem aerase_keys_nodup {k : κ} {l : List (κ × ν)} (hn : (l.map (·.1)).Nodup) :
    ((aerase k l).map (·.1)).Nodup :=
  hn.sublist ((aerase_sublist k l).map _)

end Assoc

/-! ## `Table.setRib` -/

theorem setRib_rib_self (t : Table) (f : Fam) (r : Rib) : (t.setRib f r).rib f = r := by
  cases f <;> rfl

theorem setRib_rib_ne (t : Table) {f f' : Fam} (r : Rib) (h : f' ≠ f) : (t.setRib f r).rib f' = t.rib f' := by
  cases f <;> cases f' <;> first | rfl | exact absurd rfl h

theorem setRib_rib (t : Table) (f : Fam) : t.setRib f (t.rib f) = t := by
  cases f <;> rfl

@[simp] theorem setRib_stats (t : Table) (f : Fam) (r : Rib) : (t.setRib f r).stats = t.stats := by
  cases f <;> rfl
@[simp] theorem setRib_ctrs (t : Table) (f : Fam) (r : Rib) : (t.setRib f r).ctrs = t.ctrs := by
  cases f <;> rfl
@[simp] theorem setRib_stale (t : Table) (f : Fam) (r : Rib) : (t.setRib f r).stale = t.stale := by
  cases f <;> rfl
@[simp] theorem setRib_llgr (t : Table) (f : Fam) (r : Rib) : (t.setRib f r).llgr = t.llgr := by
  cases f <;> rfl

/-- the table after the rib of `f`, the statistics and the limit counters were written -/
def Table.upd (t : Table) (f : Fam) (r : Rib) (stats : List ((Nat × Fam) × (Nat × Nat)))
    (ctrs : List ((Nat × Fam) × Nat)) : Table :=
  { (t.setRib f r) with stats := stats, ctrs := ctrs }

theorem upd_rib_self (t : Table) (f : Fam) (r : Rib) (s c) : (t.upd f r s c).rib f = r := by
  cases f <;> rfl
theorem upd_rib_ne (t : Table) {f f' : Fam} (r : Rib) (s c) (h : f' ≠ f) : (t.upd f r s c).rib f' = t.rib f' := by
  cases f <;> cases f' <;> first | rfl | exact absurd rfl h
theorem upd_flags (t : Table) (f : Fam) (r : Rib) (s c) : (t.upd f r s c).flags = t.flags := by
  cases f <;> rfl
theorem upd_stats (t : Table) (f : Fam) (r : Rib) (s c) : (t.upd f r s c).stats = s := by
  cases f <;> rfl
theorem upd_ctrs (t : Table) (f : Fam) (r : Rib) (s c) : (t.upd f r s c).ctrs = c := by
  cases f <;> rfl

/-! ## Recounting the statistics -/

/-- contribution of one destination to `received` / `accepted` of a peer -/
def eR (addr : Nat) (es : List Entry) : Nat := if es.any (sameAddr addr) then 1 else 0
def eA (addr : Nat) (es : List Entry) : Nat := (es.filter fun e => sameAddr addr e && !e.filtered).length

theorem eR_perm {addr : Nat} {l l' : List Entry} (h : l.Perm l') : eR addr l = eR addr l' := by
  unfold eR; rw [h.any_eq]
theorem eA_perm {addr : Nat} {l l' : List Entry} (h : l.Perm l') : eA addr l = eA addr l' :=
  (h.filter _).length_eq
theorem eR_nil (addr : Nat) : eR addr [] = 0 := rfl
theorem eA_nil (addr : Nat) : eA addr [] = 0 := rfl
theorem eR_cons (addr : Nat) (e : Entry) (l : List Entry) :
    eR addr (e :: l) = if sameAddr addr e then 1 else eR addr l := by
  unfold eR; cases h : sameAddr addr e <;> simp [h]
theorem eA_cons (addr : Nat) (e : Entry) (l : List Entry) :
    eA addr (e :: l) = (if sameAddr addr e && !e.filtered then 1 else 0) + eA addr l := by
  unfold eA; rw [List.filter_cons]; split <;> simp <;> omega
theorem eR_le_one (addr : Nat) (l : List Entry) : eR addr l ≤ 1 := by
  unfold eR; split <;> omega
theorem eA_eq_zero_of_eR {addr : Nat} {l : List Entry} (h : eR addr l = 0) : eA addr l = 0 := by
  unfold eR at h
  have h' : l.any (sameAddr addr) = false := by
    cases hh : l.any (sameAddr addr) <;> simp_all
  unfold eA
  rw [List.length_eq_zero_iff, List.filter_eq_nil_iff]
  intro a ha
  have := List.any_eq_false.mp h' a ha
  simp [this]
theorem eR_pos_of_mem {addr : Nat} {l : List Entry} {e : Entry} (he : e ∈ l) (h : sameAddr addr e = true) :
    eR addr l = 1 := by
  unfold eR; rw [if_pos (List.any_eq_true.mpr ⟨e, he, h⟩)]

def recvL (addr : Nat) (l : List (Net × Dest)) : Nat :=
  (l.filter fun nd => nd.2.entries.any (sameAddr addr)).length
def accL (addr : Nat) (l : List (Net × Dest)) : Nat :=
  (l.map fun nd => (nd.2.entries.filter fun e => sameAddr addr e && !e.filtered).length).sum

theorem recvCount_eq (addr : Nat) (r : Rib) : recvCount addr r = recvL addr r.dests := rfl
theorem accCount_eq (addr : Nat) (r : Rib) : accCount addr r = accL addr r.dests := rfl

theorem recvL_perm {addr : Nat} {l l' : List (Net × Dest)} (h : l.Perm l') : recvL addr l = recvL addr l' :=
  (h.filter _).length_eq
theorem accL_perm {addr : Nat} {l l' : List (Net × Dest)} (h : l.Perm l') : accL addr l = accL addr l' :=
  (h.map _).sum_nat
theorem recvL_cons (addr : Nat) (nd : Net × Dest) (l : List (Net × Dest)) :
    recvL addr (nd :: l) = eR addr nd.2.entries + recvL addr l := by
  unfold recvL eR; rw [List.filter_cons]; split <;> simp <;> omega
theorem accL_cons (addr : Nat) (nd : Net × Dest) (l : List (Net × Dest)) :
    accL addr (nd :: l) = eA addr nd.2.entries + accL addr l := by
  unfold accL eA; simp

theorem recvL_eq_zero_iff {addr : Nat} {l : List (Net × Dest)} :
    recvL addr l = 0 ↔ ∀ nd ∈ l, nd.2.entries.any (sameAddr addr) = false := by
  unfold recvL
  rw [List.length_eq_zero_iff, List.filter_eq_nil_iff]
  constructor
  · intro h nd hnd; have := h nd hnd; simpa using this
  · intro h nd hnd; rw [h nd hnd]; simp

theorem accL_eq_zero_of_recvL {addr : Nat} {l : List (Net × Dest)} (h : recvL addr l = 0) : accL addr l = 0 := by
  induction l with
  | nil => rfl
  | cons nd l ih =>
    rw [recvL_cons] at h
    rw [accL_cons, ih (by omega), eA_eq_zero_of_eR (by omega)]

/-- the paths a prefix had before the step (`[]`: no destination) -/
def oldEs (net : Net) (dests : List (Net × Dest)) : List Entry :=
  match alookup net dests with
  | some d => d.entries
  | none => []

theorem dests_perm_old (net : Net) (dests : List (Net × Dest)) (addr : Nat) :
    recvL addr dests = eR addr (oldEs net dests) + recvL addr (aerase net dests) ∧
    accL addr dests = eA addr (oldEs net dests) + accL addr (aerase net dests) := by
  unfold oldEs
  cases h : alookup net dests with
  | none => simp only [aerase_of_lookup_none h, eR_nil, eA_nil, Nat.zero_add, and_self]
  | some d =>
    have hp := perm_aerase h
    rw [recvL_perm hp, accL_perm hp, recvL_cons, accL_cons]
    exact ⟨rfl, rfl⟩

/-- replacing (or creating) the destination of `net` moves the counts by its contribution -/
theorem counts_aset (net : Net) (d' : Dest) (dests : List (Net × Dest)) (addr : Nat) :
    recvL addr (aset net d' dests) + eR addr (oldEs net dests) = recvL addr dests + eR addr d'.entries ∧
    accL addr (aset net d' dests) + eA addr (oldEs net dests) = accL addr dests + eA addr d'.entries := by
  have h1 := dests_perm_old net dests addr
  have hp := perm_aset net d' dests
  rw [recvL_perm hp, accL_perm hp, recvL_cons, accL_cons, h1.1, h1.2]
  constructor <;> simp only [] <;> omega

theorem counts_aerase (net : Net) (dests : List (Net × Dest)) (addr : Nat) :
    recvL addr (aerase net dests) + eR addr (oldEs net dests) = recvL addr dests ∧
    accL addr (aerase net dests) + eA addr (oldEs net dests) = accL addr dests := by
  have h1 := dests_perm_old net dests addr
  rw [h1.1, h1.2]
  constructor <;> omega

/-- the statistics of a reachable table are the recount (absent = nothing to count) -/
theorem StatsInv.get {t : Table} (h : StatsInv t) (addr : Nat) (f : Fam) :
    statsGet t (addr, f) = (recvCount addr (t.rib f), accCount addr (t.rib f)) := by
  have := h addr f
  unfold statsGet
  cases hl : alookup (addr, f) t.stats with
  | some st => rw [hl] at this; exact this
  | none =>
    rw [hl] at this
    have h0 : recvL addr (t.rib f).dests = 0 := recvL_eq_zero_iff.mpr this
    simp only [recvCount_eq, accCount_eq, h0, accL_eq_zero_of_recvL h0]

theorem statsInv_update {t t' : Table} {fam : Fam} {a0 : Nat} {st : Nat × Nat} (h : StatsInv t)
    (hstats : t'.stats = aset (a0, fam) st t.stats)
    (hother : ∀ f, f ≠ fam → t'.rib f = t.rib f)
    (hcnt : ∀ addr, addr ≠ a0 → recvCount addr (t'.rib fam) = recvCount addr (t.rib fam) ∧
      accCount addr (t'.rib fam) = accCount addr (t.rib fam))
    (hst : st = (recvCount a0 (t'.rib fam), accCount a0 (t'.rib fam))) : StatsInv t' := by
  intro addr f
  by_cases hk : (addr, f) = (a0, fam)
  · cases hk
    rw [hstats, alookup_aset_self]; exact hst
  · rw [hstats, alookup_aset_ne hk]
    have h0 := h addr f
    have hc : recvCount addr (t'.rib f) = recvCount addr (t.rib f) ∧
        accCount addr (t'.rib f) = accCount addr (t.rib f) := by
      by_cases hf : f = fam
      · subst hf
        exact hcnt addr (fun e => hk (by rw [e]))
      · rw [hother f hf]; exact ⟨rfl, rfl⟩
    cases hl : alookup (addr, f) t.stats with
    | some s =>
      rw [hl] at h0
      simp only [hc.1, hc.2]; exact h0
    | none =>
      rw [hl] at h0
      simp only
      apply recvL_eq_zero_iff.mp
      rw [← recvCount_eq, hc.1, recvCount_eq]
      exact recvL_eq_zero_iff.mpr h0

/-! ## Ranked entry lists -/

theorem bestKey_eq_identOf_filter (es : List Entry) : bestKey es = identOf (es.filter Entry.eligible) := by
  unfold bestKey identOf
  rw [List.head?_filter]

theorem filter_insertSorted_of_not {p : Entry → Bool} (c : Entry → Entry → Ordering) {e : Entry}
    (hp : p e = false) (l : List Entry) : (insertSorted c e l).filter p = l.filter p := by
  induction l with
  | nil => simp [insertSorted, hp]
  | cons a l ih =>
    simp only [insertSorted]
    split
    · simp only [List.filter_cons, ih]
    · simp only [List.filter_cons, hp, Bool.false_eq_true, if_false]

/-- `DestInv` without the "not empty" part, on the entry list -/
structure EsInv (c : Case) (g : Nat → Fam) (fl : Flags) (f : Fam) (t2 : Bool) (es : List Entry) : Prop where
  pathKeys : (es.map fun e => (e.src.addr, e.rpid)).Nodup
  lpids : (es.map (·.lpid)).Nodup
  sorted : Sorted (cmpFor fl t2) es
  srcOk : ∀ e ∈ es, e.src.WF c ∧ g e.src.id = f
  attrOk : ∀ e ∈ es, e.attr.WF ∧ e.aslen = e.attr.hops

theorem DestInv.toEs {c g fl f net d} (h : DestInv c g fl f net d) : EsInv c g fl f net.t2 d.entries :=
  ⟨h.pathKeys, h.lpids, h.sorted, h.srcOk, h.attrOk⟩

theorem EsInv.toDest {c g fl f} {net : Net} {d : Dest} (h : EsInv c g fl f net.t2 d.entries) (hne : d.entries ≠ []) :
    DestInv c g fl f net d :=
  ⟨hne, h.pathKeys, h.lpids, h.sorted, h.srcOk, h.attrOk⟩

theorem EsInv.nil {c g fl f t2} : EsInv c g fl f t2 [] :=
  ⟨by simp, by simp, by simp [Sorted], by simp, by simp⟩

theorem EsInv.sublist {c g fl f t2} {es es' : List Entry} (h : EsInv c g fl f t2 es) (hs : es'.Sublist es) :
    EsInv c g fl f t2 es' :=
  ⟨h.pathKeys.sublist (hs.map _), h.lpids.sublist (hs.map _), h.sorted.sublist hs,
   fun e he => h.srcOk e (hs.subset he), fun e he => h.attrOk e (hs.subset he)⟩

theorem EsInv.insert {c g fl f t2} {es : List Entry} (h : EsInv c g fl f t2 es) (e : Entry)
    (hkey : ∀ x ∈ es, matchKey e.src.addr e.rpid x = false) (hlpid : e.lpid ∉ es.map (·.lpid))
    (hsrc : e.src.WF c ∧ g e.src.id = f) (hattr : e.attr.WF ∧ e.aslen = e.attr.hops) :
    EsInv c g fl f t2 (insertSorted (cmpFor fl t2) e es) := by
  have hp := insertSorted_perm (cmpFor fl t2) e es
  refine ⟨?_, ?_, insertSorted_sorted (cmpFor_lawful fl t2) e h.sorted, ?_, ?_⟩
  · refine ((hp.map _).nodup_iff).mpr ?_
    simp only [List.map_cons, List.nodup_cons]
    refine ⟨?_, h.pathKeys⟩
    intro hm
    obtain ⟨x, hx, hxe⟩ := List.mem_map.mp hm
    have := hkey x hx
    rw [matchKey_iff.mpr hxe] at this
    exact absurd this (by simp)
  · refine ((hp.map _).nodup_iff).mpr ?_
    simp only [List.map_cons, List.nodup_cons]
    exact ⟨hlpid, h.lpids⟩
  · intro x hx
    rcases mem_insertSorted.mp hx with rfl | hx
    · exact hsrc
    · exact h.srcOk x hx
  · intro x hx
    rcases mem_insertSorted.mp hx with rfl | hx
    · exact hattr
    · exact h.attrOk x hx

theorem insertSorted_ne_nil (c : Entry → Entry → Ordering) (e : Entry) (l : List Entry) : insertSorted c e l ≠ [] := by
  intro h
  have : e ∈ insertSorted c e l := mem_insertSorted.mpr (Or.inl rfl)
  rw [h] at this; simp at this

/-! ## The plan of `insert` -/

def planBase (r : Rib) (net : Net) : Rib × Dest :=
  match alookup net r.dests with
  | some d => (r, d)
  | none => ({ r with used := allocId r.used :: r.used }, { entries := [], next := 1, id := allocId r.used })

def mkPlan (rib : Rib) (dst : Dest) (addr rpid sid : Nat) : InsPlan :=
  { rib, dst, oldBest := bestKey dst.entries,
    replaced := match replacedIdx addr rpid dst.entries 0 none with
      | some i => dst.entries[i]?
      | none => none,
    entries := match replacedIdx addr rpid dst.entries 0 none with
      | some i => dst.entries.eraseIdx i
      | none => dst.entries,
    isNew := (match replacedIdx addr rpid dst.entries 0 none with
      | some i => dst.entries[i]?
      | none => none).isNone && !(dst.entries.any fun e => sameAddr addr e && !(e.rpid == rpid)),
    sessHas := dst.entries.any fun e => e.src.id == sid }

theorem insertPlan_eq (t : Table) (src : Src) (fam : Fam) (net : Net) (rpid : Nat) :
    insertPlan t src fam net rpid =
      mkPlan (planBase (t.rib fam) net).1 (planBase (t.rib fam) net).2 src.addr rpid src.id := by
  unfold insertPlan planBase mkPlan
  cases h : alookup net (t.rib fam).dests <;> simp only [h] <;> rfl

/-- the two ways a plan can look -/
inductive PlanSpec (dst : Dest) (addr rpid : Nat) (pl : InsPlan) : Prop where
  | fresh (hr : pl.replaced = none) (he : pl.entries = dst.entries)
      (hk : ∀ e ∈ dst.entries, matchKey addr rpid e = false)
      (hn : pl.isNew = !(dst.entries.any (sameAddr addr)))
  | repl (i : Nat) (old : Entry) (hr : pl.replaced = some old) (he : pl.entries = dst.entries.eraseIdx i)
      (hi : dst.entries[i]? = some old) (hm : matchKey addr rpid old = true)
      (hk : ∀ e ∈ dst.entries.eraseIdx i, matchKey addr rpid e = false) (hn : pl.isNew = false)

theorem mkPlan_spec (rib : Rib) (dst : Dest) (addr rpid sid : Nat)
    (hn : (dst.entries.map fun e => (e.src.addr, e.rpid)).Nodup) :
    PlanSpec dst addr rpid (mkPlan rib dst addr rpid sid) := by
  rcases replacedIdx_spec addr rpid dst.entries hn with ⟨h, hk⟩ | ⟨i, old, h, hi, hm, hk⟩
  · refine .fresh ?_ ?_ hk ?_
    · simp only [mkPlan, h]
    · simp only [mkPlan, h]
    · simp only [mkPlan, h, Option.isNone_none, Bool.true_and]
      congr 1
      rw [Bool.eq_iff_iff, List.any_eq_true, List.any_eq_true]
      constructor
      · rintro ⟨x, hx, hxp⟩
        simp only [Bool.and_eq_true] at hxp
        exact ⟨x, hx, hxp.1⟩
      · rintro ⟨x, hx, hxp⟩
        refine ⟨x, hx, ?_⟩
        have := hk x hx
        simp only [matchKey, hxp, Bool.true_and] at this
        simp [hxp, this]
  · refine .repl i old ?_ ?_ hi hm hk ?_
    · simp only [mkPlan, h, hi]
    · simp only [mkPlan, h]
    · simp only [mkPlan, h, hi, Option.isNone_some, Bool.false_and]

theorem mkPlan_rib (rib : Rib) (dst : Dest) (addr rpid sid : Nat) : (mkPlan rib dst addr rpid sid).rib = rib := rfl
theorem mkPlan_dst (rib : Rib) (dst : Dest) (addr rpid sid : Nat) : (mkPlan rib dst addr rpid sid).dst = dst := rfl
theorem mkPlan_oldBest (rib : Rib) (dst : Dest) (addr rpid sid : Nat) :
    (mkPlan rib dst addr rpid sid).oldBest = bestKey dst.entries := rfl
theorem mkPlan_sessHas (rib : Rib) (dst : Dest) (addr rpid sid : Nat) :
    (mkPlan rib dst addr rpid sid).sessHas = dst.entries.any fun e => e.src.id == sid := rfl

/-! ## What `insert` writes -/

def newLpid (pl : InsPlan) : Nat :=
  match pl.replaced with
  | some old => old.lpid
  | none => pathIdLoop pl.entries pl.entries.length (if pl.entries.isEmpty then 1 else pl.dst.next)

def newNext (pl : InsPlan) : Nat :=
  match pl.replaced with
  | some _ => pl.dst.next
  | none => newLpid pl + 1

def newEntry (pl : InsPlan) (src : Src) (nh : Option Nat) (attr : Attrs) (rpid : Nat) (filtered nhInv : Bool)
    (aslen : Nat) : Entry :=
  { lpid := newLpid pl, src, nh, attr, rpid, filtered, nhInv, aslen }

def insAny (pl : InsPlan) (filtered : Bool) : Bool :=
  !filtered || (match pl.replaced with | some r => !r.filtered | none => false)

def insDest (fl : Flags) (net : Net) (pl : InsPlan) (e : Entry) : Dest :=
  { entries := insertSorted (cmpFor fl net.t2) e pl.entries, next := newNext pl, id := pl.dst.id }

def insRib (net : Net) (pl : InsPlan) (d : Dest) : Rib :=
  { pl.rib with dests := aset net d pl.rib.dests }

def insTable (t : Table) (src : Src) (fam : Fam) (net : Net) (pl : InsPlan) (e : Entry) (st : Nat × Nat) : Table :=
  t.upd fam (insRib net pl (insDest t.flags net pl e)) (aset (src.addr, fam) st t.stats)
    (if !pl.sessHas && src.lim.isSome then aset (src.id, fam) (atomicInc (t.ctr (src.id, fam))) t.ctrs else t.ctrs)

def insChange (fam : Fam) (net : Net) (pl : InsPlan) (filtered : Bool) (es : List Entry) : Change :=
  { fam, net, destId := pl.dst.id, best := pl.oldBest != bestKey es, any := insAny pl filtered,
    replaced := pl.replaced.map (·.lpid), paths := es.filter Entry.eligible }

theorem insertCommit_eq (t : Table) (src : Src) (fam : Fam) (net : Net) (rpid : Nat) (nh : Option Nat)
    (attr : Attrs) (filtered nhInv : Bool) (pl : InsPlan) (aslen : Nat) (st : Nat × Nat) :
    insertCommit t src fam net rpid nh attr filtered nhInv pl aslen st =
      if pl.rib.deferring || (!(pl.oldBest != bestKey (insDest t.flags net pl
            (newEntry pl src nh attr rpid filtered nhInv aslen)).entries) && !insAny pl filtered) then
        (insTable t src fam net pl (newEntry pl src nh attr rpid filtered nhInv aslen) st, .noChange)
      else
        (insTable t src fam net pl (newEntry pl src nh attr rpid filtered nhInv aslen) st,
         .changed (insChange fam net pl filtered (insDest t.flags net pl
            (newEntry pl src nh attr rpid filtered nhInv aslen)).entries)) := by
  obtain ⟨rib, dst, ob, replaced, entries, isNew, sessHas⟩ := pl
  cases replaced <;> rfl

/-! ## Steps that touch one prefix -/

theorem elig_eq_oldEs (t : Table) (f : Fam) (n : Net) :
    t.elig f n = (oldEs n (t.rib f).dests).filter Entry.eligible := by
  unfold Table.elig oldEs
  cases alookup n (t.rib f).dests <;> rfl

theorem elig_of_lookup_eq {t t' : Table} {f : Fam} {n : Net}
    (h : alookup n (t'.rib f).dests = alookup n (t.rib f).dests) : t'.elig f n = t.elig f n := by
  unfold Table.elig; rw [h]

theorem destId_of_lookup_eq {t t' : Table} {f : Fam} {n : Net}
    (h : alookup n (t'.rib f).dests = alookup n (t.rib f).dests) : t'.destId f n = t.destId f n := by
  unfold Table.destId; rw [h]

theorem stepFacts_single {t t' : Table} {op : Op} {r : Res} {fam : Fam} {net : Net}
    (hop : ∀ f, op.isStartDeferral f = false ∧ op.isEndDeferral f = false)
    (hother : ∀ f n, (f ≠ fam ∨ n ≠ net) → alookup n (t'.rib f).dests = alookup n (t.rib f).dests)
    (hdef : ∀ f, (t'.rib f).deferring = (t.rib f).deferring)
    (hchs : r.chs = [] ∨ ∃ ch, r.chs = [ch] ∧ ch.fam = fam ∧ ch.net = net ∧ ch.paths = t'.elig fam net ∧
      (t'.destId fam net = some ch.destId ∨ (t'.destId fam net = none ∧ t.destId fam net = some ch.destId)))
    (hid : ∀ i, t.destId fam net = some i → t'.destId fam net = some i ∨ t'.destId fam net = none)
    (hany : (t.rib fam).deferring = false → t.elig fam net ≠ t'.elig fam net →
      ∃ ch ∈ r.chs, ch.fam = fam ∧ ch.net = net ∧ ch.any = true)
    (hbest : (t.rib fam).deferring = false → identOf (t.elig fam net) ≠ identOf (t'.elig fam net) →
      ∃ ch ∈ r.chs, ch.fam = fam ∧ ch.net = net ∧ ch.best = true)
    (hsilent : (t.rib fam).deferring = true → r.chs = []) : StepFacts t op t' r := by
  have hfn : ∀ ch ∈ r.chs, ch.fam = fam ∧ ch.net = net := by
    intro ch hch
    rcases hchs with h | ⟨ch0, h, hf, hn, _, _⟩
    · rw [h] at hch; simp at hch
    · rw [h] at hch; simp only [List.mem_singleton] at hch; subst hch; exact ⟨hf, hn⟩
  have hsame : ∀ f n, ¬ (f = fam ∧ n = net) → f ≠ fam ∨ n ≠ net := by
    intro f n h
    by_cases hf : f = fam
    · exact Or.inr (fun hn => h ⟨hf, hn⟩)
    · exact Or.inl hf
  refine ⟨?_, ?_, ?_, ?_, ?_, ?_, ?_, ?_, ?_⟩
  · intro ch hch
    rcases hchs with h | ⟨ch0, h, hf, hn, hp, _⟩
    · rw [h] at hch; simp at hch
    · rw [h] at hch; simp only [List.mem_singleton] at hch; subst hch; rw [hf, hn]; exact hp
  · intro ch hch
    rcases hchs with h | ⟨ch0, h, hf, hn, _, hi⟩
    · rw [h] at hch; simp at hch
    · rw [h] at hch; simp only [List.mem_singleton] at hch; subst hch; rw [hf, hn]; exact hi
  · rcases hchs with h | ⟨ch0, h, _⟩ <;> rw [h] <;> simp
  · intro f n i hi
    by_cases h : f = fam ∧ n = net
    · obtain ⟨rfl, rfl⟩ := h; exact hid i hi
    · left; rw [destId_of_lookup_eq (hother f n (hsame f n h))]; exact hi
  · intro f n hd hne
    by_cases h : f = fam ∧ n = net
    · obtain ⟨rfl, rfl⟩ := h; exact hany hd hne
    · exact absurd (elig_of_lookup_eq (hother f n (hsame f n h))).symm hne
  · intro f n hd hne
    by_cases h : f = fam ∧ n = net
    · obtain ⟨rfl, rfl⟩ := h; exact hbest hd hne
    · rw [elig_of_lookup_eq (hother f n (hsame f n h))] at hne; exact absurd rfl hne
  · intro f hd _ ch hch hf
    have h1 := (hfn ch hch).1
    rw [hf] at h1; subst h1
    rw [hsilent hd] at hch; simp at hch
  · intro f he; rw [(hop f).2] at he; exact absurd he (by simp)
  · intro f; rw [(hop f).1, (hop f).2]; simp only [Bool.false_eq_true, if_false]; exact hdef f

/-- a step that leaves the table alone and reports nothing -/
theorem stepFacts_same {t : Table} {op : Op} {r : Res}
    (hop : ∀ f, op.isStartDeferral f = false ∧ op.isEndDeferral f = false) (hr : r.chs = []) :
    StepFacts t op t r :=
  stepFacts_single (fam := .v4) (net := ⟨false, 0⟩) hop (fun _ _ _ => rfl) (fun _ => rfl) (Or.inl hr)
    (fun _ h => Or.inl h) (fun _ h => absurd rfl h) (fun _ h => absurd rfl h) (fun _ => hr)

theorem lookup_upd {t : Table} {fam : Fam} {net : Net} {r' : Rib} (s c)
    (hd : ∀ n, n ≠ net → alookup n r'.dests = alookup n (t.rib fam).dests) (f : Fam) (n : Net)
    (h : f ≠ fam ∨ n ≠ net) : alookup n ((t.upd fam r' s c).rib f).dests = alookup n (t.rib f).dests := by
  by_cases hf : f = fam
  · subst hf
    rw [upd_rib_self]
    rcases h with h | h
    · exact absurd rfl h
    · exact hd n h
  · rw [upd_rib_ne _ _ _ _ hf]

/-! ## The rib after a destination was written or erased -/

theorem RibInv.lookup {c g fl f} {r : Rib} (hr : RibInv c g fl f r) {net : Net} {d : Dest}
    (h : alookup net r.dests = some d) : DestInv c g fl f net d :=
  hr.dest (net, d) (alookup_some_mem h)

theorem ribInv_aset_some {c g fl f} {r : Rib} (hr : RibInv c g fl f r) {net : Net} {d d1 : Dest}
    (h : alookup net r.dests = some d) (hid : d1.id = d.id) (hd1 : DestInv c g fl f net d1) :
    RibInv c g fl f { r with dests := aset net d1 r.dests } := by
  have hids : (aset net d1 r.dests).map (·.2.id) = r.dests.map (·.2.id) :=
    map_aset_of_lookup (fun nd : Net × Dest => nd.2.id) h hid
  refine ⟨aset_keys_nodup d1 hr.keys, ?_, ?_, ?_⟩
  · show ((aset net d1 r.dests).map (·.2.id)).Nodup
    rw [hids]; exact hr.ids
  · show r.used.Perm ((aset net d1 r.dests).map (·.2.id))
    rw [hids]; exact hr.used
  · intro nd hnd
    rcases mem_aset hnd with rfl | hnd
    · exact hd1
    · exact hr.dest nd hnd

theorem ribInv_aset_none {c g fl f} {r : Rib} (hr : RibInv c g fl f r) {net : Net} {d1 : Dest}
    (h : alookup net r.dests = none) (hid : d1.id = allocId r.used) (hd1 : DestInv c g fl f net d1) :
    RibInv c g fl f { r with dests := aset net d1 r.dests, used := allocId r.used :: r.used } := by
  have hnew : allocId r.used ∉ r.dests.map (·.2.id) := fun hm =>
    allocId_not_mem r.used (hr.used.mem_iff.mpr hm)
  have hids : (aset net d1 r.dests).map (·.2.id) = r.dests.map (·.2.id) ++ [allocId r.used] := by
    rw [aset_of_lookup_none d1 h, List.map_append, List.map_cons, List.map_nil, hid]
  refine ⟨aset_keys_nodup d1 hr.keys, ?_, ?_, ?_⟩
  · show ((aset net d1 r.dests).map (·.2.id)).Nodup
    rw [hids]
    exact ((List.perm_append_singleton _ _).nodup_iff).mpr (List.nodup_cons.mpr ⟨hnew, hr.ids⟩)
  · show (allocId r.used :: r.used).Perm ((aset net d1 r.dests).map (·.2.id))
    rw [hids]
    exact (List.Perm.cons _ hr.used).trans (List.perm_append_singleton _ _).symm
  · intro nd hnd
    rcases mem_aset hnd with rfl | hnd
    · exact hd1
    · exact hr.dest nd hnd

theorem ribInv_aerase {c g fl f} {r : Rib} (hr : RibInv c g fl f r) {net : Net} {d : Dest}
    (h : alookup net r.dests = some d) :
    RibInv c g fl f { r with dests := aerase net r.dests, used := r.used.erase d.id } := by
  have hp := (perm_aerase h).map (fun nd : Net × Dest => nd.2.id)
  simp only [List.map_cons] at hp
  refine ⟨aerase_keys_nodup hr.keys, hr.ids.sublist ((aerase_sublist net r.dests).map _), ?_, ?_⟩
  · show (r.used.erase d.id).Perm ((aerase net r.dests).map (·.2.id))
    have := (hr.used.trans hp).erase d.id
    rwa [List.erase_cons_head] at this
  · intro nd hnd
    exact hr.dest nd ((aerase_sublist net r.dests).subset hnd)

/-! ## `insert`: the plan on a reachable table -/

theorem planBase_dests (r : Rib) (net : Net) : (planBase r net).1.dests = r.dests := by
  unfold planBase; cases alookup net r.dests <;> rfl

theorem planBase_deferring (r : Rib) (net : Net) : (planBase r net).1.deferring = r.deferring := by
  unfold planBase; cases alookup net r.dests <;> rfl

theorem planBase_entries (r : Rib) (net : Net) : (planBase r net).2.entries = oldEs net r.dests := by
  unfold planBase oldEs; cases alookup net r.dests <;> rfl

theorem oldEs_esInv {c g fl f} {r : Rib} (hr : RibInv c g fl f r) (net : Net) :
    EsInv c g fl f net.t2 (oldEs net r.dests) := by
  unfold oldEs
  cases h : alookup net r.dests with
  | none => exact EsInv.nil
  | some d => exact (hr.lookup h).toEs

theorem PlanSpec.sublist {dst : Dest} {addr rpid : Nat} {pl : InsPlan} (spec : PlanSpec dst addr rpid pl) :
    pl.entries.Sublist dst.entries := by
  cases spec with
  | fresh hr he hk hn => rw [he]; exact List.Sublist.refl _
  | repl i old hr he hi hm hk hn => rw [he]; exact List.eraseIdx_sublist _ _

theorem PlanSpec.key_fresh {dst : Dest} {addr rpid : Nat} {pl : InsPlan} (spec : PlanSpec dst addr rpid pl) :
    ∀ x ∈ pl.entries, matchKey addr rpid x = false := by
  cases spec with
  | fresh hr he hk hn => rw [he]; exact hk
  | repl i old hr he hi hm hk hn => rw [he]; exact hk

theorem PlanSpec.lpid_fresh {dst : Dest} {addr rpid : Nat} {pl : InsPlan} (spec : PlanSpec dst addr rpid pl)
    (hl : (dst.entries.map (·.lpid)).Nodup) : newLpid pl ∉ pl.entries.map (·.lpid) := by
  cases spec with
  | fresh hr he hk hn =>
    unfold newLpid; rw [hr]
    exact pathIdLoop_not_mem _ _
  | repl i old hr he hi hm hk hn =>
    unfold newLpid; rw [hr, he]
    have hp := (eraseIdx_perm hi).map (·.lpid)
    have := hp.nodup hl
    simp only [List.map_cons, List.nodup_cons] at this
    exact this.1

theorem insDest_inv {c g fl fam} {net : Net} {dst : Dest} {rpid : Nat} {pl : InsPlan} {src : Src}
    (spec : PlanSpec dst src.addr rpid pl) (h : EsInv c g fl fam net.t2 dst.entries)
    (hsrc : src.WF c ∧ g src.id = fam) {attr : Attrs} (hattr : attr.WF) (nh : Option Nat) (filtered nhInv : Bool) :
    DestInv c g fl fam net (insDest fl net pl (newEntry pl src nh attr rpid filtered nhInv attr.hops)) := by
  refine EsInv.toDest ?_ (insertSorted_ne_nil _ _ _)
  exact (h.sublist spec.sublist).insert _ spec.key_fresh (spec.lpid_fresh h.lpids) hsrc ⟨hattr, rfl⟩

/-! ## `insert`: the statistics -/

theorem sameAddr_of_eq {a0 : Nat} {e : Entry} (h : e.src.addr = a0) : sameAddr a0 e = true := by
  simp [sameAddr, h]
theorem sameAddr_of_ne {a0 addr : Nat} {e : Entry} (h : e.src.addr = a0) (hne : addr ≠ a0) :
    sameAddr addr e = false := by
  simp only [sameAddr, h, beq_eq_false_iff_ne, ne_eq]; exact fun e => hne e.symm
theorem addr_of_matchKey {addr rpid : Nat} {e : Entry} (h : matchKey addr rpid e = true) : e.src.addr = addr :=
  (Prod.mk.inj (matchKey_iff.mp h)).1

theorem plan_counts_other {dst : Dest} {a0 rpid : Nat} {pl : InsPlan} (spec : PlanSpec dst a0 rpid pl)
    (c : Entry → Entry → Ordering) {e : Entry} (he : e.src.addr = a0) {addr : Nat} (hne : addr ≠ a0) :
    eR addr (insertSorted c e pl.entries) = eR addr dst.entries ∧
    eA addr (insertSorted c e pl.entries) = eA addr dst.entries := by
  have hp := insertSorted_perm c e pl.entries
  rw [eR_perm hp, eA_perm hp, eR_cons, eA_cons, sameAddr_of_ne he hne]
  cases spec with
  | fresh hr he' hk hn => rw [he']; simp
  | repl i old hr he' hi hm hk hn =>
    have hp' := eraseIdx_perm hi
    rw [he', eR_perm hp', eA_perm hp', eR_cons, eA_cons, sameAddr_of_ne (addr_of_matchKey hm) hne]
    simp

theorem subU64_ok (p : Profile) {a b : Nat} (h : b ≤ a) : subU64 p a b = .ok (a - b) := by
  unfold subU64; rw [if_pos h]

theorem insertStats_ok (p : Profile) {dst : Dest} {a0 rpid : Nat} {pl : InsPlan} (spec : PlanSpec dst a0 rpid pl)
    (c : Entry → Entry → Ordering) {e : Entry} (he : e.src.addr = a0) (R A : Nat)
    (hA : eA a0 dst.entries ≤ A) :
    ∃ st, insertStats p (R, A) pl.replaced pl.isNew e.filtered = .ok st ∧
      st.1 + eR a0 dst.entries = R + eR a0 (insertSorted c e pl.entries) ∧
      st.2 + eA a0 dst.entries = A + eA a0 (insertSorted c e pl.entries) := by
  have hp := insertSorted_perm c e pl.entries
  rw [eR_perm hp, eA_perm hp, eR_cons, eA_cons, sameAddr_of_eq he]
  cases spec with
  | fresh hr he' hk hn =>
    rw [hr, hn, he']
    unfold insertStats
    simp only [eR]
    cases dst.entries.any (sameAddr a0) <;> cases e.filtered <;> simp <;> omega
  | repl i old hr he' hi hm hk hn =>
    have hp' := eraseIdx_perm hi
    rw [eR_perm hp', eA_perm hp', eR_cons, eA_cons, sameAddr_of_eq (addr_of_matchKey hm)] at *
    rw [hr, he']
    unfold insertStats
    cases hof : old.filtered <;> cases hf : e.filtered <;> simp only [hof] at hA ⊢
    · simp
    · simp only [Bool.not_false, Bool.true_and, if_true] at hA
      simp [subU64_ok p (show 1 ≤ A by omega)]; omega
    · simp; omega
    · simp

theorem plan_elig_same {dst : Dest} {a0 rpid : Nat} {pl : InsPlan} (spec : PlanSpec dst a0 rpid pl)
    (c : Entry → Entry → Ordering) {e : Entry} (h : insAny pl e.filtered = false) :
    (insertSorted c e pl.entries).filter Entry.eligible = dst.entries.filter Entry.eligible := by
  unfold insAny at h
  simp only [Bool.or_eq_false_iff, Bool.not_eq_false'] at h
  have hne : e.eligible = false := by simp [Entry.eligible, h.1]
  rw [filter_insertSorted_of_not c hne]
  cases spec with
  | fresh hr he' hk hn => rw [he']
  | repl i old hr he' hi hm hk hn =>
    rw [he']
    rw [hr] at h
    have : old.eligible = false := by
      have := h.2; simp only [Bool.not_eq_false'] at this
      simp [Entry.eligible, this]
    exact filter_eraseIdx_of_not hi this

/-! ## `insert`: the prefix limit -/

theorem planBase_of_some {r : Rib} {net : Net} {d : Dest} (h : alookup net r.dests = some d) :
    planBase r net = (r, d) := by
  unfold planBase; rw [h]

theorem planBase_of_none {r : Rib} {net : Net} (h : alookup net r.dests = none) :
    planBase r net = ({ r with used := allocId r.used :: r.used }, { entries := [], next := 1, id := allocId r.used }) := by
  unfold planBase; rw [h]

theorem insert_eq (p : Profile) (t : Table) (src : Src) (fam : Fam) (net : Net) (rpid : Nat)
    (nh : Option Nat) (attr : Attrs) (filtered nhInv : Bool) :
    t.insert p src fam net rpid nh attr filtered nhInv =
      if (!(insertPlan t src fam net rpid).sessHas &&
          (match src.lim with | some max => decide (t.ctr (src.id, fam) ≥ max) | none => false)) = true then
        .ok (insertLimit t fam net (insertPlan t src fam net rpid), .limit)
      else
        match attr.asPathLen p with
        | .panic => .panic
        | .ok aslen =>
          match insertStats p (statsGet t (src.addr, fam)) (insertPlan t src fam net rpid).replaced
              (insertPlan t src fam net rpid).isNew filtered with
          | .panic => .panic
          | .ok st => .ok (insertCommit t src fam net rpid nh attr filtered nhInv
              (insertPlan t src fam net rpid) aslen st) := rfl

theorem insertLimit_eq {c g} {t : Table} (hinv : Inv c g t) (src : Src) (fam : Fam) (net : Net) (rpid : Nat) :
    insertLimit t fam net (insertPlan t src fam net rpid) = t := by
  have hr := hinv.rib fam
  rw [insertPlan_eq]
  cases h : alookup net (t.rib fam).dests with
  | none =>
    rw [planBase_of_none h]
    show t.setRib fam { deferring := (t.rib fam).deferring, dests := aerase net (t.rib fam).dests,
                        used := (allocId (t.rib fam).used :: (t.rib fam).used).erase (allocId (t.rib fam).used) } = t
    rw [aerase_of_lookup_none h, List.erase_cons_head]
    exact setRib_rib t fam
  | some d =>
    rw [planBase_of_some h]
    have hd := hr.lookup h
    have hne : d.entries.isEmpty = false := by
      cases hh : d.entries with
      | nil => exact absurd hh hd.nonEmpty
      | cons a l => rfl
    show t.setRib fam (if d.entries.isEmpty = true then _ else
      { deferring := (t.rib fam).deferring, dests := aset net d (t.rib fam).dests, used := (t.rib fam).used }) = t
    rw [if_neg (by rw [hne]; simp), aset_same h]
    exact setRib_rib t fam

/-! ## `insert`: the invariant -/

theorem insRib_inv {c g fl f} {r : Rib} (hr : RibInv c g fl f r) (net : Net) {d1 : Dest}
    (hid : d1.id = (planBase r net).2.id) (hd1 : DestInv c g fl f net d1) :
    RibInv c g fl f { (planBase r net).1 with dests := aset net d1 (planBase r net).1.dests } := by
  cases h : alookup net r.dests with
  | none =>
    rw [planBase_of_none h] at hid ⊢
    exact ribInv_aset_none hr h hid hd1
  | some d =>
    rw [planBase_of_some h] at hid ⊢
    exact ribInv_aset_some hr h hid hd1

theorem upd_inv {c g} {t : Table} (hinv : Inv c g t) {fam : Fam} {r' : Rib} {a0 : Nat}
    {st : Nat × Nat} {ctrs : List ((Nat × Fam) × Nat)}
    (hrib : RibInv c g t.flags fam r')
    (hcnt : ∀ addr, addr ≠ a0 → recvL addr r'.dests = recvL addr (t.rib fam).dests ∧
      accL addr r'.dests = accL addr (t.rib fam).dests)
    (hst : st = (recvL a0 r'.dests, accL a0 r'.dests))
    (hctr : (ctrs.map (·.1)).Nodup) :
    Inv c g (t.upd fam r' (aset (a0, fam) st t.stats) ctrs) := by
  refine ⟨?_, ?_, ?_, ?_⟩
  · intro f
    rw [upd_flags]
    by_cases hf : f = fam
    · subst hf; rw [upd_rib_self]; exact hrib
    · rw [upd_rib_ne _ _ _ _ hf]; exact hinv.rib f
  · refine statsInv_update hinv.stats (upd_stats _ _ _ _ _) (fun f hf => upd_rib_ne _ _ _ _ hf) ?_ ?_
    · intro addr hne; rw [upd_rib_self]; exact hcnt addr hne
    · rw [upd_rib_self]; exact hst
  · rw [upd_stats]; exact aset_keys_nodup _ hinv.statsKeys
  · rw [upd_ctrs]; exact hctr

theorem insTable_inv {c g} {t : Table} (hinv : Inv c g t) {src : Src} {fam : Fam} {net : Net} {rpid : Nat}
    {pl : InsPlan} (hprib : pl.rib = (planBase (t.rib fam) net).1) (hpdst : pl.dst = (planBase (t.rib fam) net).2)
    (spec : PlanSpec pl.dst src.addr rpid pl) (hsrc : src.WF c ∧ g src.id = fam) {attr : Attrs} (hattr : attr.WF)
    (nh : Option Nat) (filtered nhInv : Bool) {st : Nat × Nat}
    (hst1 : st.1 + eR src.addr pl.dst.entries = recvCount src.addr (t.rib fam) +
      eR src.addr (insDest t.flags net pl (newEntry pl src nh attr rpid filtered nhInv attr.hops)).entries)
    (hst2 : st.2 + eA src.addr pl.dst.entries = accCount src.addr (t.rib fam) +
      eA src.addr (insDest t.flags net pl (newEntry pl src nh attr rpid filtered nhInv attr.hops)).entries) :
    Inv c g (insTable t src fam net pl (newEntry pl src nh attr rpid filtered nhInv attr.hops) st) := by
  have hr := hinv.rib fam
  have hes : pl.dst.entries = oldEs net (t.rib fam).dests := by rw [hpdst, planBase_entries]
  have hdests : pl.rib.dests = (t.rib fam).dests := by rw [hprib, planBase_dests]
  have hesinv : EsInv c g t.flags fam net.t2 pl.dst.entries := by rw [hes]; exact oldEs_esInv hr net
  unfold insTable
  refine upd_inv hinv ?_ ?_ ?_ ?_
  · unfold insRib; rw [hprib]
    exact insRib_inv hr net (by show pl.dst.id = _; rw [hpdst]) (insDest_inv spec hesinv hsrc hattr nh filtered nhInv)
  · intro addr hne
    have h1 := counts_aset net (insDest t.flags net pl (newEntry pl src nh attr rpid filtered nhInv attr.hops))
      (t.rib fam).dests addr
    have h2 := plan_counts_other spec (cmpFor t.flags net.t2)
      (e := newEntry pl src nh attr rpid filtered nhInv attr.hops) rfl hne
    show recvL addr (aset net _ pl.rib.dests) = _ ∧ accL addr (aset net _ pl.rib.dests) = _
    rw [hdests]
    rw [← hes] at h1
    have e1 : (insDest t.flags net pl (newEntry pl src nh attr rpid filtered nhInv attr.hops)).entries =
      insertSorted (cmpFor t.flags net.t2) (newEntry pl src nh attr rpid filtered nhInv attr.hops) pl.entries := rfl
    rw [e1] at h1
    constructor <;> omega
  · have h1 := counts_aset net (insDest t.flags net pl (newEntry pl src nh attr rpid filtered nhInv attr.hops))
      (t.rib fam).dests src.addr
    rw [← hes] at h1
    show st = (recvL src.addr (aset net _ pl.rib.dests), accL src.addr (aset net _ pl.rib.dests))
    rw [hdests]
    rw [recvCount_eq] at hst1
    rw [accCount_eq] at hst2
    apply Prod.ext <;> simp only [] <;> omega
  · split
    · exact aset_keys_nodup _ hinv.ctrKeys
    · exact hinv.ctrKeys

/-! ## `insert`: what the consumers are told -/

theorem insertCommit_eq' (t : Table) (src : Src) (fam : Fam) (net : Net) (rpid : Nat) (nh : Option Nat)
    (attr : Attrs) (filtered nhInv : Bool) (pl : InsPlan) (aslen : Nat) (st : Nat × Nat) :
    insertCommit t src fam net rpid nh attr filtered nhInv pl aslen st =
      (insTable t src fam net pl (newEntry pl src nh attr rpid filtered nhInv aslen) st,
       if pl.rib.deferring || (!(pl.oldBest != bestKey (insDest t.flags net pl
            (newEntry pl src nh attr rpid filtered nhInv aslen)).entries) && !insAny pl filtered) then .noChange
       else .changed (insChange fam net pl filtered (insDest t.flags net pl
            (newEntry pl src nh attr rpid filtered nhInv aslen)).entries)) := by
  rw [insertCommit_eq]; split <;> rfl

theorem insTable_facts {t : Table} {src : Src} {fam : Fam} {net : Net} {rpid : Nat}
    {pl : InsPlan} (hprib : pl.rib = (planBase (t.rib fam) net).1) (hpdst : pl.dst = (planBase (t.rib fam) net).2)
    (spec : PlanSpec pl.dst src.addr rpid pl) (hob : pl.oldBest = bestKey pl.dst.entries)
    (e : Entry) (st : Nat × Nat) (op : Op)
    (hop : ∀ f, op.isStartDeferral f = false ∧ op.isEndDeferral f = false) :
    StepFacts t op (insTable t src fam net pl e st)
      (if pl.rib.deferring || (!(pl.oldBest != bestKey (insDest t.flags net pl e).entries) &&
          !insAny pl e.filtered) then .noChange
       else .changed (insChange fam net pl e.filtered (insDest t.flags net pl e).entries)) := by
  have hes : pl.dst.entries = oldEs net (t.rib fam).dests := by rw [hpdst, planBase_entries]
  have hdests : pl.rib.dests = (t.rib fam).dests := by rw [hprib, planBase_dests]
  have hdefr : pl.rib.deferring = (t.rib fam).deferring := by rw [hprib, planBase_deferring]
  have hlk : alookup net ((insTable t src fam net pl e st).rib fam).dests = some (insDest t.flags net pl e) := by
    unfold insTable; rw [upd_rib_self]; exact alookup_aset_self _ _ _
  have helig' : (insTable t src fam net pl e st).elig fam net =
      (insDest t.flags net pl e).entries.filter Entry.eligible := by
    unfold Table.elig; rw [hlk]
  have hid' : (insTable t src fam net pl e st).destId fam net = some pl.dst.id := by
    unfold Table.destId; rw [hlk]; rfl
  have helig : t.elig fam net = pl.dst.entries.filter Entry.eligible := by
    rw [elig_eq_oldEs, hes]
  refine stepFacts_single (fam := fam) (net := net) hop ?_ ?_ ?_ ?_ ?_ ?_ ?_
  · unfold insTable
    refine lookup_upd _ _ ?_
    intro n hn
    show alookup n (aset net _ pl.rib.dests) = _
    rw [alookup_aset_ne hn, hdests]
  · intro f
    unfold insTable
    by_cases hf : f = fam
    · subst hf; rw [upd_rib_self]; exact hdefr
    · rw [upd_rib_ne _ _ _ _ hf]
  · split
    · exact Or.inl rfl
    · exact Or.inr ⟨_, rfl, rfl, rfl, helig'.symm, Or.inl hid'⟩
  · intro i hi
    left
    rw [hid']
    unfold Table.destId at hi
    cases h : alookup net (t.rib fam).dests with
    | none => rw [h] at hi; simp at hi
    | some d =>
      rw [h] at hi
      rw [hpdst, planBase_of_some h]
      exact hi
  · intro hd hne
    rw [helig, helig'] at hne
    have hany : insAny pl e.filtered = true := by
      cases hh : insAny pl e.filtered with
      | true => rfl
      | false => exact absurd (plan_elig_same spec (cmpFor t.flags net.t2) hh).symm hne
    rw [hdefr, hd, hany]
    simp only [Bool.false_or, Bool.not_true, Bool.and_false, Bool.false_eq_true, if_false]
    exact ⟨_, List.mem_singleton.mpr rfl, rfl, rfl, hany⟩
  · intro hd hne
    rw [helig, helig', ← bestKey_eq_identOf_filter, ← bestKey_eq_identOf_filter, ← hob] at hne
    have hb : (pl.oldBest != bestKey (insDest t.flags net pl e).entries) = true := by
      simpa using hne
    rw [hdefr, hd, hb]
    simp only [Bool.false_or, Bool.not_true, Bool.false_and, Bool.false_eq_true, if_false]
    exact ⟨_, List.mem_singleton.mpr rfl, rfl, rfl, hb⟩
  · intro hd
    rw [hdefr, hd]
    simp only [Bool.true_or, if_true]
    rfl

/-- **insert** is sound on reachable tables -/
theorem insert_sound {c g} (p : Profile) {t : Table} (hinv : Inv c g t) (src : Src) (fam : Fam) (net : Net)
    (rpid : Nat) (nh : Option Nat) (attr : Attrs) (filtered nhInv : Bool)
    (hsrc : src.WF c ∧ g src.id = fam) (hattr : attr.WF) :
    ∃ t' r, t.insert p src fam net rpid nh attr filtered nhInv = .ok (t', r) ∧ Inv c g t' ∧
      StepFacts t (.insert src fam net rpid nh attr filtered nhInv) t' r := by
  have hop : ∀ f, (Op.insert src fam net rpid nh attr filtered nhInv).isStartDeferral f = false ∧
      (Op.insert src fam net rpid nh attr filtered nhInv).isEndDeferral f = false := fun _ => ⟨rfl, rfl⟩
  rw [insert_eq]
  by_cases hlim : (!(insertPlan t src fam net rpid).sessHas &&
      (match src.lim with | some max => decide (t.ctr (src.id, fam) ≥ max) | none => false)) = true
  · rw [if_pos hlim]
    refine ⟨_, _, rfl, ?_, ?_⟩
    · rw [insertLimit_eq hinv src fam net rpid]; exact hinv
    · rw [insertLimit_eq hinv src fam net rpid]; exact stepFacts_same hop rfl
  · rw [if_neg hlim]
    have hr := hinv.rib fam
    have hpl := insertPlan_eq t src fam net rpid
    have hprib : (insertPlan t src fam net rpid).rib = (planBase (t.rib fam) net).1 := by rw [hpl]; rfl
    have hpdst : (insertPlan t src fam net rpid).dst = (planBase (t.rib fam) net).2 := by rw [hpl]; rfl
    have hes : (insertPlan t src fam net rpid).dst.entries = oldEs net (t.rib fam).dests := by
      rw [hpdst, planBase_entries]
    have hesinv : EsInv c g t.flags fam net.t2 (insertPlan t src fam net rpid).dst.entries := by
      rw [hes]; exact oldEs_esInv hr net
    have spec : PlanSpec (insertPlan t src fam net rpid).dst src.addr rpid (insertPlan t src fam net rpid) := by
      rw [hpdst]
      have := mkPlan_spec (planBase (t.rib fam) net).1 (planBase (t.rib fam) net).2 src.addr rpid src.id
        (by rw [← hpdst]; exact hesinv.pathKeys)
      rw [← hpl] at this
      exact this
    have hob : (insertPlan t src fam net rpid).oldBest = bestKey (insertPlan t src fam net rpid).dst.entries := by
      rw [hpl]; rfl
    rw [asPathLen_ok p attr hattr]
    simp only []
    have hcnt := dests_perm_old net (t.rib fam).dests src.addr
    rw [← hes] at hcnt
    obtain ⟨st, hst, hst1, hst2⟩ := insertStats_ok p spec (cmpFor t.flags net.t2)
      (e := newEntry (insertPlan t src fam net rpid) src nh attr rpid filtered nhInv attr.hops) rfl
      (recvCount src.addr (t.rib fam)) (accCount src.addr (t.rib fam))
      (by rw [accCount_eq, hcnt.2]; omega)
    rw [hinv.stats.get]
    have hst' : insertStats p (recvCount src.addr (t.rib fam), accCount src.addr (t.rib fam))
        (insertPlan t src fam net rpid).replaced (insertPlan t src fam net rpid).isNew filtered = .ok st := hst
    rw [hst']
    simp only []
    rw [insertCommit_eq']
    refine ⟨_, _, rfl, ?_, ?_⟩
    · exact insTable_inv hinv hprib hpdst spec hsrc hattr nh filtered nhInv hst1 hst2
    · exact insTable_facts hprib hpdst spec hob
        (newEntry (insertPlan t src fam net rpid) src nh attr rpid filtered nhInv attr.hops) st _ hop

/-! ## `remove` -/

def remRib (r : Rib) (net : Net) (dst : Dest) (entries : List Entry) : Rib :=
  if entries.isEmpty then { r with dests := aerase net r.dests, used := r.used.erase dst.id }
  else { r with dests := aset net { dst with entries := entries } r.dests }

def remCtrs (t : Table) (src : Src) (fam : Fam) (removed : Entry) (entries : List Entry) :
    List ((Nat × Fam) × Nat) :=
  if removed.src.id == src.id && !(entries.any fun e => e.src.id == src.id) && src.lim.isSome then
    aset (src.id, fam) (atomicDec (t.ctr (src.id, fam))) t.ctrs
  else t.ctrs

def remChange (fam : Fam) (net : Net) (dst : Dest) (removed : Entry) (entries : List Entry) : Change :=
  if entries.isEmpty then
    { fam, net, destId := dst.id, best := true, any := true, replaced := none, paths := [] }
  else
    { fam, net, destId := dst.id, best := bestKey dst.entries != bestKey entries, any := !removed.filtered,
      replaced := none, paths := entries.filter Entry.eligible }

def remQuiet (defer : Bool) (dst : Dest) (removed : Entry) (entries : List Entry) : Bool :=
  if entries.isEmpty then defer || !(!removed.filtered)
  else defer || (!(bestKey dst.entries != bestKey entries) && !(!removed.filtered))

theorem removeCommit_eq (t : Table) (src : Src) (fam : Fam) (net : Net) (dst : Dest) (removed : Entry)
    (entries : List Entry) (st : Nat × Nat) :
    removeCommit t src fam net dst removed entries st =
      (t.upd fam (remRib (t.rib fam) net dst entries) (aset (src.addr, fam) st t.stats) (remCtrs t src fam removed entries),
       if remQuiet (t.rib fam).deferring dst removed entries then .removed none
       else .removed (some (remChange fam net dst removed entries))) := by
  unfold removeCommit remRib remCtrs remChange remQuiet Table.upd
  cases entries.isEmpty
  · simp only [Bool.false_eq_true, if_false]
    split <;> rfl
  · simp only [if_true]
    split <;> rfl

theorem remChange_fam (fam net dst removed entries) : (remChange fam net dst removed entries).fam = fam := by
  unfold remChange; split <;> rfl
theorem remChange_net (fam net dst removed entries) : (remChange fam net dst removed entries).net = net := by
  unfold remChange; split <;> rfl
theorem remChange_destId (fam net dst removed entries) : (remChange fam net dst removed entries).destId = dst.id := by
  unfold remChange; split <;> rfl
theorem remChange_paths (fam net dst removed entries) :
    (remChange fam net dst removed entries).paths = entries.filter Entry.eligible := by
  unfold remChange; split
  · rename_i h; rw [List.isEmpty_iff.mp h]; rfl
  · rfl

theorem remRib_deferring (r : Rib) (net : Net) (dst : Dest) (entries : List Entry) :
    (remRib r net dst entries).deferring = r.deferring := by
  unfold remRib; split <;> rfl

theorem remRib_lookup_ne (r : Rib) (net : Net) (dst : Dest) (entries : List Entry) {n : Net} (hn : n ≠ net) :
    alookup n (remRib r net dst entries).dests = alookup n r.dests := by
  unfold remRib; split
  · exact alookup_aerase_ne hn _
  · exact alookup_aset_ne hn _ _

theorem remRib_lookup_self {r : Rib} (hk : (r.dests.map (·.1)).Nodup) (net : Net) (dst : Dest)
    (entries : List Entry) :
    alookup net (remRib r net dst entries).dests =
      if entries.isEmpty then none else some { dst with entries := entries } := by
  unfold remRib; split
  · exact alookup_aerase_self hk
  · exact alookup_aset_self _ _ _

theorem counts_remRib (r : Rib) (net : Net) (dst : Dest) (entries : List Entry) (addr : Nat) :
    recvL addr (remRib r net dst entries).dests + eR addr (oldEs net r.dests) = recvL addr r.dests + eR addr entries ∧
    accL addr (remRib r net dst entries).dests + eA addr (oldEs net r.dests) = accL addr r.dests + eA addr entries := by
  unfold remRib; split
  · rename_i h
    rw [List.isEmpty_iff.mp h, eR_nil, eA_nil]
    exact counts_aerase net r.dests addr
  · exact counts_aset net { dst with entries := entries } r.dests addr

theorem removeStats_ok_le (p : Profile) {R A pg ra : Nat} (hR : pg ≤ R) (hA : ra ≤ A) :
    removeStats p (R, A) pg ra = .ok (R - pg, A - ra) := by
  unfold removeStats
  simp only [subU64_ok p hR, subU64_ok p hA]

theorem remRib_inv {c g fl f} {r : Rib} (hr : RibInv c g fl f r) {net : Net} {dst : Dest}
    (h : alookup net r.dests = some dst) (i : Nat) :
    RibInv c g fl f (remRib r net dst (dst.entries.eraseIdx i)) := by
  unfold remRib; split
  · exact ribInv_aerase hr h
  · rename_i hne
    refine ribInv_aset_some hr h rfl ?_
    refine EsInv.toDest (d := { dst with entries := dst.entries.eraseIdx i }) ?_ ?_
    · exact (hr.lookup h).toEs.sublist (List.eraseIdx_sublist _ _)
    · intro he
      apply hne
      show (dst.entries.eraseIdx i).isEmpty = true
      rw [show dst.entries.eraseIdx i = [] from he]; rfl

theorem remove_eq_none {p : Profile} {t : Table} {src : Src} {fam : Fam} {net : Net} {rpid : Nat}
    (h : alookup net (t.rib fam).dests = none) : t.remove p src fam net rpid = .ok (t, .removed none) := by
  unfold Table.remove; rw [h]

theorem remove_eq_notfound {p : Profile} {t : Table} {src : Src} {fam : Fam} {net : Net} {rpid : Nat} {dst : Dest}
    (h : alookup net (t.rib fam).dests = some dst)
    (hf : dst.entries.findIdx? (matchKey src.addr rpid) = none) :
    t.remove p src fam net rpid = .ok (t, .removed none) := by
  unfold Table.remove; rw [h]
  show (match dst.entries.findIdx? (matchKey src.addr rpid) with
    | none => _ | some i => _) = _
  rw [hf]

theorem remove_eq_found {p : Profile} {t : Table} {src : Src} {fam : Fam} {net : Net} {rpid : Nat} {dst : Dest}
    (h : alookup net (t.rib fam).dests = some dst) {i : Nat}
    (hf : dst.entries.findIdx? (matchKey src.addr rpid) = some i) {removed : Entry}
    (hi : dst.entries[i]? = some removed) {st st' : Nat × Nat}
    (hs : alookup (src.addr, fam) t.stats = some st)
    (hrs : removeStats p st (if (dst.entries.eraseIdx i).any (sameAddr src.addr) then 0 else 1)
      (if removed.filtered then 0 else 1) = .ok st') :
    t.remove p src fam net rpid = .ok (removeCommit t src fam net dst removed (dst.entries.eraseIdx i) st') := by
  unfold Table.remove; rw [h]
  show (match dst.entries.findIdx? (matchKey src.addr rpid) with
    | none => _ | some i => _) = _
  rw [hf]
  simp only [hi, hs, hrs]

/-- **remove** is sound on reachable tables -/
theorem remove_sound {c g} (p : Profile) {t : Table} (hinv : Inv c g t) (src : Src) (fam : Fam) (net : Net)
    (rpid : Nat) :
    ∃ t' r, t.remove p src fam net rpid = .ok (t', r) ∧ Inv c g t' ∧
      StepFacts t (.remove src fam net rpid) t' r := by
  have hop : ∀ f, (Op.remove src fam net rpid).isStartDeferral f = false ∧
      (Op.remove src fam net rpid).isEndDeferral f = false := fun _ => ⟨rfl, rfl⟩
  have hr := hinv.rib fam
  cases h : alookup net (t.rib fam).dests with
  | none => exact ⟨t, _, remove_eq_none h, hinv, stepFacts_same hop rfl⟩
  | some dst =>
    cases hf : dst.entries.findIdx? (matchKey src.addr rpid) with
    | none => exact ⟨t, _, remove_eq_notfound h hf, hinv, stepFacts_same hop rfl⟩
    | some i =>
      obtain ⟨hlt, hm, _⟩ := List.findIdx?_eq_some_iff_getElem.mp hf
      have hi : dst.entries[i]? = some dst.entries[i] := List.getElem?_eq_getElem hlt
      generalize dst.entries[i] = removed at hm hi
      have hmem : removed ∈ dst.entries := mem_of_getElem? hi
      have haddr : removed.src.addr = src.addr := addr_of_matchKey hm
      have hperm := eraseIdx_perm hi
      have hold : oldEs net (t.rib fam).dests = dst.entries := by unfold oldEs; rw [h]
      -- the statistics entry exists and is the recount
      have hdin : (net, dst) ∈ (t.rib fam).dests := alookup_some_mem h
      have hsI := hinv.stats src.addr fam
      cases hs : alookup (src.addr, fam) t.stats with
      | none =>
        rw [hs] at hsI
        have := hsI (net, dst) hdin
        have h2 : dst.entries.any (sameAddr src.addr) = true :=
          List.any_eq_true.mpr ⟨removed, hmem, sameAddr_of_eq haddr⟩
        rw [h2] at this; exact absurd this (by simp)
      | some st =>
        rw [hs] at hsI
        simp only [] at hsI
        have hcnt := dests_perm_old net (t.rib fam).dests src.addr
        rw [hold, eR_perm hperm, eA_perm hperm, eR_cons, eA_cons, sameAddr_of_eq haddr] at hcnt
        have hcr := counts_remRib (t.rib fam) net dst (dst.entries.eraseIdx i) src.addr
        rw [hold, eR_perm hperm, eA_perm hperm, eR_cons, eA_cons, sameAddr_of_eq haddr] at hcr
        have hpg : (if (dst.entries.eraseIdx i).any (sameAddr src.addr) then 0 else 1) =
            1 - eR src.addr (dst.entries.eraseIdx i) := by
          unfold eR; split <;> rfl
        have hra : (if removed.filtered then 0 else 1) = (if (true && !removed.filtered) then 1 else 0) := by
          cases removed.filtered <;> rfl
        have hle := eR_le_one src.addr (dst.entries.eraseIdx i)
        have hrs := removeStats_ok_le p (R := recvCount src.addr (t.rib fam)) (A := accCount src.addr (t.rib fam))
          (pg := if (dst.entries.eraseIdx i).any (sameAddr src.addr) then 0 else 1)
          (ra := if removed.filtered then 0 else 1)
          (by rw [hpg, recvCount_eq, hcnt.1]; simp only [if_true]; omega)
          (by rw [hra, accCount_eq, hcnt.2]; omega)
        rw [← hsI] at hrs
        have heq := remove_eq_found h hf hi hs hrs
        rw [removeCommit_eq] at heq
        refine ⟨_, _, heq, ?_, ?_⟩
        · refine upd_inv hinv (remRib_inv hr h i) ?_ ?_ ?_
          · intro addr hne
            have h1 := counts_remRib (t.rib fam) net dst (dst.entries.eraseIdx i) addr
            rw [hold, eR_perm hperm, eA_perm hperm, eR_cons, eA_cons, sameAddr_of_ne haddr hne] at h1
            simp only [Bool.false_and, Bool.false_eq_true, if_false] at h1
            constructor <;> omega
          · rw [recvCount_eq, accCount_eq, hpg, hra]
            simp only [if_true] at hcnt hcr
            apply Prod.ext <;> simp only [] <;> omega
          · unfold remCtrs; split
            · exact aset_keys_nodup _ hinv.ctrKeys
            · exact hinv.ctrKeys
        · have hlk := remRib_lookup_self hr.keys net dst (dst.entries.eraseIdx i)
          have helig : t.elig fam net = dst.entries.filter Entry.eligible := by
            rw [elig_eq_oldEs, hold]
          have hid : t.destId fam net = some dst.id := by
            unfold Table.destId; rw [h]; rfl
          have helig' : (t.upd fam (remRib (t.rib fam) net dst (dst.entries.eraseIdx i))
              (aset (src.addr, fam) (recvCount src.addr (t.rib fam) -
                  (if (dst.entries.eraseIdx i).any (sameAddr src.addr) then 0 else 1),
                accCount src.addr (t.rib fam) - (if removed.filtered then 0 else 1)) t.stats)
              (remCtrs t src fam removed (dst.entries.eraseIdx i))).elig fam net =
              (dst.entries.eraseIdx i).filter Entry.eligible := by
            unfold Table.elig; rw [upd_rib_self, hlk]
            by_cases he : (dst.entries.eraseIdx i).isEmpty = true
            · rw [if_pos he, List.isEmpty_iff.mp he]; rfl
            · rw [if_neg he]
          have hid' : (t.upd fam (remRib (t.rib fam) net dst (dst.entries.eraseIdx i))
              (aset (src.addr, fam) (recvCount src.addr (t.rib fam) -
                  (if (dst.entries.eraseIdx i).any (sameAddr src.addr) then 0 else 1),
                accCount src.addr (t.rib fam) - (if removed.filtered then 0 else 1)) t.stats)
              (remCtrs t src fam removed (dst.entries.eraseIdx i))).destId fam net =
              if (dst.entries.eraseIdx i).isEmpty then none else some dst.id := by
            unfold Table.destId; rw [upd_rib_self, hlk]
            by_cases he : (dst.entries.eraseIdx i).isEmpty = true
            · rw [if_pos he, if_pos he]; rfl
            · rw [if_neg he, if_neg he]; rfl
          -- removing an ineligible path changes nothing a consumer sees
          have hunf : dst.entries.filter Entry.eligible ≠ (dst.entries.eraseIdx i).filter Entry.eligible →
              removed.filtered = false := by
            intro hne
            cases hfl : removed.filtered with
            | false => rfl
            | true =>
              exfalso; apply hne
              exact (filter_eraseIdx_of_not hi (by simp [Entry.eligible, hfl])).symm
          refine stepFacts_single (fam := fam) (net := net) hop ?_ ?_ ?_ ?_ ?_ ?_ ?_
          · exact lookup_upd _ _ (fun n hn => remRib_lookup_ne _ _ _ _ hn)
          · intro f
            by_cases hff : f = fam
            · subst hff; rw [upd_rib_self]; exact remRib_deferring _ _ _ _
            · rw [upd_rib_ne _ _ _ _ hff]
          · split
            · exact Or.inl rfl
            · refine Or.inr ⟨_, rfl, remChange_fam .., remChange_net .., ?_, ?_⟩
              · rw [remChange_paths, helig']
              · rw [remChange_destId, hid', hid]
                split
                · exact Or.inr ⟨rfl, rfl⟩
                · exact Or.inl rfl
          · intro j hj
            rw [hid] at hj; cases hj
            rw [hid']
            split
            · exact Or.inr rfl
            · exact Or.inl rfl
          · intro hd hne
            rw [helig, helig'] at hne
            have hfl := hunf hne
            have hq : remQuiet (t.rib fam).deferring dst removed (dst.entries.eraseIdx i) = false := by
              unfold remQuiet; rw [hd, hfl]; split <;> simp
            rw [hq]
            refine ⟨_, List.mem_singleton.mpr rfl, remChange_fam .., remChange_net .., ?_⟩
            unfold remChange; split
            · rfl
            · simp [hfl]
          · intro hd hne
            rw [helig, helig'] at hne
            by_cases hemp : (dst.entries.eraseIdx i).isEmpty = true
            · have hfl : removed.filtered = false := by
                apply hunf
                intro heq; rw [heq] at hne; exact hne rfl
              have hq : remQuiet (t.rib fam).deferring dst removed (dst.entries.eraseIdx i) = false := by
                unfold remQuiet; rw [hd, hfl, if_pos hemp]; simp
              rw [hq]
              refine ⟨_, List.mem_singleton.mpr rfl, remChange_fam .., remChange_net .., ?_⟩
              unfold remChange; rw [if_pos hemp]
            · rw [← bestKey_eq_identOf_filter, ← bestKey_eq_identOf_filter] at hne
              have hb : (bestKey dst.entries != bestKey (dst.entries.eraseIdx i)) = true := by
                simpa using hne
              have hq : remQuiet (t.rib fam).deferring dst removed (dst.entries.eraseIdx i) = false := by
                unfold remQuiet; rw [hd, if_neg hemp, hb]; simp
              rw [hq]
              refine ⟨_, List.mem_singleton.mpr rfl, remChange_fam .., remChange_net .., ?_⟩
              unfold remChange; rw [if_neg hemp]; exact hb
          · intro hd
            have hq : remQuiet (t.rib fam).deferring dst removed (dst.entries.eraseIdx i) = true := by
              unfold remQuiet; rw [hd]; split <;> simp
            rw [hq]; rfl

/-! ## The two operations together -/

theorem stepSound_insert_remove : StepSound Op.isInsertOrRemove := by
  intro c g p t op hsel hwf hinv
  cases op with
  | insert src fam net rpid nh attr filtered nhInv =>
    exact insert_sound p hinv src fam net rpid nh attr filtered nhInv ⟨hwf.1, hwf.2.1⟩ hwf.2.2
  | remove src fam net rpid => exact remove_sound p hinv src fam net rpid
  | _ => exact absurd hsel (by simp [Op.isInsertOrRemove])
end Rbgp.Rib
