/-
  Rbgp.Rib.PropsC06 — C06, the readable statements.

  Everything here is about the MODEL (`Rbgp.Rib.Model`) and holds for every well-formed case
  (`Case.Good g`: sources and attribute sets referred to by position, one family per session,
  AS_PATHs as `Attribute::decode` guarantees them), every finite history of the operations and both build
  profiles.  The three consumers (full / best-only / add-path) are written from the property text in
  SpecC06.lean; `check_run_ok` says the reference checker accepts every run of the model, the other
  theorems are the facts about single steps of a run that make it so.
-/
import Rbgp.Rib.ProofsC06
import Rbgp.Rib.StepAll
import Rbgp.Rib.RefProofs
namespace Rbgp.Rib.PropsC06
open Rbgp.Rib

/-! ## 0. The reference checker accepts every run -/

/-- For every well-formed case and both profiles, the C06 reference checker accepts the observation
    of the model's run: after every step and for every family that is not deferring, folding the
    notifications (all of them / only `best` / only `any`) gives what `collect_loc_rib_paths` reports,
    destination identifiers are unique, and the end of a deferral announces every held prefix. -/
theorem check_run_ok (p : Profile) (c : Case) (g : Nat → Fam) (h : c.Good g) :
    SpecC06.check c (observe p c) = .ok :=
  C06.check_run_ok allSound refSound p h

/-! ## Steps of a run -/

/-- the tables of a run, starting with the empty one -/
def states (p : Profile) (c : Case) : List Table := {} :: (run p c).1.map (·.1)

/-- step number `i` of the run of `c` executes `op` on `t` and yields table `t'` and result `r` -/
def RunStep (p : Profile) (c : Case) (t : Table) (op : Op) (t' : Table) (r : Res) : Prop :=
  ∃ i : Nat, (states p c)[i]? = some t ∧ c.ops[i]? = some op ∧ (run p c).1[i]? = some (t', r)

theorem runFrom_step {c : Case} {g : Nat → Fam} (p : Profile) (ops : List Op)
    (hops : ∀ op ∈ ops, op.WF c g) (t0 : Table) (hinv : Inv c g t0) (i : Nat) {t t' : Table} {op : Op} {r : Res}
    (h1 : (t0 :: (runFrom p t0 ops).1.map (·.1))[i]? = some t) (h2 : ops[i]? = some op)
    (h3 : (runFrom p t0 ops).1[i]? = some (t', r)) :
    Inv c g t ∧ Inv c g t' ∧ StepFacts t op t' r := by
  induction ops generalizing t0 i with
  | nil => simp at h2
  | cons o ops ih =>
    obtain ⟨t1, r1, _, hrun, hinv1, hf, _, _⟩ := run_step allSound p ops (hops o List.mem_cons_self) hinv
    rw [hrun] at h1 h3
    cases i with
    | zero =>
      simp only [List.getElem?_cons_zero, Option.some.injEq] at h1 h2 h3
      subst h1; subst h2
      cases h3
      exact ⟨hinv, hinv1, hf⟩
    | succ i =>
      simp only [List.getElem?_cons_succ, List.map_cons] at h1 h2 h3
      exact ih (fun o' ho' => hops o' (List.mem_cons_of_mem _ ho')) t1 hinv1 i h1 h2 h3

/-- every step of a run starts and ends in a state satisfying the invariant and has the step facts -/
theorem runStep_facts {p : Profile} {c : Case} {g : Nat → Fam} (h : c.WFWith g) {t t' : Table} {op : Op} {r : Res}
    (hs : RunStep p c t op t' r) : Inv c g t ∧ Inv c g t' ∧ StepFacts t op t' r := by
  obtain ⟨i, h1, h2, h3⟩ := hs
  exact runFrom_step p c.ops h {} (inv_empty c g) i h1 h2 h3

/-! ## 1. Folding the notifications gives the exportable state -/

/-- **fold_full_eq**: for a family that is not deferring, a notification carries exactly the
    exportable paths its prefix has after the step, and a prefix without a notification keeps its
    exportable paths.  Hence a consumer that stores `current_paths` of every notification holds the
    exportable state. -/
theorem fold_full_eq {p : Profile} {c : Case} {g : Nat → Fam} (h : c.WFWith g) {t t' : Table} {op : Op} {r : Res}
    (hs : RunStep p c t op t' r) (f : Fam) (hd : (t.rib f).deferring = false) :
    (∀ ch ∈ r.chs, ch.fam = f → ch.paths = t'.elig f ch.net) ∧
    (∀ n, (∀ ch ∈ r.chs, ¬ (ch.fam = f ∧ ch.net = n)) → t'.elig f n = t.elig f n) := by
  obtain ⟨_, _, hf⟩ := runStep_facts h hs
  refine ⟨fun ch hch hcf => by rw [hf.exact ch hch, hcf], fun n hno => ?_⟩
  apply Classical.byContradiction
  intro hne
  obtain ⟨ch, hch, h1, h2, -⟩ := hf.completeAny f n hd (Ne.symm hne)
  exact hno ch hch ⟨h1, h2⟩

/-- **fold_nonaddpath_best_eq**: a best-only consumer may skip notifications with
    `best_changed = false`: if no notification of the step for the prefix has `best = true`, the
    identity (source, attributes, next hop) of its best path is unchanged. -/
theorem fold_nonaddpath_best_eq {p : Profile} {c : Case} {g : Nat → Fam} (h : c.WFWith g) {t t' : Table} {op : Op}
    {r : Res} (hs : RunStep p c t op t' r) (f : Fam) (n : Net) (hd : (t.rib f).deferring = false)
    (hno : ∀ ch ∈ r.chs, ch.fam = f → ch.net = n → ch.best = false) :
    identOf (t'.elig f n) = identOf (t.elig f n) := by
  obtain ⟨_, _, hf⟩ := runStep_facts h hs
  apply Classical.byContradiction
  intro hne
  obtain ⟨ch, hch, h1, h2, h3⟩ := hf.completeBest f n hd (Ne.symm hne)
  rw [hno ch hch h1 h2] at h3
  exact absurd h3 (by simp)

/-- **fold_addpath_topN_eq**: an add-path consumer may skip notifications with
    `any_changed = false`: if no notification of the step for the prefix has `any = true`, the
    exportable list is unchanged, hence so is its top-N for every N. -/
theorem fold_addpath_topN_eq {p : Profile} {c : Case} {g : Nat → Fam} (h : c.WFWith g) {t t' : Table} {op : Op}
    {r : Res} (hs : RunStep p c t op t' r) (f : Fam) (n : Net) (hd : (t.rib f).deferring = false)
    (hno : ∀ ch ∈ r.chs, ch.fam = f → ch.net = n → ch.any = false) (N : Nat) :
    (t'.elig f n).take N = (t.elig f n).take N := by
  obtain ⟨_, _, hf⟩ := runStep_facts h hs
  have : t'.elig f n = t.elig f n := by
    apply Classical.byContradiction
    intro hne
    obtain ⟨ch, hch, h1, h2, h3⟩ := hf.completeAny f n hd (Ne.symm hne)
    rw [hno ch hch h1 h2] at h3
    exact absurd h3 (by simp)
  rw [this]

/-- a notification names the destination identifier of its prefix (the one it had, if the step
    removed the destination) -/
theorem notified_id {p : Profile} {c : Case} {g : Nat → Fam} (h : c.WFWith g) {t t' : Table} {op : Op} {r : Res}
    (hs : RunStep p c t op t' r) :
    ∀ ch ∈ r.chs, t'.destId ch.fam ch.net = some ch.destId ∨
      (t'.destId ch.fam ch.net = none ∧ t.destId ch.fam ch.net = some ch.destId) :=
  (runStep_facts h hs).2.2.idNew

/-- at most one notification per prefix and step, except for `restale_llgr` (one per re-marked
    usable path) -/
theorem one_per_prefix {p : Profile} {c : Case} {g : Nat → Fam} (h : c.WFWith g) {t t' : Table} {op : Op} {r : Res}
    (hs : RunStep p c t op t' r) (hop : op.isRestaleLlgr = false) : (r.chs.map fun ch => (ch.fam, ch.net)).Nodup :=
  (runStep_facts h hs).2.2.nets hop

/-- two notifications of one step for the same prefix carry the same paths and the same
    destination identifier -/
theorem same_prefix_same_payload {p : Profile} {c : Case} {g : Nat → Fam} (h : c.WFWith g) {t t' : Table}
    {op : Op} {r : Res} (hs : RunStep p c t op t' r) {a b : Change} (ha : a ∈ r.chs) (hb : b ∈ r.chs)
    (hf : a.fam = b.fam) (hn : a.net = b.net) : a.paths = b.paths ∧ a.destId = b.destId := by
  obtain ⟨_, _, hfacts⟩ := runStep_facts h hs
  refine ⟨by rw [hfacts.exact a ha, hfacts.exact b hb, hf, hn], ?_⟩
  have ga := hfacts.idNew a ha
  have gb := hfacts.idNew b hb
  rw [hf, hn] at ga
  rcases ga with ga | ⟨ga1, ga2⟩ <;> rcases gb with gb | ⟨gb1, gb2⟩
  · rw [ga] at gb; exact Option.some.inj gb
  · rw [ga] at gb1; exact absurd gb1 (by simp)
  · rw [gb] at ga1; exact absurd ga1 (by simp)
  · rw [ga2] at gb2; exact Option.some.inj gb2

/-! ## 2. Destination identifiers -/

/-- **ids_unique**: in every state of a run two different prefixes of a family have different
    destination identifiers. -/
theorem ids_unique (p : Profile) (c : Case) (g : Nat → Fam) (h : c.WFWith g) :
    ∀ tr ∈ (run p c).1, ∀ (f : Fam) (n1 n2 : Net) (i : Nat),
      tr.1.destId f n1 = some i → tr.1.destId f n2 = some i → n1 = n2 := by
  intro tr htr f n1 n2 i h1 h2
  have hinv := runFrom_inv allSound p c.ops h {} (inv_empty c g) tr htr
  exact C06.destId_inj (hinv.rib f) h1 h2

/-- a destination that survives a step keeps its identifier -/
theorem id_stable {p : Profile} {c : Case} {g : Nat → Fam} (h : c.WFWith g) {t t' : Table} {op : Op} {r : Res}
    (hs : RunStep p c t op t' r) (f : Fam) (n : Net) (i : Nat) (hi : t.destId f n = some i) :
    t'.destId f n = some i ∨ t'.destId f n = none :=
  (runStep_facts h hs).2.2.idStable f n i hi

/-! ## 3. Deferral -/

/-- **deferral_silent**: a step on a deferring family emits nothing for it, unless the step is the
    end of its deferral. -/
theorem deferral_silent {p : Profile} {c : Case} {g : Nat → Fam} (h : c.WFWith g) {t t' : Table} {op : Op} {r : Res}
    (hs : RunStep p c t op t' r) (f : Fam) (hd : (t.rib f).deferring = true) (hop : op.isEndDeferral f = false) :
    ∀ ch ∈ r.chs, ch.fam ≠ f :=
  (runStep_facts h hs).2.2.silent f hd hop

/-- **end_deferral_complete**: the end of a deferral emits every prefix of the family that has an
    exportable path, flagged `best` and `any`, with exactly its exportable paths. -/
theorem end_deferral_complete {p : Profile} {c : Case} {g : Nat → Fam} (h : c.WFWith g) {t t' : Table} {f : Fam}
    {r : Res} (hs : RunStep p c t (.endDeferral f) t' r) (n : Net) (hne : t'.elig f n ≠ []) :
    ∃ ch ∈ r.chs, ch.fam = f ∧ ch.net = n ∧ ch.best = true ∧ ch.any = true ∧ ch.paths = t'.elig f n := by
  obtain ⟨_, _, hf⟩ := runStep_facts h hs
  have hend : (Op.endDeferral f).isEndDeferral f = true := C06.fam_beq.mpr rfl
  obtain ⟨ch, hch, h1, h2, h3, h4⟩ := hf.endDeferral f hend n hne
  exact ⟨ch, hch, h1, h2, h3, h4, by rw [hf.exact ch hch, h1, h2]⟩

/-- the deferring flag of a family changes only through the start / end of its deferral -/
theorem deferring_flag {p : Profile} {c : Case} {g : Nat → Fam} (h : c.WFWith g) {t t' : Table} {op : Op} {r : Res}
    (hs : RunStep p c t op t' r) (f : Fam) :
    (t'.rib f).deferring =
      if op.isStartDeferral f then true else if op.isEndDeferral f then false else (t.rib f).deferring :=
  (runStep_facts h hs).2.2.deferring f

/-! ## Non-vacuity -/

def exSrc : Src := { id := 0, addr := 1, rid := 1, role := .ebgp, lim := none }
def exAttr : Attrs :=
  { id := 0, lp := some 100, origin := some 0, asPath := none, oid := none, cluster := none, comm := none, ext := none }
def exNet : Net := ⟨false, 1⟩

/-- a deferral that starts on an empty table, holds one announcement back and ends; then a withdrawal -/
def exCase : Case :=
  { srcs := [exSrc], attrs := [exAttr],
    ops := [ .startDeferral .v4,
             .insert exSrc .v4 exNet 0 (some 1) exAttr false false,
             .endDeferral .v4,
             .remove exSrc .v4 exNet 0 ] }

theorem exAttr_wf : exAttr.WF :=
  ⟨by intro bs h; simp [exAttr] at h, by intro bs h; simp [exAttr] at h, by intro bs h; simp [exAttr] at h⟩

theorem exCase_wf : exCase.WFWith (fun _ => .v4) := by
  intro op hop
  simp only [exCase, List.mem_cons, List.not_mem_nil, or_false] at hop
  rcases hop with rfl | rfl | rfl | rfl
  · trivial
  · exact ⟨rfl, rfl, exAttr_wf⟩
  · trivial
  · exact ⟨rfl, rfl⟩

theorem exCase_good : exCase.Good (fun _ => .v4) where
  wf := exCase_wf
  attrRef := by
    intro op hop
    simp only [exCase, List.mem_cons, List.not_mem_nil, or_false] at hop
    rcases hop with rfl | rfl | rfl | rfl <;> first | rfl | trivial

/-- the hypotheses of `check_run_ok` are satisfiable -/
example : SpecC06.check exCase (observe .debug exCase) = .ok := check_run_ok .debug exCase _ exCase_good

/-- the run of the example has four steps and does not panic -/
example : (run .debug exCase).1.length = 4 ∧ (run .debug exCase).2 = false := by decide

def exState (i : Nat) : Table := (states .debug exCase)[i]?.getD {}
def exRes (i : Nat) : Res := ((run .debug exCase).1[i]?.map (·.2)).getD .unit

/-- step 1 (the held-back insert) is a step of the run on a deferring family that is not the end of
    its deferral: `deferral_silent` applies -/
example : RunStep .debug exCase (exState 1) (.insert exSrc .v4 exNet 0 (some 1) exAttr false false)
    (exState 2) (exRes 1) ∧ ((exState 1).rib .v4).deferring = true := ⟨⟨1, rfl, rfl, rfl⟩, by decide⟩

/-- step 2 is the end of the deferral and the prefix has an exportable path afterwards:
    `end_deferral_complete` applies -/
example : RunStep .debug exCase (exState 2) (.endDeferral .v4) (exState 3) (exRes 2) ∧
    (exState 3).elig .v4 exNet ≠ [] := ⟨⟨2, rfl, rfl, rfl⟩, by decide⟩

/-- step 3 (the withdrawal) is a step on a family that is not deferring: `fold_full_eq` applies, and
    `fold_nonaddpath_best_eq` / `fold_addpath_topN_eq` apply to every other prefix -/
example : RunStep .debug exCase (exState 3) (.remove exSrc .v4 exNet 0) (exState 4) (exRes 3) ∧
    ((exState 3).rib .v4).deferring = false ∧
    (∀ ch ∈ (exRes 3).chs, ch.fam = .v4 → ch.net = ⟨false, 2⟩ → ch.best = false) ∧
    (∀ ch ∈ (exRes 3).chs, ch.fam = .v4 → ch.net = ⟨false, 2⟩ → ch.any = false) :=
  ⟨⟨3, rfl, rfl, rfl⟩, by decide, by decide, by decide⟩

/-- `ids_unique` speaks about a state with a live destination -/
example : ∃ tr ∈ (run .debug exCase).1, tr.1.destId .v4 exNet = some 0 :=
  ⟨(exState 3, exRes 2), List.mem_of_getElem? (i := 2) rfl, by decide⟩

end Rbgp.Rib.PropsC06

#print axioms Rbgp.Rib.PropsC06.check_run_ok
#print axioms Rbgp.Rib.PropsC06.runStep_facts
#print axioms Rbgp.Rib.PropsC06.fold_full_eq
#print axioms Rbgp.Rib.PropsC06.fold_nonaddpath_best_eq
#print axioms Rbgp.Rib.PropsC06.fold_addpath_topN_eq
#print axioms Rbgp.Rib.PropsC06.notified_id
#print axioms Rbgp.Rib.PropsC06.one_per_prefix
#print axioms Rbgp.Rib.PropsC06.same_prefix_same_payload
#print axioms Rbgp.Rib.PropsC06.ids_unique
#print axioms Rbgp.Rib.PropsC06.id_stable
#print axioms Rbgp.Rib.PropsC06.deferral_silent
#print axioms Rbgp.Rib.PropsC06.end_deferral_complete
#print axioms Rbgp.Rib.PropsC06.deferring_flag
