/-
  Rbgp.Rib.SpecC06 — C06 written from the property text as a reference checker over observations.

  "Folding the change notifications the RIB emits (new ranked path list per prefix, best-changed /
   any-changed flags) over any history yields exactly the RIB's current exportable state, so a
   consumer that skips notifications flagged as irrelevant to it still ends with the right best path
   and the right add-path set.  Destination identifiers carried in notifications are unique among
   live prefixes of a shard and family, and ending a deferral announces every prefix held back
   during it."

  Three consumers fold the stream:
    full      – stores `current_paths` of every notification;
    best-only – skips notifications with `best_changed = false` (a non-add-path neighbour);
    add-path  – skips notifications with `any_changed = false` (an add-path neighbour; comparing the
                whole stored list is comparing the top-N for every N).
  The consumers key what they store by the destination identifier carried in the notification (as
  `ExportMap` / `PendingTx` do).  After every step, for every family that is not deferring, each
  consumer's view must equal what `collect_loc_rib_paths` reports (same identifiers, prefixes, paths),
  and the dump must equal the reference path set folded from the operations (SpecRef).  A deferral is an episode that starts on a family whose exportable
  state is empty (the restarting speaker at start-up); a family whose deferral started otherwise is
  not judged until the end of that deferral re-announces everything (`assumptions` in checks/c06.py).
-/
import Rbgp.Rib.SpecRef
namespace Rbgp.Rib.SpecC06
open Rbgp.Rib

inductive Verdict where
  | ok
  | fail (step : Nat) (clause : String)
  deriving DecidableEq, Repr

/-- what a consumer stores: keyed by the destination identifier carried in the notification (as
    `ExportMap` / `PendingTx` do), the prefix and the ranked paths -/
abbrev View := List ((Fam × Nat) × (Net × List PathRef))

def vErase (k : Fam × Nat) : View → View
  | [] => []
  | (k', v) :: l => if k' = k then vErase k l else (k', v) :: vErase k l
def vSet (k : Fam × Nat) (v : Net × List PathRef) (m : View) : View := (k, v) :: vErase k m
def vGet (k : Fam × Nat) : View → Option (Net × List PathRef)
  | [] => none
  | (k', v) :: l => if k' = k then some v else vGet k l

/-- a consumer applies one notification: an empty path list withdraws the destination -/
def apply (m : View) (c : ChangeObs) : View :=
  if c.paths.isEmpty then vErase (c.fam, c.destId) m else vSet (c.fam, c.destId) (c.net, c.paths) m

def changesOf : ResObs → List ChangeObs
  | .ch c => [c]
  | .chs cs => cs
  | _ => []

structure St where
  full : View := []
  bestOnly : View := []
  addPath : View := []
  deferring : List Fam := []
  /-- families whose deferral did not start on an empty exportable state: not judged until the end
      of that deferral re-announces everything -/
  outside : List Fam := []
  ref : SpecRef.RefSt := {}

/-- identity of a best path as a non-add-path neighbour sees it: (source, attributes, next hop) -/
def bestIdent (ps : List PathRef) : Option (Nat × Nat × Option Nat) :=
  match ps with
  | p :: _ => some (p.src, p.attr, p.nh)
  | [] => none

def firstSome {α} (f : α → Option String) : List α → Option String
  | [] => none
  | a :: l => match f a with
    | some s => some s
    | none => firstSome f l

def nodupNat : List Nat → Bool
  | [] => true
  | x :: l => !l.contains x && nodupNat l

/-- every destination of family `f` in view `m` appears in the dump -/
def viewSubset (f : Fam) (m : View) (loc : List LocObs) : Bool :=
  m.all fun kv => kv.1.1 != f || loc.any fun l => l.destId = kv.1.2

def clauseLoc (st : St) (f : Fam) (l : LocObs) : Option String :=
  let k := (f, l.destId)
  match vGet k st.full with
  | none => some "full-consumer-misses-prefix"
  | some (n, ps) =>
      if n ≠ l.net then some "notified-destination-id-names-another-prefix"
      else if ps ≠ l.paths then some "full-consumer-paths-differ"
      else match vGet k st.bestOnly with
      | none => some "best-only-consumer-misses-prefix"
      | some (_, bp) =>
          if bestIdent bp ≠ bestIdent l.paths then some "best-only-consumer-best-differs"
          else match vGet k st.addPath with
          | none => some "add-path-consumer-misses-prefix"
          | some (_, ap) => if ap ≠ l.paths then some "add-path-consumer-paths-differ" else none

def checkFam (st : St) (fo : FamObs) : Option String :=
  if st.deferring.contains fo.fam || st.outside.contains fo.fam then none else
  -- identifiers of live prefixes are pairwise distinct
  if !nodupNat (fo.loc.map (·.destId)) then some "destination-ids-not-unique" else
  (firstSome (clauseLoc st fo.fam) fo.loc).orElse fun _ =>
  if !viewSubset fo.fam st.full fo.loc then some "full-consumer-keeps-withdrawn-prefix"
  else if !viewSubset fo.fam st.bestOnly fo.loc then some "best-only-consumer-keeps-withdrawn-prefix"
  else if !viewSubset fo.fam st.addPath fo.loc then some "add-path-consumer-keeps-withdrawn-prefix"
  else none

def famLoc (fams : List FamObs) (f : Fam) : List LocObs :=
  match fams.find? (fun o => o.fam = f) with
  | some o => o.loc
  | none => []

def hasFam (v : View) (f : Fam) : Bool := v.any fun kv => kv.1.1 == f
def dropFam (v : View) (f : Fam) : View := v.filter fun kv => kv.1.1 != f

def checkStep (c : Case) (st : St) (op : Op) (s : StepObs) : St × Option String :=
  let chs := changesOf s.res
  -- the end of a deferral that is not judged re-announces everything: its consumers start afresh
  let st0 : St := match op with
    | .endDeferral f =>
        if st.outside.contains f then
          { st with full := dropFam st.full f, bestOnly := dropFam st.bestOnly f, addPath := dropFam st.addPath f,
                    outside := st.outside.erase f }
        else st
    | _ => st
  let st1 : St := { st0 with
    full := chs.foldl apply st0.full
    bestOnly := (chs.filter (·.best)).foldl apply st0.bestOnly
    addPath := (chs.filter (·.any)).foldl apply st0.addPath
    ref := SpecRef.refStep c st0.ref op s.res }
  let st2 : St := match op with
    | .startDeferral f =>
        { st1 with deferring := f :: st1.deferring.erase f
                   outside := if hasFam st.full f then f :: st1.outside.erase f else st1.outside }
    | .endDeferral f => { st1 with deferring := st1.deferring.erase f }
    | _ => st1
  -- ending a deferral announces every prefix that has an exportable path
  let endOk : Option String := match op with
    | .endDeferral f =>
        if (famLoc s.fams f).all fun l => chs.any fun c => c.fam = f ∧ c.net = l.net ∧ c.paths = l.paths ∧ c.best ∧ c.any
        then none else some "end-of-deferral-misses-prefix"
    | _ => none
  (st2, (SpecRef.check c st2.ref s).orElse fun _ => endOk.orElse fun _ => firstSome (checkFam st2) s.fams)

def checkSteps (c : Case) : Nat → St → List Op → List StepObs → Verdict
  | _, _, _, [] => .ok
  | _, _, [], _ :: _ => .ok
  | i, st, op :: ops, s :: ss =>
      match checkStep c st op s with
      | (_, some cl) => .fail i cl
      | (st', none) => checkSteps c (i + 1) st' ops ss

/-- The C06 reference checker. -/
def check (c : Case) (o : Obs) : Verdict :=
  match checkSteps c 0 {} c.ops o.steps with
  | .fail i cl => .fail i cl
  | .ok =>
      if o.panicked then .fail o.steps.length "panic"
      else if o.steps.length ≠ c.ops.length then .fail o.steps.length "observation-misses-steps"
      else .ok

end Rbgp.Rib.SpecC06
