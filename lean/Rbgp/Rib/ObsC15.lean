/-
  Rbgp.Rib.ObsC15 — what the C15 reference checker reads in the observation of a model state that
  satisfies the invariant: the recounts over the dumped destinations are `recvCount` / `accCount` /
  `Rib.state`, the dumped statistics are `statsGet` and the dumped limit counters are `Table.ctr`.
-/
import Rbgp.Rib.SpecC15
import Rbgp.Rib.ObsFacts
import Rbgp.Rib.CtrFacts
namespace Rbgp.Rib.C15
open SpecC15

theorem firstSome_none {α} {f : α → Option String} {l : List α} (h : ∀ a ∈ l, f a = none) :
    firstSome f l = none := by
  induction l with
  | nil => rfl
  | cons a l ih =>
    simp only [firstSome, h a List.mem_cons_self]
    exact ih (fun b hb => h b (List.mem_cons_of_mem _ hb))

/-! ## sources -/

theorem addrOf_wf {c : Case} {s : Src} (h : s.WF c) : addrOf c s.id = some s.addr := by
  unfold addrOf; rw [show c.srcs[s.id]? = some s from h]; rfl

theorem fromAddr_dentry {c : Case} (fl : Flags) (addr : Nat) {e : Entry} (h : e.src.WF c) :
    fromAddr c addr (dentryOf fl e) = sameAddr addr e := by
  unfold fromAddr
  rw [show (dentryOf fl e).src = e.src.id from rfl, addrOf_wf h]
  simp [sameAddr]

theorem src_mem_of_wf {c : Case} {s : Src} (h : s.WF c) : s ∈ c.srcs := List.mem_of_getElem? h

theorem src_eq_of_id {c : Case} {s s' : Src} (h : s.WF c) (h' : s'.WF c) (e : s.id = s'.id) : s = s' := by
  unfold Src.WF at h h'
  rw [e, h'] at h
  exact (Option.some.inj h).symm

/-! ## recounts over a dump -/

section Counts
variable {fl : Flags} {ds : List (Net × Dest)} {D : List (Net × List DEntry)}

theorem countPrefixes_perm (q : DEntry → Bool)
    (hp : D.Perm (ds.map fun nd => (nd.1, nd.2.entries.map (dentryOf fl)))) :
    countPrefixes q D = (ds.filter fun nd => nd.2.entries.any fun e => q (dentryOf fl e)).length := by
  unfold countPrefixes
  rw [(hp.filter _).length_eq, List.filter_map, List.length_map]
  congr 2
  funext nd
  show (nd.2.entries.map (dentryOf fl)).any q = _
  rw [List.any_map]; rfl

theorem countPaths_perm (q : DEntry → Bool)
    (hp : D.Perm (ds.map fun nd => (nd.1, nd.2.entries.map (dentryOf fl)))) :
    countPaths q D = (ds.map fun nd => (nd.2.entries.filter fun e => q (dentryOf fl e)).length).sum := by
  unfold countPaths
  rw [(hp.map _).sum_nat, List.map_map]
  congr 2
  funext nd
  show ((nd.2.entries.map (dentryOf fl)).filter q).length = _
  rw [List.filter_map, List.length_map]; rfl

theorem nonEmpty_perm (hne : ∀ nd ∈ ds, nd.2.entries ≠ [])
    (hp : D.Perm (ds.map fun nd => (nd.1, nd.2.entries.map (dentryOf fl)))) :
    (D.filter fun d => !d.2.isEmpty).length = ds.length := by
  rw [(hp.filter _).length_eq, List.filter_map, List.length_map]
  congr 1
  apply List.filter_eq_self.mpr
  intro nd hnd
  have := hne nd hnd
  simp only [Function.comp]
  cases h : nd.2.entries with
  | nil => exact absurd h this
  | cons a l => rfl

end Counts

section Fam
variable {c : Case} {g : Nat → Fam}

theorem famObs_dests_perm (t : Table) (f : Fam) (h : RibInv c g t.flags f (t.rib f)) :
    (famObs c t f).dests.Perm ((t.rib f).dests.map fun nd => (nd.1, nd.2.entries.map (dentryOf t.flags))) := by
  have hfm : ∀ (l : List (Net × Dest)), (∀ nd ∈ l, nd.2.entries ≠ []) →
      (l.filterMap fun nd => (nonEmptyList (nd.2.entries.map (dentryOf t.flags))).map fun b => (nd.1, b)) =
        l.map fun nd => (nd.1, nd.2.entries.map (dentryOf t.flags)) := by
    intro l hl
    induction l with
    | nil => rfl
    | cons nd l ih =>
      rw [List.filterMap_cons, nonEmptyList_map _ (hl nd List.mem_cons_self)]
      simp only [Option.map_some, List.map_cons]
      rw [ih (fun x hx => hl x (List.mem_cons_of_mem _ hx))]
  show (viewOf (fun es => nonEmptyList (es.map (dentryOf t.flags))) (t.rib f).dests).Perm _
  unfold viewOf
  rw [hfm _ (fun nd hnd => (h.dest nd hnd).nonEmpty)]
  exact sortOn_perm _ _

theorem any_congr_mem {α} {p q : α → Bool} {l : List α} (h : ∀ a ∈ l, p a = q a) : l.any p = l.any q := by
  induction l with
  | nil => rfl
  | cons a l ih =>
    simp only [List.any_cons, h a List.mem_cons_self, ih (fun b hb => h b (List.mem_cons_of_mem _ hb))]

theorem obs_recv (t : Table) (f : Fam) (h : RibInv c g t.flags f (t.rib f)) (a : Nat) :
    countPrefixes (fromAddr c a) (famObs c t f).dests = recvCount a (t.rib f) := by
  rw [countPrefixes_perm _ (famObs_dests_perm t f h)]
  unfold recvCount
  congr 1
  apply List.filter_congr
  intro nd hnd
  exact any_congr_mem fun e he => fromAddr_dentry t.flags a ((h.dest nd hnd).srcOk e he).1

/-- the checker's per-session recount is `sessCount` -/
theorem obs_sess (t : Table) (f : Fam) (h : RibInv c g t.flags f (t.rib f)) (i : Nat) :
    countPrefixes (fun e => e.src == i) (famObs c t f).dests = sessCount i (t.rib f) := by
  rw [countPrefixes_perm _ (famObs_dests_perm t f h)]
  rfl

theorem obs_acc (t : Table) (f : Fam) (h : RibInv c g t.flags f (t.rib f)) (a : Nat) :
    countPaths (fun e => fromAddr c a e && !e.filtered) (famObs c t f).dests = accCount a (t.rib f) := by
  rw [countPaths_perm _ (famObs_dests_perm t f h)]
  unfold accCount
  congr 1
  apply List.map_congr_left
  intro nd hnd
  congr 1
  apply List.filter_congr
  intro e he
  rw [fromAddr_dentry t.flags a ((h.dest nd hnd).srcOk e he).1]
  rfl

/-- the unfiltered prefixes of a peer are among its prefixes -/
theorem obs_unf_le (t : Table) (f : Fam) (h : RibInv c g t.flags f (t.rib f)) (a : Nat) :
    countPrefixes (fun e => fromAddr c a e && !e.filtered) (famObs c t f).dests ≤ recvCount a (t.rib f) := by
  rw [← obs_recv t f h a]
  unfold countPrefixes
  have : ∀ (l : List (Net × List DEntry)),
      (l.filter fun d => d.2.any fun e => fromAddr c a e && !e.filtered).length ≤
      (l.filter fun d => d.2.any (fromAddr c a)).length := by
    intro l
    induction l with
    | nil => simp
    | cons d l ih =>
      simp only [List.filter_cons]
      by_cases h1 : (d.2.any fun e => fromAddr c a e && !e.filtered) = true
      · have h2 : d.2.any (fromAddr c a) = true := by
          rw [List.any_eq_true] at h1 ⊢
          obtain ⟨e, he, hq⟩ := h1
          rw [Bool.and_eq_true] at hq
          exact ⟨e, he, hq.1⟩
        rw [if_pos h1, if_pos h2]; simp only [List.length_cons]; omega
      · rw [if_neg h1]
        split
        · simp only [List.length_cons]; omega
        · exact ih
  exact this _

theorem obs_state (t : Table) (f : Fam) (h : RibInv c g t.flags f (t.rib f)) :
    (famObs c t f).state.1 = ((famObs c t f).dests.filter fun d => !d.2.isEmpty).length ∧
    (famObs c t f).state.2.1 = countPaths (fun _ => true) (famObs c t f).dests ∧
    (famObs c t f).state.2.2 = countPaths (fun e => !e.filtered) (famObs c t f).dests := by
  have hp := famObs_dests_perm t f h
  refine ⟨?_, ?_, ?_⟩
  · rw [nonEmpty_perm (fun nd hnd => (h.dest nd hnd).nonEmpty) hp]; rfl
  · rw [countPaths_perm _ hp]
    show ((t.rib f).dests.flatMap fun nd => nd.2.entries).length = _
    rw [List.length_flatMap]
    congr 1
    apply List.map_congr_left
    intro nd _
    rw [List.filter_eq_self.mpr (fun _ _ => rfl)]
  · rw [countPaths_perm _ hp]
    show (((t.rib f).dests.flatMap fun nd => nd.2.entries).filter fun e => !e.filtered).length = _
    rw [List.filter_flatMap, List.length_flatMap]
    rfl

end Fam

/-! ## the dumped statistics and counters -/

theorem find_filter_key {κ ν : Type} [DecidableEq κ] (P : κ → Bool) (k : κ) (l : List (κ × ν)) :
    (l.filter fun s => P s.1).find? (fun s => s.1 = k) =
      if P k then (alookup k l).map (fun v => (k, v)) else none := by
  induction l with
  | nil => simp [alookup]
  | cons x l ih =>
    obtain ⟨k', v⟩ := x
    by_cases hk : k' = k
    · subst hk
      cases hP : P k'
      · simp only [List.filter_cons, hP, Bool.false_eq_true, if_false]
        rw [ih, hP]; rfl
      · simp [hP, alookup]
    · cases hP : P k'
      · simp only [List.filter_cons, hP, Bool.false_eq_true, if_false, alookup, hk]
        exact ih
      · simp only [List.filter_cons, hP, if_true, alookup, hk, if_false, List.find?_cons, decide_false]
        exact ih

theorem find_filter_val {κ ν : Type} [DecidableEq κ] (Q : ν → Bool) (k : κ) {l : List (κ × ν)}
    (hn : (l.map (·.1)).Nodup) :
    (l.filter fun s => Q s.2).find? (fun s => s.1 = k) =
      (alookup k l).bind fun v => if Q v then some (k, v) else none := by
  induction l with
  | nil => simp [alookup]
  | cons x l ih =>
    obtain ⟨k', v⟩ := x
    simp only [List.map_cons, List.nodup_cons] at hn
    by_cases hk : k' = k
    · subst hk
      cases hQ : Q v
      · have hnone : alookup k' l = none := alookup_none_iff.mpr hn.1
        simp only [List.filter_cons, hQ, Bool.false_eq_true, if_false, alookup, if_true, Option.bind_some]
        rw [ih hn.2, hnone]; rfl
      · simp [hQ, alookup]
    · cases hQ : Q v
      · simp only [List.filter_cons, hQ, Bool.false_eq_true, if_false, alookup, hk]
        exact ih hn.2
      · simp only [List.filter_cons, hQ, if_true, alookup, hk, if_false, List.find?_cons, decide_false]
        exact ih hn.2

theorem statOf_stepObs {c : Case} {g : Nat → Fam} {t : Table} (h : Inv c g t) (op : Op) (r : Res) {a : Nat}
    (ha : a ∈ c.srcs.map (·.addr)) (f : Fam) :
    statOf (stepObs c op (t, r)) a f = (recvCount a (t.rib f), accCount a (t.rib f)) := by
  rw [← h.stats.get a f]
  unfold statOf statsGet
  show (match ((sortOn (fun a b => natFamLt a.1 b.1)
      (t.stats.filter fun s => (c.srcs.map (·.addr)).contains s.1.1)).map
        fun s => (s.1.1, s.1.2, s.2.1, s.2.2)).find? (fun x => x.1 = a ∧ x.2.1 = f) with
    | some x => (x.2.2.1, x.2.2.2) | none => (0, 0)) = _
  rw [List.find?_map]
  have hpred : ((fun x : Nat × Fam × Nat × Nat => decide (x.1 = a ∧ x.2.1 = f)) ∘
      fun s : (Nat × Fam) × (Nat × Nat) => (s.1.1, s.1.2, s.2.1, s.2.2)) = fun s => decide (s.1 = (a, f)) := by
    funext s
    simp only [Function.comp, Prod.ext_iff]
  rw [hpred, find?_sortOn_key (fun s : (Nat × Fam) × (Nat × Nat) => s.1)]
  · rw [find_filter_key (fun k : Nat × Fam => (c.srcs.map (·.addr)).contains k.1) (a, f) t.stats]
    have : (c.srcs.map (·.addr)).contains a = true := by simpa using ha
    simp only [this, if_true]
    cases alookup (a, f) t.stats <;> rfl
  · exact List.Pairwise.sublist (List.filter_sublist.map _) h.statsKeys

theorem ctrOf_stepObs {c : Case} {g : Nat → Fam} {t : Table} (h : Inv c g t) (op : Op) (r : Res) (i : Nat) (f : Fam) :
    ctrOf (stepObs c op (t, r)) i f = t.ctr (i, f) := by
  unfold ctrOf Table.ctr
  show (match ((sortOn (fun a b => natFamLt a.1 b.1) (t.ctrs.filter fun s => s.2 != 0)).map
        fun s => (s.1.1, s.1.2, s.2)).find? (fun x => x.1 = i ∧ x.2.1 = f) with
    | some x => x.2.2 | none => 0) = _
  rw [List.find?_map]
  have hpred : ((fun x : Nat × Fam × Nat => decide (x.1 = i ∧ x.2.1 = f)) ∘
      fun s : (Nat × Fam) × Nat => (s.1.1, s.1.2, s.2)) = fun s => decide (s.1 = (i, f)) := by
    funext s
    simp only [Function.comp, Prod.ext_iff]
  rw [hpred, find?_sortOn_key (fun s : (Nat × Fam) × Nat => s.1)]
  · rw [find_filter_val (fun v : Nat => v != 0) (i, f) h.ctrKeys]
    cases alookup (i, f) t.ctrs with
    | none => rfl
    | some v =>
      by_cases hv : v = 0
      · subst hv; rfl
      · have : (v != 0) = true := by simpa using hv
        simp only [Option.bind_some, this, if_true, Option.map_some]
  · exact List.Pairwise.sublist (List.filter_sublist.map _) h.ctrKeys

/-- no dumped limit counter is in the "underflow" half when no counter of the table is -/
theorem ctrs_any_stepObs {c : Case} {g : Nat → Fam} {t : Table} (h : Inv c g t) (op : Op) (r : Res)
    (hb : ∀ key, t.ctr key < HALF) :
    ((stepObs c op (t, r)).ctrs.any fun x => decide (x.2.2 ≥ HALF)) = false := by
  rw [List.any_eq_false]
  intro x hx
  have hx' : x ∈ (sortOn (fun a b => natFamLt a.1 b.1) (t.ctrs.filter fun s => s.2 != 0)).map
      fun s => (s.1.1, s.1.2, s.2) := hx
  obtain ⟨s, hs, rfl⟩ := List.mem_map.mp hx'
  have hs' : s ∈ t.ctrs := (List.mem_filter.mp (mem_sortOn.mp hs)).1
  have hl : alookup s.1 t.ctrs = some s.2 := alookup_of_mem h.ctrKeys (show (s.1, s.2) ∈ t.ctrs from hs')
  have hv : t.ctr s.1 = s.2 := by unfold Table.ctr; rw [hl]
  have := hb s.1
  rw [hv] at this
  simp only [decide_eq_true_eq]
  omega

/-! ## the family dumps of a step -/

theorem famDests_allFams (c : Case) (t : Table) (f : Fam) : famDests (allFams.map (famObs c t)) f = (famObs c t f).dests := by
  cases f <;> simp [famDests, allFams, famObs]

theorem fams_any (c : Case) (t : Table) (f : Fam) : ((allFams.map (famObs c t)).any fun fo => fo.fam = f) = true := by
  cases f <;> simp [allFams, famObs]

theorem mem_fams {c : Case} {t : Table} {fo : FamObs} (h : fo ∈ allFams.map (famObs c t)) : ∃ f, fo = famObs c t f := by
  simp only [allFams, List.map_cons, List.map_nil, List.mem_cons, List.not_mem_nil, or_false] at h
  rcases h with h | h
  · exact ⟨_, h⟩
  · exact ⟨_, h⟩

/-- `wasKnown` of the checker is "the peer already had a path for the prefix" -/
theorem obs_known {c : Case} {g : Nat → Fam} (t : Table) (f : Fam) (h : RibInv c g t.flags f (t.rib f))
    (n : Net) (a : Nat) :
    ((famObs c t f).dests.any fun d => d.1 = n && d.2.any (fromAddr c a)) =
      (t.entries f n).any (sameAddr a) := by
  rw [Bool.eq_iff_iff, List.any_eq_true, List.any_eq_true]
  unfold Table.entries
  constructor
  · rintro ⟨d, hd, hq⟩
    obtain ⟨nd, hnd, rfl⟩ := (famObs_dests_mem t f h).mp hd
    simp only [Bool.and_eq_true, decide_eq_true_eq] at hq
    obtain ⟨hn, hany⟩ := hq
    subst hn
    rw [alookup_of_mem h.keys (show (nd.1, nd.2) ∈ _ from hnd)]
    rw [List.any_map, List.any_eq_true] at hany
    obtain ⟨e, he, hq⟩ := hany
    refine ⟨e, he, ?_⟩
    rw [← fromAddr_dentry t.flags a ((h.dest nd hnd).srcOk e he).1]; exact hq
  · rintro ⟨e, he, hq⟩
    cases hl : alookup n (t.rib f).dests with
    | none => rw [hl] at he; simp at he
    | some d =>
      rw [hl] at he
      have hnd := alookup_some_mem hl
      refine ⟨(n, d.entries.map (dentryOf t.flags)), (famObs_dests_mem t f h).mpr ⟨(n, d), hnd, rfl⟩, ?_⟩
      simp only [decide_true, Bool.true_and, List.any_map, List.any_eq_true]
      refine ⟨e, he, ?_⟩
      simp only [Function.comp]
      rw [fromAddr_dentry t.flags a ((h.dest _ hnd).srcOk e he).1]; exact hq

end Rbgp.Rib.C15
