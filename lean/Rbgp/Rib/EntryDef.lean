/-
  Rbgp.Rib.EntryDef — how the set of paths of every prefix evolves in one step of the model
  (statement only; discharged per operation in InvInsert / InvPurge / InvMisc).  Needed to relate the
  spec-side bookkeeping of next-hop reachability (SpecC02.nhStep) to the model's flags.
-/
import Rbgp.Rib.InvDef
namespace Rbgp.Rib

/-- all paths of a prefix, ranked; `[]` if the prefix is absent -/
def Table.entries (t : Table) (f : Fam) (n : Net) : List Entry :=
  match alookup n (t.rib f).dests with
  | some d => d.entries
  | none => []

/-- the flipped entry of `update_nexthop_validity` -/
def nhFlip (k : Nat) (reachable : Bool) (e : Entry) : Entry :=
  if e.nh == some k then { e with nhInv := !reachable } else e

/-- what a step does to a path that stays -/
def Op.flip : Op → Entry → Entry
  | .nhValidity k r, e => nhFlip k r e
  | _, e => e

/-- `x0` (a path of prefix (f, n)) has the path key an `insert` writes -/
def Op.replaces (op : Op) (f : Fam) (n : Net) (x0 : Entry) : Prop :=
  match op with
  | .insert src fam net rpid _ _ _ _ => f = fam ∧ n = net ∧ x0.src.addr = src.addr ∧ x0.rpid = rpid
  | _ => False

/-- `x` is the path an `insert` creates for prefix (f, n) -/
def Op.inserts (op : Op) (f : Fam) (n : Net) (x : Entry) : Prop :=
  match op with
  | .insert src fam net rpid nh attr filtered nhInv =>
      f = fam ∧ n = net ∧ x.src = src ∧ x.rpid = rpid ∧ x.nh = nh ∧ x.nhInv = nhInv ∧ x.attr = attr ∧
        x.filtered = filtered
  | _ => False

structure EntryFacts (t : Table) (op : Op) (t' : Table) (r : Res) : Prop where
  /-- every path after the step is (the image of) a path that was there and was not overwritten,
      or the path an accepted `insert` created -/
  mem : ∀ f n x, x ∈ t'.entries f n →
      (∃ x0 ∈ t.entries f n, x = op.flip x0 ∧ (r = .limit ∨ ¬ op.replaces f n x0)) ∨
      (op.inserts f n x ∧ r ≠ .limit)
  /-- a limit rejection changes no path -/
  limit : r = .limit → ∀ f n, t'.entries f n = t.entries f n

/-- the step removes the existing path `x0` of prefix (f, n) (tested on the table before the step;
    for `insert`: the path it overwrites, if it is accepted) -/
def Op.removes (op : Op) (t : Table) (f : Fam) (n : Net) (x0 : Entry) : Bool :=
  match op with
  | .insert src fam net rpid _ _ _ _ => f == fam && n == net && x0.src.addr == src.addr && x0.rpid == rpid
  | .remove src fam net rpid => f == fam && n == net && x0.src.addr == src.addr && x0.rpid == rpid
  | .drop a fam => f == fam && sameAddr a x0
  | .dropStale a fam _ => f == fam && sameAddr a x0 && x0.isStale t.flags
  | .dropLlgr a fam _ => f == fam && sameAddr a x0 && t.flags.llgr.contains x0.src.id
  | .dropNoLlgr a fam _ => f == fam && sameAddr a x0 && x0.attr.hasNoLlgr
  | _ => false

/-- the sessions a step marks: ids of the sources of peer `a` that hold a path in family `f` -/
def marksOf (t : Table) (a : Nat) (f : Fam) (i : Nat) : Prop :=
  ∃ n, ∃ x ∈ t.entries f n, sameAddr a x = true ∧ x.src.id = i

/-- The EXACT evolution of the path set and of the stale markers in one step that is not a limit
    rejection (a limit rejection changes nothing: `EntryFacts.limit`). -/
structure EntryExact (t : Table) (op : Op) (t' : Table) (r : Res) : Prop where
  /-- a path the step does not remove stays (flipped by a next-hop validity update) -/
  keep : r ≠ .limit → ∀ f n x0, x0 ∈ t.entries f n → op.removes t f n x0 = false → op.flip x0 ∈ t'.entries f n
  /-- an accepted `insert` creates its path -/
  ins : r ≠ .limit → ∀ f n, (∃ x, op.inserts f n x) → ∃ x ∈ t'.entries f n, op.inserts f n x
  /-- nothing else is there afterwards -/
  only : r ≠ .limit → ∀ f n x, x ∈ t'.entries f n →
      (∃ x0 ∈ t.entries f n, x = op.flip x0 ∧ op.removes t f n x0 = false) ∨ op.inserts f n x
  stale : ∀ i, i ∈ t'.stale ↔ (i ∈ t.stale ∨ ∃ a f, op = .restale a f ∧ marksOf t a f i)
  llgr : ∀ i, i ∈ t'.llgr ↔ (i ∈ t.llgr ∨ ∃ a f, op = .restaleLlgr a f ∧ marksOf t a f i)

def ExactSound (sel : Op → Prop) : Prop :=
  ∀ (c : Case) (g : Nat → Fam) (p : Profile) (t : Table) (op : Op) (t' : Table) (r : Res),
    sel op → op.WF c g → Inv c g t → t.step p op = .ok (t', r) → EntryExact t op t' r

/-- What each per-operation proof file additionally establishes for its operations. -/
def EntrySound (sel : Op → Prop) : Prop :=
  ∀ (c : Case) (g : Nat → Fam) (p : Profile) (t : Table) (op : Op) (t' : Table) (r : Res),
    sel op → op.WF c g → Inv c g t → t.step p op = .ok (t', r) → EntryFacts t op t' r

end Rbgp.Rib
