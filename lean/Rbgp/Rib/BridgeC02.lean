/-
  Rbgp.Rib.BridgeC02 — the model's comparator IS the decision order of the property text
  (`cmp_iff_beats`), attribute by attribute: the model's getters agree with the independent readings
  of SpecC02 on well-formed attributes.
-/
import Rbgp.Rib.InvDef
import Rbgp.Rib.SpecC02
namespace Rbgp.Rib
open SpecC02

/-! ## attribute readings -/

theorem segHops_eq (t l : Nat) : segHops (t, l) = (match t with | 1 => 1 | 2 => l | _ => 0) := by
  unfold segHops
  split <;> simp_all

theorem hopSum_eq_hopsOf (bs : List Nat) : ((segments bs).map segHops).sum = hopsOf bs := by
  match bs with
  | [] => simp [segments, hopsOf]
  | [_] => simp [segments, hopsOf]
  | t :: l :: rest =>
    have ih := hopSum_eq_hopsOf (rest.drop (l * 4))
    have e : hopsOf (t :: l :: rest) = (match t with | 1 => 1 | 2 => l | _ => 0) + hopsOf (rest.drop (l * 4)) := by
      rw [hopsOf.eq_def]; rfl
    rw [segments, e, List.map_cons, List.sum_cons, Nat.mul_comm 4 l, ih, segHops_eq]
termination_by bs.length
decreasing_by simp [List.length_drop]; omega

theorem hopCount_eq_hopsOf (bs : List Nat) : hopCount bs = hopsOf bs := hopSum_eq_hopsOf bs

theorem groups4_cons (a b c d : Nat) (rest : List Nat) :
    groups 4 (a :: b :: c :: d :: rest) = [a, b, c, d] :: groups 4 rest := by
  rw [groups]; simp

theorem groups4_short (l : List Nat) (h : l.length < 4) : groups 4 l = [] := by
  rw [groups]; simp; omega

theorem be32_eq_iff {a b c d : Nat} (_ha : a < 256) (hb : b < 256) (hc : c < 256) (hd : d < 256)
    (x y z w : Nat) (hx : x < 256) (hy : y < 256) (hz : z < 256) (hw : w < 256) :
    be32 a b c d = be32 x y z w ↔ a = x ∧ b = y ∧ c = z ∧ d = w := by
  unfold be32; constructor
  · intro h; omega
  · rintro ⟨rfl, rfl, rfl, rfl⟩; rfl

theorem llgr_group_iff {a b c d : Nat} (ha : a < 256) (hb : b < 256) (hc : c < 256) (hd : d < 256) :
    ([a, b, c, d] == [255, 255, 0, 6]) = (be32 a b c d == LLGR_STALE) := by
  have e : LLGR_STALE = be32 255 255 0 6 := by decide
  have h := be32_eq_iff ha hb hc hd 255 255 0 6 (by omega) (by omega) (by omega) (by omega)
  rw [e]
  by_cases hh : be32 a b c d = be32 255 255 0 6
  · obtain ⟨rfl, rfl, rfl, rfl⟩ := h.mp hh; simp
  · have : ¬ (a = 255 ∧ b = 255 ∧ c = 0 ∧ d = 6) := fun x => hh (h.mpr x)
    have h2 : (be32 a b c d == be32 255 255 0 6) = false := by simpa using hh
    rw [h2]
    simp only [beq_eq_false_iff_ne, ne_eq, List.cons.injEq, and_true]
    exact this

theorem anyGroups4_eq (bs : List Nat) (hb : ∀ b ∈ bs, b < 256) :
    (groups 4 bs).any (· == [255, 255, 0, 6]) = hasComm4 LLGR_STALE bs := by
  match bs with
  | [] => rw [groups4_short _ (by simp)]; simp [hasComm4]
  | [_] => rw [groups4_short _ (by simp)]; simp [hasComm4]
  | [_, _] => rw [groups4_short _ (by simp)]; simp [hasComm4]
  | [_, _, _] => rw [groups4_short _ (by simp)]; simp [hasComm4]
  | a :: b :: c :: d :: rest =>
    have ih := anyGroups4_eq rest (fun x hx => hb x (by simp [hx]))
    rw [groups4_cons, List.any_cons, hasComm4, ih,
      llgr_group_iff (hb a (by simp)) (hb b (by simp)) (hb c (by simp)) (hb d (by simp))]

theorem carriesLlgrStale_eq (bs : List Nat) (hb : ∀ b ∈ bs, b < 256) :
    carriesLlgrStale bs = hasComm4 LLGR_STALE bs := anyGroups4_eq bs hb

theorem groups8_cons (e0 e1 e2 e3 e4 e5 e6 e7 : Nat) (rest : List Nat) :
    groups 8 (e0 :: e1 :: e2 :: e3 :: e4 :: e5 :: e6 :: e7 :: rest) =
      [e0, e1, e2, e3, e4, e5, e6, e7] :: groups 8 rest := by
  rw [groups]; simp

theorem groups8_short (l : List Nat) (h : l.length < 8) : groups 8 l = [] := by
  rw [groups]; simp; omega

theorem findGroups8_eq (bs : List Nat) :
    (match (groups 8 bs).find? (fun g => g.take 2 == [6, 0]) with
      | some g => some ((g.drop 4).foldl (fun acc b => acc * 256 + b) 0)
      | none => none) = macMobilitySeq bs := by
  match bs with
  | [] => rw [groups8_short _ (by simp)]; simp [macMobilitySeq]
  | [_] => rw [groups8_short _ (by simp)]; simp [macMobilitySeq]
  | [_, _] => rw [groups8_short _ (by simp)]; simp [macMobilitySeq]
  | [_, _, _] => rw [groups8_short _ (by simp)]; simp [macMobilitySeq]
  | [_, _, _, _] => rw [groups8_short _ (by simp)]; simp [macMobilitySeq]
  | [_, _, _, _, _] => rw [groups8_short _ (by simp)]; simp [macMobilitySeq]
  | [_, _, _, _, _, _] => rw [groups8_short _ (by simp)]; simp [macMobilitySeq]
  | [_, _, _, _, _, _, _] => rw [groups8_short _ (by simp)]; simp [macMobilitySeq]
  | e0 :: e1 :: e2 :: e3 :: e4 :: e5 :: e6 :: e7 :: rest =>
    have ih := findGroups8_eq rest
    rw [groups8_cons, macMobilitySeq, List.find?_cons]
    by_cases h : e0 = 6 ∧ e1 = 0
    · obtain ⟨rfl, rfl⟩ := h
      simp [be32]; omega
    · have h1 : ([e0, e1, e2, e3, e4, e5, e6, e7].take 2 == [6, 0]) = false := by
        simp only [List.take, beq_eq_false_iff_ne, ne_eq, List.cons.injEq, and_true]
        exact h
      have h2 : (e0 == 6 && e1 == 0) = false := by
        simp only [Bool.and_eq_false_iff, beq_eq_false_iff_ne, ne_eq]
        by_cases h0 : e0 = 6
        · right; exact fun h' => h ⟨h0, h'⟩
        · left; exact h0
      rw [h1, h2]
      simpa using ih

theorem mobilitySeq_eq (bs : List Nat) : mobilitySeq bs = macMobilitySeq bs := findGroups8_eq bs

/-! ## keys -/

/-- what the invariant guarantees about an entry's attributes and cached hop count -/
structure EntryOk (e : Entry) : Prop where
  wf : e.attr.WF
  aslen : e.aslen = e.attr.hops

/-- the decision-order key the SPEC computes for an entry of the model -/
def specKey (fl : Flags) (t2 : Bool) (e : Entry) : PKey := keyOf t2 fl.stale fl.llgr e.src e.attr

/-- a spec key and a model rank key describe the same path -/
structure KeyRel (k : PKey) (r : RKey) : Prop where
  mm : r.mm = mmRank k.mm
  llgr : r.llgr = k.llgr.toNat
  lp : r.lp = k.lp
  hops : r.aslen = k.hops
  origin : r.origin = k.origin
  ebgp : r.ebgp = k.ebgp.toNat
  stale : r.stale = k.stale.toNat
  cluster : r.cluster = k.cluster
  rid : r.oid = k.rid

theorem isEbgp_eq (r : Role) : isEbgp r = r.prefersOverIbgp := by cases r <;> rfl

theorem keyRel_of_entry (fl : Flags) (t2 : Bool) {e : Entry} (h : EntryOk e) :
    KeyRel (specKey fl t2 e) (rkey fl t2 e) where
  mm := by
    simp only [specKey, keyOf, rkey, Attrs.mm]
    cases t2
    · simp [mmRank]
    · cases he : e.attr.ext <;> simp [mobilitySeq_eq]
  llgr := by
    simp only [specKey, keyOf, rkey, Entry.isLlgr, Attrs.hasLlgrStale]
    cases hc : e.attr.comm with
    | none => simp
    | some bs => simp [carriesLlgrStale_eq bs (h.wf.commBytes bs hc)]
  lp := by simp only [specKey, keyOf, rkey, Attrs.localPref]; cases e.attr.lp <;> rfl
  hops := by
    simp only [specKey, keyOf, rkey, h.aslen, Attrs.hops]
    cases e.attr.asPath <;> simp [hopCount_eq_hopsOf]
  origin := by simp only [specKey, keyOf, rkey, Attrs.originV]; cases e.attr.origin <;> rfl
  ebgp := by simp only [specKey, keyOf, rkey, isEbgp_eq]
  stale := by simp only [specKey, keyOf, rkey, Entry.isStale]
  cluster := by simp only [specKey, keyOf, rkey, Attrs.clusterLen]; cases e.attr.cluster <;> rfl
  rid := by simp only [specKey, keyOf, rkey, Entry.originatorId]; cases e.attr.oid <;> rfl

theorem firstDiff_cons_cmp (s : PKey → PKey → Bool) (rest : List (PKey → PKey → Bool)) (a b : PKey)
    (o R : Ordering) (hlt : s a b = true ↔ o = .lt) (hgt : s b a = true ↔ o = .gt)
    (hrest : firstDiff rest a b = (R == .lt)) : firstDiff (s :: rest) a b = (o.then R == .lt) := by
  cases o
  · have : s a b = true := hlt.mpr rfl
    simp [firstDiff, this, Ordering.then]
  · have h1 : s a b = false := by
      cases h : s a b
      · rfl
      · exact absurd (hlt.mp h) (by simp)
    have h2 : s b a = false := by
      cases h : s b a
      · rfl
      · exact absurd (hgt.mp h) (by simp)
    simp [firstDiff, h1, h2, Ordering.then, hrest]
  · have h1 : s a b = false := by
      cases h : s a b
      · rfl
      · exact absurd (hlt.mp h) (by simp)
    have : s b a = true := hgt.mpr rfl
    simp [firstDiff, h1, this, Ordering.then]

theorem toNat_lt_iff (x y : Bool) : x.toNat < y.toNat ↔ (x = false ∧ y = true) := by
  cases x <;> cases y <;> simp

theorem mmRank_lt_iff (x y : Option Nat) :
    mmRank x < mmRank y ↔ (match y, x with | some a, some b => a > b | some _, none => True | _, _ => False) := by
  cases x <;> cases y <;> simp [mmRank] <;> omega

/-- **cmp_iff_beats** (key form): the stated decision order is the model's lexicographic order. -/
theorem beats_eq_cmpK {ka kb : PKey} {ra rb : RKey} (ha : KeyRel ka ra) (hb : KeyRel kb rb) :
    beats ka kb = (cmpK ra rb == .lt) := by
  unfold beats allSteps stepsBeforeRid cmpK
  simp only [List.cons_append, List.nil_append]
  refine firstDiff_cons_cmp _ _ _ _ _ _ ?_ ?_ ?_
  · rw [Nat.compare_eq_lt, ha.mm, hb.mm, mmRank_lt_iff]; unfold mmBetter
    cases ka.mm <;> cases kb.mm <;> simp
  · rw [Nat.compare_eq_gt, ha.mm, hb.mm, mmRank_lt_iff]; unfold mmBetter
    cases ka.mm <;> cases kb.mm <;> simp
  refine firstDiff_cons_cmp _ _ _ _ _ _ ?_ ?_ ?_
  · rw [Nat.compare_eq_lt, ha.llgr, hb.llgr, toNat_lt_iff]; simp [llgrBetter]
  · rw [Nat.compare_eq_gt, ha.llgr, hb.llgr, toNat_lt_iff]; simp [llgrBetter]
  refine firstDiff_cons_cmp _ _ _ _ _ _ ?_ ?_ ?_
  · rw [Nat.compare_eq_lt, ha.lp, hb.lp]; simp [lpBetter]
  · rw [Nat.compare_eq_gt, ha.lp, hb.lp]; simp [lpBetter]
  refine firstDiff_cons_cmp _ _ _ _ _ _ ?_ ?_ ?_
  · rw [Nat.compare_eq_lt, ha.hops, hb.hops]; simp [hopsBetter]
  · rw [Nat.compare_eq_gt, ha.hops, hb.hops]; simp [hopsBetter]
  refine firstDiff_cons_cmp _ _ _ _ _ _ ?_ ?_ ?_
  · rw [Nat.compare_eq_lt, ha.origin, hb.origin]; simp [originBetter]
  · rw [Nat.compare_eq_gt, ha.origin, hb.origin]; simp [originBetter]
  refine firstDiff_cons_cmp _ _ _ _ _ _ ?_ ?_ ?_
  · rw [Nat.compare_eq_lt, ha.ebgp, hb.ebgp, toNat_lt_iff]; simp [ebgpBetter]; exact And.comm
  · rw [Nat.compare_eq_gt, ha.ebgp, hb.ebgp, toNat_lt_iff]; simp [ebgpBetter]; exact And.comm
  refine firstDiff_cons_cmp _ _ _ _ _ _ ?_ ?_ ?_
  · rw [Nat.compare_eq_lt, ha.stale, hb.stale, toNat_lt_iff]; simp [staleBetter]
  · rw [Nat.compare_eq_gt, ha.stale, hb.stale, toNat_lt_iff]; simp [staleBetter]
  refine firstDiff_cons_cmp _ _ _ _ _ _ ?_ ?_ ?_
  · rw [Nat.compare_eq_lt, ha.cluster, hb.cluster]; simp [clusterBetter]
  · rw [Nat.compare_eq_gt, ha.cluster, hb.cluster]; simp [clusterBetter]
  have : firstDiff [ridBetter] ka kb = ((compare ra.oid rb.oid).then .eq == .lt) :=
    firstDiff_cons_cmp _ _ _ _ _ .eq
      (by rw [Nat.compare_eq_lt, ha.rid, hb.rid]; simp [ridBetter])
      (by rw [Nat.compare_eq_gt, ha.rid, hb.rid]; simp [ridBetter])
      (by simp [firstDiff])
  rw [this]
  cases compare ra.oid rb.oid <;> rfl

/-! ## ECMP: "equal on every step before the router-id" -/

/-- the eight rank-key components before the router-id -/
def RKey.pre (r : RKey) : Nat × Nat × Nat × Nat × Nat × Nat × Nat × Nat :=
  (r.mm, r.llgr, r.lp, r.aslen, r.origin, r.ebgp, r.stale, r.cluster)

theorem mmRank_inj {x y : Option Nat} (h : mmRank x = mmRank y) : x = y := by
  cases x <;> cases y <;> simp [mmRank] at h ⊢ <;> omega

theorem toNat_inj {x y : Bool} (h : x.toNat = y.toNat) : x = y := by
  cases x <;> cases y <;> simp at h ⊢

theorem tied_iff {ka kb : PKey} {ra rb : RKey} (ha : KeyRel ka ra) (hb : KeyRel kb rb) :
    tiedBeforeRid ka kb = true ↔ ra.pre = rb.pre := by
  have hmm : (!mmBetter ka kb && !mmBetter kb ka) = true ↔ ka.mm = kb.mm := by
    unfold mmBetter; cases ka.mm <;> cases kb.mm <;> simp <;> omega
  have hllgr : (!llgrBetter ka kb && !llgrBetter kb ka) = true ↔ ka.llgr = kb.llgr := by
    unfold llgrBetter; cases ka.llgr <;> cases kb.llgr <;> simp
  have hlp : (!lpBetter ka kb && !lpBetter kb ka) = true ↔ ka.lp = kb.lp := by
    unfold lpBetter; simp; omega
  have hhops : (!hopsBetter ka kb && !hopsBetter kb ka) = true ↔ ka.hops = kb.hops := by
    unfold hopsBetter; simp; omega
  have horigin : (!originBetter ka kb && !originBetter kb ka) = true ↔ ka.origin = kb.origin := by
    unfold originBetter; simp; omega
  have hebgp : (!ebgpBetter ka kb && !ebgpBetter kb ka) = true ↔ ka.ebgp = kb.ebgp := by
    unfold ebgpBetter; cases ka.ebgp <;> cases kb.ebgp <;> simp
  have hstale : (!staleBetter ka kb && !staleBetter kb ka) = true ↔ ka.stale = kb.stale := by
    unfold staleBetter; cases ka.stale <;> cases kb.stale <;> simp
  have hcluster : (!clusterBetter ka kb && !clusterBetter kb ka) = true ↔ ka.cluster = kb.cluster := by
    unfold clusterBetter; simp; omega
  simp only [tiedBeforeRid, stepsBeforeRid, List.all_cons, List.all_nil, Bool.and_true, Bool.and_eq_true,
    hmm, hllgr, hlp, hhops, horigin, hebgp, hstale, hcluster, RKey.pre, Prod.mk.injEq,
    ha.mm, hb.mm, ha.llgr, hb.llgr, ha.lp, hb.lp, ha.hops, hb.hops, ha.origin, hb.origin, ha.ebgp, hb.ebgp,
    ha.stale, hb.stale, ha.cluster, hb.cluster]
  constructor
  · rintro ⟨h1, h2, h3, h4, h5, h6, h7, h8⟩
    simp [h1, h2, h3, h4, h5, h6, h7, h8]
  · rintro ⟨h1, h2, h3, h4, h5, h6, h7, h8⟩
    exact ⟨mmRank_inj h1, toNat_inj h2, h3, h4, h5, toNat_inj h6, toNat_inj h7, h8⟩

theorem ecmpKey_eq_iff (fl : Flags) (t2 : Bool) (a b : Entry) :
    (ecmpKey fl t2 a == ecmpKey fl t2 b) = true ↔ (rkey fl t2 a).pre = (rkey fl t2 b).pre := by
  simp only [beq_iff_eq, ecmpKey, rkey, RKey.pre, Prod.mk.injEq]
  constructor
  · rintro ⟨h1, h2, h3, h4, h5, h6, h7, h8⟩
    refine ⟨?_, by rw [h2], h3, h4, h5, by rw [h6], by rw [h7], h8⟩
    cases t2 <;> simp_all
  · rintro ⟨h1, h2, h3, h4, h5, h6, h7, h8⟩
    refine ⟨?_, toNat_inj h2, h3, h4, h5, toNat_inj h6, toNat_inj h7, h8⟩
    cases t2
    · simp
    · simp only [if_true] at h1 ⊢; exact mmRank_inj h1

end Rbgp.Rib
