/-
  Rbgp.Rib.ObsFacts — what the look-ups of the reference checkers find in the observation of a model
  state that satisfies the invariant (shared by the three master theorems).
-/
import Rbgp.Rib.ObsLemmas
import Rbgp.Rib.EntryDef
import Rbgp.Rib.Lemmas
namespace Rbgp.Rib

/-! ## association lists as `find?` -/

theorem alookup_eq_find {ν} (n : Net) (l : List (Net × ν)) :
    alookup n l = (l.find? (fun a => a.1 = n)).map (·.2) := by
  induction l with
  | nil => rfl
  | cons x l ih =>
    obtain ⟨k, v⟩ := x
    by_cases h : k = n
    · simp [alookup, h]
    · simp [alookup, h, ih]

theorem find?_sortOn_key {α κ} [DecidableEq κ] (key : α → κ) (lt : α → α → Bool) (l : List α)
    (hn : (l.map key).Nodup) (k : κ) :
    (sortOn lt l).find? (fun a => key a = k) = l.find? (fun a => key a = k) :=
  find?_key_perm key (sortOn_perm lt l).symm hn k

theorem find?_sortOn_fst {β} (lt : Net × β → Net × β → Bool) (l : List (Net × β))
    (hn : (l.map (·.1)).Nodup) (n : Net) :
    (sortOn lt l).find? (fun a => a.1 = n) = l.find? (fun a => a.1 = n) :=
  find?_sortOn_key (fun a => a.1) lt l hn n

theorem find?_sortOn_net (lt : LocObs → LocObs → Bool) (l : List LocObs)
    (hn : (l.map (·.net)).Nodup) (n : Net) :
    (sortOn lt l).find? (fun a => a.net = n) = l.find? (fun a => a.net = n) :=
  find?_sortOn_key (fun a => a.net) lt l hn n

/-! ## the observed pieces of a family -/

def dentryOf (fl : Flags) (e : Entry) : DEntry :=
  { src := e.src.id, rpid := e.rpid, attr := e.attr.id, stale := e.isStale fl, filtered := e.filtered }

def locOf (fl : Flags) (net : Net) (destId : Nat) (el : List Entry) : LocObs :=
  { net := net, destId := destId, ecmp := ecmpCount fl net.t2 el, paths := el.map Entry.ref }

variable {c : Case} {g : Nat → Fam}

theorem nonEmpty_filter_eq {fl : Flags} {f : Fam} {r : Rib} (h : RibInv c g fl f r) :
    (r.dests.filter fun nd => !nd.2.entries.isEmpty) = r.dests := by
  apply List.filter_eq_self.mpr
  intro nd hnd
  have := (h.dest nd hnd).nonEmpty
  cases he : nd.2.entries with
  | nil => exact absurd he this
  | cons a l => simp

theorem famObs_dests_eq (t : Table) (f : Fam) (h : RibInv c g t.flags f (t.rib f)) :
    (famObs t f).dests = sortOn (fun a b => a.1.lt b.1)
      ((t.rib f).dests.map fun nd => (nd.1, nd.2.entries.map (dentryOf t.flags))) := by
  simp only [famObs, nonEmpty_filter_eq h]
  rfl

/-- looking a prefix up in the observed destinations -/
theorem famObs_dests_find (t : Table) (f : Fam) (h : RibInv c g t.flags f (t.rib f)) (n : Net) :
    ((famObs t f).dests.find? (fun d => d.1 = n)).map (·.2) =
      (alookup n (t.rib f).dests).map (fun d => d.entries.map (dentryOf t.flags)) := by
  rw [famObs_dests_eq t f h, find?_sortOn_fst]
  · rw [alookup_eq_find, List.find?_map]
    simp only [Function.comp_def, Option.map_map]
  · rw [List.map_map]; exact h.keys

theorem famObs_dests_mem (t : Table) (f : Fam) (h : RibInv c g t.flags f (t.rib f)) {d : Net × List DEntry} :
    d ∈ (famObs t f).dests ↔ ∃ nd ∈ (t.rib f).dests, d = (nd.1, nd.2.entries.map (dentryOf t.flags)) := by
  rw [famObs_dests_eq t f h, mem_sortOn, List.mem_map]
  constructor
  · rintro ⟨nd, hnd, rfl⟩; exact ⟨nd, hnd, rfl⟩
  · rintro ⟨nd, hnd, rfl⟩; exact ⟨nd, hnd, rfl⟩

def collectPaths (max : Option Nat) (nd : Net × Dest) : List Entry :=
  match max with
  | some n => (nd.2.entries.filter Entry.eligible).take n
  | none => nd.2.entries.filter Entry.eligible

/-- the entries of `collect`: one per destination with a non-empty (truncated) eligible list -/
def collectOf (f : Fam) (max : Option Nat) (nd : Net × Dest) : Option Change :=
  if (collectPaths max nd).isEmpty then none
  else some { fam := f, net := nd.1, destId := nd.2.id, best := true, any := true, replaced := none,
              paths := collectPaths max nd }

theorem collect_eq (f : Fam) (r : Rib) (max : Option Nat) : r.collect f max = r.dests.filterMap (collectOf f max) := by
  unfold Rib.collect
  congr 1

theorem collectOf_some {f : Fam} {max : Option Nat} {nd : Net × Dest} {ch : Change}
    (h : collectOf f max nd = some ch) :
    (collectPaths max nd).isEmpty = false ∧
    ch = { fam := f, net := nd.1, destId := nd.2.id, best := true, any := true, replaced := none,
           paths := collectPaths max nd } := by
  unfold collectOf at h
  split at h
  · simp at h
  · rename_i hne
    simp only [Option.some.injEq] at h
    exact ⟨by simpa using hne, h.symm⟩

theorem collectOf_none_eq (f : Fam) (nd : Net × Dest) :
    collectOf f none nd =
      if (nd.2.entries.filter Entry.eligible).isEmpty then none
      else some { fam := f, net := nd.1, destId := nd.2.id, best := true, any := true, replaced := none,
                  paths := nd.2.entries.filter Entry.eligible } := rfl

theorem collectOf_some_eq (f : Fam) (k : Nat) (nd : Net × Dest) :
    collectOf f (some k) nd =
      if ((nd.2.entries.filter Entry.eligible).take k).isEmpty then none
      else some { fam := f, net := nd.1, destId := nd.2.id, best := true, any := true, replaced := none,
                  paths := (nd.2.entries.filter Entry.eligible).take k } := rfl

theorem collectOf_net {f : Fam} {max : Option Nat} {nd : Net × Dest} {ch : Change}
    (h : collectOf f max nd = some ch) : ch.net = nd.1 := by
  rw [(collectOf_some h).2]

theorem collect_nets_nodup (f : Fam) (r : Rib) (max : Option Nat) (hk : (r.dests.map (·.1)).Nodup) :
    ((r.collect f max).map (·.net)).Nodup := by
  rw [collect_eq]
  have : ((r.dests.filterMap (collectOf f max)).map (·.net)).Sublist (r.dests.map (·.1)) := by
    induction r.dests with
    | nil => simp
    | cons nd l ih =>
      simp only [List.filterMap_cons, List.map_cons]
      cases hc : collectOf f max nd with
      | none => exact List.Sublist.cons _ ih
      | some ch =>
        have : ch.net = nd.1 := collectOf_net hc
        simp only [List.map_cons, this]
        exact List.Sublist.cons_cons _ ih
  exact List.Nodup.sublist this hk

theorem filterMap_collect_find (f : Fam) (max : Option Nat) (l : List (Net × Dest))
    (hk : (l.map (·.1)).Nodup) (n : Net) :
    (l.filterMap (collectOf f max)).find? (fun ch => ch.net = n) =
      (alookup n l).bind (fun d => collectOf f max (n, d)) := by
  induction l with
  | nil => rfl
  | cons nd l ih =>
    obtain ⟨k, d⟩ := nd
    simp only [List.map_cons, List.nodup_cons] at hk
    have ih' := ih hk.2
    by_cases hkn : k = n
    · subst hkn
      have hnone : alookup k l = none := alookup_none_iff.mpr hk.1
      cases hc : collectOf f max (k, d) with
      | none =>
        rw [List.filterMap_cons, hc]
        simp only [alookup, if_true, Option.bind_some, hc]
        rw [ih', hnone]; rfl
      | some ch =>
        have hn : ch.net = k := collectOf_net hc
        rw [List.filterMap_cons, hc]
        simp [alookup, hc, List.find?_cons, hn]
    · cases hc : collectOf f max (k, d) with
      | none =>
        rw [List.filterMap_cons, hc]
        simp only [alookup, hkn, if_false]
        exact ih'
      | some ch =>
        have hn : ch.net = k := collectOf_net hc
        rw [List.filterMap_cons, hc]
        simp only [alookup, hkn, if_false, List.find?_cons, hn, decide_false]
        exact ih'

theorem collect_find (f : Fam) (r : Rib) (max : Option Nat) (hk : (r.dests.map (·.1)).Nodup) (n : Net) :
    (r.collect f max).find? (fun ch => ch.net = n) = (alookup n r.dests).bind (fun d => collectOf f max (n, d)) := by
  rw [collect_eq]; exact filterMap_collect_find f max r.dests hk n

theorem mem_collect {f : Fam} {r : Rib} {max : Option Nat} {ch : Change} :
    ch ∈ r.collect f max ↔ ∃ nd ∈ r.dests, collectOf f max nd = some ch := by
  rw [collect_eq, List.mem_filterMap]

/-- looking a prefix up in the observed Loc-RIB dump -/
theorem famObs_loc_find (t : Table) (f : Fam) (h : RibInv c g t.flags f (t.rib f)) (n : Net) :
    (famObs t f).loc.find? (fun l => l.net = n) =
      if (t.elig f n).isEmpty then none
      else (t.destId f n).map fun i => locOf t.flags n i (t.elig f n) := by
  simp only [famObs]
  rw [find?_sortOn_net]
  · rw [List.find?_map]
    have : ((fun l : LocObs => decide (l.net = n)) ∘ fun (ch : Change) =>
        ({ net := ch.net, destId := ch.destId, ecmp := ecmpCount t.flags ch.net.t2 ch.paths,
           paths := ch.paths.map Entry.ref } : LocObs)) = fun ch => decide (ch.net = n) := rfl
    rw [this, collect_find f _ none h.keys n]
    unfold Table.elig Table.destId
    cases ha : alookup n (t.rib f).dests with
    | none => simp
    | some d =>
      simp only [Option.bind_some, Option.map_some, collectOf_none_eq]
      by_cases hE : (d.entries.filter Entry.eligible).isEmpty = true
      · rw [if_pos hE, if_pos hE]; rfl
      · rw [if_neg hE, if_neg hE]; rfl
  · rw [List.map_map]
    exact collect_nets_nodup f _ none h.keys

theorem famObs_loc_mem (t : Table) (f : Fam) {l : LocObs} (hl : l ∈ (famObs t f).loc) :
    ∃ nd ∈ (t.rib f).dests, (nd.2.entries.filter Entry.eligible) ≠ [] ∧
      l = locOf t.flags nd.1 nd.2.id (nd.2.entries.filter Entry.eligible) := by
  simp only [famObs, mem_sortOn, List.mem_map] at hl
  obtain ⟨ch, hch, rfl⟩ := hl
  obtain ⟨nd, hnd, hc⟩ := mem_collect.mp hch
  obtain ⟨hne, rfl⟩ := collectOf_some hc
  refine ⟨nd, hnd, ?_, rfl⟩
  intro he
  simp [collectPaths, he] at hne

/-- looking a prefix up in the observed add-path (N = 2) dump -/
theorem famObs_lim2_find (t : Table) (f : Fam) (h : RibInv c g t.flags f (t.rib f)) (n : Net) :
    ((famObs t f).lim2.find? (fun l => l.1 = n)).map (·.2) =
      if (t.elig f n).isEmpty then none else some (((t.elig f n).take 2).map (·.lpid)) := by
  simp only [famObs]
  rw [find?_sortOn_fst]
  · rw [List.find?_map]
    have : ((fun l : Net × List Nat => decide (l.1 = n)) ∘ fun (ch : Change) => (ch.net, ch.paths.map (·.lpid)))
        = fun ch => decide (ch.net = n) := rfl
    rw [this, collect_find f _ (some 2) h.keys n]
    unfold Table.elig
    cases ha : alookup n (t.rib f).dests with
    | none => simp
    | some d =>
      simp only [Option.bind_some, collectOf_some_eq]
      have hiff : ((d.entries.filter Entry.eligible).take 2).isEmpty = (d.entries.filter Entry.eligible).isEmpty := by
        cases d.entries.filter Entry.eligible <;> rfl
      by_cases hE : (d.entries.filter Entry.eligible).isEmpty = true
      · rw [if_pos (hiff ▸ hE), if_pos hE]; rfl
      · rw [if_neg (hiff ▸ hE), if_neg hE]
        simp only [Option.map_some, List.map_take]
  · rw [List.map_map]
    exact collect_nets_nodup f _ (some 2) h.keys

/-! ## flags as observed -/

theorem contains_sortOn_filter (l : List Nat) (n id : Nat) (h : id < n) :
    (sortOn (fun a b => decide (a < b)) (l.filter fun i => i < n)).contains id = l.contains id := by
  have : ∀ (m : List Nat), m.contains id = decide (id ∈ m) := fun m => by simp
  rw [this, this]
  congr 1
  rw [eq_iff_iff, mem_sortOn, List.mem_filter]
  simp [h]

end Rbgp.Rib
