/-
  Rbgp.Rib.ObsFacts — what the look-ups of the reference checkers find in the observation of a model
  state that satisfies the invariant (shared by the three master theorems).
-/
import Rbgp.Rib.ObsLemmas
import Rbgp.Rib.EntryDef
import Rbgp.Rib.Lemmas
namespace Rbgp.Rib

/-! ## association lists as `find?` -/

theorem alookup_eq_find {ν} (n : Net) (l : List (Net × ν)) :
    alookup n l = (l.find? (fun a => a.1 = n)).map (·.2) := by
  induction l with
  | nil => rfl
  | cons x l ih =>
    obtain ⟨k, v⟩ := x
    by_cases h : k = n
    · simp [alookup, h]
    · simp [alookup, h, ih]

theorem find?_sortOn_key {α κ} [DecidableEq κ] (key : α → κ) (lt : α → α → Bool) (l : List α)
    (hn : (l.map key).Nodup) (k : κ) :
    (sortOn lt l).find? (fun a => key a = k) = l.find? (fun a => key a = k) :=
  find?_key_perm key (sortOn_perm lt l).symm hn k

theorem find?_sortOn_fst {β} (lt : Net × β → Net × β → Bool) (l : List (Net × β))
    (hn : (l.map (·.1)).Nodup) (n : Net) :
    (sortOn lt l).find? (fun a => a.1 = n) = l.find? (fun a => a.1 = n) :=
  find?_sortOn_key (fun a => a.1) lt l hn n

theorem find?_sortOn_net (lt : LocObs → LocObs → Bool) (l : List LocObs)
    (hn : (l.map (·.net)).Nodup) (n : Net) :
    (sortOn lt l).find? (fun a => a.net = n) = l.find? (fun a => a.net = n) :=
  find?_sortOn_key (fun a => a.net) lt l hn n

/-! ## the observed pieces of a family -/

def locOf (sh : Nat) (fl : Flags) (net : Net) (destId : Nat) (el : List Entry) : LocObs :=
  { net := net, destId := packId sh destId, ecmp := ecmpIds fl net.t2 el, paths := el.map Entry.ref }

variable {c : Case} {g : Nat → Fam}

/-! ### views (`viewOf`) -/

theorem viewOf_keys_sublist {β} (sel : List Entry → Option β) (ds : List (Net × Dest)) :
    ((ds.filterMap fun nd => (sel nd.2.entries).map fun b => (nd.1, b)).map (·.1)).Sublist (ds.map (·.1)) := by
  induction ds with
  | nil => simp
  | cons nd l ih =>
    simp only [List.filterMap_cons, List.map_cons]
    cases sel nd.2.entries with
    | none => exact List.Sublist.cons _ ih
    | some b => simp only [Option.map_some, List.map_cons]; exact List.Sublist.cons_cons _ ih

theorem filterMap_sel_find {β} (sel : List Entry → Option β) (ds : List (Net × Dest))
    (hk : (ds.map (·.1)).Nodup) (n : Net) :
    ((ds.filterMap fun nd => (sel nd.2.entries).map fun b => (nd.1, b)).find? (fun x => x.1 = n)).map (·.2) =
      (alookup n ds).bind fun d => sel d.entries := by
  induction ds with
  | nil => rfl
  | cons nd l ih =>
    obtain ⟨k, d⟩ := nd
    simp only [List.map_cons, List.nodup_cons] at hk
    have ih' := ih hk.2
    by_cases hkn : k = n
    · subst hkn
      have hnone : alookup k l = none := alookup_none_iff.mpr hk.1
      cases hs : sel d.entries with
      | none =>
        simp only [List.filterMap_cons, hs, Option.map_none, alookup, if_true, Option.bind_some]
        rw [ih', hnone]; rfl
      | some b =>
        simp [List.filterMap_cons, hs, alookup]
    · cases hs : sel d.entries with
      | none =>
        simp only [List.filterMap_cons, hs, Option.map_none, alookup, hkn, if_false]
        exact ih'
      | some b =>
        simp only [List.filterMap_cons, hs, Option.map_some, alookup, hkn, if_false, List.find?_cons, decide_false]
        exact ih'

/-- looking a prefix up in a view -/
theorem viewOf_find {β} (sel : List Entry → Option β) (ds : List (Net × Dest)) (hk : (ds.map (·.1)).Nodup) (n : Net) :
    ((viewOf sel ds).find? (fun x => x.1 = n)).map (·.2) = (alookup n ds).bind fun d => sel d.entries := by
  unfold viewOf
  rw [find?_sortOn_fst]
  · exact filterMap_sel_find sel ds hk n
  · exact List.Nodup.sublist (viewOf_keys_sublist sel ds) hk

theorem viewOf_mem {β} (sel : List Entry → Option β) (ds : List (Net × Dest)) {x : Net × β} :
    x ∈ viewOf sel ds ↔ ∃ nd ∈ ds, ∃ b, sel nd.2.entries = some b ∧ x = (nd.1, b) := by
  unfold viewOf
  rw [mem_sortOn, List.mem_filterMap]
  constructor
  · rintro ⟨nd, hnd, h⟩
    cases hs : sel nd.2.entries with
    | none => rw [hs] at h; simp at h
    | some b => rw [hs] at h; simp at h; exact ⟨nd, hnd, b, hs, h.symm⟩
  · rintro ⟨nd, hnd, b, hs, rfl⟩
    exact ⟨nd, hnd, by rw [hs]; rfl⟩

theorem nonEmptyList_map {β γ} (fm : β → γ) {l : List β} (h : l ≠ []) : nonEmptyList (l.map fm) = some (l.map fm) := by
  cases l with
  | nil => exact absurd rfl h
  | cons a l => rfl

/-- looking a prefix up in the observed destinations -/
theorem famObs_dests_find (t : Table) (f : Fam) (h : RibInv c g t.flags f (t.rib f)) (n : Net) :
    ((famObs c t f).dests.find? (fun d => d.1 = n)).map (·.2) =
      (alookup n (t.rib f).dests).map (fun d => d.entries.map (dentryOf t.flags)) := by
  simp only [famObs]
  rw [viewOf_find _ _ h.keys]
  cases hl : alookup n (t.rib f).dests with
  | none => rfl
  | some d =>
    have := (h.dest (n, d) (alookup_some_mem hl)).nonEmpty
    simp only [Option.bind_some, Option.map_some]
    exact nonEmptyList_map _ this

theorem famObs_dests_mem (t : Table) (f : Fam) (h : RibInv c g t.flags f (t.rib f)) {d : Net × List DEntry} :
    d ∈ (famObs c t f).dests ↔ ∃ nd ∈ (t.rib f).dests, d = (nd.1, nd.2.entries.map (dentryOf t.flags)) := by
  simp only [famObs]
  rw [viewOf_mem]
  constructor
  · rintro ⟨nd, hnd, b, hs, rfl⟩
    rw [nonEmptyList_map _ (h.dest nd hnd).nonEmpty] at hs
    simp only [Option.some.injEq] at hs
    exact ⟨nd, hnd, by rw [hs]⟩
  · rintro ⟨nd, hnd, rfl⟩
    exact ⟨nd, hnd, _, nonEmptyList_map _ (h.dest nd hnd).nonEmpty, rfl⟩

/-- what ListPath shows of a prefix by default (`enable_filtered = false`) -/
theorem famObs_nofilt_find (t : Table) (f : Fam) (h : RibInv c g t.flags f (t.rib f)) (n : Net) :
    ((famObs c t f).nofilt.find? (fun d => d.1 = n)).map (·.2) =
      (alookup n (t.rib f).dests).bind fun d =>
        nonEmptyList ((d.entries.filter fun e => !e.filtered).map (dentryOf t.flags)) := by
  simp only [famObs]
  exact viewOf_find _ _ h.keys n

theorem find_assoc_map {β} (l : List Nat) (fv : Nat → β) (a : Nat) (ha : a ∈ l) :
    ((l.map fun x => (x, fv x)).find? (fun p => p.1 = a)).map (·.2) = some (fv a) := by
  induction l with
  | nil => simp at ha
  | cons x l ih =>
    by_cases hx : x = a
    · subst hx; simp
    · have : a ∈ l := by
        rcases List.mem_cons.mp ha with h | h
        · exact absurd h.symm hx
        · exact h
      rw [List.map_cons, List.find?_cons]
      simp only [hx, decide_false]
      exact ih this

/-- the Adj-RIB-In view of peer `a` for prefix `n` -/
theorem famObs_adjIn_find (t : Table) (f : Fam) (h : RibInv c g t.flags f (t.rib f)) {a : Nat} (ha : a ∈ c.addrs)
    (n : Net) :
    (((famObs c t f).adjIn.find? (fun p => p.1 = a)).map (·.2)).bind (fun v => (v.find? (fun d => d.1 = n)).map (·.2)) =
      (alookup n (t.rib f).dests).bind fun d =>
        nonEmptyList ((d.entries.filter (sameAddr a)).map (dentryOf t.flags)) := by
  simp only [famObs]
  rw [find_assoc_map c.addrs _ a ha]
  simp only [Option.bind_some]
  exact viewOf_find _ _ h.keys n

/-- the RS-client local view of peer `a` for prefix `n` -/
theorem famObs_rsLocal_find (t : Table) (f : Fam) (h : RibInv c g t.flags f (t.rib f)) {a : Nat} (ha : a ∈ c.addrs)
    (n : Net) :
    (((famObs c t f).rsLocal.find? (fun p => p.1 = a)).map (·.2)).bind (fun v => (v.find? (fun d => d.1 = n)).map (·.2)) =
      (alookup n (t.rib f).dests).bind fun d =>
        (rsLocalOf a d.entries).map fun e => { dentryOf t.flags e with rpid := 0, filtered := false } := by
  simp only [famObs]
  rw [find_assoc_map c.addrs _ a ha]
  simp only [Option.bind_some]
  exact viewOf_find _ _ h.keys n

theorem famObs_adjIn_keys (t : Table) (f : Fam) : (famObs c t f).adjIn.map (·.1) = c.addrs := by
  simp [famObs, List.map_map, Function.comp_def]

theorem famObs_rsLocal_keys (t : Table) (f : Fam) : (famObs c t f).rsLocal.map (·.1) = c.addrs := by
  simp [famObs, List.map_map, Function.comp_def]

def collectPaths (max : Option Nat) (nd : Net × Dest) : List Entry :=
  match max with
  | some n => (nd.2.entries.filter Entry.eligible).take n
  | none => nd.2.entries.filter Entry.eligible

/-- the entries of `collect`: one per destination with a non-empty (truncated) eligible list -/
def collectOf (f : Fam) (max : Option Nat) (nd : Net × Dest) : Option Change :=
  if (collectPaths max nd).isEmpty then none
  else some { fam := f, net := nd.1, destId := nd.2.id, best := true, any := true, replaced := none,
              paths := collectPaths max nd }

theorem collect_eq (f : Fam) (r : Rib) (max : Option Nat) : r.collectAll f max = r.dests.filterMap (collectOf f max) := by
  unfold Rib.collectAll
  congr 1

theorem collectOf_some {f : Fam} {max : Option Nat} {nd : Net × Dest} {ch : Change}
    (h : collectOf f max nd = some ch) :
    (collectPaths max nd).isEmpty = false ∧
    ch = { fam := f, net := nd.1, destId := nd.2.id, best := true, any := true, replaced := none,
           paths := collectPaths max nd } := by
  unfold collectOf at h
  split at h
  · simp at h
  · rename_i hne
    simp only [Option.some.injEq] at h
    exact ⟨by simpa using hne, h.symm⟩

theorem collectOf_none_eq (f : Fam) (nd : Net × Dest) :
    collectOf f none nd =
      if (nd.2.entries.filter Entry.eligible).isEmpty then none
      else some { fam := f, net := nd.1, destId := nd.2.id, best := true, any := true, replaced := none,
                  paths := nd.2.entries.filter Entry.eligible } := rfl

theorem collectOf_some_eq (f : Fam) (k : Nat) (nd : Net × Dest) :
    collectOf f (some k) nd =
      if ((nd.2.entries.filter Entry.eligible).take k).isEmpty then none
      else some { fam := f, net := nd.1, destId := nd.2.id, best := true, any := true, replaced := none,
                  paths := (nd.2.entries.filter Entry.eligible).take k } := rfl

theorem collectOf_net {f : Fam} {max : Option Nat} {nd : Net × Dest} {ch : Change}
    (h : collectOf f max nd = some ch) : ch.net = nd.1 := by
  rw [(collectOf_some h).2]

theorem collect_nets_nodup (f : Fam) (r : Rib) (max : Option Nat) (hk : (r.dests.map (·.1)).Nodup) :
    ((r.collectAll f max).map (·.net)).Nodup := by
  rw [collect_eq]
  have : ((r.dests.filterMap (collectOf f max)).map (·.net)).Sublist (r.dests.map (·.1)) := by
    induction r.dests with
    | nil => simp
    | cons nd l ih =>
      simp only [List.filterMap_cons, List.map_cons]
      cases hc : collectOf f max nd with
      | none => exact List.Sublist.cons _ ih
      | some ch =>
        have : ch.net = nd.1 := collectOf_net hc
        simp only [List.map_cons, this]
        exact List.Sublist.cons_cons _ ih
  exact List.Nodup.sublist this hk

theorem filterMap_collect_find (f : Fam) (max : Option Nat) (l : List (Net × Dest))
    (hk : (l.map (·.1)).Nodup) (n : Net) :
    (l.filterMap (collectOf f max)).find? (fun ch => ch.net = n) =
      (alookup n l).bind (fun d => collectOf f max (n, d)) := by
  induction l with
  | nil => rfl
  | cons nd l ih =>
    obtain ⟨k, d⟩ := nd
    simp only [List.map_cons, List.nodup_cons] at hk
    have ih' := ih hk.2
    by_cases hkn : k = n
    · subst hkn
      have hnone : alookup k l = none := alookup_none_iff.mpr hk.1
      cases hc : collectOf f max (k, d) with
      | none =>
        rw [List.filterMap_cons, hc]
        simp only [alookup, if_true, Option.bind_some, hc]
        rw [ih', hnone]; rfl
      | some ch =>
        have hn : ch.net = k := collectOf_net hc
        rw [List.filterMap_cons, hc]
        simp [alookup, hc, List.find?_cons, hn]
    · cases hc : collectOf f max (k, d) with
      | none =>
        rw [List.filterMap_cons, hc]
        simp only [alookup, hkn, if_false]
        exact ih'
      | some ch =>
        have hn : ch.net = k := collectOf_net hc
        rw [List.filterMap_cons, hc]
        simp only [alookup, hkn, if_false, List.find?_cons, hn, decide_false]
        exact ih'

theorem collect_find (f : Fam) (r : Rib) (max : Option Nat) (hk : (r.dests.map (·.1)).Nodup) (n : Net) :
    (r.collectAll f max).find? (fun ch => ch.net = n) = (alookup n r.dests).bind (fun d => collectOf f max (n, d)) := by
  rw [collect_eq]; exact filterMap_collect_find f max r.dests hk n

theorem mem_collect {f : Fam} {r : Rib} {max : Option Nat} {ch : Change} :
    ch ∈ r.collectAll f max ↔ ∃ nd ∈ r.dests, collectOf f max nd = some ch := by
  rw [collect_eq, List.mem_filterMap]

theorem collect_not_deferring {r : Rib} (h : r.deferring = false) (f : Fam) (max : Option Nat) :
    r.collect f max = r.collectAll f max := by
  unfold Rib.collect; rw [h]; rfl

theorem collect_deferring {r : Rib} (h : r.deferring = true) (f : Fam) (max : Option Nat) : r.collect f max = [] := by
  unfold Rib.collect; rw [h]; rfl

/-- looking a prefix up in the observed Loc-RIB dump -/
theorem famObs_loc_find (t : Table) (f : Fam) (h : RibInv c g t.flags f (t.rib f))
    (hd : (t.rib f).deferring = false) (n : Net) :
    (famObs c t f).loc.find? (fun l => l.net = n) =
      if (t.elig f n).isEmpty then none
      else (t.destId f n).map fun i => locOf c.shard t.flags n i (t.elig f n) := by
  simp only [famObs]
  rw [collect_not_deferring hd]
  rw [find?_sortOn_net]
  · rw [List.find?_map]
    have : ((fun l : LocObs => decide (l.net = n)) ∘ fun (ch : Change) =>
        ({ net := ch.net, destId := packId c.shard ch.destId, ecmp := ecmpIds t.flags ch.net.t2 ch.paths,
           paths := ch.paths.map Entry.ref } : LocObs)) = fun ch => decide (ch.net = n) := rfl
    rw [this, collect_find f _ none h.keys n]
    unfold Table.elig Table.destId
    cases ha : alookup n (t.rib f).dests with
    | none => simp
    | some d =>
      simp only [Option.bind_some, Option.map_some, collectOf_none_eq]
      by_cases hE : (d.entries.filter Entry.eligible).isEmpty = true
      · rw [if_pos hE, if_pos hE]; rfl
      · rw [if_neg hE, if_neg hE]; rfl
  · rw [List.map_map]
    exact collect_nets_nodup f _ none h.keys

theorem famObs_loc_mem (t : Table) (f : Fam) {l : LocObs} (hl : l ∈ (famObs c t f).loc) :
    ∃ nd ∈ (t.rib f).dests, (nd.2.entries.filter Entry.eligible) ≠ [] ∧
      l = locOf c.shard t.flags nd.1 nd.2.id (nd.2.entries.filter Entry.eligible) := by
  simp only [famObs, mem_sortOn, List.mem_map] at hl
  obtain ⟨ch, hch, rfl⟩ := hl
  have hd : (t.rib f).deferring = false := by
    cases hx : (t.rib f).deferring with
    | false => rfl
    | true => rw [collect_deferring hx] at hch; exact absurd hch List.not_mem_nil
  rw [collect_not_deferring hd] at hch
  obtain ⟨nd, hnd, hc⟩ := mem_collect.mp hch
  obtain ⟨hne, rfl⟩ := collectOf_some hc
  refine ⟨nd, hnd, ?_, rfl⟩
  intro he
  simp [collectPaths, he] at hne

/-- a family whose route selection is deferred shows no Loc-RIB -/
theorem famObs_loc_deferring (t : Table) (f : Fam) (hd : (t.rib f).deferring = true) : (famObs c t f).loc = [] := by
  simp [famObs, collect_deferring hd, sortOn]

theorem limOf_find (f : Fam) (r : Rib) (k : Nat) (hk0 : 0 < k) (hk : (r.dests.map (·.1)).Nodup) (n : Net) :
    ((sortOn (fun a b => a.1.lt b.1) ((r.collectAll f (some k)).map fun ch => (ch.net, ch.paths.map (·.lpid)))).find?
        (fun l => l.1 = n)).map (·.2) =
      (alookup n r.dests).bind fun d =>
        if (d.entries.filter Entry.eligible).isEmpty then none
        else some (((d.entries.filter Entry.eligible).take k).map (·.lpid)) := by
  rw [find?_sortOn_fst]
  · rw [List.find?_map]
    have : ((fun l : Net × List Nat => decide (l.1 = n)) ∘ fun (ch : Change) => (ch.net, ch.paths.map (·.lpid)))
        = fun ch => decide (ch.net = n) := rfl
    rw [this, collect_find f _ (some k) hk n]
    cases ha : alookup n r.dests with
    | none => simp
    | some d =>
      simp only [Option.bind_some, collectOf_some_eq]
      have hiff : ((d.entries.filter Entry.eligible).take k).isEmpty = (d.entries.filter Entry.eligible).isEmpty := by
        cases d.entries.filter Entry.eligible with
        | nil => simp
        | cons a l => cases k with
          | zero => omega
          | succ k => simp
      by_cases hE : (d.entries.filter Entry.eligible).isEmpty = true
      · rw [if_pos (hiff ▸ hE), if_pos hE]; rfl
      · rw [if_neg (hiff ▸ hE), if_neg hE]
        simp only [Option.map_some, List.map_take]
  · rw [List.map_map]
    exact collect_nets_nodup f _ (some k) hk

/-- looking a prefix up in the observed add-path dumps (N = 2, 3) -/
theorem famObs_lim2_find (t : Table) (f : Fam) (h : RibInv c g t.flags f (t.rib f))
    (hd : (t.rib f).deferring = false) (n : Net) :
    ((famObs c t f).lim2.find? (fun l => l.1 = n)).map (·.2) =
      if (t.elig f n).isEmpty then none else some (((t.elig f n).take 2).map (·.lpid)) := by
  simp only [famObs]
  rw [collect_not_deferring hd, limOf_find f _ 2 (by omega) h.keys n]
  unfold Table.elig
  cases alookup n (t.rib f).dests <;> rfl

theorem famObs_lim3_find (t : Table) (f : Fam) (h : RibInv c g t.flags f (t.rib f))
    (hd : (t.rib f).deferring = false) (n : Net) :
    ((famObs c t f).lim3.find? (fun l => l.1 = n)).map (·.2) =
      if (t.elig f n).isEmpty then none else some (((t.elig f n).take 3).map (·.lpid)) := by
  simp only [famObs]
  rw [collect_not_deferring hd, limOf_find f _ 3 (by omega) h.keys n]
  unfold Table.elig
  cases alookup n (t.rib f).dests <;> rfl

/-! ## flags as observed -/

theorem contains_sortOn_filter (l : List Nat) (n id : Nat) (h : id < n) :
    (sortOn (fun a b => decide (a < b)) (l.filter fun i => i < n)).contains id = l.contains id := by
  have : ∀ (m : List Nat), m.contains id = decide (id ∈ m) := fun m => by simp
  rw [this, this]
  congr 1
  rw [eq_iff_iff, mem_sortOn, List.mem_filter]
  simp [h]

end Rbgp.Rib
