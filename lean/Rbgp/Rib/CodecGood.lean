/-
  Rbgp.Rib.CodecGood — every case the driver's codec accepts is well-formed in the sense the theorems
  assume (`Case.Good`), so the master theorems apply to exactly the cases the model is run on.
-/
import Rbgp.Rib.Codec
import Rbgp.Rib.ProofsC02
import Rbgp.Rib.ProofsC15
namespace Rbgp.Rib
open Rbgp.Rib.Codec

theorem attrWfB_sound {a : Attrs} (h : attrWfB a = true) : a.WF := by
  simp only [attrWfB, Bool.and_eq_true] at h
  obtain ⟨⟨h1, h2⟩, h3⟩ := h
  refine ⟨?_, ?_, ?_⟩
  · intro bs hb; rw [hb] at h1; simpa using h1
  · intro bs hb; rw [hb] at h2; simpa using h2
  · intro bs hb; rw [hb] at h3; simpa using h3

/-- the family binding read off the list of (source, family) pairs seen so far -/
def bindOf (seen : List (Nat × Fam)) (s : Nat) : Fam :=
  match seen.find? (fun x => x.1 = s) with
  | some (_, f) => f
  | none => .v4

theorem oneFamPerSrc_sound (ops : List Op) (seen : List (Nat × Fam)) (h : oneFamPerSrc ops seen = true) :
    ∃ g : Nat → Fam, (∀ s, (seen.find? (fun x => x.1 = s)).isSome → g s = bindOf seen s) ∧
      ∀ op ∈ ops, ∀ s f, srcFamOf op = some (s, f) → g s = f := by
  induction ops generalizing seen with
  | nil => exact ⟨bindOf seen, fun _ _ => rfl, by simp⟩
  | cons op ops ih =>
    unfold oneFamPerSrc at h
    cases hsf : srcFamOf op with
    | none =>
      rw [hsf] at h
      obtain ⟨g, hg1, hg2⟩ := ih seen h
      refine ⟨g, hg1, ?_⟩
      intro o ho s f hs
      rcases List.mem_cons.mp ho with rfl | ho
      · rw [hsf] at hs; simp at hs
      · exact hg2 o ho s f hs
    | some sf =>
      obtain ⟨s0, f0⟩ := sf
      rw [hsf] at h
      simp only at h
      cases hfind : seen.find? (fun x => x.1 = s0) with
      | some x =>
        obtain ⟨s1, f1⟩ := x
        rw [hfind] at h
        simp only [Bool.and_eq_true, beq_iff_eq] at h
        obtain ⟨g, hg1, hg2⟩ := ih seen h.2
        refine ⟨g, hg1, ?_⟩
        intro o ho s f hs
        rcases List.mem_cons.mp ho with rfl | ho
        · rw [hsf] at hs
          simp only [Option.some.injEq, Prod.mk.injEq] at hs
          obtain ⟨rfl, rfl⟩ := hs
          rw [hg1 s0 (by rw [hfind]; rfl)]
          simp only [bindOf, hfind]
          exact h.1
        · exact hg2 o ho s f hs
      | none =>
        rw [hfind] at h
        simp only at h
        obtain ⟨g, hg1, hg2⟩ := ih ((s0, f0) :: seen) h
        refine ⟨g, ?_, ?_⟩
        · intro s hs
          have hne : s ≠ s0 := by
            intro e; subst e; rw [hfind] at hs; simp at hs
          have hne' : ¬ s0 = s := fun e => hne e.symm
          have := hg1 s (by simp [List.find?_cons, hne', hs])
          rw [this]
          simp [bindOf, List.find?_cons, hne']
        · intro o ho s f hs
          rcases List.mem_cons.mp ho with rfl | ho
          · rw [hsf] at hs
            simp only [Option.some.injEq, Prod.mk.injEq] at hs
            obtain ⟨rfl, rfl⟩ := hs
            rw [hg1 s0 (by simp [List.find?_cons])]
            simp [bindOf, List.find?_cons]
          · exact hg2 o ho s f hs

/-- **Every case accepted by `goodB` (hence by `caseOf?`) satisfies `Case.Good`.** -/
theorem goodB_sound {c : Case} (h : goodB c = true) : ∃ g, c.Good g := by
  simp only [goodB, Bool.and_eq_true, List.all_eq_true] at h
  obtain ⟨⟨href, hfam⟩, _⟩ := h
  obtain ⟨g, _, hg⟩ := oneFamPerSrc_sound c.ops [] hfam
  refine ⟨g, ⟨?_, ?_⟩⟩
  · intro op hop
    have hr := href op hop
    cases op with
    | insert s f n rpid nh a filt nhinv =>
      simp only [opRefB, Bool.and_eq_true, decide_eq_true_eq] at hr
      exact ⟨hr.1.1, hg _ hop s.id f rfl, attrWfB_sound hr.2⟩
    | remove s f n rpid =>
      simp only [opRefB, decide_eq_true_eq] at hr
      exact ⟨hr, hg _ hop s.id f rfl⟩
    | _ => trivial
  · intro op hop
    have hr := href op hop
    cases op with
    | insert s f n rpid nh a filt nhinv =>
      simp only [opRefB, Bool.and_eq_true, decide_eq_true_eq] at hr
      exact hr.1.2
    | _ => trivial

/-- what the codec demands of a purge that is handed a counter -/
theorem goodB_purgeCtrOk {c : Case} (h : goodB c = true) : c.PurgeCtrOk := by
  simp only [goodB, Bool.and_eq_true, List.all_eq_true] at h
  obtain ⟨⟨href, _⟩, _⟩ := h
  intro op hop
  have hr := href op hop
  have key : ∀ a i, purgeCtrB c a i = true → PurgeArgOk c a (some i) := by
    intro a i hh j hj
    simp only [Option.some.injEq] at hj; subst hj
    unfold purgeCtrB at hh
    cases hs : c.srcs[i]? with
    | none => rw [hs] at hh; simp at hh
    | some src =>
      rw [hs] at hh
      simp only [Bool.and_eq_true, beq_iff_eq, List.all_eq_true, Bool.or_eq_true, bne_iff_ne, ne_eq] at hh
      refine ⟨src, rfl, hh.1.1, hh.1.2, ?_⟩
      intro s' hs' ha
      rcases hh.2 s' hs' with h1 | h1
      · exact h1
      · exact absurd ha h1
  cases op with
  | dropStale a f ctr =>
    cases ctr with
    | none => intro i hi; simp at hi
    | some i => exact key a i (by simpa [opRefB] using hr)
  | dropLlgr a f ctr =>
    cases ctr with
    | none => intro i hi; simp at hi
    | some i => exact key a i (by simpa [opRefB] using hr)
  | dropNoLlgr a f ctr =>
    cases ctr with
    | none => intro i hi; simp at hi
    | some i => exact key a i (by simpa [opRefB] using hr)
  | _ => trivial

theorem mkCase?_goodB {ss as os : List Term} {shard : Nat} {c : Case} (h : mkCase? ss as os shard = some c) :
    goodB c = true := by
  unfold mkCase? at h
  simp only [bind, Option.bind_eq_some_iff] at h
  obtain ⟨srcs, _, attrs, _, ops, _, u1, _, u2, hu, hc⟩ := h
  simp only [pure, Option.some.injEq] at hc
  subst hc
  by_cases hg : goodB { srcs := srcs, attrs := attrs, ops := ops, shard := shard } = true
  · exact hg
  · simp [guardO, hg] at hu

theorem caseOf?_goodB {t : Term} {c : Case} (h : caseOf? t = some c) : goodB c = true := by
  unfold caseOf? at h
  split at h
  · exact mkCase?_goodB h
  · simp only [bind, Option.bind_eq_some_iff] at h
    obtain ⟨k, _, hk⟩ := h
    exact mkCase?_goodB hk
  · simp at h

theorem caseOf?_good {t : Term} {c : Case} (h : caseOf? t = some c) : ∃ g, c.Good g :=
  goodB_sound (caseOf?_goodB h)

theorem caseOf?_purgeCtrOk {t : Term} {c : Case} (h : caseOf? t = some c) : c.PurgeCtrOk :=
  goodB_purgeCtrOk (caseOf?_goodB h)

end Rbgp.Rib
