/-
  Rbgp.Rib.Obs — what the harness reports after every `Table` operation (the observation alphabet
  shared by the C02 / C06 / C15 reference checkers), and `observe`, which reads the same things off
  the model.  Only the TYPES are used by the Spec files.
-/
import Rbgp.Rib.Model
namespace Rbgp.Rib

/-- a `Path` as seen in `NlriChange.current_paths`: ids stand for `Arc` identities -/
structure PathRef where
  lpid : Nat
  src : Nat
  attr : Nat
  nh : Option Nat
  deriving DecidableEq, Repr, Inhabited

structure ChangeObs where
  fam : Fam
  net : Net
  destId : Nat
  best : Bool
  any : Bool
  replaced : Option Nat
  /-- `ecmp_paths().len()` -/
  ecmp : Nat
  paths : List PathRef
  deriving DecidableEq, Repr, Inhabited

inductive ResObs where
  | unit
  | noChange
  | limit
  | ch (c : ChangeObs)
  | chs (cs : List ChangeObs)
  deriving DecidableEq, Repr, Inhabited

/-- a `PathEntry` of `destinations(Global, family, [], enable_filtered = true)` -/
structure DEntry where
  src : Nat
  rpid : Nat
  attr : Nat
  stale : Bool
  filtered : Bool
  deriving DecidableEq, Repr, Inhabited

structure LocObs where
  net : Net
  destId : Nat
  ecmp : Nat
  paths : List PathRef
  deriving DecidableEq, Repr, Inhabited

structure FamObs where
  fam : Fam
  /-- every path of every destination, in list order -/
  dests : List (Net × List DEntry)
  /-- `collect_loc_rib_paths(family)` -/
  loc : List LocObs
  /-- local path ids of `collect_loc_rib_paths_limited(family, 2)` -/
  lim2 : List (Net × List Nat)
  /-- `state(family)` = (destinations, paths, accepted) -/
  state : Nat × Nat × Nat
  deriving DecidableEq, Repr, Inhabited

structure StepObs where
  res : ResObs
  fams : List FamObs
  /-- `peer_stats(addr)`: (addr, family, received, accepted) for every entry present -/
  stats : List (Nat × Fam × Nat × Nat)
  /-- non-zero limit counters: (source id, family, value) -/
  ctrs : List (Nat × Fam × Nat)
  stale : List Nat
  llgr : List Nat
  deriving DecidableEq, Repr, Inhabited

structure Obs where
  steps : List StepObs
  panicked : Bool
  deriving DecidableEq, Repr, Inhabited

/-! ## Reading the observation off the model -/

def insertBy {α} (lt : α → α → Bool) (x : α) : List α → List α
  | [] => [x]
  | y :: l => if lt x y then x :: y :: l else y :: insertBy lt x l
def sortOn {α} (lt : α → α → Bool) (l : List α) : List α := l.foldr (insertBy lt) []

def Fam.idx : Fam → Nat
  | .v4 => 0
  | .ev => 1
def Net.lt (a b : Net) : Bool := a.t2.toNat < b.t2.toNat || (a.t2 == b.t2 && a.k < b.k)
def famNetLt (a b : Fam × Net) : Bool := a.1.idx < b.1.idx || (a.1 == b.1 && a.2.lt b.2)
def natFamLt (a b : Nat × Fam) : Bool := a.1 < b.1 || (a.1 == b.1 && a.2.idx < b.2.idx)

/-- the families dumped after every step -/
def allFams : List Fam := [Fam.v4, Fam.ev]

def Entry.ref (e : Entry) : PathRef := { lpid := e.lpid, src := e.src.id, attr := e.attr.id, nh := e.nh }

def Change.obs (fl : Flags) (c : Change) : ChangeObs :=
  { fam := c.fam, net := c.net, destId := c.destId, best := c.best, any := c.any, replaced := c.replaced,
    ecmp := ecmpCount fl c.net.t2 c.paths, paths := c.paths.map Entry.ref }

def changesObs (fl : Flags) (cs : List Change) : List ChangeObs :=
  sortOn (fun a b => famNetLt (a.fam, a.net) (b.fam, b.net)) (cs.map (Change.obs fl))

def Res.obs (fl : Flags) : Res → ResObs
  | .unit => .unit
  | .noChange => .noChange
  | .limit => .limit
  | .changed c => .ch (c.obs fl)
  | .removed none => .unit
  | .removed (some c) => .ch (c.obs fl)
  | .changes cs => .chs (changesObs fl cs)

def famObs (t : Table) (f : Fam) : FamObs :=
  let r := t.rib f
  let fl := t.flags
  let nonEmpty := r.dests.filter fun nd => !nd.2.entries.isEmpty
  { fam := f
    dests := sortOn (fun a b => a.1.lt b.1) (nonEmpty.map fun nd =>
      (nd.1, nd.2.entries.map fun e =>
        { src := e.src.id, rpid := e.rpid, attr := e.attr.id, stale := e.isStale fl, filtered := e.filtered }))
    loc := sortOn (fun a b => a.net.lt b.net) ((r.collect f none).map fun c =>
      { net := c.net, destId := c.destId, ecmp := ecmpCount fl c.net.t2 c.paths, paths := c.paths.map Entry.ref })
    lim2 := sortOn (fun a b => a.1.lt b.1) ((r.collect f (some 2)).map fun c => (c.net, c.paths.map (·.lpid)))
    state := r.state }

def stepObs (c : Case) (tr : Table × Res) : StepObs :=
  let (t, r) := tr
  let addrs := c.srcs.map (·.addr)
  { res := r.obs t.flags
    fams := allFams.map (famObs t)
    stats := (sortOn (fun a b => natFamLt a.1 b.1) (t.stats.filter fun s => addrs.contains s.1.1)).map
      fun s => (s.1.1, s.1.2, s.2.1, s.2.2)
    ctrs := (sortOn (fun a b => natFamLt a.1 b.1) (t.ctrs.filter fun s => s.2 != 0)).map
      fun s => (s.1.1, s.1.2, s.2)
    stale := sortOn (fun a b => decide (a < b)) (t.stale.filter fun i => i < c.srcs.length)
    llgr := sortOn (fun a b => decide (a < b)) (t.llgr.filter fun i => i < c.srcs.length) }

def observe (p : Profile) (c : Case) : Obs :=
  let (l, pn) := run p c
  { steps := l.map (stepObs c), panicked := pn }

end Rbgp.Rib
