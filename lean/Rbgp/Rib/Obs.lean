/-
  Rbgp.Rib.Obs — what the harness reports after every `Table` operation (the observation alphabet
  shared by the C02 / C06 / C15 reference checkers), and `observe`, which reads the same things off
  the model.  Only the TYPES are used by the Spec files.
-/
import Rbgp.Rib.Model
namespace Rbgp.Rib

/-- a `Path` as seen in `NlriChange.current_paths`: ids stand for `Arc` identities -/
structure PathRef where
  lpid : Nat
  src : Nat
  attr : Nat
  nh : Option Nat
  deriving DecidableEq, Repr, Inhabited

structure ChangeObs where
  fam : Fam
  net : Net
  destId : Nat
  best : Bool
  any : Bool
  replaced : Option Nat
  /-- local path id of `new_best()` -/
  newBest : Option Nat
  /-- local path ids of `ecmp_paths()` -/
  ecmp : List Nat
  paths : List PathRef
  deriving DecidableEq, Repr, Inhabited

inductive ResObs where
  | unit
  | noChange
  | limit
  | ch (c : ChangeObs)
  | chs (cs : List ChangeObs)
  deriving DecidableEq, Repr, Inhabited

/-- a `PathEntry` of `destinations(Global, family, [], enable_filtered = true)` -/
structure DEntry where
  src : Nat
  rpid : Nat
  attr : Nat
  stale : Bool
  filtered : Bool
  deriving DecidableEq, Repr, Inhabited

structure LocObs where
  net : Net
  destId : Nat
  /-- local path ids of `ecmp_paths()` -/
  ecmp : List Nat
  paths : List PathRef
  deriving DecidableEq, Repr, Inhabited

structure FamObs where
  fam : Fam
  /-- `destinations(Global, family, [], enable_filtered = true)`: every path of every destination,
      in list order -/
  dests : List (Net × List DEntry)
  /-- `destinations(Global, family, [], enable_filtered = false)` (what ListPath shows by default) -/
  nofilt : List (Net × List DEntry)
  /-- `collect_loc_rib_paths(family)` -/
  loc : List LocObs
  /-- local path ids of `collect_loc_rib_paths_limited(family, 2)` and `(family, 3)` -/
  lim2 : List (Net × List Nat)
  lim3 : List (Net × List Nat)
  /-- `state(family)` = (destinations, paths, accepted) -/
  state : Nat × Nat × Nat
  /-- `destinations(AdjIn(peer), family, [], true)` for every peer address of the case -/
  adjIn : List (Nat × List (Net × List DEntry))
  /-- `destinations(RsLocal(peer), family, [], true)` for every peer address of the case: the one
      path shown per prefix -/
  rsLocal : List (Nat × List (Net × DEntry))
  deriving DecidableEq, Repr, Inhabited

structure StepObs where
  res : ResObs
  fams : List FamObs
  /-- `peer_stats(addr)`: (addr, family, received, accepted) for every entry present -/
  stats : List (Nat × Fam × Nat × Nat)
  /-- non-zero limit counters: (source id, family, value) -/
  ctrs : List (Nat × Fam × Nat)
  stale : List Nat
  llgr : List Nat
  /-- coverage markers (which interesting branch the step took); computed from the operation and
      its result on both sides -/
  cov : List String
  deriving DecidableEq, Repr, Inhabited

structure Obs where
  steps : List StepObs
  panicked : Bool
  deriving DecidableEq, Repr, Inhabited

/-! ## Reading the observation off the model -/

/-- stable insertion sort (as Rust's `sort_by`): `x` goes in front of the first element that is not
    smaller than it; elements are inserted from the right end -/
def insertBy {α} (lt : α → α → Bool) (x : α) : List α → List α
  | [] => [x]
  | y :: l => if lt y x then y :: insertBy lt x l else x :: y :: l
def sortOn {α} (lt : α → α → Bool) (l : List α) : List α := l.foldr (insertBy lt) []

def Fam.idx : Fam → Nat
  | .v4 => 0
  | .ev => 1
def Net.lt (a b : Net) : Bool := a.t2.toNat < b.t2.toNat || (a.t2 == b.t2 && a.k < b.k)
def famNetLt (a b : Fam × Net) : Bool := a.1.idx < b.1.idx || (a.1 == b.1 && a.2.lt b.2)
def natFamLt (a b : Nat × Fam) : Bool := a.1 < b.1 || (a.1 == b.1 && a.2.idx < b.2.idx)

/-- the families dumped after every step -/
def allFams : List Fam := [Fam.v4, Fam.ev]

def Entry.ref (e : Entry) : PathRef := { lpid := e.lpid, src := e.src.id, attr := e.attr.id, nh := e.nh }

/-- `shard_idx << 24 | local id` -/
def packId (shard id : Nat) : Nat := shard * 16777216 + id

/-- local path ids of `ecmp_paths()` -/
def ecmpIds (fl : Flags) (t2 : Bool) (es : List Entry) : List Nat := (es.take (ecmpCount fl t2 es)).map (·.lpid)

def Change.obs (sh : Nat) (fl : Flags) (c : Change) : ChangeObs :=
  { fam := c.fam, net := c.net, destId := packId sh c.destId, best := c.best, any := c.any, replaced := c.replaced,
    newBest := c.paths.head?.map (·.lpid), ecmp := ecmpIds fl c.net.t2 c.paths, paths := c.paths.map Entry.ref }

def changesObs (sh : Nat) (fl : Flags) (cs : List Change) : List ChangeObs :=
  sortOn (fun a b => famNetLt (a.fam, a.net) (b.fam, b.net)) (cs.map (Change.obs sh fl))

def Res.obs (sh : Nat) (fl : Flags) : Res → ResObs
  | .unit => .unit
  | .noChange => .noChange
  | .limit => .limit
  | .changed c => .ch (c.obs sh fl)
  | .removed none => .unit
  | .removed (some c) => .ch (c.obs sh fl)
  | .changes cs => .chs (changesObs sh fl cs)

def dentryOf (fl : Flags) (e : Entry) : DEntry :=
  { src := e.src.id, rpid := e.rpid, attr := e.attr.id, stale := e.isStale fl, filtered := e.filtered }

/-- the peer addresses of a case, ascending, without duplicates -/
def Case.addrs (c : Case) : List Nat := sortOn (fun a b => decide (a < b)) (c.srcs.map (·.addr)).eraseDups

/-- `Table::rs_local_paths`: the best usable path among the route-server clients other than `peer`
    (the list is ranked, so it is the first such entry) -/
def rsLocalOf (peer : Nat) (es : List Entry) : Option Entry :=
  es.find? fun e => e.src.role == .rs && !sameAddr peer e && e.eligible

/-- keep the destinations for which `sel` shows something -/
def viewOf {β} (sel : List Entry → Option β) (ds : List (Net × Dest)) : List (Net × β) :=
  sortOn (fun a b => a.1.lt b.1) (ds.filterMap fun nd => (sel nd.2.entries).map fun b => (nd.1, b))

def nonEmptyList {β} (l : List β) : Option (List β) := if l.isEmpty then none else some l

def famObs (c : Case) (t : Table) (f : Fam) : FamObs :=
  let r := t.rib f
  let fl := t.flags
  { fam := f
    dests := viewOf (fun es => nonEmptyList (es.map (dentryOf fl))) r.dests
    nofilt := viewOf (fun es => nonEmptyList ((es.filter fun e => !e.filtered).map (dentryOf fl))) r.dests
    loc := sortOn (fun a b => a.net.lt b.net) ((r.collect f none).map fun ch =>
      { net := ch.net, destId := packId c.shard ch.destId, ecmp := ecmpIds fl ch.net.t2 ch.paths,
        paths := ch.paths.map Entry.ref })
    lim2 := sortOn (fun a b => a.1.lt b.1) ((r.collect f (some 2)).map fun ch => (ch.net, ch.paths.map (·.lpid)))
    lim3 := sortOn (fun a b => a.1.lt b.1) ((r.collect f (some 3)).map fun ch => (ch.net, ch.paths.map (·.lpid)))
    state := r.state
    adjIn := c.addrs.map fun a =>
      (a, viewOf (fun es => nonEmptyList ((es.filter (sameAddr a)).map (dentryOf fl))) r.dests)
    rsLocal := c.addrs.map fun a =>
      (a, viewOf (fun es => (rsLocalOf a es).map fun e => { dentryOf fl e with rpid := 0, filtered := false }) r.dests) }

def Op.isPurgeOp : Op → Bool
  | .drop .. => true
  | .dropStale .. => true
  | .dropLlgr .. => true
  | .dropNoLlgr .. => true
  | _ => false

/-- coverage markers of a step -/
def covOf (op : Op) (t : Table) (r : Res) : List String :=
  let chs := match r with
    | .changed ch => [ch]
    | .removed (some ch) => [ch]
    | .changes cs => cs
    | _ => []
  (if op.isPurgeOp && !chs.isEmpty then ["purge-hit"] else []) ++
  (match op with
   | .restale .. => if chs.any (·.best) then ["restale-rebest"] else []
   | .restaleLlgr .. => if chs.any (·.best) then ["restale-llgr-rebest"] else []
   | _ => []) ++
  (if (t.v4.collect .v4 none ++ t.ev.collect .ev none).any (fun ch => ch.destId ≥ 64) then ["id-ge-64"] else []) ++
  (if (t.v4.collect .v4 none ++ t.ev.collect .ev none).any (fun ch => ch.destId ≥ 128) then ["id-ge-128"] else [])

def stepObs (c : Case) (op : Op) (tr : Table × Res) : StepObs :=
  let (t, r) := tr
  let addrs := c.srcs.map (·.addr)
  { res := r.obs c.shard t.flags
    fams := allFams.map (famObs c t)
    stats := (sortOn (fun a b => natFamLt a.1 b.1) (t.stats.filter fun s => addrs.contains s.1.1)).map
      fun s => (s.1.1, s.1.2, s.2.1, s.2.2)
    ctrs := (sortOn (fun a b => natFamLt a.1 b.1) (t.ctrs.filter fun s => s.2 != 0)).map
      fun s => (s.1.1, s.1.2, s.2)
    stale := sortOn (fun a b => decide (a < b)) (t.stale.filter fun i => i < c.srcs.length)
    llgr := sortOn (fun a b => decide (a < b)) (t.llgr.filter fun i => i < c.srcs.length)
    cov := covOf op t r }

def observe (p : Profile) (c : Case) : Obs :=
  let (l, pn) := run p c
  { steps := List.zipWith (stepObs c) c.ops l, panicked := pn }

end Rbgp.Rib
