/-
  Rbgp.Rib.BitAlloc — C06, the destination-id allocator at the BITMAP level.

  `table/src/lib.rs`, `struct IdAllocator { bits: Vec<u64>, shard_idx: u32 }`: bit `i` of word `w` set
  means "local id `w*64+i` is in use".  `Rbgp.Rib.Model` abstracts the allocator by the LIST of ids in use
  (`allocId used` = lowest id not in `used`, dealloc = `List.erase`).  This file models the bitmap itself,
  line by line, and proves that the list abstraction REFINES it (`alloc_refines`, `alloc_rel`,
  `dealloc_rel`): starting from related states, the bitmap and the list hand out the same id and stay
  related.  Words are `Nat`s `< W = 2^64`; bit operations are the `Nat` ones (`|||`, `&&&`, `<<<`,
  `Nat.testBit`), `!x` on `u64` is `W - 1 - x`.
-/
import Rbgp.Rib.PropsAlloc
namespace Rbgp.Rib.BitAlloc
open Rbgp.Rib

/-! ## Definitions (mirror of the Rust) -/

/-- `2^64`; a word is a `Nat < W`; `u64::MAX = W - 1`. -/
def W : Nat := 18446744073709551616

/-- `u64::trailing_ones` (fuel = the 64 bits of the word): number of consecutive low 1-bits. -/
def trailingOnesF : Nat → Nat → Nat
  | 0, _ => 0
  | f + 1, n => if n % 2 = 1 then trailingOnesF f (n / 2) + 1 else 0
def trailingOnes (w : Nat) : Nat := trailingOnesF 64 w

/-- `*word |= 1u64 << bit` -/
def setBit (w bit : Nat) : Nat := w ||| (1 <<< bit)
/-- `word &= !(1u64 << bit)` (`!x = u64::MAX - x`) -/
def clearBit (w bit : Nat) : Nat := w &&& (W - 1 - (1 <<< bit))

/-- the `for (i, word) in self.bits.iter_mut().enumerate()` loop of `alloc`, from index `i` on; falls
    through to `self.bits.push(1)`.  Returns (local id, new bitmap suffix). -/
def allocGo : List Nat → Nat → Nat × List Nat
  | [], i => (i * 64, [1])
  | w :: ws, i =>
    if w ≠ W - 1 then
      let bit := trailingOnes w
      (i * 64 + bit, setBit w bit :: ws)
    else
      let r := allocGo ws (i + 1)
      (r.1, w :: r.2)

/-- `IdAllocator::alloc`, local part: (local id, new bitmap). -/
def alloc (bits : List Nat) : Nat × List Nat := allocGo bits 0

/-- `while self.bits.last() == Some(&0) { self.bits.pop(); }` (fuel = number of words). -/
def popLoop : Nat → List Nat → List Nat
  | 0, bits => bits
  | f + 1, bits => if bits.getLast? = some 0 then popLoop f bits.dropLast else bits

/-- `IdAllocator::dealloc` on the local id: `none` = the Rust `self.bits[i]` index panic. -/
def dealloc (bits : List Nat) (id : Nat) : Option (List Nat) :=
  let i := id / 64
  let bit := id % 64
  if i < bits.length then
    let bits' := bits.set i (clearBit (bits.getD i 0) bit)
    some (popLoop bits'.length bits')
  else none

/-- `(shard_idx << 24) | local_id` (see `pack_eq_or`) -/
def pack (shard loc : Nat) : Nat := shard * 16777216 + loc
/-- `id & 0x00FF_FFFF` (see `unpack_eq_and`) -/
def unpack (id : Nat) : Nat := id % 16777216

/-- the whole `IdAllocator::alloc`: the returned dest id carries the shard index. -/
def allocFull (shard : Nat) (bits : List Nat) : Nat × List Nat := (pack shard (alloc bits).1, (alloc bits).2)
/-- the whole `IdAllocator::dealloc`: takes the combined dest id. -/
def deallocFull (bits : List Nat) (id : Nat) : Option (List Nat) := dealloc bits (unpack id)

/-- word `k` of the bitmap (0 beyond the end) -/
def word (bits : List Nat) (k : Nat) : Nat := bits.getD k 0

/-- local id `id` is in use: bit `id % 64` of word `id / 64` (false beyond the list). -/
def inUse (bits : List Nat) (id : Nat) : Bool := (word bits (id / 64)).testBit (id % 64)

/-- what `alloc`/`dealloc` maintain: every word fits in a `u64` and the last word is non-zero. -/
def WF (bits : List Nat) : Prop := (∀ w ∈ bits, w < W) ∧ bits.getLast? ≠ some 0

/-- bitmaps reachable from `IdAllocator::new` by `alloc` / non-panicking `dealloc`. -/
inductive Reach : List Nat → Prop
  | new : Reach []
  | alloc {bits} : Reach bits → Reach (alloc bits).2
  | dealloc {bits bits'} (id : Nat) : Reach bits → dealloc bits id = some bits' → Reach bits'

/-! ## Bit lemmas -/

theorem W_eq : W = 2 ^ 64 := by decide

theorem tOF_below : ∀ (f n j : Nat), j < trailingOnesF f n → n.testBit j = true := by
  intro f
  induction f with
  | zero => intro n j h; simp [trailingOnesF] at h
  | succ f ih =>
    intro n j h
    simp only [trailingOnesF] at h
    by_cases hc : n % 2 = 1
    · rw [if_pos hc] at h
      cases j with
      | zero => rw [Nat.testBit_zero]; exact decide_eq_true hc
      | succ j => rw [Nat.testBit_add_one]; exact ih (n / 2) j (by omega)
    · rw [if_neg hc] at h; omega

theorem tOF_at : ∀ (f n : Nat), n < 2 ^ f → n ≠ 2 ^ f - 1 →
    trailingOnesF f n < f ∧ n.testBit (trailingOnesF f n) = false := by
  intro f
  induction f with
  | zero => intro n h1 h2; simp at h1; omega
  | succ f ih =>
    intro n h1 h2
    have hp : 2 ^ (f + 1) = 2 * 2 ^ f := by rw [Nat.pow_succ]; omega
    rw [hp] at h1 h2
    simp only [trailingOnesF]
    by_cases hc : n % 2 = 1
    · rw [if_pos hc]
      have := ih (n / 2) (by omega) (by omega)
      refine ⟨by omega, ?_⟩
      rw [Nat.testBit_add_one]; exact this.2
    · rw [if_neg hc]
      refine ⟨by omega, ?_⟩
      rw [Nat.testBit_zero]; exact decide_eq_false hc

/-- `trailing_ones` of a non-full word: a clear bit below 64 with only set bits below it. -/
theorem trailingOnes_spec (w : Nat) (h : w < W) (hne : w ≠ W - 1) :
    trailingOnes w < 64 ∧ w.testBit (trailingOnes w) = false ∧
      ∀ j, j < trailingOnes w → w.testBit j = true := by
  have h1 := tOF_at 64 w (by rw [← W_eq]; exact h) (by rw [← W_eq]; exact hne)
  exact ⟨h1.1, h1.2, fun j hj => tOF_below 64 w j hj⟩

theorem testBit_full (j : Nat) (h : j < 64) : (W - 1).testBit j = true := by
  rw [W_eq, Nat.testBit_two_pow_sub_one]; exact decide_eq_true h

theorem testBit_setBit (w i j : Nat) : (setBit w i).testBit j = (w.testBit j || decide (i = j)) := by
  unfold setBit; rw [Nat.testBit_or, Nat.one_shiftLeft, Nat.testBit_two_pow]

theorem setBit_lt (w i : Nat) (hw : w < W) (hi : i < 64) : setBit w i < W := by
  unfold setBit; rw [W_eq] at *; rw [Nat.one_shiftLeft]
  exact Nat.or_lt_two_pow hw (Nat.pow_lt_pow_right (by omega) hi)

theorem setBit_ne_zero (w i : Nat) : setBit w i ≠ 0 := by
  intro h
  have := testBit_setBit w i i
  rw [h, Nat.zero_testBit] at this
  simp at this

theorem testBit_clearBit (w i j : Nat) (hi : i < 64) (hj : j < 64) :
    (clearBit w i).testBit j = (w.testBit j && !decide (i = j)) := by
  unfold clearBit
  have hlt : 2 ^ i < 2 ^ 64 := Nat.pow_lt_pow_right (by omega) hi
  have he : W - 1 - 1 <<< i = 2 ^ 64 - (2 ^ i + 1) := by rw [Nat.one_shiftLeft, W_eq]; omega
  rw [he, Nat.testBit_and, Nat.testBit_two_pow_sub_succ hlt, Nat.testBit_two_pow]
  simp [hj]

theorem clearBit_le (w i : Nat) : clearBit w i ≤ w := Nat.and_le_left

/-! ## `word` / `inUse` plumbing -/

@[simp] theorem word_nil (k : Nat) : word [] k = 0 := by simp [word]
@[simp] theorem word_cons_zero (w : Nat) (ws : List Nat) : word (w :: ws) 0 = w := by simp [word]
@[simp] theorem word_cons_succ (w : Nat) (ws : List Nat) (k : Nat) : word (w :: ws) (k + 1) = word ws k := by
  simp [word]

theorem word_beyond (bits : List Nat) (k : Nat) (h : bits.length ≤ k) : word bits k = 0 := by
  unfold word; rw [List.getD_eq_getElem?_getD, List.getElem?_eq_none h]; rfl

theorem word_set (bits : List Nat) (k v k' : Nat) (h : k < bits.length) :
    word (bits.set k v) k' = if k' = k then v else word bits k' := by
  unfold word
  rw [List.getD_eq_getElem?_getD, List.getD_eq_getElem?_getD, List.getElem?_set]
  by_cases hk : k = k'
  · subst hk; simp [h]
  · rw [if_neg hk, if_neg (fun e => hk e.symm)]

theorem word_dropLast (bits : List Nat) (k : Nat) (h : bits.getLast? = some 0) :
    word bits.dropLast k = word bits k := by
  unfold word
  rw [List.getD_eq_getElem?_getD, List.getD_eq_getElem?_getD, List.getElem?_dropLast]
  by_cases h1 : k < bits.length - 1
  · rw [if_pos h1]
  · rw [if_neg h1]
    by_cases h2 : k = bits.length - 1
    · rw [List.getLast?_eq_getElem?, ← h2] at h
      rw [h]; rfl
    · rw [List.getElem?_eq_none (by omega)]

theorem inUse_true_lt (bits : List Nat) (id : Nat) (h : inUse bits id = true) : id / 64 < bits.length := by
  apply Classical.byContradiction
  intro hc
  unfold inUse at h
  rw [word_beyond bits _ (by omega), Nat.zero_testBit] at h
  exact Bool.false_ne_true h

theorem id_split (n k b : Nat) (hb : b < 64) : n = k * 64 + b ↔ n / 64 = k ∧ n % 64 = b := by omega

/-! ## `alloc` -/

theorem getLast?_cons_ne {a : Nat} {xs : List Nat} (h : xs ≠ []) : (a :: xs).getLast? = xs.getLast? := by
  cases xs with
  | nil => exact absurd rfl h
  | cons b l => exact List.getLast?_cons_cons

theorem allocGo_ne_nil : ∀ (ws : List Nat) (i : Nat), (allocGo ws i).2 ≠ [] := by
  intro ws
  induction ws with
  | nil => intro i; simp [allocGo]
  | cons w ws ih =>
    intro i
    simp only [allocGo]
    split <;> simp

/-- the shape of what the `alloc` loop does: it finds word `k` (all words before it full), bit `b` (clear,
    all bits below it set) and sets exactly that bit. -/
theorem allocGo_spec : ∀ (ws : List Nat) (i : Nat), (∀ w ∈ ws, w < W) →
    ∃ k b, b < 64 ∧ (allocGo ws i).1 = (i + k) * 64 + b ∧
      (∀ k', k' < k → word ws k' = W - 1) ∧
      (word ws k).testBit b = false ∧ (∀ b', b' < b → (word ws k).testBit b' = true) ∧
      (∀ k', word (allocGo ws i).2 k' = if k' = k then setBit (word ws k) b else word ws k') := by
  intro ws
  induction ws with
  | nil =>
    intro i _
    refine ⟨0, 0, by omega, by simp [allocGo], fun k' h => by omega, by simp, fun b' h => by omega, ?_⟩
    intro k'
    cases k' with
    | zero => simp [allocGo, setBit]
    | succ k' => simp [allocGo]
  | cons w ws ih =>
    intro i hW
    by_cases hc : w ≠ W - 1
    · have ht := trailingOnes_spec w (hW w (by simp)) hc
      refine ⟨0, trailingOnes w, ht.1, by simp [allocGo, hc], fun k' h => by omega, by simpa using ht.2.1,
        by simpa using ht.2.2, ?_⟩
      intro k'
      cases k' with
      | zero => simp [allocGo, hc]
      | succ k' => simp [allocGo, hc]
    · have hw : w = W - 1 := Classical.not_not.mp hc
      obtain ⟨k, b, hb, h1, h2, h3, h4, h5⟩ := ih (i + 1) (fun x hx => hW x (by simp [hx]))
      refine ⟨k + 1, b, hb, ?_, ?_, by simpa using h3, by simpa using h4, ?_⟩
      · simp only [allocGo, if_neg hc]; rw [h1]; omega
      · intro k' hk'
        cases k' with
        | zero => simpa using hw
        | succ k' => simpa using h2 k' (by omega)
      · intro k'
        simp only [allocGo, if_neg hc]
        cases k' with
        | zero => simp
        | succ k' => simpa using h5 k'

theorem allocGo_lt : ∀ (ws : List Nat) (i : Nat), (∀ w ∈ ws, w < W) → ∀ w ∈ (allocGo ws i).2, w < W := by
  intro ws
  induction ws with
  | nil => intro i _ w hw; simp [allocGo] at hw; subst hw; decide
  | cons a ws ih =>
    intro i hW w hw
    by_cases hc : a ≠ W - 1
    · simp only [allocGo, if_pos hc, List.mem_cons] at hw
      rcases hw with rfl | hw
      · exact setBit_lt a _ (hW a (by simp)) (trailingOnes_spec a (hW a (by simp)) hc).1
      · exact hW w (by simp [hw])
    · simp only [allocGo, if_neg hc, List.mem_cons] at hw
      rcases hw with rfl | hw
      · exact hW w (by simp)
      · exact ih (i + 1) (fun x hx => hW x (by simp [hx])) w hw

theorem allocGo_last : ∀ (ws : List Nat) (i : Nat), ws.getLast? ≠ some 0 → (allocGo ws i).2.getLast? ≠ some 0 := by
  intro ws
  induction ws with
  | nil => intro i _; simp [allocGo]
  | cons a ws ih =>
    intro i hl
    by_cases hc : a ≠ W - 1
    · simp only [allocGo, if_pos hc]
      cases ws with
      | nil =>
        intro h
        simp only [List.getLast?_singleton, Option.some.injEq] at h
        exact setBit_ne_zero _ _ h
      | cons b l => rw [List.getLast?_cons_cons]; rw [List.getLast?_cons_cons] at hl; exact hl
    · simp only [allocGo, if_neg hc]
      rw [getLast?_cons_ne (allocGo_ne_nil ws (i + 1))]
      apply ih
      cases ws with
      | nil => simp
      | cons b l => rw [List.getLast?_cons_cons] at hl; exact hl

theorem WF_nil : WF [] := ⟨fun _ h => by simp at h, by simp⟩

/-- `alloc` preserves well-formedness. -/
theorem alloc_WF (bits : List Nat) (h : WF bits) : WF (alloc bits).2 :=
  ⟨allocGo_lt bits 0 h.1, allocGo_last bits 0 h.2⟩

/-- **alloc_spec**: the id handed out is not in use, every smaller id is in use, and afterwards exactly the
    old ids plus the new one are in use. -/
theorem alloc_spec (bits : List Nat) (h : WF bits) :
    inUse bits (alloc bits).1 = false ∧
    (∀ m, m < (alloc bits).1 → inUse bits m = true) ∧
    (∀ n, inUse (alloc bits).2 n = true ↔ (inUse bits n = true ∨ n = (alloc bits).1)) := by
  obtain ⟨k, b, hb, h1, h2, h3, h4, h5⟩ := allocGo_spec bits 0 h.1
  rw [Nat.zero_add] at h1
  have hid := (id_split (alloc bits).1 k b hb).mp h1
  refine ⟨?_, ?_, ?_⟩
  · unfold inUse; rw [hid.1, hid.2]; exact h3
  · intro m hm
    have hm' : m < k * 64 + b := h1 ▸ hm
    unfold inUse
    by_cases hk : m / 64 < k
    · rw [h2 _ hk]; exact testBit_full _ (Nat.mod_lt _ (by omega))
    · have : m / 64 = k := by omega
      rw [this]; exact h4 _ (by omega)
  · intro n
    have hsplit := id_split n k b hb
    unfold inUse
    show (word (allocGo bits 0).2 (n / 64)).testBit (n % 64) = true ↔ _
    have h1' : (alloc bits).1 = k * 64 + b := h1
    rw [h5 (n / 64), h1']
    by_cases hk : n / 64 = k
    · rw [if_pos hk, testBit_setBit, hk]
      by_cases hbb : b = n % 64
      · have hn : n = k * 64 + b := hsplit.mpr ⟨hk, hbb.symm⟩
        exact ⟨fun _ => Or.inr hn, fun _ => by simp [hbb]⟩
      · have : ¬ n = k * 64 + b := fun e => hbb (hsplit.mp e).2.symm
        simp [hbb, this]
    · rw [if_neg hk]
      have : ¬ n = k * 64 + b := fun e => hk (hsplit.mp e).1
      simp [this]

theorem tOF_le : ∀ (f n : Nat), trailingOnesF f n ≤ f := by
  intro f
  induction f with
  | zero => intro n; simp [trailingOnesF]
  | succ f ih =>
    intro n
    simp only [trailingOnesF]
    split
    · have := ih (n / 2); omega
    · omega

theorem allocGo_le : ∀ (ws : List Nat) (i : Nat), (allocGo ws i).1 ≤ (i + ws.length) * 64 := by
  intro ws
  induction ws with
  | nil => intro i; simp [allocGo]
  | cons w ws ih =>
    intro i
    simp only [allocGo, List.length_cons]
    split
    · have := tOF_le 64 w
      show i * 64 + trailingOnesF 64 w ≤ _
      omega
    · have := ih (i + 1)
      show (allocGo ws (i + 1)).1 ≤ _
      omega

/-- the local id handed out is at most `64 * (number of words)`: the Rust `debug_assert!(local_id < 1 << 24)`
    (release builds: silent overflow into the shard bits) cannot fire while the bitmap has fewer than
    `2^18` words, i.e. (bitmap is trimmed, ids are lowest-first) fewer than `2^24` destinations per shard. -/
theorem alloc_id_le (bits : List Nat) : (alloc bits).1 ≤ bits.length * 64 := by
  have := allocGo_le bits 0; rw [Nat.zero_add] at this; exact this

theorem alloc_id_lt_shard (bits : List Nat) (h : bits.length < 262144) : (alloc bits).1 < 16777216 := by
  have := alloc_id_le bits; omega

/-! ## `dealloc` -/

theorem word_popLoop : ∀ (f : Nat) (bits : List Nat) (k : Nat), word (popLoop f bits) k = word bits k := by
  intro f
  induction f with
  | zero => intro bits k; rfl
  | succ f ih =>
    intro bits k
    simp only [popLoop]
    by_cases hc : bits.getLast? = some 0
    · rw [if_pos hc, ih, word_dropLast bits k hc]
    · rw [if_neg hc]

theorem popLoop_lt : ∀ (f : Nat) (bits : List Nat), (∀ w ∈ bits, w < W) → ∀ w ∈ popLoop f bits, w < W := by
  intro f
  induction f with
  | zero => intro bits h; exact h
  | succ f ih =>
    intro bits h
    simp only [popLoop]
    by_cases hc : bits.getLast? = some 0
    · rw [if_pos hc]; exact ih _ (fun w hw => h w (List.dropLast_subset bits hw))
    · rw [if_neg hc]; exact h

theorem popLoop_last : ∀ (f : Nat) (bits : List Nat), bits.length ≤ f → (popLoop f bits).getLast? ≠ some 0 := by
  intro f
  induction f with
  | zero =>
    intro bits h
    have : bits = [] := List.eq_nil_of_length_eq_zero (by omega)
    subst this; simp [popLoop]
  | succ f ih =>
    intro bits h
    simp only [popLoop]
    by_cases hc : bits.getLast? = some 0
    · rw [if_pos hc]; exact ih _ (by rw [List.length_dropLast]; omega)
    · rw [if_neg hc]; exact hc

/-- `dealloc` of an id whose word exists: does not panic, preserves well-formedness, and afterwards exactly
    the old ids except `id` are in use. -/
theorem dealloc_spec' (bits : List Nat) (id : Nat) (h : WF bits) (hi : id / 64 < bits.length) :
    ∃ bits', dealloc bits id = some bits' ∧ WF bits' ∧
      ∀ n, inUse bits' n = true ↔ (inUse bits n = true ∧ n ≠ id) := by
  have hd : dealloc bits id = some (popLoop (bits.set (id / 64) (clearBit (bits.getD (id / 64) 0) (id % 64))).length
      (bits.set (id / 64) (clearBit (bits.getD (id / 64) 0) (id % 64)))) := by
    simp only [dealloc, if_pos hi]
  refine ⟨_, hd, ⟨?_, ?_⟩, ?_⟩
  · apply popLoop_lt
    intro w hw
    rcases List.mem_or_eq_of_mem_set hw with hw | rfl
    · exact h.1 w hw
    · have : bits.getD (id / 64) 0 < W := by
        rw [List.getD_eq_getElem?_getD, List.getElem?_eq_getElem hi]
        exact h.1 _ (List.getElem_mem hi)
      exact Nat.lt_of_le_of_lt (clearBit_le _ _) this
  · exact popLoop_last _ _ (Nat.le_refl _)
  · intro n
    unfold inUse
    rw [word_popLoop, word_set _ _ _ _ hi]
    have hb : id % 64 < 64 := Nat.mod_lt _ (by omega)
    have hn : n % 64 < 64 := Nat.mod_lt _ (by omega)
    by_cases hk : n / 64 = id / 64
    · rw [if_pos hk, testBit_clearBit _ _ _ hb hn, hk]
      show (_ && _) = true ↔ (word bits (id / 64)).testBit (n % 64) = true ∧ _
      by_cases hbb : id % 64 = n % 64
      · have : n = id := by omega
        simp [hbb, this]
      · have : n ≠ id := fun e => hbb (by rw [e])
        simp [hbb, this, word]
    · rw [if_neg hk]
      have : n ≠ id := fun e => hk (by rw [e])
      simp [this]

/-- **dealloc_spec**: for an id in use, `dealloc` does not hit the index panic, preserves well-formedness,
    and afterwards exactly the old ids except `id` are in use. -/
theorem dealloc_spec (bits : List Nat) (id : Nat) (h : WF bits) (hu : inUse bits id = true) :
    ∃ bits', dealloc bits id = some bits' ∧ WF bits' ∧
      ∀ n, inUse bits' n = true ↔ (inUse bits n = true ∧ n ≠ id) :=
  dealloc_spec' bits id h (inUse_true_lt bits id hu)

/-- `dealloc` (when it does not panic) preserves well-formedness. -/
theorem dealloc_WF (bits bits' : List Nat) (id : Nat) (h : WF bits) (hd : dealloc bits id = some bits') :
    WF bits' := by
  by_cases hi : id / 64 < bits.length
  · obtain ⟨b2, h1, h2, _⟩ := dealloc_spec' bits id h hi
    rw [hd] at h1; cases h1; exact h2
  · simp [dealloc, hi] at hd

/-- the index panic of `dealloc` happens exactly for ids beyond the bitmap (never for an id in use). -/
theorem dealloc_none_iff (bits : List Nat) (id : Nat) : dealloc bits id = none ↔ bits.length ≤ id / 64 := by
  unfold dealloc
  by_cases hi : id / 64 < bits.length
  · simp [hi]
  · simp [hi]; omega

/-- every bitmap reachable from `IdAllocator::new` is well-formed. -/
theorem reach_WF {bits : List Nat} (h : Reach bits) : WF bits := by
  induction h with
  | new => exact WF_nil
  | alloc _ ih => exact alloc_WF _ ih
  | dealloc id _ hd ih => exact dealloc_WF _ _ id ih hd

/-! ## shard packing -/

theorem unpack_pack (shard loc : Nat) (h : loc < 16777216) : unpack (pack shard loc) = loc := by
  unfold unpack pack; omega

theorem pack_shard (shard loc : Nat) (h : loc < 16777216) : pack shard loc / 16777216 = shard := by
  unfold pack; omega

theorem pack_inj_local (shard l1 l2 : Nat) (h : pack shard l1 = pack shard l2) : l1 = l2 := by
  unfold pack at h; omega

/-- ids of different shards never collide (locals below `2^24`). -/
theorem pack_inj (s1 s2 l1 l2 : Nat) (h1 : l1 < 16777216) (h2 : l2 < 16777216)
    (h : pack s1 l1 = pack s2 l2) : s1 = s2 ∧ l1 = l2 := by
  unfold pack at h; omega

theorem pack_ne_of_shard_ne (s1 s2 l1 l2 : Nat) (h1 : l1 < 16777216) (h2 : l2 < 16777216) (hs : s1 ≠ s2) :
    pack s1 l1 ≠ pack s2 l2 := fun h => hs (pack_inj s1 s2 l1 l2 h1 h2 h).1

/-- a packed id fits the `u32` for `shard_idx < 256`. -/
theorem pack_lt_u32 (shard loc : Nat) (hs : shard < 256) (h : loc < 16777216) : pack shard loc < 4294967296 := by
  unfold pack; omega

/-- `pack` is the Rust `(shard_idx << 24) | local_id`. -/
theorem pack_eq_or (shard loc : Nat) (h : loc < 16777216) : (shard <<< 24) ||| loc = pack shard loc := by
  rw [← Nat.shiftLeft_add_eq_or_of_lt (i := 24) (by omega) shard, Nat.shiftLeft_eq]
  unfold pack; omega

/-- `unpack` is the Rust `id & 0x00FF_FFFF`. -/
theorem unpack_eq_and (id : Nat) : id &&& 0x00FFFFFF = unpack id := by
  have := Nat.and_two_pow_sub_one_eq_mod id 24
  exact this

/-- the combined `dealloc(alloc-ed id)` acts on the local id. -/
theorem deallocFull_pack (bits : List Nat) (shard loc : Nat) (h : loc < 16777216) :
    deallocFull bits (pack shard loc) = dealloc bits loc := by
  unfold deallocFull; rw [unpack_pack shard loc h]

/-! ## Refinement: the list-of-ids abstraction of `Rbgp.Rib.Model` -/

/-- the abstraction relation: `used` lists exactly the ids whose bit is set. -/
def Rel (used : List Nat) (bits : List Nat) : Prop := ∀ n, n ∈ used ↔ inUse bits n = true

theorem rel_nil : Rel [] [] := by
  intro n; simp [inUse]

/-- "the lowest id not in the set" is unique. -/
theorem least_unique (P : Nat → Prop) (a b : Nat) (ha : ¬ P a) (hal : ∀ m, m < a → P m)
    (hb : ¬ P b) (hbl : ∀ m, m < b → P m) : a = b := by
  rcases Nat.lt_trichotomy a b with h | h | h
  · exact absurd (hbl a h) ha
  · exact h
  · exact absurd (hal b h) hb

/-- **refinement, alloc (id)**: the bitmap allocator hands out the id the model's `allocId` does. -/
theorem alloc_refines (used bits : List Nat) (h : WF bits) (hr : Rel used bits) :
    (alloc bits).1 = allocId used := by
  obtain ⟨h1, h2, _⟩ := alloc_spec bits h
  obtain ⟨g1, g2⟩ := PropsAlloc.alloc_lowest_free used
  apply least_unique (fun n => n ∈ used)
  · intro hm; rw [(hr _).mp hm] at h1; exact Bool.noConfusion h1
  · intro m hm; exact (hr m).mpr (h2 m hm)
  · exact g1
  · exact g2

/-- **refinement, alloc (state)**: consing the new id onto the list matches the new bitmap. -/
theorem alloc_rel (used bits : List Nat) (h : WF bits) (hr : Rel used bits) :
    Rel ((alloc bits).1 :: used) (alloc bits).2 := by
  intro n
  rw [(alloc_spec bits h).2.2 n, List.mem_cons, hr n]
  exact Or.comm

/-- the same, phrased with the model's `allocId` (the step `used := allocId used :: used` of `Model`). -/
theorem alloc_rel_model (used bits : List Nat) (h : WF bits) (hr : Rel used bits) :
    Rel (allocId used :: used) (alloc bits).2 := by
  rw [← alloc_refines used bits h hr]; exact alloc_rel used bits h hr

/-- the list stays duplicate-free under `alloc` (so `List.erase` keeps meaning "remove the id"). -/
theorem alloc_nodup (used bits : List Nat) (h : WF bits) (hr : Rel used bits) (hn : used.Nodup) :
    ((alloc bits).1 :: used).Nodup := by
  refine List.nodup_cons.mpr ⟨?_, hn⟩
  intro hm
  have := (alloc_spec bits h).1
  rw [(hr _).mp hm] at this; exact Bool.noConfusion this

/-- **refinement, dealloc**: for an id in the list, the bitmap `dealloc` does not panic and `List.erase`
    matches the new bitmap. -/
theorem dealloc_rel (used bits : List Nat) (id : Nat) (h : WF bits) (hr : Rel used bits) (hn : used.Nodup)
    (hid : id ∈ used) :
    ∃ bits', dealloc bits id = some bits' ∧ WF bits' ∧ Rel (used.erase id) bits' ∧ (used.erase id).Nodup := by
  obtain ⟨bits', h1, h2, h3⟩ := dealloc_spec bits id h ((hr id).mp hid)
  refine ⟨bits', h1, h2, ?_, hn.erase id⟩
  intro n
  rw [h3 n, List.Nodup.mem_erase_iff hn, hr n]
  exact And.comm

/-- `dealloc` of an id NOT in the list but inside the bitmap: the Rust clears an already-clear bit (no-op
    up to trailing-zero stripping) and `List.erase` is a no-op: still related. -/
theorem dealloc_rel_absent (used bits bits' : List Nat) (id : Nat) (h : WF bits) (hr : Rel used bits)
    (hid : id ∉ used) (hd : dealloc bits id = some bits') : Rel (used.erase id) bits' := by
  have hi : id / 64 < bits.length := by
    apply Classical.byContradiction; intro hc
    rw [(dealloc_none_iff bits id).mpr (by omega)] at hd; cases hd
  obtain ⟨b2, h1, _, h3⟩ := dealloc_spec' bits id h hi
  rw [hd] at h1; cases h1
  intro n
  rw [List.erase_of_not_mem hid, h3 n, hr n]
  constructor
  · intro hm; exact ⟨hm, fun e => hid ((hr id).mpr (e ▸ hm))⟩
  · intro hm; exact hm.1

/-- the refinement with the shard bits: the Rust dest id is `pack shard` of the model's id. -/
theorem allocFull_refines (shard : Nat) (used bits : List Nat) (h : WF bits) (hr : Rel used bits) :
    (allocFull shard bits).1 = pack shard (allocId used) ∧ Rel (allocId used :: used) (allocFull shard bits).2 :=
  ⟨by unfold allocFull; rw [alloc_refines used bits h hr], alloc_rel_model used bits h hr⟩

/-- `dealloc` of the packed id of a model id (below `2^24`) in the list. -/
theorem deallocFull_rel (shard : Nat) (used bits : List Nat) (id : Nat) (h : WF bits) (hr : Rel used bits)
    (hn : used.Nodup) (hid : id ∈ used) (hlt : id < 16777216) :
    ∃ bits', deallocFull bits (pack shard id) = some bits' ∧ WF bits' ∧ Rel (used.erase id) bits' ∧
      (used.erase id).Nodup := by
  rw [deallocFull_pack bits shard id hlt]; exact dealloc_rel used bits id h hr hn hid

/-! ## non-vacuity -/

/-- allocate `n` ids in a row: (ids handed out, final bitmap) -/
def allocN : Nat → List Nat → List Nat × List Nat
  | 0, bits => ([], bits)
  | n + 1, bits => let r := alloc bits; let s := allocN n r.2; (r.1 :: s.1, s.2)

example : trailingOnes 0 = 0 ∧ trailingOnes 7 = 3 ∧ trailingOnes 11 = 2 ∧ trailingOnes (W - 1) = 64 := by decide
-- 130 allocations from the empty bitmap: ids 0..129, three words (two full, one with two bits)
set_option maxRecDepth 100000 in
example : allocN 130 [] = (List.range 130, [W - 1, W - 1, 3]) := by decide
/-- free 64 (first bit of the second word), the next alloc hands 64 out again -/
example : (dealloc [W - 1, W - 1, 3] 64).map (fun b => (b, (alloc b).1)) =
    some ([W - 1, W - 2, 3], 64) := by decide
/-- freeing the only id of the last word pops the word -/
example : dealloc [W - 1, 1] 64 = some [W - 1] := by decide
/-- ... and a whole run of now-empty words -/
example : dealloc [5, 0, 0, 1] 192 = some [5] := by decide
example : dealloc [1] 0 = some [] := by decide
/-- the Rust index panic: id beyond the bitmap -/
example : dealloc [W - 1] 64 = none := by decide
/-- alloc fills the lowest hole -/
example : alloc [W - 1, 0b1011, 1] = (64 + 2, [W - 1, 0b1111, 1]) := by decide
example : inUse [W - 1, 3] 65 = true ∧ inUse [W - 1, 3] 66 = false ∧ inUse [W - 1, 3] 1000 = false := by decide
/-- shard 3, local 5 -/
example : allocFull 3 [31] = (50331653, [63]) ∧ deallocFull [63] 50331653 = some [31] := by decide
/-- the bitmap and the list model agree on a concrete state -/
example : (alloc [0b1011]).1 = allocId [3, 0, 1] := by decide

end Rbgp.Rib.BitAlloc

#print axioms Rbgp.Rib.BitAlloc.alloc_spec
#print axioms Rbgp.Rib.BitAlloc.alloc_WF
#print axioms Rbgp.Rib.BitAlloc.dealloc_spec
#print axioms Rbgp.Rib.BitAlloc.dealloc_WF
#print axioms Rbgp.Rib.BitAlloc.reach_WF
#print axioms Rbgp.Rib.BitAlloc.unpack_pack
#print axioms Rbgp.Rib.BitAlloc.pack_inj
#print axioms Rbgp.Rib.BitAlloc.pack_eq_or
#print axioms Rbgp.Rib.BitAlloc.unpack_eq_and
#print axioms Rbgp.Rib.BitAlloc.alloc_refines
#print axioms Rbgp.Rib.BitAlloc.alloc_rel
#print axioms Rbgp.Rib.BitAlloc.alloc_nodup
#print axioms Rbgp.Rib.BitAlloc.dealloc_rel
#print axioms Rbgp.Rib.BitAlloc.dealloc_rel_absent
#print axioms Rbgp.Rib.BitAlloc.alloc_id_le
#print axioms Rbgp.Rib.BitAlloc.allocFull_refines
#print axioms Rbgp.Rib.BitAlloc.deallocFull_rel
