/-
  Rbgp.Rib.InvPurge — the four purge operations (`drop`, `drop_stale`, `drop_llgr_stale`,
  `drop_no_llgr`) keep the invariant of reachable tables, never panic on a reachable table and tell
  their consumers what `StepFacts` promises.
-/
import Rbgp.Rib.Lemmas
namespace Rbgp.Rib

def Op.isPurge : Op → Prop
  | .drop .. => True
  | .dropStale .. => True
  | .dropLlgr .. => True
  | .dropNoLlgr .. => True
  | _ => False

/-! ## Generic list facts -/

section Generic
variable {α β γ : Type}

theorem nodup_map_inj {g : α → β} {l : List α} (h : (l.map g).Nodup) {a b : α}
    (ha : a ∈ l) (hb : b ∈ l) (e : g a = g b) : a = b := by
  induction l with
  | nil => simp at ha
  | cons x l ih =>
    simp only [List.map_cons, List.nodup_cons, List.mem_map, not_exists, not_and] at h
    rcases List.mem_cons.mp ha with rfl | ha' <;> rcases List.mem_cons.mp hb with rfl | hb'
    · rfl
    · exact absurd e.symm (h.1 b hb')
    · exact absurd e (h.1 a ha')
    · exact ih h.2 ha' hb'

theorem filterMap_map_sublist {f : α → Option β} {g : α → γ} {g' : β → γ} {l : List α}
    (h : ∀ x ∈ l, ∀ y, f x = some y → g' y = g x) : ((l.filterMap f).map g').Sublist (l.map g) := by
  induction l with
  | nil => simp
  | cons x l ih =>
    have ih' := ih (fun x hx => h x (List.mem_cons_of_mem _ hx))
    cases hf : f x with
    | none => rw [List.filterMap_cons_none hf]; exact List.Sublist.cons _ ih'
    | some y =>
      rw [List.filterMap_cons_some hf, List.map_cons, List.map_cons, h x List.mem_cons_self y hf]
      exact List.Sublist.cons_cons _ ih'

theorem length_filter_eq_sum (q : α → Bool) (l : List α) :
    (l.filter q).length = (l.map fun x => (q x).toNat).sum := by
  induction l with
  | nil => simp
  | cons x l ih =>
    cases hq : q x <;> simp [hq, ih] <;> omega

theorem sum_map_add (h k : α → Nat) (l : List α) :
    (l.map fun x => h x + k x).sum = (l.map h).sum + (l.map k).sum := by
  induction l with
  | nil => simp
  | cons x l ih => simp [ih]; omega

theorem sum_map_congr {h k : α → Nat} {l : List α} (e : ∀ x ∈ l, h x = k x) :
    (l.map h).sum = (l.map k).sum := by
  rw [List.map_congr_left e]

end Generic

/-! ## Lookups in a mapped / filtered association list -/

section Assoc
variable {κ ν : Type} [DecidableEq κ]

theorem alookup_map_val (h : ν → ν) (k : κ) (l : List (κ × ν)) :
    alookup k (l.map fun x => (x.1, h x.2)) = (alookup k l).map h := by
  induction l with
  | nil => simp [alookup]
  | cons x l ih =>
    obtain ⟨k', v'⟩ := x
    by_cases hk : k' = k <;> simp [alookup, hk, ih]

theorem alookup_filter_val (q : ν → Bool) (k : κ) {l : List (κ × ν)} (hn : (l.map (·.1)).Nodup) :
    alookup k (l.filter fun x => q x.2) = (alookup k l).bind fun v => if q v then some v else none := by
  induction l with
  | nil => simp [alookup]
  | cons x l ih =>
    obtain ⟨k', v'⟩ := x
    simp only [List.map_cons, List.nodup_cons] at hn
    by_cases hk : k' = k
    · subst hk
      cases hq : q v'
      · have : alookup k' l = none := alookup_none_iff.mpr hn.1
        simp [hq, alookup, ih hn.2, this]
      · simp [hq, alookup]
    · cases hq : q v' <;> simp [hq, alookup, hk, ih hn.2]

end Assoc

/-! ## One destination -/

/-- a destination after the purge (it is dropped if nothing is left) -/
def keptD (pred : Entry → Bool) (d : Dest) : Dest :=
  { d with entries := d.entries.filter fun e => !pred e }

theorem keptD_entries (pred : Entry → Bool) (d : Dest) :
    (keptD pred d).entries = d.entries.filter fun e => !pred e := rfl
theorem keptD_id (pred : Entry → Bool) (d : Dest) : (keptD pred d).id = d.id := rfl

theorem filter_not_eq_self {pred : Entry → Bool} {es : List Entry} (h : es.any pred = false) :
    es.filter (fun e => !pred e) = es := by
  rw [List.filter_eq_self]
  intro e he
  have := List.any_eq_false.mp h e he
  simp [this]

theorem purgeOne_keep (fam : Fam) (addr : Nat) (pred : Entry → Bool) (nd : Net × Dest)
    (hne : nd.2.entries ≠ []) :
    (purgeOne fam addr pred nd).keep =
      if (keptD pred nd.2).entries.isEmpty then none else some (nd.1, keptD pred nd.2) := by
  obtain ⟨net, dst⟩ := nd
  simp only [purgeOne, keptD]
  cases h : dst.entries.any pred
  · simp [filter_not_eq_self h, hne]
  · simp only [Bool.not_true, Bool.false_eq_true, if_false]
    split <;> rename_i he <;> simp [he]

theorem purgeOne_freed (fam : Fam) (addr : Nat) (pred : Entry → Bool) (nd : Net × Dest)
    (hne : nd.2.entries ≠ []) :
    (purgeOne fam addr pred nd).freed =
      if (keptD pred nd.2).entries.isEmpty then some nd.2.id else none := by
  obtain ⟨net, dst⟩ := nd
  simp only [purgeOne, keptD]
  cases h : dst.entries.any pred
  · simp [filter_not_eq_self h, hne]
  · simp only [Bool.not_true, Bool.false_eq_true, if_false]
    split <;> rename_i he <;> simp [he]

theorem purgeOne_change (fam : Fam) (addr : Nat) (pred : Entry → Bool) (nd : Net × Dest) :
    (purgeOne fam addr pred nd).change =
      if nd.2.entries.any (fun e => pred e && e.eligible) then
        some { fam := fam, net := nd.1, destId := nd.2.id,
               best := if (keptD pred nd.2).entries.isEmpty then true
                       else bestLpid nd.2.entries != bestLpid (keptD pred nd.2).entries,
               any := true, replaced := none,
               paths := (keptD pred nd.2).entries.filter Entry.eligible }
      else none := by
  obtain ⟨net, dst⟩ := nd
  simp only [purgeOne, keptD]
  cases h : dst.entries.any pred
  · have : dst.entries.any (fun e => pred e && e.eligible) = false := by
      rw [List.any_eq_false] at h ⊢
      intro e he; simp [h e he]
    simp [this]
  · simp only [Bool.not_true, Bool.false_eq_true, if_false]
    split
    · rename_i he
      simp only [he, if_true]
      rw [List.isEmpty_iff.mp he]; rfl
    · rename_i he
      simp only [he]; rfl

theorem purgeOne_peerGone (fam : Fam) (addr : Nat) (pred : Entry → Bool) (nd : Net × Dest) :
    (purgeOne fam addr pred nd).peerGone =
      (nd.2.entries.any pred && !(keptD pred nd.2).entries.any (sameAddr addr)) := by
  obtain ⟨net, dst⟩ := nd
  simp only [purgeOne, keptD]
  cases h : dst.entries.any pred
  · simp
  · simp only [Bool.not_true, Bool.false_eq_true, if_false]
    split <;> simp

theorem purgeOne_removedAccepted (fam : Fam) (addr : Nat) (pred : Entry → Bool) (nd : Net × Dest) :
    (purgeOne fam addr pred nd).removedAccepted =
      (nd.2.entries.filter fun e => pred e && !e.filtered).length := by
  obtain ⟨net, dst⟩ := nd
  simp only [purgeOne]
  cases h : dst.entries.any pred
  · have : dst.entries.filter (fun e => pred e && !e.filtered) = [] := by
      rw [List.filter_eq_nil_iff]
      intro e he; simp [List.any_eq_false.mp h e he]
    simp [this]
  · simp only [Bool.not_true, Bool.false_eq_true, if_false]
    split <;> rfl

/-! ## One rib -/

def purgeRib (fam : Fam) (addr : Nat) (pred : Entry → Bool) (rib : Rib) : Rib :=
  { rib with
    dests := (rib.dests.map (purgeOne fam addr pred)).filterMap (·.keep)
    used := rib.used.filter fun i =>
      !((rib.dests.map (purgeOne fam addr pred)).filterMap (·.freed)).contains i }

def purgeChs (fam : Fam) (addr : Nat) (pred : Entry → Bool) (rib : Rib) : List Change :=
  if rib.deferring then [] else (rib.dests.map (purgeOne fam addr pred)).filterMap (·.change)

def purgeGone (fam : Fam) (addr : Nat) (pred : Entry → Bool) (rib : Rib) : Nat :=
  ((rib.dests.map (purgeOne fam addr pred)).filter (·.peerGone)).length

def purgeRacc (fam : Fam) (addr : Nat) (pred : Entry → Bool) (rib : Rib) : Nat :=
  ((rib.dests.map (purgeOne fam addr pred)).map (·.removedAccepted)).sum

/-- the retained destinations: every destination loses the selected paths, the empty ones go -/
def keptDests (pred : Entry → Bool) (ds : List (Net × Dest)) : List (Net × Dest) :=
  (ds.map fun nd => (nd.1, keptD pred nd.2)).filter fun nd => !nd.2.entries.isEmpty

theorem purge_dests (fam : Fam) (addr : Nat) (pred : Entry → Bool) {ds : List (Net × Dest)}
    (hne : ∀ nd ∈ ds, nd.2.entries ≠ []) :
    (ds.map (purgeOne fam addr pred)).filterMap (·.keep) = keptDests pred ds := by
  induction ds with
  | nil => rfl
  | cons nd ds ih =>
    have ih' := ih (fun x hx => hne x (List.mem_cons_of_mem _ hx))
    unfold keptDests at ih' ⊢
    rw [List.map_cons, List.map_cons, List.filter_cons]
    cases he : (keptD pred nd.2).entries.isEmpty
    · rw [List.filterMap_cons_some (b := (nd.1, keptD pred nd.2))
        (by rw [purgeOne_keep _ _ _ _ (hne nd List.mem_cons_self), he]; rfl), ih']
      simp
    · rw [List.filterMap_cons_none
        (by rw [purgeOne_keep _ _ _ _ (hne nd List.mem_cons_self), he]; rfl), ih']
      simp

theorem purgeRib_dests (fam : Fam) (addr : Nat) (pred : Entry → Bool) {rib : Rib}
    (hne : ∀ nd ∈ rib.dests, nd.2.entries ≠ []) :
    (purgeRib fam addr pred rib).dests = keptDests pred rib.dests :=
  purge_dests fam addr pred hne

theorem purgeRib_deferring (fam : Fam) (addr : Nat) (pred : Entry → Bool) (rib : Rib) :
    (purgeRib fam addr pred rib).deferring = rib.deferring := rfl

theorem mem_keptDests {pred : Entry → Bool} {ds : List (Net × Dest)} {x : Net × Dest} :
    x ∈ keptDests pred ds ↔
      ∃ nd ∈ ds, x = (nd.1, keptD pred nd.2) ∧ (keptD pred nd.2).entries ≠ [] := by
  unfold keptDests
  rw [List.mem_filter, List.mem_map]
  constructor
  · rintro ⟨⟨nd, hnd, rfl⟩, hx⟩
    exact ⟨nd, hnd, rfl, by simpa using hx⟩
  · rintro ⟨nd, hnd, rfl, hx⟩
    exact ⟨⟨nd, hnd, rfl⟩, by simpa using hx⟩

theorem mem_purge_freed (fam : Fam) (addr : Nat) (pred : Entry → Bool) {ds : List (Net × Dest)}
    (hne : ∀ nd ∈ ds, nd.2.entries ≠ []) (i : Nat) :
    i ∈ (ds.map (purgeOne fam addr pred)).filterMap (·.freed) ↔
      ∃ nd ∈ ds, (keptD pred nd.2).entries = [] ∧ nd.2.id = i := by
  rw [List.filterMap_map, List.mem_filterMap]
  constructor
  · rintro ⟨nd, hnd, h⟩
    simp only [Function.comp, purgeOne_freed _ _ _ _ (hne nd hnd)] at h
    split at h
    · rename_i he
      exact ⟨nd, hnd, List.isEmpty_iff.mp he, by simpa using h⟩
    · simp at h
  · rintro ⟨nd, hnd, he, hi⟩
    refine ⟨nd, hnd, ?_⟩
    simp [Function.comp, purgeOne_freed _ _ _ _ (hne nd hnd), he, hi]

theorem keptDests_keys_sublist (pred : Entry → Bool) (ds : List (Net × Dest)) :
    ((keptDests pred ds).map (·.1)).Sublist (ds.map (·.1)) := by
  have h := (List.filter_sublist (p := fun nd : Net × Dest => !nd.2.entries.isEmpty)
    (l := ds.map fun nd => (nd.1, keptD pred nd.2))).map (·.1)
  rw [List.map_map] at h
  exact h

theorem keptDests_ids_sublist (pred : Entry → Bool) (ds : List (Net × Dest)) :
    ((keptDests pred ds).map (·.2.id)).Sublist (ds.map (·.2.id)) := by
  have h := (List.filter_sublist (p := fun nd : Net × Dest => !nd.2.entries.isEmpty)
    (l := ds.map fun nd => (nd.1, keptD pred nd.2))).map (·.2.id)
  rw [List.map_map] at h
  exact h

theorem keptD_destInv {c : Case} {g : Nat → Fam} {fl : Flags} {f : Fam} {net : Net} {d : Dest}
    (pred : Entry → Bool) (h : DestInv c g fl f net d) (hne : (keptD pred d).entries ≠ []) :
    DestInv c g fl f net (keptD pred d) := by
  have hs : (keptD pred d).entries.Sublist d.entries := List.filter_sublist
  have hm : ∀ e ∈ (keptD pred d).entries, e ∈ d.entries := fun e he => hs.subset he
  exact {
    nonEmpty := hne
    pathKeys := List.Pairwise.sublist (hs.map _) h.pathKeys
    lpids := List.Pairwise.sublist (hs.map _) h.lpids
    sorted := h.sorted.sublist hs
    srcOk := fun e he => h.srcOk e (hm e he)
    attrOk := fun e he => h.attrOk e (hm e he) }

theorem purge_used_filter (fam : Fam) (addr : Nat) (pred : Entry → Bool) {ds : List (Net × Dest)}
    (hne : ∀ nd ∈ ds, nd.2.entries ≠ []) (hid : (ds.map (·.2.id)).Nodup) :
    (ds.map (·.2.id)).filter (fun i =>
        !((ds.map (purgeOne fam addr pred)).filterMap (·.freed)).contains i) =
      (keptDests pred ds).map (·.2.id) := by
  unfold keptDests
  rw [List.filter_map, List.filter_map, List.map_map]
  have hc : ∀ nd ∈ ds,
      ((fun i => !((ds.map (purgeOne fam addr pred)).filterMap (·.freed)).contains i) ∘
          fun nd : Net × Dest => nd.2.id) nd =
      ((fun nd : Net × Dest => !nd.2.entries.isEmpty) ∘
          fun nd : Net × Dest => (nd.1, keptD pred nd.2)) nd := by
    intro nd hnd
    simp only [Function.comp]
    congr 1
    rw [Bool.eq_iff_iff, List.contains_iff_mem, mem_purge_freed fam addr pred hne, List.isEmpty_iff]
    constructor
    · rintro ⟨nd', hnd', he, hi⟩
      have := nodup_map_inj hid hnd' hnd hi
      subst this; exact he
    · intro he; exact ⟨nd, hnd, he, rfl⟩
  rw [List.filter_congr hc]
  rfl

theorem purgeRib_ribInv {c : Case} {g : Nat → Fam} {fl : Flags} {f : Fam} {rib : Rib}
    (fam : Fam) (addr : Nat) (pred : Entry → Bool) (h : RibInv c g fl f rib) :
    RibInv c g fl f (purgeRib fam addr pred rib) := by
  have hne : ∀ nd ∈ rib.dests, nd.2.entries ≠ [] := fun nd hnd => (h.dest nd hnd).nonEmpty
  refine ⟨?_, ?_, ?_, ?_⟩
  · rw [purgeRib_dests fam addr pred hne]
    exact List.Pairwise.sublist (keptDests_keys_sublist pred rib.dests) h.keys
  · rw [purgeRib_dests fam addr pred hne]
    exact List.Pairwise.sublist (keptDests_ids_sublist pred rib.dests) h.ids
  · rw [purgeRib_dests fam addr pred hne, ← purge_used_filter fam addr pred hne h.ids]
    exact h.used.filter _
  · rw [purgeRib_dests fam addr pred hne]
    intro x hx
    obtain ⟨nd, hnd, rfl, hk⟩ := mem_keptDests.mp hx
    exact keptD_destInv pred (h.dest nd hnd) hk

/-! ## Lookups after the purge -/

theorem alookup_keptDests (pred : Entry → Bool) {ds : List (Net × Dest)} (hk : (ds.map (·.1)).Nodup)
    (n : Net) :
    alookup n (keptDests pred ds) =
      (alookup n ds).bind fun d => if (keptD pred d).entries.isEmpty then none else some (keptD pred d) := by
  unfold keptDests
  have hk' : ((ds.map fun nd : Net × Dest => (nd.1, keptD pred nd.2)).map (·.1)).Nodup := by
    rw [List.map_map]; exact hk
  rw [alookup_filter_val (fun d : Dest => !d.entries.isEmpty) n hk', alookup_map_val]
  cases alookup n ds with
  | none => rfl
  | some d => cases h : (keptD pred d).entries.isEmpty <;> simp

/-- the change reported for a destination that lost an exportable path -/
def purgeCh (fam : Fam) (pred : Entry → Bool) (nd : Net × Dest) : Change :=
  { fam := fam, net := nd.1, destId := nd.2.id,
    best := if (keptD pred nd.2).entries.isEmpty then true
            else bestLpid nd.2.entries != bestLpid (keptD pred nd.2).entries,
    any := true, replaced := none,
    paths := (keptD pred nd.2).entries.filter Entry.eligible }

theorem mem_purgeChs {fam : Fam} {addr : Nat} {pred : Entry → Bool} {rib : Rib} {ch : Change} :
    ch ∈ purgeChs fam addr pred rib ↔
      rib.deferring = false ∧ ∃ nd ∈ rib.dests,
        nd.2.entries.any (fun e => pred e && e.eligible) = true ∧ ch = purgeCh fam pred nd := by
  unfold purgeChs
  cases hd : rib.deferring
  · simp only [Bool.false_eq_true, if_false, true_and]
    rw [List.filterMap_map, List.mem_filterMap]
    constructor
    · rintro ⟨nd, hnd, h⟩
      simp only [Function.comp, purgeOne_change] at h
      split at h
      · rename_i ha
        exact ⟨nd, hnd, ha, by simpa [purgeCh] using h.symm⟩
      · simp at h
    · rintro ⟨nd, hnd, ha, rfl⟩
      refine ⟨nd, hnd, ?_⟩
      simp only [Function.comp, purgeOne_change, ha, if_true]
      rfl
  · simp

/-! ## The table after the purge -/

structure PurgeShape (t : Table) (fam : Fam) (addr : Nat) (pred : Entry → Bool) (t' : Table) : Prop where
  ribSame : t'.rib fam = purgeRib fam addr pred (t.rib fam)
  ribOther : ∀ f, f ≠ fam → t'.rib f = t.rib f
  flags : t'.flags = t.flags

section Facts
variable {c : Case} {g : Nat → Fam} {t t' : Table} {fam : Fam} {addr : Nat} {pred : Entry → Bool}

theorem PurgeShape.dests (hs : PurgeShape t fam addr pred t')
    (hr : RibInv c g t.flags fam (t.rib fam)) :
    (t'.rib fam).dests = keptDests pred (t.rib fam).dests := by
  rw [hs.ribSame]
  exact purgeRib_dests fam addr pred (fun nd hnd => (hr.dest nd hnd).nonEmpty)

theorem PurgeShape.elig (hs : PurgeShape t fam addr pred t')
    (hr : RibInv c g t.flags fam (t.rib fam)) (n : Net) :
    t'.elig fam n = match alookup n (t.rib fam).dests with
      | some d => (keptD pred d).entries.filter Entry.eligible
      | none => [] := by
  unfold Table.elig
  rw [hs.dests hr, alookup_keptDests pred hr.keys]
  cases alookup n (t.rib fam).dests with
  | none => rfl
  | some d =>
    by_cases h : (keptD pred d).entries = [] <;> simp [h]

theorem PurgeShape.destId (hs : PurgeShape t fam addr pred t')
    (hr : RibInv c g t.flags fam (t.rib fam)) (n : Net) :
    t'.destId fam n = (alookup n (t.rib fam).dests).bind fun d =>
      if (keptD pred d).entries.isEmpty then none else some d.id := by
  unfold Table.destId
  rw [hs.dests hr, alookup_keptDests pred hr.keys]
  cases alookup n (t.rib fam).dests with
  | none => rfl
  | some d =>
    by_cases h : (keptD pred d).entries = [] <;> simp [h, keptD_id]

theorem PurgeShape.elig_other (hs : PurgeShape t fam addr pred t') {f : Fam} (hf : f ≠ fam) (n : Net) :
    t'.elig f n = t.elig f n := by
  unfold Table.elig; rw [hs.ribOther f hf]

theorem PurgeShape.destId_other (hs : PurgeShape t fam addr pred t') {f : Fam} (hf : f ≠ fam) (n : Net) :
    t'.destId f n = t.destId f n := by
  unfold Table.destId; rw [hs.ribOther f hf]

theorem PurgeShape.deferring (hs : PurgeShape t fam addr pred t') (f : Fam) :
    (t'.rib f).deferring = (t.rib f).deferring := by
  by_cases hf : f = fam
  · subst hf; rw [hs.ribSame]; rfl
  · rw [hs.ribOther f hf]

end Facts

/-! ## Notifications -/

theorem kept_elig_eq {pred : Entry → Bool} {es : List Entry}
    (h : es.any (fun e => pred e && e.eligible) = false) :
    (es.filter fun e => !pred e).filter Entry.eligible = es.filter Entry.eligible := by
  rw [List.filter_filter]
  apply List.filter_congr
  intro e he
  have := List.any_eq_false.mp h e he
  cases hp : pred e <;> cases hel : e.eligible <;> simp_all

theorem identOf_filter (es : List Entry) :
    identOf (es.filter Entry.eligible) =
      (es.find? Entry.eligible).map fun e => (e.src.id, e.attr.id, e.nh) := by
  unfold identOf; rw [List.head?_filter]

theorem ident_eq_of_bestLpid_eq {pred : Entry → Bool} {es : List Entry}
    (hn : (es.map (·.lpid)).Nodup)
    (h : bestLpid es = bestLpid (es.filter fun e => !pred e)) :
    identOf (es.filter Entry.eligible) =
      identOf ((es.filter fun e => !pred e).filter Entry.eligible) := by
  rw [identOf_filter, identOf_filter]
  unfold bestLpid at h
  cases ha : es.find? Entry.eligible with
  | none =>
    rw [ha] at h
    cases hb : (es.filter fun e => !pred e).find? Entry.eligible with
    | none => rfl
    | some y => rw [hb] at h; simp at h
  | some x =>
    rw [ha] at h
    cases hb : (es.filter fun e => !pred e).find? Entry.eligible with
    | none => rw [hb] at h; simp at h
    | some y =>
      rw [hb] at h
      simp only [Option.map_some, Option.some.injEq] at h
      have hx : x ∈ es := List.mem_of_find?_eq_some ha
      have hy : y ∈ es := (List.mem_filter.mp (List.mem_of_find?_eq_some hb)).1
      have := nodup_map_inj hn hx hy h
      subst this; rfl

section Facts
variable {c : Case} {g : Nat → Fam} {t t' : Table} {fam : Fam} {addr : Nat} {pred : Entry → Bool}

theorem purge_nets (rib : Rib) (hk : (rib.dests.map (·.1)).Nodup) :
    ((purgeChs fam addr pred rib).map fun ch => (ch.fam, ch.net)).Nodup := by
  unfold purgeChs
  cases rib.deferring
  · simp only [Bool.false_eq_true, if_false]
    rw [List.filterMap_map]
    have hsub := filterMap_map_sublist (f := (fun o : PurgeOut => o.change) ∘ purgeOne fam addr pred)
      (g := fun nd : Net × Dest => (fam, nd.1)) (g' := fun ch : Change => (ch.fam, ch.net))
      (l := rib.dests) (by
        intro nd _ y hy
        simp only [Function.comp, purgeOne_change] at hy
        split at hy
        · simp only [Option.some.injEq] at hy; subst hy; rfl
        · simp at hy)
    refine List.Pairwise.sublist hsub ?_
    have hk' : List.Pairwise (· ≠ ·) (rib.dests.map (·.1)) := hk
    rw [List.pairwise_map] at hk' ⊢
    exact hk'.imp (fun {a b} h e => h (by simpa using e))
  · simp

theorem purge_stepFacts (hs : PurgeShape t fam addr pred t')
    (hr : RibInv c g t.flags fam (t.rib fam)) (op : Op)
    (hend : ∀ f, op.isEndDeferral f = false) (hstart : ∀ f, op.isStartDeferral f = false) :
    StepFacts t op t' (.changes (purgeChs fam addr pred (t.rib fam))) := by
  have hlook : ∀ nd ∈ (t.rib fam).dests, alookup nd.1 (t.rib fam).dests = some nd.2 :=
    fun nd hnd => alookup_of_mem hr.keys (show (nd.1, nd.2) ∈ _ from hnd)
  refine ⟨?_, ?_, ?_, ?_, ?_, ?_, ?_, ?_, ?_⟩
  · -- exact
    intro ch hch
    obtain ⟨_, nd, hnd, _, rfl⟩ := mem_purgeChs.mp hch
    show _ = t'.elig fam nd.1
    rw [hs.elig hr, hlook nd hnd]; rfl
  · -- idNew
    intro ch hch
    obtain ⟨_, nd, hnd, _, rfl⟩ := mem_purgeChs.mp hch
    show t'.destId fam nd.1 = some nd.2.id ∨ (t'.destId fam nd.1 = none ∧ t.destId fam nd.1 = some nd.2.id)
    rw [hs.destId hr, hlook nd hnd]
    by_cases h : (keptD pred nd.2).entries = []
    · right; simp [h, Table.destId, hlook nd hnd]
    · left; simp [h]
  · -- nets
    exact fun _ => purge_nets _ hr.keys
  · -- idStable
    intro f n i h
    by_cases hf : f = fam
    · subst hf
      rw [hs.destId hr]
      unfold Table.destId at h
      cases hl : alookup n (t.rib f).dests with
      | none => rw [hl] at h; simp at h
      | some d =>
        rw [hl] at h
        simp only [Option.map_some, Option.some.injEq] at h
        by_cases hk : (keptD pred d).entries = []
        · right; simp [hk]
        · left; simp [hk, h]
    · left; rw [hs.destId_other hf]; exact h
  · -- completeAny
    intro f n hd hne
    by_cases hf : f = fam
    · subst hf
      rw [hs.elig hr] at hne
      unfold Table.elig at hne
      cases hl : alookup n (t.rib f).dests with
      | none => rw [hl] at hne; exact absurd rfl hne
      | some d =>
        rw [hl] at hne
        by_cases ha : d.entries.any (fun e => pred e && e.eligible) = true
        · exact ⟨purgeCh f pred (n, d),
            mem_purgeChs.mpr ⟨hd, (n, d), alookup_some_mem hl, ha, rfl⟩, rfl, rfl, rfl⟩
        · exact absurd (kept_elig_eq (Bool.not_eq_true _ ▸ ha)).symm hne
    · exact absurd (hs.elig_other hf n).symm hne
  · -- completeBest
    intro f n hd hne
    by_cases hf : f = fam
    · subst hf
      rw [hs.elig hr] at hne
      unfold Table.elig at hne
      cases hl : alookup n (t.rib f).dests with
      | none => rw [hl] at hne; exact absurd rfl hne
      | some d =>
        rw [hl] at hne
        by_cases ha : d.entries.any (fun e => pred e && e.eligible) = true
        · refine ⟨purgeCh f pred (n, d),
            mem_purgeChs.mpr ⟨hd, (n, d), alookup_some_mem hl, ha, rfl⟩, rfl, rfl, ?_⟩
          show (if (keptD pred d).entries.isEmpty then true
                else bestLpid d.entries != bestLpid (keptD pred d).entries) = true
          split
          · rfl
          · rw [bne_iff_ne]
            intro hb
            exact hne (ident_eq_of_bestLpid_eq (hr.dest _ (alookup_some_mem hl)).lpids hb)
        · have hne' : identOf (d.entries.filter Entry.eligible) ≠
              identOf ((keptD pred d).entries.filter Entry.eligible) := hne
          rw [show (keptD pred d).entries.filter Entry.eligible = d.entries.filter Entry.eligible from
            kept_elig_eq (Bool.not_eq_true _ ▸ ha)] at hne'
          exact absurd rfl hne'
    · rw [hs.elig_other hf n] at hne; exact absurd rfl hne
  · -- silent
    intro f hd _ ch hch
    obtain ⟨hdf, nd, _, _, rfl⟩ := mem_purgeChs.mp hch
    show fam ≠ f
    intro e; subst e; rw [hd] at hdf; exact absurd hdf (by simp)
  · -- endDeferral
    intro f h; rw [hend f] at h; exact absurd h (by simp)
  · -- deferring
    intro f; rw [hstart f, hend f]; simpa using hs.deferring f

end Facts

/-! ## Statistics -/

theorem sum_map_filter_zero {α : Type} (q : α → Bool) (h : α → Nat) (l : List α)
    (hz : ∀ x ∈ l, q x = false → h x = 0) : ((l.filter q).map h).sum = (l.map h).sum := by
  induction l with
  | nil => rfl
  | cons x l ih =>
    have ih' := ih (fun y hy => hz y (List.mem_cons_of_mem _ hy))
    cases hq : q x
    · rw [List.filter_cons_of_neg (by simp [hq]), ih', List.map_cons, List.sum_cons,
        hz x List.mem_cons_self hq, Nat.zero_add]
    · rw [List.filter_cons_of_pos hq, List.map_cons, List.map_cons, List.sum_cons, List.sum_cons, ih']

theorem length_filter_split {α : Type} (p q : α → Bool) (l : List α) :
    (l.filter q).length =
      ((l.filter fun e => !p e).filter q).length + (l.filter fun e => p e && q e).length := by
  induction l with
  | nil => rfl
  | cons x l ih =>
    cases hp : p x <;> cases hq : q x <;> simp [hp, hq] at ih ⊢ <;> omega

theorem recvCount_eq_sum (a : Nat) (rib : Rib) :
    recvCount a rib = (rib.dests.map fun nd => (nd.2.entries.any (sameAddr a)).toNat).sum := by
  unfold recvCount; rw [length_filter_eq_sum]

theorem recvCount_purge (fam : Fam) (addr : Nat) (pred : Entry → Bool) (a : Nat) {rib : Rib}
    (hne : ∀ nd ∈ rib.dests, nd.2.entries ≠ []) :
    recvCount a (purgeRib fam addr pred rib) =
      (rib.dests.map fun nd => ((keptD pred nd.2).entries.any (sameAddr a)).toNat).sum := by
  unfold recvCount
  rw [purgeRib_dests fam addr pred hne]
  unfold keptDests
  rw [List.filter_filter, List.filter_map, List.length_map, length_filter_eq_sum]
  apply sum_map_congr
  intro nd _
  simp only [Function.comp]
  by_cases hk : (keptD pred nd.2).entries = []
  · simp [hk]
  · have he : (keptD pred nd.2).entries.isEmpty = false := by
      rw [Bool.eq_false_iff, Ne, List.isEmpty_iff]; exact hk
    rw [he]; simp

theorem accCount_purge (fam : Fam) (addr : Nat) (pred : Entry → Bool) (a : Nat) {rib : Rib}
    (hne : ∀ nd ∈ rib.dests, nd.2.entries ≠ []) :
    accCount a (purgeRib fam addr pred rib) =
      (rib.dests.map fun nd =>
        ((keptD pred nd.2).entries.filter fun e => sameAddr a e && !e.filtered).length).sum := by
  unfold accCount
  rw [purgeRib_dests fam addr pred hne]
  unfold keptDests
  rw [sum_map_filter_zero, List.map_map]
  · rfl
  · intro x _ hx
    have : x.2.entries = [] := by simpa using hx
    simp [this]

theorem purgeGone_eq_sum (fam : Fam) (addr : Nat) (pred : Entry → Bool) (rib : Rib) :
    purgeGone fam addr pred rib =
      (rib.dests.map fun nd =>
        (nd.2.entries.any pred && !(keptD pred nd.2).entries.any (sameAddr addr)).toNat).sum := by
  unfold purgeGone
  rw [length_filter_eq_sum, List.map_map]
  apply sum_map_congr
  intro nd _
  simp only [Function.comp, purgeOne_peerGone]

theorem purgeRacc_eq_sum (fam : Fam) (addr : Nat) (pred : Entry → Bool) (rib : Rib) :
    purgeRacc fam addr pred rib =
      (rib.dests.map fun nd => (nd.2.entries.filter fun e => pred e && !e.filtered).length).sum := by
  unfold purgeRacc
  rw [List.map_map]
  apply sum_map_congr
  intro nd _
  simp only [Function.comp, purgeOne_removedAccepted]

section Counts
variable {addr : Nat} {pred : Entry → Bool}

theorem recv_split (hp : ∀ e, pred e = true → sameAddr addr e = true) (es : List Entry) :
    ((es.filter fun e => !pred e).any (sameAddr addr)).toNat +
        (es.any pred && !(es.filter fun e => !pred e).any (sameAddr addr)).toNat =
      (es.any (sameAddr addr)).toNat := by
  cases h : es.any pred
  · rw [filter_not_eq_self h]; simp
  · have hs : es.any (sameAddr addr) = true := by
      rw [List.any_eq_true] at h ⊢
      obtain ⟨e, he, hpe⟩ := h
      exact ⟨e, he, hp e hpe⟩
    rw [hs]
    cases (es.filter fun e => !pred e).any (sameAddr addr) <;> rfl

theorem acc_split (hp : ∀ e, pred e = true → sameAddr addr e = true) (es : List Entry) :
    ((es.filter fun e => !pred e).filter fun e => sameAddr addr e && !e.filtered).length +
        (es.filter fun e => pred e && !e.filtered).length =
      (es.filter fun e => sameAddr addr e && !e.filtered).length := by
  rw [length_filter_split pred (fun e => sameAddr addr e && !e.filtered) es]
  congr 2
  apply List.filter_congr
  intro e _
  cases hpe : pred e
  · rfl
  · simp [hp e hpe]

theorem pred_not_other (hp : ∀ e, pred e = true → sameAddr addr e = true) {a : Nat} (ha : a ≠ addr)
    (e : Entry) (hs : sameAddr a e = true) : pred e = false := by
  cases hpe : pred e
  · rfl
  · have h1 := hp e hpe
    simp only [sameAddr, beq_iff_eq] at h1 hs
    exact absurd (hs.symm.trans h1) ha

theorem kept_any_other (hp : ∀ e, pred e = true → sameAddr addr e = true) {a : Nat} (ha : a ≠ addr)
    (es : List Entry) : (es.filter fun e => !pred e).any (sameAddr a) = es.any (sameAddr a) := by
  rw [List.any_filter]
  apply List.any_congr rfl
  intro e
  cases hs : sameAddr a e
  · simp
  · simp [pred_not_other hp ha e hs]

theorem kept_filter_other (hp : ∀ e, pred e = true → sameAddr addr e = true) {a : Nat} (ha : a ≠ addr)
    (es : List Entry) :
    ((es.filter fun e => !pred e).filter fun e => sameAddr a e && !e.filtered) =
      es.filter fun e => sameAddr a e && !e.filtered := by
  rw [List.filter_filter]
  apply List.filter_congr
  intro e _
  cases hs : sameAddr a e
  · simp
  · simp [pred_not_other hp ha e hs]

variable (fam : Fam) {rib : Rib}

theorem recvCount_purge_self (hp : ∀ e, pred e = true → sameAddr addr e = true)
    (hne : ∀ nd ∈ rib.dests, nd.2.entries ≠ []) :
    recvCount addr (purgeRib fam addr pred rib) + purgeGone fam addr pred rib = recvCount addr rib := by
  rw [recvCount_purge fam addr pred addr hne, purgeGone_eq_sum, recvCount_eq_sum, ← sum_map_add]
  apply sum_map_congr
  intro nd _
  exact recv_split hp nd.2.entries

theorem accCount_purge_self (hp : ∀ e, pred e = true → sameAddr addr e = true)
    (hne : ∀ nd ∈ rib.dests, nd.2.entries ≠ []) :
    accCount addr (purgeRib fam addr pred rib) + purgeRacc fam addr pred rib = accCount addr rib := by
  rw [accCount_purge fam addr pred addr hne, purgeRacc_eq_sum, ← sum_map_add]
  unfold accCount
  apply sum_map_congr
  intro nd _
  exact acc_split hp nd.2.entries

theorem recvCount_purge_other (hp : ∀ e, pred e = true → sameAddr addr e = true)
    (hne : ∀ nd ∈ rib.dests, nd.2.entries ≠ []) {a : Nat} (ha : a ≠ addr) :
    recvCount a (purgeRib fam addr pred rib) = recvCount a rib := by
  rw [recvCount_purge fam addr pred a hne, recvCount_eq_sum]
  apply sum_map_congr
  intro nd _
  rw [keptD_entries, kept_any_other hp ha]

theorem accCount_purge_other (hp : ∀ e, pred e = true → sameAddr addr e = true)
    (hne : ∀ nd ∈ rib.dests, nd.2.entries ≠ []) {a : Nat} (ha : a ≠ addr) :
    accCount a (purgeRib fam addr pred rib) = accCount a rib := by
  rw [accCount_purge fam addr pred a hne]
  unfold accCount
  apply sum_map_congr
  intro nd _
  rw [keptD_entries, kept_filter_other hp ha]

/-- a peer that had no path in any destination has none afterwards -/
theorem purge_noPath (hne : ∀ nd ∈ rib.dests, nd.2.entries ≠ []) {a : Nat}
    (h : ∀ nd ∈ rib.dests, nd.2.entries.any (sameAddr a) = false) :
    ∀ nd ∈ (purgeRib fam addr pred rib).dests, nd.2.entries.any (sameAddr a) = false := by
  rw [purgeRib_dests fam addr pred hne]
  intro x hx
  obtain ⟨nd, hnd, rfl, _⟩ := mem_keptDests.mp hx
  have h0 := h nd hnd
  rw [List.any_eq_false] at h0 ⊢
  intro e he
  exact h0 e (List.mem_filter.mp he).1

/-- `drop` leaves no path of the peer -/
theorem purge_sameAddr_noPath (hne : ∀ nd ∈ rib.dests, nd.2.entries ≠ []) :
    ∀ nd ∈ (purgeRib fam addr (sameAddr addr) rib).dests, nd.2.entries.any (sameAddr addr) = false := by
  rw [purgeRib_dests fam addr (sameAddr addr) hne]
  intro x hx
  obtain ⟨nd, hnd, rfl, _⟩ := mem_keptDests.mp hx
  rw [List.any_eq_false]
  intro e he
  have := (List.mem_filter.mp he).2
  simpa using this

end Counts

/-! ## The whole table -/

def purgeCtrs (t : Table) (fam : Fam) (gone : Nat) : Option Nat → List ((Nat × Fam) × Nat)
  | some s => aset (s, fam) (atomicDecN gone (t.ctr (s, fam))) t.ctrs
  | none => t.ctrs

def purgeTable (t : Table) (fam : Fam) (addr : Nat) (pred : Entry → Bool) (ctr : Option Nat)
    (stats : List ((Nat × Fam) × (Nat × Nat))) : Table :=
  { (t.setRib fam (purgeRib fam addr pred (t.rib fam))) with
    stats := stats
    ctrs := purgeCtrs t fam (purgeGone fam addr pred (t.rib fam)) ctr }

theorem purge_unfold (p : Profile) (t : Table) (addr : Nat) (fam : Fam) (pred : Entry → Bool)
    (ctr : Option Nat) (dropStats : Bool) :
    t.purge p addr fam pred ctr dropStats =
      if dropStats then
        .ok (purgeTable t fam addr pred ctr (aerase (addr, fam) t.stats),
             .changes (purgeChs fam addr pred (t.rib fam)))
      else
        match alookup (addr, fam) t.stats with
        | none => .ok (purgeTable t fam addr pred ctr t.stats, .changes (purgeChs fam addr pred (t.rib fam)))
        | some st =>
            match removeStats p st (purgeGone fam addr pred (t.rib fam)) (purgeRacc fam addr pred (t.rib fam)) with
            | .panic => .panic
            | .ok st' => .ok (purgeTable t fam addr pred ctr (aset (addr, fam) st' t.stats),
                              .changes (purgeChs fam addr pred (t.rib fam))) := by
  cases fam <;> cases ctr <;> rfl

theorem purgeTable_shape (t : Table) (fam : Fam) (addr : Nat) (pred : Entry → Bool) (ctr : Option Nat)
    (stats : List ((Nat × Fam) × (Nat × Nat))) :
    PurgeShape t fam addr pred (purgeTable t fam addr pred ctr stats) := by
  refine ⟨?_, ?_, ?_⟩
  · cases fam <;> rfl
  · intro f hf
    cases fam <;> cases f <;> first | rfl | exact absurd rfl hf
  · cases fam <;> rfl

theorem purgeTable_stats (t : Table) (fam : Fam) (addr : Nat) (pred : Entry → Bool) (ctr : Option Nat)
    (stats : List ((Nat × Fam) × (Nat × Nat))) : (purgeTable t fam addr pred ctr stats).stats = stats := rfl

theorem purgeTable_ctrKeys (t : Table) (fam : Fam) (addr : Nat) (pred : Entry → Bool) (ctr : Option Nat)
    (stats : List ((Nat × Fam) × (Nat × Nat))) (h : (t.ctrs.map (·.1)).Nodup) :
    ((purgeTable t fam addr pred ctr stats).ctrs.map (·.1)).Nodup := by
  show ((purgeCtrs t fam _ ctr).map (·.1)).Nodup
  cases ctr with
  | none => exact h
  | some s => exact aset_keys_nodup _ h

/-- the `route_stats` clause of the invariant for one (peer, family) -/
def StatsAt (t : Table) (a : Nat) (f : Fam) : Prop :=
  match alookup (a, f) t.stats with
  | some st => st = (recvCount a (t.rib f), accCount a (t.rib f))
  | none => ∀ nd ∈ (t.rib f).dests, nd.2.entries.any (sameAddr a) = false

section Stats
variable {c : Case} {g : Nat → Fam} {t t' : Table} {fam : Fam} {addr : Nat} {pred : Entry → Bool}

theorem statsAt_other (hs : PurgeShape t fam addr pred t')
    (hp : ∀ e, pred e = true → sameAddr addr e = true) (hinv : Inv c g t)
    (hst : ∀ k, k ≠ (addr, fam) → alookup k t'.stats = alookup k t.stats)
    (a : Nat) (f : Fam) (hk : (a, f) ≠ (addr, fam)) : StatsAt t' a f := by
  have hne : ∀ nd ∈ (t.rib fam).dests, nd.2.entries ≠ [] :=
    fun nd hnd => ((hinv.rib fam).dest nd hnd).nonEmpty
  have h0 : StatsAt t a f := hinv.stats a f
  unfold StatsAt at h0 ⊢
  rw [hst _ hk]
  by_cases hf : f = fam
  · subst hf
    have ha : a ≠ addr := fun e => hk (by rw [e])
    rw [hs.ribSame]
    cases hl : alookup (a, f) t.stats with
    | none => rw [hl] at h0; exact purge_noPath f hne h0
    | some st =>
      rw [hl] at h0
      show st = _
      rw [recvCount_purge_other f hp hne ha, accCount_purge_other f hp hne ha]
      exact h0
  · rw [hs.ribOther f hf]; exact h0

theorem removeStats_ok (p : Profile) (st : Nat × Nat) {a b : Nat} (ha : a ≤ st.1) (hb : b ≤ st.2) :
    removeStats p st a b = .ok (st.1 - a, st.2 - b) := by
  simp [removeStats, subU64, ha, hb]

/-- the statistics part of a purge: it does not panic, touches only `(addr, fam)` and re-establishes
    the clause of the invariant there -/
theorem purge_stats (p : Profile) (ctr : Option Nat) (dropStats : Bool)
    (hp : ∀ e, pred e = true → sameAddr addr e = true)
    (hdrop : dropStats = true → pred = sameAddr addr) (hinv : Inv c g t) :
    ∃ stats', t.purge p addr fam pred ctr dropStats =
        .ok (purgeTable t fam addr pred ctr stats', .changes (purgeChs fam addr pred (t.rib fam))) ∧
      (∀ k, k ≠ (addr, fam) → alookup k stats' = alookup k t.stats) ∧
      StatsAt (purgeTable t fam addr pred ctr stats') addr fam ∧
      (stats'.map (·.1)).Nodup := by
  have hne : ∀ nd ∈ (t.rib fam).dests, nd.2.entries ≠ [] :=
    fun nd hnd => ((hinv.rib fam).dest nd hnd).nonEmpty
  have h0 : StatsAt t addr fam := hinv.stats addr fam
  rw [purge_unfold]
  cases dropStats with
  | true =>
    refine ⟨aerase (addr, fam) t.stats, rfl, fun k hk => alookup_aerase_ne hk _, ?_,
      List.Pairwise.sublist ((aerase_sublist _ _).map _) hinv.statsKeys⟩
    unfold StatsAt
    rw [purgeTable_stats, alookup_aerase_self hinv.statsKeys, (purgeTable_shape ..).ribSame]
    have e := hdrop rfl
    subst e
    exact purge_sameAddr_noPath fam hne
  | false =>
    simp only [Bool.false_eq_true, if_false]
    unfold StatsAt at h0
    cases hl : alookup (addr, fam) t.stats with
    | none =>
      rw [hl] at h0
      refine ⟨t.stats, rfl, fun _ _ => rfl, ?_, hinv.statsKeys⟩
      unfold StatsAt
      rw [purgeTable_stats, hl, (purgeTable_shape ..).ribSame]
      exact purge_noPath fam hne h0
    | some st =>
      rw [hl] at h0
      have h1 : st = (recvCount addr (t.rib fam), accCount addr (t.rib fam)) := h0
      have hr := recvCount_purge_self fam hp hne
      have ha := accCount_purge_self fam hp hne
      have hok := removeStats_ok p st (a := purgeGone fam addr pred (t.rib fam))
        (b := purgeRacc fam addr pred (t.rib fam)) (by rw [h1]; show _ ≤ recvCount _ _; omega)
        (by rw [h1]; show _ ≤ accCount _ _; omega)
      simp only [hok]
      refine ⟨_, rfl, fun k hk => alookup_aset_ne hk _ _, ?_, aset_keys_nodup _ hinv.statsKeys⟩
      unfold StatsAt
      rw [purgeTable_stats, alookup_aset_self, (purgeTable_shape ..).ribSame]
      show (st.1 - _, st.2 - _) = _
      rw [h1]
      show (recvCount addr (t.rib fam) - _, accCount addr (t.rib fam) - _) = _
      congr 1 <;> omega

/-- **The generic purge**: any predicate that selects paths of `addr` only. -/
theorem purge_sound (p : Profile) (ctr : Option Nat) (dropStats : Bool)
    (hp : ∀ e, pred e = true → sameAddr addr e = true)
    (hdrop : dropStats = true → pred = sameAddr addr) (hinv : Inv c g t) (op : Op)
    (hend : ∀ f, op.isEndDeferral f = false) (hstart : ∀ f, op.isStartDeferral f = false) :
    ∃ t' r, t.purge p addr fam pred ctr dropStats = .ok (t', r) ∧ Inv c g t' ∧ StepFacts t op t' r := by
  obtain ⟨stats', hrun, hst, hself, hkeys⟩ := purge_stats (fam := fam) p ctr dropStats hp hdrop hinv
  have hs := purgeTable_shape t fam addr pred ctr stats'
  refine ⟨_, _, hrun, ?_, purge_stepFacts hs (hinv.rib fam) op hend hstart⟩
  refine ⟨?_, ?_, hkeys, purgeTable_ctrKeys t fam addr pred ctr stats' hinv.ctrKeys⟩
  · intro f
    rw [hs.flags]
    by_cases hf : f = fam
    · subst hf; rw [hs.ribSame]; exact purgeRib_ribInv f addr pred (hinv.rib f)
    · rw [hs.ribOther f hf]; exact hinv.rib f
  · intro a f
    by_cases hk : (a, f) = (addr, fam)
    · cases hk; exact hself
    · exact statsAt_other hs hp hinv hst a f hk

end Stats

/-! ## The four operations -/

theorem stepSound_purge : StepSound Op.isPurge := by
  intro c g p t op hsel _ hinv
  cases op with
  | drop addr fam =>
    exact purge_sound p none true (fun _ h => h) (fun _ => rfl) hinv _ (fun _ => rfl) (fun _ => rfl)
  | dropStale addr fam ctr =>
    exact purge_sound p ctr false (fun e h => by simp at h; exact h.1) (fun h => by simp at h) hinv _
      (fun _ => rfl) (fun _ => rfl)
  | dropLlgr addr fam ctr =>
    exact purge_sound p ctr false (fun e h => by simp at h; exact h.1) (fun h => by simp at h) hinv _
      (fun _ => rfl) (fun _ => rfl)
  | dropNoLlgr addr fam ctr =>
    exact purge_sound p ctr false (fun e h => by simp at h; exact h.1) (fun h => by simp at h) hinv _
      (fun _ => rfl) (fun _ => rfl)
  | _ => exact absurd hsel (by simp [Op.isPurge])

end Rbgp.Rib
