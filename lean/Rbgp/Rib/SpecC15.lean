/-
  Rbgp.Rib.SpecC15 — C15 written from the property text as a reference checker over observations.

  "After any history, the per-peer received and accepted prefix counts, the per-session prefix-limit
   counter and the table totals (destinations, paths, accepted) equal what a recount of the RIB gives;
   counters never underflow, a prefix with no paths is not counted as a destination, and a peer's
   distinct accepted prefixes never exceed its configured maximum without the limit being signalled."

  The recount is taken from `destinations(Global, family, [], enable_filtered = true)` as observed.
  Interpretation (see checks/c15.py): `received` = prefixes with ≥ 1 path from the peer, `accepted`
  = paths of the peer that passed import policy (the repository's documented Add-Path semantics),
  limit counter of a session = prefixes with ≥ 1 path of that session (its `Source`); the
  "configured maximum" clause is judged per peer address (all sessions' paths).
-/
import Rbgp.Rib.SpecRef
namespace Rbgp.Rib.SpecC15
open Rbgp.Rib

inductive Verdict where
  | ok
  | fail (step : Nat) (clause : String)
  deriving DecidableEq, Repr

def HALF : Nat := 9223372036854775808

def addrOf (c : Case) (src : Nat) : Option Nat := (c.srcs[src]?).map (·.addr)

/-- number of prefixes of a family dump with ≥ 1 path satisfying `p` -/
def countPrefixes (p : DEntry → Bool) (dests : List (Net × List DEntry)) : Nat :=
  (dests.filter fun d => d.2.any p).length
def countPaths (p : DEntry → Bool) (dests : List (Net × List DEntry)) : Nat :=
  ((dests.map fun d => (d.2.filter p).length)).sum

def fromAddr (c : Case) (addr : Nat) (e : DEntry) : Bool := addrOf c e.src == some addr

/-- sessions (source id, family) whose limit counter is in use, with the class of history they
    started in: `inherited` = paths of an earlier session of the same peer were still in the RIB. -/
structure Live where
  src : Nat
  fam : Fam
  inherited : Bool
  deriving DecidableEq, Repr

structure St where
  ref : SpecRef.RefSt := {}
  live : List Live := []
  /-- sessions that have ended (peer dropped or re-marked stale): their counter is gone -/
  dead : List (Nat × Fam) := []
  prev : List FamObs := []

def famDests (fams : List FamObs) (f : Fam) : List (Net × List DEntry) :=
  match fams.find? (fun o => o.fam = f) with
  | some o => o.dests
  | none => []

/-- a session starts using its counter -/
def activate (c : Case) (st : St) (s : Src) (f : Fam) : List Live :=
  if s.lim.isNone || st.dead.contains (s.id, f) then st.live
  else if st.live.any (fun l => l.src = s.id ∧ l.fam = f) then st.live
  else
    let others := st.live.filter fun l => !(l.fam = f && addrOf c l.src == some s.addr)
    let inh := (famDests st.prev f).any fun d => d.2.any fun e => e.src != s.id && fromAddr c s.addr e
    { src := s.id, fam := f, inherited := inh || others.length != st.live.length } :: others

def deactivate (c : Case) (live : List Live) (addr : Nat) (f : Fam) : List Live :=
  live.filter fun l => !(l.fam = f && addrOf c l.src == some addr)

def deadStep (c : Case) (st : St) : Op → List (Nat × Fam)
  | .drop a f | .restale a f | .restaleLlgr a f =>
      ((st.live.filter fun l => l.fam = f && addrOf c l.src == some a).map fun l => (l.src, l.fam)) ++ st.dead
  -- `drop_no_llgr` without a counter (the daemon calls it right after `restale_llgr`, when the session is
  -- gone) removes paths by their community whatever their session: it ends the judgement of the peer's
  -- counters.  `drop_stale` / `drop_llgr_stale` without a counter only remove paths of sessions marked
  -- stale, which are no longer judged anyway: the session in progress stays judged.
  | .dropNoLlgr a f ctr =>
      match ctr.bind (c.srcs[·]?) with
      | some _ => st.dead
      | none =>
        ((st.live.filter fun l => l.fam = f && addrOf c l.src == some a).map fun l => (l.src, l.fam)) ++ st.dead
  | _ => st.dead

def liveStep (c : Case) (st : St) : Op → List Live
  | .insert s f .. => activate c st s f
  | .remove s f .. => activate c st s f
  | .dropStale _ f ctr | .dropLlgr _ f ctr =>
      match ctr.bind (c.srcs[·]?) with
      | some s => activate c st s f
      | none => st.live
  | .dropNoLlgr a f ctr =>
      match ctr.bind (c.srcs[·]?) with
      | some s => activate c st s f
      | none => deactivate c st.live a f
  | .drop a f => deactivate c st.live a f
  | .restale a f => deactivate c st.live a f
  | .restaleLlgr a f => deactivate c st.live a f
  | _ => st.live

def ctrOf (s : StepObs) (src : Nat) (f : Fam) : Nat :=
  match s.ctrs.find? (fun x => x.1 = src ∧ x.2.1 = f) with
  | some x => x.2.2
  | none => 0

def statOf (s : StepObs) (addr : Nat) (f : Fam) : Nat × Nat :=
  match s.stats.find? (fun x => x.1 = addr ∧ x.2.1 = f) with
  | some x => (x.2.2.1, x.2.2.2)
  | none => (0, 0)

def firstSome {α} (f : α → Option String) : List α → Option String
  | [] => none
  | a :: l => match f a with
    | some s => some s
    | none => firstSome f l

def cls (l : Live) : String :=
  if l.inherited then "inherited-stale-paths"
  else "plain"

def opName : Op → String
  | .insert .. => "insert" | .remove .. => "remove" | .drop .. => "drop" | .dropStale .. => "drop-stale"
  | .dropLlgr .. => "drop-llgr-stale" | .dropNoLlgr .. => "drop-no-llgr" | .restale .. => "restale"
  | .restaleLlgr .. => "restale-llgr" | .nhValidity .. => "nexthop-validity"
  | .startDeferral .. => "start-deferral" | .endDeferral .. => "end-deferral"

def checkStep (c : Case) (st : St) (live : List Live) (op : Op) (s : StepObs) : Option String :=
  let addrs := (c.srcs.map (·.addr)).eraseDups
  -- table totals
  (firstSome (fun (fo : FamObs) =>
      let nd := (fo.dests.filter fun d => !d.2.isEmpty).length
      let np := countPaths (fun _ => true) fo.dests
      let na := countPaths (fun e => !e.filtered) fo.dests
      if fo.state.1 ≠ nd then some "destination-count-ne-recount"
      else if fo.state.2.1 ≠ np then some "path-count-ne-recount"
      else if fo.state.2.2 ≠ na then some "accepted-count-ne-recount"
      else
        -- per-peer statistics
        firstSome (fun addr =>
          let (r, a) := statOf s addr fo.fam
          if r ≥ HALF || a ≥ HALF then some "peer-stats-underflow"
          else if r ≠ countPrefixes (fromAddr c addr) fo.dests then some s!"peer-received-ne-recount op={opName op}"
          else if a ≠ countPaths (fun e => fromAddr c addr e && !e.filtered) fo.dests then
            some s!"peer-accepted-ne-recount op={opName op}"
          else none) addrs) s.fams).orElse fun _ =>
  -- limit counters of the sessions in progress
  (firstSome (fun (l : Live) =>
      match addrOf c l.src with
      | none => some "unknown-reference"
      | some _ =>
          let v := ctrOf s l.src l.fam
          let n := countPrefixes (fun e => e.src == l.src) (famDests s.fams l.fam)
          if v ≥ HALF then some s!"limit-counter-underflow op={opName op} class={cls l}"
          else if (s.fams.any fun fo => fo.fam = l.fam) && v ≠ n then
            some s!"limit-counter-ne-recount dir={if v < n then "below" else "above"} op={opName op} class={cls l}"
          else none) live).orElse fun _ =>
  -- no limit counter at all has wrapped (sessions that ended included)
  (if s.ctrs.any (fun x => x.2.2 ≥ HALF) then some s!"limit-counter-underflow op={opName op} class=ended-session" else none).orElse fun _ =>
  -- the limit is enforced or signalled
  (match op with
   | .insert src fam net _ _ _ _ _ =>
      match src.lim with
      | none => none
      | some max =>
          let wasKnown := (famDests st.prev fam).any fun d => d.1 = net && d.2.any (fromAddr c src.addr)
          let n := countPrefixes (fun e => fromAddr c src.addr e && !e.filtered) (famDests s.fams fam)
          if !wasKnown && s.res ≠ .limit && n > max then
            -- paths of another session of the same peer are in the RIB: the recorded finding's class
            let other := (famDests s.fams fam).any fun d => d.2.any fun e => e.src != src.id && fromAddr c src.addr e
            some s!"limit-exceeded-not-signalled class={if other then "inherited-stale-paths" else match live.find? fun l => l.src = src.id ∧ l.fam = fam with | some l => cls l | none => "plain"}"
          else none
   | _ => none)

def checkSteps (c : Case) : Nat → St → List Op → List StepObs → Verdict
  | _, _, _, [] => .ok
  | _, _, [], _ :: _ => .ok
  | i, st, op :: ops, s :: ss =>
      let live := liveStep c st op
      let ref := SpecRef.refStep c st.ref op s.res
      match (SpecRef.check c ref s).orElse fun _ => checkStep c st live op s with
      | some cl => .fail i cl
      | none => checkSteps c (i + 1) { ref := ref, live := live, dead := deadStep c st op, prev := s.fams } ops ss

/-- The C15 reference checker.  A panic is an arithmetic overflow check firing (debug profile). -/
def check (c : Case) (o : Obs) : Verdict :=
  match checkSteps c 0 {} c.ops o.steps with
  | .fail i cl => .fail i cl
  | .ok =>
      if o.panicked then .fail o.steps.length "panic"
      else if o.steps.length ≠ c.ops.length then .fail o.steps.length "observation-misses-steps"
      else .ok

end Rbgp.Rib.SpecC15
