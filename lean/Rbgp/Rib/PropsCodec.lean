/-
  Rbgp.Rib.PropsCodec — the master theorems apply to exactly the cases the drivers run the model on:
  whatever `Codec.caseOf?` accepts (everything else is `(bad-case)` on both sides) is well-formed.
-/
import Rbgp.Rib.PropsC06
import Rbgp.Rib.PropsC15
import Rbgp.Rib.CodecGood
namespace Rbgp.Rib.PropsCodec
open Rbgp.Rib

theorem caseOf?_wf {t : Rbgp.Term} {c : Case} (h : Codec.caseOf? t = some c) : c.WF := by
  obtain ⟨g, hg⟩ := caseOf?_good h
  exact ⟨g, hg.wf⟩

/-- C06: the reference checker accepts the model run of every case the codec accepts. -/
theorem c06_check_run_ok_of_codec (p : Profile) (t : Rbgp.Term) (c : Case) (h : Codec.caseOf? t = some c) :
    SpecC06.check c (observe p c) = .ok := by
  obtain ⟨g, hg⟩ := caseOf?_good h
  exact PropsC06.check_run_ok p c g hg

/-- C15 (partial): the reference checker accepts the model run of every case the codec accepts that
    is short (< 2^63 steps) and lies outside the residual open finding (`Case.OneSession`: a limited
    session is the only source of its peer address). -/
theorem c15_check_run_ok_partial_of_codec (p : Profile) (t : Rbgp.Term) (c : Case)
    (h : Codec.caseOf? t = some c) (hsh : c.Short) (hone : c.OneSession) :
    SpecC15.check c (observe p c) = .ok := by
  obtain ⟨g, hg⟩ := caseOf?_good h
  exact PropsC15.check_run_ok_partial p c g hg (caseOf?_purgeCtrOk h) hsh hone

end Rbgp.Rib.PropsCodec

#print axioms Rbgp.Rib.PropsCodec.c06_check_run_ok_of_codec
#print axioms Rbgp.Rib.PropsCodec.c15_check_run_ok_partial_of_codec
