/-
  Rbgp.Rib.PropsC02 — C02, the readable statements.

  Everything here is about the MODEL (`Rbgp.Rib.Model`, tied to table/src/lib.rs and
  packet/src/bgp.rs `as_path_length` by the correspondence stream) and holds for every well-formed
  case (`Case.Good`: sources / attribute sets referred to by position, one family per session,
  AS_PATHs as `Attribute::decode` guarantees them) and every finite history of the twelve operations,
  in both build profiles.  The decision order itself (`SpecC02.beats`) is written from the property
  text in SpecC02.lean; `cmp_iff_beats` is the obligation that the model's comparator is that order.
-/
import Rbgp.Rib.ProofsC02
import Rbgp.Rib.StepAll
import Rbgp.Rib.RefProofs
import Rbgp.Rib.CodecGood
namespace Rbgp.Rib.PropsC02
open Rbgp.Rib Rbgp.Rib.SpecC02

/-! ## 0. The reference checker accepts every run -/

/-- For every well-formed case and both profiles, the C02 reference checker (written from the
    property text) accepts the observation of the model's run. -/
theorem check_run_ok (p : Profile) (c : Case) (g : Nat → Fam) (h : c.Good g) :
    SpecC02.check c (observe p c) = .ok :=
  check_observe_ok allSound refSound p h

/-- The theorem applies to exactly the cases the driver runs the model on: whatever the codec
    accepts (everything else is `(bad-case)` on both sides) is well-formed. -/
theorem check_run_ok_of_codec (p : Profile) (t : Rbgp.Term) (c : Case) (h : Codec.caseOf? t = some c) :
    SpecC02.check c (observe p c) = .ok := by
  obtain ⟨g, hg⟩ := caseOf?_good h
  exact check_run_ok p c g hg

/-! ## 1. The comparator is a total preorder and it is the stated decision order -/

/-- `impl Ord for RibEntry` / `evpn_type2_cmp` as modelled: reflexive, antisymmetric up to the rank
    key, transitive and total: what `sort` and `partition_point` assume. -/
theorem cmp_lawful (fl : Flags) (t2 : Bool) :
    (∀ a, cmpFor fl t2 a a = .eq) ∧
    (∀ a b, (cmpFor fl t2 a b).swap = cmpFor fl t2 b a) ∧
    (∀ a b d, cmpFor fl t2 a b ≠ .gt → cmpFor fl t2 b d ≠ .gt → cmpFor fl t2 a d ≠ .gt) ∧
    (∀ a b, cmpFor fl t2 a b ≠ .gt ∨ cmpFor fl t2 b a ≠ .gt) ∧
    (∀ a b, cmpFor fl t2 a b = .eq ↔ rkey fl t2 a = rkey fl t2 b) :=
  ⟨(cmpFor_lawful fl t2).refl, (cmpFor_lawful fl t2).swap, (cmpFor_lawful fl t2).trans,
   (cmpFor_lawful fl t2).total, cmpFor_eq_iff fl t2⟩

/-- The model comparator says "strictly better" exactly when the decision order of the property
    text does (MAC mobility for type-2 ≫ not LLGR-stale ≫ LOCAL_PREF ≫ AS_PATH hops ≫ ORIGIN ≫ eBGP ≫
    not GR-stale ≫ CLUSTER_LIST ≫ ORIGINATOR_ID / router-id), for entries whose attributes are
    well-formed and whose cached hop count is the AS_PATH's. -/
theorem cmp_iff_beats (fl : Flags) (t2 : Bool) (a b : Entry) (ha : EntryOk a) (hb : EntryOk b) :
    cmpFor fl t2 a b = .lt ↔ beats (specKey fl t2 a) (specKey fl t2 b) = true := by
  rw [beats_eq_cmpK (keyRel_of_entry fl t2 ha) (keyRel_of_entry fl t2 hb), ← cmpFor_eq_cmpK]
  simp

/-! ## 2. AS hop counting -/

/-- `Attribute::as_path_length` (after the repair of the `u8` accumulator) returns the hop count of
    the property text (AS_SET = 1, confederation segments = 0) for every well-formed AS_PATH of any
    length below 2^64 bytes, and never panics, in both profiles. -/
theorem asPathLength_spec (p : Profile) (bs : List Nat) (hw : asPathWf bs = true) (hl : bs.length < U64) :
    asPathLength p bs = .ok (hopCount bs) := by
  unfold asPathLength
  rw [asPathLengthAux_ok p bs.length bs 0 (Nat.le_refl _) hw (by omega), hopCount_eq_hopsOf]
  simp

theorem asPathLength_no_panic (p : Profile) (bs : List Nat) (hw : asPathWf bs = true) (hl : bs.length < U64) :
    asPathLength p bs ≠ .panic := by
  rw [asPathLength_spec p bs hw hl]; simp

/-- the bytes of one AS_SEQUENCE segment of `n` ASes (all zero) -/
def seqSeg (n : Nat) : List Nat := 2 :: n :: List.replicate (n * 4) 0

theorem hopsOf_two_segs (n m : Nat) : hopsOf (seqSeg n ++ seqSeg m) = n + m := by
  simp only [seqSeg, List.cons_append]
  rw [hopsOf_cons, List.drop_left' (List.length_replicate ..), hopsOf_cons,
    List.drop_of_length_le (by rw [List.length_replicate]; exact Nat.le_refl _), hopsOf_nil]
  simp

theorem asPathWf_two_segs (n m : Nat) : asPathWf (seqSeg n ++ seqSeg m) = true := by
  simp only [seqSeg, List.cons_append]
  rw [asPathWf, List.drop_left' (List.length_replicate ..), asPathWf,
    List.drop_of_length_le (by rw [List.length_replicate]; exact Nat.le_refl _), asPathWf]
  simp [List.length_append, List.length_replicate]

/-- non-vacuity: a 300-hop path (255 + 45) is counted as 300 in both profiles
    (the pinned code panicked in debug and returned 44 in release) -/
example (p : Profile) : asPathLength p (seqSeg 255 ++ seqSeg 45) = .ok 300 := by
  rw [asPathLength_spec p _ (asPathWf_two_segs 255 45)
        (by simp only [seqSeg, List.length_append, List.length_cons, List.length_replicate, U64]; omega),
      hopCount_eq_hopsOf, hopsOf_two_segs]

/-! ## 3. Lists stay ranked -/

/-- `partition_point` insertion keeps a ranked list ranked. -/
theorem insert_preserves_sorted (fl : Flags) (t2 : Bool) (e : Entry) (l : List Entry)
    (h : Sorted (cmpFor fl t2) l) : Sorted (cmpFor fl t2) (insertSorted (cmpFor fl t2) e l) :=
  insertSorted_sorted (cmpFor_lawful fl t2) e h

/-- the re-sort after stale marking yields a ranked permutation -/
theorem resort_sorted (fl : Flags) (t2 : Bool) (l : List Entry) :
    Sorted (cmpFor fl t2) (sortBy (cmpFor fl t2) l) ∧ (sortBy (cmpFor fl t2) l).Perm l :=
  ⟨sortBy_sorted (cmpFor_lawful fl t2) l, sortBy_perm _ l⟩

/-- In every state of every run, every destination's path list is ranked under the CURRENT flag sets
    (induction over all mutators, with the global stale / LLGR-stale sets). -/
theorem reachable_sorted (p : Profile) (c : Case) (g : Nat → Fam) (h : c.Good g) :
    ∀ tr ∈ (run p c).1, ∀ f n, Sorted (cmpFor tr.1.flags n.t2) (tr.1.entries f n) := by
  intro tr htr f n
  exact entries_sorted (runFrom_inv allSound p c.ops h.wf {} (inv_empty c g) tr htr) f n

/-! ## 4. The best path is maximal; ineligible paths are never selected -/

/-- In every reachable state the exportable list of a prefix consists of exactly the paths that
    passed import policy and have a reachable next hop, and no member beats its head (the best). -/
theorem best_maximal (p : Profile) (c : Case) (g : Nat → Fam) (h : c.Good g) :
    ∀ tr ∈ (run p c).1, ∀ f n,
      tr.1.elig f n = (tr.1.entries f n).filter (fun e => !e.filtered && !e.nhInv) ∧
      ∀ b rest, tr.1.elig f n = b :: rest →
        ∀ e ∈ tr.1.elig f n, beats (specKey tr.1.flags n.t2 e) (specKey tr.1.flags n.t2 b) = false := by
  intro tr htr f n
  have hinv := runFrom_inv allSound p c.ops h.wf {} (inv_empty c g) tr htr
  refine ⟨elig_eq_filter tr.1 f n, ?_⟩
  intro b rest hb e he
  have hs := elig_sorted hinv f n
  have hok : ∀ x ∈ tr.1.elig f n, EntryOk x := by
    intro x hx
    rw [elig_eq_filter] at hx
    have hx' := (List.mem_filter.mp hx).1
    unfold Table.entries at hx'
    cases hd : alookup n (tr.1.rib f).dests with
    | none => rw [hd] at hx'; simp at hx'
    | some d =>
      rw [hd] at hx'
      have di := entries_destInv hinv f n hd
      exact ⟨(di.attrOk x hx').1, (di.attrOk x hx').2⟩
  rw [hb] at hs hok he
  have := head_not_beaten tr.1.flags n.t2 hs hok
  rw [List.any_eq_false] at this
  have h2 := this (specKey tr.1.flags n.t2 e) (List.mem_map.mpr ⟨e, he, rfl⟩)
  simpa using h2

/-! ## 5. Add-path and ECMP lists are prefixes of the same ranking -/

/-- `collect_loc_rib_paths_limited(family, k)` lists, per prefix, the first `k` paths of
    `collect_loc_rib_paths(family)`. -/
theorem addpath_is_prefix (f : Fam) (r : Rib) (k : Nat) :
    ∀ ch ∈ r.collect f (some k), ∃ ch' ∈ r.collect f none, ch'.net = ch.net ∧ ch.paths = ch'.paths.take k := by
  intro ch hch
  have hd : r.deferring = false := by
    cases hx : r.deferring with
    | false => rfl
    | true => rw [collect_deferring hx] at hch; exact absurd hch List.not_mem_nil
  rw [collect_not_deferring hd] at hch ⊢
  obtain ⟨nd, hnd, hc⟩ := mem_collect.mp hch
  obtain ⟨hne, rfl⟩ := collectOf_some hc
  have hne' : (collectPaths none nd).isEmpty = false := by
    simp only [collectPaths] at hne ⊢
    cases h : nd.2.entries.filter Entry.eligible with
    | nil => rw [h] at hne; simp at hne
    | cons _ _ => rfl
  refine ⟨{ fam := f, net := nd.1, destId := nd.2.id, best := true, any := true, replaced := none,
            paths := collectPaths none nd }, mem_collect.mpr ⟨nd, hnd, ?_⟩, rfl, rfl⟩
  unfold collectOf
  rw [if_neg (by simp [hne'])]

/-- `ecmp_paths` is the maximal leading run of the ranking whose members are tied with the best on
    every decision step before the router-id. -/
theorem ecmp_is_leading_run (fl : Flags) (t2 : Bool) (b : Entry) (rest : List Entry)
    (hok : ∀ e ∈ b :: rest, EntryOk e) :
    ecmpCount fl t2 (b :: rest) =
      ((b :: rest).takeWhile fun e => tiedBeforeRid (specKey fl t2 b) (specKey fl t2 e)).length := by
  rw [← leadingRun_eq_ecmpCount fl t2 (b :: rest) hok]
  simp only [List.map_cons, leadingRun]
  rw [← List.map_cons, List.takeWhile_map, List.length_map]
  rfl

/-! ## 6. The outcome depends only on the current set of paths -/

/-- Two ranked lists that are permutations of each other (the same set of paths reached by different
    arrival orders / re-markings) have the same sequence of rank keys; in particular the same best
    key, the same add-path keys and the same ECMP run length. -/
theorem order_independent (fl : Flags) (t2 : Bool) (l₁ l₂ : List Entry)
    (h₁ : Sorted (cmpFor fl t2) l₁) (h₂ : Sorted (cmpFor fl t2) l₂) (hp : l₁.Perm l₂) :
    l₁.map (rkey fl t2) = l₂.map (rkey fl t2) :=
  sorted_perm_keys_eq fl t2 h₁ h₂ hp

/-! ## 7. What the API shows -/

/-- `Table::rs_local_paths` as modelled (after the repair): the path shown to an RS client for a prefix
    is a usable path of another RS client, and no usable path of another RS client beats it. -/
theorem rs_local_unbeaten (p : Profile) (c : Case) (g : Nat → Fam) (h : c.Good g) :
    ∀ tr ∈ (run p c).1, ∀ f n peer e, rsLocalOf peer (tr.1.entries f n) = some e →
      (e.src.role = .rs ∧ e.src.addr ≠ peer ∧ e.filtered = false ∧ e.nhInv = false) ∧
      ∀ y ∈ tr.1.entries f n, y.src.role = .rs → y.src.addr ≠ peer → y.filtered = false → y.nhInv = false →
        beats (specKey tr.1.flags n.t2 y) (specKey tr.1.flags n.t2 e) = false := by
  intro tr htr f n peer e he
  have hinv := runFrom_inv allSound p c.ops h.wf {} (inv_empty c g) tr htr
  unfold rsLocalOf at he
  have hq := List.find?_some he
  obtain ⟨as, bs, hsplit, hbefore⟩ := (List.find?_eq_some_iff_append.mp he).2
  simp only [Bool.and_eq_true, beq_iff_eq, Bool.not_eq_true', sameAddr, Entry.eligible, beq_eq_false_iff_ne, ne_eq] at hq
  refine ⟨⟨hq.1.1, hq.1.2, hq.2.1, hq.2.2⟩, ?_⟩
  intro y hy h1 h2 h3 h4
  have hs := entries_sorted hinv f n
  have hokE : ∀ x ∈ tr.1.entries f n, EntryOk x := by
    intro x hx
    unfold Table.entries at hx
    cases hd : alookup n (tr.1.rib f).dests with
    | none => rw [hd] at hx; simp at hx
    | some d =>
      rw [hd] at hx
      have di := entries_destInv hinv f n hd
      exact ⟨(di.attrOk x hx).1, (di.attrOk x hx).2⟩
  have hey : e ∈ tr.1.entries f n := List.mem_of_find?_eq_some he
  rw [beats_eq_cmpK (keyRel_of_entry _ _ (hokE y hy)) (keyRel_of_entry _ _ (hokE e hey)), ← cmpFor_eq_cmpK]
  -- y is not before e in the list (no earlier entry satisfies the test), so e ≤ y
  rw [hsplit] at hy hs
  rcases List.mem_append.mp hy with hya | hyb
  · have := hbefore y hya
    simp only [Bool.not_eq_true', Bool.and_eq_false_iff, beq_eq_false_iff_ne, ne_eq, sameAddr, Entry.eligible,
      Bool.not_eq_false', beq_iff_eq] at this
    rcases this with (hr | ha) | (hf | hn)
    · exact absurd h1 hr
    · exact absurd ha h2
    · rw [h3] at hf; exact absurd hf (by simp)
    · rw [h4] at hn; exact absurd hn (by simp)
  · rcases List.mem_cons.mp hyb with rfl | hyb'
    · rw [(cmpFor_lawful _ _).refl]; rfl
    · have hp := (List.pairwise_append.mp hs).2.1
      have := (List.pairwise_cons.mp hp).1 y hyb'
      have hsw := (cmpFor_lawful tr.1.flags n.t2).swap e y
      cases hc : cmpFor tr.1.flags n.t2 y e
      · rw [hc] at hsw
        have : cmpFor tr.1.flags n.t2 e y = .gt := by
          cases h' : cmpFor tr.1.flags n.t2 e y <;> simp_all [Ordering.swap]
        exact absurd this ‹cmpFor tr.1.flags n.t2 e y ≠ .gt›
      · rfl
      · rfl

/-- ListPath of the global table (without filtered paths) lists the usable paths of a prefix in the
    order of the ranking: its usable sub-list IS the exportable list. -/
theorem api_list_follows_ranking (t : Table) (f : Fam) (n : Net) :
    ((t.entries f n).filter fun e => !e.filtered).filter Entry.eligible = t.elig f n := by
  rw [elig_eq_filter, List.filter_filter]
  apply List.filter_congr
  intro e _
  simp only [Entry.eligible]
  cases e.filtered <;> cases e.nhInv <;> rfl

/-! ## Non-vacuity -/

def exSrc (i addr rid : Nat) (role : Role) : Src := { id := i, addr := addr, rid := rid, role := role, lim := none }
def exAttr (i : Nat) (lp : Option Nat) (oid : Option Nat) : Attrs :=
  { id := i, lp := lp, origin := some 0, asPath := none, oid := oid, cluster := none, comm := none, ext := none }

/-- five paths for one prefix, tied at several steps, then a stale re-marking -/
def exCase : Case :=
  let s0 := exSrc 0 1 1 .ebgp
  let s1 := exSrc 1 2 2 .ebgp
  let s2 := exSrc 2 3 1 .ibgp
  let a0 := exAttr 0 (some 100) none
  let a1 := exAttr 1 (some 100) (some 1)
  let a2 := exAttr 2 (some 110) none
  { srcs := [s0, s1, s2], attrs := [a0, a1, a2],
    ops := [ .insert s0 .v4 ⟨false, 1⟩ 0 (some 1) a0 false false,
             .insert s1 .v4 ⟨false, 1⟩ 0 (some 2) a1 false false,
             .insert s2 .v4 ⟨false, 1⟩ 0 (some 1) a2 false true,
             .insert s1 .v4 ⟨false, 1⟩ 1 (some 2) a0 true false,
             .insert s2 .v4 ⟨false, 1⟩ 1 (some 3) a1 false false,
             .restale 2 .v4, .nhValidity 1 false ] }

theorem exAttr_wf (i : Nat) (lp oid : Option Nat) : (exAttr i lp oid).WF :=
  ⟨by intro bs h; simp [exAttr] at h, by intro bs h; simp [exAttr] at h, by intro bs h; simp [exAttr] at h⟩

example : exCase.Good (fun _ => .v4) where
  wf := by
    intro op hop
    simp only [exCase, List.mem_cons, List.not_mem_nil, or_false] at hop
    rcases hop with rfl | rfl | rfl | rfl | rfl | rfl | rfl <;>
      first
        | exact ⟨rfl, rfl, exAttr_wf _ _ _⟩
        | trivial
  attrRef := by
    intro op hop
    simp only [exCase, List.mem_cons, List.not_mem_nil, or_false] at hop
    rcases hop with rfl | rfl | rfl | rfl | rfl | rfl | rfl <;> first | rfl | trivial

end Rbgp.Rib.PropsC02

#print axioms Rbgp.Rib.PropsC02.check_run_ok
#print axioms Rbgp.Rib.PropsC02.check_run_ok_of_codec
#print axioms Rbgp.Rib.PropsC02.cmp_lawful
#print axioms Rbgp.Rib.PropsC02.cmp_iff_beats
#print axioms Rbgp.Rib.PropsC02.asPathLength_spec
#print axioms Rbgp.Rib.PropsC02.asPathLength_no_panic
#print axioms Rbgp.Rib.PropsC02.insert_preserves_sorted
#print axioms Rbgp.Rib.PropsC02.resort_sorted
#print axioms Rbgp.Rib.PropsC02.reachable_sorted
#print axioms Rbgp.Rib.PropsC02.best_maximal
#print axioms Rbgp.Rib.PropsC02.addpath_is_prefix
#print axioms Rbgp.Rib.PropsC02.ecmp_is_leading_run
#print axioms Rbgp.Rib.PropsC02.order_independent
#print axioms Rbgp.Rib.PropsC02.rs_local_unbeaten
#print axioms Rbgp.Rib.PropsC02.api_list_follows_ranking
