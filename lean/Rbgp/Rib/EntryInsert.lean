/-
  Rbgp.Rib.EntryInsert — how `Table::insert` and `Table::remove` change the set of paths of every
  prefix (`EntrySound` for the two operations).
-/
import Rbgp.Rib.InvInsert
import Rbgp.Rib.EntryDef
namespace Rbgp.Rib

theorem entries_eq_oldEs (t : Table) (f : Fam) (n : Net) : t.entries f n = oldEs n (t.rib f).dests := rfl

theorem entries_of_lookup_eq {t t' : Table} {f : Fam} {n : Net}
    (h : alookup n (t'.rib f).dests = alookup n (t.rib f).dests) : t'.entries f n = t.entries f n := by
  unfold Table.entries; rw [h]

theorem not_both {f fam : Fam} {n net : Net} (h : ¬ (f = fam ∧ n = net)) : f ≠ fam ∨ n ≠ net := by
  by_cases hf : f = fam
  · exact Or.inr (fun hn => h ⟨hf, hn⟩)
  · exact Or.inl hf

/-! ## `insert` -/

def limitHit (t : Table) (src : Src) (fam : Fam) (net : Net) (rpid : Nat) : Bool :=
  !(insertPlan t src fam net rpid).sessHas &&
    (match src.lim with | some max => decide (t.ctr (src.id, fam) ≥ max) | none => false)

theorem insert_eq2 (p : Profile) (t : Table) (src : Src) (fam : Fam) (net : Net) (rpid : Nat)
    (nh : Option Nat) (attr : Attrs) (filtered nhInv : Bool) :
    t.insert p src fam net rpid nh attr filtered nhInv =
      if limitHit t src fam net rpid = true then
        .ok (insertLimit t fam net (insertPlan t src fam net rpid), .limit)
      else
        match attr.asPathLen p with
        | .panic => .panic
        | .ok aslen =>
          match insertStats p (statsGet t (src.addr, fam)) (insertPlan t src fam net rpid).replaced
              (insertPlan t src fam net rpid).isNew filtered with
          | .panic => .panic
          | .ok st => .ok (insertCommit t src fam net rpid nh attr filtered nhInv
              (insertPlan t src fam net rpid) aslen st) := rfl

/-- the three ways `insert` can end -/
theorem insert_cases (p : Profile) (t : Table) (src : Src) (fam : Fam) (net : Net) (rpid : Nat)
    (nh : Option Nat) (attr : Attrs) (filtered nhInv : Bool) :
    t.insert p src fam net rpid nh attr filtered nhInv =
        .ok (insertLimit t fam net (insertPlan t src fam net rpid), .limit) ∨
    t.insert p src fam net rpid nh attr filtered nhInv = .panic ∨
    ∃ aslen st, t.insert p src fam net rpid nh attr filtered nhInv =
      .ok (insertCommit t src fam net rpid nh attr filtered nhInv (insertPlan t src fam net rpid) aslen st) := by
  rw [insert_eq2]
  by_cases hlim : limitHit t src fam net rpid = true
  · rw [if_pos hlim]
    exact Or.inl rfl
  · rw [if_neg hlim]
    right
    cases attr.asPathLen p with
    | panic => exact Or.inl rfl
    | ok aslen =>
      simp only []
      cases insertStats p (statsGet t (src.addr, fam)) (insertPlan t src fam net rpid).replaced
          (insertPlan t src fam net rpid).isNew filtered with
      | panic => exact Or.inl rfl
      | ok st => exact Or.inr ⟨aslen, st, rfl⟩

theorem insert_plan_spec {c g} {t : Table} (hinv : Inv c g t) (src : Src) (fam : Fam) (net : Net) (rpid : Nat) :
    PlanSpec (insertPlan t src fam net rpid).dst src.addr rpid (insertPlan t src fam net rpid) ∧
    (insertPlan t src fam net rpid).dst.entries = t.entries fam net ∧
    (insertPlan t src fam net rpid).rib.dests = (t.rib fam).dests := by
  have hr := hinv.rib fam
  have hpl := insertPlan_eq t src fam net rpid
  have hpdst : (insertPlan t src fam net rpid).dst = (planBase (t.rib fam) net).2 := by rw [hpl]; rfl
  have hprib : (insertPlan t src fam net rpid).rib = (planBase (t.rib fam) net).1 := by rw [hpl]; rfl
  have hes : (insertPlan t src fam net rpid).dst.entries = oldEs net (t.rib fam).dests := by
    rw [hpdst, planBase_entries]
  refine ⟨?_, hes, by rw [hprib, planBase_dests]⟩
  rw [hpdst]
  have := mkPlan_spec (planBase (t.rib fam) net).1 (planBase (t.rib fam) net).2 src.addr rpid
    src.id (by rw [← hpdst, hes]; exact (oldEs_esInv hr net).pathKeys)
  rw [← hpl] at this
  exact this

theorem entryFacts_insert {c g} (p : Profile) {t : Table} (hinv : Inv c g t) (src : Src) (fam : Fam) (net : Net)
    (rpid : Nat) (nh : Option Nat) (attr : Attrs) (filtered nhInv : Bool) {t' : Table} {r : Res}
    (hstep : t.insert p src fam net rpid nh attr filtered nhInv = .ok (t', r)) :
    EntryFacts t (.insert src fam net rpid nh attr filtered nhInv) t' r := by
  obtain ⟨spec, hes, hdests⟩ := insert_plan_spec hinv src fam net rpid
  rcases insert_cases p t src fam net rpid nh attr filtered nhInv with h | h | ⟨aslen, st, h⟩
  · -- prefix limit: nothing changes
    rw [h, insertLimit_eq hinv src fam net rpid] at hstep
    cases hstep
    exact ⟨fun f n x hx => Or.inl ⟨x, hx, rfl, Or.inl rfl⟩, fun _ _ _ => rfl⟩
  · rw [h] at hstep; cases hstep
  · rw [h, insertCommit_eq'] at hstep
    cases hstep
    have hnl : ∀ (b : Bool) (ch : Change), (if b then Res.noChange else Res.changed ch) ≠ Res.limit := by
      intro b ch; cases b <;> simp
    refine ⟨?_, fun hl => absurd hl (hnl _ _)⟩
    intro f n x hx
    by_cases hfn : f = fam ∧ n = net
    · obtain ⟨rfl, rfl⟩ := hfn
      have hent : (insTable t src f n (insertPlan t src f n rpid)
          (newEntry (insertPlan t src f n rpid) src nh attr rpid filtered nhInv aslen) st).entries f n =
          insertSorted (cmpFor t.flags n.t2)
            (newEntry (insertPlan t src f n rpid) src nh attr rpid filtered nhInv aslen)
            (insertPlan t src f n rpid).entries := by
        unfold Table.entries insTable
        rw [upd_rib_self]
        show (match alookup n (aset n (insDest t.flags n (insertPlan t src f n rpid)
            (newEntry (insertPlan t src f n rpid) src nh attr rpid filtered nhInv aslen))
            (insertPlan t src f n rpid).rib.dests) with
          | some d => d.entries | none => []) = _
        rw [alookup_aset_self]; rfl
      rw [hent] at hx
      rcases mem_insertSorted.mp hx with rfl | hx
      · right
        exact ⟨⟨rfl, rfl, rfl, rfl, rfl, rfl, rfl, rfl⟩, hnl _ _⟩
      · left
        refine ⟨x, ?_, rfl, Or.inr ?_⟩
        · rw [← hes]; exact spec.sublist.subset hx
        · rintro ⟨_, _, ha, hr⟩
          have := spec.key_fresh x hx
          rw [matchKey_iff.mpr (by rw [ha, hr])] at this
          exact absurd this (by simp)
    · left
      have hlk : alookup n ((insTable t src fam net (insertPlan t src fam net rpid)
          (newEntry (insertPlan t src fam net rpid) src nh attr rpid filtered nhInv aslen) st).rib f).dests =
          alookup n (t.rib f).dests := by
        unfold insTable
        refine lookup_upd _ _ ?_ f n (not_both hfn)
        intro m hm
        show alookup m (aset net _ (insertPlan t src fam net rpid).rib.dests) = _
        rw [alookup_aset_ne hm, hdests]
      rw [entries_of_lookup_eq hlk] at hx
      exact ⟨x, hx, rfl, Or.inr (fun h => hfn ⟨h.1, h.2.1⟩)⟩

/-! ## `remove` -/

theorem remove_cases (p : Profile) (t : Table) (src : Src) (fam : Fam) (net : Net) (rpid : Nat) :
    t.remove p src fam net rpid = .ok (t, .removed none) ∨
    t.remove p src fam net rpid = .panic ∨
    ∃ dst i removed st, alookup net (t.rib fam).dests = some dst ∧
      t.remove p src fam net rpid = .ok (removeCommit t src fam net dst removed (dst.entries.eraseIdx i) st) := by
  unfold Table.remove
  cases h : alookup net (t.rib fam).dests with
  | none => exact Or.inl rfl
  | some dst =>
    simp only []
    cases dst.entries.findIdx? (fun e => sameAddr src.addr e && e.rpid == rpid) with
    | none => exact Or.inl rfl
    | some i =>
      simp only []
      cases dst.entries[i]? with
      | none => exact Or.inr (Or.inl rfl)
      | some removed =>
        simp only []
        cases alookup (src.addr, fam) t.stats with
        | none => exact Or.inr (Or.inl rfl)
        | some st =>
          simp only []
          cases removeStats p st (if (dst.entries.eraseIdx i).any (sameAddr src.addr) then 0 else 1)
              (if removed.filtered then 0 else 1) with
          | panic => exact Or.inr (Or.inl rfl)
          | ok st' => exact Or.inr (Or.inr ⟨dst, i, removed, st', rfl, rfl⟩)

theorem entryFacts_remove {c g} (p : Profile) {t : Table} (hinv : Inv c g t) (src : Src) (fam : Fam) (net : Net)
    (rpid : Nat) {t' : Table} {r : Res} (hstep : t.remove p src fam net rpid = .ok (t', r)) :
    EntryFacts t (.remove src fam net rpid) t' r := by
  rcases remove_cases p t src fam net rpid with h | h | ⟨dst, i, removed, st, hl, h⟩
  · rw [h] at hstep; cases hstep
    refine ⟨fun f n x hx => Or.inl ⟨x, hx, rfl, Or.inr (fun hf => hf)⟩, fun hl => absurd hl (by simp)⟩
  · rw [h] at hstep; cases hstep
  · rw [h, removeCommit_eq] at hstep
    cases hstep
    have hnl : ∀ (b : Bool) (ch : Change), (if b then Res.removed none else Res.removed (some ch)) ≠ Res.limit := by
      intro b ch; cases b <;> simp
    refine ⟨?_, fun hl => absurd hl (hnl _ _)⟩
    intro f n x hx
    left
    refine ⟨x, ?_, rfl, Or.inr (fun hf => hf)⟩
    by_cases hfn : f = fam ∧ n = net
    · obtain ⟨rfl, rfl⟩ := hfn
      unfold Table.entries at hx ⊢
      rw [upd_rib_self, remRib_lookup_self (hinv.rib f).keys] at hx
      rw [hl]
      by_cases he : (dst.entries.eraseIdx i).isEmpty = true
      · rw [if_pos he] at hx; simp at hx
      · rw [if_neg he] at hx
        exact (List.eraseIdx_sublist _ _).subset hx
    · have hlk := lookup_upd (t := t) (fam := fam) (net := net)
        (r' := remRib (t.rib fam) net dst (dst.entries.eraseIdx i))
        (aset (src.addr, fam) st t.stats) (remCtrs t src fam removed (dst.entries.eraseIdx i))
        (fun m hm => remRib_lookup_ne _ _ _ _ hm) f n (not_both hfn)
      rw [entries_of_lookup_eq hlk] at hx
      exact hx

theorem entrySound_insert_remove : EntrySound Op.isInsertOrRemove := by
  intro c g p t op t' r hsel hwf hinv hstep
  cases op with
  | insert src fam net rpid nh attr filtered nhInv =>
    exact entryFacts_insert p hinv src fam net rpid nh attr filtered nhInv hstep
  | remove src fam net rpid => exact entryFacts_remove p hinv src fam net rpid hstep
  | _ => exact absurd hsel (by simp [Op.isInsertOrRemove])

end Rbgp.Rib
