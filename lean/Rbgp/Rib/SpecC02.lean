/-
  Rbgp.Rib.SpecC02 — C02 written from the property text as a reference checker over observations.

  "For every prefix, the path reported as best is one that no other eligible path beats under this
   decision order: not LLGR-stale over LLGR-stale, higher LOCAL_PREF, shorter AS_PATH (AS_SET = 1,
   confederation segments = 0), lower ORIGIN, eBGP over iBGP/confed-eBGP, not GR-stale over stale,
   shorter CLUSTER_LIST, lower ORIGINATOR_ID/router-id, with the EVPN MAC-mobility sequence number
   ahead of everything for type-2 routes.  Paths rejected by import policy or with an unreachable
   next hop are never selected, the add-path/ECMP lists are prefixes of the same ranking, and the
   outcome depends only on the current set of paths."

  Imports the model only for the TYPES of cases and observations; every attribute reading below
  (hop count, communities, MAC mobility) is written here from the wire format, independently of the
  model's getters.
-/
import Rbgp.Rib.SpecRef
namespace Rbgp.Rib.SpecC02
open Rbgp.Rib

inductive Verdict where
  | ok
  | fail (step : Nat) (clause : String)
  deriving DecidableEq, Repr

/-! ## The decision order of the property text -/

/-- What the decision order looks at. -/
structure PKey where
  /-- MAC-mobility sequence number (type-2 routes only) -/
  mm : Option Nat
  llgr : Bool
  lp : Nat
  hops : Nat
  origin : Nat
  ebgp : Bool
  stale : Bool
  cluster : Nat
  rid : Nat
  deriving DecidableEq, Repr, Inhabited

/-- One step of the order: `better a b` = a is strictly preferred at this step. -/
def mmBetter (a b : PKey) : Bool :=
  match a.mm, b.mm with
  | some x, some y => x > y
  | some _, none => true
  | _, _ => false
def llgrBetter (a b : PKey) : Bool := !a.llgr && b.llgr
def lpBetter (a b : PKey) : Bool := a.lp > b.lp
def hopsBetter (a b : PKey) : Bool := a.hops < b.hops
def originBetter (a b : PKey) : Bool := a.origin < b.origin
def ebgpBetter (a b : PKey) : Bool := a.ebgp && !b.ebgp
def staleBetter (a b : PKey) : Bool := !a.stale && b.stale
def clusterBetter (a b : PKey) : Bool := a.cluster < b.cluster
def ridBetter (a b : PKey) : Bool := a.rid < b.rid

/-- The steps before the router-id, in the stated order. -/
def stepsBeforeRid : List (PKey → PKey → Bool) :=
  [mmBetter, llgrBetter, lpBetter, hopsBetter, originBetter, ebgpBetter, staleBetter, clusterBetter]
def allSteps : List (PKey → PKey → Bool) := stepsBeforeRid ++ [ridBetter]

/-- the first step at which the two differ decides -/
def firstDiff : List (PKey → PKey → Bool) → PKey → PKey → Bool
  | [], _, _ => false
  | s :: rest, a, b => if s a b then true else if s b a then false else firstDiff rest a b

/-- `beats a b`: a is strictly preferred to b under the stated decision order. -/
def beats (a b : PKey) : Bool := firstDiff allSteps a b

/-- equal on every step before the router-id (ECMP candidates) -/
def tiedBeforeRid (a b : PKey) : Bool :=
  stepsBeforeRid.all fun s => !s a b && !s b a

/-! ## Reading a path's key off the inputs -/

/-- AS_PATH segments `(type, number of ASes)` of the wire encoding. -/
def segments : List Nat → List (Nat × Nat)
  | t :: n :: rest => (t, n) :: segments (rest.drop (4 * n))
  | _ => []
termination_by bs => bs.length
decreasing_by simp [List.length_drop]; omega

/-- "an AS_SET counts one, confederation segments zero" -/
def segHops : Nat × Nat → Nat
  | (1, _) => 1
  | (2, n) => n
  | _ => 0
def hopCount (bs : List Nat) : Nat := ((segments bs).map segHops).sum

def groups (n : Nat) (bs : List Nat) : List (List Nat) :=
  if _h : 0 < n ∧ n ≤ bs.length then bs.take n :: groups n (bs.drop n) else []
termination_by bs.length
decreasing_by simp [List.length_drop]; omega

/-- well-known community LLGR_STALE = 0xFFFF0006 (RFC 9494) -/
def carriesLlgrStale (comm : List Nat) : Bool := (groups 4 comm).any (· == [255, 255, 0, 6])

/-- MAC Mobility extended community (type 0x06, sub-type 0x00): the first one's sequence number -/
def mobilitySeq (ext : List Nat) : Option Nat :=
  match (groups 8 ext).find? (fun g => g.take 2 == [6, 0]) with
  | some g => some ((g.drop 4).foldl (fun acc b => acc * 256 + b) 0)
  | none => none

def isEbgp : Role → Bool
  | .ebgp => true
  | .rs => true
  | .ibgp => false
  | .rr => false
  | .confed => false

/-- Key of the path (source `s`, attributes `a`) of a prefix (`t2`: EVPN type-2), given the sets of
    GR-stale and LLGR-stale sessions. -/
def keyOf (t2 : Bool) (stale llgr : List Nat) (s : Src) (a : Attrs) : PKey :=
  { mm := if t2 then (match a.ext with | some e => mobilitySeq e | none => none) else none
    llgr := llgr.contains s.id || (match a.comm with | some c => carriesLlgrStale c | none => false)
    lp := (match a.lp with | some v => v | none => 100)
    hops := (match a.asPath with | some b => hopCount b | none => 0)
    origin := (match a.origin with | some v => v | none => 2)
    ebgp := isEbgp s.role
    stale := stale.contains s.id
    cluster := (match a.cluster with | some b => b.length / 4 | none => 0)
    rid := (match a.oid with | some v => v | none => s.rid) }

/-! ## Which paths are eligible: the spec's own bookkeeping of next-hop reachability -/

/-- (family, prefix, peer address, remote path id) ↦ (next hop, currently unreachable) -/
abbrev NhMap := List ((Fam × Net × Nat × Nat) × (Option Nat × Bool))

def nhSet (k : Fam × Net × Nat × Nat) (v : Option Nat × Bool) : NhMap → NhMap
  | [] => [(k, v)]
  | (k', v') :: l => if k' = k then (k, v) :: l else (k', v') :: nhSet k v l
def nhGet (k : Fam × Net × Nat × Nat) : NhMap → Option (Option Nat × Bool)
  | [] => none
  | (k', v') :: l => if k' = k then some v' else nhGet k l

/-- A path's next hop is unreachable iff the latest information about it says so: the flag given
    when it was announced, or a later reachability flip of its next-hop address. -/
def nhStep (m : NhMap) (op : Op) (res : ResObs) : NhMap :=
  match op with
  | .insert src fam net rpid nh _ _ nhInv =>
      if res = .limit then m else nhSet (fam, net, src.addr, rpid) (nh, nhInv) m
  | .nhValidity k reachable =>
      m.map fun (key, (nh, inv)) => if nh = some k then (key, (nh, !reachable)) else (key, (nh, inv))
  | _ => m

/-! ## The checks -/

/-- `a` is a sub-multiset of `b` -/
def subMulti {α} [DecidableEq α] : List α → List α → Bool
  | [], _ => true
  | x :: l, b => b.contains x && subMulti l (b.erase x)

/-- all pairs i < j: the later one does not beat the earlier one -/
def ranked : List PKey → Bool
  | [] => true
  | k :: l => l.all (fun k' => !beats k' k) && ranked l

def leadingRun : List PKey → Nat
  | [] => 0
  | b :: l => ((b :: l).takeWhile (tiedBeforeRid b)).length

structure Ctx where
  c : Case
  stale : List Nat
  llgr : List Nat

def Ctx.key (x : Ctx) (t2 : Bool) (src attr : Nat) : Option PKey :=
  match x.c.srcs[src]?, x.c.attrs[attr]? with
  | some s, some a => some (keyOf t2 x.stale x.llgr s a)
  | _, _ => none

/-- eligible entries of a destination as (source, attribute set) pairs -/
def eligibleOf (x : Ctx) (m : NhMap) (fam : Fam) (net : Net) (es : List DEntry) : List (Nat × Nat) :=
  es.filterMap fun e =>
    let addr := match x.c.srcs[e.src]? with
      | some s => s.addr
      | none => 0
    let inv := match nhGet (fam, net, addr, e.rpid) m with
      | some (_, inv) => inv
      | none => false
    if !e.filtered && !inv then some (e.src, e.attr) else none

/-- A reported ranking `ps` (best first) of prefix `net`, whose eligible paths are `elig`:
    `complete` = it must list every eligible path (a full dump), otherwise any sub-list.
    `ecmp` = the local path ids reported as the ECMP set. -/
def checkRanking (x : Ctx) (net : Net) (elig : List (Nat × Nat)) (ps : List PathRef) (ecmp : List Nat)
    (complete : Bool) : Option String :=
  let ids := ps.map fun p => (p.src, p.attr)
  match ids.mapM (fun i => x.key net.t2 i.1 i.2), elig.mapM (fun i => x.key net.t2 i.1 i.2) with
  | some ks, some eks =>
      if !subMulti ids elig then some "ineligible-path-selected"
      else if complete && !subMulti elig ids then some "eligible-path-missing"
      else if ks.isEmpty && !elig.isEmpty then some "no-best-but-eligible-path-exists"
      else if (match ks with | k :: _ => eks.any (fun e => beats e k) | [] => false) then some "best-is-beaten"
      else if !ranked ks then some "ranking-inverted"
      else if ecmp != (ps.map (·.lpid)).take (leadingRun ks) then some "ecmp-not-leading-run"
      else none
  | _, _ => some "unknown-reference"

def lookupNet {α} (n : Net) : List (Net × α) → Option α
  | [] => none
  | (n', v) :: l => if n' = n then some v else lookupNet n l

def optList {α} : Option (List α) → List α
  | some l => l
  | none => []

def checkChange (x : Ctx) (m : NhMap) (fams : List FamObs) (ch : ChangeObs) : Option String :=
  match fams.find? (fun f => f.fam = ch.fam) with
  | none => some "unknown-family"
  | some fo =>
      -- "installed / exported": the best path handed on is the head of the ranking
      if ch.newBest != ch.paths.head?.map (·.lpid) then some "reported-best-is-not-the-head"
      else checkRanking x ch.net (eligibleOf x m ch.fam ch.net (optList (lookupNet ch.net fo.dests))) ch.paths ch.ecmp false

def firstSome {α} (f : α → Option String) : List α → Option String
  | [] => none
  | a :: l => match f a with
    | some s => some s
    | none => firstSome f l

/-- every destination: the full dump lists exactly its eligible paths, ranked.  A family whose route
    selection is deferred (`dfr`) has selected nothing yet: no path of it need be listed, but what is
    listed is judged all the same -/
def clauseDest (x : Ctx) (m : NhMap) (dfr : Bool) (fo : FamObs) (d : Net × List DEntry) : Option String :=
  let elig := eligibleOf x m fo.fam d.1 d.2
  match fo.loc.find? (fun l => l.net = d.1) with
  | some l => checkRanking x d.1 elig l.paths l.ecmp true
  | none => if elig.isEmpty || dfr then none else some "eligible-path-missing"

/-- the add-path lists (N = 2, 3) are prefixes of the same ranking -/
def clauseLoc (fo : FamObs) (l : LocObs) : Option String :=
  if (lookupNet l.net fo.dests).isNone then some "ineligible-path-selected"
  else if lookupNet l.net fo.lim2 != some ((l.paths.map (·.lpid)).take 2) then some "addpath-list-not-a-prefix"
  else if lookupNet l.net fo.lim3 != some ((l.paths.map (·.lpid)).take 3) then some "addpath-list-not-a-prefix"
  else none

/-- a list of usable paths judged by itself: it is ranked and its head is not beaten -/
def checkShownRanked (x : Ctx) (net : Net) (shown : List (Nat × Nat)) : Option String :=
  match shown.mapM (fun i => x.key net.t2 i.1 i.2) with
  | some ks =>
      if (match ks with | k :: _ => ks.any (fun e => beats e k) | [] => false) then some "api-list-best-is-beaten"
      else if !ranked ks then some "api-list-order-differs-from-ranking"
      else none
  | none => some "unknown-reference"

/-- "shown by the API", ListPath of the global table without filtered paths: the usable paths appear
    in the order of the ranking -/
def clauseShown (x : Ctx) (m : NhMap) (dfr : Bool) (fo : FamObs) (d : Net × List DEntry) : Option String :=
  let shown : List (Nat × Nat) := eligibleOf x m fo.fam d.1 (optList (lookupNet d.1 fo.nofilt))
  let ranking : List (Nat × Nat) := match fo.loc.find? (fun l => l.net = d.1) with
    | some l => l.paths.map fun p => (p.src, p.attr)
    | none => []
  -- without `enable_filtered` exactly the paths that passed import policy are listed, in list order
  if optList (lookupNet d.1 fo.nofilt) != d.2.filter (fun e => !e.filtered) then some "api-list-is-not-the-unfiltered-paths"
  -- while route selection is deferred the Loc-RIB dump gives no ranking to compare with: the list is
  -- judged by itself
  else if dfr then checkShownRanked x d.1 shown
  else if shown == ranking then none else some "api-list-order-differs-from-ranking"

def isRsClient (c : Case) (src : Nat) : Bool :=
  match c.srcs[src]? with
  | some s => s.role == .rs
  | none => false

def addrOfSrc (c : Case) (src : Nat) : Nat :=
  match c.srcs[src]? with
  | some s => s.addr
  | none => 0

/-- "shown by the API", ListPath of an RS client's local table: the one path shown for a prefix is a
    usable path of another RS client that no other such path beats -/
def clauseRsLocal (x : Ctx) (m : NhMap) (fo : FamObs) (peer : Nat) (shown : List (Net × DEntry))
    (d : Net × List DEntry) : Option String :=
  let cands := eligibleOf x m fo.fam d.1
    (d.2.filter fun e => isRsClient x.c e.src && addrOfSrc x.c e.src != peer)
  match lookupNet d.1 shown with
  | none => if cands.isEmpty then none else some "rs-local-view-misses-prefix"
  | some e =>
      if !cands.contains (e.src, e.attr) then some "rs-local-view-shows-unusable-path"
      else match x.key d.1.t2 e.src e.attr, cands.mapM (fun i => x.key d.1.t2 i.1 i.2) with
        | some k, some cks => if cks.any (fun ck => beats ck k) then some "rs-local-view-best-is-beaten" else none
        | _, _ => some "unknown-reference"

/-- ListPath of a peer's Adj-RIB-In: exactly the peer's paths of the prefix, in list order -/
def clauseAdjIn (x : Ctx) (peer : Nat) (shown : List (Net × List DEntry)) (d : Net × List DEntry) : Option String :=
  if optList (lookupNet d.1 shown) = d.2.filter (fun e => addrOfSrc x.c e.src == peer) then none
  else some "adj-in-view-differs"

def checkFam (x : Ctx) (m : NhMap) (dfr : Bool) (fo : FamObs) : Option String :=
  (firstSome (clauseDest x m dfr fo) fo.dests).orElse fun _ =>
  (firstSome (clauseLoc fo) fo.loc).orElse fun _ =>
  (firstSome (clauseShown x m dfr fo) fo.dests).orElse fun _ =>
  (firstSome (fun (v : Nat × List (Net × DEntry)) => firstSome (clauseRsLocal x m fo v.1 v.2) fo.dests) fo.rsLocal).orElse fun _ =>
  (firstSome (fun (v : Nat × List (Net × List DEntry)) => firstSome (clauseAdjIn x v.1 v.2) fo.dests) fo.adjIn)

def changesOf : ResObs → List ChangeObs
  | .ch c => [c]
  | .chs cs => cs
  | _ => []

/-- the families whose route selection is deferred, folded from the operations -/
def dfStep (df : List Fam) : Op → List Fam
  | .startDeferral f => f :: df.filter (· != f)
  | .endDeferral f => df.filter (· != f)
  | _ => df

def checkStep (c : Case) (m : NhMap) (df : List Fam) (s : StepObs) : Option String :=
  let x : Ctx := { c, stale := s.stale, llgr := s.llgr }
  (firstSome (checkChange x m s.fams) (changesOf s.res)).orElse fun _ =>
  firstSome (fun fo => checkFam x m (df.contains fo.fam) fo) s.fams

def checkSteps (c : Case) : Nat → NhMap → List Fam → SpecRef.RefSt → List Op → List StepObs → Verdict
  | _, _, _, _, _, [] => .ok
  | _, _, _, _, [], _ :: _ => .ok
  | i, m, df, rs, op :: ops, s :: ss =>
      let m' := nhStep m op s.res
      let df' := dfStep df op
      let rs' := SpecRef.refStep c rs op s.res
      -- the dump agrees with the reference path set folded from the operations
      match (SpecRef.check c rs' s).orElse fun _ => checkStep c m' df' s with
      | some cl => .fail i cl
      | none => checkSteps c (i + 1) m' df' rs' ops ss

/-- The C02 reference checker. -/
def check (c : Case) (o : Obs) : Verdict :=
  match checkSteps c 0 [] [] {} c.ops o.steps with
  | .fail i cl => .fail i cl
  | .ok =>
      if o.panicked then .fail o.steps.length "panic"
      else if o.steps.length ≠ c.ops.length then .fail o.steps.length "observation-misses-steps"
      else .ok

end Rbgp.Rib.SpecC02
