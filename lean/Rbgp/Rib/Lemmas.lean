/-
  Rbgp.Rib.Lemmas — association-list and list facts shared by the per-operation proof files.
-/
import Rbgp.Rib.InvDef
namespace Rbgp.Rib

variable {κ ν : Type} [DecidableEq κ]

/-! ## alookup / aset / aerase -/

theorem alookup_aset_self (k : κ) (v : ν) (l : List (κ × ν)) : alookup k (aset k v l) = some v := by
  induction l with
  | nil => simp [aset, alookup]
  | cons x l ih =>
    obtain ⟨k', v'⟩ := x
    by_cases h : k' = k <;> simp [aset, alookup, h, ih]

theorem alookup_aset_ne {k k' : κ} (h : k' ≠ k) (v : ν) (l : List (κ × ν)) :
    alookup k' (aset k v l) = alookup k' l := by
  induction l with
  | nil => simp [aset, alookup, Ne.symm h]
  | cons x l ih =>
    obtain ⟨k'', v''⟩ := x
    by_cases h1 : k'' = k
    · subst h1; simp [aset, alookup, Ne.symm h]
    · by_cases h2 : k'' = k'
      · subst h2; simp [aset, alookup, h1]
      · simp [aset, alookup, h1, h2, ih]

theorem alookup_some_mem {k : κ} {v : ν} {l : List (κ × ν)} (h : alookup k l = some v) : (k, v) ∈ l := by
  induction l with
  | nil => simp [alookup] at h
  | cons x l ih =>
    obtain ⟨k', v'⟩ := x
    by_cases hk : k' = k
    · subst hk; simp [alookup] at h; subst h; simp
    · simp [alookup, hk] at h; exact List.mem_cons_of_mem _ (ih h)

theorem alookup_none_iff {k : κ} {l : List (κ × ν)} : alookup k l = none ↔ k ∉ l.map (·.1) := by
  induction l with
  | nil => simp [alookup]
  | cons x l ih =>
    obtain ⟨k', v'⟩ := x
    by_cases hk : k' = k
    · subst hk; simp [alookup]
    · have hk' : ¬ k = k' := fun e => hk e.symm
      simp [alookup, hk, hk', ih]

/-- with distinct keys, membership is lookup -/
theorem alookup_of_mem {k : κ} {v : ν} {l : List (κ × ν)} (hn : (l.map (·.1)).Nodup) (h : (k, v) ∈ l) :
    alookup k l = some v := by
  induction l with
  | nil => simp at h
  | cons x l ih =>
    obtain ⟨k', v'⟩ := x
    simp only [List.map_cons, List.nodup_cons] at hn
    rcases List.mem_cons.mp h with h | h
    · cases h; simp [alookup]
    · have : k' ≠ k := by
        intro e; subst e; exact hn.1 (List.mem_map.mpr ⟨(k', v), h, rfl⟩)
      simp [alookup, this, ih hn.2 h]

theorem aset_keys_of_mem {k : κ} (v : ν) {l : List (κ × ν)} (h : k ∈ l.map (·.1)) :
    (aset k v l).map (·.1) = l.map (·.1) := by
  induction l with
  | nil => simp at h
  | cons x l ih =>
    obtain ⟨k', v'⟩ := x
    by_cases hk : k' = k
    · subst hk; simp [aset]
    · have : k ∈ l.map (·.1) := by
        simp only [List.map_cons, List.mem_cons] at h
        rcases h with h | h
        · exact absurd h.symm hk
        · exact h
      simp [aset, hk, ih this]

theorem aset_keys_of_not_mem {k : κ} (v : ν) {l : List (κ × ν)} (h : k ∉ l.map (·.1)) :
    (aset k v l).map (·.1) = l.map (·.1) ++ [k] := by
  induction l with
  | nil => simp [aset]
  | cons x l ih =>
    obtain ⟨k', v'⟩ := x
    simp only [List.map_cons, List.mem_cons, not_or] at h
    have hk : k' ≠ k := fun e => h.1 e.symm
    simp [aset, hk, ih h.2]

theorem aset_keys_nodup {k : κ} (v : ν) {l : List (κ × ν)} (hn : (l.map (·.1)).Nodup) :
    ((aset k v l).map (·.1)).Nodup := by
  by_cases h : k ∈ l.map (·.1)
  · rw [aset_keys_of_mem v h]; exact hn
  · rw [aset_keys_of_not_mem v h]
    rw [List.nodup_append]
    refine ⟨hn, by simp, ?_⟩
    intro a ha b hb
    simp at hb; subst hb
    exact fun e => h (e ▸ ha)

/-- what is in an updated association list -/
theorem mem_aset {k : κ} {v : ν} {l : List (κ × ν)} {x : κ × ν} (hx : x ∈ aset k v l) :
    x = (k, v) ∨ x ∈ l := by
  induction l with
  | nil => simp [aset] at hx; exact Or.inl hx
  | cons y l ih =>
    obtain ⟨k', v'⟩ := y
    by_cases hk : k' = k
    · subst hk
      simp only [aset, if_true, List.mem_cons] at hx
      rcases hx with hx | hx
      · exact Or.inl hx
      · exact Or.inr (List.mem_cons_of_mem _ hx)
    · simp only [aset, hk, if_false, List.mem_cons] at hx
      rcases hx with hx | hx
      · subst hx; exact Or.inr List.mem_cons_self
      · rcases ih hx with h | h
        · exact Or.inl h
        · exact Or.inr (List.mem_cons_of_mem _ h)

/-- with distinct keys the updated list holds exactly one entry for `k` -/
theorem mem_aset_key {k : κ} {v : ν} {l : List (κ × ν)} (hn : (l.map (·.1)).Nodup) {x : κ × ν}
    (hx : x ∈ aset k v l) : x = (k, v) ∨ (x ∈ l ∧ x.1 ≠ k) := by
  rcases mem_aset hx with h | h
  · exact Or.inl h
  · by_cases hk : x.1 = k
    · left
      have h1 := alookup_of_mem (aset_keys_nodup v hn) (show (x.1, x.2) ∈ aset k v l from hx)
      rw [hk, alookup_aset_self] at h1
      cases x; simp_all
    · exact Or.inr ⟨h, hk⟩

theorem mem_aset_self (k : κ) (v : ν) (l : List (κ × ν)) : (k, v) ∈ aset k v l :=
  alookup_some_mem (alookup_aset_self k v l)

theorem mem_aset_of_ne {k : κ} {v : ν} {l : List (κ × ν)} {x : κ × ν} (hx : x ∈ l) (hk : x.1 ≠ k) :
    x ∈ aset k v l := by
  induction l with
  | nil => simp at hx
  | cons y l ih =>
    obtain ⟨k', v'⟩ := y
    by_cases h : k' = k
    · subst h
      rcases List.mem_cons.mp hx with e | hx
      · subst e; exact absurd rfl hk
      · simp [aset, hx]
    · rcases List.mem_cons.mp hx with e | hx
      · subst e; simp [aset, h]
      · simp [aset, h, ih hx]

/-! ## aerase -/

theorem alookup_aerase_ne {k k' : κ} (h : k' ≠ k) (l : List (κ × ν)) :
    alookup k' (aerase k l) = alookup k' l := by
  induction l with
  | nil => simp [aerase]
  | cons x l ih =>
    obtain ⟨k'', v''⟩ := x
    by_cases h1 : k'' = k
    · subst h1; simp [aerase, alookup, Ne.symm h]
    · by_cases h2 : k'' = k'
      · subst h2; simp [aerase, alookup, h1]
      · simp [aerase, alookup, h1, h2, ih]

theorem aerase_sublist (k : κ) (l : List (κ × ν)) : (aerase k l).Sublist l := by
  induction l with
  | nil => simp [aerase]
  | cons x l ih =>
    obtain ⟨k', v'⟩ := x
    by_cases h : k' = k
    · simp [aerase, h]
    · simp [aerase, h, ih]

theorem alookup_aerase_self {k : κ} {l : List (κ × ν)} (hn : (l.map (·.1)).Nodup) :
    alookup k (aerase k l) = none := by
  induction l with
  | nil => simp [aerase, alookup]
  | cons x l ih =>
    obtain ⟨k', v'⟩ := x
    simp only [List.map_cons, List.nodup_cons] at hn
    by_cases h : k' = k
    · subst h; simp only [aerase, if_true]; exact alookup_none_iff.mpr hn.1
    · simp [aerase, alookup, h, ih hn.2]

theorem mem_aerase {k : κ} {l : List (κ × ν)} (hn : (l.map (·.1)).Nodup) {x : κ × ν} :
    x ∈ aerase k l ↔ x ∈ l ∧ x.1 ≠ k := by
  induction l with
  | nil => simp [aerase]
  | cons y l ih =>
    obtain ⟨k', v'⟩ := y
    simp only [List.map_cons, List.nodup_cons] at hn
    by_cases h : k' = k
    · subst h
      simp only [aerase, if_true, List.mem_cons]
      constructor
      · intro hx
        refine ⟨Or.inr hx, ?_⟩
        intro e; exact hn.1 (e ▸ List.mem_map.mpr ⟨x, hx, rfl⟩)
      · rintro ⟨hx | hx, hk⟩
        · subst hx; exact absurd rfl hk
        · exact hx
    · simp only [aerase, h, if_false, List.mem_cons, ih hn.2]
      constructor
      · rintro (hx | hx)
        · subst hx; exact ⟨Or.inl rfl, h⟩
        · exact ⟨Or.inr hx.1, hx.2⟩
      · rintro ⟨hx | hx, hk⟩
        · exact Or.inl hx
        · exact Or.inr ⟨hx, hk⟩

end Rbgp.Rib
