/- IpNet::contains = "the first `mask` bits agree" (C16 theorem contains_iff_cover). -/
import Rbgp.Accept.Model
import Rbgp.Accept.Spec
namespace Rbgp.Accept.ProofsNet
open Rbgp.Accept

/-- numbers below 2^r are equal iff their r low bits are -/
theorem eq_of_bits : ∀ (r a b : Nat), a < 2 ^ r → b < 2 ^ r →
    (∀ j, j < r → a / 2 ^ j % 2 = b / 2 ^ j % 2) → a = b
  | 0, a, b, ha, hb, _ => by simp at ha hb; omega
  | r + 1, a, b, ha, hb, h => by
    have h0 := h 0 (by omega)
    simp at h0
    have ha2 : a / 2 < 2 ^ r := by rw [Nat.pow_succ] at ha; omega
    have hb2 : b / 2 < 2 ^ r := by rw [Nat.pow_succ] at hb; omega
    have := eq_of_bits r (a / 2) (b / 2) ha2 hb2 (by
      intro j hj
      have := h (j + 1) (by omega)
      rw [Nat.div_div_eq_div_mul, Nat.div_div_eq_div_mul]
      rw [Nat.pow_succ, Nat.mul_comm] at this
      exact this)
    omega

/-- bit `t` (0 = most significant) of an octet -/
def obit (x t : Nat) : Bool := x / 2 ^ (7 - t) % 2 = 1

theorem hiMask_and (x r : Nat) (hx : x < 256) (hr1 : 0 < r) (hr : r < 8) :
    x &&& hiMask (8 - r) = x / 2 ^ (8 - r) * 2 ^ (8 - r) := by
  have : ∀ x, x < 256 → ∀ r, r < 8 → 0 < r → x &&& hiMask (8 - r) = x / 2 ^ (8 - r) * 2 ^ (8 - r) := by
    decide +kernel
  exact this x hx r hr hr1

/-- the top `r` bits of two octets agree iff the octets agree after dropping the low `8 - r` bits -/
theorem top_bits (x y r : Nat) (hx : x < 256) (hy : y < 256) (hr : r ≤ 8) :
    x / 2 ^ (8 - r) = y / 2 ^ (8 - r) ↔ ∀ t, t < r → obit x t = obit y t := by
  constructor
  · intro h t ht
    unfold obit
    have e : 7 - t = (8 - r) + (r - 1 - t) := by omega
    rw [e, Nat.pow_add, ← Nat.div_div_eq_div_mul, ← Nat.div_div_eq_div_mul, h]
  · intro h
    have hx' : x / 2 ^ (8 - r) < 2 ^ r := by
      rw [Nat.div_lt_iff_lt_mul (Nat.pow_pos (by omega))]
      rw [← Nat.pow_add]; have : r + (8 - r) = 8 := by omega
      rw [this]; exact hx
    have hy' : y / 2 ^ (8 - r) < 2 ^ r := by
      rw [Nat.div_lt_iff_lt_mul (Nat.pow_pos (by omega))]
      rw [← Nat.pow_add]; have : r + (8 - r) = 8 := by omega
      rw [this]; exact hy
    apply eq_of_bits r _ _ hx' hy'
    intro j hj
    have := h (r - 1 - j) (by omega)
    unfold obit at this
    have e : 7 - (r - 1 - j) = (8 - r) + j := by omega
    rw [e, Nat.pow_add, ← Nat.div_div_eq_div_mul, ← Nat.div_div_eq_div_mul] at this
    have m1 := Nat.mod_two_eq_zero_or_one (x / 2 ^ (8 - r) / 2 ^ j)
    have m2 := Nat.mod_two_eq_zero_or_one (y / 2 ^ (8 - r) / 2 ^ j)
    rcases m1 with m1 | m1 <;> rcases m2 with m2 | m2 <;> simp_all

theorem octet_eq_iff (x y : Nat) (hx : x < 256) (hy : y < 256) :
    x = y ↔ ∀ t, t < 8 → obit x t = obit y t := by
  have := top_bits x y 8 hx hy (by omega)
  simpa using this

theorem masked_eq_iff (x y r : Nat) (hx : x < 256) (hy : y < 256) (hr1 : 0 < r) (hr : r < 8) :
    ((x &&& hiMask (8 - r)) = (y &&& hiMask (8 - r))) ↔ ∀ t, t < r → obit x t = obit y t := by
  rw [hiMask_and x r hx hr1 hr, hiMask_and y r hy hr1 hr, ← top_bits x y r hx hy (by omega)]
  constructor
  · intro h; exact Nat.eq_of_mul_eq_mul_right (Nat.pow_pos (by omega)) h
  · intro h; rw [h]

/-- `cmpFrom` inside the bounds: no panic, and it decides equality of the octets i .. i+n-1 -/
theorem cmpFrom_ok (a b : List Nat) : ∀ (n i : Nat), i + n ≤ a.length → i + n ≤ b.length →
    ∃ r, cmpFrom a b i n = .ok r ∧ (r = true ↔ ∀ j, i ≤ j → j < i + n → a[j]? = b[j]?)
  | 0, i, _, _ => ⟨true, rfl, by simp; intro j h1 h2; omega⟩
  | n + 1, i, ha, hb => by
    have hia : i < a.length := by omega
    have hib : i < b.length := by omega
    simp only [cmpFrom, idx, List.getElem?_eq_getElem hia, List.getElem?_eq_getElem hib, bind, Bind.bind]
    by_cases hne : a[i] = b[i]
    · obtain ⟨r, hr, hiff⟩ := cmpFrom_ok a b n (i + 1) (by omega) (by omega)
      refine ⟨r, ?_, ?_⟩
      · simp [hne, hr, pure]
      · rw [hiff]
        constructor
        · intro h j h1 h2
          by_cases e : j = i
          · subst e; simp [hia, hib, hne]
          · exact h j (by omega) (by omega)
        · intro h j h1 h2; exact h j (by omega) (by omega)
    · refine ⟨false, ?_, ?_⟩
      · simp [hne, pure]
      · simp only [Bool.false_eq_true, false_iff]
        intro h
        have := h i (by omega) (by omega)
        simp [hia, hib] at this
        exact hne this

def bytesOk (l : List Nat) : Prop := ∀ x ∈ l, x < 256

theorem bitAt_eq (bs : List Nat) (i : Nat) (h : i / 8 < bs.length) :
    Spec.bitAt bs i = obit bs[i / 8] (i % 8) := by
  simp [Spec.bitAt, obit, List.getD, List.getElem?_eq_getElem h]

/-- for a well-formed prefix (mask within the address length) `contains` never panics and holds
    exactly when the first `mask` bits agree -/
theorem containsF_cover (a b : List Nat) (mask : Nat) (hlen : a.length = b.length)
    (hm : mask ≤ 8 * a.length) (ha : bytesOk a) (hb : bytesOk b) :
    containsF a b mask = .ok (decide (∀ i, i < mask → Spec.bitAt a i = Spec.bitAt b i)) := by
  unfold containsF
  obtain ⟨w, hw, hiff⟩ := cmpFrom_ok a b (mask / 8) 0 (by omega) (by omega)
  simp only [bind, Bind.bind, hw]
  -- whole octets
  have whole : (w = true) ↔ ∀ i, i < 8 * (mask / 8) → Spec.bitAt a i = Spec.bitAt b i := by
    rw [hiff]
    constructor
    · intro h i hi
      have hj : i / 8 < mask / 8 := by omega
      have hja : i / 8 < a.length := by omega
      have hjb : i / 8 < b.length := by omega
      have := h (i / 8) (by omega) (by omega)
      simp [hja, hjb] at this
      rw [bitAt_eq a i hja, bitAt_eq b i hjb, this]
    · intro h j _ hj
      have hja : j < a.length := by omega
      have hjb : j < b.length := by omega
      simp only [List.getElem?_eq_getElem hja, List.getElem?_eq_getElem hjb, Option.some.injEq]
      rw [octet_eq_iff _ _ (ha _ (List.getElem_mem hja)) (hb _ (List.getElem_mem hjb))]
      intro t ht
      have := h (8 * j + t) (by omega)
      have e1 : (8 * j + t) / 8 = j := by omega
      have e2 : (8 * j + t) % 8 = t := by omega
      rw [bitAt_eq a _ (by omega), bitAt_eq b _ (by omega)] at this
      simpa [e1, e2] using this
  by_cases hwt : w = true
  · subst hwt
    simp only [Bool.not_true, Bool.false_eq_true, if_false]
    have hall := whole.mp rfl
    by_cases hr : mask % 8 > 0
    · have hd : mask / 8 < a.length := by omega
      have hd' : mask / 8 < b.length := by omega
      simp only [hr, if_true, idx, List.getElem?_eq_getElem hd, List.getElem?_eq_getElem hd']
      have hx := ha _ (List.getElem_mem hd)
      have hy := hb _ (List.getElem_mem hd')
      have key := masked_eq_iff a[mask / 8] b[mask / 8] (mask % 8) hx hy hr (by omega)
      have part : ((a[mask / 8] &&& hiMask (8 - mask % 8)) = (b[mask / 8] &&& hiMask (8 - mask % 8))) ↔
          ∀ i, i < mask → Spec.bitAt a i = Spec.bitAt b i := by
        rw [key]
        constructor
        · intro h i hi
          by_cases hlt : i < 8 * (mask / 8)
          · exact hall i hlt
          · have e1 : i / 8 = mask / 8 := by omega
            rw [bitAt_eq a i (by omega), bitAt_eq b i (by omega)]
            simp only [e1]
            exact h (i % 8) (by omega)
        · intro h t ht
          have := h (8 * (mask / 8) + t) (by omega)
          have e1 : (8 * (mask / 8) + t) / 8 = mask / 8 := by omega
          have e2 : (8 * (mask / 8) + t) % 8 = t := by omega
          rw [bitAt_eq a _ (by omega), bitAt_eq b _ (by omega)] at this
          simpa [e1, e2] using this
      by_cases hq : (a[mask / 8] &&& hiMask (8 - mask % 8)) = (b[mask / 8] &&& hiMask (8 - mask % 8))
      · simp only [hq, bne_self_eq_false, Bool.false_eq_true, if_false, pure]
        congr 1; exact (decide_eq_true (part.mp hq)).symm
      · have : ¬ ∀ i, i < mask → Spec.bitAt a i = Spec.bitAt b i := fun h => hq (part.mpr h)
        simp [hq, pure, this]
    · have e : 8 * (mask / 8) = mask := by omega
      rw [e] at hall
      simp only [hr, if_false, pure]
      congr 1; exact (decide_eq_true hall).symm
  · have hwf : w = false := by cases w <;> simp_all
    subst hwf
    have : ¬ ∀ i, i < mask → Spec.bitAt a i = Spec.bitAt b i := by
      intro h
      have : (false = true) := whole.mpr (fun i hi => h i (by omega))
      exact absurd this (by simp)
    simp [pure, this]

theorem covers_eq (n : Net) (a : Ip) :
    Spec.covers n a = (decide (n.bytes.length = a.bytes.length) &&
      decide (∀ i, i < n.mask → Spec.bitAt n.bytes i = Spec.bitAt a.bytes i)) := by
  unfold Spec.covers
  congr 1
  rw [Bool.eq_iff_iff]
  simp [List.all_eq_true, List.mem_range]

end Rbgp.Accept.ProofsNet
