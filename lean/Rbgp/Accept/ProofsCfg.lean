/- Configured-or-inherited parameters and role derivation (C16: params_inherited, role_derivation_spec). -/
import Rbgp.Accept.Proofs
import Rbgp.Accept.ProofsNeg
namespace Rbgp.Accept.ProofsCfg
open Rbgp.Accept Rbgp.Accept.Proofs Rbgp.Accept.ProofsNeg

/-- a neighbour's own settings, read as "what it wants" -/
def wantOfParams (p : Params) : Spec.Want :=
  { expected := p.expected, localAs := p.localAsn, hold := p.hold, rs := p.rs, rrClient := p.rrClient
    fams := p.fams, sm := p.sm, pl := p.pl, gr := p.gr, llgr := p.llgr, pol := p.pol, dyn := p.dyn }

/-- `apply_peer_group` yields, field by field, the neighbour's own setting when it has one and the
    group's otherwise -/
theorem want_applyPeerGroup (p : Params) (g : Group) (hd : p.dyn = false) :
    wantOfParams (applyPeerGroup p g) = Spec.wantStatic p (some g) := by
  simp only [wantOfParams, applyPeerGroup, Spec.wantStatic, DEFAULT_HOLD_TIME, hd]
  congr 1
  · by_cases h1 : p.expected = 0 <;> by_cases h2 : g.asn = 0 <;> simp [h1, h2]
  · by_cases h1 : p.localAsn = 0 <;> by_cases h2 : g.localAsn = 0 <;> simp [h1, h2]
  · by_cases h1 : p.hold = 180 <;> cases g.hold <;> simp [h1]
  · cases p.rs <;> cases g.rs <;> rfl
  · cases p.rrClient <;> cases g.rrClient <;> rfl
  · cases p.fams <;> simp
  · cases p.fams <;> simp
  · cases p.gr <;> simp
  · cases p.llgr <;> simp

theorem want_noGroup (p : Params) (hd : p.dyn = false) : wantOfParams p = Spec.wantStatic p none := by
  simp [wantOfParams, Spec.wantStatic, hd]

theorem want_dynamic (g : Group) (a : Ip) : wantOfParams (paramsOfGroup g a) = Spec.wantDynamic g := by
  simp [wantOfParams, paramsOfGroup, Spec.wantDynamic, DEFAULT_HOLD_TIME]


/-! ### capabilities built from the configuration -/

def mpPart (fm : List (Family × Nat)) : List Cap := fm.map fun e => Cap.mp e.1
def apPart (fm : List (Family × Nat)) : List Cap :=
  if (fm.filter fun e => e.2 > 0).isEmpty then [] else [.addPath (fm.filter fun e => e.2 > 0)]
def enhList (fm : List (Family × Nat)) : List (Family × Nat) :=
  (fm.filter fun e => famAfi e.1 = AFI_IP && e.1 != IPV4_SRPOLICY).map fun e => (e.1, AFI_IP6)
def enhPart (v6 : Bool) (fm : List (Family × Nat)) : List Cap :=
  if v6 && !(enhList fm).isEmpty then [.enh (enhList fm)] else []
def basePart (addr : Ip) (fm : List (Family × Nat)) : List Cap :=
  if fm.isEmpty then [.mp (if addr.isV6 then IPV6 else IPV4)] else mpPart fm ++ apPart fm ++ enhPart addr.isV6 fm
def grPart : Option GrCfg → List Cap
  | some g => [.gr (if g.nbit then 4 else 0) g.time (g.fams.map fun f => (f, 0))]
  | none => []
def llPart : Option LlgrCfg → List Cap
  | some l => [.llgr (l.fams.map fun e => (e.1, 0, e.2))]
  | none => []

theorem buildLocalCap_eq (addr : Ip) (asn : Nat) (fams : List (Family × Nat)) (gr : Option GrCfg) (llgr : Option LlgrCfg) :
    buildLocalCap addr asn fams gr llgr =
      basePart addr (anorm fams) ++ grPart gr ++ llPart llgr ++ [.as4 asn, .extMsg] := by
  unfold buildLocalCap basePart mpPart apPart enhPart enhList grPart llPart
  cases gr <;> cases llgr <;> rfl

-- projections distribute over the parts
theorem capMps_append (a b : List Cap) : Spec.capMps (a ++ b) = Spec.capMps a ++ Spec.capMps b := by simp [Spec.capMps]
theorem capAps_append (a b : List Cap) : Spec.capAps (a ++ b) = Spec.capAps a ++ Spec.capAps b := by simp [Spec.capAps]
theorem capGrs_append (a b : List Cap) : Spec.capGrs (a ++ b) = Spec.capGrs a ++ Spec.capGrs b := by simp [Spec.capGrs]
theorem capLls_append (a b : List Cap) : Spec.capLls (a ++ b) = Spec.capLls a ++ Spec.capLls b := by simp [Spec.capLls]
theorem capEnhs_append (a b : List Cap) : Spec.capEnhs (a ++ b) = Spec.capEnhs a ++ Spec.capEnhs b := by simp [Spec.capEnhs]
theorem capAs4s_append (a b : List Cap) : Spec.capAs4s (a ++ b) = Spec.capAs4s a ++ Spec.capAs4s b := by simp [Spec.capAs4s]
theorem capExts_append (a b : List Cap) : Spec.capExts (a ++ b) = Spec.capExts a + Spec.capExts b := by simp [Spec.capExts]

theorem mpPart_proj (fm : List (Family × Nat)) :
    Spec.capMps (mpPart fm) = fm.map (·.1) ∧ Spec.capAps (mpPart fm) = [] ∧ Spec.capGrs (mpPart fm) = [] ∧
    Spec.capLls (mpPart fm) = [] ∧ Spec.capEnhs (mpPart fm) = [] ∧ Spec.capAs4s (mpPart fm) = [] ∧
    Spec.capExts (mpPart fm) = 0 ∧ (mpPart fm).all Spec.capKnown = true := by
  induction fm with
  | nil => simp [mpPart, Spec.capMps, Spec.capAps, Spec.capGrs, Spec.capLls, Spec.capEnhs, Spec.capAs4s, Spec.capExts]
  | cons a t ih =>
    simp only [mpPart, List.map_cons] at ih ⊢
    obtain ⟨i1, i2, i3, i4, i5, i6, i7, i8⟩ := ih
    simp only [Spec.capMps, Spec.capAps, Spec.capGrs, Spec.capLls, Spec.capEnhs, Spec.capAs4s, Spec.capExts,
      List.filterMap_cons, List.flatMap_cons, List.filter_cons, List.all_cons, Spec.capKnown] at *
    simp [i1, i2, i3, i4, i5, i6, i7, i8]

theorem apPart_proj (fm : List (Family × Nat)) :
    Spec.capMps (apPart fm) = [] ∧ Spec.capAps (apPart fm) = fm.filter (fun e => e.2 > 0) ∧ Spec.capGrs (apPart fm) = [] ∧
    Spec.capLls (apPart fm) = [] ∧ Spec.capEnhs (apPart fm) = [] ∧ Spec.capAs4s (apPart fm) = [] ∧
    Spec.capExts (apPart fm) = 0 ∧ (apPart fm).all Spec.capKnown = true := by
  unfold apPart
  by_cases h : (fm.filter fun e => e.2 > 0).isEmpty = true
  · have h' := List.isEmpty_iff.mp h
    simp [h, h', Spec.capMps, Spec.capAps, Spec.capGrs, Spec.capLls, Spec.capEnhs, Spec.capAs4s, Spec.capExts]
  · simp [h, Spec.capMps, Spec.capAps, Spec.capGrs, Spec.capLls, Spec.capEnhs, Spec.capAs4s, Spec.capExts, Spec.capKnown]

theorem enhPart_proj (v6 : Bool) (fm : List (Family × Nat)) :
    Spec.capMps (enhPart v6 fm) = [] ∧ Spec.capAps (enhPart v6 fm) = [] ∧ Spec.capGrs (enhPart v6 fm) = [] ∧
    Spec.capLls (enhPart v6 fm) = [] ∧ (∀ t ∈ Spec.capEnhs (enhPart v6 fm), v6 = true ∧ t ∈ enhList fm) ∧
    Spec.capAs4s (enhPart v6 fm) = [] ∧ Spec.capExts (enhPart v6 fm) = 0 ∧ (enhPart v6 fm).all Spec.capKnown = true := by
  unfold enhPart
  by_cases h : (v6 && !(enhList fm).isEmpty) = true
  · simp only [h, if_true]
    simp only [Bool.and_eq_true] at h
    simp [Spec.capMps, Spec.capAps, Spec.capGrs, Spec.capLls, Spec.capEnhs, Spec.capAs4s, Spec.capExts, Spec.capKnown, h.1]
  · simp [h, Spec.capMps, Spec.capAps, Spec.capGrs, Spec.capLls, Spec.capEnhs, Spec.capAs4s, Spec.capExts]

theorem grPart_proj (gr : Option GrCfg) :
    Spec.capMps (grPart gr) = [] ∧ Spec.capAps (grPart gr) = [] ∧
    Spec.capGrs (grPart gr) = (match gr with | some g => [((if g.nbit then 4 else 0), g.time, g.fams.map fun f => (f, 0))] | none => []) ∧
    Spec.capLls (grPart gr) = [] ∧ Spec.capEnhs (grPart gr) = [] ∧ Spec.capAs4s (grPart gr) = [] ∧
    Spec.capExts (grPart gr) = 0 ∧ (grPart gr).all Spec.capKnown = true := by
  cases gr <;> simp [grPart, Spec.capMps, Spec.capAps, Spec.capGrs, Spec.capLls, Spec.capEnhs, Spec.capAs4s, Spec.capExts, Spec.capKnown]

theorem llPart_proj (ll : Option LlgrCfg) :
    Spec.capMps (llPart ll) = [] ∧ Spec.capAps (llPart ll) = [] ∧ Spec.capGrs (llPart ll) = [] ∧
    Spec.capLls (llPart ll) = (match ll with | some l => [l.fams.map fun e => (e.1, 0, e.2)] | none => []) ∧
    Spec.capEnhs (llPart ll) = [] ∧ Spec.capAs4s (llPart ll) = [] ∧
    Spec.capExts (llPart ll) = 0 ∧ (llPart ll).all Spec.capKnown = true := by
  cases ll <;> simp [llPart, Spec.capMps, Spec.capAps, Spec.capGrs, Spec.capLls, Spec.capEnhs, Spec.capAs4s, Spec.capExts, Spec.capKnown]

theorem tail_proj (asn : Nat) :
    Spec.capMps [.as4 asn, .extMsg] = [] ∧ Spec.capAps [.as4 asn, .extMsg] = [] ∧ Spec.capGrs [.as4 asn, .extMsg] = [] ∧
    Spec.capLls [.as4 asn, .extMsg] = [] ∧ Spec.capEnhs [.as4 asn, .extMsg] = [] ∧ Spec.capAs4s [.as4 asn, .extMsg] = [asn] ∧
    Spec.capExts [.as4 asn, .extMsg] = 1 ∧ [Cap.as4 asn, Cap.extMsg].all Spec.capKnown = true := by
  simp [Spec.capMps, Spec.capAps, Spec.capGrs, Spec.capLls, Spec.capEnhs, Spec.capAs4s, Spec.capExts, Spec.capKnown]


/-! ### the sorted map versus the configured list -/

theorem keys_foldl {α} (l : List (Nat × α)) (h : List (Nat × α)) (x : Nat) :
    x ∈ (l.foldl (fun h kv => ainsert kv.1 kv.2 h) h).map (·.1) ↔ (x ∈ l.map (·.1) ∨ x ∈ h.map (·.1)) := by
  induction l generalizing h with
  | nil => simp
  | cons a t ih =>
    simp only [List.foldl_cons, ih, mem_keys_ainsert, List.map_cons, List.mem_cons]
    constructor
    · rintro (h1 | h1 | h1)
      · exact Or.inl (Or.inr h1)
      · exact Or.inl (Or.inl h1)
      · exact Or.inr h1
    · rintro ((h1 | h1) | h1)
      · exact Or.inr (Or.inl h1)
      · exact Or.inl h1
      · exact Or.inr (Or.inr h1)

theorem keys_anorm {α} (l : List (Nat × α)) (x : Nat) : x ∈ (anorm l).map (·.1) ↔ x ∈ l.map (·.1) := by
  simp [anorm, keys_foldl]

theorem anorm_isEmpty {α} (l : List (Nat × α)) : (anorm l).isEmpty = l.isEmpty := by
  cases l with
  | nil => rfl
  | cons a t =>
    have : a.1 ∈ (anorm (a :: t)).map (·.1) := (keys_anorm _ _).mpr (by simp)
    cases h : anorm (a :: t) with
    | nil => rw [h] at this; simp at this
    | cons _ _ => rfl

theorem mem_anorm (l : List (Nat × Nat)) (k v : Nat) : (k, v) ∈ anorm l ↔ Spec.lastOf l k = some v := by
  rw [mem_iff_alookup _ (anorm_keys l), alookup_anorm]

theorem lastOf_fold_mem (f : Nat) : ∀ (t : List (Nat × Nat)) (init : Option Nat) (v : Nat),
    List.foldl (fun acc e => if e.1 = f then some e.2 else acc) init t = some v → init = some v ∨ (f, v) ∈ t
  | [], init, v, h => Or.inl h
  | a :: rest, init, v, h => by
    simp only [List.foldl_cons] at h
    rcases lastOf_fold_mem f rest _ v h with e | m
    · by_cases ha : a.1 = f
      · simp only [ha, if_true, Option.some.injEq] at e
        right; subst e
        have : a = (f, a.2) := by cases a; simp_all
        rw [← this]; exact List.mem_cons_self
      · simp only [ha, if_false] at e; exact Or.inl e
    · exact Or.inr (List.mem_cons_of_mem _ m)

theorem lastOf_mem (l : List (Nat × Nat)) (f v : Nat) (h : Spec.lastOf l f = some v) : (f, v) ∈ l := by
  rcases lastOf_fold_mem f l none v h with e | m
  · cases e
  · exact m

theorem fold_no_match (f : Nat) : ∀ (t : List (Nat × Nat)) (i : Option Nat), (∀ e ∈ t, e.1 ≠ f) →
    List.foldl (fun acc e => if e.1 = f then some e.2 else acc) i t = i
  | [], _, _ => rfl
  | b :: t, i, h => by
    simp only [List.foldl_cons, h b List.mem_cons_self, if_false]
    exact fold_no_match f t i (fun e he => h e (List.mem_cons_of_mem _ he))

theorem lastOf_fold_unanimous (f v : Nat) : ∀ (t : List (Nat × Nat)) (init : Option Nat),
    (∃ e ∈ t, e.1 = f) → (∀ e ∈ t, e.1 = f → e.2 = v) →
    List.foldl (fun acc e => if e.1 = f then some e.2 else acc) init t = some v
  | [], _, ⟨e, he, _⟩, _ => by simp at he
  | a :: rest, init, hne, hall => by
    simp only [List.foldl_cons]
    have hall' : ∀ e ∈ rest, e.1 = f → e.2 = v := fun e he => hall e (List.mem_cons_of_mem _ he)
    by_cases hr : ∃ e ∈ rest, e.1 = f
    · exact lastOf_fold_unanimous f v rest _ hr hall'
    · have key : ∀ i, List.foldl (fun acc e => if e.1 = f then some e.2 else acc) i rest = i :=
        fun i => fold_no_match f rest i (fun e he hf => hr ⟨e, he, hf⟩)
      rw [key]
      by_cases h : a.1 = f
      · simp [h]; exact hall a List.mem_cons_self h
      · exfalso
        rcases hne with ⟨x, hx, hxf⟩
        rcases List.mem_cons.mp hx with rfl | hx
        · exact h hxf
        · exact hr ⟨x, hx, hxf⟩

theorem lastOf_unanimous (l : List (Nat × Nat)) (f v : Nat)
    (hne : ∃ e ∈ l, e.1 = f) (hall : ∀ e ∈ l, e.1 = f → e.2 = v) : Spec.lastOf l f = some v :=
  lastOf_fold_unanimous f v l none hne hall

theorem lastOf_isSome (l : List (Nat × Nat)) (f : Nat) (hne : ∃ e ∈ l, e.1 = f) : ∃ v, Spec.lastOf l f = some v := by
  obtain ⟨e, he, hf⟩ := hne
  have : f ∈ (anorm l).map (·.1) := (keys_anorm l f).mpr (List.mem_map.mpr ⟨e, he, hf⟩)
  obtain ⟨⟨k, v⟩, hm, hk⟩ := List.mem_map.mp this
  simp at hk; subst hk
  exact ⟨v, (mem_anorm l k v).mp hm⟩

theorem sameMap_anorm (l : List (Nat × Nat)) : Spec.sameMap l (anorm l) = true := by
  unfold Spec.sameMap
  simp only [Bool.and_eq_true]
  refine ⟨⟨nodupKeys_of_keys _ (anorm_keys l), ?_⟩, ?_⟩
  · rw [List.all_eq_true]; intro e he
    simp only [decide_eq_true_eq]
    exact (mem_anorm l e.1 e.2).mp (by simpa using he)
  · rw [List.all_eq_true]; intro e he
    simp only [List.any_eq_true, decide_eq_true_eq]
    have : e.1 ∈ (anorm l).map (·.1) := (keys_anorm l e.1).mpr (List.mem_map.mpr ⟨e, he, rfl⟩)
    obtain ⟨x, hx, hk⟩ := List.mem_map.mp this
    exact ⟨x, hx, hk⟩

theorem count_one_of_sorted (l : List Nat) (h : l.Pairwise (· < ·)) :
    l.all (fun f => (l.filter (· = f)).length = 1) = true := by
  rw [List.all_eq_true]
  intro e he
  simp only [decide_eq_true_eq]
  induction l with
  | nil => simp at he
  | cons a t ih =>
    have hp := List.pairwise_cons.mp h
    simp only [List.filter_cons]
    rcases List.mem_cons.mp he with rfl | he'
    · simp only [decide_true, if_true, List.length_cons]
      have : List.filter (fun x => decide (x = e)) t = [] := by
        apply List.filter_eq_nil_iff.mpr
        intro x hx; simp
        have := hp.1 x hx; omega
      simp [this]
    · have hne : a ≠ e := by have := hp.1 e he'; omega
      simp only [hne, decide_false, Bool.false_eq_true, if_false]
      exact ih hp.2 he'

/-- the advertised add-path tuples are the configured non-zero modes -/
theorem sameMap_addpath (w : Spec.Want) :
    Spec.sameMap (Spec.wantApOf w) ((anorm w.fams).filter fun e => e.2 > 0) = true := by
  unfold Spec.sameMap
  simp only [Bool.and_eq_true]
  have hk : Keys ((anorm w.fams).filter fun e => e.2 > 0) := by
    have := anorm_keys w.fams
    unfold Keys at this ⊢
    exact this.sublist ((List.filter_sublist).map _)
  -- every entry the spec wants for family f is (f, last configured mode of f)
  have hwant : ∀ e ∈ Spec.wantApOf w, Spec.lastOf w.fams e.1 = some e.2 ∧ e.2 > 0 := by
    intro e he
    simp only [Spec.wantApOf, List.mem_filterMap] at he
    obtain ⟨x, _, hx⟩ := he
    cases hl : Spec.lastOf w.fams x.1 with
    | none => simp [hl] at hx
    | some m =>
      simp only [hl, Option.bind_some] at hx
      by_cases hm : m > 0
      · simp only [hm, if_true, Option.some.injEq] at hx
        subst hx; exact ⟨hl, hm⟩
      · simp [hm] at hx
  refine ⟨⟨nodupKeys_of_keys _ hk, ?_⟩, ?_⟩
  · rw [List.all_eq_true]; intro e he
    simp only [decide_eq_true_eq]
    rw [List.mem_filter] at he
    have hlast := (mem_anorm w.fams e.1 e.2).mp (by simpa using he.1)
    have hpos : e.2 > 0 := by simpa using he.2
    have hx := lastOf_mem _ _ _ hlast
    apply lastOf_unanimous
    · refine ⟨(e.1, e.2), ?_, rfl⟩
      simp only [Spec.wantApOf, List.mem_filterMap]
      exact ⟨(e.1, e.2), hx, by simp [hlast, hpos]⟩
    · intro y hy hyf
      have := (hwant y hy).1
      rw [hyf, hlast] at this
      injection this with this; exact this.symm
  · rw [List.all_eq_true]; intro e he
    simp only [List.any_eq_true, decide_eq_true_eq]
    obtain ⟨h1, h2⟩ := hwant e he
    exact ⟨(e.1, e.2), by rw [List.mem_filter]; exact ⟨(mem_anorm _ _ _).mpr h1, by simpa using h2⟩, rfl⟩


theorem isV6_eq (a : Ip) : a.isV6 = decide (a.bytes.length = 16) := rfl

/-- **advertised capabilities = configured capabilities** for the list `build_local_cap` produces -/
theorem capsOk_build (w : Spec.Want) (addr : Ip) (asn : Nat) :
    Spec.capsOk w addr.isV6 asn (buildLocalCap addr asn w.fams w.gr w.llgr) = true := by
  rw [buildLocalCap_eq]
  obtain ⟨g1, g2, g3, g4, g5, g6, g7, g8⟩ := grPart_proj w.gr
  obtain ⟨l1, l2, l3, l4, l5, l6, l7, l8⟩ := llPart_proj w.llgr
  obtain ⟨t1, t2, t3, t4, t5, t6, t7, t8⟩ := tail_proj asn
  unfold Spec.capsOk
  simp only [capMps_append, capAps_append, capGrs_append, capLls_append, capEnhs_append, capAs4s_append,
    capExts_append, List.all_append, g1, g2, g3, g4, g5, g6, g7, g8, l1, l2, l3, l4, l5, l6, l7, l8,
    t1, t2, t3, t4, t5, t6, t7, t8, List.append_nil, Nat.add_zero, Bool.and_true]
  by_cases hemp : w.fams.isEmpty = true
  · -- no family configured: the neighbour's own address family
    have hfm : (anorm w.fams).isEmpty = true := by rw [anorm_isEmpty]; exact hemp
    have hnil : w.fams = [] := List.isEmpty_iff.mp hemp
    simp only [basePart, hfm, if_true, Spec.cfgFamsOf, hemp]
    simp only [Spec.capMps, Spec.capAps, Spec.capGrs, Spec.capLls, Spec.capEnhs, Spec.capAs4s, Spec.capExts,
      Spec.capKnown, Spec.wantApOf, hnil, IPV4, IPV6, isV6_eq]
    cases hg : w.gr <;> cases hl : w.llgr <;> by_cases hv : addr.bytes.length = 16 <;>
      simp [hv, Spec.sameSet, Spec.sameMap, Spec.nodupKeys, Spec.capKnown]
  · have hfm : (anorm w.fams).isEmpty = false := by
      rw [anorm_isEmpty]; cases h : w.fams.isEmpty <;> simp_all
    have hemp' : w.fams.isEmpty = false := by cases h : w.fams.isEmpty <;> simp_all
    obtain ⟨m1, m2, m3, m4, m5, m6, m7, m8⟩ := mpPart_proj (anorm w.fams)
    obtain ⟨a1, a2, a3, a4, a5, a6, a7, a8⟩ := apPart_proj (anorm w.fams)
    obtain ⟨e1, e2, e3, e4, e5, e6, e7, e8⟩ := enhPart_proj addr.isV6 (anorm w.fams)
    simp only [basePart, hfm, Bool.false_eq_true, if_false, Spec.cfgFamsOf, hemp', capMps_append, capAps_append,
      capGrs_append, capLls_append, capEnhs_append, capAs4s_append, capExts_append, List.all_append,
      m1, m2, m3, m4, m5, m6, m7, m8, a1, a2, a3, a4, a5, a6, a7, a8, e1, e2, e3, e4, e6, e7, e8,
      List.append_nil, List.nil_append, Nat.add_zero, Nat.zero_add, Bool.and_true, Bool.true_and]
    have s1 : Spec.sameSet ((anorm w.fams).map (·.1)) (w.fams.map (·.1)) = true := by
      rw [sameSet_iff]; intro x; exact keys_anorm w.fams x
    have s2 := count_one_of_sorted _ (anorm_keys w.fams)
    have s3 := sameMap_addpath w
    have s4 : (Spec.capEnhs (enhPart addr.isV6 (anorm w.fams))).all
        (fun t => addr.isV6 && t.2 = 2 && t.1 / 65536 = 1 && (w.fams.map (·.1)).contains t.1) = true := by
      rw [List.all_eq_true]; intro t ht
      obtain ⟨hv, hm⟩ := e5 t ht
      simp only [enhList, List.mem_map, List.mem_filter] at hm
      obtain ⟨x, ⟨hx, hc⟩, rfl⟩ := hm
      simp only [Bool.and_eq_true, decide_eq_true_eq, famAfi, AFI_IP] at hc
      have hk : x.1 ∈ w.fams.map (·.1) := (keys_anorm w.fams x.1).mp (List.mem_map.mpr ⟨x, hx, rfl⟩)
      obtain ⟨y, hy, hyk⟩ := List.mem_map.mp hk
      have hafi : x.1 / 65536 = 1 := of_decide_eq_true hc.1
      simp only [hv, AFI_IP6, Bool.true_and, Bool.and_eq_true, decide_eq_true_eq, List.contains_iff_mem, hafi, true_and]
      exact hk
    simp only [s1, s2, s3, s4, Bool.true_and, Bool.and_true]
    cases hg : w.gr <;> cases hl : w.llgr <;> simp


/-! ### the configuration `add_peer` stores -/

def confedIdOk (confed : Option (Nat × List Nat)) : Prop :=
  match confed with | some (id, _) => id ≠ 0 | none => True

theorem confedAdjust_some (asn id : Nat) (members : List Nat) (p : Params) :
    confedAdjust asn (some (id, members)) p =
      if (!members.contains p.expected && p.expected != (if p.localAsn != 0 then p.localAsn else asn)) = true
      then { p with localAsn := id } else p := rfl

theorem confedAdjust_cases (asn : Nat) (confed : Option (Nat × List Nat)) (p : Params) :
    confedAdjust asn confed p = p ∨ ∃ id, confedAdjust asn confed p = { p with localAsn := id } := by
  cases confed with
  | none => exact Or.inl rfl
  | some c =>
    obtain ⟨id, members⟩ := c
    rw [confedAdjust_some]
    by_cases h : (!members.contains p.expected && p.expected != (if p.localAsn != 0 then p.localAsn else asn)) = true
    · rw [if_pos h]; exact Or.inr ⟨id, rfl⟩
    · rw [if_neg h]; exact Or.inl rfl

theorem localAsn_build (asn : Nat) (confed : Option (Nat × List Nat)) (p : Params) (hc : confedIdOk confed) :
    (build (confedAdjust asn confed p) asn).localAsn =
      Spec.presentedAs ⟨asn, 0, confed⟩ (wantOfParams p) := by
  cases confed with
  | none =>
    simp only [build, confedAdjust, Spec.presentedAs, wantOfParams]
    by_cases h : p.localAsn = 0 <;> simp [h]
  | some c =>
    obtain ⟨id, members⟩ := c
    simp only [confedIdOk] at hc
    rw [confedAdjust_some]
    simp only [Spec.presentedAs, wantOfParams]
    by_cases h : (!members.contains p.expected && p.expected != (if p.localAsn != 0 then p.localAsn else asn)) = true
    · rw [if_pos h]
      have h' := h
      simp only [Bool.and_eq_true, Bool.not_eq_true', bne_iff_ne, ne_eq] at h'
      by_cases h0 : p.localAsn = 0 <;> simp_all [build]
    · rw [if_neg h]
      have h' := h
      simp only [Bool.and_eq_true, Bool.not_eq_true', bne_iff_ne, ne_eq, not_and, Classical.not_not] at h'
      by_cases h0 : p.localAsn = 0 <;> simp_all [build] <;> (intro a b; exact absurd (h a) b)

theorem presentedAs_rid (asn r1 r2 : Nat) (confed : Option (Nat × List Nat)) (w : Spec.Want) :
    Spec.presentedAs ⟨asn, r1, confed⟩ w = Spec.presentedAs ⟨asn, r2, confed⟩ w := rfl

/-- **role_derivation_spec**: the role of the stored configuration is the one the configured
    expected AS calls for -/
theorem roleOk_build (asn rid : Nat) (confed : Option (Nat × List Nat)) (p : Params) (hc : confedIdOk confed) :
    Spec.roleOk ⟨asn, rid, confed⟩ (wantOfParams p)
      (peerRole (build (confedAdjust asn confed p) asn) confed) = true := by
  have hl := localAsn_build asn confed p hc
  rw [presentedAs_rid asn 0 rid] at hl
  unfold Spec.roleOk peerRole
  have e1 : (build (confedAdjust asn confed p) asn).rs = p.rs := by
    rcases confedAdjust_cases asn confed p with h | ⟨id, h⟩ <;> rw [h] <;> rfl
  have e2 : (build (confedAdjust asn confed p) asn).expected = p.expected := by
    rcases confedAdjust_cases asn confed p with h | ⟨id, h⟩ <;> rw [h] <;> rfl
  have e3 : (build (confedAdjust asn confed p) asn).rrClient = p.rrClient := by
    rcases confedAdjust_cases asn confed p with h | ⟨id, h⟩ <;> rw [h] <;> rfl
  rw [e1, e2, e3, hl]
  have w1 : (wantOfParams p).rs = p.rs := rfl
  have w2 : (wantOfParams p).expected = p.expected := rfl
  have w3 : (wantOfParams p).rrClient = p.rrClient := rfl
  rw [w1, w2, w3]
  generalize Spec.presentedAs ⟨asn, rid, confed⟩ (wantOfParams p) = pa
  by_cases hrs : p.rs = true
  · simp [hrs]
  · by_cases h0 : p.expected = 0
    · simp [hrs, h0]
    · by_cases heq : p.expected = pa
      · have hne : pa ≠ 0 := by rw [← heq]; exact h0
        cases hrr : p.rrClient <;> simp [hrs, h0, heq, hne, hrr]
      · cases confed with
        | none => simp [hrs, h0, heq]
        | some c =>
          obtain ⟨id, m⟩ := c
          by_cases hm : p.expected ∈ m <;> simp [hrs, h0, heq, hm]

theorem build_fields (asn : Nat) (confed : Option (Nat × List Nat)) (p : Params) :
    let c := build (confedAdjust asn confed p) asn
    c.expected = p.expected ∧ c.hold = p.hold ∧ c.rs = p.rs ∧ c.rrClient = p.rrClient ∧ c.dyn = p.dyn ∧
    c.pol = p.pol ∧ c.pl = anorm p.pl ∧ c.sm = anorm p.sm ∧ c.cluster = p.cluster ∧ c.passive = p.passive ∧
    c.caps = buildLocalCap p.addr c.localAsn p.fams p.gr p.llgr := by
  rcases confedAdjust_cases asn confed p with h | ⟨id, h⟩ <;> rw [h] <;> simp [build]

/-- **params_inherited (stored configuration).**  Every requirement of `Spec.cfgOk` holds for the
    configuration `add_peer` builds from a neighbour's parameters. -/
theorem cfgOk_build (asn rid : Nat) (confed : Option (Nat × List Nat)) (p : Params) (hc : confedIdOk confed) :
    ∀ e ∈ Spec.cfgOk ⟨asn, rid, confed⟩ (wantOfParams p) p.addr.isV6
        (build (confedAdjust asn confed p) asn) (peerRole (build (confedAdjust asn confed p) asn) confed),
      e.1 = true := by
  obtain ⟨f1, f2, f3, f4, f5, f6, f7, f8, _, _, f11⟩ := build_fields asn confed p
  intro e he
  simp only [Spec.cfgOk, List.mem_cons, List.mem_nil_iff, or_false] at he
  have hcaps := capsOk_build (wantOfParams p) p.addr (build (confedAdjust asn confed p) asn).localAsn
  have hw : (wantOfParams p).fams = p.fams ∧ (wantOfParams p).gr = p.gr ∧ (wantOfParams p).llgr = p.llgr := ⟨rfl, rfl, rfl⟩
  rw [hw.1, hw.2.1, hw.2.2, ← f11] at hcaps
  rcases he with rfl | rfl | rfl | rfl | rfl | rfl | rfl | rfl
  · simp [f1, wantOfParams]
  · simp [f2, wantOfParams]
  · exact hcaps
  · simp only [f7]; exact sameMap_anorm p.pl
  · simp only [f8]; exact sameMap_anorm p.sm
  · simp [f6, wantOfParams]
  · simp [f3, f4, f5, wantOfParams]
  · exact roleOk_build asn rid confed p hc

end Rbgp.Accept.ProofsCfg
