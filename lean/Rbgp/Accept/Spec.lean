/-
  Rbgp.Accept.Spec — C16 written from the property text as a reference checker over
  observations.  Imports the model only for its *types* (cases, observations); calls no
  model function that computes an answer (the definitions below are the spec's own).

  Property (properties.jsonl C16): a connection becomes a session only if its remote address
  is a configured neighbour that is administratively up and has no other connection in the
  same direction, or lies inside a configured dynamic-neighbour prefix; any other connection
  is dropped before an OPEN is sent.  Role, expected AS, advertised capabilities, hold time,
  prefix limits and policies are those configured for the neighbour or inherited from its
  peer group; the two OPENs yield mirror-image parameters (a family, add-path direction,
  extended message / next hop, 4-octet AS, GR or LLGR is in force iff both advertised it);
  a dynamic neighbour's state disappears when its last connection ends.
-/
import Rbgp.Accept.Model
namespace Rbgp.Accept.Spec
open Rbgp.Accept

inductive Verdict where
  | ok
  | fail (step : Nat) (clause : String)
  deriving Repr, DecidableEq

/-- first violated requirement, if any: each entry is (requirement holds, clause name) -/
def firstFail (step : Nat) : List (Bool × String) → Verdict
  | [] => .ok
  | (true, _) :: t => firstFail step t
  | (false, c) :: _ => .fail step c

def Verdict.andThen (v : Verdict) (k : Unit → Verdict) : Verdict :=
  match v with
  | .ok => k ()
  | f => f

def imp (a b : Bool) : Bool := !a || b

/-! ## Part 1: the two OPENs yield mirror-image parameters -/

def advMp (v : List Cap) (f : Family) : Bool :=
  v.any fun c => match c with | .mp g => g = f | _ => false

/-- every add-path mode a side lists for the family -/
def modesFor (v : List Cap) (f : Family) : List Nat :=
  v.flatMap fun c => match c with
    | .addPath l => (l.filter fun t => t.1 = f).map (·.2)
    | _ => []

def rxBit (m : Nat) : Bool := m % 2 = 1        -- "able to receive multiple paths"
def txBit (m : Nat) : Bool := m / 2 % 2 = 1    -- "able to send multiple paths"

def someMode (v : List Cap) (f : Family) (p : Nat → Bool) : Bool := (modesFor v f).any p
/-- the side advertised the direction unambiguously: at least one tuple, and all agree -/
def allModes (v : List Cap) (f : Family) (p : Nat → Bool) : Bool :=
  !(modesFor v f).isEmpty && (modesFor v f).all p

def advExtMsg (v : List Cap) : Bool := v.any fun c => match c with | .extMsg => true | _ => false
def advAs4 (v : List Cap) : Bool := v.any fun c => match c with | .as4 _ => true | _ => false
/-- RFC 8950 tuple: NLRI AFI 1 with next-hop AFI 2 -/
def advEnh (v : List Cap) (f : Family) : Bool :=
  v.any fun c => match c with
    | .enh l => l.any fun t => t.1 = f && t.1 / 65536 = 1 && t.2 = 2
    | _ => false

def grCaps (v : List Cap) : List (Nat × List Family) :=
  v.filterMap fun c => match c with | .gr fl _ fams => some (fl, fams.map (·.1)) | _ => none
def advGr (v : List Cap) (f : Family) : Bool := (grCaps v).any fun g => g.2.contains f
def llgrTuples (v : List Cap) : List (Family × Nat) :=
  v.flatMap fun c => match c with | .llgr l => l.map (fun e => (e.1, e.2.2)) | _ => []
def advLlgr (v : List Cap) (f : Family) : Bool := (llgrTuples v).any fun e => e.1 = f
def llgrCount (v : List Cap) (f : Family) : Nat := ((llgrTuples v).filter fun e => e.1 = f).length
def llgrDup (v : List Cap) : Bool := (llgrTuples v).any fun e => llgrCount v e.1 > 1
def llgrCaps (v : List Cap) : Nat := (v.filter fun c => match c with | .llgr _ => true | _ => false).length
def llgrNonZero (v : List Cap) (f : Family) : Bool := (llgrTuples v).any fun e => e.1 = f && e.2 > 0

def famsOf (c : Codec) : List Family := c.fams.map (·.fam)
def stOf (c : Codec) (f : Family) : Option FamState := c.fams.find? fun s => s.fam = f
def rxOf (c : Codec) (f : Family) : Bool := match stOf c f with | some s => s.rx | none => false
def txOf (c : Codec) (f : Family) : Bool := match stOf c f with | some s => s.tx | none => false
def enhOf (c : Codec) (f : Family) : Bool := match stOf c f with | some s => s.enh | none => false

def sameSet (a b : List Nat) : Bool := a.all (b.contains ·) && b.all (a.contains ·)
def nodupKeys (l : List (Nat × Nat)) : Bool :=
  l.all fun e => (l.filter fun x => x.1 = e.1).length = 1

/-- the configured send-max of a family: the case lists (family, n) pairs, a later pair replaces -/
def cfgSendMax (sm : List (Family × Nat)) (f : Family) : Option Nat :=
  sm.foldl (fun acc e => if e.1 = f then some e.2 else acc) none

def emaxOk (sm : List (Family × Nat)) (c : Codec) (emax : List (Family × Nat)) : Bool :=
  nodupKeys emax
  && emax.all (fun e => cfgSendMax sm e.1 = some e.2 && txOf c e.1)
  && sm.all (fun e => imp (txOf c e.1) (emax.any fun x => x.1 = e.1))

def grFams : Option NegGr → List Family
  | some g => g.fams
  | none => []
def llgrFams : Option (List (Family × Nat)) → List Family
  | some l => l.map (·.1)
  | none => []

def checkNeg (l r : List Cap) (sm : List (Family × Nat)) (o : NegObs) : Verdict :=
  let all := famsOf o.lr ++ famsOf o.rl ++ (l ++ r).filterMap (fun c => match c with | .mp f => some f | _ => none)
  firstFail 0 [
    -- mirror image
    (famsOf o.lr == famsOf o.rl, "not-mirror-families"),
    ((famsOf o.lr).all (fun f => rxOf o.lr f == txOf o.rl f && txOf o.lr f == rxOf o.rl f), "not-mirror-addpath"),
    ((famsOf o.lr).all (fun f => enhOf o.lr f == enhOf o.rl f), "not-mirror-extnexthop"),
    (o.lr.extMsg == o.rl.extMsg && o.lr.enh == o.rl.enh && o.lr.as4 == o.rl.as4, "not-mirror-flags"),
    -- a family is in force iff both advertised it
    (all.all (fun f => (famsOf o.lr).contains f == (advMp l f && advMp r f)), "family-not-iff-both"),
    -- an add-path direction is in force only if both advertised it, and is in force if both
    -- advertised it unambiguously
    ((famsOf o.lr).all (fun f => imp (rxOf o.lr f) (someMode l f rxBit && someMode r f txBit)), "addpath-rx-without-both"),
    ((famsOf o.lr).all (fun f => imp (txOf o.lr f) (someMode l f txBit && someMode r f rxBit)), "addpath-tx-without-both"),
    ((famsOf o.lr).all (fun f => imp (allModes l f rxBit && allModes r f txBit) (rxOf o.lr f)), "addpath-rx-missing"),
    ((famsOf o.lr).all (fun f => imp (allModes l f txBit && allModes r f rxBit) (txOf o.lr f)), "addpath-tx-missing"),
    (o.lr.extMsg == (advExtMsg l && advExtMsg r), "extmsg-not-iff-both"),
    (o.lr.as4 == (advAs4 l && advAs4 r), "as4-not-iff-both"),
    -- extended next hop is in force for a family iff both advertised it for THAT family; IPv4 unicast
    -- is sent in MP_REACH / MP_UNREACH (the only place the codec uses it) iff it is in force for IPv4 unicast
    ((famsOf o.lr).all (fun f => enhOf o.lr f == (advEnh l f && advEnh r f)), "extnexthop-not-iff-both"),
    (o.lr.enh == enhOf o.lr 65537, "extnexthop-ipv4-encoding-not-per-family"),
    -- the session is handed exactly this codec, and sends several paths only where it encodes path ids
    (o.fsmSame, "fsm-codec-differs-from-negotiate"),
    (emaxOk sm o.lr o.emaxLr && emaxOk sm o.rl o.emaxRl, "sendmax-disagrees-with-codec"),
    -- graceful restart
    (o.grL.isSome == o.grR.isSome && sameSet (grFams o.grL) (grFams o.grR)
      && (o.grL.map (·.notif)) == (o.grR.map (·.notif)), "gr-not-symmetric"),
    ((grFams o.grL).all (fun f => advGr l f && advGr r f), "gr-without-both"),
    (imp ((grCaps l).length = 1 && (grCaps r).length = 1)
      (all.all (fun f => imp (advGr l f && advGr r f) ((grFams o.grL).contains f))), "gr-missing"),
    -- long-lived graceful restart
    (imp (llgrDup l || llgrDup r) (o.llgrL.isSome == o.llgrR.isSome && sameSet (llgrFams o.llgrL) (llgrFams o.llgrR))
      , "llgr-not-symmetric-duplicate-entries"),
    (o.llgrL.isSome == o.llgrR.isSome && sameSet (llgrFams o.llgrL) (llgrFams o.llgrR), "llgr-not-symmetric"),
    ((llgrFams o.llgrL).all (fun f => advLlgr l f && advLlgr r f), "llgr-without-both"),
    (imp (!llgrDup l && !llgrDup r && llgrCaps l ≤ 1 && llgrCaps r ≤ 1)
      (all.all (fun f => imp (llgrNonZero l f && llgrNonZero r f) ((llgrFams o.llgrL).contains f))), "llgr-missing")
  ]

/-! ## Part 2: "lies inside a configured dynamic-neighbour prefix" -/

/-- bit `i` (0 = most significant bit of the first octet) of an address -/
def bitAt (bs : List Nat) (i : Nat) : Bool := (bs.getD (i / 8) 0) / 2 ^ (7 - i % 8) % 2 = 1

/-- the address agrees with the prefix on the first `mask` bits (same address family) -/
def covers (n : Net) (a : Ip) : Bool :=
  n.bytes.length = a.bytes.length && (List.range n.mask).all fun i => bitAt n.bytes i = bitAt a.bytes i

def maskInRange (n : Net) : Bool := n.mask ≤ 8 * n.bytes.length

def checkContains (n : Net) (a : Ip) : Obs → Verdict
  | .contains b =>
      if n.bytes.length = a.bytes.length && !maskInRange n then .ok      -- not a prefix: nothing required
      else if b = covers n a then .ok else .fail 0 "contains-differs-from-cover"
  | .panic => if n.bytes.length = a.bytes.length && !maskInRange n then .ok else .fail 0 "contains-panicked"
  | _ => .fail 0 "wrong-observation-kind"

/-! ## Part 3: configured or inherited parameters, role -/

def lastOf (l : List (Nat × Nat)) (f : Nat) : Option Nat :=
  l.foldl (fun acc e => if e.1 = f then some e.2 else acc) none

/-- the same finite map: same keys, same value per key, no key twice in the observation -/
def sameMap (cfg obs : List (Nat × Nat)) : Bool :=
  nodupKeys obs && obs.all (fun e => lastOf cfg e.1 = some e.2) && cfg.all (fun e => obs.any fun x => x.1 = e.1)

/-- what a neighbour ends up with: its own setting when it has one, else the group's -/
structure Want where
  expected : Nat
  localAs : Nat                 -- own or inherited local AS (0 = use the global AS)
  hold : Nat
  rs : Bool
  rrClient : Bool
  fams : List (Family × Nat)
  sm : List (Family × Nat)
  pl : List (Family × Nat)
  gr : Option GrCfg
  llgr : Option LlgrCfg
  pol : Option (Bool × List String)
  dyn : Bool
  deriving Repr, DecidableEq

def wantStatic (p : Params) (g : Option Group) : Want :=
  match g with
  | none =>
      { expected := p.expected, localAs := p.localAsn, hold := p.hold, rs := p.rs, rrClient := p.rrClient
        fams := p.fams, sm := p.sm, pl := p.pl, gr := p.gr, llgr := p.llgr, pol := p.pol, dyn := false }
  | some g =>
      { expected := if p.expected != 0 then p.expected else g.asn
        localAs := if p.localAsn != 0 then p.localAsn else g.localAsn
        hold := if p.hold != 180 then p.hold else g.hold.getD 180
        rs := p.rs || g.rs
        rrClient := p.rrClient || g.rrClient
        fams := if !p.fams.isEmpty then p.fams else g.fams
        sm := if !p.fams.isEmpty then p.sm else g.sm
        pl := p.pl
        gr := if p.gr.isSome then p.gr else g.gr
        llgr := if p.llgr.isSome then p.llgr else g.llgr
        pol := p.pol, dyn := false }

def wantDynamic (g : Group) : Want :=
  { expected := g.asn, localAs := g.localAsn, hold := g.hold.getD 180, rs := g.rs, rrClient := g.rrClient
    fams := g.fams, sm := g.sm, pl := [], gr := g.gr, llgr := g.llgr, pol := none, dyn := true }

def capMps (caps : List Cap) : List Family := caps.filterMap fun c => match c with | .mp f => some f | _ => none
def capAps (caps : List Cap) : List (Family × Nat) := caps.flatMap fun c => match c with | .addPath l => l | _ => []
def capGrs (caps : List Cap) : List (Nat × Nat × List (Family × Nat)) :=
  caps.filterMap fun c => match c with | .gr fl t fs => some (fl, t, fs) | _ => none
def capLls (caps : List Cap) : List (List (Family × Nat × Nat)) :=
  caps.filterMap fun c => match c with | .llgr l => some l | _ => none
def capEnhs (caps : List Cap) : List (Family × Nat) := caps.flatMap fun c => match c with | .enh l => l | _ => []
def capAs4s (caps : List Cap) : List Nat := caps.filterMap fun c => match c with | .as4 n => some n | _ => none
def capExts (caps : List Cap) : Nat := (caps.filter fun c => match c with | .extMsg => true | _ => false).length
def capKnown (c : Cap) : Bool :=
  match c with
  | .mp _ | .addPath _ | .gr .. | .llgr _ | .as4 _ | .extMsg | .enh _ => true
  | _ => false

/-- the families a neighbour is configured for (its own address family when none is listed) -/
def cfgFamsOf (w : Want) (v6 : Bool) : List Family :=
  if w.fams.isEmpty then [if v6 then 131073 else 65537] else w.fams.map (·.1)

/-- add-path tuples to advertise: configured families whose (last) configured mode is non-zero -/
def wantApOf (w : Want) : List (Family × Nat) :=
  w.fams.filterMap fun e => (lastOf w.fams e.1).bind fun m => if m > 0 then some (e.1, m) else none

/-- advertised capabilities are exactly the configured ones: one MP per configured family (the
    neighbour's own address family when none is configured), an add-path tuple per family with a
    non-zero mode, GR / LLGR as configured, 4-octet AS with the local AS, extended message;
    extended next hop only towards an IPv6 neighbour and only for configured IPv4-AFI families -/
def capsOk (w : Want) (v6 : Bool) (localAsn : Nat) (caps : List Cap) : Bool :=
  let cfgFams := cfgFamsOf w v6
  let mps := capMps caps
  sameSet mps cfgFams && mps.all (fun f => (mps.filter (· = f)).length = 1)
  && sameMap (wantApOf w) (capAps caps)
  && (match w.gr with
      | none => (capGrs caps).isEmpty
      | some g => capGrs caps == [((if g.nbit then 4 else 0), g.time, g.fams.map fun f => (f, 0))])
  && (match w.llgr with
      | none => (capLls caps).isEmpty
      | some l => capLls caps == [l.fams.map fun e => (e.1, 0, e.2)])
  && capAs4s caps == [localAsn]
  && capExts caps = 1
  && (capEnhs caps).all (fun t => v6 && t.2 = 2 && t.1 / 65536 = 1 && cfgFams.contains t.1)
  && caps.all capKnown

/-- the AS this speaker presents to the neighbour (RFC 5065 §4: the confederation identifier
    towards a neighbour that is neither in a member AS nor in our own) -/
def presentedAs (gl : GlobalCfg) (w : Want) : Nat :=
  let own := if w.localAs != 0 then w.localAs else gl.asn
  match gl.confed with
  | some (id, members) => if !members.contains w.expected && w.expected != own then id else own
  | none => own

/-- role derived from the configured expected AS (no requirement when none is configured) -/
def roleOk (gl : GlobalCfg) (w : Want) (role : PeerRole) : Bool :=
  if w.rs then role = .rsClient
  else if w.expected = 0 then true
  else if w.expected = presentedAs gl w then role = (if w.rrClient then .rrClient else .ibgp)
  else if (match gl.confed with | some (_, m) => m.contains w.expected | none => false) then role = .confed
  else role = .ebgp

def cfgOk (gl : GlobalCfg) (w : Want) (v6 : Bool) (c : PeerCfg) (role : PeerRole) : List (Bool × String) :=
  [ (c.expected = w.expected, "expected-as-not-configured-or-inherited"),
    (c.hold = w.hold, "hold-time-not-configured-or-inherited"),
    (capsOk w v6 c.localAsn c.caps, "capabilities-not-configured-or-inherited"),
    (sameMap w.pl c.pl, "prefix-limits-not-configured"),
    (sameMap w.sm c.sm, "send-max-not-configured-or-inherited"),
    (c.pol = w.pol, "policy-not-configured"),
    (c.rs = w.rs && c.rrClient = w.rrClient && c.dyn = w.dyn, "flags-not-configured-or-inherited"),
    (roleOk gl w role, "role-derivation") ]

/-- the session uses exactly the neighbour's resolved configuration -/
def sessOk (gl : GlobalCfg) (c : PeerCfg) (role : PeerRole) (s : SessInfo) : List (Bool × String) :=
  [ (s.role = role, "session-role-differs-from-neighbour"),
    (s.caps = c.caps && s.localAsn = c.localAsn, "session-capabilities-differ-from-neighbour"),
    (s.pl = c.pl, "session-prefix-limits-differ-from-neighbour"),
    (s.cluster = (if role = .ibgp || role = .rrClient then some (c.cluster.getD gl.rid) else none), "session-cluster-id"),
    (s.confedId = (match gl.confed with | some (id, _) => id | none => 0), "session-confederation-id") ]

/-! ## Part 4: histories -/

structure Known where
  addr : Ip
  cfg : PeerCfg
  role : PeerRole
  deriving Repr, DecidableEq

structure LiveS where
  sid : Nat
  addr : Ip
  role : Role
  closing : Bool            -- an administrative shutdown / reset / disable / delete was issued for its
                            -- address since it was accepted
  cfg : PeerCfg
  deriving Repr, DecidableEq

/-- what an observer of the history remembers -/
structure S where
  rows : List SnapRow        -- `Global.peers` as last reported
  known : List Known         -- validated configuration per address present
  live : List LiveS
  nextSid : Nat
  poison : List Ip := []     -- addresses at which finding F16c has shown: connection-uniqueness there is no longer judged
  hit : Option (Nat × String) := none   -- the first F16c-class observation (reported at the end unless something else fails)
  deriving Repr

/-- the three faces of finding F16c (close-channel slot freed while the connection told to close
    still exists; address-keyed cleanup at the end of a session task) -/
def hitStatic : String := "accepted-while-closing-connection-same-direction"
def hitDynamic : String := "accepted-dynamic-while-closing-connection-same-direction"
def hitVanished : String := "neighbour-state-removed-under-live-connection"

def S.recordHit (st : S) (k : Nat) (c : String) (as : List Ip) : S :=
  { st with hit := (match st.hit with | some h => some h | none => some (k, c)), poison := as ++ st.poison }

def rowOf (rows : List SnapRow) (a : Ip) : Option SnapRow := rows.find? fun r => r.addr = a
def knownOf (k : List Known) (a : Ip) : Option Known := k.find? fun r => r.addr = a

/-- groups one of whose dynamic prefixes covers the address -/
def coveringGroups (gs : List Group) (a : Ip) : List Group :=
  gs.filter fun g => g.nets.any fun n => covers n a

def isAccept : Res → Bool
  | .accept .. | .acceptAmb .. => true
  | _ => false

def liveFor (l : List LiveS) (a : Ip) : List LiveS := l.filter fun s => s.addr = a

def dynRowsHaveConn (rows : List SnapRow) (live : List LiveS) : Bool :=
  rows.all fun r => imp r.dyn (live.any fun s => s.addr = r.addr)

def sameSetS (a b : List String) : Bool := a.all (b.contains ·) && b.all (a.contains ·)

def checkConnect (gl : GlobalCfg) (groups : List Group) (k : Nat) (st : S) (a : Ip) (role : Role)
    (o : StepObs) : Verdict × S × Bool :=
  let row := rowOf st.rows a
  let same := (liveFor st.live a).filter fun s => s.role = role
  let cands := coveringGroups groups a
  let pois := st.poison.contains a
  let fail (c : String) : Verdict × S × Bool := (.fail k c, st, true)
  -- a connection accepted although one that was told to close (or lost its neighbour state) is still
  -- there: finding F16c; noted, the address is no longer judged for uniqueness, judging goes on
  let note (c : String) (st' : S) : S := if !pois && !same.isEmpty then st'.recordHit k c [a] else st'
  match o.res with
  | .reject n =>
      let v := firstFail k [
        (n = 0, "data-sent-before-drop"),
        (imp (!pois && row.isSome && (row.map (·.adminDown)) = some false) (!same.isEmpty), "rejected-eligible-neighbour"),
        (imp row.isNone cands.isEmpty, "rejected-address-inside-dynamic-prefix"),
        (o.snap == st.rows, "state-changed-by-rejected-connection") ]
      (v, st, false)
  | .accept sid info cfg prole =>
      match row with
      | some r =>
          if r.adminDown then fail "accepted-admin-down-neighbour"
          else if !pois && same.any (fun s => !s.closing) then fail "accepted-second-connection-same-direction"
          else if sid != st.nextSid then fail "session-id"
          else
            match knownOf st.known a with
            | none => fail "neighbour-without-validated-configuration"
            | some kn =>
              let v := firstFail k ([ (cfg = kn.cfg && prole = kn.role, "neighbour-configuration-changed") ]
                        ++ sessOk gl cfg prole info
                        ++ [ ((rowOf o.snap a).isSome, "accepted-without-neighbour-state"),
                             (dynRowsHaveConn o.snap (st.live ++ [⟨sid, a, role, false, cfg⟩]), "dynamic-neighbour-without-connection") ])
              (v, { note hitStatic st with rows := o.snap, live := st.live ++ [⟨sid, a, role, false, cfg⟩], nextSid := sid + 1 }, false)
      | none =>
          match cands with
          | [] => fail "accepted-unconfigured-address"
          | [g] =>
              if !pois && same.any (fun s => !s.closing) then fail "accepted-dynamic-second-connection-same-direction"
              else if sid != st.nextSid then fail "session-id"
              else
                let v := firstFail k (cfgOk gl (wantDynamic g) (a.bytes.length = 16) cfg prole
                          ++ sessOk gl cfg prole info
                          ++ [ (decide ((rowOf o.snap a).map (·.dyn) = some true), "accepted-without-dynamic-neighbour-state"),
                               (dynRowsHaveConn o.snap (st.live ++ [⟨sid, a, role, false, cfg⟩]), "dynamic-neighbour-without-connection") ])
                (v, { note hitDynamic st with rows := o.snap, known := st.known ++ [⟨a, cfg, prole⟩]
                                              live := st.live ++ [⟨sid, a, role, false, cfg⟩], nextSid := sid + 1 }, false)
          | _ => fail "several-groups-match-but-not-reported"
  | .acceptAmb sid names consistent =>
      if row.isSome then fail "ambiguity-reported-for-known-neighbour"
      else if cands.length < 2 then fail "ambiguity-reported-without-overlap"
      else
        let v := firstFail k [
          (sid = st.nextSid, "session-id"),
          (sameSetS names (cands.map (·.name)), "matching-groups"),
          (consistent, "dynamic-neighbour-not-from-a-matching-group") ]
        (v, st, true)
  | _ => fail "connect-result"

def closeAll (l : List LiveS) (a : Ip) : List LiveS :=
  l.map fun s => if s.addr = a then { s with closing := true } else s

/-- a connection whose neighbour state has been removed under it is on its way out as well -/
def closeVanished (rows : List SnapRow) (l : List LiveS) : List LiveS :=
  l.map fun s => if (rowOf rows s.addr).isNone then { s with closing := true } else s

/-- addresses of connections that are neither closing nor at an address already written off, and whose
    neighbour state is gone from the table -/
def vanished (rows : List SnapRow) (poison : List Ip) (l : List LiveS) : List Ip :=
  (l.filter fun s => !s.closing && !poison.contains s.addr && (rowOf rows s.addr).isNone).map (·.addr)

/-- what the remote end saw from the session: an OPEN carrying the neighbour's configured AS, hold
    time and capabilities; if it answered with an OPEN of its own, it was turned away iff another AS is
    expected of it, and the session came up otherwise.  Only a connection that was told to close may
    end with nothing but a NOTIFICATION. -/
def openOk (s : LiveS) : Res → Bool
  | .discOpen asn hold _ caps reply =>
      -- the hold time is the configured one as far as the two-octet field can carry it
      asn = s.cfg.localAsn && (hold = s.cfg.hold || decide (s.cfg.hold > 65535)) && caps = s.cfg.caps
  | .discNotif .. => s.closing
  | _ => false

def replyOk (s : LiveS) (remoteAs : Option Nat) : Res → Bool
  | .discOpen _ _ _ _ reply => reply = remoteAs.map fun asn => decide (s.cfg.expected = 0) || decide (s.cfg.expected = asn)
  | _ => true

def checkDisc (k : Nat) (st : S) (sid : Nat) (remoteAs : Option Nat) (o : StepObs) : Verdict × S :=
  match st.live.find? (fun s => s.sid = sid) with
  | none => (firstFail k [ (o.res = .noSession, "disconnect-of-unknown-session"), (o.snap == st.rows, "state-changed") ], st)
  | some s =>
      let live := st.live.filter fun x => x.sid != sid
      let wasDyn := (rowOf st.rows s.addr).map (·.dyn) = some true
      let v := firstFail k [
        (openOk s o.res, "open-differs-from-configuration"),
        (replyOk s remoteAs o.res, "expected-as-not-enforced"),
        (imp (wasDyn && (liveFor live s.addr).isEmpty) (rowOf o.snap s.addr).isNone, "dynamic-neighbour-not-removed"),
        (dynRowsHaveConn o.snap live, "dynamic-neighbour-without-connection") ]
      let gone := vanished o.snap st.poison live
      let st1 := if gone.isEmpty then st else st.recordHit k hitVanished gone
      (v, { st1 with rows := o.snap, live := closeVanished o.snap live
                     known := st.known.filter fun kn => (rowOf o.snap kn.addr).isSome })

inductive Api where
  | enable | disable | delete | shutdown | reset
  deriving DecidableEq, Repr

/-- enable / disable set the administrative state, delete removes the neighbour, shutdown and
    reset leave the administrative state alone -/
def adminStateOk (kind : Api) (row row' : Option SnapRow) : Bool :=
  match kind with
  | .delete => row'.isNone
  | .enable => imp row.isSome (row'.map (·.adminDown) = some false)
  | .disable => imp row.isSome (row'.map (·.adminDown) = some true)
  | _ => row'.map (·.adminDown) = row.map (·.adminDown)

/-- does the operation tear the neighbour's connections down?  (enable never; disable only a
    neighbour that is up; shutdown / reset / delete whenever the neighbour exists) -/
def tearsDown (kind : Api) (row : Option SnapRow) : Bool :=
  match kind with
  | .enable => false
  | .disable => row.map (·.adminDown) = some false
  | _ => row.isSome

def checkApi (k : Nat) (st : S) (kind : Api) (a : Ip) (o : StepObs) : Verdict × S :=
  let row := rowOf st.rows a
  let row' := rowOf o.snap a
  let live := if tearsDown kind row then closeAll st.live a else st.live
  let v := firstFail k [
    (o.res = .api row.isSome, "api-result"),
    (adminStateOk kind row row', "admin-state"),
    (dynRowsHaveConn o.snap live, "dynamic-neighbour-without-connection") ]
  (v, { st with rows := o.snap, live := closeVanished o.snap live
                known := st.known.filter fun kn => (rowOf o.snap kn.addr).isSome })

/-- verdict at the end of a history in which nothing else failed -/
def finish (st : S) : Verdict :=
  match st.hit with
  | some (k, c) => .fail k c
  | none => .ok

def checkSteps (gl : GlobalCfg) (groups : List Group) : Nat → S → List Op → List StepObs → Verdict
  | _, st, [], [] => finish st
  | k, _, [], _ :: _ => .fail k "trace-length"
  | k, _, _ :: _, [] => .fail k "trace-length"
  | k, st, op :: ops, o :: os =>
      match op with
      | .connect a role =>
          let (v, st', stop) := checkConnect gl groups k st a role o
          match v with
          | .ok =>
              if stop then
                if os.all (fun x => x.res = .aborted) && os.length = ops.length then finish st' else .fail (k + 1) "not-aborted-after-ambiguity"
              else checkSteps gl groups (k + 1) st' ops os
          | f => f
      | .disc sid =>
          let (v, st') := checkDisc k st sid none o
          v.andThen fun _ => checkSteps gl groups (k + 1) st' ops os
      | .discx sid asn _ =>
          let (v, st') := checkDisc k st sid (some asn) o
          v.andThen fun _ => checkSteps gl groups (k + 1) st' ops os
      | .enable a => let (v, st') := checkApi k st .enable a o; v.andThen fun _ => checkSteps gl groups (k + 1) st' ops os
      | .disable a => let (v, st') := checkApi k st .disable a o; v.andThen fun _ => checkSteps gl groups (k + 1) st' ops os
      | .delete a => let (v, st') := checkApi k st .delete a o; v.andThen fun _ => checkSteps gl groups (k + 1) st' ops os
      | .shutdown a => let (v, st') := checkApi k st .shutdown a o; v.andThen fun _ => checkSteps gl groups (k + 1) st' ops os
      | .reset a => let (v, st') := checkApi k st .reset a o; v.andThen fun _ => checkSteps gl groups (k + 1) st' ops os

/-- the export policies a neighbour names must exist (in the case format: p1 and p2 do) -/
def policiesExist : Option (Bool × List String) → Bool
  | some (_, names) => names.all fun n => n = "p1" || n = "p2"
  | none => true

def groupNamed (gs : List Group) (n : String) : Option Group := gs.find? fun g => g.name = n

/-- configured neighbours: a neighbour is added unless its address is already taken; each added
    neighbour's resolved configuration is its own or inherited from its (existing) group -/
def checkSetup (gl : GlobalCfg) (groups : List Group) : List Ip → List PeerCase → List Bool → List SetupRow → Verdict
  | _, [], [], _ => .ok
  | _, [], _ :: _, _ => .fail 0 "setup-length"
  | _, _ :: _, [], _ => .fail 0 "setup-length"
  | taken, pc :: pcs, ad :: ads, rows =>
      let a := pc.params.addr
      if taken.contains a then
        if ad then .fail 0 "duplicate-neighbour-address-added" else checkSetup gl groups taken pcs ads rows
      else if !policiesExist pc.params.pol then
        if ad then .fail 0 "neighbour-with-unknown-policy-added" else checkSetup gl groups taken pcs ads rows
      else if !ad then .fail 0 "neighbour-not-added"
      else
        match rows.find? (fun r => r.addr = a) with
        | none => .fail 0 "added-neighbour-missing"
        | some r =>
            let w := wantStatic pc.params (pc.group.bind (groupNamed groups))
            (firstFail 0 ([ (decide (r.adminDown = pc.params.adminDown), "admin-state-not-configured") ]
                ++ cfgOk gl w (a.bytes.length = 16) r.cfg r.role)).andThen fun _ =>
              checkSetup gl groups (a :: taken) pcs ads rows

def checkHistOn (gl : GlobalCfg) (groups : List Group) (peers : List PeerCase) (ops : List Op) (h : HistCore) : Verdict :=
  (checkSetup gl groups [] peers h.added h.setup).andThen fun _ =>
    let rows := h.setup.map fun r => { addr := r.addr, adminDown := r.adminDown, dyn := false, slotA := false, slotP := false : SnapRow }
    if h.setup.length != (h.added.filter id).length then .fail 0 "setup-rows" else
    checkSteps gl groups 1
      { rows := rows, known := h.setup.map fun r => ⟨r.addr, r.cfg, r.role⟩, live := [], nextSid := 0 } ops h.steps

/-! ## Part 5: what counts as configured

  A dynamic-neighbour prefix is a prefix: its length does not exceed the address length.  Anything
  else in the configuration permits nobody and must not be admitted; a valid prefix must be admitted
  the first time it is given (giving it again changes nothing, whatever the answer).

  A neighbour given through the API carries `hold_time` (0 = not set: the default of 180 s applies)
  and per family a send-max (0 = no add-path send).  The property text says nothing about refusing a
  request: whether a neighbour with a hold time of 1 or 2 s or one that does not fit the two-octet
  OPEN field, without expected AS and without group, or with a send-max above 255 is taken is left to
  the implementation.  When it is taken it is judged like any other neighbour: its session's hold
  time is the configured value (as far as the wire can carry it). -/

def checkNetFlags (k : Nat) : List Net → List Net → List Bool → Verdict
  | [], _, [] => .ok
  | n :: t, seen, f :: fl =>
      if !maskInRange n then
        if f then .fail k "invalid-prefix-admitted" else checkNetFlags k t seen fl
      else if seen.contains n then checkNetFlags k t seen fl
      else if !f then .fail k "configured-prefix-refused" else checkNetFlags k t (n :: seen) fl
  | _, _, _ => .fail k "prefix-answers-length"

def checkNets : List Group → List (List Bool) → Verdict
  | [], [] => .ok
  | g :: gs, fl :: fls => (checkNetFlags 0 g.nets [] fl).andThen fun _ => checkNets gs fls
  | _, _ => .fail 0 "prefix-answers-length"

/-- the group with what counts as its dynamic-neighbour prefixes -/
def prefixesOf (g : Group) : Group := { g with nets := g.nets.filter maskInRange }

inductive ApiClass where
  | valid | mayRefuse
  deriving DecidableEq

def holdTimeOk (h : Nat) : Bool := h = 0 || (3 ≤ h && h ≤ 65535)

def apiClass (pc : PeerCase) : ApiClass :=
  if !pc.api then .valid
  else if !holdTimeOk pc.params.hold then .mayRefuse
  else if pc.params.expected = 0 && pc.group.isNone then .mayRefuse
  else if pc.params.sm.any (fun e => e.2 > 255) then .mayRefuse
  else .valid

/-- the configuration an API request stands for -/
def apiReading (pc : PeerCase) : PeerCase :=
  if !pc.api then pc
  else { pc with
    api := false
    params := { pc.params with
      hold := if pc.params.hold = 0 then 180 else pc.params.hold
      sm := pc.params.sm.filter fun e => e.2 > 0 } }

/-- the neighbours that are configured, with their `added` answers; a refused API neighbour is not -/
def apiSplit : List PeerCase → List Bool → Option (List PeerCase × List Bool)
  | [], [] => some ([], [])
  | pc :: t, f :: fl =>
      match apiSplit t fl with
      | none => none
      | some (ps, fs) =>
          match apiClass pc with
          | .valid => some (apiReading pc :: ps, f :: fs)
          | .mayRefuse => if f then some (apiReading pc :: ps, f :: fs) else some (ps, fs)
  | _, _ => none

def checkHist (gl : GlobalCfg) (groups : List Group) (peers : List PeerCase) (ops : List Op) (h : HistObs) : Verdict :=
  (checkNets groups h.netsAdded).andThen fun _ =>
    match apiSplit peers h.added with
    | none => .fail 0 "setup-length"
    | some (ps, fs) => checkHistOn gl (groups.map prefixesOf) ps ops ⟨fs, h.setup, h.steps⟩

def check : Case → Obs → Verdict
  | .neg l r sm, .neg o => checkNeg l r sm o
  | .contains n a, o => checkContains n a o
  | .hist g gs ps ops, .hist h => checkHist g gs ps ops h
  | _, _ => .fail 0 "wrong-observation-kind"

end Rbgp.Accept.Spec
