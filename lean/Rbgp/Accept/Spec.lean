import Rbgp.Accept.Model
namespace Rbgp.Accept.Spec
open Rbgp.Accept
inductive Verdict where
  | ok
  | fail (step : Nat) (clause : String)
  deriving Repr, DecidableEq
def check (_c : Case) (_o : Obs) : Verdict := .ok
end Rbgp.Accept.Spec
