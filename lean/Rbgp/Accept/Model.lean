/-
  Rbgp.Accept.Model — executable model of the code C16 is anchored in
  (import-free: core only).

    packet/src/bgp.rs        IpNet::contains, PeerCodec::negotiate
    daemon/src/fsm.rs        PeerFsm::process (effective send-max of SessionEstablished)
    daemon/src/event/mod.rs  negotiate_gr, negotiate_llgr, Peer::peer_role, Global::add_peer,
                             accept_connection, PeerContext::force_down, apply_disconnect + tail of
                             PeerSession::run
    daemon/src/event/peer.rs PeerParams::{build_local_cap, apply_peer_group, build}
    daemon/src/event/grpc.rs enable/disable/delete/shutdown/reset handlers; the validation in
                             `PeerParams::try_from(&api::Peer)` (AddPeer) and the prefix admission of
                             AddDynamicNeighbor (`IpNet::from_str`, duplicate refusal)

  Hash maps are association lists sorted by key (DESIGN §3); a Rust panic
  (index out of range, unwrap) is the explicit outcome `Out.panic`.
-/
namespace Rbgp.Accept

inductive Out (α : Type) where
  | ok (a : α)
  | panic
  deriving Repr, DecidableEq

instance : Monad Out where
  pure := .ok
  bind x f := match x with
    | .ok a => f a
    | .panic => .panic

/-! ## Families, capabilities -/

/-- `Family(u32)` = afi << 16 | safi. -/
abbrev Family := Nat
def famAfi (f : Family) : Nat := f / 65536
def AFI_IP : Nat := 1
def AFI_IP6 : Nat := 2
def IPV4 : Family := 65537
def IPV6 : Family := 131073
def IPV4_SRPOLICY : Family := 65609

inductive Cap where
  | mp (f : Family)
  | routeRefresh
  | enh (l : List (Family × Nat))
  | extMsg
  | gr (flags time : Nat) (fams : List (Family × Nat))
  | as4 (n : Nat)
  | addPath (l : List (Family × Nat))
  | enhRR
  | llgr (l : List (Family × Nat × Nat))
  | fqdn
  | unknown (code : Nat) (bin : List Nat)
  deriving Repr, DecidableEq

/-! ## Sorted association lists (FnvHashMap) -/

def ainsert {α} (k : Nat) (v : α) : List (Nat × α) → List (Nat × α)
  | [] => [(k, v)]
  | (k', v') :: t =>
      if k < k' then (k, v) :: (k', v') :: t
      else if k = k' then (k, v) :: t
      else (k', v') :: ainsert k v t

def alookup {α} (k : Nat) : List (Nat × α) → Option α
  | [] => none
  | (k', v) :: t => if k = k' then some v else alookup k t

/-- A hash map filled by inserting the pairs in order (later wins). -/
def anorm {α} (l : List (Nat × α)) : List (Nat × α) :=
  l.foldl (fun h kv => ainsert kv.1 kv.2 h) []

/-- Sorted duplicate-free insertion (hash set of families). -/
def fins (k : Nat) : List Nat → List Nat
  | [] => [k]
  | k' :: t => if k < k' then k :: k' :: t else if k = k' then k' :: t else k' :: fins k t
def fsort (l : List Nat) : List Nat := l.foldr fins []

/-! ## PeerCodec::negotiate -/

def mpFams (v : List Cap) : List Family :=
  v.filterMap fun c => match c with | .mp f => some f | _ => none

def addPathTuples (v : List Cap) : List (Family × Nat) :=
  v.flatMap fun c => match c with | .addPath l => l | _ => []

/-- `fc.addpath = *mode` for every tuple in order: the last tuple for the family wins, 0 if none. -/
def lastMode (f : Family) (l : List (Family × Nat)) : Nat :=
  l.foldl (fun acc t => if t.1 = f then t.2 else acc) 0

/-- the third loop of `parse`: some ExtendedNexthop tuple (f, AFI_IP6) with an IPv4-AFI family -/
def enhAdv (f : Family) (v : List Cap) : Bool :=
  v.any fun c => match c with
    | .enh l => l.any fun t => famAfi t.1 = AFI_IP && t.2 = AFI_IP6 && t.1 = f
    | _ => false

structure Raw where
  addpath : Nat
  enh : Bool
  deriving Repr, DecidableEq

/-- the closure `parse` of `negotiate`, read per family -/
def parseCaps (v : List Cap) (f : Family) : Option Raw :=
  if f ∈ mpFams v then some { addpath := lastMode f (addPathTuples v), enh := enhAdv f v } else none

def bit0 (m : Nat) : Bool := m % 2 = 1
def bit1 (m : Nat) : Bool := m / 2 % 2 = 1
def bit2 (m : Nat) : Bool := m / 4 % 2 = 1

structure FamState where
  fam : Family
  rx : Bool
  tx : Bool
  enh : Bool                    -- RFC 8950 extended next hop in force for this family
  deriving Repr, DecidableEq

structure Codec where
  fams : List FamState          -- sorted by family
  extMsg : Bool
  enh : Bool                    -- what the encoder does: IPv4 unicast goes into MP_REACH / MP_UNREACH
  as4 : Bool
  deriving Repr, DecidableEq

def hasExtMsg (v : List Cap) : Bool := v.any fun c => match c with | .extMsg => true | _ => false
def hasAs4 (v : List Cap) : Bool := v.any fun c => match c with | .as4 _ => true | _ => false

/-- families of `parse(remote)` that `lmap` also has -/
def commonFams (l r : List Cap) : List Family :=
  (fsort (mpFams r)).filter fun f => f ∈ mpFams l

def famStateOf (l r : List Cap) (f : Family) : FamState :=
  let la := lastMode f (addPathTuples l)
  let ra := lastMode f (addPathTuples r)
  { fam := f, rx := bit0 la && bit1 ra, tx := bit1 la && bit0 ra, enh := enhAdv f l && enhAdv f r }

def negotiate (l r : List Cap) : Codec :=
  { fams := (commonFams l r).map (famStateOf l r)
    extMsg := hasExtMsg l && hasExtMsg r
    enh := decide (IPV4 ∈ commonFams l r) && (enhAdv IPV4 l && enhAdv IPV4 r)
    as4 := hasAs4 l && hasAs4 r }

def Codec.state (c : Codec) (f : Family) : Option FamState := c.fams.find? fun s => s.fam = f
def Codec.tx (c : Codec) (f : Family) : Bool :=
  match c.state f with | some s => s.tx | none => false

/-- `PeerFsm::process`, SessionEstablished arm (as repaired for S26): the configured
    send-max restricted to the families for which the negotiated codec sends path ids. -/
def effectiveMax (sm : List (Family × Nat)) (l r : List Cap) : List (Family × Nat) :=
  (anorm sm).filter fun e => (negotiate l r).tx e.1

/-! ## negotiate_gr / negotiate_llgr -/

structure NegGr where
  fams : List Family
  time : Nat
  notif : Bool
  deriving Repr, DecidableEq

def firstGr : List Cap → Option (Nat × Nat × List (Family × Nat))
  | [] => none
  | .gr fl t fs :: _ => some (fl, t, fs)
  | _ :: rest => firstGr rest

def negotiateGr (l r : List Cap) : Option NegGr :=
  match firstGr l with
  | none => none
  | some (lf, _, lfams) =>
    match firstGr r with
    | none => none
    | some (pf, pt, pfams) =>
      let neg := (lfams.map (·.1)).filter fun f => pfams.any fun p => p.1 = f
      if neg.isEmpty then none
      else some { fams := neg, time := pt, notif := bit2 lf && bit2 pf }

def firstLlgr : List Cap → Option (List (Family × Nat × Nat))
  | [] => none
  | .llgr l :: _ => some l
  | _ :: rest => firstLlgr rest

def llgrEntry (peer : List (Family × Nat × Nat)) (e : Family × Nat × Nat) : Option (Family × Nat) :=
  match peer.find? (fun p => p.1 = e.1) with
  | none => none
  | some p =>
    let stale := if p.2.2 > 0 then p.2.2 else e.2.2
    if stale = 0 then none else some (p.1, stale)

/-- `local_families[..i].iter().any(|(f, _)| f == local_f)` → skip: a family listed twice counts
    once, by its first tuple (`seen` = the families of the tuples already walked) -/
def firstTuples : List (Family × Nat × Nat) → List Family → List (Family × Nat × Nat)
  | [], _ => []
  | e :: t, seen => if seen.contains e.1 then firstTuples t seen else e :: firstTuples t (e.1 :: seen)

def negotiateLlgr (l r : List Cap) : Option (List (Family × Nat)) :=
  match firstLlgr l with
  | none => none
  | some lf =>
    match firstLlgr r with
    | none => none
    | some pf =>
      let fams := (firstTuples lf []).filterMap (llgrEntry pf)
      if fams.isEmpty then none else some fams

/-! ## IpNet::contains -/

structure Ip where
  bytes : List Nat          -- 4 (IPv4) or 16 (IPv6) octets
  deriving Repr, DecidableEq

structure Net where
  bytes : List Nat
  mask : Nat                -- u8
  deriving Repr, DecidableEq

def idx (l : List Nat) (i : Nat) : Out Nat :=
  match l[i]? with
  | some x => .ok x
  | none => .panic

/-- `for i in 0..div { if a[i] != b[i] { return false } }` from index `i` on; `none` = fell through -/
def cmpFrom (a b : List Nat) (i : Nat) : Nat → Out Bool
  | 0 => .ok true
  | n + 1 => do
      let x ← idx a i
      let y ← idx b i
      if x != y then pure false else cmpFrom a b (i + 1) n

/-- `0xff >> bit << bit` in u8 -/
def hiMask (bit : Nat) : Nat := ((255 >>> bit) <<< bit) % 256

/-- the closure `f` of `IpNet::contains` (with the partial octet masked on both sides) -/
def containsF (a b : List Nat) (mask : Nat) : Out Bool := do
  let div := mask / 8
  let whole ← cmpFrom a b 0 div
  if !whole then pure false
  else
    let r := mask % 8
    if r > 0 then
      let bit := 8 - r
      let m := hiMask bit
      let x ← idx a div
      let y ← idx b div
      if (x &&& m) != (y &&& m) then pure false else pure true
    else pure true

def Net.contains (n : Net) (a : Ip) : Out Bool :=
  if n.bytes.length = a.bytes.length then containsF n.bytes a.bytes n.mask else .ok false

/-! ## Configuration -/

structure GrCfg where
  time : Nat
  nbit : Bool
  fams : List Family
  deriving Repr, DecidableEq

structure LlgrCfg where
  fams : List (Family × Nat)
  deriving Repr, DecidableEq

structure Group where
  name : String
  asn : Nat
  localAsn : Nat
  hold : Option Nat
  passive : Bool
  rs : Bool
  rrClient : Bool
  cluster : Option Nat
  fams : List (Family × Nat)
  sm : List (Family × Nat)
  gr : Option GrCfg
  llgr : Option LlgrCfg
  nets : List Net
  deriving Repr, DecidableEq

/-- `PeerParams` (fields the property speaks about) -/
structure Params where
  addr : Ip
  expected : Nat
  localAsn : Nat
  hold : Nat
  passive : Bool
  rs : Bool
  rrClient : Bool
  cluster : Option Nat
  adminDown : Bool
  dyn : Bool                       -- delete_on_disconnected
  fams : List (Family × Nat)
  sm : List (Family × Nat)
  pl : List (Family × Nat)
  gr : Option GrCfg
  llgr : Option LlgrCfg
  pol : Option (Bool × List String) -- per-neighbour export policy: (default accept?, policy names)
  deriving Repr, DecidableEq

def DEFAULT_HOLD_TIME : Nat := 180

/-- `PeerParams::apply_peer_group`: a sequence of independent per-field fallbacks (every guard
    reads only the field it may overwrite, so the statement order does not matter) -/
def applyPeerGroup (p : Params) (g : Group) : Params :=
  { p with
    expected := if p.expected = 0 && g.asn != 0 then g.asn else p.expected
    localAsn := if p.localAsn = 0 && g.localAsn != 0 then g.localAsn else p.localAsn
    hold := if p.hold = DEFAULT_HOLD_TIME then (match g.hold with | some h => h | none => p.hold) else p.hold
    fams := if p.fams.isEmpty then g.fams else p.fams
    sm := if p.fams.isEmpty then g.sm else p.sm
    gr := if p.gr.isNone then g.gr else p.gr
    llgr := if p.llgr.isNone then g.llgr else p.llgr
    passive := if !p.passive && g.passive then true else p.passive
    rs := if !p.rs && g.rs then true else p.rs
    rrClient := if !p.rrClient && g.rrClient then g.rrClient else p.rrClient
    cluster := if !p.rrClient && g.rrClient then g.cluster else p.cluster }

def Ip.isV6 (a : Ip) : Bool := a.bytes.length = 16

/-- `PeerParams::build_local_cap` (capabilities in canonical order: the hash-ordered
    parts sorted by family) -/
def buildLocalCap (addr : Ip) (localAsn : Nat) (fams : List (Family × Nat))
    (gr : Option GrCfg) (llgr : Option LlgrCfg) : List Cap :=
  let fm := anorm fams
  let base : List Cap :=
    if fm.isEmpty then [.mp (if addr.isV6 then IPV6 else IPV4)]
    else
      let mps := fm.map fun e => Cap.mp e.1
      let ap := fm.filter fun e => e.2 > 0
      let apc : List Cap := if ap.isEmpty then [] else [.addPath ap]
      let enhf := (fm.filter fun e => famAfi e.1 = AFI_IP && e.1 != IPV4_SRPOLICY).map fun e => (e.1, AFI_IP6)
      let enhc : List Cap := if addr.isV6 && !enhf.isEmpty then [.enh enhf] else []
      mps ++ apc ++ enhc
  let grc : List Cap := match gr with
    | some g => [.gr (if g.nbit then 4 else 0) g.time (g.fams.map fun f => (f, 0))]
    | none => []
  let llc : List Cap := match llgr with
    | some l => [.llgr (l.fams.map fun e => (e.1, 0, e.2))]
    | none => []
  base ++ grc ++ llc ++ [.as4 localAsn, .extMsg]

inductive PeerRole where
  | ebgp | ibgp | rrClient | rsClient | confed
  deriving Repr, DecidableEq

/-- resolved `PeerConfig` (+ the send-max handed to `PeerFsm::new`, + the export policy override) -/
structure PeerCfg where
  expected : Nat
  localAsn : Nat
  hold : Nat
  passive : Bool
  rs : Bool
  rrClient : Bool
  cluster : Option Nat
  dyn : Bool
  caps : List Cap
  sm : List (Family × Nat)
  pl : List (Family × Nat)
  pol : Option (Bool × List String)
  deriving Repr, DecidableEq

/-- `PeerParams::build` -/
def build (p : Params) (globalAsn : Nat) : PeerCfg :=
  let localAsn := if p.localAsn = 0 then globalAsn else p.localAsn
  { expected := p.expected, localAsn := localAsn, hold := p.hold, passive := p.passive, rs := p.rs
    rrClient := p.rrClient, cluster := p.cluster, dyn := p.dyn
    caps := buildLocalCap p.addr localAsn p.fams p.gr p.llgr
    sm := anorm p.sm, pl := anorm p.pl, pol := p.pol }

/-- `Peer::peer_role` (and the identical derivation inside `accept_connection`) -/
def peerRole (c : PeerCfg) (confed : Option (Nat × List Nat)) : PeerRole :=
  if c.rs then .rsClient
  else if c.localAsn != 0 && c.expected = c.localAsn then
    if c.rrClient then .rrClient else .ibgp
  else if (match confed with | some (_, members) => members.contains c.expected | none => false) then .confed
  else .ebgp

/-! ## Global state, sessions -/

inductive Role where
  | active | passive
  deriving Repr, DecidableEq

inductive Doom where
  | admin        -- CloseReason::AdminShutdown
  | deconf       -- CloseReason::SendMessage(Cease / peer de-configured)
  deriving Repr, DecidableEq

/-- the two close-channel slots of one `ConnArbiter`; a slot holds the id of the session
    whose `close_tx` sits there -/
structure Ctx where
  slotA : Option Nat := none
  slotP : Option Nat := none
  deriving Repr, DecidableEq

def Ctx.get (c : Ctx) : Role → Option Nat
  | .active => c.slotA
  | .passive => c.slotP
def Ctx.set (c : Ctx) (r : Role) (v : Option Nat) : Ctx :=
  match r with
  | .active => { c with slotA := v }
  | .passive => { c with slotP := v }

structure Peer where
  cfg : PeerCfg
  adminDown : Bool
  ctx : Nat                 -- index of its PeerContext / ConnArbiter
  deriving Repr, DecidableEq

/-- a `PeerSession` that exists (accepted, its task not yet finished) -/
structure Sess where
  sid : Nat
  addr : Ip
  role : Role
  ctx : Nat
  doom : Option Doom        -- a close reason is waiting in its `close_rx`
  asn : Nat                 -- what its arbiter's PeerFsm puts into the OPEN
  expected : Nat            -- the AS its arbiter's PeerFsm insists on (0 = any)
  hold : Nat
  caps : List Cap
  deriving Repr, DecidableEq

structure St where
  asn : Nat
  rid : Nat
  confed : Option (Nat × List Nat)
  groups : List Group
  peers : List (Ip × Peer)  -- unique keys
  ctxs : List Ctx
  live : List Sess
  nextSid : Nat
  deriving Repr

def plookup (a : Ip) : List (Ip × Peer) → Option Peer
  | [] => none
  | (k, v) :: t => if k = a then some v else plookup a t
def perase (a : Ip) : List (Ip × Peer) → List (Ip × Peer)
  | [] => []
  | (k, v) :: t => if k = a then perase a t else (k, v) :: perase a t
def pset (a : Ip) (p : Peer) : List (Ip × Peer) → List (Ip × Peer)
  | [] => []
  | (k, v) :: t => if k = a then (k, p) :: t else (k, v) :: pset a p t

def St.ctx (st : St) (i : Nat) : Ctx := (st.ctxs[i]?).getD {}
def St.setCtx (st : St) (i : Nat) (c : Ctx) : St := { st with ctxs := st.ctxs.set i c }

/-- first step of `Global::add_peer`: towards a neighbour that is neither in a member AS nor in
    our own AS the confederation identifier is the local AS (RFC 5065 §4) -/
def confedAdjust (asn : Nat) (confed : Option (Nat × List Nat)) (p : Params) : Params :=
  let own := if p.localAsn != 0 then p.localAsn else asn
  match confed with
  | some (id, members) =>
      if !members.contains p.expected && p.expected != own then { p with localAsn := id } else p
  | none => p

/-- the policies that exist in the policy table of a history (convention of the case format) -/
def knownPolicies : List String := ["p1", "p2"]

/-- `PolicyTable::build_assignment`: every named policy must exist -/
def polOk : Option (Bool × List String) → Bool
  | some (_, names) => names.all fun n => knownPolicies.contains n
  | none => true

/-- `Global::add_peer` (None = Err: address already there, or a named export policy does not exist) -/
def addPeer (st : St) (p : Params) : Option St :=
  if (plookup p.addr st.peers).isSome then none
  else if !polOk p.pol then none
  else
    let cfg := build (confedAdjust st.asn st.confed p) st.asn
    some { st with
      peers := st.peers ++ [(p.addr, { cfg := cfg, adminDown := p.adminDown, ctx := st.ctxs.length })]
      ctxs := st.ctxs ++ [{}] }

/-- the `PeerParams` literal of `accept_connection` for a dynamic neighbour -/
def paramsOfGroup (g : Group) (addr : Ip) : Params :=
  { addr := addr, expected := g.asn, localAsn := g.localAsn
    hold := g.hold.getD DEFAULT_HOLD_TIME, passive := g.passive, rs := g.rs
    rrClient := g.rrClient, cluster := g.cluster, adminDown := false, dyn := true
    fams := g.fams, sm := g.sm, pl := [], gr := g.gr, llgr := g.llgr, pol := none }

/-- groups (by name, sorted, distinct) with a dynamic prefix containing the address -/
def netsContain : List Net → Ip → Out Bool
  | [], _ => .ok false
  | n :: t, a => do
      let c ← n.contains a
      if c then pure true else netsContain t a

def matching : List Group → Ip → Out (List Group)
  | [], _ => .ok []
  | g :: t, a => do
      let c ← netsContain g.nets a
      let rest ← matching t a
      pure (if c then g :: rest else rest)

/-- what the session is given (`PeerResources` / `PeerExportContext`) -/
structure SessInfo where
  role : PeerRole
  localAsn : Nat
  caps : List Cap
  pl : List (Family × Nat)
  cluster : Option Nat
  confedId : Nat
  restarting : Bool
  deriving Repr, DecidableEq

inductive Res where
  | accept (sid : Nat) (info : SessInfo) (cfg : PeerCfg) (role : PeerRole)
  | acceptAmb (sid : Nat) (groups : List String) (consistent : Bool)
  | reject (bytesSent : Nat)
  | discOpen (asn hold rid : Nat) (caps : List Cap) (reply : Option Bool)
  | discNotif (code sub : Nat)
  | noSession
  | api (found : Bool)
  | aborted
  deriving Repr, DecidableEq

def clusterOf (role : PeerRole) (cfg : PeerCfg) (rid : Nat) : Option Nat :=
  match role with
  | .ibgp | .rrClient => some (cfg.cluster.getD rid)
  | _ => none

def confedIdOf : Option (Nat × List Nat) → Nat
  | some (id, _) => id
  | none => 0

/-- second half of `accept_connection`: register the close channel, build the session -/
def openSession (st : St) (addr : Ip) (p : Peer) (role : Role) : St × Res :=
  let sid := st.nextSid
  let st := st.setCtx p.ctx ((st.ctx p.ctx).set role (some sid))
  let pr := peerRole p.cfg st.confed
  let info : SessInfo :=
    { role := pr, localAsn := p.cfg.localAsn, caps := p.cfg.caps, pl := p.cfg.pl
      cluster := clusterOf pr p.cfg st.rid
      confedId := confedIdOf st.confed
      restarting := false }
  let s : Sess := { sid := sid, addr := addr, role := role, ctx := p.ctx, doom := none
                    asn := p.cfg.localAsn, expected := p.cfg.expected, hold := p.cfg.hold, caps := p.cfg.caps }
  ({ st with live := st.live ++ [s], nextSid := sid + 1 }, .accept sid info p.cfg pr)

def groupNames (gs : List Group) : List String := gs.map (·.name)

/-- insertion sort of names, duplicates removed -/
def sins (k : String) : List String → List String
  | [] => [k]
  | k' :: t => if k < k' then k :: k' :: t else if k = k' then k' :: t else k' :: sins k t
def ssort (l : List String) : List String := l.foldr sins []

/-- `accept_connection`.  Second component `true` = the history is abandoned (several
    groups match: which one the real code takes is hash order, see DESIGN §4.0). -/
def acceptConnection (st : St) (addr : Ip) (role : Role) : Out (St × Res × Bool) :=
  match plookup addr st.peers with
  | some p =>
      if p.adminDown then .ok (st, .reject 0, false)
      else if ((st.ctx p.ctx).get role).isSome then .ok (st, .reject 0, false)
      else let (st', r) := openSession st addr p role; .ok (st', r, false)
  | none => do
      let cands ← matching st.groups addr
      match cands with
      | [] => pure (st, .reject 0, false)
      | [g] =>
          match addPeer st (paramsOfGroup g addr) with
          | none => .panic
          | some st1 =>
            match plookup addr st1.peers with
            | none => .panic
            | some p => let (st', r) := openSession st1 addr p role; pure (st', r, false)
      | _ => pure (st, .acceptAmb st.nextSid (ssort (groupNames cands)) true, true)

def doomSess (live : List Sess) (sid : Option Nat) (d : Doom) : List Sess :=
  match sid with
  | none => live
  | some i => live.map fun s => if s.sid = i then { s with doom := some d } else s

/-- `PeerContext::force_down`: both close senders are taken and fired -/
def forceDown (st : St) (ctx : Nat) (d : Doom) : St :=
  let c := st.ctx ctx
  let live := doomSess (doomSess st.live c.slotA d) c.slotP d
  { (st.setCtx ctx {}) with live := live }

/-- what the remote end sees from a session task: the OPEN built from the neighbour's configuration
    (or, when a close reason was already waiting, only the NOTIFICATION); when the remote end answers
    with an OPEN of its own (`reply = some its AS`): `some false` = turned away with "bad peer AS"
    because a different AS is expected, `some true` = KEEPALIVE, session Established -/
def firstSeen (s : Sess) (rid : Nat) (reply : Option Nat) : Res :=
  match s.doom with
  | some .admin => Res.discNotif 6 2
  | some .deconf => Res.discNotif 6 3
  | none => Res.discOpen s.asn s.hold rid s.caps (reply.map fun asn => s.expected = 0 || s.expected = asn)

/-- the session task from `run` to its end: what the remote end sees first, then
    `apply_disconnect` and the tail of `PeerSession::run` -/
def disconnect (st : St) (sid : Nat) (reply : Option Nat) : St × Res :=
  match st.live.find? (fun s => s.sid = sid) with
  | none => (st, .noSession)
  | some s =>
    let first := firstSeen s st.rid reply
    -- apply_disconnect: the close slot of this role is cleared, whoever's sender is there
    let c := (st.ctx s.ctx).set s.role none
    let st := st.setCtx s.ctx c
    let noSessions := c.slotA.isNone && c.slotP.isNone
    let st := { st with live := st.live.filter fun x => x.sid != sid }
    -- tail of run: keyed by address
    match plookup s.addr st.peers with
    | some p =>
        if noSessions then
          if p.cfg.dyn then ({ st with peers := perase s.addr st.peers }, first)
          else (st.setCtx p.ctx {}, first)        -- clear_session_state
        else (st, first)
    | none => (st, first)

inductive Op where
  | connect (a : Ip) (r : Role)
  | disc (sid : Nat)
  | discx (sid asn hold : Nat)
  | enable (a : Ip)
  | disable (a : Ip)
  | delete (a : Ip)
  | shutdown (a : Ip)
  | reset (a : Ip)
  deriving Repr, DecidableEq

def apiOp (st : St) (a : Ip) (f : St → Peer → St) : St × Res :=
  match plookup a st.peers with
  | some p => (f st p, .api true)
  | none => (st, .api false)

def step (st : St) : Op → Out (St × Res × Bool)
  | .connect a r => acceptConnection st a r
  | .disc sid => let (st', r) := disconnect st sid none; .ok (st', r, false)
  | .discx sid asn _ => let (st', r) := disconnect st sid (some asn); .ok (st', r, false)
  | .enable a =>
      let (st', r) := apiOp st a fun st p =>
        if p.adminDown then { st with peers := pset a { p with adminDown := false } st.peers } else st
      .ok (st', r, false)
  | .disable a =>
      let (st', r) := apiOp st a fun st p =>
        if !p.adminDown then
          forceDown { st with peers := pset a { p with adminDown := true } st.peers } p.ctx .admin
        else st
      .ok (st', r, false)
  | .shutdown a =>
      let (st', r) := apiOp st a fun st p => forceDown st p.ctx .admin
      .ok (st', r, false)
  | .reset a =>
      let (st', r) := apiOp st a fun st p => forceDown st p.ctx .deconf
      .ok (st', r, false)
  | .delete a =>
      let (st', r) := apiOp st a fun st p => forceDown { st with peers := perase a st.peers } p.ctx .deconf
      .ok (st', r, false)

/-- one row of `Global.peers` as the harness reports it after every step -/
structure SnapRow where
  addr : Ip
  adminDown : Bool
  dyn : Bool
  slotA : Bool
  slotP : Bool
  deriving Repr, DecidableEq

/-- order in which the harness lists `Global.peers`: IPv4 before IPv6, then by octets -/
def lexLt : List Nat → List Nat → Bool
  | [], [] => false
  | [], _ :: _ => true
  | _ :: _, [] => false
  | x :: xs, y :: ys => if x < y then true else if y < x then false else lexLt xs ys
def ipLt (a b : Ip) : Bool :=
  if a.bytes.length < b.bytes.length then true
  else if b.bytes.length < a.bytes.length then false
  else lexLt a.bytes b.bytes

def insBy {α} (key : α → Ip) (x : α) : List α → List α
  | [] => [x]
  | y :: t => if ipLt (key x) (key y) then x :: y :: t else y :: insBy key x t
def sortBy {α} (key : α → Ip) (l : List α) : List α := l.foldr (insBy key) []

def snapRow (st : St) (e : Ip × Peer) : SnapRow :=
  let c := st.ctx e.2.ctx
  { addr := e.1, adminDown := e.2.adminDown, dyn := e.2.cfg.dyn
    slotA := c.slotA.isSome, slotP := c.slotP.isSome }

def snapshot (st : St) : List SnapRow := sortBy (·.addr) (st.peers.map (snapRow st))

structure StepObs where
  res : Res
  snap : List SnapRow
  deriving Repr, DecidableEq

def runOps (st : St) : List Op → Out (List StepObs)
  | [] => .ok []
  | op :: rest => do
      let (st', r, abort) ← step st op
      if abort then
        pure ({ res := r, snap := [] } :: rest.map fun _ => { res := .aborted, snap := [] })
      else
        let tl ← runOps st' rest
        pure ({ res := r, snap := snapshot st' } :: tl)

structure GlobalCfg where
  asn : Nat
  rid : Nat
  confed : Option (Nat × List Nat)
  deriving Repr, DecidableEq

structure PeerCase where
  params : Params
  group : Option String
  /-- the neighbour is added with the AddPeer request (`PeerParams::try_from(&api::Peer)`, then the
      handler's `apply_peer_group` and `Global::add_peer`) instead of the configuration sequence.
      In the request `hold` is the `hold_time` field (0 = not set) and a send-max of 0 means "no add-path send". -/
  api : Bool := false
  deriving Repr, DecidableEq

/-- `HashMap::insert` of the groups by name: a later group with the same name replaces the earlier
    (applied when a case line is read: `Case.hist` carries the final map) -/
def normGroups (gs : List Group) : List Group :=
  gs.foldl (fun acc g => (acc.filter fun x => x.name != g.name) ++ [g]) []

def findGroup (gs : List Group) (n : String) : Option Group := gs.find? fun g => g.name = n

/-! ### loading: dynamic prefixes (AddDynamicNeighbor), API neighbours (AddPeer) -/

/-- `IpNet::from_str`: a prefix length up to the address length (32 / 128) is admitted -/
def Net.wf (n : Net) : Bool := n.mask ≤ 8 * n.bytes.length

/-- the AddDynamicNeighbor requests of one group, in order: refused when the prefix does not parse or
    the group already has exactly this prefix (`seen` = what the group has so far) -/
def netsAdded : List Net → List Net → List Bool
  | [], _ => []
  | n :: t, seen =>
      let ok := n.wf && !seen.contains n
      ok :: netsAdded t (if ok then seen ++ [n] else seen)

/-- the group as the daemon holds it afterwards (a repeated prefix changes nothing for containment) -/
def loadGroup (g : Group) : Group := { g with nets := g.nets.filter Net.wf }

/-- RFC 4271 §4.2 as `try_from` enforces it on `hold_time`: not set, or 3..65535 -/
def apiHoldOk (h : Nat) : Bool := h = 0 || (3 ≤ h && h ≤ 65535)

/-- `PeerParams::try_from(&api::Peer)`: `none` = the request is refused (no expected AS and no group;
    a send-max above the limit; a hold time of 1, 2 or above 65535); otherwise the parameters it
    yields (hold time 0 = default, a send-max of 0 is no entry). -/
def apiPre (pc : PeerCase) : Option PeerCase :=
  if !pc.api then some pc
  else if pc.params.expected = 0 && pc.group.isNone then none
  else if pc.params.sm.any (fun e => e.2 > 255) then none      -- peer::ADDPATH_SEND_MAX_LIMIT
  else if !apiHoldOk pc.params.hold then none
  else some { pc with
    api := false
    params := { pc.params with
      hold := if pc.params.hold = 0 then DEFAULT_HOLD_TIME else pc.params.hold
      sm := pc.params.sm.filter fun e => e.2 > 0 } }

/-- the `added` flags of all neighbours from those of the neighbours that got as far as `add_peer` -/
def mergeAdded : List (Option PeerCase) → List Bool → List Bool
  | [], _ => []
  | none :: t, fl => false :: mergeAdded t fl
  | some _ :: t, f :: fl => f :: mergeAdded t fl
  | some _ :: t, [] => false :: mergeAdded t []

/-- configuration loading, first half: `apply_peer_group` when the named group exists -/
def resolveParams (groups : List Group) (pc : PeerCase) : Params :=
  match pc.group.bind (findGroup groups) with
  | some g => applyPeerGroup pc.params g
  | none => pc.params

/-- configuration loading: `apply_peer_group`, then `add_peer`, neighbour by neighbour -/
def setupPeers (st : St) : List PeerCase → St × List Bool
  | [] => (st, [])
  | pc :: rest =>
      match addPeer st (resolveParams st.groups pc) with
      | some st' => let (s, l) := setupPeers st' rest; (s, true :: l)
      | none => let (s, l) := setupPeers st rest; (s, false :: l)

structure SetupRow where
  addr : Ip
  adminDown : Bool
  cfg : PeerCfg
  role : PeerRole
  deriving Repr, DecidableEq

def setupRowOf (confed : Option (Nat × List Nat)) (e : Ip × Peer) : SetupRow :=
  { addr := e.1, adminDown := e.2.adminDown, cfg := e.2.cfg, role := peerRole e.2.cfg confed }

/-- a history on a loaded configuration -/
structure HistCore where
  added : List Bool
  setup : List SetupRow
  steps : List StepObs
  deriving Repr, DecidableEq

structure HistObs where
  added : List Bool
  netsAdded : List (List Bool)      -- per group, per configured prefix: admitted?
  setup : List SetupRow
  steps : List StepObs
  deriving Repr, DecidableEq

def initSt (g : GlobalCfg) (groups : List Group) : St :=
  { asn := g.asn, rid := g.rid, confed := g.confed, groups := groups
    peers := [], ctxs := [], live := [], nextSid := 0 }

def runHistOn (g : GlobalCfg) (groups : List Group) (peers : List PeerCase) (ops : List Op) : Out HistCore := do
  let (st, added) := setupPeers (initSt g groups) peers
  let setup := sortBy (·.addr) (st.peers.map (setupRowOf st.confed))
  let steps ← runOps st ops
  pure { added := added, setup := setup, steps := steps }

/-- a case: the dynamic prefixes are admitted one by one, the API neighbours pass `try_from`, then the
    history runs on what was loaded -/
def runHist (g : GlobalCfg) (groups : List Group) (peers : List PeerCase) (ops : List Op) : Out HistObs := do
  let pre := peers.map apiPre
  let core ← runHistOn g (groups.map loadGroup) (pre.filterMap id) ops
  pure { added := mergeAdded pre core.added, netsAdded := groups.map (fun gr => netsAdded gr.nets [])
         setup := core.setup, steps := core.steps }

/-! ## Cases and observations -/

structure NegObs where
  lr : Codec
  rl : Codec
  fsmSame : Bool
  emaxLr : List (Family × Nat)
  emaxRl : List (Family × Nat)
  grL : Option NegGr
  grR : Option NegGr
  llgrL : Option (List (Family × Nat))
  llgrR : Option (List (Family × Nat))
  deriving Repr, DecidableEq

def runNeg (l r : List Cap) (sm : List (Family × Nat)) : NegObs :=
  { lr := negotiate l r, rl := negotiate r l, fsmSame := true
    emaxLr := effectiveMax sm l r, emaxRl := effectiveMax sm r l
    grL := negotiateGr l r, grR := negotiateGr r l
    llgrL := negotiateLlgr l r, llgrR := negotiateLlgr r l }

inductive Case where
  | neg (l r : List Cap) (sm : List (Family × Nat))
  | contains (n : Net) (a : Ip)
  | hist (g : GlobalCfg) (groups : List Group) (peers : List PeerCase) (ops : List Op)
  deriving Repr

inductive Obs where
  | neg (o : NegObs)
  | contains (b : Bool)
  | hist (h : HistObs)
  | panic
  deriving Repr, DecidableEq

def run : Case → Obs
  | .neg l r sm => .neg (runNeg l r sm)
  | .contains n a => match n.contains a with | .ok b => .contains b | .panic => .panic
  | .hist g gs ps ops => match runHist g gs ps ops with | .ok h => .hist h | .panic => .panic

end Rbgp.Accept
