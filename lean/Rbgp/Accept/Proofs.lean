/- Helper lemmas for the C16 theorems (Rbgp/Accept/Props.lean). -/
import Rbgp.Accept.Model
import Rbgp.Accept.Spec
namespace Rbgp.Accept.Proofs
open Rbgp.Accept

/-! ### sorted family sets -/

theorem mem_fins (k x : Nat) (l : List Nat) : x ∈ fins k l ↔ x = k ∨ x ∈ l := by
  induction l with
  | nil => simp [fins]
  | cons a t ih =>
    simp only [fins]
    split
    · simp
    · split
      · subst_vars; simp
      · simp [ih]; grind

theorem mem_fsort (x : Nat) (l : List Nat) : x ∈ fsort l ↔ x ∈ l := by
  induction l with
  | nil => simp [fsort]
  | cons a t ih =>
    have : fsort (a :: t) = fins a (fsort t) := rfl
    rw [this, mem_fins, ih]; simp

theorem fins_sorted (k : Nat) (l : List Nat) (h : l.Pairwise (· < ·)) : (fins k l).Pairwise (· < ·) := by
  induction l with
  | nil => simp [fins]
  | cons a t ih =>
    simp only [fins]
    have ht := (List.pairwise_cons.mp h)
    split
    · refine List.pairwise_cons.mpr ⟨?_, h⟩
      intro x hx
      rcases List.mem_cons.mp hx with rfl | hx
      · assumption
      · have := ht.1 x hx; omega
    · split
      · exact h
      · refine List.pairwise_cons.mpr ⟨?_, ih ht.2⟩
        intro x hx
        rcases (mem_fins k x t).mp hx with rfl | hx
        · omega
        · exact ht.1 x hx

theorem fsort_sorted (l : List Nat) : (fsort l).Pairwise (· < ·) := by
  induction l with
  | nil => simp [fsort]
  | cons a t ih => exact fins_sorted a _ ih

/-- strictly sorted lists with the same members are equal -/
theorem sorted_ext : ∀ (l1 l2 : List Nat), l1.Pairwise (· < ·) → l2.Pairwise (· < ·) →
    (∀ x, x ∈ l1 ↔ x ∈ l2) → l1 = l2
  | [], [], _, _, _ => rfl
  | [], b :: t, _, _, h => by have := (h b).mpr (by simp); simp at this
  | a :: t, [], _, _, h => by have := (h a).mp (by simp); simp at this
  | a :: t1, b :: t2, h1, h2, h => by
    have p1 := List.pairwise_cons.mp h1
    have p2 := List.pairwise_cons.mp h2
    have hab : a = b := by
      have ha := (h a).mp (by simp)
      have hb := (h b).mpr (by simp)
      rcases List.mem_cons.mp ha with e | ha
      · exact e
      · rcases List.mem_cons.mp hb with e | hb
        · exact e.symm
        · have := p2.1 a ha; have := p1.1 b hb; omega
    subst hab
    congr 1
    apply sorted_ext t1 t2 p1.2 p2.2
    intro x
    constructor
    · intro hx
      have := (h x).mp (List.mem_cons_of_mem _ hx)
      rcases List.mem_cons.mp this with e | hx2
      · have := p1.1 x hx; omega
      · exact hx2
    · intro hx
      have := (h x).mpr (List.mem_cons_of_mem _ hx)
      rcases List.mem_cons.mp this with e | hx2
      · have := p2.1 x hx; omega
      · exact hx2

theorem mem_commonFams (l r : List Cap) (f : Family) :
    f ∈ commonFams l r ↔ f ∈ mpFams l ∧ f ∈ mpFams r := by
  simp [commonFams, List.mem_filter, mem_fsort]; exact And.comm

theorem commonFams_sorted (l r : List Cap) : (commonFams l r).Pairwise (· < ·) :=
  (fsort_sorted _).filter _

theorem commonFams_comm (l r : List Cap) : commonFams l r = commonFams r l :=
  sorted_ext _ _ (commonFams_sorted l r) (commonFams_sorted r l) (by
    intro x; rw [mem_commonFams, mem_commonFams]; exact And.comm)


/-! ### PeerCodec::negotiate -/

def swapFs (s : FamState) : FamState := { fam := s.fam, rx := s.tx, tx := s.rx, enh := s.enh }

theorem famStateOf_swap (l r : List Cap) (f : Family) : famStateOf r l f = swapFs (famStateOf l r f) := by
  simp [famStateOf, swapFs, Bool.and_comm]

theorem negotiate_mirror (l r : List Cap) :
    negotiate r l =
      { fams := (negotiate l r).fams.map swapFs, extMsg := (negotiate l r).extMsg
        enh := (negotiate l r).enh, as4 := (negotiate l r).as4 } := by
  simp only [negotiate, commonFams_comm r l, List.map_map]
  congr 1
  · apply List.map_congr_left; intro f _; exact famStateOf_swap l r f
  · exact Bool.and_comm _ _
  · congr 1; exact Bool.and_comm _ _
  · exact Bool.and_comm _ _

theorem negotiate_fams_map (l r : List Cap) : (negotiate l r).fams.map (·.fam) = commonFams l r := by
  simp [negotiate, List.map_map, Function.comp_def, famStateOf]

theorem mem_mpFams (v : List Cap) (f : Family) : f ∈ mpFams v ↔ Cap.mp f ∈ v := by
  simp only [mpFams, List.mem_filterMap]
  constructor
  · rintro ⟨c, hc, h⟩
    cases c <;> simp at h
    subst h; exact hc
  · intro h; exact ⟨_, h, rfl⟩

/-- a family is in force iff both sides advertised it -/
theorem family_iff_both (l r : List Cap) (f : Family) :
    (∃ s ∈ (negotiate l r).fams, s.fam = f) ↔ (Cap.mp f ∈ l ∧ Cap.mp f ∈ r) := by
  rw [← mem_mpFams, ← mem_mpFams, ← mem_commonFams, ← negotiate_fams_map]
  simp [List.mem_map]

theorem state_eq (l r : List Cap) (f : Family) :
    (negotiate l r).state f = if f ∈ commonFams l r then some (famStateOf l r f) else none := by
  unfold Codec.state negotiate
  simp only
  generalize commonFams l r = cf
  induction cf with
  | nil => simp
  | cons a t ih =>
    simp only [List.map_cons, List.find?_cons]
    by_cases h : a = f
    · subst h; simp [famStateOf]
    · have : (famStateOf l r a).fam = a := rfl
      simp [this, h, ih, List.mem_cons, Ne.symm h]

/-- the add-path directions in force are exactly the ones both advertised (last tuple wins) -/
theorem addpath_iff_both (l r : List Cap) (f : Family) (s : FamState)
    (h : (negotiate l r).state f = some s) :
    s.rx = (bit0 (lastMode f (addPathTuples l)) && bit1 (lastMode f (addPathTuples r))) ∧
    s.tx = (bit1 (lastMode f (addPathTuples l)) && bit0 (lastMode f (addPathTuples r))) := by
  rw [state_eq] at h
  split at h
  · cases h; simp [famStateOf]
  · cases h

theorem lastMode_append (f : Family) (a b : List (Family × Nat)) (init : Nat) :
    List.foldl (fun acc t => if t.1 = f then t.2 else acc) init (a ++ b) =
      List.foldl (fun acc t => if t.1 = f then t.2 else acc) (List.foldl (fun acc t => if t.1 = f then t.2 else acc) init a) b := by
  simp [List.foldl_append]

/-- soundness of "last wins": the mode in force is the initial one or was listed by that side -/
theorem lastMode_mem (f : Family) (t : List (Family × Nat)) (init : Nat) :
    List.foldl (fun acc t => if t.1 = f then t.2 else acc) init t = init ∨
    (f, List.foldl (fun acc t => if t.1 = f then t.2 else acc) init t) ∈ t := by
  induction t generalizing init with
  | nil => simp
  | cons a rest ih =>
    simp only [List.foldl_cons]
    by_cases h : a.1 = f
    · simp only [h, if_true]
      rcases ih a.2 with e | m
      · right; rw [e]
        have : a = (f, a.2) := by cases a; simp_all
        rw [← this]; exact List.mem_cons_self
      · right; exact List.mem_cons_of_mem _ m
    · simp only [h, if_false]
      rcases ih init with e | m
      · left; exact e
      · right; exact List.mem_cons_of_mem _ m

theorem foldl_unanimous (f : Family) (m : Nat) : ∀ (t : List (Family × Nat)) (init : Nat),
    (∃ x ∈ t, x.1 = f) → (∀ x ∈ t, x.1 = f → x.2 = m) →
    List.foldl (fun acc t => if t.1 = f then t.2 else acc) init t = m
  | [], _, ⟨x, hx, _⟩, _ => by simp at hx
  | a :: rest, init, hne, hall => by
    simp only [List.foldl_cons]
    have hall' : ∀ x ∈ rest, x.1 = f → x.2 = m := fun x hx => hall x (List.mem_cons_of_mem _ hx)
    by_cases hr : ∃ x ∈ rest, x.1 = f
    · exact foldl_unanimous f m rest _ hr hall'
    · have key : ∀ i, List.foldl (fun acc t => if t.1 = f then t.2 else acc) i rest = i := by
        intro i
        rcases lastMode_mem f rest i with e | mm
        · exact e
        · exact absurd ⟨_, mm, rfl⟩ hr
      rw [key]
      by_cases h : a.1 = f
      · simp [h]; exact hall a (by simp) h
      · exfalso
        rcases hne with ⟨x, hx, hxf⟩
        rcases List.mem_cons.mp hx with rfl | hx
        · exact h hxf
        · exact hr ⟨x, hx, hxf⟩

/-- if every tuple a side lists for the family carries the same mode, that mode is the one used -/
theorem lastMode_unanimous (f : Family) (m : Nat) (t : List (Family × Nat))
    (hne : ∃ x ∈ t, x.1 = f) (hall : ∀ x ∈ t, x.1 = f → x.2 = m) : lastMode f t = m :=
  foldl_unanimous f m t 0 hne hall

theorem extmsg_iff_both (l r : List Cap) :
    (negotiate l r).extMsg = true ↔ (Cap.extMsg ∈ l ∧ Cap.extMsg ∈ r) := by
  have key : ∀ v : List Cap, hasExtMsg v = true ↔ Cap.extMsg ∈ v := by
    intro v; simp only [hasExtMsg, List.any_eq_true]
    constructor
    · rintro ⟨c, hc, h⟩; cases c <;> simp at h; exact hc
    · intro h; exact ⟨_, h, rfl⟩
  simp [negotiate, key]

theorem as4_iff_both (l r : List Cap) :
    (negotiate l r).as4 = true ↔ ((∃ n, Cap.as4 n ∈ l) ∧ (∃ n, Cap.as4 n ∈ r)) := by
  have key : ∀ v : List Cap, hasAs4 v = true ↔ ∃ n, Cap.as4 n ∈ v := by
    intro v; simp only [hasAs4, List.any_eq_true]
    constructor
    · rintro ⟨c, hc, h⟩; cases c <;> simp at h; exact ⟨_, hc⟩
    · rintro ⟨n, h⟩; exact ⟨_, h, rfl⟩
  simp [negotiate, key]

/-- extended next hop is in force for a family in force iff both sides list an RFC 8950 tuple for
    that family -/
theorem enh_iff_both (l r : List Cap) (f : Family) (s : FamState) (h : (negotiate l r).state f = some s) :
    s.enh = (enhAdv f l && enhAdv f r) := by
  rw [state_eq] at h
  split at h
  · cases h; simp [famStateOf]
  · cases h

/-- the encoder sends IPv4 unicast in MP_REACH / MP_UNREACH iff extended next hop is in force for
    IPv4 unicast itself -/
theorem enh_encoding (l r : List Cap) :
    (negotiate l r).enh = (match (negotiate l r).state IPV4 with | some s => s.enh | none => false) := by
  rw [state_eq]
  by_cases h : IPV4 ∈ commonFams l r <;> simp [negotiate, h, famStateOf]

/-! ### sorted association lists -/

def Keys {α} (h : List (Nat × α)) : Prop := (h.map (·.1)).Pairwise (· < ·)

theorem alookup_ainsert {α} (k k' : Nat) (v : α) (h : List (Nat × α)) :
    alookup k' (ainsert k v h) = if k' = k then some v else alookup k' h := by
  induction h with
  | nil => simp [ainsert, alookup]
  | cons a t ih =>
    obtain ⟨ka, va⟩ := a
    simp only [ainsert]
    split
    · simp [alookup]
    · split
      · subst_vars; simp only [alookup]; split <;> simp_all
      · simp only [alookup, ih]
        by_cases h1 : k' = ka
        · subst h1; simp; intro h2; omega
        · simp [h1]

theorem mem_keys_ainsert {α} (k x : Nat) (v : α) (h : List (Nat × α)) :
    x ∈ (ainsert k v h).map (·.1) ↔ x = k ∨ x ∈ h.map (·.1) := by
  induction h with
  | nil => simp [ainsert]
  | cons a t ih =>
    obtain ⟨ka, va⟩ := a
    simp only [ainsert]
    split
    · simp
    · split
      · subst_vars; simp
      · simp only [List.map_cons, List.mem_cons, ih]; grind

theorem ainsert_keys {α} (k : Nat) (v : α) (h : List (Nat × α)) (hk : Keys h) : Keys (ainsert k v h) := by
  induction h with
  | nil => simp [ainsert, Keys]
  | cons a t ih =>
    obtain ⟨ka, va⟩ := a
    unfold Keys at hk ⊢
    simp only [List.map_cons] at hk
    have ht := List.pairwise_cons.mp hk
    by_cases h1 : k < ka
    · simp only [ainsert, h1, if_true, List.map_cons]
      refine List.pairwise_cons.mpr ⟨?_, hk⟩
      intro x hx
      rcases List.mem_cons.mp hx with e | hx
      · omega
      · have := ht.1 x hx; omega
    · by_cases h2 : k = ka
      · subst h2; simp only [ainsert, h1, if_false, if_true, List.map_cons]; exact hk
      · simp only [ainsert, h1, h2, if_false, List.map_cons]
        refine List.pairwise_cons.mpr ⟨?_, ih ht.2⟩
        intro x hx
        rcases (mem_keys_ainsert k x v t).mp hx with e | hx
        · omega
        · exact ht.1 x hx

theorem foldl_ainsert_keys {α} (l : List (Nat × α)) (h : List (Nat × α)) (hk : Keys h) :
    Keys (l.foldl (fun h kv => ainsert kv.1 kv.2 h) h) := by
  induction l generalizing h with
  | nil => exact hk
  | cons a t ih => exact ih _ (ainsert_keys _ _ _ hk)

theorem anorm_keys {α} (l : List (Nat × α)) : Keys (anorm l) :=
  foldl_ainsert_keys l [] (by simp [Keys])

theorem alookup_foldl {α} (k : Nat) (l : List (Nat × α)) (h : List (Nat × α)) :
    alookup k (l.foldl (fun h kv => ainsert kv.1 kv.2 h) h) =
      l.foldl (fun acc e => if e.1 = k then some e.2 else acc) (alookup k h) := by
  induction l generalizing h with
  | nil => rfl
  | cons a t ih =>
    simp only [List.foldl_cons, ih, alookup_ainsert]
    congr 1
    by_cases h1 : k = a.1 <;> simp [h1, eq_comm]

/-- the sorted map holds, per key, the last pair listed -/
theorem alookup_anorm (k : Nat) (l : List (Nat × Nat)) : alookup k (anorm l) = Spec.lastOf l k := by
  simp [anorm, Spec.lastOf, alookup_foldl, alookup]

theorem mem_iff_alookup {α} (h : List (Nat × α)) (hk : Keys h) (k : Nat) (v : α) :
    (k, v) ∈ h ↔ alookup k h = some v := by
  induction h with
  | nil => simp [alookup]
  | cons a t ih =>
    obtain ⟨ka, va⟩ := a
    unfold Keys at hk
    simp only [List.map_cons] at hk
    have ht := List.pairwise_cons.mp hk
    simp only [alookup, List.mem_cons, Prod.mk.injEq]
    by_cases h1 : k = ka
    · subst h1
      simp only [true_and, if_true, Option.some.injEq]
      constructor
      · rintro (e | m)
        · exact e.symm
        · have := ht.1 k (List.mem_map.mpr ⟨_, m, rfl⟩); omega
      · intro e; left; exact e.symm
    · simp only [h1, false_and, false_or, if_false]
      exact ih ht.2

/-! ### effective send-max -/

/-- S26: the session sends more than one path for a family exactly when a send-max is configured
    for it and the negotiated codec encodes path ids for it -/
theorem mem_effectiveMax (sm : List (Family × Nat)) (l r : List Cap) (f : Family) (n : Nat) :
    (f, n) ∈ effectiveMax sm l r ↔ (Spec.lastOf sm f = some n ∧ (negotiate l r).tx f = true) := by
  simp only [effectiveMax, List.mem_filter]
  rw [mem_iff_alookup _ (anorm_keys sm), alookup_anorm]

theorem effectiveMax_keys (sm : List (Family × Nat)) (l r : List Cap) : Keys (effectiveMax sm l r) := by
  unfold Keys effectiveMax
  have := anorm_keys sm
  unfold Keys at this
  exact this.sublist ((List.filter_sublist).map _)

/-! ### negotiate_gr -/

theorem firstGr_mem (v : List Cap) (fl t : Nat) (fs : List (Family × Nat)) :
    firstGr v = some (fl, t, fs) → Cap.gr fl t fs ∈ v := by
  induction v with
  | nil => simp [firstGr]
  | cons c rest ih =>
    intro h
    cases c with
    | gr a b c =>
      simp only [firstGr, Option.some.injEq, Prod.mk.injEq] at h
      obtain ⟨rfl, rfl, rfl⟩ := h; exact List.mem_cons_self
    | _ => exact List.mem_cons_of_mem _ (ih (by simpa [firstGr] using h))

theorem mem_negGr_fams (lfams pfams : List (Family × Nat)) (f : Family) :
    f ∈ ((lfams.map (·.1)).filter fun f => pfams.any fun p => p.1 = f) ↔
      (f ∈ lfams.map (·.1) ∧ f ∈ pfams.map (·.1)) := by
  simp only [List.mem_filter, List.any_eq_true, List.mem_map, decide_eq_true_eq]

/-- both ends compute the same set of GR families and the same N-bit outcome -/
theorem gr_symmetric (l r : List Cap) :
    ((negotiateGr l r).isSome = (negotiateGr r l).isSome) ∧
    (∀ f, f ∈ Spec.grFams (negotiateGr l r) ↔ f ∈ Spec.grFams (negotiateGr r l)) ∧
    ((negotiateGr l r).map (·.notif) = (negotiateGr r l).map (·.notif)) := by
  unfold negotiateGr
  cases hl : firstGr l with
  | none => cases hr : firstGr r <;> simp [Spec.grFams]
  | some a =>
    obtain ⟨lf, lt, lfams⟩ := a
    cases hr : firstGr r with
    | none => simp [Spec.grFams]
    | some b =>
      obtain ⟨pf, pt, pfams⟩ := b
      simp only
      have hmem := fun f => mem_negGr_fams lfams pfams f
      have hmem' := fun f => mem_negGr_fams pfams lfams f
      have hiff : ∀ f, f ∈ ((lfams.map (·.1)).filter fun f => pfams.any fun p => p.1 = f) ↔
          f ∈ ((pfams.map (·.1)).filter fun f => lfams.any fun p => p.1 = f) := by
        intro f; rw [hmem, hmem']; exact And.comm
      have hemp : ((lfams.map (·.1)).filter fun f => pfams.any fun p => p.1 = f).isEmpty =
          ((pfams.map (·.1)).filter fun f => lfams.any fun p => p.1 = f).isEmpty := by
        rw [Bool.eq_iff_iff]; simp only [List.isEmpty_iff]
        constructor
        · intro h; apply List.eq_nil_iff_forall_not_mem.mpr; intro x hx
          have := (hiff x).mpr hx; rw [h] at this; simp at this
        · intro h; apply List.eq_nil_iff_forall_not_mem.mpr; intro x hx
          have := (hiff x).mp hx; rw [h] at this; simp at this
      rw [hemp]
      split
      · simp [Spec.grFams]
      · refine ⟨rfl, ?_, ?_⟩
        · intro f; simp only [Spec.grFams]; exact hiff f
        · simp [Bool.and_comm]

end Rbgp.Accept.Proofs
