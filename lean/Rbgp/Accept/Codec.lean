/- Term encoding of C16 cases and observations (same syntax as harness/daemon/c16.rs). -/
import Rbgp.Term
import Rbgp.Accept.Model
namespace Rbgp.Accept.Codec
open Rbgp Rbgp.Term Rbgp.Accept

def U8 : Nat := 255
def U16 : Nat := 65535
def U32 : Nat := 4294967295

def natLe? (max : Nat) (t : Term) : Option Nat := do
  let n ← asNat? t
  if n ≤ max then some n else none

def famOf? (t : Term) : Option Family := do
  let n ← asNat? t
  if n < 4294967296 ∧ n % 65536 < 256 then some n else none

def pairOf? (f : Term → Option Nat) (g : Term → Option Nat) : Term → Option (Nat × Nat)
  | .list [a, b] => do pure ((← f a), (← g b))
  | _ => none
def tripleOf? : Term → Option (Nat × Nat × Nat)
  | .list [a, b, c] => do pure ((← famOf? a), (← natLe? U8 b), (← natLe? U32 c))
  | _ => none

def pairT (p : Nat × Nat) : Term := list [nat p.1, nat p.2]
def pairsT (l : List (Nat × Nat)) : Term := ofList pairT l

/-! ### capabilities -/

def capOf? : Term → Option Cap
  | .atom "rr" => some .routeRefresh
  | .atom "extmsg" => some .extMsg
  | .atom "err" => some .enhRR
  | .atom "fqdn" => some .fqdn
  | .list [.atom "mp", f] => (famOf? f).map .mp
  | .list [.atom "as4", n] => (natLe? U32 n).map .as4
  | .list (.atom "enh" :: l) => (l.mapM (pairOf? famOf? (natLe? U16))).map .enh
  | .list (.atom "addpath" :: l) => (l.mapM (pairOf? famOf? (natLe? U8))).map .addPath
  | .list [.atom "gr", fl, tm, .list fams] => do
      pure (.gr (← natLe? U8 fl) (← natLe? U16 tm) (← fams.mapM (pairOf? famOf? (natLe? U8))))
  | .list (.atom "llgr" :: l) => (l.mapM tripleOf?).map .llgr
  | .list [.atom "unk", c, b] => do pure (.unknown (← natLe? U8 c) (← asBytes? b))
  | _ => none

def capT : Cap → Term
  | .mp f => tag "mp" [nat f]
  | .routeRefresh => sym "rr"
  | .enh l => tag "enh" (l.map pairT)
  | .extMsg => sym "extmsg"
  | .gr fl tm fams => tag "gr" [nat fl, nat tm, pairsT fams]
  | .as4 n => tag "as4" [nat n]
  | .addPath l => tag "addpath" (l.map pairT)
  | .enhRR => sym "err"
  | .llgr l => tag "llgr" (l.map fun e => list [nat e.1, nat e.2.1, nat e.2.2])
  | .fqdn => sym "fqdn"
  | .unknown c b => tag "unk" [nat c, bytes b]

def capsOf? (t : Term) : Option (List Cap) := asListOf? capOf? t
def capsT (l : List Cap) : Term := ofList capT l

/-- observed capability lists use the same syntax; on the wire an unknown capability may come
    back with any code, so parse leniently (no range checks needed beyond the syntax) -/
def obsCapsOf? : Term → Option (List Cap) := capsOf?

/-! ### addresses -/

def ipOf? : Term → Option Ip
  | .list [.atom "ip", b] => do
      let bs ← asBytes? b
      if bs.length = 4 ∨ bs.length = 16 then some ⟨bs⟩ else none
  | _ => none
def ipT (a : Ip) : Term := tag "ip" [bytes a.bytes]

def netOf? : Term → Option Net
  | .list [.atom "net", b, m] => do
      let bs ← asBytes? b
      let m ← natLe? U8 m
      if bs.length = 4 ∨ bs.length = 16 then some ⟨bs, m⟩ else none
  | _ => none

/-- loopback source addresses the harness can bind: 127.x.y.z (z not 0 / 255) and ::1 -/
def bindable (a : Ip) : Bool :=
  match a.bytes with
  | [127, _, _, z] => z != 0 && z != 255
  | bs => bs = [0,0,0,0,0,0,0,0,0,0,0,0,0,0,0,1]

/-! ### configuration -/

def taggedPairs? (name : String) (f g : Term → Option Nat) : Term → Option (List (Nat × Nat))
  | .list (.atom n :: l) => if n = name then l.mapM (pairOf? f g) else none
  | _ => none

def grCfgOf? (t : Term) : Option (Option GrCfg) :=
  asOpt? (fun
    | .list [tm, n, .list fams] => do
        pure { time := (← natLe? U16 tm), nbit := (← asBool? n), fams := (← fams.mapM famOf?) }
    | _ => none) t

def llgrCfgOf? (t : Term) : Option (Option LlgrCfg) :=
  asOpt? (fun
    | .list l => (l.mapM (pairOf? famOf? (natLe? U32))).map fun v => { fams := v }
    | _ => none) t

def netsOf? : Term → Option (List Net)
  | .list (.atom "nets" :: l) => l.mapM netOf?        -- any length 0..255: the daemon decides what it admits
  | _ => none

def groupOf? : Term → Option Group
  | .list [.atom "group", .atom name, asn, lasn, hold, passive, rs, rrc, cluster, fams, sm, gr, llgr, nets] => do
      pure { name := name, asn := (← natLe? U32 asn), localAsn := (← natLe? U32 lasn)
             hold := (← asOpt? (natLe? U16) hold), passive := (← asBool? passive), rs := (← asBool? rs)
             rrClient := (← asBool? rrc), cluster := (← asOpt? (natLe? U32) cluster)
             fams := (← taggedPairs? "fams" famOf? (natLe? U8) fams)
             sm := (← taggedPairs? "sm" famOf? (natLe? 1048576) sm)
             gr := (← grCfgOf? gr), llgr := (← llgrCfgOf? llgr), nets := (← netsOf? nets) }
  | _ => none

def polOf? (t : Term) : Option (Option (Bool × List String)) :=
  asOpt? (fun
    | .list [.atom "accept", names] => (asListOf? asSym? names).map fun n => (true, n)
    | .list [.atom "reject", names] => (asListOf? asSym? names).map fun n => (false, n)
    | _ => none) t
def polT : Option (Bool × List String) → Term
  | none => sym "none"
  | some (b, names) => list [sym "some", list [sym (if b then "accept" else "reject"), ofList sym names]]

def peerOf? : Term → Option PeerCase
  | .list [.atom "peer", ip, exp, lasn, hold, passive, rs, rrc, cluster, down, fams, sm, pl, gr, llgr, pol, group, via] => do
      let api ← (match via with | .atom "api" => some true | .atom "cfg" => some false | _ => none)
      let params : Params :=
        { addr := (← ipOf? ip), expected := (← natLe? U32 exp), localAsn := (← natLe? U32 lasn)
          hold := (← natLe? (if api then U32 else U16) hold), passive := (← asBool? passive), rs := (← asBool? rs)
          rrClient := (← asBool? rrc), cluster := (← asOpt? (natLe? U32) cluster)
          adminDown := (← asBool? down), dyn := false
          fams := (← taggedPairs? "fams" famOf? (natLe? U8) fams)
          sm := (← taggedPairs? "sm" famOf? (natLe? 1048576) sm)
          pl := (← taggedPairs? "pl" famOf? (natLe? U32) pl)
          gr := (← grCfgOf? gr), llgr := (← llgrCfgOf? llgr), pol := (← polOf? pol) }
      pure { params := params, group := (← asOpt? asSym? group), api := api }
  | _ => none

def roleOf? : Term → Option Role
  | .atom "A" => some .active | .atom "P" => some .passive | _ => none

def loopIp? (t : Term) : Option Ip := do
  let a ← ipOf? t
  if bindable a then some a else none

def opOf? : Term → Option Op
  | .list [.atom "connect", a, r] => do pure (.connect (← loopIp? a) (← roleOf? r))
  | .list [.atom "disc", s] => do
      let n ← asNat? s
      if n < 18446744073709551616 then some (.disc n) else none
  | .list [.atom "discx", s, a, h] => do
      let n ← asNat? s
      let h ← natLe? U16 h
      if n < 18446744073709551616 ∧ h ≠ 1 ∧ h ≠ 2 then some (.discx n (← natLe? U32 a) h) else none
  | .list [.atom "enable", a] => (ipOf? a).map .enable
  | .list [.atom "disable", a] => (ipOf? a).map .disable
  | .list [.atom "delete", a] => (ipOf? a).map .delete
  | .list [.atom "shutdown", a] => (ipOf? a).map .shutdown
  | .list [.atom "reset", a] => (ipOf? a).map .reset
  | _ => none

def globalOf? : Term → Option GlobalCfg
  | .list [.atom "global", a, r, c] => do
      let confed ← asOpt? (fun
        | .list [id, .list ms] => do
            let id ← natLe? U32 id
            if id = 0 then none else pure (id, (← ms.mapM (natLe? U32)))
        | _ => none) c
      pure { asn := (← natLe? U32 a), rid := (← natLe? U32 r), confed := confed }
  | _ => none

def caseOf? : Term → Option Case
  | .list [.atom "neg", l, r, sm] => do
      pure (.neg (← capsOf? l) (← capsOf? r) (← taggedPairs? "sm" famOf? (natLe? 1048576) sm))
  | .list [.atom "contains", n, a] => do pure (.contains (← netOf? n) (← ipOf? a))
  | .list [.atom "hist", g, .list (.atom "groups" :: gs), .list (.atom "peers" :: ps), .list (.atom "ops" :: ops)] => do
      pure (.hist (← globalOf? g) (normGroups (← gs.mapM groupOf?)) (← ps.mapM peerOf?) (← ops.mapM opOf?))
  | _ => none

/-- run-time guard of the drivers: the well-formedness the master theorem assumes (`Props.CaseWF`:
    octets, confederation identifier, no delete-on-disconnect mark), and what the case format can
    express (an `api` neighbour is something an AddPeer request can say; a `cfg` hold time fits
    the parameter the loaders produce). -/
def octetsOk (l : List Nat) : Bool := l.all fun x => x < 256

def distinctKeys : List (Nat × Nat) → Bool
  | [] => true
  | e :: t => !(t.any fun x => x.1 = e.1) && distinctKeys t

/-- what an AddPeer request can say (and the harness can therefore put into one): no prefix limits, no
    GR / LLGR block (not driven through the API here), at most one send-max per family and only for
    configured families, an add-path mode whose send bit says the same as the send-max -/
def apiExpressible (p : Params) : Bool :=
  p.pl.isEmpty && p.gr.isNone && p.llgr.isNone && distinctKeys p.sm
  && p.sm.all (fun e => p.fams.any fun f => f.1 = e.1)
  && p.fams.all (fun f => f.2 ≤ 3 && (bit1 f.2 == p.sm.any fun e => e.1 = f.1 && e.2 > 0))

def wfCase : Case → Bool
  | .neg .. => true
  | .contains n a => octetsOk n.bytes && octetsOk a.bytes
  | .hist g groups peers ops =>
      (match g.confed with | some (id, _) => id != 0 | none => true)
      && groups.all (fun gr => gr.nets.all fun n => octetsOk n.bytes)
      && peers.all (fun pc => !pc.params.dyn && (if pc.api then apiExpressible pc.params else decide (pc.params.hold ≤ 65535)))
      && ops.all (fun op => match op with | .connect a _ => octetsOk a.bytes | _ => true)

/-! ### observations -/

def famStateT (s : FamState) : Term := list [nat s.fam, bool s.rx, bool s.tx, bool s.enh]
def famStateOf? : Term → Option FamState
  | .list [f, rx, tx, e] => do pure { fam := (← asNat? f), rx := (← asBool? rx), tx := (← asBool? tx), enh := (← asBool? e) }
  | _ => none

def codecT (c : Codec) : Term :=
  tag "codec" [ofList famStateT c.fams, bool c.extMsg, bool c.enh, bool c.as4]
def codecOf? : Term → Option Codec
  | .list [.atom "codec", fams, e, n, a] => do
      pure { fams := (← asListOf? famStateOf? fams), extMsg := (← asBool? e), enh := (← asBool? n), as4 := (← asBool? a) }
  | _ => none

def natPairOf? : Term → Option (Nat × Nat) := pairOf? asNat? asNat?

def grT : Option NegGr → Term
  | none => sym "none"
  | some g => tag "gr" [ofList nat g.fams, nat g.time, bool g.notif]
def grOf? : Term → Option (Option NegGr)
  | .atom "none" => some none
  | .list [.atom "gr", fams, t, n] => do
      pure (some { fams := (← asListOf? asNat? fams), time := (← asNat? t), notif := (← asBool? n) })
  | _ => none

def llgrT : Option (List (Family × Nat)) → Term
  | none => sym "none"
  | some l => tag "llgr" (l.map pairT)
def llgrOf? : Term → Option (Option (List (Family × Nat)))
  | .atom "none" => some none
  | .list (.atom "llgr" :: l) => (l.mapM natPairOf?).map some
  | _ => none

def negT (o : NegObs) : Term :=
  tag "neg" [codecT o.lr, codecT o.rl, bool o.fsmSame, pairsT o.emaxLr, pairsT o.emaxRl,
             grT o.grL, grT o.grR, llgrT o.llgrL, llgrT o.llgrR]
def negOf? : Term → Option NegObs
  | .list [.atom "neg", lr, rl, same, e1, e2, g1, g2, l1, l2] => do
      pure { lr := (← codecOf? lr), rl := (← codecOf? rl), fsmSame := (← asBool? same)
             emaxLr := (← asListOf? natPairOf? e1), emaxRl := (← asListOf? natPairOf? e2)
             grL := (← grOf? g1), grR := (← grOf? g2), llgrL := (← llgrOf? l1), llgrR := (← llgrOf? l2) }
  | _ => none

def roleT : PeerRole → Term
  | .ebgp => sym "ebgp" | .ibgp => sym "ibgp" | .rrClient => sym "rr-client"
  | .rsClient => sym "rs-client" | .confed => sym "confed"
def peerRoleOf? : Term → Option PeerRole
  | .atom "ebgp" => some .ebgp | .atom "ibgp" => some .ibgp | .atom "rr-client" => some .rrClient
  | .atom "rs-client" => some .rsClient | .atom "confed" => some .confed | _ => none

def cfgT (c : PeerCfg) (r : PeerRole) : Term :=
  tag "cfg" [nat c.expected, nat c.localAsn, nat c.hold, bool c.passive, bool c.rs, bool c.rrClient,
             opt nat c.cluster, bool c.dyn, capsT c.caps, pairsT c.sm, pairsT c.pl, polT c.pol, roleT r]
def cfgOf? : Term → Option (PeerCfg × PeerRole)
  | .list [.atom "cfg", e, l, h, p, rs, rrc, cl, d, caps, sm, pl, pol, role] => do
      let c : PeerCfg :=
        { expected := (← asNat? e), localAsn := (← asNat? l), hold := (← asNat? h), passive := (← asBool? p)
          rs := (← asBool? rs), rrClient := (← asBool? rrc), cluster := (← asOpt? asNat? cl), dyn := (← asBool? d)
          caps := (← obsCapsOf? caps), sm := (← asListOf? natPairOf? sm), pl := (← asListOf? natPairOf? pl)
          pol := (← polOf? pol) }
      pure (c, (← peerRoleOf? role))
  | _ => none

def sessT (s : SessInfo) : Term :=
  tag "sess" [roleT s.role, nat s.localAsn, capsT s.caps, pairsT s.pl, opt nat s.cluster, nat s.confedId, bool s.restarting]
def sessOf? : Term → Option SessInfo
  | .list [.atom "sess", r, l, caps, pl, cl, cid, rs] => do
      pure { role := (← peerRoleOf? r), localAsn := (← asNat? l), caps := (← obsCapsOf? caps)
             pl := (← asListOf? natPairOf? pl), cluster := (← asOpt? asNat? cl), confedId := (← asNat? cid)
             restarting := (← asBool? rs) }
  | _ => none

def resT : Res → Term
  | .accept sid info cfg role => tag "accept" [nat sid, sessT info, cfgT cfg role]
  | .acceptAmb sid gs ok => tag "accept-amb" [nat sid, ofList sym gs, bool ok]
  | .reject n => tag "reject" [nat n]
  | .discOpen a h r caps none => tag "disc" [tag "open" [nat a, nat h, nat r, capsT caps]]
  | .discOpen a h r caps (some false) => tag "disc" [tag "open" [nat a, nat h, nat r, capsT caps], tag "notif" [nat 2, nat 2]]
  | .discOpen a h r caps (some true) => tag "disc" [tag "open" [nat a, nat h, nat r, capsT caps], sym "keepalive", sym "end-of-rib"]
  | .discNotif c s => tag "disc" [tag "notif" [nat c, nat s]]
  | .noSession => sym "no-session"
  | .api true => tag "api" [sym "ok"]
  | .api false => tag "api" [sym "notfound"]
  | .aborted => sym "aborted"
def resOf? : Term → Option Res
  | .list [.atom "accept", sid, s, c] => do
      let (cfg, role) ← cfgOf? c
      pure (.accept (← asNat? sid) (← sessOf? s) cfg role)
  | .list [.atom "accept-amb", sid, gs, ok] => do
      pure (.acceptAmb (← asNat? sid) (← asListOf? asSym? gs) (← asBool? ok))
  | .list [.atom "reject", n] => (asNat? n).map .reject
  | .list [.atom "disc", .list [.atom "open", a, h, r, caps]] => do
      pure (.discOpen (← asNat? a) (← asNat? h) (← asNat? r) (← obsCapsOf? caps) none)
  | .list [.atom "disc", .list [.atom "open", a, h, r, caps], .list [.atom "notif", .atom "2", .atom "2"]] => do
      pure (.discOpen (← asNat? a) (← asNat? h) (← asNat? r) (← obsCapsOf? caps) (some false))
  | .list [.atom "disc", .list [.atom "open", a, h, r, caps], .atom "keepalive", .atom "end-of-rib"] => do
      pure (.discOpen (← asNat? a) (← asNat? h) (← asNat? r) (← obsCapsOf? caps) (some true))
  | .list [.atom "disc", .list [.atom "notif", c, s]] => do pure (.discNotif (← asNat? c) (← asNat? s))
  | .atom "no-session" => some .noSession
  | .list [.atom "api", .atom "ok"] => some (.api true)
  | .list [.atom "api", .atom "notfound"] => some (.api false)
  | .atom "aborted" => some .aborted
  | _ => none

def snapRowT (r : SnapRow) : Term := list [ipT r.addr, bool r.adminDown, bool r.dyn, bool r.slotA, bool r.slotP]
def snapRowOf? : Term → Option SnapRow
  | .list [a, d, y, sa, sp] => do
      pure { addr := (← ipOf? a), adminDown := (← asBool? d), dyn := (← asBool? y), slotA := (← asBool? sa), slotP := (← asBool? sp) }
  | _ => none

def stepT (s : StepObs) : Term := list [resT s.res, ofList snapRowT s.snap]
def stepOf? : Term → Option StepObs
  | .list [r, s] => do pure { res := (← resOf? r), snap := (← asListOf? snapRowOf? s) }
  | _ => none

def setupRowT (r : SetupRow) : Term := list [ipT r.addr, bool r.adminDown, cfgT r.cfg r.role]
def setupRowOf? : Term → Option SetupRow
  | .list [a, d, c] => do
      let (cfg, role) ← cfgOf? c
      pure { addr := (← ipOf? a), adminDown := (← asBool? d), cfg := cfg, role := role }
  | _ => none

def histT (h : HistObs) : Term :=
  tag "hist" [tag "setup" [ofList bool h.added, ofList (ofList bool) h.netsAdded, ofList setupRowT h.setup], ofList stepT h.steps]
def histOf? : Term → Option HistObs
  | .list [.atom "hist", .list [.atom "setup", added, nets, rows], steps] => do
      pure { added := (← asListOf? asBool? added), netsAdded := (← asListOf? (asListOf? asBool?) nets)
             setup := (← asListOf? setupRowOf? rows), steps := (← asListOf? stepOf? steps) }
  | _ => none

def obsT : Obs → Term
  | .neg o => negT o
  | .contains b => tag "ok" [bool b]
  | .hist h => histT h
  | .panic => list [sym "panic"]

def obsOf? : Term → Option Obs
  | .list [.atom "panic"] => some .panic
  | .list [.atom "ok", b] => (asBool? b).map .contains
  | t@(.list (.atom "neg" :: _)) => (negOf? t).map .neg
  | t@(.list (.atom "hist" :: _)) => (histOf? t).map .hist
  | _ => none

end Rbgp.Accept.Codec
