import Rbgp.Accept.ProofsSim
/-
  Rbgp.Accept.ProofsLoad — loading a configuration: which dynamic prefixes are admitted, which API
  neighbours pass `try_from`; the history master theorem for whole cases.
-/
namespace Rbgp.Accept.ProofsLoad
open Rbgp.Accept Rbgp.Accept.ProofsNet Rbgp.Accept.ProofsCfg Rbgp.Accept.ProofsHist Rbgp.Accept.ProofsSim

/-! ### dynamic prefixes -/

theorem wf_eq (n : Net) : n.wf = Spec.maskInRange n := rfl

theorem prefixes_eq (groups : List Group) : groups.map Spec.prefixesOf = groups.map loadGroup := by
  apply List.map_congr_left
  intro g _
  simp only [Spec.prefixesOf, loadGroup]
  congr 1

def NetsOct (groups : List Group) : Prop := ∀ g ∈ groups, ∀ n ∈ g.nets, bytesOk n.bytes

theorem wf_load (groups : List Group) (h : NetsOct groups) : WFGroups (groups.map loadGroup) := by
  intro g hg n hn
  obtain ⟨g0, hg0, rfl⟩ := List.mem_map.mp hg
  simp only [loadGroup, List.mem_filter] at hn
  exact ⟨by simpa [Net.wf] using hn.2, h g0 hg0 n hn.1⟩

theorem checkNetFlags_model (k : Nat) : ∀ (nets seenS seenM : List Net), (∀ n, n ∈ seenS ↔ n ∈ seenM) →
    Spec.checkNetFlags k nets seenS (netsAdded nets seenM) = .ok := by
  intro nets
  induction nets with
  | nil => intro _ _ _; simp [netsAdded, Spec.checkNetFlags]
  | cons n t ih =>
    intro seenS seenM hs
    have hc : seenS.contains n = seenM.contains n := by
      rw [Bool.eq_iff_iff]; simp [hs n]
    simp only [netsAdded, Spec.checkNetFlags, ← wf_eq]
    by_cases hw : n.wf = true
    · by_cases hcm : seenM.contains n = true
      · simp only [hw, hcm, hc, Bool.not_true, Bool.and_false, Bool.false_eq_true, if_false, if_true]
        exact ih seenS seenM hs
      · simp only [Bool.not_eq_true] at hcm
        simp only [hw, hcm, hc, Bool.not_true, Bool.not_false, Bool.and_true, Bool.false_eq_true, if_false, if_true]
        apply ih
        intro m
        simp [hs m, or_comm]
    · simp only [Bool.not_eq_true] at hw
      simp only [hw, Bool.false_and, Bool.not_false, if_true, Bool.false_eq_true, if_false]
      exact ih seenS seenM hs

theorem checkNets_model : ∀ (groups : List Group),
    Spec.checkNets groups (groups.map fun gr => netsAdded gr.nets []) = .ok := by
  intro groups
  induction groups with
  | nil => simp [Spec.checkNets]
  | cons g t ih =>
    simp only [List.map_cons, Spec.checkNets, checkNetFlags_model 0 g.nets [] [] (fun _ => Iff.rfl), Spec.Verdict.andThen]
    exact ih

/-! ### API neighbours -/

theorem hold_eq (h : Nat) : apiHoldOk h = Spec.holdTimeOk h := rfl

theorem apiPre_none (pc : PeerCase) (h : apiPre pc = none) : Spec.apiClass pc ≠ .valid := by
  unfold apiPre at h
  unfold Spec.apiClass
  cases ha : pc.api with
  | false => simp [ha] at h
  | true =>
    simp only [ha, Bool.not_true, Bool.false_eq_true, if_false] at h ⊢
    rw [← hold_eq]
    cases hh : apiHoldOk pc.params.hold with
    | false => simp
    | true =>
      simp only [Bool.not_true, Bool.false_eq_true, if_false]
      by_cases h1 : (pc.params.expected = 0 && pc.group.isNone) = true
      · simp [h1]
      · by_cases h2 : (pc.params.sm.any fun e => e.2 > 255) = true
        · simp [h1, h2]
        · simp [h1, h2, hh] at h

theorem apiPre_some (pc x : PeerCase) (h : apiPre pc = some x) :
    Spec.apiClass pc = .valid ∧ Spec.apiReading pc = x := by
  unfold apiPre at h
  unfold Spec.apiClass Spec.apiReading
  cases ha : pc.api with
  | false => simp only [ha, Bool.not_false, if_true, Option.some.injEq] at h; simp [h]
  | true =>
    simp only [ha, Bool.not_true, Bool.false_eq_true, if_false] at h ⊢
    rw [← hold_eq]
    by_cases h1 : (pc.params.expected = 0 && pc.group.isNone) = true
    · simp [h1] at h
    · by_cases h2 : (pc.params.sm.any fun e => e.2 > 255) = true
      · simp [h1, h2] at h
      · simp only [Bool.not_eq_true] at h2
        cases hh : apiHoldOk pc.params.hold with
        | false => simp [h1, h2, hh] at h
        | true =>
          rw [h2] at h
          simp only [h1, hh, DEFAULT_HOLD_TIME, Bool.not_true, Bool.false_eq_true, if_false, Option.some.injEq] at h
          rw [h2]
          simp only [Bool.not_true, Bool.false_eq_true, if_false, h1, true_and]
          exact h

theorem apiSplit_model : ∀ (pcs : List PeerCase) (fl : List Bool),
    fl.length = ((pcs.map apiPre).filterMap id).length →
    Spec.apiSplit pcs (mergeAdded (pcs.map apiPre) fl) = some ((pcs.map apiPre).filterMap id, fl) := by
  intro pcs
  induction pcs with
  | nil => intro fl h; cases fl <;> simp_all [mergeAdded, Spec.apiSplit]
  | cons pc t ih =>
    intro fl h
    cases hp : apiPre pc with
    | none =>
      have hcl := apiPre_none pc hp
      simp only [List.map_cons, hp, List.filterMap_cons, id] at h ⊢
      simp only [mergeAdded, Spec.apiSplit, ih fl h]
      cases hc : Spec.apiClass pc with
      | valid => exact absurd hc hcl
      | mayRefuse => simp
    | some x =>
      obtain ⟨hcl, hrd⟩ := apiPre_some pc x hp
      simp only [List.map_cons, hp, List.filterMap_cons, id, List.length_cons] at h ⊢
      cases fl with
      | nil => simp at h
      | cons f fl' =>
        simp only [List.length_cons, Nat.add_right_cancel_iff] at h
        simp only [mergeAdded, Spec.apiSplit, ih fl' h, hcl, hrd]

theorem setup_added_len : ∀ (pcs : List PeerCase) (st : St), (setupPeers st pcs).2.length = pcs.length := by
  intro pcs
  induction pcs with
  | nil => intro st; simp [setupPeers]
  | cons pc t ih =>
    intro st
    simp only [setupPeers]
    cases addPeer st (resolveParams st.groups pc) with
    | none => simp [ih st]
    | some st' => simp [ih st']

theorem pre_dyn (peers : List PeerCase) (h : ∀ pc ∈ peers, pc.params.dyn = false) :
    ∀ pc ∈ (peers.map apiPre).filterMap id, pc.params.dyn = false := by
  intro pc hpc
  simp only [List.mem_filterMap, List.mem_map, id] at hpc
  obtain ⟨o, ⟨pc0, hpc0, rfl⟩, ho⟩ := hpc
  have := h pc0 hpc0
  unfold apiPre at ho
  by_cases ha : pc0.api = true
  · simp only [ha, Bool.not_true, Bool.false_eq_true, if_false] at ho
    split at ho; · cases ho
    split at ho; · cases ho
    split at ho; · cases ho
    simp only [Option.some.injEq] at ho
    rw [← ho]; exact this
  · simp only [Bool.not_eq_true] at ha
    simp only [ha, Bool.not_false, if_true, Option.some.injEq] at ho
    rw [← ho]; exact this

/-! ### whole cases -/

/-- what a history case must satisfy: octets below 256, a confederation identifier other than 0,
    configured neighbours are not marked delete-on-disconnect -/
def CaseHistWF (g : GlobalCfg) (groups : List Group) (peers : List PeerCase) (ops : List Op) : Prop :=
  confedIdOk g.confed ∧ NetsOct groups ∧ (∀ pc ∈ peers, pc.params.dyn = false) ∧ OpsOk ops

theorem loaded_wf {g groups peers ops} (h : CaseHistWF g groups peers ops) :
    HistWF g (groups.map loadGroup) ((peers.map apiPre).filterMap id) ops :=
  ⟨h.1, wf_load groups h.2.1, pre_dyn peers h.2.2.1, h.2.2.2⟩

theorem runHist_ok (g : GlobalCfg) (groups : List Group) (peers : List PeerCase) (ops : List Op)
    (hwf : CaseHistWF g groups peers ops) : ∃ h, runHist g groups peers ops = .ok h := by
  obtain ⟨core, hc⟩ := runHistOn_ok g _ _ ops (loaded_wf hwf)
  unfold runHist
  simp only [bind, Bind.bind, hc, pure]
  exact ⟨_, rfl⟩

/-- **master theorem, histories.**  The reference checker accepts every history the model produces, for
    every configuration — whatever prefix lengths, repeated prefixes and API requests it contains;
    the only thing it may report is one of the three faces of the open finding F16c, and only in a
    history that contains a shutdown / reset / disable / delete. -/
theorem checkHist_model (g : GlobalCfg) (groups : List Group) (peers : List PeerCase) (ops : List Op)
    (hwf : CaseHistWF g groups peers ops) (h : HistObs) (hr : runHist g groups peers ops = .ok h) :
    HitOr (ops.any admOp) (Spec.checkHist g groups peers ops h) := by
  obtain ⟨core, hc⟩ := runHistOn_ok g _ _ ops (loaded_wf hwf)
  unfold runHist at hr
  simp only [bind, Bind.bind, hc, pure, Out.ok.injEq] at hr
  subst hr
  have hlen : core.added.length = ((peers.map apiPre).filterMap id).length := by
    have := hc
    generalize (peers.map apiPre).filterMap id = kept at this ⊢
    unfold runHistOn at this
    simp only [bind, Bind.bind] at this
    cases hro : runOps (setupPeers (initSt g (groups.map loadGroup)) kept).1 ops with
    | panic => rw [hro] at this; cases this
    | ok steps =>
      rw [hro] at this
      simp only [pure, Out.ok.injEq] at this
      rw [← this]
      exact setup_added_len _ _
  unfold Spec.checkHist
  simp only [checkNets_model, Spec.Verdict.andThen, apiSplit_model peers core.added hlen, prefixes_eq]
  exact checkHistOn_model g _ _ ops (loaded_wf hwf) core hc

end Rbgp.Accept.ProofsLoad
