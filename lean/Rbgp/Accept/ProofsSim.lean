/- The reference checker accepts every history the model produces (C16 master theorem, part 2). -/
import Rbgp.Accept.ProofsHist
import Rbgp.Accept.ProofsCfg
import Rbgp.Accept.ProofsNet
namespace Rbgp.Accept.ProofsSim
open Rbgp.Accept Rbgp.Accept.ProofsHist Rbgp.Accept.ProofsCfg Rbgp.Accept.ProofsNet

/-! ### the sorted report of the neighbour table -/

theorem mem_insBy {α} (key : α → Ip) (x y : α) : ∀ (l : List α), y ∈ insBy key x l ↔ (y = x ∨ y ∈ l)
  | [] => by simp [insBy]
  | z :: t => by
    simp only [insBy]
    split
    · simp
    · simp only [List.mem_cons, mem_insBy key x y t]
      constructor
      · rintro (h | h | h)
        · exact Or.inr (Or.inl h)
        · exact Or.inl h
        · exact Or.inr (Or.inr h)
      · rintro (h | h | h)
        · exact Or.inr (Or.inl h)
        · exact Or.inl h
        · exact Or.inr (Or.inr h)

theorem mem_sortBy {α} (key : α → Ip) (y : α) : ∀ (l : List α), y ∈ sortBy key l ↔ y ∈ l
  | [] => by simp [sortBy]
  | x :: t => by
    have : sortBy key (x :: t) = insBy key x (sortBy key t) := rfl
    rw [this, mem_insBy, mem_sortBy key y t]; simp

theorem find_unique {α} (p : α → Bool) (y : α) : ∀ (l : List α), y ∈ l → p y = true →
    (∀ x ∈ l, p x = true → x = y) → l.find? p = some y
  | [], h, _, _ => by simp at h
  | z :: t, hm, hp, hu => by
    simp only [List.find?_cons]
    by_cases hz : p z = true
    · simp only [hz]
      rw [hu z (by simp) hz]
    · have hz' : p z = false := by cases h : p z <;> simp_all
      simp only [hz']
      rcases List.mem_cons.mp hm with e | hm
      · subst e; rw [hp] at hz'; cases hz'
      · exact find_unique p y t hm hp (fun x hx => hu x (List.mem_cons_of_mem _ hx))

theorem find_none {α} (p : α → Bool) (l : List α) (h : ∀ x ∈ l, p x = false) : l.find? p = none := by
  apply List.find?_eq_none.mpr
  intro x hx; simp [h x hx]

theorem rowOf_snapshot (st : St) (hk : (st.peers.map (·.1)).Nodup) (a : Ip) :
    Spec.rowOf (snapshot st) a = (plookup a st.peers).map (fun p => snapRow st (a, p)) := by
  unfold Spec.rowOf snapshot
  cases hl : plookup a st.peers with
  | none =>
    simp only [Option.map_none]
    apply find_none
    intro x hx
    rw [mem_sortBy] at hx
    obtain ⟨e, he, rfl⟩ := List.mem_map.mp hx
    have := (plookup_none a st.peers).mp hl
    simp only [snapRow]
    apply decide_eq_false
    intro h; exact this (List.mem_map.mpr ⟨e, he, h⟩)
  | some p =>
    simp only [Option.map_some]
    have hm := plookup_mem a p st.peers hl
    apply find_unique
    · rw [mem_sortBy]; exact List.mem_map.mpr ⟨(a, p), hm, rfl⟩
    · simp [snapRow]
    · intro x hx hxa
      rw [mem_sortBy] at hx
      obtain ⟨e, he, rfl⟩ := List.mem_map.mp hx
      have : e.1 = a := of_decide_eq_true hxa
      have := eq_of_key hk he hm this
      rw [this]

theorem snapshot_all (st : St) (q : SnapRow → Bool) :
    (snapshot st).all q = true ↔ ∀ e ∈ st.peers, q (snapRow st e) = true := by
  simp only [List.all_eq_true, snapshot]
  constructor
  · intro h e he; exact h _ ((mem_sortBy _ _ _).mpr (List.mem_map.mpr ⟨e, he, rfl⟩))
  · intro h x hx
    rw [mem_sortBy] at hx
    obtain ⟨e, he, rfl⟩ := List.mem_map.mp hx
    exact h e he


/-! ### dynamic prefixes: the model's matching is the spec's covering -/

def WFNet (n : Net) : Prop := n.mask ≤ 8 * n.bytes.length ∧ bytesOk n.bytes
def WFGroups (gs : List Group) : Prop := ∀ g ∈ gs, ∀ n ∈ g.nets, WFNet n

theorem net_contains_eq (n : Net) (a : Ip) (hn : WFNet n) (ha : bytesOk a.bytes) :
    n.contains a = .ok (Spec.covers n a) := by
  by_cases hlen : n.bytes.length = a.bytes.length
  · rw [covers_eq]
    simp only [Net.contains, hlen, if_true, decide_true, Bool.true_and]
    exact containsF_cover n.bytes a.bytes n.mask hlen hn.1 hn.2 ha
  · simp [Net.contains, Spec.covers, hlen]

theorem netsContain_eq : ∀ (nets : List Net) (a : Ip), (∀ n ∈ nets, WFNet n) → bytesOk a.bytes →
    netsContain nets a = .ok (nets.any fun n => Spec.covers n a)
  | [], _, _, _ => rfl
  | n :: t, a, hn, ha => by
    simp only [netsContain, bind, Bind.bind, net_contains_eq n a (hn n (by simp)) ha, List.any_cons]
    by_cases hc : Spec.covers n a = true
    · simp [hc, pure]
    · have : Spec.covers n a = false := by cases h : Spec.covers n a <;> simp_all
      simp only [this, Bool.false_eq_true, if_false, Bool.false_or]
      exact netsContain_eq t a (fun m hm => hn m (List.mem_cons_of_mem _ hm)) ha

theorem matching_eq : ∀ (gs : List Group) (a : Ip), WFGroups gs → bytesOk a.bytes →
    matching gs a = .ok (Spec.coveringGroups gs a)
  | [], _, _, _ => rfl
  | g :: t, a, hg, ha => by
    have h1 := netsContain_eq g.nets a (hg g (by simp)) ha
    have h2 := matching_eq t a (fun x hx => hg x (List.mem_cons_of_mem _ hx)) ha
    simp only [matching, bind, Bind.bind, h1, h2, pure, Spec.coveringGroups, List.filter_cons]

/-! ### coupling of the model state with what the checker remembers -/

def lcore (x : Spec.LiveS) : Nat × Ip × Role × Nat × Nat × List Cap :=
  (x.sid, x.addr, x.role, x.cfg.localAsn, x.cfg.hold, x.cfg.caps)
def score (s : Sess) : Nat × Ip × Role × Nat × Nat × List Cap :=
  (s.sid, s.addr, s.role, s.asn, s.hold, s.caps)

def knownFor (st : St) (e : Ip × Peer) : Spec.Known := ⟨e.1, e.2.cfg, peerRole e.2.cfg st.confed⟩

structure Coupled (gl : GlobalCfg) (groups : List Group) (st : St) (σ : Spec.S) : Prop where
  glob : st.asn = gl.asn ∧ st.rid = gl.rid ∧ st.confed = gl.confed ∧ st.groups = groups
  rows : σ.rows = snapshot st
  next : σ.nextSid = st.nextSid
  live : σ.live.map lcore = st.live.map score
  knownCur : ∀ kn ∈ σ.known, ∃ e ∈ st.peers, kn = knownFor st e
  knownAll : ∀ e ∈ st.peers, ∃ kn ∈ σ.known, kn.addr = e.1
  healthy : ∀ x ∈ σ.live, x.closing = false →
    ∃ p, plookup x.addr st.peers = some p ∧ (st.ctx p.ctx).get x.role = some x.sid
  uniq : ∀ s1 ∈ st.live, ∀ s2 ∈ st.live, s1.ctx = s2.ctx → s1.role = s2.role → s1.sid ≠ s2.sid →
    ∀ x ∈ σ.live, (x.sid = s1.sid ∨ x.sid = s2.sid) → x.closing = true

theorem knownOf_cur {gl groups st σ} (hc : Coupled gl groups st σ) (e : Ip × Peer) (he : e ∈ st.peers)
    (hk : (st.peers.map (·.1)).Nodup) : Spec.knownOf σ.known e.1 = some (knownFor st e) := by
  obtain ⟨kn, hkn, ha⟩ := hc.knownAll e he
  unfold Spec.knownOf
  cases hf : σ.known.find? (fun r => r.addr = e.1) with
  | none =>
    have := List.find?_eq_none.mp hf kn hkn
    simp [ha] at this
  | some k =>
    have hm := List.mem_of_find?_eq_some hf
    have hka : k.addr = e.1 := by simpa using List.find?_some hf
    obtain ⟨e', he', rfl⟩ := hc.knownCur k hm
    have : e' = e := eq_of_key hk he' he hka
    rw [this]

/-- the spec's live list mirrors the model's -/
theorem live_mem_of_model {σl : List Spec.LiveS} {l : List Sess} (h : σl.map lcore = l.map score) (s : Sess) (hs : s ∈ l) :
    ∃ x ∈ σl, lcore x = score s := by
  have : score s ∈ σl.map lcore := by rw [h]; exact List.mem_map.mpr ⟨s, hs, rfl⟩
  obtain ⟨x, hx, e⟩ := List.mem_map.mp this
  exact ⟨x, hx, e⟩

theorem live_mem_of_spec {σl : List Spec.LiveS} {l : List Sess} (h : σl.map lcore = l.map score) (x : Spec.LiveS) (hx : x ∈ σl) :
    ∃ s ∈ l, lcore x = score s := by
  have : lcore x ∈ l.map score := by rw [← h]; exact List.mem_map.mpr ⟨x, hx, rfl⟩
  obtain ⟨s, hs, e⟩ := List.mem_map.mp this
  exact ⟨s, hs, e.symm⟩

theorem find_sid_coupled : ∀ (σl : List Spec.LiveS) (l : List Sess), σl.map lcore = l.map score → ∀ sid,
    (σl.find? (fun x => x.sid = sid) = none ∧ l.find? (fun x => x.sid = sid) = none) ∨
    (∃ x s, σl.find? (fun x => x.sid = sid) = some x ∧ l.find? (fun x => x.sid = sid) = some s ∧ lcore x = score s)
  | [], [], _, _ => Or.inl ⟨rfl, rfl⟩
  | [], _ :: _, h, _ => by simp at h
  | _ :: _, [], h, _ => by simp at h
  | x :: xs, s :: ss, h, sid => by
    simp only [List.map_cons, List.cons.injEq] at h
    have hsid : x.sid = s.sid := by have := h.1; simp only [lcore, score, Prod.mk.injEq] at this; exact this.1
    simp only [List.find?_cons, hsid]
    by_cases hs : s.sid = sid
    · right; exact ⟨x, s, by simp [hs], by simp [hs], h.1⟩
    · simp only [hs, decide_false]
      exact find_sid_coupled xs ss h.2 sid

theorem filter_sid_coupled : ∀ (σl : List Spec.LiveS) (l : List Sess), σl.map lcore = l.map score → ∀ sid,
    (σl.filter (fun x => x.sid != sid)).map lcore = (l.filter (fun x => x.sid != sid)).map score
  | [], [], _, _ => rfl
  | [], _ :: _, h, _ => by simp at h
  | _ :: _, [], h, _ => by simp at h
  | x :: xs, s :: ss, h, sid => by
    simp only [List.map_cons, List.cons.injEq] at h
    have hsid : x.sid = s.sid := by have := h.1; simp only [lcore, score, Prod.mk.injEq] at this; exact this.1
    simp only [List.filter_cons, hsid]
    by_cases hs : s.sid = sid
    · simp only [hs, bne_self_eq_false, Bool.false_eq_true, if_false]; exact filter_sid_coupled xs ss h.2 sid
    · have : (s.sid != sid) = true := by simpa using hs
      simp only [this, if_true, List.map_cons, h.1, filter_sid_coupled xs ss h.2 sid]

theorem closeAll_lcore (l : List Spec.LiveS) (a : Ip) : (Spec.closeAll l a).map lcore = l.map lcore := by
  simp only [Spec.closeAll, List.map_map]
  apply List.map_congr_left; intro x _; simp only [Function.comp]; split <;> rfl

theorem closeVanished_lcore (rows : List SnapRow) (l : List Spec.LiveS) :
    (Spec.closeVanished rows l).map lcore = l.map lcore := by
  simp only [Spec.closeVanished, List.map_map]
  apply List.map_congr_left; intro x _; simp only [Function.comp]; split <;> rfl


/-! ### small facts used by the step lemmas -/

theorem plookup_append (a : Ip) (l : List (Ip × Peer)) (e : Ip × Peer) :
    plookup a (l ++ [e]) = match plookup a l with | some p => some p | none => if e.1 = a then some e.2 else none := by
  induction l with
  | nil => obtain ⟨k, v⟩ := e; simp [plookup]
  | cons x t ih =>
    obtain ⟨k, v⟩ := x
    simp only [List.cons_append, plookup]
    by_cases hk : k = a
    · simp [hk]
    · simp only [hk, if_false, ih]

theorem mem_sins (k x : String) : ∀ (l : List String), x ∈ sins k l ↔ (x = k ∨ x ∈ l)
  | [] => by simp [sins]
  | y :: t => by
    simp only [sins]
    split
    · simp
    · split
      · rename_i h; subst h; simp
      · simp only [List.mem_cons, mem_sins k x t]
        constructor
        · rintro (h | h | h)
          · exact Or.inr (Or.inl h)
          · exact Or.inl h
          · exact Or.inr (Or.inr h)
        · rintro (h | h | h)
          · exact Or.inr (Or.inl h)
          · exact Or.inl h
          · exact Or.inr (Or.inr h)

theorem mem_ssort (x : String) : ∀ (l : List String), x ∈ ssort l ↔ x ∈ l
  | [] => by simp [ssort]
  | y :: t => by
    have : ssort (y :: t) = sins y (ssort t) := rfl
    rw [this, mem_sins, mem_ssort x t]; simp

theorem all_true {l : List (Bool × String)} (h : ∀ e ∈ l, e.1 = true) (k : Nat) : Spec.firstFail k l = .ok := by
  induction l with
  | nil => rfl
  | cons a t ih =>
    obtain ⟨b, c⟩ := a
    have : b = true := h (b, c) (by simp)
    subst this
    simp only [Spec.firstFail]
    exact ih (fun e he => h e (List.mem_cons_of_mem _ he))

/-- the session `accept_connection` builds uses exactly the neighbour's stored configuration -/
theorem sessOk_open (gl : GlobalCfg) (st : St) (a : Ip) (p : Peer) (role : Role)
    (hg : st.rid = gl.rid ∧ st.confed = gl.confed) :
    ∀ e ∈ Spec.sessOk gl p.cfg (peerRole p.cfg st.confed)
        { role := peerRole p.cfg st.confed, localAsn := p.cfg.localAsn, caps := p.cfg.caps, pl := p.cfg.pl
          cluster := clusterOf (peerRole p.cfg st.confed) p.cfg st.rid
          confedId := confedIdOf st.confed, restarting := false },
      e.1 = true := by
  intro e he
  simp only [Spec.sessOk, List.mem_cons, List.mem_nil_iff, or_false] at he
  rcases he with rfl | rfl | rfl | rfl | rfl
  · simp
  · simp
  · simp
  · simp only [decide_eq_true_eq, ← hg.1]
    cases peerRole p.cfg st.confed <;> simp [clusterOf]
  · simp only [decide_eq_true_eq, ← hg.2]
    cases st.confed with
    | none => rfl
    | some c => obtain ⟨id, m⟩ := c; rfl

theorem openSession_res (st : St) (a : Ip) (p : Peer) (role : Role) :
    (openSession st a p role).2 =
      .accept st.nextSid
        { role := peerRole p.cfg st.confed, localAsn := p.cfg.localAsn, caps := p.cfg.caps, pl := p.cfg.pl
          cluster := clusterOf (peerRole p.cfg st.confed) p.cfg st.rid
          confedId := confedIdOf st.confed, restarting := false }
        p.cfg (peerRole p.cfg st.confed) := by
  simp [openSession, St.setCtx]

/-- in a state satisfying the invariant every dynamic row of the report has a live connection -/
theorem dynRows_ok (st : St) (σl : List Spec.LiveS) (hi : Inv st) (hl : σl.map lcore = st.live.map score) :
    Spec.dynRowsHaveConn (snapshot st) σl = true := by
  unfold Spec.dynRowsHaveConn
  rw [snapshot_all]
  intro e he
  simp only [Spec.imp, Bool.or_eq_true, Bool.not_eq_true', List.any_eq_true, decide_eq_true_eq, snapRow]
  by_cases hd : e.2.cfg.dyn = true
  · right
    obtain ⟨s, hs, hc⟩ := hi.dyn e he hd
    have haddr := hi.core.owner s hs e he hc
    obtain ⟨x, hx, hxs⟩ := live_mem_of_model hl s hs
    simp only [lcore, score, Prod.mk.injEq] at hxs
    exact ⟨x, hx, by rw [hxs.2.1, haddr]; simp⟩
  · left; simpa using hd


/-! ### one step of the checker against one step of the model -/

def KnownFail (v : Spec.Verdict) : Prop :=
  ∃ k, v = .fail k "accepted-while-closing-connection-same-direction"

theorem rowOf_coupled {gl groups st σ} (hc : Coupled gl groups st σ) (hi : Inv st) (a : Ip) :
    Spec.rowOf σ.rows a = (plookup a st.peers).map (fun p => snapRow st (a, p)) := by
  rw [hc.rows]; exact rowOf_snapshot st hi.core.keys a

/-- a rejected connection: nothing changes, and the checker is satisfied provided the rejection
    was one of the permitted ones -/
theorem sim_reject (gl : GlobalCfg) (groups : List Group) (st : St) (σ : Spec.S) (a : Ip) (role : Role) (k : Nat)
    (hc : Coupled gl groups st σ) (hi : Inv st)
    (h1 : ∀ p, plookup a st.peers = some p → p.adminDown = false →
      ∃ x ∈ σ.live, x.addr = a ∧ x.role = role)
    (h2 : plookup a st.peers = none → Spec.coveringGroups groups a = []) :
    Spec.checkConnect gl groups k σ a role { res := .reject 0, snap := snapshot st } = (.ok, σ, false) := by
  unfold Spec.checkConnect
  simp only
  have hrow := rowOf_coupled hc hi a
  have c1 : Spec.imp ((Spec.rowOf σ.rows a).isSome && decide ((Spec.rowOf σ.rows a).map (·.adminDown) = some false))
      (!((Spec.liveFor σ.live a).filter fun s => s.role = role).isEmpty) = true := by
    unfold Spec.imp
    rw [hrow]
    cases hl : plookup a st.peers with
    | none => simp
    | some p =>
      simp only [Option.map_some, Option.isSome_some, Bool.true_and, snapRow]
      by_cases had : p.adminDown = false
      · obtain ⟨x, hx, hxa, hxr⟩ := h1 p hl had
        have : x ∈ (Spec.liveFor σ.live a).filter fun s => s.role = role := by
          simp only [Spec.liveFor, List.mem_filter, decide_eq_true_eq]; exact ⟨⟨hx, hxa⟩, hxr⟩
        cases hh : (Spec.liveFor σ.live a).filter fun s => s.role = role with
        | nil => rw [hh] at this; simp at this
        | cons _ _ => simp
      · have : p.adminDown = true := by cases h : p.adminDown <;> simp_all
        simp [this]
  have c2 : Spec.imp (Spec.rowOf σ.rows a).isNone (Spec.coveringGroups groups a).isEmpty = true := by
    unfold Spec.imp
    rw [hrow]
    cases hl : plookup a st.peers with
    | none => simp [h2 hl]
    | some p => simp
  have c3 : (snapshot st == σ.rows) = true := by rw [hc.rows]; simp
  simp only [c1, c2, c3, Spec.firstFail, decide_true]


theorem snapshot_open_has (st : St) (a : Ip) (p : Peer) (role : Role) (hk : (st.peers.map (·.1)).Nodup)
    (hl : plookup a st.peers = some p) :
    (Spec.rowOf (snapshot (openSession st a p role).1) a).isSome = true := by
  have f1 : (openSession st a p role).1.peers = st.peers := (openSession_fields st a p role).1
  rw [rowOf_snapshot _ (by rw [f1]; exact hk), f1, hl]; rfl

/-- the new spec-side record of an accepted session -/
def newLive (st : St) (a : Ip) (p : Peer) (role : Role) : Spec.LiveS := ⟨st.nextSid, a, role, false, p.cfg⟩

theorem coupled_open (gl : GlobalCfg) (groups : List Group) (st : St) (σ : Spec.S) (a : Ip) (p : Peer) (role : Role)
    (hc : Coupled gl groups st σ) (hi : InvCore st) (hl : plookup a st.peers = some p)
    (hfree : (st.ctx p.ctx).get role = none)
    (hnone : ∀ s ∈ st.live, s.ctx = p.ctx → s.role = role → False) (known' : List Spec.Known)
    (hk1 : ∀ kn ∈ known', ∃ e ∈ st.peers, kn = knownFor st e) (hk2 : ∀ e ∈ st.peers, ∃ kn ∈ known', kn.addr = e.1) :
    Coupled gl groups (openSession st a p role).1
      { rows := snapshot (openSession st a p role).1, known := known'
        live := σ.live ++ [newLive st a p role], nextSid := st.nextSid + 1 } := by
  obtain ⟨f1, f2, f3, g1, g2, g3, g4, s, f4, s1, s2, s3, s4, s5, s6, s7, s8⟩ := openSession_fields st a p role
  have hm := plookup_mem a p st.peers hl
  have hp := hi.ctxLt _ hm
  have hctx := ctx_openSession st a p role hp
  have hkf : ∀ e, knownFor (openSession st a p role).1 e = knownFor st e := by
    intro e; simp only [knownFor, g3]
  refine ⟨⟨by rw [g1]; exact hc.glob.1, by rw [g2]; exact hc.glob.2.1, by rw [g3]; exact hc.glob.2.2.1,
    by rw [g4]; exact hc.glob.2.2.2⟩, rfl, f3.symm, ?_, ?_, ?_, ?_, ?_⟩
  · simp only [List.map_append, hc.live, f4, List.map_cons, List.map_nil]
    congr 1
    simp only [lcore, score, newLive, s1, s2, s3, s6, s7, s8]
  · intro kn hkn
    obtain ⟨e, he, hke⟩ := hk1 kn hkn
    exact ⟨e, by rw [f1]; exact he, by rw [hkf]; exact hke⟩
  · intro e he; rw [f1] at he; exact hk2 e he
  · intro x hx hxc
    simp only [List.mem_append, List.mem_cons, List.mem_nil_iff, or_false] at hx
    rcases hx with hx | hx
    · obtain ⟨q, hq1, hq2⟩ := hc.healthy x hx hxc
      refine ⟨q, by rw [f1]; exact hq1, ?_⟩
      rw [hctx]
      by_cases hqc : q.ctx = p.ctx
      · simp only [hqc, if_true, get_set]
        by_cases hr : x.role = role
        · exfalso
          rw [hqc, hr, hfree] at hq2; cases hq2
        · simp only [hr, if_false]; rw [← hqc]; exact hq2
      · simp only [hqc, if_false]; exact hq2
    · subst hx
      refine ⟨p, by rw [f1]; exact hl, ?_⟩
      rw [hctx]; simp [newLive, get_set]
  · intro t1 h1 t2 h2 hct hrl hne x hx hxs
    rw [f4] at h1 h2
    simp only [List.mem_append, List.mem_cons, List.mem_nil_iff, or_false] at h1 h2 hx
    rcases h1 with h1 | h1 <;> rcases h2 with h2 | h2
    · rcases hx with hx | hx
      · exact hc.uniq t1 h1 t2 h2 hct hrl hne x hx hxs
      · exfalso
        subst hx
        simp only [newLive] at hxs
        rcases hxs with e | e
        · have := (hi.liveLt t1 h1).1; omega
        · have := (hi.liveLt t2 h2).1; omega
    · exfalso; subst h2; exact hnone t1 h1 (by rw [hct, s4]) (by rw [hrl, s3])
    · exfalso; subst h1; exact hnone t2 h2 (by rw [← hct, s4]) (by rw [← hrl, s3])
    · exfalso; subst h1; subst h2; exact hne rfl


theorem sim_accept_known (gl : GlobalCfg) (groups : List Group) (st : St) (σ : Spec.S) (a : Ip) (role : Role) (k : Nat)
    (hc : Coupled gl groups st σ) (hi : Inv st) (p : Peer) (hl : plookup a st.peers = some p)
    (had : p.adminDown = false) (hfree : (st.ctx p.ctx).get role = none) :
    (∃ σ', Spec.checkConnect gl groups k σ a role
        { res := (openSession st a p role).2, snap := snapshot (openSession st a p role).1 } = (.ok, σ', false) ∧
        Coupled gl groups (openSession st a p role).1 σ') ∨
    KnownFail (Spec.checkConnect gl groups k σ a role
        { res := (openSession st a p role).2, snap := snapshot (openSession st a p role).1 }).1 := by
  have hm := plookup_mem a p st.peers hl
  have hrow : Spec.rowOf σ.rows a = some (snapRow st (a, p)) := by rw [rowOf_coupled hc hi a, hl]; rfl
  -- no healthy connection of that direction exists: the slot is free
  have hsame : ∀ x ∈ (Spec.liveFor σ.live a).filter (fun s => s.role = role), x.closing = true := by
    intro x hx
    simp only [Spec.liveFor, List.mem_filter, decide_eq_true_eq] at hx
    obtain ⟨⟨hx1, hx2⟩, hx3⟩ := hx
    cases hcl : x.closing with
    | true => rfl
    | false =>
      exfalso
      obtain ⟨q, hq1, hq2⟩ := hc.healthy x hx1 hcl
      rw [hx2, hl] at hq1; injection hq1 with hq1
      rw [← hq1, hx3, hfree] at hq2; cases hq2
  have hany : (((Spec.liveFor σ.live a).filter (fun s => s.role = role)).any fun s => !s.closing) = false := by
    rw [Bool.eq_false_iff]; intro h
    simp only [List.any_eq_true, Bool.not_eq_true'] at h
    obtain ⟨x, hx, hxc⟩ := h
    rw [hsame x hx] at hxc; cases hxc
  rw [openSession_res]
  unfold Spec.checkConnect
  simp only [hrow, snapRow, had, Bool.false_eq_true, if_false, hany]
  by_cases hemp : ((Spec.liveFor σ.live a).filter (fun s => s.role = role)).isEmpty = true
  · left
    have hknown := knownOf_cur hc (a, p) hm hi.core.keys
    simp only at hknown
    simp only [hemp, Bool.not_true, Bool.false_eq_true, if_false, hc.next, bne_self_eq_false, hknown]
    -- nobody of this context and direction is connected
    have hnone : ∀ s ∈ st.live, s.ctx = p.ctx → s.role = role → False := by
      intro s hs hsc hsr
      have haddr := hi.core.owner s hs (a, p) hm hsc
      obtain ⟨x, hx, hxs⟩ := live_mem_of_model hc.live s hs
      simp only [lcore, score, Prod.mk.injEq] at hxs
      have : x ∈ (Spec.liveFor σ.live a).filter (fun s => s.role = role) := by
        simp only [Spec.liveFor, List.mem_filter, decide_eq_true_eq]
        exact ⟨⟨hx, by rw [hxs.2.1, haddr]⟩, by rw [hxs.2.2.1, hsr]⟩
      rw [List.isEmpty_iff.mp hemp] at this; simp at this
    have hcoup := coupled_open gl groups st σ a p role hc hi.core hl hfree hnone σ.known hc.knownCur hc.knownAll
    have hinv' : Inv (openSession st a p role).1 :=
      ⟨inv_openSession st a p role hi.core hm, dyn_openSession st a p role hi.dyn⟩
    refine ⟨_, ?_, hcoup⟩
    have hall : ∀ e ∈ ([ (decide (p.cfg = (knownFor st (a, p)).cfg) && decide (peerRole p.cfg st.confed = (knownFor st (a, p)).role),
            "neighbour-configuration-changed") ]
          ++ Spec.sessOk gl p.cfg (peerRole p.cfg st.confed)
              { role := peerRole p.cfg st.confed, localAsn := p.cfg.localAsn, caps := p.cfg.caps, pl := p.cfg.pl
                cluster := clusterOf (peerRole p.cfg st.confed) p.cfg st.rid
                confedId := confedIdOf st.confed, restarting := false }
          ++ [ ((Spec.rowOf (snapshot (openSession st a p role).1) a).isSome, "accepted-without-neighbour-state"),
               (Spec.dynRowsHaveConn (snapshot (openSession st a p role).1)
                  (σ.live ++ [⟨st.nextSid, a, role, false, p.cfg⟩]), "dynamic-neighbour-without-connection") ]),
        e.1 = true := by
      intro e he
      simp only [List.mem_append, List.mem_cons, List.mem_nil_iff, or_false] at he
      rcases he with (rfl | he) | rfl | rfl
      · simp [knownFor]
      · exact sessOk_open gl st a p role ⟨hc.glob.2.1, hc.glob.2.2.1⟩ e he
      · exact snapshot_open_has st a p role hi.core.keys hl
      · exact dynRows_ok _ _ hinv' hcoup.live
    rw [all_true hall k]
    rfl
  · right
    have : ((Spec.liveFor σ.live a).filter (fun s => s.role = role)).isEmpty = false := by
      cases h : ((Spec.liveFor σ.live a).filter (fun s => s.role = role)).isEmpty <;> simp_all
    simp only [this, Bool.not_false, if_true]
    exact ⟨k, rfl⟩


/-! ### a new dynamic neighbour -/

theorem coupled_addPeer (gl : GlobalCfg) (groups : List Group) (st st1 : St) (σ : Spec.S) (prm : Params)
    (hc : Coupled gl groups st σ) (h : addPeer st prm = some st1) :
    Coupled gl groups st1
      { σ with rows := snapshot st1, known := σ.known ++ [knownFor st1 (newPeer st prm)] } := by
  obtain ⟨hnone, rfl⟩ := addPeer_eq st prm st1 h
  have hkf : ∀ e, knownFor ({ st with peers := st.peers ++ [newPeer st prm], ctxs := st.ctxs ++ [{}] } : St) e = knownFor st e :=
    fun e => rfl
  refine ⟨hc.glob, rfl, hc.next, hc.live, ?_, ?_, ?_, hc.uniq⟩
  · intro kn hkn
    simp only [List.mem_append, List.mem_cons, List.mem_nil_iff, or_false] at hkn
    rcases hkn with hkn | hkn
    · obtain ⟨e, he, hke⟩ := hc.knownCur kn hkn
      exact ⟨e, List.mem_append_left _ he, hke⟩
    · exact ⟨newPeer st prm, by simp, hkn⟩
  · intro e he
    rcases List.mem_append.mp he with he | he
    · obtain ⟨kn, hkn, hka⟩ := hc.knownAll e he
      exact ⟨kn, List.mem_append_left _ hkn, hka⟩
    · have : e = newPeer st prm := by simpa using he
      exact ⟨knownFor st e, by rw [this]; simp [hkf], rfl⟩
  · intro x hx hxc
    obtain ⟨q, hq1, hq2⟩ := hc.healthy x hx hxc
    refine ⟨q, ?_, ?_⟩
    · show plookup x.addr (st.peers ++ [newPeer st prm]) = some q
      rw [plookup_append, hq1]
    · rw [ctx_append st _ rfl]; exact hq2

theorem sim_accept_dynamic (gl : GlobalCfg) (groups : List Group) (st st1 : St) (σ : Spec.S) (a : Ip) (role : Role) (k : Nat)
    (hc : Coupled gl groups st σ) (hi : Inv st) (hcid : confedIdOk gl.confed) (g : Group) (p : Peer)
    (hlk : plookup a st.peers = none) (hcov : Spec.coveringGroups groups a = [g])
    (h1 : addPeer st (paramsOfGroup g a) = some st1) (h2 : plookup a st1.peers = some p) :
    ∃ σ', Spec.checkConnect gl groups k σ a role
        { res := (openSession st1 a p role).2, snap := snapshot (openSession st1 a p role).1 } = (.ok, σ', false) ∧
      Coupled gl groups (openSession st1 a p role).1 σ' := by
  have hc1 := coupled_addPeer gl groups st st1 σ _ hc h1
  have hd : (newPeer st (paramsOfGroup g a)).2.cfg.dyn = true := by
    simp only [newPeer]; rw [build_dyn]; rfl
  have hcore1 := inv_addPeer st _ st1 h1 hi.core (Or.inl hd)
  have hinv' := inv_acceptDynamic st st1 g a role p hi h1 h2
  obtain ⟨_, heq⟩ := addPeer_eq st _ st1 h1
  -- the neighbour found is the one just created
  have hp : p = (newPeer st (paramsOfGroup g a)).2 := by
    rw [heq] at h2
    have : plookup a (st.peers ++ [newPeer st (paramsOfGroup g a)]) = some p := h2
    rw [plookup_append, hlk] at this
    simp only [newPeer, paramsOfGroup, if_true, Option.some.injEq] at this
    exact this.symm
  have hpctx : p.ctx = st.ctxs.length := by rw [hp]; rfl
  have hfree : (st1.ctx p.ctx).get role = none := by
    rw [heq, ctx_append st _ rfl, hpctx, ctx_default st _ (Nat.le_refl _)]
    cases role <;> rfl
  have hnone : ∀ s ∈ st1.live, s.ctx = p.ctx → s.role = role → False := by
    intro s hs hsc _
    have hs' : s ∈ st.live := by rw [heq] at hs; exact hs
    have := (hi.core.liveLt s hs').2
    omega
  have hcoup := coupled_open gl groups st1 _ a p role hc1 hcore1 h2 hfree hnone _ hc1.knownCur hc1.knownAll
  have hrow : Spec.rowOf σ.rows a = none := by rw [rowOf_coupled hc hi a, hlk]; rfl
  have hn1 : st1.nextSid = st.nextSid := by rw [heq]
  have hconf1 : st1.confed = st.confed := by rw [heq]
  have hrid1 : st1.rid = st.rid := by rw [heq]
  refine ⟨_, ?_, hcoup⟩
  rw [openSession_res]
  unfold Spec.checkConnect
  simp only [hrow, hcov, hn1, hc.next, bne_self_eq_false, Bool.false_eq_true, if_false]
  have hcfg : p.cfg = build (confedAdjust st.asn st.confed (paramsOfGroup g a)) st.asn := by rw [hp]; rfl
  have hall : ∀ e ∈ (Spec.cfgOk gl (Spec.wantDynamic g) (decide (a.bytes.length = 16)) p.cfg (peerRole p.cfg st1.confed)
        ++ Spec.sessOk gl p.cfg (peerRole p.cfg st1.confed)
            { role := peerRole p.cfg st1.confed, localAsn := p.cfg.localAsn, caps := p.cfg.caps, pl := p.cfg.pl
              cluster := clusterOf (peerRole p.cfg st1.confed) p.cfg st1.rid
              confedId := confedIdOf st1.confed, restarting := false }
        ++ [ (decide ((Spec.rowOf (snapshot (openSession st1 a p role).1) a).map (·.dyn) = some true), "accepted-without-dynamic-neighbour-state"),
             (Spec.dynRowsHaveConn (snapshot (openSession st1 a p role).1)
                (σ.live ++ [⟨st.nextSid, a, role, false, p.cfg⟩]), "dynamic-neighbour-without-connection") ]),
      e.1 = true := by
    intro e he
    simp only [List.mem_append, List.mem_cons, List.mem_nil_iff, or_false] at he
    rcases he with (he | he) | rfl | rfl
    · have := cfgOk_build st.asn st.rid st.confed (paramsOfGroup g a) (by rw [hc.glob.2.2.1]; exact hcid) e
      rw [want_dynamic, ← hcfg, hconf1] at *
      apply this
      have hgl : (⟨st.asn, st.rid, st.confed⟩ : GlobalCfg) = gl := by
        cases gl; simp only [GlobalCfg.mk.injEq]; exact ⟨hc.glob.1, hc.glob.2.1, hc.glob.2.2.1⟩
      rw [hgl]
      exact he
    · exact sessOk_open gl st1 a p role ⟨by rw [hrid1]; exact hc.glob.2.1, by rw [hconf1]; exact hc.glob.2.2.1⟩ e he
    · have f1 : (openSession st1 a p role).1.peers = st1.peers := (openSession_fields st1 a p role).1
      simp only [decide_eq_true_eq]
      rw [rowOf_snapshot _ (by rw [f1]; exact hcore1.keys), f1, h2]
      simp only [Option.map_some, snapRow, Option.some.injEq]
      rw [hcfg, build_dyn]; rfl
    · have := dynRows_ok _ _ hinv' hcoup.live
      simp only [newLive, hn1] at this
      exact this
  rw [all_true hall k]
  simp only [Prod.mk.injEq, true_and, and_true]
  congr 1
  · simp only [knownFor, newPeer, paramsOfGroup, hconf1, hcfg]
  · simp only [newLive, hn1]


/-! ### connect -/

theorem sim_amb (gl : GlobalCfg) (groups : List Group) (st : St) (σ : Spec.S) (a : Ip) (role : Role) (k : Nat)
    (hc : Coupled gl groups st σ) (hi : Inv st) (hlk : plookup a st.peers = none)
    (g1 g2 : Group) (rest : List Group) (hcov : Spec.coveringGroups groups a = g1 :: g2 :: rest) :
    Spec.checkConnect gl groups k σ a role
        { res := .acceptAmb st.nextSid (ssort (groupNames (g1 :: g2 :: rest))) true, snap := [] } = (.ok, σ, true) := by
  have hrow : Spec.rowOf σ.rows a = none := by rw [rowOf_coupled hc hi a, hlk]; rfl
  unfold Spec.checkConnect
  simp only [hrow, hcov, Option.isSome_none, Bool.false_eq_true, if_false, List.length_cons]
  have hlen : ¬ (rest.length + 1 + 1 < 2) := by omega
  simp only [hlen, if_false]
  have hset : Spec.checkConnect.sameSetS (ssort (groupNames (g1 :: g2 :: rest))) ((g1 :: g2 :: rest).map (·.name)) = true := by
    simp only [Spec.checkConnect.sameSetS, Bool.and_eq_true, List.all_eq_true, List.contains_iff_mem]
    constructor
    · intro x hx; rw [mem_ssort] at hx; exact hx
    · intro x hx; rw [mem_ssort]; exact hx
  simp only [hc.next, hset, decide_true, Spec.firstFail]

theorem sim_connect (gl : GlobalCfg) (groups : List Group) (st : St) (σ : Spec.S) (a : Ip) (role : Role) (k : Nat)
    (hc : Coupled gl groups st σ) (hi : Inv st) (hwf : WFGroups groups) (ha : bytesOk a.bytes)
    (hcid : confedIdOk gl.confed) (st' : St) (res : Res) (abort : Bool)
    (h : acceptConnection st a role = .ok (st', res, abort)) :
    (∃ σ', Spec.checkConnect gl groups k σ a role { res := res, snap := if abort then [] else snapshot st' } = (.ok, σ', abort) ∧
        (abort = false → Coupled gl groups st' σ')) ∨
    KnownFail (Spec.checkConnect gl groups k σ a role { res := res, snap := if abort then [] else snapshot st' }).1 := by
  unfold acceptConnection at h
  cases hl : plookup a st.peers with
  | some p =>
    simp only [hl] at h
    by_cases had : p.adminDown = true
    · simp only [had, if_true, Out.ok.injEq, Prod.mk.injEq] at h
      obtain ⟨rfl, rfl, rfl⟩ := h
      left
      refine ⟨σ, ?_, fun _ => hc⟩
      simp only [Bool.false_eq_true, if_false]
      apply sim_reject gl groups st σ a role k hc hi
      · intro q hq hqa; rw [hl] at hq; injection hq with hq; rw [← hq, had] at hqa; cases hqa
      · intro hn; rw [hl] at hn; cases hn
    · have had' : p.adminDown = false := by cases hh : p.adminDown <;> simp_all
      simp only [had, Bool.false_eq_true, if_false] at h
      by_cases hs : ((st.ctx p.ctx).get role).isSome = true
      · simp only [hs, if_true, Out.ok.injEq, Prod.mk.injEq] at h
        obtain ⟨rfl, rfl, rfl⟩ := h
        left
        refine ⟨σ, ?_, fun _ => hc⟩
        simp only [Bool.false_eq_true, if_false]
        apply sim_reject gl groups st σ a role k hc hi
        · intro q hq _
          rw [hl] at hq; injection hq with hq; subst hq
          obtain ⟨sid, hsid⟩ := Option.isSome_iff_exists.mp hs
          obtain ⟨s, hs1, _, hs3, hs4⟩ := hi.core.slotLive p.ctx role sid hsid
          have haddr := hi.core.owner s hs1 (a, p) (plookup_mem _ _ _ hl) hs3
          obtain ⟨x, hx, hxs⟩ := live_mem_of_model hc.live s hs1
          simp only [lcore, score, Prod.mk.injEq] at hxs
          exact ⟨x, hx, by rw [hxs.2.1, haddr], by rw [hxs.2.2.1, hs4]⟩
        · intro hn; rw [hl] at hn; cases hn
      · have hfree : (st.ctx p.ctx).get role = none := by
          cases hh : (st.ctx p.ctx).get role <;> simp_all
        simp only [hs, Bool.false_eq_true, if_false, Out.ok.injEq, Prod.mk.injEq] at h
        obtain ⟨rfl, rfl, rfl⟩ := h
        simp only [Bool.false_eq_true, if_false]
        rcases sim_accept_known gl groups st σ a role k hc hi p hl had' hfree with ⟨σ', h1, h2⟩ | hk
        · left; exact ⟨σ', h1, fun _ => h2⟩
        · right; exact hk
  | none =>
    simp only [hl, bind, Bind.bind] at h
    have hm := matching_eq st.groups a (by rw [hc.glob.2.2.2]; exact hwf) ha
    rw [hc.glob.2.2.2] at hm
    rw [hc.glob.2.2.2, hm] at h
    simp only at h
    match hcov : Spec.coveringGroups groups a, h with
    | [], h =>
      simp only [pure, Out.ok.injEq, Prod.mk.injEq] at h
      obtain ⟨rfl, rfl, rfl⟩ := h
      left
      refine ⟨σ, ?_, fun _ => hc⟩
      simp only [Bool.false_eq_true, if_false]
      apply sim_reject gl groups st σ a role k hc hi
      · intro q hq; rw [hl] at hq; cases hq
      · intro _; exact hcov
    | [g], h =>
      simp only at h
      cases h1 : addPeer st (paramsOfGroup g a) with
      | none => simp [h1] at h
      | some st1 =>
        simp only [h1] at h
        cases h2 : plookup a st1.peers with
        | none => simp [h2] at h
        | some p =>
          simp only [h2, pure, Out.ok.injEq, Prod.mk.injEq] at h
          obtain ⟨rfl, rfl, rfl⟩ := h
          left
          simp only [Bool.false_eq_true, if_false]
          obtain ⟨σ', e1, e2⟩ := sim_accept_dynamic gl groups st st1 σ a role k hc hi hcid g p hl hcov h1 h2
          exact ⟨σ', e1, fun _ => e2⟩
    | g1 :: g2 :: rest, h =>
      simp only [pure, Out.ok.injEq, Prod.mk.injEq] at h
      obtain ⟨rfl, rfl, rfl⟩ := h
      left
      refine ⟨σ, ?_, fun hh => by cases hh⟩
      simp only [if_true]
      exact sim_amb gl groups st σ a role k hc hi hl g1 g2 rest hcov


/-! ### steps in which nothing new appears -/

theorem coupled_shrink (gl : GlobalCfg) (groups : List Group) (st st' : St) (σ σ' : Spec.S)
    (hc : Coupled gl groups st σ) (hk : (st.peers.map (·.1)).Nodup) (hk' : (st'.peers.map (·.1)).Nodup)
    (hglob : st'.asn = st.asn ∧ st'.rid = st.rid ∧ st'.confed = st.confed ∧ st'.groups = st.groups)
    (hrows : σ'.rows = snapshot st') (hnext : σ'.nextSid = σ.nextSid) (hn : st'.nextSid = st.nextSid)
    (hlive : σ'.live.map lcore = st'.live.map score)
    (hpeers : ∀ e ∈ st'.peers, ∃ e0 ∈ st.peers, e0.1 = e.1 ∧ e0.2.ctx = e.2.ctx ∧ e0.2.cfg = e.2.cfg)
    (hknown : σ'.known = σ.known.filter fun kn => (Spec.rowOf σ'.rows kn.addr).isSome)
    (hsub : ∀ s ∈ st'.live, ∃ s0 ∈ st.live, core s0 = core s)
    (hlv : ∀ y ∈ σ'.live, ∃ y0 ∈ σ.live, y0.sid = y.sid ∧ y0.addr = y.addr ∧ y0.role = y.role ∧
      (y.closing = false → y0.closing = false))
    (hvan : ∀ y ∈ σ'.live, y.closing = false → (plookup y.addr st'.peers).isSome)
    (hslot : ∀ y ∈ σ'.live, y.closing = false → ∀ q, plookup y.addr st.peers = some q →
      (st.ctx q.ctx).get y.role = some y.sid → (st'.ctx q.ctx).get y.role = some y.sid) :
    Coupled gl groups st' σ' := by
  have hrow' : ∀ a, (Spec.rowOf σ'.rows a).isSome = (plookup a st'.peers).isSome := by
    intro a; rw [hrows, rowOf_snapshot st' hk' a]; cases plookup a st'.peers <;> rfl
  refine ⟨⟨by rw [hglob.1]; exact hc.glob.1, by rw [hglob.2.1]; exact hc.glob.2.1, by rw [hglob.2.2.1]; exact hc.glob.2.2.1,
    by rw [hglob.2.2.2]; exact hc.glob.2.2.2⟩, hrows, by rw [hnext, hn]; exact hc.next, hlive, ?_, ?_, ?_, ?_⟩
  · intro kn hkn
    rw [hknown, List.mem_filter] at hkn
    obtain ⟨e, he, hke⟩ := hc.knownCur kn hkn.1
    have hsome := hkn.2
    rw [hrow'] at hsome
    obtain ⟨p', hp'⟩ := Option.isSome_iff_exists.mp hsome
    have hm' := plookup_mem _ _ _ hp'
    obtain ⟨e0, he0, k0, c0, g0⟩ := hpeers _ hm'
    have hka : kn.addr = e.1 := by rw [hke]; rfl
    have : e0 = e := eq_of_key hk he0 he (by rw [k0, hka])
    refine ⟨(kn.addr, p'), hm', ?_⟩
    rw [hke]
    have hg : e.2.cfg = p'.cfg := by rw [← this]; exact g0
    simp only [knownFor, hglob.2.2.1, hg]
  · intro e he
    obtain ⟨e0, he0, k0, _, _⟩ := hpeers e he
    obtain ⟨kn, hkn, hka⟩ := hc.knownAll e0 he0
    refine ⟨kn, ?_, by rw [hka, k0]⟩
    rw [hknown, List.mem_filter]
    refine ⟨hkn, ?_⟩
    rw [hrow', hka, k0, plookup_of_mem e.1 e.2 st'.peers hk' (by cases e; exact he)]; rfl
  · intro y hy hyc
    obtain ⟨y0, hy0, e1, e2, e3, e4⟩ := hlv y hy
    obtain ⟨q, hq1, hq2⟩ := hc.healthy y0 hy0 (e4 hyc)
    rw [e2] at hq1; rw [e3, e1] at hq2
    obtain ⟨p', hp'⟩ := Option.isSome_iff_exists.mp (hvan y hy hyc)
    have hm' := plookup_mem _ _ _ hp'
    obtain ⟨e0, he0, k0, c0, _⟩ := hpeers _ hm'
    have : e0 = (y.addr, q) := eq_of_key hk he0 (plookup_mem _ _ _ hq1) k0
    refine ⟨p', hp', ?_⟩
    have hcq : p'.ctx = q.ctx := by rw [← c0, this]
    rw [hcq]
    exact hslot y hy hyc q hq1 hq2
  · intro s1 h1 s2 h2 hct hrl hne y hy hys
    obtain ⟨y0, hy0, e1, _, _, e4⟩ := hlv y hy
    cases hcl : y.closing with
    | true => rfl
    | false =>
      obtain ⟨t1, ht1, c1⟩ := hsub s1 h1
      obtain ⟨t2, ht2, c2⟩ := hsub s2 h2
      simp only [core, Prod.mk.injEq] at c1 c2
      have := hc.uniq t1 ht1 t2 ht2 (by rw [c1.2.2.2, c2.2.2.2]; exact hct) (by rw [c1.2.2.1, c2.2.2.1]; exact hrl)
        (by rw [c1.1, c2.1]; exact hne) y0 hy0 (by rw [e1, c1.1, c2.1]; exact hys)
      rw [e4 hcl] at this; cases this


/-! ### disconnect -/

theorem disconnect_res (st : St) (sid : Nat) (s : Sess) (h : st.live.find? (fun x => x.sid = sid) = some s) :
    (disconnect st sid).2 = firstSeen s st.rid := by
  unfold disconnect
  simp only [h, St.setCtx]
  cases hl : plookup s.addr st.peers with
  | none => rfl
  | some p =>
    simp only
    by_cases a : (((st.ctx s.ctx).set s.role none).slotA.isNone && ((st.ctx s.ctx).set s.role none).slotP.isNone) = true
    · by_cases b : p.cfg.dyn = true
      · simp only [a, b, if_true]
      · simp only [a, b, if_true, Bool.false_eq_true, if_false]
    · simp only [a, Bool.false_eq_true, if_false]

theorem disconnect_spec (st : St) (sid : Nat) (s : Sess) (h : st.live.find? (fun x => x.sid = sid) = some s)
    (hi : Inv st) :
    (∀ e ∈ (disconnect st sid).1.peers, e ∈ st.peers) ∧
    (disconnect st sid).1.live = st.live.filter (fun x => x.sid != s.sid) ∧
    ((disconnect st sid).1.asn = st.asn ∧ (disconnect st sid).1.rid = st.rid ∧
      (disconnect st sid).1.confed = st.confed ∧ (disconnect st sid).1.groups = st.groups) ∧
    (disconnect st sid).1.nextSid = st.nextSid ∧
    (∀ j r v, (st.ctx j).get r = some v → ¬ (j = s.ctx ∧ r = s.role) →
      ((disconnect st sid).1.ctx j).get r = some v ∨
      (∃ p, plookup s.addr st.peers = some p ∧ p.cfg.dyn = false ∧ j = p.ctx ∧
        ((st.ctx s.ctx).set s.role none).slotA = none ∧ ((st.ctx s.ctx).set s.role none).slotP = none)) := by
  have hs := (find_sid h).1
  have hsc := (hi.core.liveLt s hs).2
  have hctxA : ∀ j, (afterApply st s).ctx j = if j = s.ctx then (st.ctx s.ctx).set s.role none else st.ctx j := by
    intro j
    have := ctx_setCtx st s.ctx j ((st.ctx s.ctx).set s.role none) hsc
    simpa [afterApply, St.ctx, St.setCtx] using this
  have keepA : ∀ j r v, (st.ctx j).get r = some v → ¬ (j = s.ctx ∧ r = s.role) → ((afterApply st s).ctx j).get r = some v := by
    intro j r v hv hne
    rw [hctxA]
    by_cases hj : j = s.ctx
    · simp only [hj, if_true, get_set]
      have hr : r ≠ s.role := fun e => hne ⟨hj, e⟩
      simp only [hr, if_false]; rw [← hj]; exact hv
    · simp only [hj, if_false]; exact hv
  rw [disconnect_eq st sid s h]
  simp only
  cases hl : plookup s.addr (afterApply st s).peers with
  | none => exact ⟨fun e he => he, rfl, (by first | exact ⟨rfl, rfl, rfl, rfl⟩ | simp [afterApply, St.setCtx]), rfl, fun j r v hv hne => Or.inl (keepA j r v hv hne)⟩
  | some p =>
    simp only
    have hl' : plookup s.addr st.peers = some p := hl
    by_cases hno : (((st.ctx s.ctx).set s.role none).slotA.isNone && ((st.ctx s.ctx).set s.role none).slotP.isNone) = true
    · simp only [hno, if_true]
      by_cases hd : p.cfg.dyn = true
      · simp only [hd, if_true]
        exact ⟨fun e he => ((mem_perase _ _ _).mp he).1, rfl, (by first | exact ⟨rfl, rfl, rfl, rfl⟩ | simp [afterApply, St.setCtx]), rfl,
          fun j r v hv hne => Or.inl (keepA j r v hv hne)⟩
      · simp only [hd, Bool.false_eq_true, if_false]
        have hpl : p.ctx < (afterApply st s).ctxs.length := by
          have := hi.core.ctxLt (s.addr, p) (plookup_mem _ _ _ hl')
          simpa [afterApply, St.setCtx] using this
        refine ⟨fun e he => he, rfl, (by first | exact ⟨rfl, rfl, rfl, rfl⟩ | simp [afterApply, St.setCtx]), rfl, ?_⟩
        intro j r v hv hne
        by_cases hj : j = p.ctx
        · right
          simp only [Bool.and_eq_true, Option.isNone_iff_eq_none] at hno
          exact ⟨p, hl', by cases h : p.cfg.dyn <;> simp_all, hj, hno.1, hno.2⟩
        · left
          rw [ctx_setCtx _ _ _ _ hpl]
          simp only [hj, if_false]
          exact keepA j r v hv hne
    · simp only [hno, Bool.false_eq_true, if_false]
      exact ⟨fun e he => he, rfl, (by first | exact ⟨rfl, rfl, rfl, rfl⟩ | simp [afterApply, St.setCtx]), rfl, fun j r v hv hne => Or.inl (keepA j r v hv hne)⟩


theorem mem_closeVanished (rows : List SnapRow) (l : List Spec.LiveS) (y : Spec.LiveS) (hy : y ∈ Spec.closeVanished rows l) :
    ∃ y0 ∈ l, y0.sid = y.sid ∧ y0.addr = y.addr ∧ y0.role = y.role ∧ y0.cfg = y.cfg ∧
      (y.closing = false → y0.closing = false ∧ (Spec.rowOf rows y.addr).isSome) := by
  simp only [Spec.closeVanished, List.mem_map] at hy
  obtain ⟨y0, h0, rfl⟩ := hy
  refine ⟨y0, h0, ?_⟩
  by_cases hr : (Spec.rowOf rows y0.addr).isNone = true
  · simp [hr]
  · rw [if_neg hr]
    refine ⟨rfl, rfl, rfl, rfl, fun h => ⟨h, ?_⟩⟩
    cases hh : Spec.rowOf rows y0.addr <;> simp_all

theorem sim_disc (gl : GlobalCfg) (groups : List Group) (st : St) (σ : Spec.S) (sid k : Nat)
    (hc : Coupled gl groups st σ) (hi : Inv st) :
    ∃ σ', Spec.checkDisc k σ sid { res := (disconnect st sid).2, snap := snapshot (disconnect st sid).1 } = (.ok, σ') ∧
      Coupled gl groups (disconnect st sid).1 σ' := by
  rcases find_sid_coupled σ.live st.live hc.live sid with ⟨h1, h2⟩ | ⟨x, s, h1, h2, hxs⟩
  · rw [disconnect_none st sid h2]
    refine ⟨σ, ?_, hc⟩
    unfold Spec.checkDisc
    simp only [h1]
    have : (snapshot st == σ.rows) = true := by rw [hc.rows]; simp
    simp [Spec.firstFail, this]
  · have hinv' := inv_disconnect st sid hi
    obtain ⟨hs, hsid⟩ := find_sid h2
    obtain ⟨dP, dL, dG, dN, dS⟩ := disconnect_spec st sid s h2 hi
    have hxsid : x.sid = sid := (by simpa using List.find?_some h1)
    have hxm := List.mem_of_find?_eq_some h1
    simp only [lcore, score, Prod.mk.injEq] at hxs
    have hlive' : (σ.live.filter fun y => y.sid != sid).map lcore = (disconnect st sid).1.live.map score := by
      rw [dL, hsid]; exact filter_sid_coupled σ.live st.live hc.live sid
    have hk' := hinv'.core.keys
    -- the three requirements of the checker
    have c1 : Spec.openOk x.cfg (disconnect st sid).2 = true := by
      rw [disconnect_res st sid s h2]
      unfold firstSeen
      cases s.doom with
      | none => simp [Spec.openOk, hxs.2.2.2.1, hxs.2.2.2.2.1, hxs.2.2.2.2.2]
      | some d => cases d <;> rfl
    have c3 := dynRows_ok _ _ hinv' hlive'
    have c2 : Spec.imp (decide ((Spec.rowOf σ.rows x.addr).map (·.dyn) = some true) &&
        (Spec.liveFor (σ.live.filter fun y => y.sid != sid) x.addr).isEmpty)
        (Spec.rowOf (snapshot (disconnect st sid).1) x.addr).isNone = true := by
      unfold Spec.imp
      rw [rowOf_snapshot _ hk']
      cases hl' : plookup x.addr (disconnect st sid).1.peers with
      | none => simp
      | some p' =>
        -- the neighbour is still there: it is the same one, and if dynamic it still has a connection
        have hm' := plookup_mem _ _ _ hl'
        have hm := dP _ hm'
        have hold : Spec.rowOf σ.rows x.addr = some (snapRow st (x.addr, p')) := by
          rw [rowOf_coupled hc hi, plookup_of_mem _ _ _ hi.core.keys hm]; rfl
        simp only [hold, Option.map_some, snapRow, Option.some.injEq, Option.isNone_some, Bool.or_false,
          Bool.not_eq_true', Bool.and_eq_false_imp, decide_eq_true_eq]
        intro hd
        obtain ⟨t, ht, htc⟩ := hinv'.dyn _ hm' hd
        have haddr := hinv'.core.owner t ht _ hm' htc
        obtain ⟨y, hy, hys⟩ := live_mem_of_model hlive' t ht
        simp only [lcore, score, Prod.mk.injEq] at hys
        have : y ∈ Spec.liveFor (σ.live.filter fun y => y.sid != sid) x.addr := by
          simp only [Spec.liveFor, List.mem_filter, decide_eq_true_eq] at hy ⊢
          exact ⟨hy, by rw [hys.2.1, haddr]⟩
        cases hh : Spec.liveFor (σ.live.filter fun y => y.sid != sid) x.addr with
        | nil => rw [hh] at this; simp at this
        | cons _ _ => rfl
    refine ⟨{ σ with rows := snapshot (disconnect st sid).1
                     live := Spec.closeVanished (snapshot (disconnect st sid).1) (σ.live.filter fun y => y.sid != sid)
                     known := σ.known.filter fun kn => (Spec.rowOf (snapshot (disconnect st sid).1) kn.addr).isSome }, ?_, ?_⟩
    · unfold Spec.checkDisc
      simp only [h1, hxsid, c1, c2, c3, Spec.firstFail]
    · -- the coupling after the step
      refine coupled_shrink gl groups st _ σ _ hc hi.core.keys hk' dG ?_ ?_ dN ?_ ?_ ?_ ?_ ?_ ?_ ?_
      · rfl
      · rfl
      · rw [closeVanished_lcore]; exact hlive'
      · intro e he; exact ⟨e, dP e he, rfl, rfl, rfl⟩
      · rfl
      · intro t ht; rw [dL] at ht; exact ⟨t, (List.mem_filter.mp ht).1, rfl⟩
      · intro y hy
        obtain ⟨y0, h0, e1, e2, e3, _, e5⟩ := mem_closeVanished _ _ y hy
        exact ⟨y0, (List.mem_filter.mp h0).1, e1, e2, e3, fun h => (e5 h).1⟩
      · intro y hy hyc
        obtain ⟨y0, h0, e1, e2, e3, _, e5⟩ := mem_closeVanished _ _ y hy
        have := (e5 hyc).2
        rw [rowOf_snapshot _ hk'] at this
        cases hh : plookup y.addr (disconnect st sid).1.peers <;> simp_all
      · intro y hy hyc q hq1 hq2
        obtain ⟨y0, h0, e1, e2, e3, _, e5⟩ := mem_closeVanished _ _ y hy
        have h0' := List.mem_filter.mp h0
        have hne : y.sid ≠ s.sid := by
          rw [← e1, hsid]; simpa using h0'.2
        -- the session holding that slot
        obtain ⟨t, ht, ht1, ht2, ht3⟩ := hi.core.slotLive q.ctx y.role y.sid hq2
        have hnot : ¬ (q.ctx = s.ctx ∧ y.role = s.role) := by
          rintro ⟨hcx, hrl⟩
          have := hc.uniq t ht s hs (by rw [ht2, hcx]) (by rw [ht3, hrl]) (by rw [ht1]; exact hne) y0 h0'.1
            (Or.inl (by rw [e1, ht1]))
          rw [(e5 hyc).1] at this; cases this
        rcases dS q.ctx y.role y.sid hq2 hnot with hkeep | ⟨p, hp1, hp2, hp3, hp4, hp5⟩
        · exact hkeep
        · exfalso
          -- a static neighbour whose slots are all free: then `y` cannot hold one
          have hqm := plookup_mem _ _ _ hq1
          have hpm := plookup_mem _ _ _ hp1
          have heq := hi.core.ctxInj _ hqm _ hpm hp3
          have hya : y.addr = s.addr := by injection heq
          have hsctx : s.ctx = p.ctx := hi.core.staticCtx s hs _ hpm rfl hp2
          have hrl : y.role ≠ s.role := fun e => hnot ⟨by rw [hp3, hsctx], e⟩
          have hg : ((st.ctx s.ctx).set s.role none).get y.role = some y.sid := by
            rw [get_set]; simp only [hrl, if_false]; rw [hsctx, ← hp3]; exact hq2
          cases hr : y.role with
          | active => rw [hr] at hg; simp only [Ctx.get] at hg; rw [hp4] at hg; cases hg
          | passive => rw [hr] at hg; simp only [Ctx.get] at hg; rw [hp5] at hg; cases hg


/-! ### administrative operations -/

theorem plookup_pset (a : Ip) (p' : Peer) : ∀ (l : List (Ip × Peer)), a ∈ l.map (·.1) → plookup a (pset a p' l) = some p'
  | [], h => by simp at h
  | (k, v) :: t, h => by
    simp only [pset]
    by_cases hk : k = a
    · simp [hk, plookup]
    · simp only [hk, if_false, plookup]
      simp only [List.map_cons, List.mem_cons] at h
      rcases h with h | h
      · exact absurd h.symm hk
      · exact plookup_pset a p' t h

theorem plookup_perase (a : Ip) (l : List (Ip × Peer)) : plookup a (perase a l) = none := by
  rw [plookup_none]
  intro h
  obtain ⟨e, he, hk⟩ := List.mem_map.mp h
  exact ((mem_perase a e l).mp he).2 hk

theorem mem_closeAll (l : List Spec.LiveS) (a : Ip) (y : Spec.LiveS) (hy : y ∈ Spec.closeAll l a) :
    ∃ y0 ∈ l, y0.sid = y.sid ∧ y0.addr = y.addr ∧ y0.role = y.role ∧
      (y.closing = false → y0.closing = false ∧ y.addr ≠ a) := by
  simp only [Spec.closeAll, List.mem_map] at hy
  obtain ⟨y0, h0, rfl⟩ := hy
  refine ⟨y0, h0, ?_⟩
  by_cases ha : y0.addr = a
  · rw [if_pos ha]; exact ⟨rfl, rfl, rfl, fun h => by cases h⟩
  · rw [if_neg ha]; exact ⟨rfl, rfl, rfl, fun h => ⟨h, ha⟩⟩

/-- generic coupling after an administrative operation -/
theorem coupled_api (gl : GlobalCfg) (groups : List Group) (st st' : St) (σ : Spec.S) (L : List Spec.LiveS)
    (hc : Coupled gl groups st σ) (hk : (st.peers.map (·.1)).Nodup) (hk' : (st'.peers.map (·.1)).Nodup)
    (hglob : st'.asn = st.asn ∧ st'.rid = st.rid ∧ st'.confed = st.confed ∧ st'.groups = st.groups)
    (hn : st'.nextSid = st.nextSid)
    (hscore : st'.live.map score = st.live.map score) (hcore : st'.live.map core = st.live.map core)
    (hpeers : ∀ e ∈ st'.peers, ∃ e0 ∈ st.peers, e0.1 = e.1 ∧ e0.2.ctx = e.2.ctx ∧ e0.2.cfg = e.2.cfg)
    (hL1 : L.map lcore = σ.live.map lcore)
    (hL2 : ∀ y ∈ L, ∃ y0 ∈ σ.live, y0.sid = y.sid ∧ y0.addr = y.addr ∧ y0.role = y.role ∧ (y.closing = false → y0.closing = false))
    (hctx : ∀ y ∈ L, y.closing = false → ∀ q, plookup y.addr st.peers = some q → st'.ctx q.ctx = st.ctx q.ctx) :
    Coupled gl groups st'
      { σ with rows := snapshot st', live := Spec.closeVanished (snapshot st') L
               known := σ.known.filter fun kn => (Spec.rowOf (snapshot st') kn.addr).isSome } := by
  refine coupled_shrink gl groups st st' σ _ hc hk hk' hglob ?_ ?_ hn ?_ hpeers ?_ ?_ ?_ ?_ ?_
  · rfl
  · rfl
  · rw [closeVanished_lcore, hL1, hc.live, hscore]
  · rfl
  · intro s hs; exact live_of_map hcore s hs
  · intro y hy
    obtain ⟨y1, h1, e1, e2, e3, _, e5⟩ := mem_closeVanished _ _ y hy
    obtain ⟨y0, h0, f1, f2, f3, f4⟩ := hL2 y1 h1
    exact ⟨y0, h0, by rw [f1, e1], by rw [f2, e2], by rw [f3, e3], fun h => f4 (e5 h).1⟩
  · intro y hy hyc
    obtain ⟨y1, h1, e1, e2, e3, _, e5⟩ := mem_closeVanished _ _ y hy
    have := (e5 hyc).2
    rw [rowOf_snapshot _ hk'] at this
    cases hh : plookup y.addr st'.peers <;> simp_all
  · intro y hy hyc q hq1 hq2
    obtain ⟨y1, h1, e1, e2, e3, _, e5⟩ := mem_closeVanished _ _ y hy
    have := hctx y1 h1 (e5 hyc).1 q (by rw [e2]; exact hq1)
    rw [this]; exact hq2


theorem forceDown_score (st : St) (c : Nat) (d : Doom) : (forceDown st c d).live.map score = st.live.map score := by
  simp only [forceDown]
  rw [doomSess_map score (fun _ _ => rfl), doomSess_map score (fun _ _ => rfl)]

/-- the model's administrative step -/
def apiF (kind : Spec.Api) (a : Ip) (st : St) (p : Peer) : St :=
  match kind with
  | .enable => if p.adminDown then { st with peers := pset a { p with adminDown := false } st.peers } else st
  | .disable =>
      if !p.adminDown then forceDown { st with peers := pset a { p with adminDown := true } st.peers } p.ctx .admin else st
  | .shutdown => forceDown st p.ctx .admin
  | .reset => forceDown st p.ctx .deconf
  | .delete => forceDown { st with peers := perase a st.peers } p.ctx .deconf

def apiOpOf : Spec.Api → Ip → Op
  | .enable, a => .enable a
  | .disable, a => .disable a
  | .shutdown, a => .shutdown a
  | .reset, a => .reset a
  | .delete, a => .delete a

theorem step_api (st : St) (kind : Spec.Api) (a : Ip) :
    step st (apiOpOf kind a) = .ok ((apiOp st a (apiF kind a)).1, (apiOp st a (apiF kind a)).2, false) := by
  cases kind <;> rfl

/-- facts about the state after an administrative operation on an existing neighbour -/
structure ApiFacts (st st' : St) (a : Ip) (p : Peer) (forced : Bool) : Prop where
  glob : st'.asn = st.asn ∧ st'.rid = st.rid ∧ st'.confed = st.confed ∧ st'.groups = st.groups
  next : st'.nextSid = st.nextSid
  score : st'.live.map score = st.live.map score
  core : st'.live.map core = st.live.map core
  peers : ∀ e ∈ st'.peers, ∃ e0 ∈ st.peers, e0.1 = e.1 ∧ e0.2.ctx = e.2.ctx ∧ e0.2.cfg = e.2.cfg
  ctx : ∀ j, (forced = false ∨ j ≠ p.ctx) → st'.ctx j = st.ctx j

theorem facts_forceDown (st st0 : St) (a : Ip) (p : Peer) (d : Doom)
    (h1 : st0.asn = st.asn ∧ st0.rid = st.rid ∧ st0.confed = st.confed ∧ st0.groups = st.groups)
    (h2 : st0.nextSid = st.nextSid) (h3 : st0.live = st.live) (h4 : st0.ctxs = st.ctxs)
    (h5 : ∀ e ∈ st0.peers, ∃ e0 ∈ st.peers, e0.1 = e.1 ∧ e0.2.ctx = e.2.ctx ∧ e0.2.cfg = e.2.cfg) :
    ApiFacts st (forceDown st0 p.ctx d) a p true := by
  obtain ⟨f1, _, f3, f4, f5, f6, f7, f8, _⟩ := forceDown_fields st0 p.ctx d
  refine ⟨⟨by rw [f5]; exact h1.1, by rw [f6]; exact h1.2.1, by rw [f7]; exact h1.2.2.1, by rw [f4]; exact h1.2.2.2⟩,
    by rw [f3]; exact h2, by rw [forceDown_score, h3], by rw [f8, h3], by rw [f1]; exact h5, ?_⟩
  intro j hj
  rcases hj with hj | hj
  · cases hj
  · rw [ctx_forceDown]; simp only [hj, if_false]; simp only [St.ctx, h4]

theorem adminState_ok (kind : Spec.Api) (st st' : St) (a : Ip) (p : Peer)
    (hdel : kind = .delete → plookup a st'.peers = none)
    (hen : kind = .enable → (plookup a st'.peers).map (·.adminDown) = some false)
    (hdis : kind = .disable → (plookup a st'.peers).map (·.adminDown) = some true)
    (hoth : (kind = .shutdown ∨ kind = .reset) → (plookup a st'.peers).map (·.adminDown) = some p.adminDown) :
    Spec.adminStateOk kind (some (snapRow st (a, p))) ((plookup a st'.peers).map (fun q => snapRow st' (a, q))) = true := by
  cases kind with
  | enable =>
    have := hen rfl
    cases hq : plookup a st'.peers <;> simp_all [Spec.adminStateOk, Spec.imp, snapRow]
  | disable =>
    have := hdis rfl
    cases hq : plookup a st'.peers <;> simp_all [Spec.adminStateOk, Spec.imp, snapRow]
  | delete => simp only [Spec.adminStateOk]; rw [hdel rfl]; rfl
  | shutdown =>
    have := hoth (Or.inl rfl)
    cases hq : plookup a st'.peers <;> simp_all [Spec.adminStateOk, snapRow]
  | reset =>
    have := hoth (Or.inr rfl)
    cases hq : plookup a st'.peers <;> simp_all [Spec.adminStateOk, snapRow]

theorem sim_api_some (gl : GlobalCfg) (groups : List Group) (st st' : St) (σ : Spec.S) (kind : Spec.Api) (a : Ip) (k : Nat)
    (hc : Coupled gl groups st σ) (hi : Inv st) (hi' : Inv st') (p : Peer) (hl : plookup a st.peers = some p)
    (forced : Bool) (hf : ApiFacts st st' a p forced) (hkind : forced = true → kind ≠ .enable)
    (hdel : kind = .delete → plookup a st'.peers = none)
    (hen : kind = .enable → (plookup a st'.peers).map (·.adminDown) = some false)
    (hdis : kind = .disable → (plookup a st'.peers).map (·.adminDown) = some true)
    (hoth : (kind = .shutdown ∨ kind = .reset) → (plookup a st'.peers).map (·.adminDown) = some p.adminDown) :
    ∃ σ', Spec.checkApi k σ kind a { res := .api true, snap := snapshot st' } = (.ok, σ') ∧ Coupled gl groups st' σ' := by
  have hm := plookup_mem a p st.peers hl
  have hrow : Spec.rowOf σ.rows a = some (snapRow st (a, p)) := by rw [rowOf_coupled hc hi a, hl]; rfl
  have hrow' : Spec.rowOf (snapshot st') a = (plookup a st'.peers).map (fun q => snapRow st' (a, q)) :=
    rowOf_snapshot st' hi'.core.keys a
  -- which sessions the checker marks as closing
  let L := if (kind = .enable) then σ.live else Spec.closeAll σ.live a
  have hL1 : L.map lcore = σ.live.map lcore := by
    show (if (kind = .enable) then σ.live else Spec.closeAll σ.live a).map lcore = _
    split
    · rfl
    · exact closeAll_lcore _ _
  have hL2 : ∀ y ∈ L, ∃ y0 ∈ σ.live, y0.sid = y.sid ∧ y0.addr = y.addr ∧ y0.role = y.role ∧
      (y.closing = false → y0.closing = false ∧ (kind ≠ .enable → y.addr ≠ a)) := by
    intro y hy
    have hy' : y ∈ (if (kind = .enable) then σ.live else Spec.closeAll σ.live a) := hy
    by_cases hk : kind = .enable
    · rw [if_pos hk] at hy'; exact ⟨y, hy', rfl, rfl, rfl, fun h => ⟨h, fun h' => absurd hk h'⟩⟩
    · rw [if_neg hk] at hy'
      obtain ⟨y0, h0, e1, e2, e3, e4⟩ := mem_closeAll _ _ y hy'
      exact ⟨y0, h0, e1, e2, e3, fun h => ⟨(e4 h).1, fun _ => (e4 h).2⟩⟩
  have hLlive : L.map lcore = st'.live.map score := by rw [hL1, hc.live, hf.score]
  have hcoup := coupled_api gl groups st st' σ L hc hi.core.keys hi'.core.keys hf.glob hf.next hf.score hf.core hf.peers hL1
    (fun y hy => by obtain ⟨y0, h0, e1, e2, e3, e4⟩ := hL2 y hy; exact ⟨y0, h0, e1, e2, e3, fun h => (e4 h).1⟩)
    (by
      intro y hy hyc q hq
      obtain ⟨y0, h0, e1, e2, e3, e4⟩ := hL2 y hy
      apply hf.ctx
      cases hfc : forced with
      | false => exact Or.inl rfl
      | true =>
        right
        intro hqc
        have hne := (e4 hyc).2 (hkind hfc)
        have := hi.core.ctxInj _ (plookup_mem _ _ _ hq) _ hm hqc
        injection this with h1 _
        exact hne h1)
  refine ⟨_, ?_, hcoup⟩
  unfold Spec.checkApi
  have c3 : Spec.dynRowsHaveConn (snapshot st') L = true := dynRows_ok _ _ hi' hLlive
  have hLeq : (if (decide (kind = .enable) || (some (snapRow st (a, p))).isNone) = true then σ.live else Spec.closeAll σ.live a) = L := by
    show _ = (if (kind = .enable) then σ.live else Spec.closeAll σ.live a)
    by_cases hk : kind = .enable <;> simp [hk]
  simp only [hrow, Option.isSome_some]
  rw [hLeq]
  simp only [c3]
  have c2 : Spec.adminStateOk kind (some (snapRow st (a, p))) (Spec.rowOf (snapshot st') a) = true := by
    rw [hrow']
    exact adminState_ok kind st st' a p hdel hen hdis hoth
  simp only [c2, Spec.firstFail, decide_true]


theorem sim_api_none (gl : GlobalCfg) (groups : List Group) (st : St) (σ : Spec.S) (kind : Spec.Api) (a : Ip) (k : Nat)
    (hc : Coupled gl groups st σ) (hi : Inv st) (hl : plookup a st.peers = none) :
    ∃ σ', Spec.checkApi k σ kind a { res := .api false, snap := snapshot st } = (.ok, σ') ∧ Coupled gl groups st σ' := by
  have hrow : Spec.rowOf σ.rows a = none := by rw [rowOf_coupled hc hi a, hl]; rfl
  have hrow' : Spec.rowOf (snapshot st) a = none := by rw [rowOf_snapshot st hi.core.keys, hl]; rfl
  have hcoup := coupled_api gl groups st st σ σ.live hc hi.core.keys hi.core.keys ⟨rfl, rfl, rfl, rfl⟩ rfl rfl rfl
    (fun e he => ⟨e, he, rfl, rfl, rfl⟩) rfl (fun y hy => ⟨y, hy, rfl, rfl, rfl, fun h => h⟩) (fun _ _ _ _ _ => rfl)
  refine ⟨_, ?_, hcoup⟩
  unfold Spec.checkApi
  have c3 : Spec.dynRowsHaveConn (snapshot st) σ.live = true := dynRows_ok _ _ hi hc.live
  have c2 : Spec.adminStateOk kind none none = true := by cases kind <;> simp [Spec.adminStateOk, Spec.imp]
  simp only [hrow, hrow', Option.isSome_none, Option.isNone_none, Bool.or_true, if_true, c2, c3, Spec.firstFail, decide_true]

theorem sim_api (gl : GlobalCfg) (groups : List Group) (st : St) (σ : Spec.S) (kind : Spec.Api) (a : Ip) (k : Nat)
    (hc : Coupled gl groups st σ) (hi : Inv st) :
    ∃ σ', Spec.checkApi k σ kind a { res := (apiOp st a (apiF kind a)).2, snap := snapshot (apiOp st a (apiF kind a)).1 } = (.ok, σ') ∧
      Coupled gl groups (apiOp st a (apiF kind a)).1 σ' := by
  have hi' : Inv (apiOp st a (apiF kind a)).1 :=
    inv_step st (apiOpOf kind a) hi _ _ _ (step_api st kind a)
  cases hl : plookup a st.peers with
  | none =>
    simp only [apiOp, hl]
    exact sim_api_none gl groups st σ kind a k hc hi hl
  | some p =>
    simp only [apiOp, hl] at hi' ⊢
    have hm := plookup_mem a p st.peers hl
    have hkey : a ∈ st.peers.map (·.1) := List.mem_map.mpr ⟨(a, p), hm, rfl⟩
    have hpsetP : ∀ b, ∀ e ∈ pset a { p with adminDown := b } st.peers,
        ∃ e0 ∈ st.peers, e0.1 = e.1 ∧ e0.2.ctx = e.2.ctx ∧ e0.2.cfg = e.2.cfg := by
      intro b e he
      rcases (mem_pset a _ e st.peers hi.core.keys).mp he with ⟨h1, _⟩ | ⟨h1, _⟩
      · exact ⟨e, h1, rfl, rfl, rfl⟩
      · exact ⟨(a, p), hm, by rw [h1], by rw [h1], by rw [h1]⟩
    cases kind with
    | enable =>
      simp only [apiF] at hi' ⊢
      by_cases had : p.adminDown = true
      · simp only [had, if_true] at hi' ⊢
        apply sim_api_some gl groups st _ σ .enable a k hc hi hi' p hl false
          ⟨⟨rfl, rfl, rfl, rfl⟩, rfl, rfl, rfl, hpsetP false, fun _ _ => rfl⟩ (fun h => by cases h)
        · intro h; cases h
        · intro _; show (plookup a (pset a _ st.peers)).map (·.adminDown) = some false
          rw [plookup_pset a _ st.peers hkey]; rfl
        · intro h; cases h
        · intro h; rcases h with h | h <;> cases h
      · have had' : p.adminDown = false := by cases h : p.adminDown <;> simp_all
        simp only [had', Bool.false_eq_true, if_false] at hi' ⊢
        apply sim_api_some gl groups st _ σ .enable a k hc hi hi' p hl false
          ⟨⟨rfl, rfl, rfl, rfl⟩, rfl, rfl, rfl, fun e he => ⟨e, he, rfl, rfl, rfl⟩, fun _ _ => rfl⟩ (fun h => by cases h)
        · intro h; cases h
        · intro _; rw [hl]; simp [had']
        · intro h; cases h
        · intro h; rcases h with h | h <;> cases h
    | disable =>
      simp only [apiF] at hi' ⊢
      by_cases had : p.adminDown = true
      · simp only [had, Bool.not_true, Bool.false_eq_true, if_false] at hi' ⊢
        apply sim_api_some gl groups st _ σ .disable a k hc hi hi' p hl false
          ⟨⟨rfl, rfl, rfl, rfl⟩, rfl, rfl, rfl, fun e he => ⟨e, he, rfl, rfl, rfl⟩, fun _ _ => rfl⟩ (fun h => by cases h)
        · intro h; cases h
        · intro h; cases h
        · intro _; rw [hl]; simp [had]
        · intro h; rcases h with h | h <;> cases h
      · have had' : p.adminDown = false := by cases h : p.adminDown <;> simp_all
        simp only [had', Bool.not_false, if_true] at hi' ⊢
        apply sim_api_some gl groups st _ σ .disable a k hc hi hi' p hl true
          (facts_forceDown st _ a p .admin ⟨rfl, rfl, rfl, rfl⟩ rfl rfl rfl (hpsetP true)) (fun _ h => by cases h)
        · intro h; cases h
        · intro h; cases h
        · intro _
          have : (forceDown { st with peers := pset a { p with adminDown := true } st.peers } p.ctx .admin).peers =
              pset a { p with adminDown := true } st.peers := rfl
          rw [this, plookup_pset a _ st.peers hkey]; rfl
        · intro h; rcases h with h | h <;> cases h
    | shutdown =>
      simp only [apiF] at hi' ⊢
      apply sim_api_some gl groups st _ σ .shutdown a k hc hi hi' p hl true
        (facts_forceDown st st a p .admin ⟨rfl, rfl, rfl, rfl⟩ rfl rfl rfl (fun e he => ⟨e, he, rfl, rfl, rfl⟩)) (fun _ h => by cases h)
      · intro h; cases h
      · intro h; cases h
      · intro h; cases h
      · intro _
        have : (forceDown st p.ctx .admin).peers = st.peers := rfl
        rw [this, hl]; rfl
    | reset =>
      simp only [apiF] at hi' ⊢
      apply sim_api_some gl groups st _ σ .reset a k hc hi hi' p hl true
        (facts_forceDown st st a p .deconf ⟨rfl, rfl, rfl, rfl⟩ rfl rfl rfl (fun e he => ⟨e, he, rfl, rfl, rfl⟩)) (fun _ h => by cases h)
      · intro h; cases h
      · intro h; cases h
      · intro h; cases h
      · intro _
        have : (forceDown st p.ctx .deconf).peers = st.peers := rfl
        rw [this, hl]; rfl
    | delete =>
      simp only [apiF] at hi' ⊢
      apply sim_api_some gl groups st _ σ .delete a k hc hi hi' p hl true
        (facts_forceDown st _ a p .deconf ⟨rfl, rfl, rfl, rfl⟩ rfl rfl rfl
          (fun e he => ⟨e, ((mem_perase _ _ _).mp he).1, rfl, rfl, rfl⟩)) (fun _ h => by cases h)
      · intro _
        have : (forceDown { st with peers := perase a st.peers } p.ctx .deconf).peers = perase a st.peers := rfl
        rw [this]; exact plookup_perase a st.peers
      · intro h; cases h
      · intro h; cases h
      · intro h; rcases h with h | h <;> cases h


/-! ### whole histories -/

def OpsOk (ops : List Op) : Prop := ∀ op ∈ ops, ∀ a r, op = .connect a r → bytesOk a.bytes

theorem api_steps (gl : GlobalCfg) (groups : List Group) (kind : Spec.Api) (a : Ip) (k : Nat) (st : St) (σ : Spec.S)
    (hc : Coupled gl groups st σ) (hi : Inv st) :
    ∃ σ', Spec.checkApi k σ kind a { res := (apiOp st a (apiF kind a)).2, snap := snapshot (apiOp st a (apiF kind a)).1 } = (.ok, σ') ∧
      Coupled gl groups (apiOp st a (apiF kind a)).1 σ' ∧ Inv (apiOp st a (apiF kind a)).1 :=
  let ⟨σ', h1, h2⟩ := sim_api gl groups st σ kind a k hc hi
  ⟨σ', h1, h2, inv_step st (apiOpOf kind a) hi _ _ _ (step_api st kind a)⟩

theorem sim_steps (gl : GlobalCfg) (groups : List Group) (hwf : WFGroups groups) (hcid : confedIdOk gl.confed) :
    ∀ (ops : List Op) (st : St) (σ : Spec.S) (k : Nat) (obs : List StepObs),
      Coupled gl groups st σ → Inv st → OpsOk ops → runOps st ops = .ok obs →
      Spec.checkSteps gl groups k σ ops obs = .ok ∨ KnownFail (Spec.checkSteps gl groups k σ ops obs)
  | [], st, σ, k, obs, _, _, _, h => by
    simp only [runOps, Out.ok.injEq] at h
    subst h; left; rfl
  | op :: rest, st, σ, k, obs, hc, hi, hok, h => by
    have hok' : OpsOk rest := fun o ho => hok o (List.mem_cons_of_mem _ ho)
    simp only [runOps, bind, Bind.bind] at h
    cases hs : step st op with
    | panic => simp [hs] at h
    | ok t =>
      obtain ⟨st', r, abort⟩ := t
      simp only [hs] at h
      have hi' := inv_step st op hi st' r abort hs
      -- the tail of the observation
      have tail_ok : ∀ (σ' : Spec.S), abort = false → Coupled gl groups st' σ' →
          ∃ tl, obs = { res := r, snap := snapshot st' } :: tl ∧
            (Spec.checkSteps gl groups (k + 1) σ' rest tl = .ok ∨ KnownFail (Spec.checkSteps gl groups (k + 1) σ' rest tl)) := by
        intro σ' hab hc'
        subst hab
        simp only [Bool.false_eq_true, if_false] at h
        cases hr : runOps st' rest with
        | panic => simp [hr] at h
        | ok tl =>
          simp only [hr, pure, Out.ok.injEq] at h
          exact ⟨tl, h.symm, sim_steps gl groups hwf hcid rest st' σ' (k + 1) tl hc' hi' hok' hr⟩
      cases op with
      | connect a role =>
        have ha := hok _ (by simp) a role rfl
        rcases sim_connect gl groups st σ a role k hc hi hwf ha hcid st' r abort hs with ⟨σ', e1, e2⟩ | hk
        · cases hab : abort with
          | true =>
            subst hab
            simp only [if_true, pure, Out.ok.injEq] at h e1
            subst h
            left
            simp only [Spec.checkSteps, e1, if_true]
            simp [List.all_eq_true]
          | false =>
            subst hab
            obtain ⟨tl, rfl, htl⟩ := tail_ok σ' rfl (e2 rfl)
            simp only [Bool.false_eq_true, if_false] at e1
            simp only [Spec.checkSteps, e1, Bool.false_eq_true, if_false]
            exact htl
        · right
          have hobs : ∃ tl, obs = { res := r, snap := if abort then [] else snapshot st' } :: tl := by
            cases hab : abort with
            | true => subst hab; simp only [if_true, pure, Out.ok.injEq] at h; exact ⟨_, h.symm⟩
            | false =>
              subst hab
              simp only [Bool.false_eq_true, if_false] at h
              cases hr : runOps st' rest with
              | panic => simp [hr] at h
              | ok tl => simp only [hr, pure, Out.ok.injEq] at h; exact ⟨tl, h.symm⟩
          obtain ⟨tl, rfl⟩ := hobs
          obtain ⟨kk, hkk⟩ := hk
          simp only [Spec.checkSteps]
          generalize hcc : Spec.checkConnect gl groups k σ a role { res := r, snap := if abort = true then [] else snapshot st' } = cc at hkk
          obtain ⟨v, σ2, stop⟩ := cc
          simp only at hkk
          subst hkk
          exact ⟨kk, rfl⟩
      | disc sid =>
        simp only [step, Out.ok.injEq, Prod.mk.injEq] at hs
        obtain ⟨rfl, rfl, rfl⟩ := hs
        obtain ⟨σ', e1, e2⟩ := sim_disc gl groups st σ sid k hc hi
        obtain ⟨tl, rfl, htl⟩ := tail_ok σ' rfl e2
        simp only [Spec.checkSteps, e1, Spec.Verdict.andThen]
        exact htl
      | enable a =>
        have hs' := step_api st .enable a
        simp only [apiOpOf] at hs'
        rw [hs'] at hs
        simp only [Out.ok.injEq, Prod.mk.injEq] at hs
        obtain ⟨rfl, rfl, rfl⟩ := hs
        obtain ⟨σ', e1, e2, _⟩ := api_steps gl groups .enable a k st σ hc hi
        obtain ⟨tl, rfl, htl⟩ := tail_ok σ' rfl e2
        simp only [Spec.checkSteps, e1, Spec.Verdict.andThen]
        exact htl
      | disable a =>
        have hs' := step_api st .disable a
        simp only [apiOpOf] at hs'
        rw [hs'] at hs
        simp only [Out.ok.injEq, Prod.mk.injEq] at hs
        obtain ⟨rfl, rfl, rfl⟩ := hs
        obtain ⟨σ', e1, e2, _⟩ := api_steps gl groups .disable a k st σ hc hi
        obtain ⟨tl, rfl, htl⟩ := tail_ok σ' rfl e2
        simp only [Spec.checkSteps, e1, Spec.Verdict.andThen]
        exact htl
      | delete a =>
        have hs' := step_api st .delete a
        simp only [apiOpOf] at hs'
        rw [hs'] at hs
        simp only [Out.ok.injEq, Prod.mk.injEq] at hs
        obtain ⟨rfl, rfl, rfl⟩ := hs
        obtain ⟨σ', e1, e2, _⟩ := api_steps gl groups .delete a k st σ hc hi
        obtain ⟨tl, rfl, htl⟩ := tail_ok σ' rfl e2
        simp only [Spec.checkSteps, e1, Spec.Verdict.andThen]
        exact htl
      | shutdown a =>
        have hs' := step_api st .shutdown a
        simp only [apiOpOf] at hs'
        rw [hs'] at hs
        simp only [Out.ok.injEq, Prod.mk.injEq] at hs
        obtain ⟨rfl, rfl, rfl⟩ := hs
        obtain ⟨σ', e1, e2, _⟩ := api_steps gl groups .shutdown a k st σ hc hi
        obtain ⟨tl, rfl, htl⟩ := tail_ok σ' rfl e2
        simp only [Spec.checkSteps, e1, Spec.Verdict.andThen]
        exact htl
      | reset a =>
        have hs' := step_api st .reset a
        simp only [apiOpOf] at hs'
        rw [hs'] at hs
        simp only [Out.ok.injEq, Prod.mk.injEq] at hs
        obtain ⟨rfl, rfl, rfl⟩ := hs
        obtain ⟨σ', e1, e2, _⟩ := api_steps gl groups .reset a k st σ hc hi
        obtain ⟨tl, rfl, htl⟩ := tail_ok σ' rfl e2
        simp only [Spec.checkSteps, e1, Spec.Verdict.andThen]
        exact htl


/-! ### configuration loading -/

theorem setup_mono : ∀ (pcs : List PeerCase) (st : St), ∀ e ∈ st.peers, e ∈ (setupPeers st pcs).1.peers
  | [], _, e, he => he
  | pc :: rest, st, e, he => by
    simp only [setupPeers]
    cases ha : addPeer st (resolveParams st.groups pc) with
    | none => exact setup_mono rest st e he
    | some st' =>
      obtain ⟨_, heq⟩ := addPeer_eq st _ st' ha
      exact setup_mono rest st' e (by rw [heq]; exact List.mem_append_left _ he)

theorem setup_glob : ∀ (pcs : List PeerCase) (st : St),
    (setupPeers st pcs).1.asn = st.asn ∧ (setupPeers st pcs).1.rid = st.rid ∧ (setupPeers st pcs).1.confed = st.confed ∧
    (setupPeers st pcs).1.groups = st.groups ∧ (setupPeers st pcs).1.nextSid = st.nextSid ∧
    ((∀ c ∈ st.ctxs, c = {}) → ∀ c ∈ (setupPeers st pcs).1.ctxs, c = {})
  | [], _ => ⟨rfl, rfl, rfl, rfl, rfl, fun h => h⟩
  | pc :: rest, st => by
    simp only [setupPeers]
    cases ha : addPeer st (resolveParams st.groups pc) with
    | none => exact setup_glob rest st
    | some st' =>
      obtain ⟨_, heq⟩ := addPeer_eq st _ st' ha
      obtain ⟨h1, h2, h3, h4, h5, h6⟩ := setup_glob rest st'
      refine ⟨by rw [h1, heq], by rw [h2, heq], by rw [h3, heq], by rw [h4, heq], by rw [h5, heq], ?_⟩
      intro hc
      apply h6
      intro c hcm
      rw [heq] at hcm
      rcases List.mem_append.mp hcm with hcm | hcm
      · exact hc c hcm
      · simpa using hcm

theorem resolve_addr (groups : List Group) (pc : PeerCase) :
    (resolveParams groups pc).addr = pc.params.addr ∧ (resolveParams groups pc).adminDown = pc.params.adminDown := by
  unfold resolveParams
  cases pc.group.bind (findGroup groups) <;> simp [applyPeerGroup]

theorem want_resolve (groups : List Group) (pc : PeerCase) (hd : pc.params.dyn = false) :
    wantOfParams (resolveParams groups pc) = Spec.wantStatic pc.params (pc.group.bind (Spec.groupNamed groups)) := by
  unfold resolveParams
  have : pc.group.bind (Spec.groupNamed groups) = pc.group.bind (findGroup groups) := rfl
  rw [this]
  cases pc.group.bind (findGroup groups) with
  | none => exact want_noGroup _ hd
  | some g => exact want_applyPeerGroup _ g hd

theorem setup_check (gl : GlobalCfg) (groups : List Group) (hcid : confedIdOk gl.confed) (rows : List SetupRow) :
    ∀ (pcs : List PeerCase) (st : St) (taken : List Ip),
      (∀ a, taken.contains a = true ↔ a ∈ st.peers.map (·.1)) →
      st.asn = gl.asn ∧ st.rid = gl.rid ∧ st.confed = gl.confed ∧ st.groups = groups →
      (∀ pc ∈ pcs, pc.params.dyn = false) →
      (∀ e ∈ (setupPeers st pcs).1.peers, rows.find? (fun r => r.addr = e.1) = some (setupRowOf gl.confed e)) →
      Spec.checkSetup gl groups taken pcs (setupPeers st pcs).2 rows = .ok
  | [], _, _, _, _, _, _ => rfl
  | pc :: rest, st, taken, htk, hg, hdyn, hrows => by
    obtain ⟨ra, rd⟩ := resolve_addr st.groups pc
    simp only [setupPeers] at hrows ⊢
    cases ha : addPeer st (resolveParams st.groups pc) with
    | none =>
      simp only [ha] at hrows ⊢
      have hin : taken.contains pc.params.addr = true := by
        rw [htk]
        unfold addPeer at ha
        rw [ra] at ha
        cases hl : plookup pc.params.addr st.peers with
        | none => simp [hl] at ha
        | some p => exact List.mem_map.mpr ⟨_, plookup_mem _ _ _ hl, rfl⟩
      simp only [Spec.checkSetup, hin, if_true, Bool.false_eq_true, if_false]
      exact setup_check gl groups hcid rows rest st taken htk hg (fun p hp => hdyn p (List.mem_cons_of_mem _ hp)) hrows
    | some st' =>
      simp only [ha] at hrows ⊢
      obtain ⟨hnone, heq⟩ := addPeer_eq st _ st' ha
      rw [ra] at hnone
      have hnin : taken.contains pc.params.addr = false := by
        cases hh : taken.contains pc.params.addr with
        | false => rfl
        | true => exact absurd ((htk _).mp hh) ((plookup_none _ _).mp hnone)
      have hnew : newPeer st (resolveParams st.groups pc) ∈ st'.peers := by rw [heq]; simp
      have hrow := hrows _ (setup_mono rest st' _ hnew)
      have hk1 : (newPeer st (resolveParams st.groups pc)).1 = pc.params.addr := ra
      rw [hk1] at hrow
      simp only [Spec.checkSetup, hnin, Bool.false_eq_true, if_false, Bool.not_true, hrow]
      -- the requirements on the stored configuration
      have hcfg := cfgOk_build st.asn st.rid st.confed (resolveParams st.groups pc) (by rw [hg.2.2.1]; exact hcid)
      have hgl : (⟨st.asn, st.rid, st.confed⟩ : GlobalCfg) = gl := by
        cases gl; simp only [GlobalCfg.mk.injEq]; exact ⟨hg.1, hg.2.1, hg.2.2.1⟩
      rw [hgl, want_resolve st.groups pc (hdyn pc (by simp)), ra] at hcfg
      have hgc : st.confed = gl.confed := hg.2.2.1
      have hgg : st.groups = groups := hg.2.2.2
      have hall : ∀ e ∈ ([ (decide ((setupRowOf gl.confed (newPeer st (resolveParams st.groups pc))).adminDown = pc.params.adminDown),
              "admin-state-not-configured") ]
            ++ Spec.cfgOk gl (Spec.wantStatic pc.params (pc.group.bind (Spec.groupNamed groups)))
                (decide (pc.params.addr.bytes.length = 16))
                (setupRowOf gl.confed (newPeer st (resolveParams st.groups pc))).cfg
                (setupRowOf gl.confed (newPeer st (resolveParams st.groups pc))).role), e.1 = true := by
        intro e he
        simp only [List.mem_append, List.mem_cons, List.mem_nil_iff, or_false] at he
        rcases he with rfl | he
        · simp [setupRowOf, newPeer, rd]
        · apply hcfg e
          simp only [setupRowOf, newPeer, ← hgc, ← hgg] at he ⊢
          exact he
      rw [all_true hall 0]
      simp only [Spec.Verdict.andThen]
      apply setup_check gl groups hcid rows rest st' (pc.params.addr :: taken)
      · intro a
        rw [heq]
        simp only [List.contains_cons, Bool.or_eq_true, List.map_append, List.map_cons, List.map_nil,
          List.mem_append, List.mem_cons, List.mem_nil_iff, or_false, hk1]
        rw [htk]
        constructor
        · rintro (h | h)
          · right; simpa using h
          · left; exact h
        · rintro (h | h)
          · right; exact h
          · left; simpa using h
      · rw [heq]; exact hg
      · exact fun p hp => hdyn p (List.mem_cons_of_mem _ hp)
      · exact hrows


/-! ### assembling the history check -/

theorem insBy_map {α β} (key : α → Ip) (key' : β → Ip) (g : α → β) (hk : ∀ x, key' (g x) = key x) (x : α) :
    ∀ (l : List α), (insBy key x l).map g = insBy key' (g x) (l.map g)
  | [] => rfl
  | y :: t => by
    simp only [insBy, List.map_cons, hk]
    split
    · rfl
    · simp only [List.map_cons, insBy_map key key' g hk x t]

theorem sortBy_map {α β} (key : α → Ip) (key' : β → Ip) (g : α → β) (hk : ∀ x, key' (g x) = key x) :
    ∀ (l : List α), (sortBy key l).map g = sortBy key' (l.map g)
  | [] => rfl
  | x :: t => by
    have e1 : sortBy key (x :: t) = insBy key x (sortBy key t) := rfl
    have e2 : sortBy key' ((x :: t).map g) = insBy key' (g x) (sortBy key' (t.map g)) := rfl
    rw [e1, e2, insBy_map key key' g hk, sortBy_map key key' g hk t]

theorem length_insBy {α} (key : α → Ip) (x : α) : ∀ (l : List α), (insBy key x l).length = l.length + 1
  | [] => rfl
  | y :: t => by
    simp only [insBy]
    split
    · rfl
    · simp [length_insBy key x t]

theorem length_sortBy {α} (key : α → Ip) : ∀ (l : List α), (sortBy key l).length = l.length
  | [] => rfl
  | x :: t => by
    have e1 : sortBy key (x :: t) = insBy key x (sortBy key t) := rfl
    rw [e1, length_insBy, length_sortBy key t]; rfl

theorem setup_count : ∀ (pcs : List PeerCase) (st : St),
    (setupPeers st pcs).1.peers.length = st.peers.length + ((setupPeers st pcs).2.filter id).length
  | [], _ => rfl
  | pc :: rest, st => by
    simp only [setupPeers]
    cases ha : addPeer st (resolveParams st.groups pc) with
    | none => simp only [List.filter_cons, id, Bool.false_eq_true, if_false]; exact setup_count rest st
    | some st' =>
      obtain ⟨_, heq⟩ := addPeer_eq st _ st' ha
      simp only [List.filter_cons, id, if_true, List.length_cons]
      rw [setup_count rest st', heq]
      simp; omega

def toSnap (r : SetupRow) : SnapRow := { addr := r.addr, adminDown := r.adminDown, dyn := false, slotA := false, slotP := false }
def toKnown (r : SetupRow) : Spec.Known := ⟨r.addr, r.cfg, r.role⟩

theorem coupled_init (gl : GlobalCfg) (groups : List Group) (st : St)
    (hg : st.asn = gl.asn ∧ st.rid = gl.rid ∧ st.confed = gl.confed ∧ st.groups = groups)
    (hk : (st.peers.map (·.1)).Nodup) (hlive : st.live = []) (hn : st.nextSid = 0)
    (hdyn : ∀ e ∈ st.peers, e.2.cfg.dyn = false) (hctx : ∀ c ∈ st.ctxs, c = ({} : Ctx)) :
    Coupled gl groups st
      { rows := (sortBy (·.addr) (st.peers.map (setupRowOf st.confed))).map toSnap
        known := (sortBy (·.addr) (st.peers.map (setupRowOf st.confed))).map toKnown, live := [], nextSid := 0 } := by
  have hctx' : ∀ j, st.ctx j = {} := by
    intro j
    simp only [St.ctx]
    cases h : st.ctxs[j]? with
    | none => rfl
    | some c => exact hctx c (List.mem_of_getElem? h)
  refine ⟨hg, ?_, hn.symm, by simp [hlive], ?_, ?_, by intro x hx; simp at hx, by intro s hs; rw [hlive] at hs; simp at hs⟩
  · show (sortBy (·.addr) (st.peers.map (setupRowOf st.confed))).map toSnap = snapshot st
    rw [sortBy_map (·.addr) (·.addr) toSnap (fun _ => rfl), List.map_map]
    unfold snapshot
    congr 1
    apply List.map_congr_left
    intro e he
    simp only [Function.comp, toSnap, setupRowOf, snapRow, hdyn e he, hctx']
    rfl
  · intro kn hkn
    simp only [List.mem_map] at hkn
    obtain ⟨r, hr, rfl⟩ := hkn
    rw [mem_sortBy] at hr
    obtain ⟨e, he, rfl⟩ := List.mem_map.mp hr
    exact ⟨e, he, rfl⟩
  · intro e he
    refine ⟨toKnown (setupRowOf st.confed e), ?_, rfl⟩
    simp only [List.mem_map]
    exact ⟨setupRowOf st.confed e, (mem_sortBy _ _ _).mpr (List.mem_map.mpr ⟨e, he, rfl⟩), rfl⟩

theorem rows_find (st : St) (hk : (st.peers.map (·.1)).Nodup) (e : Ip × Peer) (he : e ∈ st.peers) :
    (sortBy (·.addr) (st.peers.map (setupRowOf st.confed))).find? (fun r => r.addr = e.1) = some (setupRowOf st.confed e) := by
  apply find_unique
  · rw [mem_sortBy]; exact List.mem_map.mpr ⟨e, he, rfl⟩
  · simp [setupRowOf]
  · intro x hx hxa
    rw [mem_sortBy] at hx
    obtain ⟨e', he', rfl⟩ := List.mem_map.mp hx
    have : e'.1 = e.1 := of_decide_eq_true hxa
    rw [eq_of_key hk he' he this]

def HistWF (g : GlobalCfg) (groups : List Group) (peers : List PeerCase) (ops : List Op) : Prop :=
  confedIdOk g.confed ∧ WFGroups groups ∧ (∀ pc ∈ peers, pc.params.dyn = false) ∧ OpsOk ops

/-- **master theorem, histories.**  The reference checker accepts every history the model produces,
    except that it reports the open finding F16c when a connection is accepted next to a closing
    connection of the same direction. -/
theorem checkHist_model (g : GlobalCfg) (groups : List Group) (peers : List PeerCase) (ops : List Op)
    (hwf : HistWF g groups peers ops) (h : HistObs) (hr : runHist g groups peers ops = .ok h) :
    Spec.checkHist g groups peers ops h = .ok ∨ KnownFail (Spec.checkHist g groups peers ops h) := by
  obtain ⟨hcid, hgw, hdyn, hops⟩ := hwf
  unfold runHist at hr
  simp only [bind, Bind.bind] at hr
  obtain ⟨g1, g2, g3, g4, g5, g6⟩ := setup_glob peers (initSt g groups)
  obtain ⟨hinv, hlive, hstat⟩ := setup_inv peers (initSt g groups) (inv_init g groups) rfl (by simp [initSt]) hdyn
  generalize hst : (setupPeers (initSt g groups) peers).1 = st at *
  generalize had : (setupPeers (initSt g groups) peers).2 = added at *
  cases hro : runOps st ops with
  | panic => simp [hro] at hr
  | ok steps =>
    simp only [hro, pure, Out.ok.injEq] at hr
    subst hr
    have hglob : st.asn = g.asn ∧ st.rid = g.rid ∧ st.confed = g.confed ∧ st.groups = groups := ⟨g1, g2, g3, g4⟩
    have hset : Spec.checkSetup g groups [] peers added (sortBy (·.addr) (st.peers.map (setupRowOf st.confed))) = .ok := by
      have := setup_check g groups hcid (sortBy (·.addr) (st.peers.map (setupRowOf g.confed))) peers (initSt g groups) []
        (by intro a; simp [initSt]) ⟨rfl, rfl, rfl, rfl⟩ hdyn
        (by
          intro e he
          rw [hst] at he
          have := rows_find st hinv.core.keys e he
          rw [g3] at this; exact this)
      rw [had] at this
      rw [g3]; exact this
    unfold Spec.checkHist
    simp only [hset, Spec.Verdict.andThen]
    have hlen : ((sortBy (·.addr) (st.peers.map (setupRowOf st.confed))).length
          != (added.filter id).length) = false := by
      rw [length_sortBy, List.length_map]
      have := setup_count peers (initSt g groups)
      rw [hst, had] at this
      simp only [initSt, List.length_nil, Nat.zero_add] at this
      simp [this]
    simp only [hlen, Bool.false_eq_true, if_false]
    have hc0 := coupled_init g groups st hglob hinv.core.keys hlive (by rw [g5]; rfl) hstat (g6 (by simp [initSt]))
    exact sim_steps g groups hgw hcid ops st _ 1 steps hc0 hinv hops hro


/-! ### no history makes the model panic -/

theorem accept_groups (st : St) (a : Ip) (role : Role) (hwf : WFGroups st.groups) (ha : bytesOk a.bytes) :
    ∃ st' r b, acceptConnection st a role = .ok (st', r, b) ∧ st'.groups = st.groups := by
  unfold acceptConnection
  cases hl : plookup a st.peers with
  | some p =>
    simp only
    by_cases had : p.adminDown = true
    · exact ⟨st, .reject 0, false, by simp [had], rfl⟩
    · by_cases hs : ((st.ctx p.ctx).get role).isSome = true
      · exact ⟨st, .reject 0, false, by simp [had, hs], rfl⟩
      · exact ⟨(openSession st a p role).1, (openSession st a p role).2, false, by simp [had, hs],
          (openSession_fields st a p role).2.2.2.2.2.2.1⟩
  | none =>
    simp only [bind, Bind.bind, matching_eq st.groups a hwf ha]
    match hcov : Spec.coveringGroups st.groups a with
    | [] => exact ⟨st, _, _, rfl, rfl⟩
    | [g] =>
      simp only
      have hadd : ∃ st1, addPeer st (paramsOfGroup g a) = some st1 := by
        unfold addPeer
        have : (paramsOfGroup g a).addr = a := rfl
        rw [this, hl]; exact ⟨_, rfl⟩
      obtain ⟨st1, h1⟩ := hadd
      obtain ⟨_, heq⟩ := addPeer_eq st _ st1 h1
      have h2 : plookup a st1.peers = some (newPeer st (paramsOfGroup g a)).2 := by
        rw [heq]
        show plookup a (st.peers ++ [newPeer st (paramsOfGroup g a)]) = _
        rw [plookup_append, hl]
        simp [newPeer, paramsOfGroup]
      simp only [h1, h2, pure]
      refine ⟨_, _, _, rfl, ?_⟩
      rw [(openSession_fields st1 a _ role).2.2.2.2.2.2.1, heq]
    | _ :: _ :: _ => exact ⟨st, _, _, rfl, rfl⟩

theorem step_groups (st : St) (op : Op) (hwf : WFGroups st.groups)
    (hop : ∀ a r, op = .connect a r → bytesOk a.bytes) :
    ∃ st' r b, step st op = .ok (st', r, b) ∧ st'.groups = st.groups := by
  cases op with
  | connect a role => exact accept_groups st a role hwf (hop a role rfl)
  | disc sid =>
    refine ⟨(disconnect st sid).1, (disconnect st sid).2, false, rfl, ?_⟩
    cases hf : st.live.find? (fun x => x.sid = sid) with
    | none => rw [disconnect_none st sid hf]
    | some s =>
      rw [disconnect_eq st sid s hf]
      simp only
      cases plookup s.addr (afterApply st s).peers with
      | none => rfl
      | some p => simp only; split <;> (try split) <;> rfl
  | enable a =>
    refine ⟨(apiOp st a (apiF .enable a)).1, (apiOp st a (apiF .enable a)).2, false, step_api st .enable a, ?_⟩
    simp only [apiOp]; cases plookup a st.peers <;> simp only [apiF] <;> (try split) <;> rfl
  | disable a =>
    refine ⟨(apiOp st a (apiF .disable a)).1, (apiOp st a (apiF .disable a)).2, false, step_api st .disable a, ?_⟩
    simp only [apiOp]; cases plookup a st.peers <;> simp only [apiF] <;> (try split) <;> rfl
  | delete a =>
    refine ⟨(apiOp st a (apiF .delete a)).1, (apiOp st a (apiF .delete a)).2, false, step_api st .delete a, ?_⟩
    simp only [apiOp]; cases plookup a st.peers <;> simp only [apiF] <;> rfl
  | shutdown a =>
    refine ⟨(apiOp st a (apiF .shutdown a)).1, (apiOp st a (apiF .shutdown a)).2, false, step_api st .shutdown a, ?_⟩
    simp only [apiOp]; cases plookup a st.peers <;> simp only [apiF] <;> rfl
  | reset a =>
    refine ⟨(apiOp st a (apiF .reset a)).1, (apiOp st a (apiF .reset a)).2, false, step_api st .reset a, ?_⟩
    simp only [apiOp]; cases plookup a st.peers <;> simp only [apiF] <;> rfl

theorem runOps_ok : ∀ (ops : List Op) (st : St), WFGroups st.groups → OpsOk ops → ∃ obs, runOps st ops = .ok obs
  | [], _, _, _ => ⟨[], rfl⟩
  | op :: rest, st, hwf, hok => by
    obtain ⟨st', r, b, hs, hg⟩ := step_groups st op hwf (fun a r h => hok op (by simp) a r h)
    simp only [runOps, bind, Bind.bind, hs]
    cases b with
    | true => exact ⟨_, rfl⟩
    | false =>
      obtain ⟨tl, htl⟩ := runOps_ok rest st' (by rw [hg]; exact hwf) (fun o ho => hok o (List.mem_cons_of_mem _ ho))
      simp only [Bool.false_eq_true, if_false, htl, pure]
      exact ⟨_, rfl⟩

theorem runHist_ok (g : GlobalCfg) (groups : List Group) (peers : List PeerCase) (ops : List Op)
    (hwf : HistWF g groups peers ops) : ∃ h, runHist g groups peers ops = .ok h := by
  unfold runHist
  simp only [bind, Bind.bind]
  have hg := (setup_glob peers (initSt g groups)).2.2.2.1
  obtain ⟨obs, ho⟩ := runOps_ok ops (setupPeers (initSt g groups) peers).1 (by rw [hg]; exact hwf.2.1) hwf.2.2.2
  rw [ho]
  exact ⟨_, rfl⟩

end Rbgp.Accept.ProofsSim
