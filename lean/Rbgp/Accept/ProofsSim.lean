/- The reference checker accepts every history the model produces (C16 master theorem, part 2). -/
import Rbgp.Accept.ProofsHist
import Rbgp.Accept.ProofsCfg
import Rbgp.Accept.ProofsNet
namespace Rbgp.Accept.ProofsSim
open Rbgp.Accept Rbgp.Accept.ProofsHist Rbgp.Accept.ProofsCfg Rbgp.Accept.ProofsNet

/-! ### the sorted report of the neighbour table -/

theorem mem_insBy {α} (key : α → Ip) (x y : α) : ∀ (l : List α), y ∈ insBy key x l ↔ (y = x ∨ y ∈ l)
  | [] => by simp [insBy]
  | z :: t => by
    simp only [insBy]
    split
    · simp
    · simp only [List.mem_cons, mem_insBy key x y t]
      constructor
      · rintro (h | h | h)
        · exact Or.inr (Or.inl h)
        · exact Or.inl h
        · exact Or.inr (Or.inr h)
      · rintro (h | h | h)
        · exact Or.inr (Or.inl h)
        · exact Or.inl h
        · exact Or.inr (Or.inr h)

theorem mem_sortBy {α} (key : α → Ip) (y : α) : ∀ (l : List α), y ∈ sortBy key l ↔ y ∈ l
  | [] => by simp [sortBy]
  | x :: t => by
    have : sortBy key (x :: t) = insBy key x (sortBy key t) := rfl
    rw [this, mem_insBy, mem_sortBy key y t]; simp

theorem find_unique {α} (p : α → Bool) (y : α) : ∀ (l : List α), y ∈ l → p y = true →
    (∀ x ∈ l, p x = true → x = y) → l.find? p = some y
  | [], h, _, _ => by simp at h
  | z :: t, hm, hp, hu => by
    simp only [List.find?_cons]
    by_cases hz : p z = true
    · simp only [hz]
      rw [hu z (by simp) hz]
    · have hz' : p z = false := by cases h : p z <;> simp_all
      simp only [hz']
      rcases List.mem_cons.mp hm with e | hm
      · subst e; rw [hp] at hz'; cases hz'
      · exact find_unique p y t hm hp (fun x hx => hu x (List.mem_cons_of_mem _ hx))

theorem find_none {α} (p : α → Bool) (l : List α) (h : ∀ x ∈ l, p x = false) : l.find? p = none := by
  apply List.find?_eq_none.mpr
  intro x hx; simp [h x hx]

theorem rowOf_snapshot (st : St) (hk : (st.peers.map (·.1)).Nodup) (a : Ip) :
    Spec.rowOf (snapshot st) a = (plookup a st.peers).map (fun p => snapRow st (a, p)) := by
  unfold Spec.rowOf snapshot
  cases hl : plookup a st.peers with
  | none =>
    simp only [Option.map_none]
    apply find_none
    intro x hx
    rw [mem_sortBy] at hx
    obtain ⟨e, he, rfl⟩ := List.mem_map.mp hx
    have := (plookup_none a st.peers).mp hl
    simp only [snapRow]
    apply decide_eq_false
    intro h; exact this (List.mem_map.mpr ⟨e, he, h⟩)
  | some p =>
    simp only [Option.map_some]
    have hm := plookup_mem a p st.peers hl
    apply find_unique
    · rw [mem_sortBy]; exact List.mem_map.mpr ⟨(a, p), hm, rfl⟩
    · simp [snapRow]
    · intro x hx hxa
      rw [mem_sortBy] at hx
      obtain ⟨e, he, rfl⟩ := List.mem_map.mp hx
      have : e.1 = a := of_decide_eq_true hxa
      have := eq_of_key hk he hm this
      rw [this]

theorem snapshot_all (st : St) (q : SnapRow → Bool) :
    (snapshot st).all q = true ↔ ∀ e ∈ st.peers, q (snapRow st e) = true := by
  simp only [List.all_eq_true, snapshot]
  constructor
  · intro h e he; exact h _ ((mem_sortBy _ _ _).mpr (List.mem_map.mpr ⟨e, he, rfl⟩))
  · intro h x hx
    rw [mem_sortBy] at hx
    obtain ⟨e, he, rfl⟩ := List.mem_map.mp hx
    exact h e he


/-! ### dynamic prefixes: the model's matching is the spec's covering -/

def WFNet (n : Net) : Prop := n.mask ≤ 8 * n.bytes.length ∧ bytesOk n.bytes
def WFGroups (gs : List Group) : Prop := ∀ g ∈ gs, ∀ n ∈ g.nets, WFNet n

theorem net_contains_eq (n : Net) (a : Ip) (hn : WFNet n) (ha : bytesOk a.bytes) :
    n.contains a = .ok (Spec.covers n a) := by
  by_cases hlen : n.bytes.length = a.bytes.length
  · rw [covers_eq]
    simp only [Net.contains, hlen, if_true, decide_true, Bool.true_and]
    exact containsF_cover n.bytes a.bytes n.mask hlen hn.1 hn.2 ha
  · simp [Net.contains, Spec.covers, hlen]

theorem netsContain_eq : ∀ (nets : List Net) (a : Ip), (∀ n ∈ nets, WFNet n) → bytesOk a.bytes →
    netsContain nets a = .ok (nets.any fun n => Spec.covers n a)
  | [], _, _, _ => rfl
  | n :: t, a, hn, ha => by
    simp only [netsContain, bind, Bind.bind, net_contains_eq n a (hn n (by simp)) ha, List.any_cons]
    by_cases hc : Spec.covers n a = true
    · simp [hc, pure]
    · have : Spec.covers n a = false := by cases h : Spec.covers n a <;> simp_all
      simp only [this, Bool.false_eq_true, if_false, Bool.false_or]
      exact netsContain_eq t a (fun m hm => hn m (List.mem_cons_of_mem _ hm)) ha

theorem matching_eq : ∀ (gs : List Group) (a : Ip), WFGroups gs → bytesOk a.bytes →
    matching gs a = .ok (Spec.coveringGroups gs a)
  | [], _, _, _ => rfl
  | g :: t, a, hg, ha => by
    have h1 := netsContain_eq g.nets a (hg g (by simp)) ha
    have h2 := matching_eq t a (fun x hx => hg x (List.mem_cons_of_mem _ hx)) ha
    simp only [matching, bind, Bind.bind, h1, h2, pure, Spec.coveringGroups, List.filter_cons]

/-! ### coupling of the model state with what the checker remembers -/

def lcore (x : Spec.LiveS) : Nat × Ip × Role × Nat × Nat × List Cap × Nat :=
  (x.sid, x.addr, x.role, x.cfg.localAsn, x.cfg.hold, x.cfg.caps, x.cfg.expected)
def score (s : Sess) : Nat × Ip × Role × Nat × Nat × List Cap × Nat :=
  (s.sid, s.addr, s.role, s.asn, s.hold, s.caps, s.expected)

def knownFor (st : St) (e : Ip × Peer) : Spec.Known := ⟨e.1, e.2.cfg, peerRole e.2.cfg st.confed⟩

def hitClauses : List String := [Spec.hitStatic, Spec.hitDynamic, Spec.hitVanished]

/-- `adm` = some shutdown / reset / disable / delete has been issued so far -/
structure Coupled (gl : GlobalCfg) (groups : List Group) (adm : Bool) (st : St) (σ : Spec.S) : Prop where
  glob : st.asn = gl.asn ∧ st.rid = gl.rid ∧ st.confed = gl.confed ∧ st.groups = groups
  rows : σ.rows = snapshot st
  next : σ.nextSid = st.nextSid
  live : σ.live.map lcore = st.live.map score
  knownCur : ∀ kn ∈ σ.known, ∃ e ∈ st.peers, kn = knownFor st e
  knownAll : ∀ e ∈ st.peers, ∃ kn ∈ σ.known, kn.addr = e.1
  /-- a connection that is neither closing nor at a written-off address holds its neighbour's slot -/
  healthy : ∀ x ∈ σ.live, x.closing = false → x.addr ∉ σ.poison →
    ∃ p, plookup x.addr st.peers = some p ∧ (st.ctx p.ctx).get x.role = some x.sid
  uniq : ∀ s1 ∈ st.live, ∀ s2 ∈ st.live, s1.ctx = s2.ctx → s1.role = s2.role → s1.sid ≠ s2.sid →
    s1.addr ∉ σ.poison → ∀ x ∈ σ.live, (x.sid = s1.sid ∨ x.sid = s2.sid) → x.closing = true
  /-- a session with a close reason waiting is known to the checker as closing -/
  doomed : ∀ s ∈ st.live, s.doom.isSome = true → ∀ x ∈ σ.live, x.sid = s.sid → x.closing = true
  /-- before the first tear-down nothing is closing, nothing has been noted -/
  quiet : adm = false → (∀ x ∈ σ.live, x.closing = false) ∧ σ.hit = none ∧ σ.poison = []
  hitOk : ∀ k c, σ.hit = some (k, c) → c ∈ hitClauses

theorem knownOf_cur {gl groups adm st σ} (hc : Coupled gl groups adm st σ) (e : Ip × Peer) (he : e ∈ st.peers)
    (hk : (st.peers.map (·.1)).Nodup) : Spec.knownOf σ.known e.1 = some (knownFor st e) := by
  obtain ⟨kn, hkn, ha⟩ := hc.knownAll e he
  unfold Spec.knownOf
  cases hf : σ.known.find? (fun r => r.addr = e.1) with
  | none =>
    have := List.find?_eq_none.mp hf kn hkn
    simp [ha] at this
  | some k =>
    have hm := List.mem_of_find?_eq_some hf
    have hka : k.addr = e.1 := by simpa using List.find?_some hf
    obtain ⟨e', he', rfl⟩ := hc.knownCur k hm
    have : e' = e := eq_of_key hk he' he hka
    rw [this]

/-- the spec's live list mirrors the model's -/
theorem live_mem_of_model {σl : List Spec.LiveS} {l : List Sess} (h : σl.map lcore = l.map score) (s : Sess) (hs : s ∈ l) :
    ∃ x ∈ σl, lcore x = score s := by
  have : score s ∈ σl.map lcore := by rw [h]; exact List.mem_map.mpr ⟨s, hs, rfl⟩
  obtain ⟨x, hx, e⟩ := List.mem_map.mp this
  exact ⟨x, hx, e⟩

theorem live_mem_of_spec {σl : List Spec.LiveS} {l : List Sess} (h : σl.map lcore = l.map score) (x : Spec.LiveS) (hx : x ∈ σl) :
    ∃ s ∈ l, lcore x = score s := by
  have : lcore x ∈ l.map score := by rw [← h]; exact List.mem_map.mpr ⟨x, hx, rfl⟩
  obtain ⟨s, hs, e⟩ := List.mem_map.mp this
  exact ⟨s, hs, e.symm⟩

theorem find_sid_coupled : ∀ (σl : List Spec.LiveS) (l : List Sess), σl.map lcore = l.map score → ∀ sid,
    (σl.find? (fun x => x.sid = sid) = none ∧ l.find? (fun x => x.sid = sid) = none) ∨
    (∃ x s, σl.find? (fun x => x.sid = sid) = some x ∧ l.find? (fun x => x.sid = sid) = some s ∧ lcore x = score s)
  | [], [], _, _ => Or.inl ⟨rfl, rfl⟩
  | [], _ :: _, h, _ => by simp at h
  | _ :: _, [], h, _ => by simp at h
  | x :: xs, s :: ss, h, sid => by
    simp only [List.map_cons, List.cons.injEq] at h
    have hsid : x.sid = s.sid := by have := h.1; simp only [lcore, score, Prod.mk.injEq] at this; exact this.1
    simp only [List.find?_cons, hsid]
    by_cases hs : s.sid = sid
    · right; exact ⟨x, s, by simp [hs], by simp [hs], h.1⟩
    · simp only [hs, decide_false]
      exact find_sid_coupled xs ss h.2 sid

theorem filter_sid_coupled : ∀ (σl : List Spec.LiveS) (l : List Sess), σl.map lcore = l.map score → ∀ sid,
    (σl.filter (fun x => x.sid != sid)).map lcore = (l.filter (fun x => x.sid != sid)).map score
  | [], [], _, _ => rfl
  | [], _ :: _, h, _ => by simp at h
  | _ :: _, [], h, _ => by simp at h
  | x :: xs, s :: ss, h, sid => by
    simp only [List.map_cons, List.cons.injEq] at h
    have hsid : x.sid = s.sid := by have := h.1; simp only [lcore, score, Prod.mk.injEq] at this; exact this.1
    simp only [List.filter_cons, hsid]
    by_cases hs : s.sid = sid
    · simp only [hs, bne_self_eq_false, Bool.false_eq_true, if_false]; exact filter_sid_coupled xs ss h.2 sid
    · have : (s.sid != sid) = true := by simpa using hs
      simp only [this, if_true, List.map_cons, h.1, filter_sid_coupled xs ss h.2 sid]

theorem closeAll_lcore (l : List Spec.LiveS) (a : Ip) : (Spec.closeAll l a).map lcore = l.map lcore := by
  simp only [Spec.closeAll, List.map_map]
  apply List.map_congr_left; intro x _; simp only [Function.comp]; split <;> rfl

theorem closeVanished_lcore (rows : List SnapRow) (l : List Spec.LiveS) :
    (Spec.closeVanished rows l).map lcore = l.map lcore := by
  simp only [Spec.closeVanished, List.map_map]
  apply List.map_congr_left; intro x _; simp only [Function.comp]; split <;> rfl


/-! ### small facts used by the step lemmas -/

theorem plookup_append (a : Ip) (l : List (Ip × Peer)) (e : Ip × Peer) :
    plookup a (l ++ [e]) = match plookup a l with | some p => some p | none => if e.1 = a then some e.2 else none := by
  induction l with
  | nil => obtain ⟨k, v⟩ := e; simp [plookup]
  | cons x t ih =>
    obtain ⟨k, v⟩ := x
    simp only [List.cons_append, plookup]
    by_cases hk : k = a
    · simp [hk]
    · simp only [hk, if_false, ih]

theorem mem_sins (k x : String) : ∀ (l : List String), x ∈ sins k l ↔ (x = k ∨ x ∈ l)
  | [] => by simp [sins]
  | y :: t => by
    simp only [sins]
    split
    · simp
    · split
      · rename_i h; subst h; simp
      · simp only [List.mem_cons, mem_sins k x t]
        constructor
        · rintro (h | h | h)
          · exact Or.inr (Or.inl h)
          · exact Or.inl h
          · exact Or.inr (Or.inr h)
        · rintro (h | h | h)
          · exact Or.inr (Or.inl h)
          · exact Or.inl h
          · exact Or.inr (Or.inr h)

theorem mem_ssort (x : String) : ∀ (l : List String), x ∈ ssort l ↔ x ∈ l
  | [] => by simp [ssort]
  | y :: t => by
    have : ssort (y :: t) = sins y (ssort t) := rfl
    rw [this, mem_sins, mem_ssort x t]; simp

theorem all_true {l : List (Bool × String)} (h : ∀ e ∈ l, e.1 = true) (k : Nat) : Spec.firstFail k l = .ok := by
  induction l with
  | nil => rfl
  | cons a t ih =>
    obtain ⟨b, c⟩ := a
    have : b = true := h (b, c) (by simp)
    subst this
    simp only [Spec.firstFail]
    exact ih (fun e he => h e (List.mem_cons_of_mem _ he))

/-- the session `accept_connection` builds uses exactly the neighbour's stored configuration -/
theorem sessOk_open (gl : GlobalCfg) (st : St) (a : Ip) (p : Peer) (role : Role)
    (hg : st.rid = gl.rid ∧ st.confed = gl.confed) :
    ∀ e ∈ Spec.sessOk gl p.cfg (peerRole p.cfg st.confed)
        { role := peerRole p.cfg st.confed, localAsn := p.cfg.localAsn, caps := p.cfg.caps, pl := p.cfg.pl
          cluster := clusterOf (peerRole p.cfg st.confed) p.cfg st.rid
          confedId := confedIdOf st.confed, restarting := false },
      e.1 = true := by
  intro e he
  simp only [Spec.sessOk, List.mem_cons, List.mem_nil_iff, or_false] at he
  rcases he with rfl | rfl | rfl | rfl | rfl
  · simp
  · simp
  · simp
  · simp only [decide_eq_true_eq, ← hg.1]
    cases peerRole p.cfg st.confed <;> simp [clusterOf]
  · simp only [decide_eq_true_eq, ← hg.2]
    cases st.confed with
    | none => rfl
    | some c => obtain ⟨id, m⟩ := c; rfl

theorem openSession_res (st : St) (a : Ip) (p : Peer) (role : Role) :
    (openSession st a p role).2 =
      .accept st.nextSid
        { role := peerRole p.cfg st.confed, localAsn := p.cfg.localAsn, caps := p.cfg.caps, pl := p.cfg.pl
          cluster := clusterOf (peerRole p.cfg st.confed) p.cfg st.rid
          confedId := confedIdOf st.confed, restarting := false }
        p.cfg (peerRole p.cfg st.confed) := by
  simp [openSession, St.setCtx]

/-- in a state satisfying the invariant every dynamic row of the report has a live connection -/
theorem dynRows_ok (st : St) (σl : List Spec.LiveS) (hi : Inv st) (hl : σl.map lcore = st.live.map score) :
    Spec.dynRowsHaveConn (snapshot st) σl = true := by
  unfold Spec.dynRowsHaveConn
  rw [snapshot_all]
  intro e he
  simp only [Spec.imp, Bool.or_eq_true, Bool.not_eq_true', List.any_eq_true, decide_eq_true_eq, snapRow]
  by_cases hd : e.2.cfg.dyn = true
  · right
    obtain ⟨s, hs, hc⟩ := hi.dyn e he hd
    have haddr := hi.core.owner s hs e he hc
    obtain ⟨x, hx, hxs⟩ := live_mem_of_model hl s hs
    simp only [lcore, score, Prod.mk.injEq] at hxs
    exact ⟨x, hx, by rw [hxs.2.1, haddr]; simp⟩
  · left; simpa using hd



/-! ### one step of the checker against one step of the model -/

theorem rowOf_coupled {gl groups adm st σ} (hc : Coupled gl groups adm st σ) (hi : Inv st) (a : Ip) :
    Spec.rowOf σ.rows a = (plookup a st.peers).map (fun p => snapRow st (a, p)) := by
  rw [hc.rows]; exact rowOf_snapshot st hi.core.keys a

theorem contains_false {a : Ip} {l : List Ip} (h : a ∉ l) : l.contains a = false := by
  cases hh : l.contains a with
  | false => rfl
  | true => exact absurd (List.contains_iff_mem.mp hh) h

theorem contains_true {a : Ip} {l : List Ip} (h : a ∈ l) : l.contains a = true :=
  List.contains_iff_mem.mpr h

/-- a rejected connection: nothing changes, and the checker is satisfied provided the rejection
    was one of the permitted ones -/
theorem sim_reject (gl : GlobalCfg) (groups : List Group) (adm : Bool) (st : St) (σ : Spec.S) (a : Ip) (role : Role) (k : Nat)
    (hc : Coupled gl groups adm st σ) (hi : Inv st)
    (h1 : ∀ p, plookup a st.peers = some p → p.adminDown = false →
      ∃ x ∈ σ.live, x.addr = a ∧ x.role = role)
    (h2 : plookup a st.peers = none → Spec.coveringGroups groups a = []) :
    Spec.checkConnect gl groups k σ a role { res := .reject 0, snap := snapshot st } = (.ok, σ, false) := by
  unfold Spec.checkConnect
  simp only
  have hrow := rowOf_coupled hc hi a
  have c1 : Spec.imp (!σ.poison.contains a && (Spec.rowOf σ.rows a).isSome && decide ((Spec.rowOf σ.rows a).map (·.adminDown) = some false))
      (!((Spec.liveFor σ.live a).filter fun s => s.role = role).isEmpty) = true := by
    unfold Spec.imp
    rw [hrow]
    cases hl : plookup a st.peers with
    | none => simp
    | some p =>
      simp only [Option.map_some, Option.isSome_some, Bool.and_true, snapRow]
      by_cases had : p.adminDown = false
      · obtain ⟨x, hx, hxa, hxr⟩ := h1 p hl had
        have : x ∈ (Spec.liveFor σ.live a).filter fun s => s.role = role := by
          simp only [Spec.liveFor, List.mem_filter, decide_eq_true_eq]; exact ⟨⟨hx, hxa⟩, hxr⟩
        cases hh : (Spec.liveFor σ.live a).filter fun s => s.role = role with
        | nil => rw [hh] at this; simp at this
        | cons _ _ => simp
      · have : p.adminDown = true := by cases h : p.adminDown <;> simp_all
        simp [this]
  have c2 : Spec.imp (Spec.rowOf σ.rows a).isNone (Spec.coveringGroups groups a).isEmpty = true := by
    unfold Spec.imp
    rw [hrow]
    cases hl : plookup a st.peers with
    | none => simp [h2 hl]
    | some p => simp
  have c3 : (snapshot st == σ.rows) = true := by rw [hc.rows]; simp
  simp only [c1, c2, c3, Spec.firstFail, decide_true]

theorem snapshot_open_has (st : St) (a : Ip) (p : Peer) (role : Role) (hk : (st.peers.map (·.1)).Nodup)
    (hl : plookup a st.peers = some p) :
    (Spec.rowOf (snapshot (openSession st a p role).1) a).isSome = true := by
  have f1 : (openSession st a p role).1.peers = st.peers := (openSession_fields st a p role).1
  rw [rowOf_snapshot _ (by rw [f1]; exact hk), f1, hl]; rfl

/-- the new spec-side record of an accepted session -/
def newLive (st : St) (a : Ip) (p : Peer) (role : Role) : Spec.LiveS := ⟨st.nextSid, a, role, false, p.cfg⟩

/-- coupling after `openSession`: either nobody of that context and direction is connected, or the
    address has been written off -/
theorem coupled_open (gl : GlobalCfg) (groups : List Group) (adm : Bool) (st : St) (σ : Spec.S) (a : Ip) (p : Peer) (role : Role)
    (hc : Coupled gl groups adm st σ) (hi : InvCore st) (hl : plookup a st.peers = some p)
    (hfree : (st.ctx p.ctx).get role = none)
    (known' : List Spec.Known) (poison' : List Ip) (hit' : Option (Nat × String))
    (hk1 : ∀ kn ∈ known', ∃ e ∈ st.peers, kn = knownFor st e) (hk2 : ∀ e ∈ st.peers, ∃ kn ∈ known', kn.addr = e.1)
    (hsub : ∀ x ∈ σ.poison, x ∈ poison')
    (hnone : (∀ s ∈ st.live, s.ctx = p.ctx → s.role = role → False) ∨ a ∈ poison')
    (hq : adm = false → hit' = none ∧ poison' = [])
    (hh : ∀ k c, hit' = some (k, c) → c ∈ hitClauses) :
    Coupled gl groups adm (openSession st a p role).1
      { rows := snapshot (openSession st a p role).1, known := known'
        live := σ.live ++ [newLive st a p role], nextSid := st.nextSid + 1, poison := poison', hit := hit' } := by
  obtain ⟨f1, f2, f3, g1, g2, g3, g4, s, f4, s1, s2, s3, s4, s5, s6, s7, s8, s9⟩ := openSession_fields st a p role
  have hm := plookup_mem a p st.peers hl
  have hp := hi.ctxLt _ hm
  have hctx := ctx_openSession st a p role hp
  have hkf : ∀ e, knownFor (openSession st a p role).1 e = knownFor st e := by
    intro e; simp only [knownFor, g3]
  refine ⟨⟨by rw [g1]; exact hc.glob.1, by rw [g2]; exact hc.glob.2.1, by rw [g3]; exact hc.glob.2.2.1,
    by rw [g4]; exact hc.glob.2.2.2⟩, rfl, f3.symm, ?_, ?_, ?_, ?_, ?_, ?_, ?_, hh⟩
  · simp only [List.map_append, hc.live, f4, List.map_cons, List.map_nil]
    congr 1
    simp only [lcore, score, newLive, s1, s2, s3, s6, s7, s8, s9]
  · intro kn hkn
    obtain ⟨e, he, hke⟩ := hk1 kn hkn
    exact ⟨e, by rw [f1]; exact he, by rw [hkf]; exact hke⟩
  · intro e he; rw [f1] at he; exact hk2 e he
  · intro x hx hxc hxp
    simp only [List.mem_append, List.mem_cons, List.mem_nil_iff, or_false] at hx
    rcases hx with hx | hx
    · obtain ⟨q, hq1, hq2⟩ := hc.healthy x hx hxc (fun h => hxp (hsub _ h))
      refine ⟨q, by rw [f1]; exact hq1, ?_⟩
      rw [hctx]
      by_cases hqc : q.ctx = p.ctx
      · simp only [hqc, if_true, get_set]
        by_cases hr : x.role = role
        · exfalso
          rw [hqc, hr, hfree] at hq2; cases hq2
        · simp only [hr, if_false]; rw [← hqc]; exact hq2
      · simp only [hqc, if_false]; exact hq2
    · subst hx
      refine ⟨p, by rw [f1]; exact hl, ?_⟩
      rw [hctx]; simp [newLive, get_set]
  · intro t1 h1 t2 h2 hct hrl hne hnp x hx hxs
    rw [f4] at h1 h2
    simp only [List.mem_append, List.mem_cons, List.mem_nil_iff, or_false] at h1 h2 hx
    have clean : ∀ t ∈ st.live, t.ctx = p.ctx → t.role = role → t.addr ∉ poison' → False := by
      intro t ht htc htr htp
      rcases hnone with hn | hn
      · exact hn t ht htc htr
      · exact htp (by rw [hi.owner t ht (a, p) hm htc]; exact hn)
    rcases h1 with h1 | h1 <;> rcases h2 with h2 | h2
    · rcases hx with hx | hx
      · exact hc.uniq t1 h1 t2 h2 hct hrl hne (fun h => hnp (hsub _ h)) x hx hxs
      · exfalso
        subst hx
        simp only [newLive] at hxs
        rcases hxs with e | e
        · have := (hi.liveLt t1 h1).1; omega
        · have := (hi.liveLt t2 h2).1; omega
    · exfalso; exact clean t1 h1 (by rw [hct, h2, s4]) (by rw [hrl, h2, s3]) hnp
    · exfalso
      have hc2 : t2.ctx = p.ctx := by rw [← hct, h1, s4]
      have haddr : t2.addr = t1.addr := by rw [h1, s2]; exact hi.owner t2 h2 (a, p) hm hc2
      exact clean t2 h2 hc2 (by rw [← hrl, h1, s3]) (by rw [haddr]; exact hnp)
    · exfalso; rw [h1, h2] at hne; exact hne rfl
  · intro t ht hd x hx hxs
    rw [f4] at ht
    simp only [List.mem_append, List.mem_cons, List.mem_nil_iff, or_false] at ht hx
    rcases ht with ht | ht
    · rcases hx with hx | hx
      · exact hc.doomed t ht hd x hx hxs
      · exfalso; subst hx; simp only [newLive] at hxs
        have := (hi.liveLt t ht).1; omega
    · rw [ht, s5] at hd; cases hd
  · intro ha
    obtain ⟨q1, _, _⟩ := hc.quiet ha
    refine ⟨?_, (hq ha).1, (hq ha).2⟩
    intro x hx
    simp only [List.mem_append, List.mem_cons, List.mem_nil_iff, or_false] at hx
    rcases hx with hx | hx
    · exact q1 x hx
    · subst hx; rfl

theorem recordHit_ok (σ : Spec.S) (k : Nat) (c : String) (as : List Ip) (hc : c ∈ hitClauses)
    (h : ∀ k c, σ.hit = some (k, c) → c ∈ hitClauses) :
    ∀ k' c', (σ.recordHit k c as).hit = some (k', c') → c' ∈ hitClauses := by
  intro k' c' he
  simp only [Spec.S.recordHit] at he
  cases hh : σ.hit with
  | none => rw [hh] at he; simp only [Option.some.injEq, Prod.mk.injEq] at he; rw [← he.2]; exact hc
  | some x => rw [hh] at he; simp only at he; exact h k' c' (by rw [hh, he])

theorem sim_accept_known (gl : GlobalCfg) (groups : List Group) (adm : Bool) (st : St) (σ : Spec.S) (a : Ip) (role : Role) (k : Nat)
    (hc : Coupled gl groups adm st σ) (hi : Inv st) (p : Peer) (hl : plookup a st.peers = some p)
    (had : p.adminDown = false) (hfree : (st.ctx p.ctx).get role = none) :
    ∃ σ', Spec.checkConnect gl groups k σ a role
        { res := (openSession st a p role).2, snap := snapshot (openSession st a p role).1 } = (.ok, σ', false) ∧
        Coupled gl groups adm (openSession st a p role).1 σ' := by
  have hm := plookup_mem a p st.peers hl
  have hrow : Spec.rowOf σ.rows a = some (snapRow st (a, p)) := by rw [rowOf_coupled hc hi a, hl]; rfl
  have hknown := knownOf_cur hc (a, p) hm hi.core.keys
  simp only at hknown
  have hinv' : Inv (openSession st a p role).1 :=
    ⟨inv_openSession st a p role hi.core hm, dyn_openSession st a p role hi.dyn⟩
  -- the checks that do not depend on who else is connected
  have hall : (σ.live ++ [(⟨st.nextSid, a, role, false, p.cfg⟩ : Spec.LiveS)]).map lcore = (openSession st a p role).1.live.map score →
      ∀ e ∈ ([ (decide (p.cfg = (knownFor st (a, p)).cfg) && decide (peerRole p.cfg st.confed = (knownFor st (a, p)).role),
            "neighbour-configuration-changed") ]
          ++ Spec.sessOk gl p.cfg (peerRole p.cfg st.confed)
              { role := peerRole p.cfg st.confed, localAsn := p.cfg.localAsn, caps := p.cfg.caps, pl := p.cfg.pl
                cluster := clusterOf (peerRole p.cfg st.confed) p.cfg st.rid
                confedId := confedIdOf st.confed, restarting := false }
          ++ [ ((Spec.rowOf (snapshot (openSession st a p role).1) a).isSome, "accepted-without-neighbour-state"),
               (Spec.dynRowsHaveConn (snapshot (openSession st a p role).1) (σ.live ++ [⟨st.nextSid, a, role, false, p.cfg⟩]), "dynamic-neighbour-without-connection") ]),
        e.1 = true := by
    intro hL e he
    simp only [List.mem_append, List.mem_cons, List.mem_nil_iff, or_false] at he
    rcases he with (rfl | he) | rfl | rfl
    · simp [knownFor]
    · exact sessOk_open gl st a p role ⟨hc.glob.2.1, hc.glob.2.2.1⟩ e he
    · exact snapshot_open_has st a p role hi.core.keys hl
    · exact dynRows_ok _ _ hinv' hL
  rw [openSession_res]
  unfold Spec.checkConnect
  simp only [hrow, snapRow, had, Bool.false_eq_true, if_false, hc.next, bne_self_eq_false, hknown]
  by_cases hp : a ∈ σ.poison
  · -- the address has been written off: uniqueness is not judged
    have hpc := contains_true hp
    have hcoup := coupled_open gl groups adm st σ a p role hc hi.core hl hfree σ.known σ.poison σ.hit hc.knownCur hc.knownAll
      (fun _ h => h) (Or.inr hp) (fun ha => ⟨(hc.quiet ha).2.1, (hc.quiet ha).2.2⟩) hc.hitOk
    refine ⟨_, ?_, hcoup⟩
    simp only [hpc, Bool.not_true, Bool.false_and, Bool.false_eq_true, if_false]
    rw [all_true (hall hcoup.live) k]
    rfl
  · have hpc := contains_false hp
    -- no healthy connection of that direction exists: the slot is free
    have hsame : ∀ x ∈ (Spec.liveFor σ.live a).filter (fun s => s.role = role), x.closing = true := by
      intro x hx
      simp only [Spec.liveFor, List.mem_filter, decide_eq_true_eq] at hx
      obtain ⟨⟨hx1, hx2⟩, hx3⟩ := hx
      cases hcl : x.closing with
      | true => rfl
      | false =>
        exfalso
        obtain ⟨q, hq1, hq2⟩ := hc.healthy x hx1 hcl (by rw [hx2]; exact hp)
        rw [hx2, hl] at hq1; injection hq1 with hq1
        rw [← hq1, hx3, hfree] at hq2; cases hq2
    have hany : (((Spec.liveFor σ.live a).filter (fun s => s.role = role)).any fun s => !s.closing) = false := by
      rw [Bool.eq_false_iff]; intro h
      simp only [List.any_eq_true, Bool.not_eq_true'] at h
      obtain ⟨x, hx, hxc⟩ := h
      rw [hsame x hx] at hxc; cases hxc
    simp only [hpc, Bool.not_false, Bool.true_and, hany, Bool.false_eq_true, if_false]
    by_cases hemp : ((Spec.liveFor σ.live a).filter (fun s => s.role = role)).isEmpty = true
    · -- nobody of this context and direction is connected
      have hnone : ∀ s ∈ st.live, s.ctx = p.ctx → s.role = role → False := by
        intro s hs hsc hsr
        have haddr := hi.core.owner s hs (a, p) hm hsc
        obtain ⟨x, hx, hxs⟩ := live_mem_of_model hc.live s hs
        simp only [lcore, score, Prod.mk.injEq] at hxs
        have : x ∈ (Spec.liveFor σ.live a).filter (fun s => s.role = role) := by
          simp only [Spec.liveFor, List.mem_filter, decide_eq_true_eq]
          exact ⟨⟨hx, by rw [hxs.2.1, haddr]⟩, by rw [hxs.2.2.1, hsr]⟩
        rw [List.isEmpty_iff.mp hemp] at this; simp at this
      have hcoup := coupled_open gl groups adm st σ a p role hc hi.core hl hfree σ.known σ.poison σ.hit hc.knownCur hc.knownAll
        (fun _ h => h) (Or.inl hnone) (fun ha => ⟨(hc.quiet ha).2.1, (hc.quiet ha).2.2⟩) hc.hitOk
      refine ⟨_, ?_, hcoup⟩
      simp only [hemp, Bool.not_true, Bool.false_eq_true, if_false]
      rw [all_true (hall hcoup.live) k]
      rfl
    · -- F16c: accepted next to a closing connection; noted, the address is written off
      have hne : ((Spec.liveFor σ.live a).filter (fun s => s.role = role)).isEmpty = false := by
        cases h : ((Spec.liveFor σ.live a).filter (fun s => s.role = role)).isEmpty <;> simp_all
      have hadm : adm = true := by
        cases hadm : adm with
        | true => rfl
        | false =>
          exfalso
          cases hh : (Spec.liveFor σ.live a).filter (fun s => s.role = role) with
          | nil => rw [hh] at hne; simp at hne
          | cons x t =>
            have hx : x ∈ (Spec.liveFor σ.live a).filter (fun s => s.role = role) := by rw [hh]; simp
            have h1 := hsame x hx
            simp only [Spec.liveFor, List.mem_filter] at hx
            rw [(hc.quiet hadm).1 x hx.1.1] at h1; cases h1
      have hcoup := coupled_open gl groups adm st σ a p role hc hi.core hl hfree σ.known
        ([a] ++ σ.poison) (σ.recordHit k Spec.hitStatic [a]).hit hc.knownCur hc.knownAll
        (fun _ h => List.mem_append_right _ h) (Or.inr (by simp)) (fun ha => by rw [hadm] at ha; cases ha)
        (recordHit_ok σ k _ [a] (by simp [hitClauses]) hc.hitOk)
      refine ⟨_, ?_, hcoup⟩
      simp only [hne, Bool.not_false, if_true]
      rw [all_true (hall hcoup.live) k]
      rfl

/-! ### a new dynamic neighbour -/

theorem coupled_addPeer (gl : GlobalCfg) (groups : List Group) (adm : Bool) (st st1 : St) (σ : Spec.S) (prm : Params)
    (hc : Coupled gl groups adm st σ) (h : addPeer st prm = some st1) :
    Coupled gl groups adm st1
      { σ with rows := snapshot st1, known := σ.known ++ [knownFor st1 (newPeer st prm)] } := by
  obtain ⟨hnone, rfl⟩ := addPeer_eq st prm st1 h
  have hkf : ∀ e, knownFor ({ st with peers := st.peers ++ [newPeer st prm], ctxs := st.ctxs ++ [{}] } : St) e = knownFor st e :=
    fun e => rfl
  refine ⟨hc.glob, rfl, hc.next, hc.live, ?_, ?_, ?_, hc.uniq, hc.doomed, hc.quiet, hc.hitOk⟩
  · intro kn hkn
    simp only [List.mem_append, List.mem_cons, List.mem_nil_iff, or_false] at hkn
    rcases hkn with hkn | hkn
    · obtain ⟨e, he, hke⟩ := hc.knownCur kn hkn
      exact ⟨e, List.mem_append_left _ he, hke⟩
    · exact ⟨newPeer st prm, by simp, hkn⟩
  · intro e he
    rcases List.mem_append.mp he with he | he
    · obtain ⟨kn, hkn, hka⟩ := hc.knownAll e he
      exact ⟨kn, List.mem_append_left _ hkn, hka⟩
    · have : e = newPeer st prm := by simpa using he
      exact ⟨knownFor st e, by rw [this]; simp [hkf], rfl⟩
  · intro x hx hxc hxp
    obtain ⟨q, hq1, hq2⟩ := hc.healthy x hx hxc hxp
    refine ⟨q, ?_, ?_⟩
    · show plookup x.addr (st.peers ++ [newPeer st prm]) = some q
      rw [plookup_append, hq1]
    · rw [ctx_append st _ rfl]; exact hq2

theorem sim_accept_dynamic (gl : GlobalCfg) (groups : List Group) (adm : Bool) (st st1 : St) (σ : Spec.S) (a : Ip) (role : Role) (k : Nat)
    (hc : Coupled gl groups adm st σ) (hi : Inv st) (hcid : confedIdOk gl.confed) (g : Group) (p : Peer)
    (hlk : plookup a st.peers = none) (hcov : Spec.coveringGroups groups a = [g])
    (h1 : addPeer st (paramsOfGroup g a) = some st1) (h2 : plookup a st1.peers = some p) :
    ∃ σ', Spec.checkConnect gl groups k σ a role
        { res := (openSession st1 a p role).2, snap := snapshot (openSession st1 a p role).1 } = (.ok, σ', false) ∧
      Coupled gl groups adm (openSession st1 a p role).1 σ' := by
  have hc1 := coupled_addPeer gl groups adm st st1 σ _ hc h1
  have hd : (newPeer st (paramsOfGroup g a)).2.cfg.dyn = true := by
    simp only [newPeer]; rw [build_dyn]; rfl
  have hcore1 := inv_addPeer st _ st1 h1 hi.core (Or.inl hd)
  have hinv' := inv_acceptDynamic st st1 g a role p hi h1 h2
  obtain ⟨_, heq⟩ := addPeer_eq st _ st1 h1
  have hp : p = (newPeer st (paramsOfGroup g a)).2 := by
    rw [heq] at h2
    have : plookup a (st.peers ++ [newPeer st (paramsOfGroup g a)]) = some p := h2
    rw [plookup_append, hlk] at this
    simp only [newPeer, paramsOfGroup, if_true, Option.some.injEq] at this
    exact this.symm
  have hpctx : p.ctx = st.ctxs.length := by rw [hp]; rfl
  have hfree : (st1.ctx p.ctx).get role = none := by
    rw [heq, ctx_append st _ rfl, hpctx, ctx_default st _ (Nat.le_refl _)]
    cases role <;> rfl
  have hnone : ∀ s ∈ st1.live, s.ctx = p.ctx → s.role = role → False := by
    intro s hs hsc _
    have hs' : s ∈ st.live := by rw [heq] at hs; exact hs
    have := (hi.core.liveLt s hs').2
    omega
  have hrow : Spec.rowOf σ.rows a = none := by rw [rowOf_coupled hc hi a, hlk]; rfl
  have hn1 : st1.nextSid = st.nextSid := by rw [heq]
  have hconf1 : st1.confed = st.confed := by rw [heq]
  have hrid1 : st1.rid = st.rid := by rw [heq]
  have hcfg : p.cfg = build (confedAdjust st.asn st.confed (paramsOfGroup g a)) st.asn := by rw [hp]; rfl
  have hall : (σ.live ++ [(⟨st.nextSid, a, role, false, p.cfg⟩ : Spec.LiveS)]).map lcore = (openSession st1 a p role).1.live.map score →
      ∀ e ∈ (Spec.cfgOk gl (Spec.wantDynamic g) (decide (a.bytes.length = 16)) p.cfg (peerRole p.cfg st1.confed)
        ++ Spec.sessOk gl p.cfg (peerRole p.cfg st1.confed)
            { role := peerRole p.cfg st1.confed, localAsn := p.cfg.localAsn, caps := p.cfg.caps, pl := p.cfg.pl
              cluster := clusterOf (peerRole p.cfg st1.confed) p.cfg st1.rid
              confedId := confedIdOf st1.confed, restarting := false }
        ++ [ (decide ((Spec.rowOf (snapshot (openSession st1 a p role).1) a).map (·.dyn) = some true), "accepted-without-dynamic-neighbour-state"),
             (Spec.dynRowsHaveConn (snapshot (openSession st1 a p role).1)
                (σ.live ++ [⟨st.nextSid, a, role, false, p.cfg⟩]), "dynamic-neighbour-without-connection") ]),
      e.1 = true := by
    intro hL e he
    simp only [List.mem_append, List.mem_cons, List.mem_nil_iff, or_false] at he
    rcases he with (he | he) | rfl | rfl
    · have := cfgOk_build st.asn st.rid st.confed (paramsOfGroup g a) (by rw [hc.glob.2.2.1]; exact hcid) e
      rw [want_dynamic, ← hcfg, hconf1] at *
      apply this
      have hgl : (⟨st.asn, st.rid, st.confed⟩ : GlobalCfg) = gl := by
        cases gl; simp only [GlobalCfg.mk.injEq]; exact ⟨hc.glob.1, hc.glob.2.1, hc.glob.2.2.1⟩
      rw [hgl]
      exact he
    · exact sessOk_open gl st1 a p role ⟨by rw [hrid1]; exact hc.glob.2.1, by rw [hconf1]; exact hc.glob.2.2.1⟩ e he
    · have f1 : (openSession st1 a p role).1.peers = st1.peers := (openSession_fields st1 a p role).1
      simp only [decide_eq_true_eq]
      rw [rowOf_snapshot _ (by rw [f1]; exact hcore1.keys), f1, h2]
      simp only [Option.map_some, snapRow, Option.some.injEq]
      rw [hcfg, build_dyn]; rfl
    · exact dynRows_ok _ _ hinv' hL
  -- no connection of that address can be healthy: the address has no neighbour state
  have hsame : ∀ x ∈ (Spec.liveFor σ.live a).filter (fun s => s.role = role), a ∉ σ.poison → x.closing = true := by
    intro x hx hp'
    simp only [Spec.liveFor, List.mem_filter, decide_eq_true_eq] at hx
    cases hcl : x.closing with
    | true => rfl
    | false =>
      exfalso
      obtain ⟨q, hq1, _⟩ := hc.healthy x hx.1.1 hcl (by rw [hx.1.2]; exact hp')
      rw [hx.1.2, hlk] at hq1; cases hq1
  rw [openSession_res]
  unfold Spec.checkConnect
  simp only [hrow, hcov, hn1, hc.next, bne_self_eq_false, Bool.false_eq_true, if_false]
  have hknownEq : knownFor st1 (newPeer st (paramsOfGroup g a)) = ⟨a, p.cfg, peerRole p.cfg st1.confed⟩ := by
    simp only [knownFor, newPeer, paramsOfGroup, hconf1, hcfg]
  by_cases hpo : a ∈ σ.poison
  · have hpc := contains_true hpo
    have hcoup := coupled_open gl groups adm st1 _ a p role hc1 hcore1 h2 hfree
      (σ.known ++ [knownFor st1 (newPeer st (paramsOfGroup g a))]) σ.poison σ.hit hc1.knownCur hc1.knownAll
      (fun _ h => h) (Or.inr hpo) (fun ha => ⟨(hc.quiet ha).2.1, (hc.quiet ha).2.2⟩) hc.hitOk
    refine ⟨_, ?_, hcoup⟩
    simp only [hpc, Bool.not_true, Bool.false_and, Bool.false_eq_true, if_false]
    have hL := hcoup.live
    simp only [newLive, hn1] at hL
    rw [all_true (hall hL) k]
    simp only [Prod.mk.injEq, true_and, and_true, newLive, hn1, hknownEq]
  · have hpc := contains_false hpo
    have hany : (((Spec.liveFor σ.live a).filter (fun s => s.role = role)).any fun s => !s.closing) = false := by
      rw [Bool.eq_false_iff]; intro h
      simp only [List.any_eq_true, Bool.not_eq_true'] at h
      obtain ⟨x, hx, hxc⟩ := h
      rw [hsame x hx hpo] at hxc; cases hxc
    simp only [hpc, Bool.not_false, Bool.true_and, hany, Bool.false_eq_true, if_false]
    by_cases hemp : ((Spec.liveFor σ.live a).filter (fun s => s.role = role)).isEmpty = true
    · have hcoup := coupled_open gl groups adm st1 _ a p role hc1 hcore1 h2 hfree
        (σ.known ++ [knownFor st1 (newPeer st (paramsOfGroup g a))]) σ.poison σ.hit hc1.knownCur hc1.knownAll
        (fun _ h => h) (Or.inl hnone) (fun ha => ⟨(hc.quiet ha).2.1, (hc.quiet ha).2.2⟩) hc.hitOk
      refine ⟨_, ?_, hcoup⟩
      simp only [hemp, Bool.not_true, Bool.false_eq_true, if_false]
      have hL := hcoup.live
      simp only [newLive, hn1] at hL
      rw [all_true (hall hL) k]
      simp only [Prod.mk.injEq, true_and, and_true, newLive, hn1, hknownEq]
    · have hne : ((Spec.liveFor σ.live a).filter (fun s => s.role = role)).isEmpty = false := by
        cases h : ((Spec.liveFor σ.live a).filter (fun s => s.role = role)).isEmpty <;> simp_all
      have hadm : adm = true := by
        cases hadm : adm with
        | true => rfl
        | false =>
          exfalso
          cases hh : (Spec.liveFor σ.live a).filter (fun s => s.role = role) with
          | nil => rw [hh] at hne; simp at hne
          | cons x t =>
            have hx : x ∈ (Spec.liveFor σ.live a).filter (fun s => s.role = role) := by rw [hh]; simp
            have h1' := hsame x hx hpo
            simp only [Spec.liveFor, List.mem_filter] at hx
            rw [(hc.quiet hadm).1 x hx.1.1] at h1'; cases h1'
      have hcoup := coupled_open gl groups adm st1 _ a p role hc1 hcore1 h2 hfree
        (σ.known ++ [knownFor st1 (newPeer st (paramsOfGroup g a))])
        ([a] ++ σ.poison) (σ.recordHit k Spec.hitDynamic [a]).hit hc1.knownCur hc1.knownAll
        (fun _ h => List.mem_append_right _ h) (Or.inr (by simp)) (fun ha => by rw [hadm] at ha; cases ha)
        (recordHit_ok σ k _ [a] (by simp [hitClauses]) hc.hitOk)
      refine ⟨_, ?_, hcoup⟩
      simp only [hne, Bool.not_false, if_true]
      have hL := hcoup.live
      simp only [newLive, hn1] at hL
      rw [all_true (hall hL) k]
      simp only [Prod.mk.injEq, true_and, and_true, newLive, hn1, hknownEq, Spec.S.recordHit]

/-! ### connect -/

theorem sim_amb (gl : GlobalCfg) (groups : List Group) (adm : Bool) (st : St) (σ : Spec.S) (a : Ip) (role : Role) (k : Nat)
    (hc : Coupled gl groups adm st σ) (hi : Inv st) (hlk : plookup a st.peers = none)
    (g1 g2 : Group) (rest : List Group) (hcov : Spec.coveringGroups groups a = g1 :: g2 :: rest) :
    Spec.checkConnect gl groups k σ a role
        { res := .acceptAmb st.nextSid (ssort (groupNames (g1 :: g2 :: rest))) true, snap := [] } = (.ok, σ, true) := by
  have hrow : Spec.rowOf σ.rows a = none := by rw [rowOf_coupled hc hi a, hlk]; rfl
  unfold Spec.checkConnect
  simp only [hrow, hcov, Option.isSome_none, Bool.false_eq_true, if_false, List.length_cons]
  have hlen : ¬ (rest.length + 1 + 1 < 2) := by omega
  simp only [hlen, if_false]
  have hset : Spec.sameSetS (ssort (groupNames (g1 :: g2 :: rest))) ((g1 :: g2 :: rest).map (·.name)) = true := by
    simp only [Spec.sameSetS, Bool.and_eq_true, List.all_eq_true, List.contains_iff_mem]
    constructor
    · intro x hx; rw [mem_ssort] at hx; exact hx
    · intro x hx; rw [mem_ssort]; exact hx
  simp only [hc.next, hset, decide_true, Spec.firstFail]

theorem sim_connect (gl : GlobalCfg) (groups : List Group) (adm : Bool) (st : St) (σ : Spec.S) (a : Ip) (role : Role) (k : Nat)
    (hc : Coupled gl groups adm st σ) (hi : Inv st) (hwf : WFGroups groups) (ha : bytesOk a.bytes)
    (hcid : confedIdOk gl.confed) (st' : St) (res : Res) (abort : Bool)
    (h : acceptConnection st a role = .ok (st', res, abort)) :
    ∃ σ', Spec.checkConnect gl groups k σ a role { res := res, snap := if abort then [] else snapshot st' } = (.ok, σ', abort) ∧
        (abort = false → Coupled gl groups adm st' σ') ∧ (abort = true → σ' = σ) := by
  unfold acceptConnection at h
  cases hl : plookup a st.peers with
  | some p =>
    simp only [hl] at h
    by_cases had : p.adminDown = true
    · simp only [had, if_true, Out.ok.injEq, Prod.mk.injEq] at h
      obtain ⟨rfl, rfl, rfl⟩ := h
      refine ⟨σ, ?_, fun _ => hc, fun _ => rfl⟩
      simp only [Bool.false_eq_true, if_false]
      apply sim_reject gl groups adm st σ a role k hc hi
      · intro q hq hqa; rw [hl] at hq; injection hq with hq; rw [← hq, had] at hqa; cases hqa
      · intro hn; rw [hl] at hn; cases hn
    · have had' : p.adminDown = false := by cases hh : p.adminDown <;> simp_all
      simp only [had, Bool.false_eq_true, if_false] at h
      by_cases hs : ((st.ctx p.ctx).get role).isSome = true
      · simp only [hs, if_true, Out.ok.injEq, Prod.mk.injEq] at h
        obtain ⟨rfl, rfl, rfl⟩ := h
        refine ⟨σ, ?_, fun _ => hc, fun _ => rfl⟩
        simp only [Bool.false_eq_true, if_false]
        apply sim_reject gl groups adm st σ a role k hc hi
        · intro q hq _
          rw [hl] at hq; injection hq with hq; subst hq
          obtain ⟨sid, hsid⟩ := Option.isSome_iff_exists.mp hs
          obtain ⟨s, hs1, _, hs3, hs4⟩ := hi.core.slotLive p.ctx role sid hsid
          have haddr := hi.core.owner s hs1 (a, p) (plookup_mem _ _ _ hl) hs3
          obtain ⟨x, hx, hxs⟩ := live_mem_of_model hc.live s hs1
          simp only [lcore, score, Prod.mk.injEq] at hxs
          exact ⟨x, hx, by rw [hxs.2.1, haddr], by rw [hxs.2.2.1, hs4]⟩
        · intro hn; rw [hl] at hn; cases hn
      · have hfree : (st.ctx p.ctx).get role = none := by
          cases hh : (st.ctx p.ctx).get role <;> simp_all
        simp only [hs, Bool.false_eq_true, if_false, Out.ok.injEq, Prod.mk.injEq] at h
        obtain ⟨rfl, rfl, rfl⟩ := h
        simp only [Bool.false_eq_true, if_false]
        obtain ⟨σ', h1, h2⟩ := sim_accept_known gl groups adm st σ a role k hc hi p hl had' hfree
        exact ⟨σ', h1, fun _ => h2, fun h => absurd h (by simp)⟩
  | none =>
    simp only [hl, bind, Bind.bind] at h
    have hm := matching_eq st.groups a (by rw [hc.glob.2.2.2]; exact hwf) ha
    rw [hc.glob.2.2.2] at hm
    rw [hc.glob.2.2.2, hm] at h
    simp only at h
    match hcov : Spec.coveringGroups groups a, h with
    | [], h =>
      simp only [pure, Out.ok.injEq, Prod.mk.injEq] at h
      obtain ⟨rfl, rfl, rfl⟩ := h
      refine ⟨σ, ?_, fun _ => hc, fun _ => rfl⟩
      simp only [Bool.false_eq_true, if_false]
      apply sim_reject gl groups adm st σ a role k hc hi
      · intro q hq; rw [hl] at hq; cases hq
      · intro _; exact hcov
    | [g], h =>
      simp only at h
      cases h1 : addPeer st (paramsOfGroup g a) with
      | none => simp [h1] at h
      | some st1 =>
        simp only [h1] at h
        cases h2 : plookup a st1.peers with
        | none => simp [h2] at h
        | some p =>
          simp only [h2, pure, Out.ok.injEq, Prod.mk.injEq] at h
          obtain ⟨rfl, rfl, rfl⟩ := h
          simp only [Bool.false_eq_true, if_false]
          obtain ⟨σ', e1, e2⟩ := sim_accept_dynamic gl groups adm st st1 σ a role k hc hi hcid g p hl hcov h1 h2
          exact ⟨σ', e1, fun _ => e2, fun h => absurd h (by simp)⟩
    | g1 :: g2 :: rest, h =>
      simp only [pure, Out.ok.injEq, Prod.mk.injEq] at h
      obtain ⟨rfl, rfl, rfl⟩ := h
      refine ⟨σ, ?_, fun hh => Bool.noConfusion hh, fun _ => rfl⟩
      simp only [if_true]
      exact sim_amb gl groups adm st σ a role k hc hi hl g1 g2 rest hcov


/-! ### steps in which nothing new appears -/

theorem coupled_shrink (gl : GlobalCfg) (groups : List Group) (adm adm' : Bool) (st st' : St) (σ σ' : Spec.S)
    (hc : Coupled gl groups adm st σ) (hk : (st.peers.map (·.1)).Nodup) (hk' : (st'.peers.map (·.1)).Nodup)
    (hglob : st'.asn = st.asn ∧ st'.rid = st.rid ∧ st'.confed = st.confed ∧ st'.groups = st.groups)
    (hrows : σ'.rows = snapshot st') (hnext : σ'.nextSid = σ.nextSid) (hn : st'.nextSid = st.nextSid)
    (hlive : σ'.live.map lcore = st'.live.map score)
    (hpeers : ∀ e ∈ st'.peers, ∃ e0 ∈ st.peers, e0.1 = e.1 ∧ e0.2.ctx = e.2.ctx ∧ e0.2.cfg = e.2.cfg)
    (hknown : σ'.known = σ.known.filter fun kn => (Spec.rowOf σ'.rows kn.addr).isSome)
    (hsub : ∀ s ∈ st'.live, ∃ s0 ∈ st.live, core s0 = core s)
    (hlv : ∀ y ∈ σ'.live, ∃ y0 ∈ σ.live, y0.sid = y.sid ∧ y0.addr = y.addr ∧ y0.role = y.role ∧
      (y.closing = false → y0.closing = false))
    (hvan : ∀ y ∈ σ'.live, y.closing = false → y.addr ∉ σ'.poison → (plookup y.addr st'.peers).isSome)
    (hslot : ∀ y ∈ σ'.live, y.closing = false → y.addr ∉ σ'.poison → ∀ q, plookup y.addr st.peers = some q →
      (st.ctx q.ctx).get y.role = some y.sid → (st'.ctx q.ctx).get y.role = some y.sid)
    (hpois : ∀ x ∈ σ.poison, x ∈ σ'.poison)
    (hdoom : ∀ s ∈ st'.live, s.doom.isSome = true → ∀ x ∈ σ'.live, x.sid = s.sid → x.closing = true)
    (hquiet : adm' = false → (∀ x ∈ σ'.live, x.closing = false) ∧ σ'.hit = none ∧ σ'.poison = [])
    (hhit : ∀ k c, σ'.hit = some (k, c) → c ∈ hitClauses) :
    Coupled gl groups adm' st' σ' := by
  have hrow' : ∀ a, (Spec.rowOf σ'.rows a).isSome = (plookup a st'.peers).isSome := by
    intro a; rw [hrows, rowOf_snapshot st' hk' a]; cases plookup a st'.peers <;> rfl
  refine ⟨⟨by rw [hglob.1]; exact hc.glob.1, by rw [hglob.2.1]; exact hc.glob.2.1, by rw [hglob.2.2.1]; exact hc.glob.2.2.1,
    by rw [hglob.2.2.2]; exact hc.glob.2.2.2⟩, hrows, by rw [hnext, hn]; exact hc.next, hlive, ?_, ?_, ?_, ?_, hdoom, hquiet, hhit⟩
  · intro kn hkn
    rw [hknown, List.mem_filter] at hkn
    obtain ⟨e, he, hke⟩ := hc.knownCur kn hkn.1
    have hsome := hkn.2
    rw [hrow'] at hsome
    obtain ⟨p', hp'⟩ := Option.isSome_iff_exists.mp hsome
    have hm' := plookup_mem _ _ _ hp'
    obtain ⟨e0, he0, k0, c0, g0⟩ := hpeers _ hm'
    have hka : kn.addr = e.1 := by rw [hke]; rfl
    have : e0 = e := eq_of_key hk he0 he (by rw [k0, hka])
    refine ⟨(kn.addr, p'), hm', ?_⟩
    rw [hke]
    have hg : e.2.cfg = p'.cfg := by rw [← this]; exact g0
    simp only [knownFor, hglob.2.2.1, hg]
  · intro e he
    obtain ⟨e0, he0, k0, _, _⟩ := hpeers e he
    obtain ⟨kn, hkn, hka⟩ := hc.knownAll e0 he0
    refine ⟨kn, ?_, by rw [hka, k0]⟩
    rw [hknown, List.mem_filter]
    refine ⟨hkn, ?_⟩
    rw [hrow', hka, k0, plookup_of_mem e.1 e.2 st'.peers hk' (by cases e; exact he)]; rfl
  · intro y hy hyc hyp
    obtain ⟨y0, hy0, e1, e2, e3, e4⟩ := hlv y hy
    obtain ⟨q, hq1, hq2⟩ := hc.healthy y0 hy0 (e4 hyc) (fun h => hyp (by rw [← e2]; exact hpois _ h))
    rw [e2] at hq1; rw [e3, e1] at hq2
    obtain ⟨p', hp'⟩ := Option.isSome_iff_exists.mp (hvan y hy hyc hyp)
    have hm' := plookup_mem _ _ _ hp'
    obtain ⟨e0, he0, k0, c0, _⟩ := hpeers _ hm'
    have : e0 = (y.addr, q) := eq_of_key hk he0 (plookup_mem _ _ _ hq1) k0
    refine ⟨p', hp', ?_⟩
    have hcq : p'.ctx = q.ctx := by rw [← c0, this]
    rw [hcq]
    exact hslot y hy hyc hyp q hq1 hq2
  · intro s1 h1 s2 h2 hct hrl hne hnp y hy hys
    obtain ⟨y0, hy0, e1, _, _, e4⟩ := hlv y hy
    cases hcl : y.closing with
    | true => rfl
    | false =>
      obtain ⟨t1, ht1, c1⟩ := hsub s1 h1
      obtain ⟨t2, ht2, c2⟩ := hsub s2 h2
      simp only [core, Prod.mk.injEq] at c1 c2
      have := hc.uniq t1 ht1 t2 ht2 (by rw [c1.2.2.2, c2.2.2.2]; exact hct) (by rw [c1.2.2.1, c2.2.2.1]; exact hrl)
        (by rw [c1.1, c2.1]; exact hne) (fun h => hnp (by rw [← c1.2.1]; exact hpois _ h)) y0 hy0 (by rw [e1, c1.1, c2.1]; exact hys)
      rw [e4 hcl] at this; cases this


/-! ### disconnect -/

theorem disconnect_res (st : St) (sid : Nat) (reply : Option Nat) (s : Sess) (h : st.live.find? (fun x => x.sid = sid) = some s) :
    (disconnect st sid reply).2 = firstSeen s st.rid reply := by
  unfold disconnect
  simp only [h, St.setCtx]
  cases hl : plookup s.addr st.peers with
  | none => rfl
  | some p =>
    simp only
    by_cases a : (((st.ctx s.ctx).set s.role none).slotA.isNone && ((st.ctx s.ctx).set s.role none).slotP.isNone) = true
    · by_cases b : p.cfg.dyn = true
      · simp only [a, b, if_true]
      · simp only [a, b, if_true, Bool.false_eq_true, if_false]
    · simp only [a, Bool.false_eq_true, if_false]

theorem disconnect_spec (st : St) (sid : Nat) (reply : Option Nat) (s : Sess) (h : st.live.find? (fun x => x.sid = sid) = some s)
    (hi : Inv st) :
    (∀ e ∈ (disconnect st sid reply).1.peers, e ∈ st.peers) ∧
    (∀ e ∈ st.peers, e ∈ (disconnect st sid reply).1.peers ∨
      (e.1 = s.addr ∧ ((st.ctx s.ctx).set s.role none).slotA = none ∧ ((st.ctx s.ctx).set s.role none).slotP = none)) ∧
    (disconnect st sid reply).1.live = st.live.filter (fun x => x.sid != s.sid) ∧
    ((disconnect st sid reply).1.asn = st.asn ∧ (disconnect st sid reply).1.rid = st.rid ∧
      (disconnect st sid reply).1.confed = st.confed ∧ (disconnect st sid reply).1.groups = st.groups) ∧
    (disconnect st sid reply).1.nextSid = st.nextSid ∧
    (∀ j r v, (st.ctx j).get r = some v → ¬ (j = s.ctx ∧ r = s.role) →
      ((disconnect st sid reply).1.ctx j).get r = some v ∨
      (∃ p, plookup s.addr st.peers = some p ∧ p.cfg.dyn = false ∧ j = p.ctx ∧
        ((st.ctx s.ctx).set s.role none).slotA = none ∧ ((st.ctx s.ctx).set s.role none).slotP = none)) := by
  have hs := (find_sid h).1
  have hsc := (hi.core.liveLt s hs).2
  have hctxA : ∀ j, (afterApply st s).ctx j = if j = s.ctx then (st.ctx s.ctx).set s.role none else st.ctx j := by
    intro j
    have := ctx_setCtx st s.ctx j ((st.ctx s.ctx).set s.role none) hsc
    simpa [afterApply, St.ctx, St.setCtx] using this
  have keepA : ∀ j r v, (st.ctx j).get r = some v → ¬ (j = s.ctx ∧ r = s.role) → ((afterApply st s).ctx j).get r = some v := by
    intro j r v hv hne
    rw [hctxA]
    by_cases hj : j = s.ctx
    · simp only [hj, if_true, get_set]
      have hr : r ≠ s.role := fun e => hne ⟨hj, e⟩
      simp only [hr, if_false]; rw [← hj]; exact hv
    · simp only [hj, if_false]; exact hv
  rw [disconnect_eq st sid reply s h]
  simp only
  cases hl : plookup s.addr (afterApply st s).peers with
  | none => exact ⟨fun e he => he, fun e he => Or.inl he, rfl, (by first | exact ⟨rfl, rfl, rfl, rfl⟩ | simp [afterApply, St.setCtx]), rfl, fun j r v hv hne => Or.inl (keepA j r v hv hne)⟩
  | some p =>
    simp only
    have hl' : plookup s.addr st.peers = some p := hl
    by_cases hno : (((st.ctx s.ctx).set s.role none).slotA.isNone && ((st.ctx s.ctx).set s.role none).slotP.isNone) = true
    · simp only [hno, if_true]
      by_cases hd : p.cfg.dyn = true
      · simp only [hd, if_true]
        refine ⟨fun e he => ((mem_perase _ _ _).mp he).1, ?_, rfl, (by first | exact ⟨rfl, rfl, rfl, rfl⟩ | simp [afterApply, St.setCtx]), rfl,
          fun j r v hv hne => Or.inl (keepA j r v hv hne)⟩
        intro e he
        by_cases hea : e.1 = s.addr
        · right
          simp only [Bool.and_eq_true, Option.isNone_iff_eq_none] at hno
          exact ⟨hea, hno.1, hno.2⟩
        · left; exact (mem_perase _ _ _).mpr ⟨he, hea⟩
      · simp only [hd, Bool.false_eq_true, if_false]
        have hpl : p.ctx < (afterApply st s).ctxs.length := by
          have := hi.core.ctxLt (s.addr, p) (plookup_mem _ _ _ hl')
          simpa [afterApply, St.setCtx] using this
        refine ⟨fun e he => he, fun e he => Or.inl he, rfl, (by first | exact ⟨rfl, rfl, rfl, rfl⟩ | simp [afterApply, St.setCtx]), rfl, ?_⟩
        intro j r v hv hne
        by_cases hj : j = p.ctx
        · right
          simp only [Bool.and_eq_true, Option.isNone_iff_eq_none] at hno
          exact ⟨p, hl', by cases h : p.cfg.dyn <;> simp_all, hj, hno.1, hno.2⟩
        · left
          rw [ctx_setCtx _ _ _ _ hpl]
          simp only [hj, if_false]
          exact keepA j r v hv hne
    · simp only [hno, Bool.false_eq_true, if_false]
      exact ⟨fun e he => he, fun e he => Or.inl he, rfl, (by first | exact ⟨rfl, rfl, rfl, rfl⟩ | simp [afterApply, St.setCtx]), rfl, fun j r v hv hne => Or.inl (keepA j r v hv hne)⟩


theorem mem_closeVanished (rows : List SnapRow) (l : List Spec.LiveS) (y : Spec.LiveS) (hy : y ∈ Spec.closeVanished rows l) :
    ∃ y0 ∈ l, y0.sid = y.sid ∧ y0.addr = y.addr ∧ y0.role = y.role ∧ y0.cfg = y.cfg ∧
      (y.closing = false → y0.closing = false ∧ (Spec.rowOf rows y.addr).isSome) := by
  simp only [Spec.closeVanished, List.mem_map] at hy
  obtain ⟨y0, h0, rfl⟩ := hy
  refine ⟨y0, h0, ?_⟩
  by_cases hr : (Spec.rowOf rows y0.addr).isNone = true
  · simp [hr]
  · rw [if_neg hr]
    refine ⟨rfl, rfl, rfl, rfl, fun h => ⟨h, ?_⟩⟩
    cases hh : Spec.rowOf rows y0.addr <;> simp_all

theorem mem_vanished (rows : List SnapRow) (poison : List Ip) (l : List Spec.LiveS) (a : Ip) :
    a ∈ Spec.vanished rows poison l ↔
      ∃ y ∈ l, y.addr = a ∧ y.closing = false ∧ y.addr ∉ poison ∧ (Spec.rowOf rows y.addr).isNone = true := by
  simp only [Spec.vanished, List.mem_map, List.mem_filter, Bool.and_eq_true, Bool.not_eq_true']
  constructor
  · rintro ⟨y, ⟨hy, ⟨h1, h2⟩, h3⟩, rfl⟩
    refine ⟨y, hy, rfl, h1, ?_, h3⟩
    intro hm; rw [contains_true hm] at h2; cases h2
  · rintro ⟨y, hy, rfl, h1, h2, h3⟩
    exact ⟨y, ⟨hy, ⟨h1, contains_false h2⟩, h3⟩, rfl⟩

/-- before the first tear-down, ending a session never takes the neighbour state away from
    another connection -/
theorem quiet_rows (gl : GlobalCfg) (groups : List Group) (st : St) (σ : Spec.S) (sid : Nat) (reply : Option Nat) (s : Sess)
    (hc : Coupled gl groups false st σ) (hi : Inv st) (h2 : st.live.find? (fun x => x.sid = sid) = some s)
    (y : Spec.LiveS) (hy : y ∈ σ.live) (hne : y.sid ≠ s.sid) :
    (plookup y.addr (disconnect st sid reply).1.peers).isSome = true := by
  obtain ⟨hs, hsid⟩ := find_sid h2
  obtain ⟨q1, _, q3⟩ := hc.quiet rfl
  obtain ⟨_, dP2, _, _, _, _⟩ := disconnect_spec st sid reply s h2 hi
  have hk' := (inv_disconnect st sid reply hi).core.keys
  obtain ⟨q, hq1, hq2⟩ := hc.healthy y hy (q1 y hy) (by rw [q3]; simp)
  have hqm := plookup_mem _ _ _ hq1
  rcases dP2 _ hqm with hin | ⟨hea, hA, hP⟩
  · rw [plookup_of_mem _ _ _ hk' hin]; rfl
  · exfalso
    -- the session that ends is itself healthy, so it is the holder of its slot
    obtain ⟨x, hx, hxs⟩ := live_mem_of_model hc.live s hs
    simp only [lcore, score, Prod.mk.injEq] at hxs
    obtain ⟨q', hq1', hq2'⟩ := hc.healthy x hx (q1 x hx) (by rw [q3]; simp)
    have hqq : q' = q := by
      rw [hxs.2.1, ← hea] at hq1'
      simp only at hq1'
      rw [hq1] at hq1'; injection hq1' with e; exact e.symm
    rw [hqq, hxs.2.2.1, hxs.1] at hq2'
    obtain ⟨t, ht, ht1, ht2, _⟩ := hi.core.slotLive q.ctx s.role s.sid hq2'
    have hts : t = s := eq_of_sid hi.core.sids ht hs ht1
    have hsc : s.ctx = q.ctx := by rw [← hts]; exact ht2
    have hrl : y.role ≠ s.role := by
      intro e; rw [e, hq2'] at hq2; injection hq2 with e'; exact hne e'.symm
    have hg : ((st.ctx s.ctx).set s.role none).get y.role = some y.sid := by
      rw [get_set]; simp only [hrl, if_false]; rw [hsc]; exact hq2
    cases hr : y.role with
    | active => rw [hr] at hg; simp only [Ctx.get] at hg; rw [hA] at hg; cases hg
    | passive => rw [hr] at hg; simp only [Ctx.get] at hg; rw [hP] at hg; cases hg

theorem sim_disc (gl : GlobalCfg) (groups : List Group) (adm : Bool) (st : St) (σ : Spec.S) (sid k : Nat) (reply : Option Nat)
    (hc : Coupled gl groups adm st σ) (hi : Inv st) :
    ∃ σ', Spec.checkDisc k σ sid reply { res := (disconnect st sid reply).2, snap := snapshot (disconnect st sid reply).1 } = (.ok, σ') ∧
      Coupled gl groups adm (disconnect st sid reply).1 σ' := by
  rcases find_sid_coupled σ.live st.live hc.live sid with ⟨h1, h2⟩ | ⟨x, s, h1, h2, hxs⟩
  · rw [disconnect_none st sid reply h2]
    refine ⟨σ, ?_, hc⟩
    unfold Spec.checkDisc
    simp only [h1]
    have : (snapshot st == σ.rows) = true := by rw [hc.rows]; simp
    simp [Spec.firstFail, this]
  · have hinv' := inv_disconnect st sid reply hi
    obtain ⟨hs, hsid⟩ := find_sid h2
    obtain ⟨dP, _, dL, dG, dN, dS⟩ := disconnect_spec st sid reply s h2 hi
    have hxsid : x.sid = sid := (by simpa using List.find?_some h1)
    have hxm := List.mem_of_find?_eq_some h1
    simp only [lcore, score, Prod.mk.injEq] at hxs
    have hlive' : (σ.live.filter fun y => y.sid != sid).map lcore = (disconnect st sid reply).1.live.map score := by
      rw [dL, hsid]; exact filter_sid_coupled σ.live st.live hc.live sid
    have hk' := hinv'.core.keys
    have c1 : Spec.openOk x (disconnect st sid reply).2 = true := by
      rw [disconnect_res st sid reply s h2]
      unfold firstSeen
      cases hd : s.doom with
      | none => simp [Spec.openOk, hxs.2.2.2.1, hxs.2.2.2.2.1, hxs.2.2.2.2.2.1]
      | some d =>
        have := hc.doomed s hs (by rw [hd]; rfl) x hxm hxs.1
        cases d <;> simp [Spec.openOk, this]
    have c1b : Spec.replyOk x reply (disconnect st sid reply).2 = true := by
      rw [disconnect_res st sid reply s h2]
      unfold firstSeen
      cases hd : s.doom with
      | none =>
        simp only [Spec.replyOk, decide_eq_true_eq, hxs.2.2.2.2.2.2]
      | some d => cases d <;> rfl
    have c3 := dynRows_ok _ _ hinv' hlive'
    have c2 : Spec.imp (decide ((Spec.rowOf σ.rows x.addr).map (·.dyn) = some true) &&
        (Spec.liveFor (σ.live.filter fun y => y.sid != sid) x.addr).isEmpty)
        (Spec.rowOf (snapshot (disconnect st sid reply).1) x.addr).isNone = true := by
      unfold Spec.imp
      rw [rowOf_snapshot _ hk']
      cases hl' : plookup x.addr (disconnect st sid reply).1.peers with
      | none => simp
      | some p' =>
        have hm' := plookup_mem _ _ _ hl'
        have hm := dP _ hm'
        have hold : Spec.rowOf σ.rows x.addr = some (snapRow st (x.addr, p')) := by
          rw [rowOf_coupled hc hi, plookup_of_mem _ _ _ hi.core.keys hm]; rfl
        simp only [hold, Option.map_some, snapRow, Option.some.injEq, Option.isNone_some, Bool.or_false,
          Bool.not_eq_true', Bool.and_eq_false_imp, decide_eq_true_eq]
        intro hd
        obtain ⟨t, ht, htc⟩ := hinv'.dyn _ hm' hd
        have haddr := hinv'.core.owner t ht _ hm' htc
        obtain ⟨y, hy, hys⟩ := live_mem_of_model hlive' t ht
        simp only [lcore, score, Prod.mk.injEq] at hys
        have : y ∈ Spec.liveFor (σ.live.filter fun y => y.sid != sid) x.addr := by
          simp only [Spec.liveFor, List.mem_filter, decide_eq_true_eq] at hy ⊢
          exact ⟨hy, by rw [hys.2.1, haddr]⟩
        cases hh : Spec.liveFor (σ.live.filter fun y => y.sid != sid) x.addr with
        | nil => rw [hh] at this; simp at this
        | cons _ _ => rfl
    -- what has been noted about connections that lost their neighbour state
    let gone := Spec.vanished (snapshot (disconnect st sid reply).1) σ.poison (σ.live.filter fun y => y.sid != sid)
    let σ1 : Spec.S := if gone.isEmpty then σ else σ.recordHit k Spec.hitVanished gone
    have hσ1p : ∀ a, a ∈ σ1.poison ↔ (a ∈ gone ∨ a ∈ σ.poison) := by
      intro a
      show a ∈ (if gone.isEmpty then σ else σ.recordHit k Spec.hitVanished gone).poison ↔ _
      by_cases hg : gone.isEmpty = true
      · rw [if_pos hg]; rw [List.isEmpty_iff.mp hg]; simp
      · rw [if_neg hg]; simp [Spec.S.recordHit]
    have hσ1known : σ1.known = σ.known := by
      show (if gone.isEmpty then σ else σ.recordHit k Spec.hitVanished gone).known = _
      split <;> rfl
    have hσ1next : σ1.nextSid = σ.nextSid := by
      show (if gone.isEmpty then σ else σ.recordHit k Spec.hitVanished gone).nextSid = _
      split <;> rfl
    have hσ1hit : ∀ k' c', σ1.hit = some (k', c') → c' ∈ hitClauses := by
      show ∀ k' c', (if gone.isEmpty then σ else σ.recordHit k Spec.hitVanished gone).hit = some (k', c') → _
      split
      · exact hc.hitOk
      · exact recordHit_ok σ k _ gone (by simp [hitClauses]) hc.hitOk
    refine ⟨{ σ1 with rows := snapshot (disconnect st sid reply).1
                      live := Spec.closeVanished (snapshot (disconnect st sid reply).1) (σ.live.filter fun y => y.sid != sid)
                      known := σ.known.filter fun kn => (Spec.rowOf (snapshot (disconnect st sid reply).1) kn.addr).isSome }, ?_, ?_⟩
    · unfold Spec.checkDisc
      simp only [h1, hxsid, c1, c1b, c2, c3, Spec.firstFail]
      rfl
    · refine coupled_shrink gl groups adm adm st _ σ _ hc hi.core.keys hk' dG ?_ ?_ dN ?_ ?_ ?_ ?_ ?_ ?_ ?_ ?_ ?_ ?_ ?_
      · rfl
      · exact hσ1next
      · rw [closeVanished_lcore]; exact hlive'
      · intro e he; exact ⟨e, dP e he, rfl, rfl, rfl⟩
      · rfl
      · intro t ht; rw [dL] at ht; exact ⟨t, (List.mem_filter.mp ht).1, rfl⟩
      · intro y hy
        obtain ⟨y0, h0, e1, e2, e3, _, e5⟩ := mem_closeVanished _ _ y hy
        exact ⟨y0, (List.mem_filter.mp h0).1, e1, e2, e3, fun h => (e5 h).1⟩
      · intro y hy hyc _
        obtain ⟨y0, h0, e1, e2, e3, _, e5⟩ := mem_closeVanished _ _ y hy
        have := (e5 hyc).2
        rw [rowOf_snapshot _ hk'] at this
        cases hh : plookup y.addr (disconnect st sid reply).1.peers <;> simp_all
      · intro y hy hyc hyp q hq1 hq2
        obtain ⟨y0, h0, e1, e2, e3, _, e5⟩ := mem_closeVanished _ _ y hy
        have h0' := List.mem_filter.mp h0
        have hne : y.sid ≠ s.sid := by
          rw [← e1, hsid]; simpa using h0'.2
        have hyp0 : y.addr ∉ σ.poison := fun h => hyp ((hσ1p _).mpr (Or.inr h))
        obtain ⟨t, ht, ht1, ht2, ht3⟩ := hi.core.slotLive q.ctx y.role y.sid hq2
        have htaddr : t.addr = y.addr := hi.core.owner t ht _ (plookup_mem _ _ _ hq1) ht2
        have hnot : ¬ (q.ctx = s.ctx ∧ y.role = s.role) := by
          rintro ⟨hcx, hrl⟩
          have := hc.uniq t ht s hs (by rw [ht2, hcx]) (by rw [ht3, hrl]) (by rw [ht1]; exact hne)
            (by rw [htaddr]; exact hyp0) y0 h0'.1 (Or.inl (by rw [e1, ht1]))
          rw [(e5 hyc).1] at this; cases this
        rcases dS q.ctx y.role y.sid hq2 hnot with hkeep | ⟨p, hp1, hp2, hp3, hp4, hp5⟩
        · exact hkeep
        · exfalso
          have hqm := plookup_mem _ _ _ hq1
          have hpm := plookup_mem _ _ _ hp1
          have heq := hi.core.ctxInj _ hqm _ hpm hp3
          have hsctx : s.ctx = p.ctx := hi.core.staticCtx s hs _ hpm rfl hp2
          have hrl : y.role ≠ s.role := fun e => hnot ⟨by rw [hp3, hsctx], e⟩
          have hg : ((st.ctx s.ctx).set s.role none).get y.role = some y.sid := by
            rw [get_set]; simp only [hrl, if_false]; rw [hsctx, ← hp3]; exact hq2
          cases hr : y.role with
          | active => rw [hr] at hg; simp only [Ctx.get] at hg; rw [hp4] at hg; cases hg
          | passive => rw [hr] at hg; simp only [Ctx.get] at hg; rw [hp5] at hg; cases hg
      · intro a ha; exact (hσ1p a).mpr (Or.inr ha)
      · -- a close reason waiting: the checker knows the connection as closing
        intro t ht hd y hy hys
        rw [dL] at ht
        have ht' := (List.mem_filter.mp ht).1
        obtain ⟨y0, h0, e1, _, _, _, e5⟩ := mem_closeVanished _ _ y hy
        cases hcl : y.closing with
        | true => rfl
        | false =>
          have := hc.doomed t ht' hd y0 (List.mem_filter.mp h0).1 (by rw [e1]; exact hys)
          rw [(e5 hcl).1] at this; cases this
      · -- before the first tear-down nothing vanishes under a live connection
        intro hadm
        subst hadm
        obtain ⟨q1, q2, q3⟩ := hc.quiet rfl
        have hrows : ∀ y ∈ σ.live.filter (fun y => y.sid != sid), (Spec.rowOf (snapshot (disconnect st sid reply).1) y.addr).isSome = true := by
          intro y hy
          have hy' := List.mem_filter.mp hy
          have := quiet_rows gl groups st σ sid reply s hc hi h2 y hy'.1 (by rw [hsid]; simpa using hy'.2)
          rw [rowOf_snapshot _ hk']
          cases hh : plookup y.addr (disconnect st sid reply).1.peers <;> simp_all
        have hgone : gone = [] := by
          apply List.eq_nil_iff_forall_not_mem.mpr
          intro a ha
          obtain ⟨y, hy, _, _, _, h4⟩ := (mem_vanished _ _ _ a).mp ha
          have := hrows y hy
          cases hh : Spec.rowOf (snapshot (disconnect st sid reply).1) y.addr <;> simp_all
        have hσ1 : σ1 = σ := by
          show (if gone.isEmpty then σ else σ.recordHit k Spec.hitVanished gone) = σ
          rw [hgone]; rfl
        refine ⟨?_, by show σ1.hit = none; rw [hσ1]; exact q2, by show σ1.poison = []; rw [hσ1]; exact q3⟩
        intro y hy
        obtain ⟨y0, h0, _, _, _, _, _⟩ := mem_closeVanished _ _ y hy
        simp only [Spec.closeVanished, List.mem_map] at hy
        obtain ⟨z, hz, rfl⟩ := hy
        have hr := hrows z hz
        have : (Spec.rowOf (snapshot (disconnect st sid reply).1) z.addr).isNone = false := by
          cases hh : Spec.rowOf (snapshot (disconnect st sid reply).1) z.addr <;> simp_all
        simp only [this, Bool.false_eq_true, if_false]
        exact q1 z (List.mem_filter.mp hz).1
      · exact hσ1hit

/-! ### administrative operations -/

theorem plookup_pset (a : Ip) (p' : Peer) : ∀ (l : List (Ip × Peer)), a ∈ l.map (·.1) → plookup a (pset a p' l) = some p'
  | [], h => by simp at h
  | (k, v) :: t, h => by
    simp only [pset]
    by_cases hk : k = a
    · simp [hk, plookup]
    · simp only [hk, if_false, plookup]
      simp only [List.map_cons, List.mem_cons] at h
      rcases h with h | h
      · exact absurd h.symm hk
      · exact plookup_pset a p' t h

theorem plookup_perase (a : Ip) (l : List (Ip × Peer)) : plookup a (perase a l) = none := by
  rw [plookup_none]
  intro h
  obtain ⟨e, he, hk⟩ := List.mem_map.mp h
  exact ((mem_perase a e l).mp he).2 hk

theorem mem_closeAll (l : List Spec.LiveS) (a : Ip) (y : Spec.LiveS) (hy : y ∈ Spec.closeAll l a) :
    ∃ y0 ∈ l, y0.sid = y.sid ∧ y0.addr = y.addr ∧ y0.role = y.role ∧
      (y.closing = false → y0.closing = false ∧ y.addr ≠ a) := by
  simp only [Spec.closeAll, List.mem_map] at hy
  obtain ⟨y0, h0, rfl⟩ := hy
  refine ⟨y0, h0, ?_⟩
  by_cases ha : y0.addr = a
  · rw [if_pos ha]; exact ⟨rfl, rfl, rfl, fun h => by cases h⟩
  · rw [if_neg ha]; exact ⟨rfl, rfl, rfl, fun h => ⟨h, ha⟩⟩

/-- generic coupling after an administrative operation -/
theorem coupled_api (gl : GlobalCfg) (groups : List Group) (adm adm' : Bool) (st st' : St) (σ : Spec.S) (L : List Spec.LiveS)
    (hc : Coupled gl groups adm st σ) (hk : (st.peers.map (·.1)).Nodup) (hk' : (st'.peers.map (·.1)).Nodup)
    (hglob : st'.asn = st.asn ∧ st'.rid = st.rid ∧ st'.confed = st.confed ∧ st'.groups = st.groups)
    (hn : st'.nextSid = st.nextSid)
    (hscore : st'.live.map score = st.live.map score) (hcore : st'.live.map core = st.live.map core)
    (hpeers : ∀ e ∈ st'.peers, ∃ e0 ∈ st.peers, e0.1 = e.1 ∧ e0.2.ctx = e.2.ctx ∧ e0.2.cfg = e.2.cfg)
    (hL1 : L.map lcore = σ.live.map lcore)
    (hL2 : ∀ y ∈ L, ∃ y0 ∈ σ.live, y0.sid = y.sid ∧ y0.addr = y.addr ∧ y0.role = y.role ∧ (y.closing = false → y0.closing = false))
    (hctx : ∀ y ∈ L, y.closing = false → ∀ q, plookup y.addr st.peers = some q → st'.ctx q.ctx = st.ctx q.ctx)
    (hdoom : ∀ s ∈ st'.live, s.doom.isSome = true → ∀ y ∈ L, y.sid = s.sid → y.closing = true)
    (hquiet : adm' = false → (∀ y ∈ L, y.closing = false ∧ (plookup y.addr st'.peers).isSome = true) ∧ σ.hit = none ∧ σ.poison = []) :
    Coupled gl groups adm' st'
      { σ with rows := snapshot st', live := Spec.closeVanished (snapshot st') L
               known := σ.known.filter fun kn => (Spec.rowOf (snapshot st') kn.addr).isSome } := by
  refine coupled_shrink gl groups adm adm' st st' σ _ hc hk hk' hglob ?_ ?_ hn ?_ hpeers ?_ ?_ ?_ ?_ ?_ ?_ ?_ ?_ hc.hitOk
  · rfl
  · rfl
  · rw [closeVanished_lcore, hL1, hc.live, hscore]
  · rfl
  · intro s hs; exact live_of_map hcore s hs
  · intro y hy
    obtain ⟨y1, h1, e1, e2, e3, _, e5⟩ := mem_closeVanished _ _ y hy
    obtain ⟨y0, h0, f1, f2, f3, f4⟩ := hL2 y1 h1
    exact ⟨y0, h0, by rw [f1, e1], by rw [f2, e2], by rw [f3, e3], fun h => f4 (e5 h).1⟩
  · intro y hy hyc _
    obtain ⟨y1, h1, e1, e2, e3, _, e5⟩ := mem_closeVanished _ _ y hy
    have := (e5 hyc).2
    rw [rowOf_snapshot _ hk'] at this
    cases hh : plookup y.addr st'.peers <;> simp_all
  · intro y hy hyc _ q hq1 hq2
    obtain ⟨y1, h1, e1, e2, e3, _, e5⟩ := mem_closeVanished _ _ y hy
    have := hctx y1 h1 (e5 hyc).1 q (by rw [e2]; exact hq1)
    rw [this]; exact hq2
  · intro x hx; exact hx
  · intro t ht hd y hy hys
    obtain ⟨y1, h1, e1, _, _, _, e5⟩ := mem_closeVanished _ _ y hy
    cases hcl : y.closing with
    | true => rfl
    | false =>
      have := hdoom t ht hd y1 h1 (by rw [e1]; exact hys)
      rw [(e5 hcl).1] at this; cases this
  · intro ha
    obtain ⟨q1, q2, q3⟩ := hquiet ha
    refine ⟨?_, q2, q3⟩
    intro y hy
    simp only [Spec.closeVanished, List.mem_map] at hy
    obtain ⟨z, hz, rfl⟩ := hy
    have hr : (Spec.rowOf (snapshot st') z.addr).isNone = false := by
      rw [rowOf_snapshot _ hk']
      have := (q1 z hz).2
      cases hh : plookup z.addr st'.peers <;> simp_all
    simp only [hr, Bool.false_eq_true, if_false]
    exact (q1 z hz).1

theorem forceDown_score (st : St) (c : Nat) (d : Doom) : (forceDown st c d).live.map score = st.live.map score := by
  simp only [forceDown]
  rw [doomSess_map score (fun _ _ => rfl), doomSess_map score (fun _ _ => rfl)]

/-- who gets a close reason from `doomSess` -/
theorem mem_doomSess (l : List Sess) (i : Option Nat) (d : Doom) (s' : Sess) (hs : s' ∈ doomSess l i d) :
    ∃ s0 ∈ l, s0.sid = s'.sid ∧ (s'.doom.isSome = true → (s0.doom.isSome = true ∨ i = some s0.sid)) := by
  cases i with
  | none => exact ⟨s', hs, rfl, fun h => Or.inl h⟩
  | some j =>
    simp only [doomSess, List.mem_map] at hs
    obtain ⟨s0, h0, rfl⟩ := hs
    by_cases hj : s0.sid = j
    · rw [if_pos hj]; exact ⟨s0, h0, rfl, fun _ => Or.inr (by rw [hj])⟩
    · rw [if_neg hj]; exact ⟨s0, h0, rfl, fun h => Or.inl h⟩

theorem forceDown_doom (st : St) (c : Nat) (d : Doom) (s' : Sess) (hs : s' ∈ (forceDown st c d).live)
    (hd : s'.doom.isSome = true) :
    ∃ s0 ∈ st.live, s0.sid = s'.sid ∧ (s0.doom.isSome = true ∨ (st.ctx c).slotA = some s0.sid ∨ (st.ctx c).slotP = some s0.sid) := by
  simp only [forceDown] at hs
  obtain ⟨s1, h1, e1, f1⟩ := mem_doomSess _ _ _ s' hs
  obtain ⟨s0, h0, e0, f0⟩ := mem_doomSess _ _ _ s1 h1
  refine ⟨s0, h0, by rw [e0, e1], ?_⟩
  rcases f1 hd with h | h
  · rcases f0 h with h' | h'
    · exact Or.inl h'
    · exact Or.inr (Or.inl h')
  · right; right; rw [h, e0]

/-- the model's administrative step -/
def apiF (kind : Spec.Api) (a : Ip) (st : St) (p : Peer) : St :=
  match kind with
  | .enable => if p.adminDown then { st with peers := pset a { p with adminDown := false } st.peers } else st
  | .disable =>
      if !p.adminDown then forceDown { st with peers := pset a { p with adminDown := true } st.peers } p.ctx .admin else st
  | .shutdown => forceDown st p.ctx .admin
  | .reset => forceDown st p.ctx .deconf
  | .delete => forceDown { st with peers := perase a st.peers } p.ctx .deconf

def apiOpOf : Spec.Api → Ip → Op
  | .enable, a => .enable a
  | .disable, a => .disable a
  | .shutdown, a => .shutdown a
  | .reset, a => .reset a
  | .delete, a => .delete a

theorem step_api (st : St) (kind : Spec.Api) (a : Ip) :
    step st (apiOpOf kind a) = .ok ((apiOp st a (apiF kind a)).1, (apiOp st a (apiF kind a)).2, false) := by
  cases kind <;> rfl

def admKind (kind : Spec.Api) : Bool := decide (kind ≠ .enable)

/-- facts about the state after an administrative operation on an existing neighbour -/
structure ApiFacts (st st' : St) (a : Ip) (p : Peer) (forced : Bool) : Prop where
  glob : st'.asn = st.asn ∧ st'.rid = st.rid ∧ st'.confed = st.confed ∧ st'.groups = st.groups
  next : st'.nextSid = st.nextSid
  score : st'.live.map score = st.live.map score
  core : st'.live.map core = st.live.map core
  peers : ∀ e ∈ st'.peers, ∃ e0 ∈ st.peers, e0.1 = e.1 ∧ e0.2.ctx = e.2.ctx ∧ e0.2.cfg = e.2.cfg
  ctx : ∀ j, (forced = false ∨ j ≠ p.ctx) → st'.ctx j = st.ctx j
  doom : ∀ s' ∈ st'.live, s'.doom.isSome = true →
    ∃ s0 ∈ st.live, s0.sid = s'.sid ∧ (s0.doom.isSome = true ∨ (forced = true ∧ s0.addr = a))
  keep : forced = false → ∀ e ∈ st.peers, ∃ e' ∈ st'.peers, e'.1 = e.1

theorem facts_forceDown (st st0 : St) (a : Ip) (p : Peer) (d : Doom) (hi : InvCore st) (hm : (a, p) ∈ st.peers)
    (h1 : st0.asn = st.asn ∧ st0.rid = st.rid ∧ st0.confed = st.confed ∧ st0.groups = st.groups)
    (h2 : st0.nextSid = st.nextSid) (h3 : st0.live = st.live) (h4 : st0.ctxs = st.ctxs)
    (h5 : ∀ e ∈ st0.peers, ∃ e0 ∈ st.peers, e0.1 = e.1 ∧ e0.2.ctx = e.2.ctx ∧ e0.2.cfg = e.2.cfg) :
    ApiFacts st (forceDown st0 p.ctx d) a p true := by
  obtain ⟨f1, _, f3, f4, f5, f6, f7, f8, _⟩ := forceDown_fields st0 p.ctx d
  have hctx0 : ∀ j, st0.ctx j = st.ctx j := fun j => by simp only [St.ctx, h4]
  refine ⟨⟨by rw [f5]; exact h1.1, by rw [f6]; exact h1.2.1, by rw [f7]; exact h1.2.2.1, by rw [f4]; exact h1.2.2.2⟩,
    by rw [f3]; exact h2, by rw [forceDown_score, h3], by rw [f8, h3], by rw [f1]; exact h5, ?_, ?_, fun h => by cases h⟩
  · intro j hj
    rcases hj with hj | hj
    · cases hj
    · rw [ctx_forceDown]; simp only [hj, if_false]; exact hctx0 j
  · intro s' hs' hd
    obtain ⟨s0, h0, e0, hor⟩ := forceDown_doom st0 p.ctx d s' hs' hd
    rw [h3] at h0
    refine ⟨s0, h0, e0, ?_⟩
    rcases hor with h | h | h
    · exact Or.inl h
    · right
      rw [hctx0] at h
      obtain ⟨t, ht, ht1, ht2, _⟩ := hi.slotLive p.ctx .active s0.sid h
      have : t = s0 := eq_of_sid hi.sids ht h0 ht1
      rw [this] at ht2
      exact ⟨rfl, hi.owner s0 h0 (a, p) hm ht2⟩
    · right
      rw [hctx0] at h
      obtain ⟨t, ht, ht1, ht2, _⟩ := hi.slotLive p.ctx .passive s0.sid h
      have : t = s0 := eq_of_sid hi.sids ht h0 ht1
      rw [this] at ht2
      exact ⟨rfl, hi.owner s0 h0 (a, p) hm ht2⟩

theorem adminState_ok (kind : Spec.Api) (st st' : St) (a : Ip) (p : Peer)
    (hdel : kind = .delete → plookup a st'.peers = none)
    (hen : kind = .enable → (plookup a st'.peers).map (·.adminDown) = some false)
    (hdis : kind = .disable → (plookup a st'.peers).map (·.adminDown) = some true)
    (hoth : (kind = .shutdown ∨ kind = .reset) → (plookup a st'.peers).map (·.adminDown) = some p.adminDown) :
    Spec.adminStateOk kind (some (snapRow st (a, p))) ((plookup a st'.peers).map (fun q => snapRow st' (a, q))) = true := by
  cases kind with
  | enable =>
    have := hen rfl
    cases hq : plookup a st'.peers <;> simp_all [Spec.adminStateOk, Spec.imp, snapRow]
  | disable =>
    have := hdis rfl
    cases hq : plookup a st'.peers <;> simp_all [Spec.adminStateOk, Spec.imp, snapRow]
  | delete => simp only [Spec.adminStateOk]; rw [hdel rfl]; rfl
  | shutdown =>
    have := hoth (Or.inl rfl)
    cases hq : plookup a st'.peers <;> simp_all [Spec.adminStateOk, snapRow]
  | reset =>
    have := hoth (Or.inr rfl)
    cases hq : plookup a st'.peers <;> simp_all [Spec.adminStateOk, snapRow]

theorem sim_api_some (gl : GlobalCfg) (groups : List Group) (adm : Bool) (st st' : St) (σ : Spec.S) (kind : Spec.Api) (a : Ip) (k : Nat)
    (hc : Coupled gl groups adm st σ) (hi : Inv st) (hi' : Inv st') (p : Peer) (hl : plookup a st.peers = some p)
    (forced : Bool) (hf : ApiFacts st st' a p forced)
    (hforced : Spec.tearsDown kind (some (snapRow st (a, p))) = forced)
    (hdel : kind = .delete → plookup a st'.peers = none)
    (hen : kind = .enable → (plookup a st'.peers).map (·.adminDown) = some false)
    (hdis : kind = .disable → (plookup a st'.peers).map (·.adminDown) = some true)
    (hoth : (kind = .shutdown ∨ kind = .reset) → (plookup a st'.peers).map (·.adminDown) = some p.adminDown) :
    ∃ σ', Spec.checkApi k σ kind a { res := .api true, snap := snapshot st' } = (.ok, σ') ∧
      Coupled gl groups (adm || admKind kind) st' σ' := by
  have hm := plookup_mem a p st.peers hl
  have hrow : Spec.rowOf σ.rows a = some (snapRow st (a, p)) := by rw [rowOf_coupled hc hi a, hl]; rfl
  have hrow' : Spec.rowOf (snapshot st') a = (plookup a st'.peers).map (fun q => snapRow st' (a, q)) :=
    rowOf_snapshot st' hi'.core.keys a
  have hkindf : forced = true → kind ≠ .enable := by
    intro h e; rw [e] at hforced; simp only [Spec.tearsDown] at hforced; rw [h] at hforced; cases hforced
  -- which sessions the checker marks as closing
  let L := if forced then Spec.closeAll σ.live a else σ.live
  have hL1 : L.map lcore = σ.live.map lcore := by
    show (if forced then Spec.closeAll σ.live a else σ.live).map lcore = _
    split
    · exact closeAll_lcore _ _
    · rfl
  have hL2 : ∀ y ∈ L, ∃ y0 ∈ σ.live, y0.sid = y.sid ∧ y0.addr = y.addr ∧ y0.role = y.role ∧
      (y.closing = false → y0.closing = false ∧ (forced = true → y.addr ≠ a)) := by
    intro y hy
    have hy' : y ∈ (if forced then Spec.closeAll σ.live a else σ.live) := hy
    by_cases hk : forced = true
    · rw [if_pos hk] at hy'
      obtain ⟨y0, h0, e1, e2, e3, e4⟩ := mem_closeAll _ _ y hy'
      exact ⟨y0, h0, e1, e2, e3, fun h => ⟨(e4 h).1, fun _ => (e4 h).2⟩⟩
    · rw [if_neg hk] at hy'; exact ⟨y, hy', rfl, rfl, rfl, fun h => ⟨h, fun h' => absurd h' hk⟩⟩
  have hLlive : L.map lcore = st'.live.map score := by rw [hL1, hc.live, hf.score]
  have hcoup := coupled_api gl groups adm (adm || admKind kind) st st' σ L hc hi.core.keys hi'.core.keys hf.glob hf.next hf.score hf.core hf.peers hL1
    (fun y hy => by obtain ⟨y0, h0, e1, e2, e3, e4⟩ := hL2 y hy; exact ⟨y0, h0, e1, e2, e3, fun h => (e4 h).1⟩)
    (by
      intro y hy hyc q hq
      obtain ⟨y0, h0, e1, e2, e3, e4⟩ := hL2 y hy
      apply hf.ctx
      cases hfc : forced with
      | false => exact Or.inl rfl
      | true =>
        right
        intro hqc
        have hne := (e4 hyc).2 hfc
        have := hi.core.ctxInj _ (plookup_mem _ _ _ hq) _ hm hqc
        injection this with h1 _
        exact hne h1)
    (by
      -- a close reason waiting ⇒ known as closing
      intro s' hs' hd y hy hys
      obtain ⟨s0, h0, e0, hor⟩ := hf.doom s' hs' hd
      obtain ⟨y0, hy0, e1, e2, _, e4⟩ := hL2 y hy
      cases hcl : y.closing with
      | true => rfl
      | false =>
        exfalso
        rcases hor with h | ⟨hfc, haddr⟩
        · have := hc.doomed s0 h0 h y0 hy0 (by rw [e1, hys, e0])
          rw [(e4 hcl).1] at this; cases this
        · -- torn down just now: its address is `a`, so it was marked
          obtain ⟨s1, hs1, hcs⟩ := live_mem_of_spec hc.live y0 hy0
          simp only [lcore, score, Prod.mk.injEq] at hcs
          have : s1 = s0 := eq_of_sid hi.core.sids hs1 h0 (by rw [← hcs.1, e1, hys, e0])
          have hya : y.addr = a := by rw [← e2, hcs.2.1, this, haddr]
          exact (e4 hcl).2 hfc hya)
    (by
      intro hadm
      have ha : adm = false := by cases h : adm <;> simp_all
      have hke : kind = .enable := by
        cases kind <;> simp_all [admKind]
      have hnf : forced = false := by
        rw [← hforced, hke]; rfl
      obtain ⟨q1, q2, q3⟩ := hc.quiet ha
      refine ⟨?_, q2, q3⟩
      intro y hy
      have hy' : y ∈ (if forced then Spec.closeAll σ.live a else σ.live) := hy
      rw [hnf] at hy'
      simp only [Bool.false_eq_true, if_false] at hy'
      refine ⟨q1 y hy', ?_⟩
      obtain ⟨q, hq1, _⟩ := hc.healthy y hy' (q1 y hy') (by rw [q3]; simp)
      obtain ⟨e', he', hk'⟩ := hf.keep hnf _ (plookup_mem _ _ _ hq1)
      have : e'.1 = y.addr := hk'
      rw [← this, plookup_of_mem e'.1 e'.2 st'.peers hi'.core.keys (by cases e'; exact he')]; rfl)
  refine ⟨_, ?_, hcoup⟩
  unfold Spec.checkApi
  have c3 : Spec.dynRowsHaveConn (snapshot st') L = true := dynRows_ok _ _ hi' hLlive
  have hLeq : (if Spec.tearsDown kind (some (snapRow st (a, p))) = true then Spec.closeAll σ.live a else σ.live) = L := by
    rw [hforced]
  simp only [hrow, Option.isSome_some]
  rw [hLeq]
  simp only [c3]
  have c2 : Spec.adminStateOk kind (some (snapRow st (a, p))) (Spec.rowOf (snapshot st') a) = true := by
    rw [hrow']
    exact adminState_ok kind st st' a p hdel hen hdis hoth
  simp only [c2, Spec.firstFail, decide_true]

theorem sim_api_none (gl : GlobalCfg) (groups : List Group) (adm : Bool) (st : St) (σ : Spec.S) (kind : Spec.Api) (a : Ip) (k : Nat)
    (hc : Coupled gl groups adm st σ) (hi : Inv st) (hl : plookup a st.peers = none) :
    ∃ σ', Spec.checkApi k σ kind a { res := .api false, snap := snapshot st } = (.ok, σ') ∧
      Coupled gl groups (adm || admKind kind) st σ' := by
  have hrow : Spec.rowOf σ.rows a = none := by rw [rowOf_coupled hc hi a, hl]; rfl
  have hrow' : Spec.rowOf (snapshot st) a = none := by rw [rowOf_snapshot st hi.core.keys, hl]; rfl
  have hcoup := coupled_api gl groups adm (adm || admKind kind) st st σ σ.live hc hi.core.keys hi.core.keys ⟨rfl, rfl, rfl, rfl⟩ rfl rfl rfl
    (fun e he => ⟨e, he, rfl, rfl, rfl⟩) rfl (fun y hy => ⟨y, hy, rfl, rfl, rfl, fun h => h⟩) (fun _ _ _ _ _ => rfl)
    (fun s hs hd y hy hys => hc.doomed s hs hd y hy hys)
    (by
      intro hadm
      have ha : adm = false := by cases h : adm <;> simp_all
      obtain ⟨q1, q2, q3⟩ := hc.quiet ha
      refine ⟨?_, q2, q3⟩
      intro y hy
      refine ⟨q1 y hy, ?_⟩
      obtain ⟨q, hq1, _⟩ := hc.healthy y hy (q1 y hy) (by rw [q3]; simp)
      rw [hq1]; rfl)
  refine ⟨_, ?_, hcoup⟩
  unfold Spec.checkApi
  have c3 : Spec.dynRowsHaveConn (snapshot st) σ.live = true := dynRows_ok _ _ hi hc.live
  have c2 : Spec.adminStateOk kind none none = true := by cases kind <;> simp [Spec.adminStateOk, Spec.imp]
  have ht : Spec.tearsDown kind none = false := by cases kind <;> simp [Spec.tearsDown]
  simp only [hrow, hrow', ht, Option.isSome_none, Bool.false_eq_true, if_false, c2, c3, Spec.firstFail, decide_true]

theorem sim_api (gl : GlobalCfg) (groups : List Group) (adm : Bool) (st : St) (σ : Spec.S) (kind : Spec.Api) (a : Ip) (k : Nat)
    (hc : Coupled gl groups adm st σ) (hi : Inv st) :
    ∃ σ', Spec.checkApi k σ kind a { res := (apiOp st a (apiF kind a)).2, snap := snapshot (apiOp st a (apiF kind a)).1 } = (.ok, σ') ∧
      Coupled gl groups (adm || admKind kind) (apiOp st a (apiF kind a)).1 σ' := by
  have hi' : Inv (apiOp st a (apiF kind a)).1 :=
    inv_step st (apiOpOf kind a) hi _ _ _ (step_api st kind a)
  cases hl : plookup a st.peers with
  | none =>
    simp only [apiOp, hl]
    exact sim_api_none gl groups adm st σ kind a k hc hi hl
  | some p =>
    simp only [apiOp, hl] at hi' ⊢
    have hm := plookup_mem a p st.peers hl
    have hkey : a ∈ st.peers.map (·.1) := List.mem_map.mpr ⟨(a, p), hm, rfl⟩
    have hpsetP : ∀ b, ∀ e ∈ pset a { p with adminDown := b } st.peers,
        ∃ e0 ∈ st.peers, e0.1 = e.1 ∧ e0.2.ctx = e.2.ctx ∧ e0.2.cfg = e.2.cfg := by
      intro b e he
      rcases (mem_pset a _ e st.peers hi.core.keys).mp he with ⟨h1, _⟩ | ⟨h1, _⟩
      · exact ⟨e, h1, rfl, rfl, rfl⟩
      · exact ⟨(a, p), hm, by rw [h1], by rw [h1], by rw [h1]⟩
    have hkeepP : ∀ b, false = false → ∀ e ∈ st.peers, ∃ e' ∈ pset a { p with adminDown := b } st.peers, e'.1 = e.1 := by
      intro b _ e he
      have : e.1 ∈ (pset a { p with adminDown := b } st.peers).map (·.1) := by
        rw [keys_pset]; exact List.mem_map.mpr ⟨e, he, rfl⟩
      obtain ⟨e', he', hk⟩ := List.mem_map.mp this
      exact ⟨e', he', hk⟩
    cases kind with
    | enable =>
      simp only [apiF] at hi' ⊢
      by_cases had : p.adminDown = true
      · simp only [had, if_true] at hi' ⊢
        apply sim_api_some gl groups adm st _ σ .enable a k hc hi hi' p hl false
          ⟨⟨rfl, rfl, rfl, rfl⟩, rfl, rfl, rfl, hpsetP false, fun _ _ => rfl, fun s' hs' hd => ⟨s', hs', rfl, Or.inl hd⟩, hkeepP false⟩ (by simp [Spec.tearsDown])
        · intro h; cases h
        · intro _; show (plookup a (pset a _ st.peers)).map (·.adminDown) = some false
          rw [plookup_pset a _ st.peers hkey]; rfl
        · intro h; cases h
        · intro h; rcases h with h | h <;> cases h
      · have had' : p.adminDown = false := by cases h : p.adminDown <;> simp_all
        simp only [had', Bool.false_eq_true, if_false] at hi' ⊢
        apply sim_api_some gl groups adm st _ σ .enable a k hc hi hi' p hl false
          ⟨⟨rfl, rfl, rfl, rfl⟩, rfl, rfl, rfl, fun e he => ⟨e, he, rfl, rfl, rfl⟩, fun _ _ => rfl, fun s' hs' hd => ⟨s', hs', rfl, Or.inl hd⟩, fun _ e he => ⟨e, he, rfl⟩⟩ (by simp [Spec.tearsDown, snapRow, *])
        · intro h; cases h
        · intro _; rw [hl]; simp [had']
        · intro h; cases h
        · intro h; rcases h with h | h <;> cases h
    | disable =>
      simp only [apiF] at hi' ⊢
      by_cases had : p.adminDown = true
      · simp only [had, Bool.not_true, Bool.false_eq_true, if_false] at hi' ⊢
        apply sim_api_some gl groups adm st _ σ .disable a k hc hi hi' p hl false
          ⟨⟨rfl, rfl, rfl, rfl⟩, rfl, rfl, rfl, fun e he => ⟨e, he, rfl, rfl, rfl⟩, fun _ _ => rfl, fun s' hs' hd => ⟨s', hs', rfl, Or.inl hd⟩, fun _ e he => ⟨e, he, rfl⟩⟩ (by simp [Spec.tearsDown, snapRow, *])
        · intro h; cases h
        · intro h; cases h
        · intro _; rw [hl]; simp [had]
        · intro h; rcases h with h | h <;> cases h
      · have had' : p.adminDown = false := by cases h : p.adminDown <;> simp_all
        simp only [had', Bool.not_false, if_true] at hi' ⊢
        apply sim_api_some gl groups adm st _ σ .disable a k hc hi hi' p hl true
          (facts_forceDown st _ a p .admin hi.core hm ⟨rfl, rfl, rfl, rfl⟩ rfl rfl rfl (hpsetP true)) (by simp [Spec.tearsDown, snapRow, had'])
        · intro h; cases h
        · intro h; cases h
        · intro _
          have : (forceDown { st with peers := pset a { p with adminDown := true } st.peers } p.ctx .admin).peers =
              pset a { p with adminDown := true } st.peers := rfl
          rw [this, plookup_pset a _ st.peers hkey]; rfl
        · intro h; rcases h with h | h <;> cases h
    | shutdown =>
      simp only [apiF] at hi' ⊢
      apply sim_api_some gl groups adm st _ σ .shutdown a k hc hi hi' p hl true
        (facts_forceDown st st a p .admin hi.core hm ⟨rfl, rfl, rfl, rfl⟩ rfl rfl rfl (fun e he => ⟨e, he, rfl, rfl, rfl⟩)) (by simp [Spec.tearsDown])
      · intro h; cases h
      · intro h; cases h
      · intro h; cases h
      · intro _
        have : (forceDown st p.ctx .admin).peers = st.peers := rfl
        rw [this, hl]; rfl
    | reset =>
      simp only [apiF] at hi' ⊢
      apply sim_api_some gl groups adm st _ σ .reset a k hc hi hi' p hl true
        (facts_forceDown st st a p .deconf hi.core hm ⟨rfl, rfl, rfl, rfl⟩ rfl rfl rfl (fun e he => ⟨e, he, rfl, rfl, rfl⟩)) (by simp [Spec.tearsDown])
      · intro h; cases h
      · intro h; cases h
      · intro h; cases h
      · intro _
        have : (forceDown st p.ctx .deconf).peers = st.peers := rfl
        rw [this, hl]; rfl
    | delete =>
      simp only [apiF] at hi' ⊢
      apply sim_api_some gl groups adm st _ σ .delete a k hc hi hi' p hl true
        (facts_forceDown st _ a p .deconf hi.core hm ⟨rfl, rfl, rfl, rfl⟩ rfl rfl rfl
          (fun e he => ⟨e, ((mem_perase _ _ _).mp he).1, rfl, rfl, rfl⟩)) (by simp [Spec.tearsDown])
      · intro _
        have : (forceDown { st with peers := perase a st.peers } p.ctx .deconf).peers = perase a st.peers := rfl
        rw [this]; exact plookup_perase a st.peers
      · intro h; cases h
      · intro h; cases h
      · intro h; rcases h with h | h <;> cases h


/-! ### whole histories -/

def OpsOk (ops : List Op) : Prop := ∀ op ∈ ops, ∀ a r, op = .connect a r → bytesOk a.bytes

/-- operations that can tear a connection down -/
def admOp : Op → Bool
  | .disable _ | .delete _ | .shutdown _ | .reset _ => true
  | _ => false

def HitOr (adm : Bool) (v : Spec.Verdict) : Prop :=
  v = .ok ∨ ∃ kk c, v = .fail kk c ∧ c ∈ hitClauses ∧ adm = true

theorem finish_ok {gl groups adm st σ} (hc : Coupled gl groups adm st σ) : HitOr adm (Spec.finish σ) := by
  unfold Spec.finish
  cases hh : σ.hit with
  | none => exact Or.inl rfl
  | some x =>
    obtain ⟨kk, c⟩ := x
    right
    refine ⟨kk, c, rfl, hc.hitOk kk c hh, ?_⟩
    cases ha : adm with
    | true => rfl
    | false => have := (hc.quiet ha).2.1; rw [hh] at this; cases this

theorem hitOr_mono {a b : Bool} {v : Spec.Verdict} (h : HitOr a v) (hab : a = true → b = true) : HitOr b v := by
  rcases h with h | ⟨kk, c, h1, h2, h3⟩
  · exact Or.inl h
  · exact Or.inr ⟨kk, c, h1, h2, hab h3⟩

theorem sim_steps (gl : GlobalCfg) (groups : List Group) (hwf : WFGroups groups) (hcid : confedIdOk gl.confed) :
    ∀ (ops : List Op) (adm : Bool) (st : St) (σ : Spec.S) (k : Nat) (obs : List StepObs),
      Coupled gl groups adm st σ → Inv st → OpsOk ops → runOps st ops = .ok obs →
      HitOr (adm || ops.any admOp) (Spec.checkSteps gl groups k σ ops obs)
  | [], adm, st, σ, k, obs, hc, _, _, h => by
    simp only [runOps, Out.ok.injEq] at h
    subst h
    simp only [Spec.checkSteps, List.any_nil, Bool.or_false]
    exact finish_ok hc
  | op :: rest, adm, st, σ, k, obs, hc, hi, hok, h => by
    have hok' : OpsOk rest := fun o ho => hok o (List.mem_cons_of_mem _ ho)
    simp only [runOps, bind, Bind.bind] at h
    cases hs : step st op with
    | panic => simp [hs] at h
    | ok t =>
      obtain ⟨st', r, abort⟩ := t
      simp only [hs] at h
      have hi' := inv_step st op hi st' r abort hs
      -- the tail of the observation
      have tail_ok : ∀ (adm' : Bool) (σ' : Spec.S), abort = false → Coupled gl groups adm' st' σ' →
          (adm' = true → (adm || admOp op) = true) →
          ∃ tl, obs = { res := r, snap := snapshot st' } :: tl ∧
            HitOr (adm || (op :: rest).any admOp) (Spec.checkSteps gl groups (k + 1) σ' rest tl) := by
        intro adm' σ' hab hc' hadm'
        subst hab
        simp only [Bool.false_eq_true, if_false] at h
        cases hr : runOps st' rest with
        | panic => simp [hr] at h
        | ok tl =>
          simp only [hr, pure, Out.ok.injEq] at h
          refine ⟨tl, h.symm, hitOr_mono (sim_steps gl groups hwf hcid rest adm' st' σ' (k + 1) tl hc' hi' hok' hr) ?_⟩
          intro hh
          simp only [List.any_cons, Bool.or_eq_true] at hh ⊢
          rcases hh with hh | hh
          · have := hadm' hh
            simp only [Bool.or_eq_true] at this
            rcases this with t | t
            · exact Or.inl t
            · exact Or.inr (Or.inl t)
          · exact Or.inr (Or.inr hh)
      cases op with
      | connect a role =>
        have ha := hok _ (by simp) a role rfl
        obtain ⟨σ', e1, e2, e3⟩ := sim_connect gl groups adm st σ a role k hc hi hwf ha hcid st' r abort hs
        cases hab : abort with
        | true =>
          subst hab
          simp only [if_true, pure, Out.ok.injEq] at h e1
          subst h
          have hσ := e3 rfl
          subst hσ
          simp only [Spec.checkSteps, e1, if_true]
          have : ((List.map (fun _ => ({ res := Res.aborted, snap := [] } : StepObs)) rest).all (fun x => decide (x.res = Res.aborted)) &&
              decide ((List.map (fun _ => ({ res := Res.aborted, snap := [] } : StepObs)) rest).length = rest.length)) = true := by
            simp [List.all_eq_true]
          simp only [this, if_true]
          exact hitOr_mono (finish_ok hc) (fun h => by simp [h])
        | false =>
          subst hab
          obtain ⟨tl, rfl, htl⟩ := tail_ok adm σ' rfl (e2 rfl) (fun h => by simp [h])
          simp only [Bool.false_eq_true, if_false] at e1
          simp only [Spec.checkSteps, e1, Bool.false_eq_true, if_false]
          exact htl
      | disc sid =>
        simp only [step, Out.ok.injEq, Prod.mk.injEq] at hs
        obtain ⟨rfl, rfl, rfl⟩ := hs
        obtain ⟨σ', e1, e2⟩ := sim_disc gl groups adm st σ sid k none hc hi
        obtain ⟨tl, rfl, htl⟩ := tail_ok adm σ' rfl e2 (fun h => by simp [h])
        simp only [Spec.checkSteps, e1, Spec.Verdict.andThen]
        exact htl
      | discx sid asn hold =>
        simp only [step, Out.ok.injEq, Prod.mk.injEq] at hs
        obtain ⟨rfl, rfl, rfl⟩ := hs
        obtain ⟨σ', e1, e2⟩ := sim_disc gl groups adm st σ sid k (some asn) hc hi
        obtain ⟨tl, rfl, htl⟩ := tail_ok adm σ' rfl e2 (fun h => by simp [h])
        simp only [Spec.checkSteps, e1, Spec.Verdict.andThen]
        exact htl
      | enable a =>
        have hs' := step_api st .enable a
        simp only [apiOpOf] at hs'
        rw [hs'] at hs
        simp only [Out.ok.injEq, Prod.mk.injEq] at hs
        obtain ⟨rfl, rfl, rfl⟩ := hs
        obtain ⟨σ', e1, e2⟩ := sim_api gl groups adm st σ .enable a k hc hi
        obtain ⟨tl, rfl, htl⟩ := tail_ok _ σ' rfl e2 (fun h => by simpa [admKind, admOp] using h)
        simp only [Spec.checkSteps, e1, Spec.Verdict.andThen]
        exact htl
      | disable a =>
        have hs' := step_api st .disable a
        simp only [apiOpOf] at hs'
        rw [hs'] at hs
        simp only [Out.ok.injEq, Prod.mk.injEq] at hs
        obtain ⟨rfl, rfl, rfl⟩ := hs
        obtain ⟨σ', e1, e2⟩ := sim_api gl groups adm st σ .disable a k hc hi
        obtain ⟨tl, rfl, htl⟩ := tail_ok _ σ' rfl e2 (fun _ => by simp [admOp])
        simp only [Spec.checkSteps, e1, Spec.Verdict.andThen]
        exact htl
      | delete a =>
        have hs' := step_api st .delete a
        simp only [apiOpOf] at hs'
        rw [hs'] at hs
        simp only [Out.ok.injEq, Prod.mk.injEq] at hs
        obtain ⟨rfl, rfl, rfl⟩ := hs
        obtain ⟨σ', e1, e2⟩ := sim_api gl groups adm st σ .delete a k hc hi
        obtain ⟨tl, rfl, htl⟩ := tail_ok _ σ' rfl e2 (fun _ => by simp [admOp])
        simp only [Spec.checkSteps, e1, Spec.Verdict.andThen]
        exact htl
      | shutdown a =>
        have hs' := step_api st .shutdown a
        simp only [apiOpOf] at hs'
        rw [hs'] at hs
        simp only [Out.ok.injEq, Prod.mk.injEq] at hs
        obtain ⟨rfl, rfl, rfl⟩ := hs
        obtain ⟨σ', e1, e2⟩ := sim_api gl groups adm st σ .shutdown a k hc hi
        obtain ⟨tl, rfl, htl⟩ := tail_ok _ σ' rfl e2 (fun _ => by simp [admOp])
        simp only [Spec.checkSteps, e1, Spec.Verdict.andThen]
        exact htl
      | reset a =>
        have hs' := step_api st .reset a
        simp only [apiOpOf] at hs'
        rw [hs'] at hs
        simp only [Out.ok.injEq, Prod.mk.injEq] at hs
        obtain ⟨rfl, rfl, rfl⟩ := hs
        obtain ⟨σ', e1, e2⟩ := sim_api gl groups adm st σ .reset a k hc hi
        obtain ⟨tl, rfl, htl⟩ := tail_ok _ σ' rfl e2 (fun _ => by simp [admOp])
        simp only [Spec.checkSteps, e1, Spec.Verdict.andThen]
        exact htl

/-! ### configuration loading -/

theorem setup_mono : ∀ (pcs : List PeerCase) (st : St), ∀ e ∈ st.peers, e ∈ (setupPeers st pcs).1.peers
  | [], _, e, he => he
  | pc :: rest, st, e, he => by
    simp only [setupPeers]
    cases ha : addPeer st (resolveParams st.groups pc) with
    | none => exact setup_mono rest st e he
    | some st' =>
      obtain ⟨_, heq⟩ := addPeer_eq st _ st' ha
      exact setup_mono rest st' e (by rw [heq]; exact List.mem_append_left _ he)

theorem setup_glob : ∀ (pcs : List PeerCase) (st : St),
    (setupPeers st pcs).1.asn = st.asn ∧ (setupPeers st pcs).1.rid = st.rid ∧ (setupPeers st pcs).1.confed = st.confed ∧
    (setupPeers st pcs).1.groups = st.groups ∧ (setupPeers st pcs).1.nextSid = st.nextSid ∧
    ((∀ c ∈ st.ctxs, c = {}) → ∀ c ∈ (setupPeers st pcs).1.ctxs, c = {})
  | [], _ => ⟨rfl, rfl, rfl, rfl, rfl, fun h => h⟩
  | pc :: rest, st => by
    simp only [setupPeers]
    cases ha : addPeer st (resolveParams st.groups pc) with
    | none => exact setup_glob rest st
    | some st' =>
      obtain ⟨_, heq⟩ := addPeer_eq st _ st' ha
      obtain ⟨h1, h2, h3, h4, h5, h6⟩ := setup_glob rest st'
      refine ⟨by rw [h1, heq], by rw [h2, heq], by rw [h3, heq], by rw [h4, heq], by rw [h5, heq], ?_⟩
      intro hc
      apply h6
      intro c hcm
      rw [heq] at hcm
      rcases List.mem_append.mp hcm with hcm | hcm
      · exact hc c hcm
      · simpa using hcm

theorem polOk_eq (pol : Option (Bool × List String)) : polOk pol = Spec.policiesExist pol := by
  cases pol with
  | none => rfl
  | some x =>
    obtain ⟨b, names⟩ := x
    simp only [polOk, Spec.policiesExist, knownPolicies]
    congr 1; funext n
    simp [List.contains_cons, Bool.or_comm]

theorem resolve_pol (groups : List Group) (pc : PeerCase) : (resolveParams groups pc).pol = pc.params.pol := by
  unfold resolveParams
  cases pc.group.bind (findGroup groups) <;> simp [applyPeerGroup]

theorem resolve_addr (groups : List Group) (pc : PeerCase) :
    (resolveParams groups pc).addr = pc.params.addr ∧ (resolveParams groups pc).adminDown = pc.params.adminDown := by
  unfold resolveParams
  cases pc.group.bind (findGroup groups) <;> simp [applyPeerGroup]

theorem want_resolve (groups : List Group) (pc : PeerCase) (hd : pc.params.dyn = false) :
    wantOfParams (resolveParams groups pc) = Spec.wantStatic pc.params (pc.group.bind (Spec.groupNamed groups)) := by
  unfold resolveParams
  have : pc.group.bind (Spec.groupNamed groups) = pc.group.bind (findGroup groups) := rfl
  rw [this]
  cases pc.group.bind (findGroup groups) with
  | none => exact want_noGroup _ hd
  | some g => exact want_applyPeerGroup _ g hd

theorem setup_check (gl : GlobalCfg) (groups : List Group) (hcid : confedIdOk gl.confed) (rows : List SetupRow) :
    ∀ (pcs : List PeerCase) (st : St) (taken : List Ip),
      (∀ a, taken.contains a = true ↔ a ∈ st.peers.map (·.1)) →
      st.asn = gl.asn ∧ st.rid = gl.rid ∧ st.confed = gl.confed ∧ st.groups = groups →
      (∀ pc ∈ pcs, pc.params.dyn = false) →
      (∀ e ∈ (setupPeers st pcs).1.peers, rows.find? (fun r => r.addr = e.1) = some (setupRowOf gl.confed e)) →
      Spec.checkSetup gl groups taken pcs (setupPeers st pcs).2 rows = .ok
  | [], _, _, _, _, _, _ => rfl
  | pc :: rest, st, taken, htk, hg, hdyn, hrows => by
    obtain ⟨ra, rd⟩ := resolve_addr st.groups pc
    simp only [setupPeers] at hrows ⊢
    cases ha : addPeer st (resolveParams st.groups pc) with
    | none =>
      simp only [ha] at hrows ⊢
      have hrec := setup_check gl groups hcid rows rest st taken htk hg (fun p hp => hdyn p (List.mem_cons_of_mem _ hp)) hrows
      unfold addPeer at ha
      rw [ra, resolve_pol, polOk_eq] at ha
      cases hl : plookup pc.params.addr st.peers with
      | some p =>
        have hin : taken.contains pc.params.addr = true := by
          rw [htk]; exact List.mem_map.mpr ⟨_, plookup_mem _ _ _ hl, rfl⟩
        simp only [Spec.checkSetup, hin, if_true, Bool.false_eq_true, if_false]
        exact hrec
      | none =>
        have hnin : taken.contains pc.params.addr = false := by
          cases hh : taken.contains pc.params.addr with
          | false => rfl
          | true => exact absurd ((htk _).mp hh) ((plookup_none _ _).mp hl)
        have hpol : Spec.policiesExist pc.params.pol = false := by
          cases hp : Spec.policiesExist pc.params.pol with
          | false => rfl
          | true => simp [hl, hp] at ha
        simp only [Spec.checkSetup, hnin, hpol, Bool.false_eq_true, if_false, Bool.not_false, if_true]
        exact hrec
    | some st' =>
      simp only [ha] at hrows ⊢
      obtain ⟨hnone, heq⟩ := addPeer_eq st _ st' ha
      rw [ra] at hnone
      have hpol : Spec.policiesExist pc.params.pol = true := by
        have ha' := ha
        unfold addPeer at ha'
        rw [ra, resolve_pol, polOk_eq, hnone] at ha'
        cases hp : Spec.policiesExist pc.params.pol with
        | true => rfl
        | false => simp [hp] at ha'
      have hnin : taken.contains pc.params.addr = false := by
        cases hh : taken.contains pc.params.addr with
        | false => rfl
        | true => exact absurd ((htk _).mp hh) ((plookup_none _ _).mp hnone)
      have hnew : newPeer st (resolveParams st.groups pc) ∈ st'.peers := by rw [heq]; simp
      have hrow := hrows _ (setup_mono rest st' _ hnew)
      have hk1 : (newPeer st (resolveParams st.groups pc)).1 = pc.params.addr := ra
      rw [hk1] at hrow
      simp only [Spec.checkSetup, hnin, hpol, Bool.false_eq_true, if_false, Bool.not_true, hrow]
      -- the requirements on the stored configuration
      have hcfg := cfgOk_build st.asn st.rid st.confed (resolveParams st.groups pc) (by rw [hg.2.2.1]; exact hcid)
      have hgl : (⟨st.asn, st.rid, st.confed⟩ : GlobalCfg) = gl := by
        cases gl; simp only [GlobalCfg.mk.injEq]; exact ⟨hg.1, hg.2.1, hg.2.2.1⟩
      rw [hgl, want_resolve st.groups pc (hdyn pc (by simp)), ra] at hcfg
      have hgc : st.confed = gl.confed := hg.2.2.1
      have hgg : st.groups = groups := hg.2.2.2
      have hall : ∀ e ∈ ([ (decide ((setupRowOf gl.confed (newPeer st (resolveParams st.groups pc))).adminDown = pc.params.adminDown),
              "admin-state-not-configured") ]
            ++ Spec.cfgOk gl (Spec.wantStatic pc.params (pc.group.bind (Spec.groupNamed groups)))
                (decide (pc.params.addr.bytes.length = 16))
                (setupRowOf gl.confed (newPeer st (resolveParams st.groups pc))).cfg
                (setupRowOf gl.confed (newPeer st (resolveParams st.groups pc))).role), e.1 = true := by
        intro e he
        simp only [List.mem_append, List.mem_cons, List.mem_nil_iff, or_false] at he
        rcases he with rfl | he
        · simp [setupRowOf, newPeer, rd]
        · apply hcfg e
          simp only [setupRowOf, newPeer, ← hgc, ← hgg] at he ⊢
          exact he
      rw [all_true hall 0]
      simp only [Spec.Verdict.andThen]
      apply setup_check gl groups hcid rows rest st' (pc.params.addr :: taken)
      · intro a
        rw [heq]
        simp only [List.contains_cons, Bool.or_eq_true, List.map_append, List.map_cons, List.map_nil,
          List.mem_append, List.mem_cons, List.mem_nil_iff, or_false, hk1]
        rw [htk]
        constructor
        · rintro (h | h)
          · right; simpa using h
          · left; exact h
        · rintro (h | h)
          · right; exact h
          · left; simpa using h
      · rw [heq]; exact hg
      · exact fun p hp => hdyn p (List.mem_cons_of_mem _ hp)
      · exact hrows


/-! ### assembling the history check -/

theorem insBy_map {α β} (key : α → Ip) (key' : β → Ip) (g : α → β) (hk : ∀ x, key' (g x) = key x) (x : α) :
    ∀ (l : List α), (insBy key x l).map g = insBy key' (g x) (l.map g)
  | [] => rfl
  | y :: t => by
    simp only [insBy, List.map_cons, hk]
    split
    · rfl
    · simp only [List.map_cons, insBy_map key key' g hk x t]

theorem sortBy_map {α β} (key : α → Ip) (key' : β → Ip) (g : α → β) (hk : ∀ x, key' (g x) = key x) :
    ∀ (l : List α), (sortBy key l).map g = sortBy key' (l.map g)
  | [] => rfl
  | x :: t => by
    have e1 : sortBy key (x :: t) = insBy key x (sortBy key t) := rfl
    have e2 : sortBy key' ((x :: t).map g) = insBy key' (g x) (sortBy key' (t.map g)) := rfl
    rw [e1, e2, insBy_map key key' g hk, sortBy_map key key' g hk t]

theorem length_insBy {α} (key : α → Ip) (x : α) : ∀ (l : List α), (insBy key x l).length = l.length + 1
  | [] => rfl
  | y :: t => by
    simp only [insBy]
    split
    · rfl
    · simp [length_insBy key x t]

theorem length_sortBy {α} (key : α → Ip) : ∀ (l : List α), (sortBy key l).length = l.length
  | [] => rfl
  | x :: t => by
    have e1 : sortBy key (x :: t) = insBy key x (sortBy key t) := rfl
    rw [e1, length_insBy, length_sortBy key t]; rfl

theorem setup_count : ∀ (pcs : List PeerCase) (st : St),
    (setupPeers st pcs).1.peers.length = st.peers.length + ((setupPeers st pcs).2.filter id).length
  | [], _ => rfl
  | pc :: rest, st => by
    simp only [setupPeers]
    cases ha : addPeer st (resolveParams st.groups pc) with
    | none => simp only [List.filter_cons, id, Bool.false_eq_true, if_false]; exact setup_count rest st
    | some st' =>
      obtain ⟨_, heq⟩ := addPeer_eq st _ st' ha
      simp only [List.filter_cons, id, if_true, List.length_cons]
      rw [setup_count rest st', heq]
      simp; omega

def toSnap (r : SetupRow) : SnapRow := { addr := r.addr, adminDown := r.adminDown, dyn := false, slotA := false, slotP := false }
def toKnown (r : SetupRow) : Spec.Known := ⟨r.addr, r.cfg, r.role⟩

theorem coupled_init (gl : GlobalCfg) (groups : List Group) (st : St)
    (hg : st.asn = gl.asn ∧ st.rid = gl.rid ∧ st.confed = gl.confed ∧ st.groups = groups)
    (hk : (st.peers.map (·.1)).Nodup) (hlive : st.live = []) (hn : st.nextSid = 0)
    (hdyn : ∀ e ∈ st.peers, e.2.cfg.dyn = false) (hctx : ∀ c ∈ st.ctxs, c = ({} : Ctx)) :
    Coupled gl groups false st
      { rows := (sortBy (·.addr) (st.peers.map (setupRowOf st.confed))).map toSnap
        known := (sortBy (·.addr) (st.peers.map (setupRowOf st.confed))).map toKnown, live := [], nextSid := 0 } := by
  have hctx' : ∀ j, st.ctx j = {} := by
    intro j
    simp only [St.ctx]
    cases h : st.ctxs[j]? with
    | none => rfl
    | some c => exact hctx c (List.mem_of_getElem? h)
  refine ⟨hg, ?_, hn.symm, by simp [hlive], ?_, ?_, by intro x hx; simp at hx, by intro s hs; rw [hlive] at hs; simp at hs,
    by intro s hs; rw [hlive] at hs; simp at hs, fun _ => ⟨by intro x hx; simp at hx, rfl, rfl⟩, by intro k c h; cases h⟩
  · show (sortBy (·.addr) (st.peers.map (setupRowOf st.confed))).map toSnap = snapshot st
    rw [sortBy_map (·.addr) (·.addr) toSnap (fun _ => rfl), List.map_map]
    unfold snapshot
    congr 1
    apply List.map_congr_left
    intro e he
    simp only [Function.comp, toSnap, setupRowOf, snapRow, hdyn e he, hctx']
    rfl
  · intro kn hkn
    simp only [List.mem_map] at hkn
    obtain ⟨r, hr, rfl⟩ := hkn
    rw [mem_sortBy] at hr
    obtain ⟨e, he, rfl⟩ := List.mem_map.mp hr
    exact ⟨e, he, rfl⟩
  · intro e he
    refine ⟨toKnown (setupRowOf st.confed e), ?_, rfl⟩
    simp only [List.mem_map]
    exact ⟨setupRowOf st.confed e, (mem_sortBy _ _ _).mpr (List.mem_map.mpr ⟨e, he, rfl⟩), rfl⟩

theorem rows_find (st : St) (hk : (st.peers.map (·.1)).Nodup) (e : Ip × Peer) (he : e ∈ st.peers) :
    (sortBy (·.addr) (st.peers.map (setupRowOf st.confed))).find? (fun r => r.addr = e.1) = some (setupRowOf st.confed e) := by
  apply find_unique
  · rw [mem_sortBy]; exact List.mem_map.mpr ⟨e, he, rfl⟩
  · simp [setupRowOf]
  · intro x hx hxa
    rw [mem_sortBy] at hx
    obtain ⟨e', he', rfl⟩ := List.mem_map.mp hx
    have : e'.1 = e.1 := of_decide_eq_true hxa
    rw [eq_of_key hk he' he this]

def HistWF (g : GlobalCfg) (groups : List Group) (peers : List PeerCase) (ops : List Op) : Prop :=
  confedIdOk g.confed ∧ WFGroups groups ∧ (∀ pc ∈ peers, pc.params.dyn = false) ∧ OpsOk ops

/-- **master theorem, histories on a loaded configuration.**  The reference checker accepts every history the model produces;
    the only thing it may report is one of the three faces of the open finding F16c, and only in a
    history that contains a shutdown / reset / disable / delete. -/
theorem checkHistOn_model (g : GlobalCfg) (groups : List Group) (peers : List PeerCase) (ops : List Op)
    (hwf : HistWF g groups peers ops) (h : HistCore) (hr : runHistOn g groups peers ops = .ok h) :
    HitOr (ops.any admOp) (Spec.checkHistOn g groups peers ops h) := by
  obtain ⟨hcid, hgw, hdyn, hops⟩ := hwf
  unfold runHistOn at hr
  simp only [bind, Bind.bind] at hr
  obtain ⟨g1, g2, g3, g4, g5, g6⟩ := setup_glob peers (initSt g groups)
  obtain ⟨hinv, hlive, hstat⟩ := setup_inv peers (initSt g groups) (inv_init g groups) rfl (by simp [initSt]) hdyn
  generalize hst : (setupPeers (initSt g groups) peers).1 = st at *
  generalize had : (setupPeers (initSt g groups) peers).2 = added at *
  cases hro : runOps st ops with
  | panic => simp [hro] at hr
  | ok steps =>
    simp only [hro, pure, Out.ok.injEq] at hr
    subst hr
    have hglob : st.asn = g.asn ∧ st.rid = g.rid ∧ st.confed = g.confed ∧ st.groups = groups := ⟨g1, g2, g3, g4⟩
    have hset : Spec.checkSetup g groups [] peers added (sortBy (·.addr) (st.peers.map (setupRowOf st.confed))) = .ok := by
      have := setup_check g groups hcid (sortBy (·.addr) (st.peers.map (setupRowOf g.confed))) peers (initSt g groups) []
        (by intro a; simp [initSt]) ⟨rfl, rfl, rfl, rfl⟩ hdyn
        (by
          intro e he
          rw [hst] at he
          have := rows_find st hinv.core.keys e he
          rw [g3] at this; exact this)
      rw [had] at this
      rw [g3]; exact this
    unfold Spec.checkHistOn
    simp only [hset, Spec.Verdict.andThen]
    have hlen : ((sortBy (·.addr) (st.peers.map (setupRowOf st.confed))).length
          != (added.filter id).length) = false := by
      rw [length_sortBy, List.length_map]
      have := setup_count peers (initSt g groups)
      rw [hst, had] at this
      simp only [initSt, List.length_nil, Nat.zero_add] at this
      simp [this]
    simp only [hlen, Bool.false_eq_true, if_false]
    have hc0 := coupled_init g groups st hglob hinv.core.keys hlive (by rw [g5]; rfl) hstat (g6 (by simp [initSt]))
    have := sim_steps g groups hgw hcid ops false st _ 1 steps hc0 hinv hops hro
    simp only [Bool.false_or] at this
    exact this


/-! ### no history makes the model panic -/

theorem accept_groups (st : St) (a : Ip) (role : Role) (hwf : WFGroups st.groups) (ha : bytesOk a.bytes) :
    ∃ st' r b, acceptConnection st a role = .ok (st', r, b) ∧ st'.groups = st.groups := by
  unfold acceptConnection
  cases hl : plookup a st.peers with
  | some p =>
    simp only
    by_cases had : p.adminDown = true
    · exact ⟨st, .reject 0, false, by simp [had], rfl⟩
    · by_cases hs : ((st.ctx p.ctx).get role).isSome = true
      · exact ⟨st, .reject 0, false, by simp [had, hs], rfl⟩
      · exact ⟨(openSession st a p role).1, (openSession st a p role).2, false, by simp [had, hs],
          (openSession_fields st a p role).2.2.2.2.2.2.1⟩
  | none =>
    simp only [bind, Bind.bind, matching_eq st.groups a hwf ha]
    match hcov : Spec.coveringGroups st.groups a with
    | [] => exact ⟨st, _, _, rfl, rfl⟩
    | [g] =>
      simp only
      have hadd : ∃ st1, addPeer st (paramsOfGroup g a) = some st1 := by
        unfold addPeer
        have : (paramsOfGroup g a).addr = a := rfl
        have hp : polOk (paramsOfGroup g a).pol = true := rfl
        rw [this, hl, hp]; exact ⟨_, rfl⟩
      obtain ⟨st1, h1⟩ := hadd
      obtain ⟨_, heq⟩ := addPeer_eq st _ st1 h1
      have h2 : plookup a st1.peers = some (newPeer st (paramsOfGroup g a)).2 := by
        rw [heq]
        show plookup a (st.peers ++ [newPeer st (paramsOfGroup g a)]) = _
        rw [plookup_append, hl]
        simp [newPeer, paramsOfGroup]
      simp only [h1, h2, pure]
      refine ⟨_, _, _, rfl, ?_⟩
      rw [(openSession_fields st1 a _ role).2.2.2.2.2.2.1, heq]
    | _ :: _ :: _ => exact ⟨st, _, _, rfl, rfl⟩

theorem disconnect_groups (st : St) (sid : Nat) (reply : Option Nat) : (disconnect st sid reply).1.groups = st.groups := by
  cases hf : st.live.find? (fun x => x.sid = sid) with
  | none => rw [disconnect_none st sid reply hf]
  | some s =>
    rw [disconnect_eq st sid reply s hf]
    simp only
    cases plookup s.addr (afterApply st s).peers with
    | none => rfl
    | some p => simp only; split <;> (try split) <;> rfl

theorem step_groups (st : St) (op : Op) (hwf : WFGroups st.groups)
    (hop : ∀ a r, op = .connect a r → bytesOk a.bytes) :
    ∃ st' r b, step st op = .ok (st', r, b) ∧ st'.groups = st.groups := by
  cases op with
  | connect a role => exact accept_groups st a role hwf (hop a role rfl)
  | disc sid =>
    exact ⟨(disconnect st sid none).1, (disconnect st sid none).2, false, rfl, disconnect_groups st sid none⟩
  | discx sid asn hold =>
    exact ⟨(disconnect st sid (some asn)).1, (disconnect st sid (some asn)).2, false, rfl, disconnect_groups st sid (some asn)⟩
  | enable a =>
    refine ⟨(apiOp st a (apiF .enable a)).1, (apiOp st a (apiF .enable a)).2, false, step_api st .enable a, ?_⟩
    simp only [apiOp]; cases plookup a st.peers <;> simp only [apiF] <;> (try split) <;> rfl
  | disable a =>
    refine ⟨(apiOp st a (apiF .disable a)).1, (apiOp st a (apiF .disable a)).2, false, step_api st .disable a, ?_⟩
    simp only [apiOp]; cases plookup a st.peers <;> simp only [apiF] <;> (try split) <;> rfl
  | delete a =>
    refine ⟨(apiOp st a (apiF .delete a)).1, (apiOp st a (apiF .delete a)).2, false, step_api st .delete a, ?_⟩
    simp only [apiOp]; cases plookup a st.peers <;> simp only [apiF] <;> rfl
  | shutdown a =>
    refine ⟨(apiOp st a (apiF .shutdown a)).1, (apiOp st a (apiF .shutdown a)).2, false, step_api st .shutdown a, ?_⟩
    simp only [apiOp]; cases plookup a st.peers <;> simp only [apiF] <;> rfl
  | reset a =>
    refine ⟨(apiOp st a (apiF .reset a)).1, (apiOp st a (apiF .reset a)).2, false, step_api st .reset a, ?_⟩
    simp only [apiOp]; cases plookup a st.peers <;> simp only [apiF] <;> rfl

theorem runOps_ok : ∀ (ops : List Op) (st : St), WFGroups st.groups → OpsOk ops → ∃ obs, runOps st ops = .ok obs
  | [], _, _, _ => ⟨[], rfl⟩
  | op :: rest, st, hwf, hok => by
    obtain ⟨st', r, b, hs, hg⟩ := step_groups st op hwf (fun a r h => hok op (by simp) a r h)
    simp only [runOps, bind, Bind.bind, hs]
    cases b with
    | true => exact ⟨_, rfl⟩
    | false =>
      obtain ⟨tl, htl⟩ := runOps_ok rest st' (by rw [hg]; exact hwf) (fun o ho => hok o (List.mem_cons_of_mem _ ho))
      simp only [Bool.false_eq_true, if_false, htl, pure]
      exact ⟨_, rfl⟩

theorem runHistOn_ok (g : GlobalCfg) (groups : List Group) (peers : List PeerCase) (ops : List Op)
    (hwf : HistWF g groups peers ops) : ∃ h, runHistOn g groups peers ops = .ok h := by
  unfold runHistOn
  simp only [bind, Bind.bind]
  have hg := (setup_glob peers (initSt g groups)).2.2.2.1
  obtain ⟨obs, ho⟩ := runOps_ok ops (setupPeers (initSt g groups) peers).1 (by rw [hg]; exact hwf.2.1) hwf.2.2.2
  rw [ho]
  exact ⟨_, rfl⟩

end Rbgp.Accept.ProofsSim
