/- Invariants of the neighbour table over all histories (C16: accept_iff, dynamic_peer_gc). -/
import Rbgp.Accept.Model
import Rbgp.Accept.Spec
namespace Rbgp.Accept.ProofsHist
open Rbgp.Accept

/-! ### the neighbour table as an association list -/

theorem plookup_mem (a : Ip) (p : Peer) : ∀ (l : List (Ip × Peer)), plookup a l = some p → (a, p) ∈ l
  | [], h => by simp [plookup] at h
  | (k, v) :: t, h => by
    simp only [plookup] at h
    by_cases hk : k = a
    · simp only [hk, if_true, Option.some.injEq] at h; subst h; subst hk; exact List.mem_cons_self
    · simp only [hk, if_false] at h; exact List.mem_cons_of_mem _ (plookup_mem a p t h)

theorem plookup_none (a : Ip) : ∀ (l : List (Ip × Peer)), plookup a l = none ↔ a ∉ l.map (·.1)
  | [] => by simp [plookup]
  | (k, v) :: t => by
    simp only [plookup, List.map_cons, List.mem_cons, not_or]
    by_cases hk : k = a
    · simp [hk]
    · simp only [hk, if_false, plookup_none a t]
      constructor
      · intro h; exact ⟨fun e => hk e.symm, h⟩
      · intro h; exact h.2

theorem plookup_of_mem (a : Ip) (p : Peer) : ∀ (l : List (Ip × Peer)), (l.map (·.1)).Nodup → (a, p) ∈ l →
    plookup a l = some p
  | [], _, h => by simp at h
  | (k, v) :: t, hn, h => by
    simp only [List.map_cons, List.nodup_cons] at hn
    simp only [plookup]
    rcases List.mem_cons.mp h with e | h
    · cases e; simp
    · have hk : k ≠ a := by
        intro e; subst e
        exact hn.1 (List.mem_map.mpr ⟨(k, p), h, rfl⟩)
      simp only [hk, if_false]
      exact plookup_of_mem a p t hn.2 h

theorem mem_perase (a : Ip) (e : Ip × Peer) : ∀ (l : List (Ip × Peer)), e ∈ perase a l ↔ (e ∈ l ∧ e.1 ≠ a)
  | [] => by simp [perase]
  | (k, v) :: t => by
    simp only [perase]
    by_cases hk : k = a
    · simp only [hk, if_true, mem_perase a e t, List.mem_cons]
      constructor
      · intro h; exact ⟨Or.inr h.1, h.2⟩
      · rintro ⟨h | h, hne⟩
        · subst h; exact absurd rfl hne
        · exact ⟨h, hne⟩
    · simp only [hk, if_false, List.mem_cons, mem_perase a e t]
      constructor
      · rintro (h | h)
        · subst h; exact ⟨Or.inl rfl, hk⟩
        · exact ⟨Or.inr h.1, h.2⟩
      · rintro ⟨h | h, hne⟩
        · exact Or.inl h
        · exact Or.inr ⟨h, hne⟩

theorem perase_sublist (a : Ip) : ∀ (l : List (Ip × Peer)), (perase a l).Sublist l
  | [] => by simp [perase]
  | (k, v) :: t => by
    simp only [perase]
    by_cases hk : k = a
    · simp only [hk, if_true]; exact (perase_sublist a t).trans (List.sublist_cons_self _ _)
    · simp only [hk, if_false]; exact (perase_sublist a t).cons₂ _

theorem perase_nodup (a : Ip) (l : List (Ip × Peer)) (h : (l.map (·.1)).Nodup) : ((perase a l).map (·.1)).Nodup :=
  h.sublist ((perase_sublist a l).map _)

theorem keys_pset (a : Ip) (p : Peer) : ∀ (l : List (Ip × Peer)), (pset a p l).map (·.1) = l.map (·.1)
  | [] => rfl
  | (k, v) :: t => by
    simp only [pset]
    by_cases hk : k = a
    · simp [hk]
    · simp [hk, keys_pset a p t]

theorem mem_pset (a : Ip) (p : Peer) (e : Ip × Peer) : ∀ (l : List (Ip × Peer)), (l.map (·.1)).Nodup →
    (e ∈ pset a p l ↔ ((e ∈ l ∧ e.1 ≠ a) ∨ (e = (a, p) ∧ a ∈ l.map (·.1))))
  | [], _ => by simp [pset]
  | (k, v) :: t, hn => by
    simp only [List.map_cons, List.nodup_cons] at hn
    simp only [pset]
    by_cases hk : k = a
    · subst hk
      simp only [if_true, List.mem_cons, List.map_cons, true_or, and_true]
      constructor
      · rintro (h | h)
        · exact Or.inr h
        · left
          refine ⟨Or.inr h, ?_⟩
          intro he
          exact hn.1 (List.mem_map.mpr ⟨e, h, he⟩)
      · rintro (⟨h | h, hne⟩ | h)
        · subst h; exact absurd rfl hne
        · exact Or.inr h
        · exact Or.inl h
    · simp only [hk, if_false, List.mem_cons, List.map_cons, mem_pset a p e t hn.2]
      constructor
      · rintro (h | ⟨h, hne⟩ | ⟨h, hm⟩)
        · subst h; exact Or.inl ⟨Or.inl rfl, hk⟩
        · exact Or.inl ⟨Or.inr h, hne⟩
        · exact Or.inr ⟨h, Or.inr hm⟩
      · rintro (⟨h | h, hne⟩ | ⟨h, hm | hm⟩)
        · exact Or.inl h
        · exact Or.inr (Or.inl ⟨h, hne⟩)
        · exact absurd hm.symm hk
        · exact Or.inr (Or.inr ⟨h, hm⟩)

/-! ### contexts -/

theorem ctx_setCtx (st : St) (i j : Nat) (c : Ctx) (hi : i < st.ctxs.length) :
    (st.setCtx i c).ctx j = if j = i then c else st.ctx j := by
  simp only [St.ctx, St.setCtx, List.getElem?_set]
  by_cases h : j = i
  · subst h; simp [hi]
  · simp [h, Ne.symm h]

theorem setCtx_length (st : St) (i : Nat) (c : Ctx) : (st.setCtx i c).ctxs.length = st.ctxs.length := by
  simp [St.setCtx]

theorem ctx_default (st : St) (i : Nat) (h : st.ctxs.length ≤ i) : st.ctx i = {} := by
  simp [St.ctx, List.getElem?_eq_none h]

theorem get_set (c : Ctx) (r r' : Role) (v : Option Nat) :
    (c.set r v).get r' = if r' = r then v else c.get r' := by
  cases r <;> cases r' <;> simp [Ctx.set, Ctx.get]


/-! ### the invariant -/

structure InvCore (st : St) : Prop where
  keys : (st.peers.map (·.1)).Nodup
  ctxLt : ∀ e ∈ st.peers, e.2.ctx < st.ctxs.length
  ctxInj : ∀ e1 ∈ st.peers, ∀ e2 ∈ st.peers, e1.2.ctx = e2.2.ctx → e1 = e2
  slotLive : ∀ c r sid, (st.ctx c).get r = some sid → ∃ s ∈ st.live, s.sid = sid ∧ s.ctx = c ∧ s.role = r
  liveLt : ∀ s ∈ st.live, s.sid < st.nextSid ∧ s.ctx < st.ctxs.length
  sids : (st.live.map (·.sid)).Nodup
  owner : ∀ s ∈ st.live, ∀ e ∈ st.peers, s.ctx = e.2.ctx → s.addr = e.1
  ownerS : ∀ s1 ∈ st.live, ∀ s2 ∈ st.live, s1.ctx = s2.ctx → s1.addr = s2.addr
  staticCtx : ∀ s ∈ st.live, ∀ e ∈ st.peers, s.addr = e.1 → e.2.cfg.dyn = false → s.ctx = e.2.ctx

/-- every dynamic neighbour in the table has a connection that is not finished -/
def DynLive (st : St) : Prop := ∀ e ∈ st.peers, e.2.cfg.dyn = true → ∃ s ∈ st.live, s.ctx = e.2.ctx

structure Inv (st : St) : Prop where
  core : InvCore st
  dyn : DynLive st

theorem eq_of_sid {l : List Sess} (h : (l.map (·.sid)).Nodup) {s1 s2 : Sess} (h1 : s1 ∈ l) (h2 : s2 ∈ l)
    (e : s1.sid = s2.sid) : s1 = s2 := by
  induction l with
  | nil => simp at h1
  | cons a t ih =>
    simp only [List.map_cons, List.nodup_cons] at h
    rcases List.mem_cons.mp h1 with rfl | h1' <;> rcases List.mem_cons.mp h2 with rfl | h2'
    · rfl
    · exact absurd (List.mem_map.mpr ⟨s2, h2', e.symm⟩) h.1
    · exact absurd (List.mem_map.mpr ⟨s1, h1', e⟩) h.1
    · exact ih h.2 h1' h2'

/-! ### openSession -/

theorem openSession_fields (st : St) (a : Ip) (p : Peer) (role : Role) :
    (openSession st a p role).1.peers = st.peers ∧
    (openSession st a p role).1.ctxs = st.ctxs.set p.ctx ((st.ctx p.ctx).set role (some st.nextSid)) ∧
    (openSession st a p role).1.nextSid = st.nextSid + 1 ∧
    (openSession st a p role).1.asn = st.asn ∧ (openSession st a p role).1.rid = st.rid ∧
    (openSession st a p role).1.confed = st.confed ∧ (openSession st a p role).1.groups = st.groups ∧
    ∃ s : Sess, (openSession st a p role).1.live = st.live ++ [s] ∧ s.sid = st.nextSid ∧ s.addr = a ∧ s.role = role ∧
      s.ctx = p.ctx ∧ s.doom = none ∧ s.asn = p.cfg.localAsn ∧ s.hold = p.cfg.hold ∧ s.caps = p.cfg.caps ∧
      s.expected = p.cfg.expected := by
  unfold openSession St.setCtx
  exact ⟨rfl, rfl, rfl, rfl, rfl, rfl, rfl, _, rfl, rfl, rfl, rfl, rfl, rfl, rfl, rfl, rfl, rfl⟩

theorem ctx_openSession (st : St) (a : Ip) (p : Peer) (role : Role) (hp : p.ctx < st.ctxs.length) (j : Nat) :
    (openSession st a p role).1.ctx j = if j = p.ctx then (st.ctx p.ctx).set role (some st.nextSid) else st.ctx j := by
  have := ctx_setCtx st p.ctx j ((st.ctx p.ctx).set role (some st.nextSid)) hp
  simp only [St.ctx, St.setCtx] at this ⊢
  obtain ⟨_, h2, _⟩ := openSession_fields st a p role
  rw [h2]; exact this

theorem inv_openSession (st : St) (a : Ip) (p : Peer) (role : Role) (hi : InvCore st) (hm : (a, p) ∈ st.peers) :
    InvCore (openSession st a p role).1 := by
  obtain ⟨f1, f2, f3, _, _, _, _, s, f4, s1, s2, s3, s4, _⟩ := openSession_fields st a p role
  have hp := hi.ctxLt _ hm
  have hlen : (openSession st a p role).1.ctxs.length = st.ctxs.length := by rw [f2]; simp
  refine ⟨by rw [f1]; exact hi.keys, ?_, by rw [f1]; exact hi.ctxInj, ?_, ?_, ?_, ?_, ?_, ?_⟩
  · intro e he; rw [f1] at he; rw [hlen]; exact hi.ctxLt e he
  · intro c r sid h
    rw [ctx_openSession st a p role hp, f4] at *
    by_cases hc : c = p.ctx
    · simp only [hc, if_true, get_set] at h
      by_cases hr : r = role
      · simp only [hr, if_true, Option.some.injEq] at h
        exact ⟨s, by simp, by rw [s1, h], by rw [s4, hc], by rw [s3, hr]⟩
      · simp only [hr, if_false] at h
        obtain ⟨x, hx, h1, h2, h3⟩ := hi.slotLive p.ctx r sid h
        exact ⟨x, by simp [hx], h1, by rw [h2, hc], h3⟩
    · simp only [hc, if_false] at h
      obtain ⟨x, hx, h1⟩ := hi.slotLive c r sid h
      exact ⟨x, by simp [hx], h1⟩
  · intro x hx; rw [f4] at hx; rw [f3, hlen]
    rcases List.mem_append.mp hx with hx | hx
    · have := hi.liveLt x hx; exact ⟨by omega, this.2⟩
    · simp at hx; subst hx; exact ⟨by omega, by rw [s4]; exact hp⟩
  · rw [f4, List.map_append, List.nodup_append]
    refine ⟨hi.sids, by simp, ?_⟩
    intro x hx y hy
    simp at hy; subst hy
    obtain ⟨z, hz, rfl⟩ := List.mem_map.mp hx
    have := (hi.liveLt z hz).1
    rw [s1]; omega
  · intro x hx e he hxe; rw [f4] at hx; rw [f1] at he
    rcases List.mem_append.mp hx with hx | hx
    · exact hi.owner x hx e he hxe
    · simp at hx; subst hx
      have : e = (a, p) := hi.ctxInj e he (a, p) hm (by rw [← hxe, s4])
      rw [this, s2]
  · intro x hx y hy hxy; rw [f4] at hx hy
    rcases List.mem_append.mp hx with hx1 | hx1 <;> rcases List.mem_append.mp hy with hy1 | hy1
    · exact hi.ownerS x hx1 y hy1 hxy
    · have ey : y = s := by simpa using hy1
      rw [ey, s2]; exact hi.owner x hx1 (a, p) hm (by rw [hxy, ey, s4])
    · have ex : x = s := by simpa using hx1
      rw [ex, s2]; exact (hi.owner y hy1 (a, p) hm (by rw [← hxy, ex, s4])).symm
    · have ex : x = s := by simpa using hx1
      have ey : y = s := by simpa using hy1
      rw [ex, ey]
  · intro x hx e he hxe hd; rw [f4] at hx; rw [f1] at he
    rcases List.mem_append.mp hx with hx | hx
    · exact hi.staticCtx x hx e he hxe hd
    · simp at hx; subst hx
      have hk : e.1 = a := by rw [← hxe, s2]
      have h1 := plookup_of_mem e.1 e.2 st.peers hi.keys (by cases e; exact he)
      have h2 := plookup_of_mem a p st.peers hi.keys hm
      rw [hk, h2] at h1; injection h1 with h1
      rw [s4, h1]

theorem dyn_openSession (st : St) (a : Ip) (p : Peer) (role : Role) (hd : DynLive st) :
    DynLive (openSession st a p role).1 := by
  obtain ⟨f1, _, _, _, _, _, _, s, f4, _⟩ := openSession_fields st a p role
  intro e he hdy; rw [f1] at he
  obtain ⟨x, hx, h⟩ := hd e he hdy
  exact ⟨x, by rw [f4]; simp [hx], h⟩


/-! ### add_peer -/

def newPeer (st : St) (p : Params) : Ip × Peer :=
  (p.addr, { cfg := build (confedAdjust st.asn st.confed p) st.asn, adminDown := p.adminDown, ctx := st.ctxs.length })

theorem addPeer_eq (st : St) (p : Params) (st' : St) (h : addPeer st p = some st') :
    plookup p.addr st.peers = none ∧
    st' = { st with peers := st.peers ++ [newPeer st p], ctxs := st.ctxs ++ [{}] } := by
  unfold addPeer at h
  cases hl : plookup p.addr st.peers with
  | some x => simp [hl] at h
  | none =>
    by_cases hp : polOk p.pol = true
    · simp [hl, hp] at h; exact ⟨rfl, h.symm⟩
    · simp [hl, hp] at h

theorem ctx_append (st st' : St) (hc : st'.ctxs = st.ctxs ++ [({} : Ctx)]) (j : Nat) : st'.ctx j = st.ctx j := by
  simp only [St.ctx, hc]
  by_cases h : j < st.ctxs.length
  · simp [List.getElem?_append_left h]
  · have h' : st.ctxs.length ≤ j := by omega
    rw [List.getElem?_eq_none h']
    by_cases h2 : j = st.ctxs.length
    · subst h2; simp
    · rw [List.getElem?_eq_none (by simp; omega)]

theorem inv_addPeer (st : St) (p : Params) (st' : St) (h : addPeer st p = some st') (hi : InvCore st)
    (hds : (newPeer st p).2.cfg.dyn = true ∨ st.live = []) :
    InvCore st' := by
  obtain ⟨hnone, rfl⟩ := addPeer_eq st p st' h
  have hnot : p.addr ∉ st.peers.map (·.1) := (plookup_none _ _).mp hnone
  have hnp1 : (newPeer st p).1 = p.addr := rfl
  have hnp2 : (newPeer st p).2.ctx = st.ctxs.length := rfl
  refine ⟨?_, ?_, ?_, ?_, ?_, hi.sids, ?_, hi.ownerS, ?_⟩
  · show ((st.peers ++ [newPeer st p]).map (·.1)).Nodup
    simp only [List.map_append, List.map_cons, List.map_nil]
    rw [List.nodup_append]
    refine ⟨hi.keys, by simp, ?_⟩
    intro x hx y hy; simp at hy; subst hy
    intro e; rw [e, hnp1] at hx; exact hnot hx
  · intro e he
    show e.2.ctx < (st.ctxs ++ [({} : Ctx)]).length
    simp only [List.length_append, List.length_cons, List.length_nil]
    rcases List.mem_append.mp he with he | he
    · have := hi.ctxLt e he; omega
    · have : e = newPeer st p := by simpa using he
      rw [this, hnp2]; omega
  · intro e1 h1 e2 h2 hc
    rcases List.mem_append.mp h1 with h1 | h1 <;> rcases List.mem_append.mp h2 with h2 | h2
    · exact hi.ctxInj e1 h1 e2 h2 hc
    · have e : e2 = newPeer st p := by simpa using h2
      rw [e, hnp2] at hc
      have := hi.ctxLt e1 h1; omega
    · have e : e1 = newPeer st p := by simpa using h1
      rw [e, hnp2] at hc
      have := hi.ctxLt e2 h2; omega
    · have a : e1 = newPeer st p := by simpa using h1
      have b : e2 = newPeer st p := by simpa using h2
      rw [a, b]
  · intro c r sid hs
    rw [ctx_append st _ rfl] at hs
    exact hi.slotLive c r sid hs
  · intro s hs
    have := hi.liveLt s hs
    show s.sid < st.nextSid ∧ s.ctx < (st.ctxs ++ [({} : Ctx)]).length
    simp only [List.length_append, List.length_cons, List.length_nil]
    exact ⟨this.1, by omega⟩
  · intro s hs e he hc
    rcases List.mem_append.mp he with he | he
    · exact hi.owner s hs e he hc
    · have a : e = newPeer st p := by simpa using he
      rw [a, hnp2] at hc
      have := (hi.liveLt s hs).2; omega
  · intro s hs e he ha hd
    rcases List.mem_append.mp he with he | he
    · exact hi.staticCtx s hs e he ha hd
    · -- a new static neighbour appears only while nothing is connected (configuration loading);
      -- a new dynamic neighbour is excluded by `hd`
      have a : e = newPeer st p := by simpa using he
      rw [a] at hd
      rcases hds with h1 | h1
      · rw [h1] at hd; cases hd
      · have hs' : s ∈ st.live := hs
        rw [h1] at hs'; simp at hs'


/-! ### shrinking steps (nothing new appears) -/

def core (s : Sess) : Nat × Ip × Role × Nat := (s.sid, s.addr, s.role, s.ctx)

theorem eq_of_key {l : List (Ip × Peer)} (h : (l.map (·.1)).Nodup) {e1 e2 : Ip × Peer} (h1 : e1 ∈ l) (h2 : e2 ∈ l)
    (e : e1.1 = e2.1) : e1 = e2 := by
  have a := plookup_of_mem e1.1 e1.2 l h (by cases e1; exact h1)
  have b := plookup_of_mem e2.1 e2.2 l h (by cases e2; exact h2)
  rw [e, b] at a; injection a with a
  cases e1; cases e2; simp_all

theorem invCore_shrink (st st' : St) (hi : InvCore st)
    (hpeers : ∀ e ∈ st'.peers, ∃ e0 ∈ st.peers, e0.1 = e.1 ∧ e0.2.ctx = e.2.ctx ∧ e0.2.cfg.dyn = e.2.cfg.dyn)
    (hkeys : (st'.peers.map (·.1)).Nodup)
    (hlive : ∀ s ∈ st'.live, ∃ s0 ∈ st.live, core s0 = core s)
    (hsids : (st'.live.map (·.sid)).Nodup)
    (hn : st.nextSid ≤ st'.nextSid) (hlen : st'.ctxs.length = st.ctxs.length)
    (hslot : ∀ c r sid, (st'.ctx c).get r = some sid → ∃ s ∈ st'.live, s.sid = sid ∧ s.ctx = c ∧ s.role = r) :
    InvCore st' := by
  refine ⟨hkeys, ?_, ?_, hslot, ?_, hsids, ?_, ?_, ?_⟩
  · intro e he
    obtain ⟨e0, h0, _, hc, _⟩ := hpeers e he
    rw [hlen, ← hc]; exact hi.ctxLt e0 h0
  · intro e1 h1 e2 h2 hc
    obtain ⟨a, ha, ka, ca, _⟩ := hpeers e1 h1
    obtain ⟨b, hb, kb, cb, _⟩ := hpeers e2 h2
    have := hi.ctxInj a ha b hb (by rw [ca, cb, hc])
    exact eq_of_key hkeys h1 h2 (by rw [← ka, ← kb, this])
  · intro s hs
    obtain ⟨s0, h0, hc⟩ := hlive s hs
    simp only [core, Prod.mk.injEq] at hc
    have := hi.liveLt s0 h0
    rw [hlen, ← hc.1, ← hc.2.2.2]; exact ⟨by omega, this.2⟩
  · intro s hs e he hse
    obtain ⟨s0, h0, hc⟩ := hlive s hs
    obtain ⟨e0, he0, k0, c0, _⟩ := hpeers e he
    simp only [core, Prod.mk.injEq] at hc
    rw [← hc.2.1, ← k0]
    exact hi.owner s0 h0 e0 he0 (by rw [hc.2.2.2, c0, hse])
  · intro s1 h1 s2 h2 hc
    obtain ⟨a, ha, ca⟩ := hlive s1 h1
    obtain ⟨b, hb, cb⟩ := hlive s2 h2
    simp only [core, Prod.mk.injEq] at ca cb
    rw [← ca.2.1, ← cb.2.1]
    exact hi.ownerS a ha b hb (by rw [ca.2.2.2, cb.2.2.2, hc])
  · intro s hs e he hse hd
    obtain ⟨s0, h0, hc⟩ := hlive s hs
    obtain ⟨e0, he0, k0, c0, d0⟩ := hpeers e he
    simp only [core, Prod.mk.injEq] at hc
    rw [← hc.2.2.2, ← c0]
    exact hi.staticCtx s0 h0 e0 he0 (by rw [hc.2.1, k0, hse]) (by rw [d0, hd])

/-! ### force_down -/

theorem doomSess_map {β} (f : Sess → β) (hf : ∀ s d, f { s with doom := some d } = f s) (l : List Sess)
    (i : Option Nat) (d : Doom) : (doomSess l i d).map f = l.map f := by
  cases i with
  | none => rfl
  | some i =>
    simp only [doomSess, List.map_map]
    apply List.map_congr_left
    intro s _
    simp only [Function.comp]
    split
    · exact hf s d
    · rfl

theorem forceDown_fields (st : St) (c : Nat) (d : Doom) :
    (forceDown st c d).peers = st.peers ∧ (forceDown st c d).ctxs = st.ctxs.set c {} ∧
    (forceDown st c d).nextSid = st.nextSid ∧ (forceDown st c d).groups = st.groups ∧
    (forceDown st c d).asn = st.asn ∧ (forceDown st c d).rid = st.rid ∧ (forceDown st c d).confed = st.confed ∧
    (forceDown st c d).live.map core = st.live.map core ∧
    (forceDown st c d).live.map (·.sid) = st.live.map (·.sid) := by
  refine ⟨rfl, rfl, rfl, rfl, rfl, rfl, rfl, ?_, ?_⟩
  · simp only [forceDown]
    rw [doomSess_map core (fun _ _ => rfl), doomSess_map core (fun _ _ => rfl)]
  · simp only [forceDown]
    rw [doomSess_map (·.sid) (fun _ _ => rfl), doomSess_map (·.sid) (fun _ _ => rfl)]

theorem ctx_forceDown (st : St) (c : Nat) (d : Doom) (j : Nat) :
    (forceDown st c d).ctx j = if j = c then {} else st.ctx j := by
  by_cases hc : c < st.ctxs.length
  · have := ctx_setCtx st c j {} hc
    simpa [forceDown, St.ctx, St.setCtx] using this
  · have hc' : st.ctxs.length ≤ c := by omega
    simp only [forceDown, St.ctx, St.setCtx, List.set_eq_of_length_le hc']
    by_cases hj : j = c
    · subst hj; simp [List.getElem?_eq_none hc']
    · simp [hj]

theorem live_of_map {l l' : List Sess} (h : l'.map core = l.map core) (s : Sess) (hs : s ∈ l') :
    ∃ s0 ∈ l, core s0 = core s := by
  have : core s ∈ l.map core := by rw [← h]; exact List.mem_map.mpr ⟨s, hs, rfl⟩
  obtain ⟨s0, h0, e⟩ := List.mem_map.mp this
  exact ⟨s0, h0, e⟩

theorem inv_forceDown (st : St) (c : Nat) (d : Doom) (hi : InvCore st) : InvCore (forceDown st c d) := by
  obtain ⟨f1, f2, f3, _, _, _, _, f4, f5⟩ := forceDown_fields st c d
  apply invCore_shrink st _ hi
  · intro e he; rw [f1] at he; exact ⟨e, he, rfl, rfl, rfl⟩
  · rw [f1]; exact hi.keys
  · intro s hs; exact live_of_map f4 s hs
  · rw [f5]; exact hi.sids
  · rw [f3]; exact Nat.le_refl _
  · rw [f2]; simp
  · intro j r sid h
    rw [ctx_forceDown] at h
    by_cases hj : j = c
    · simp [hj, Ctx.get] at h; cases r <;> simp at h
    · simp only [hj, if_false] at h
      obtain ⟨s0, h0, e1, e2, e3⟩ := hi.slotLive j r sid h
      have : core s0 ∈ (forceDown st c d).live.map core := by rw [f4]; exact List.mem_map.mpr ⟨s0, h0, rfl⟩
      obtain ⟨s, hs, e⟩ := List.mem_map.mp this
      simp only [core, Prod.mk.injEq] at e
      exact ⟨s, hs, by rw [e.1, e1], by rw [e.2.2.2, e2], by rw [e.2.2.1, e3]⟩

theorem dyn_forceDown (st : St) (c : Nat) (d : Doom) (hd : DynLive st) : DynLive (forceDown st c d) := by
  obtain ⟨f1, _, _, _, _, _, _, f4, _⟩ := forceDown_fields st c d
  intro e he hdy; rw [f1] at he
  obtain ⟨s0, h0, hc⟩ := hd e he hdy
  have : core s0 ∈ (forceDown st c d).live.map core := by rw [f4]; exact List.mem_map.mpr ⟨s0, h0, rfl⟩
  obtain ⟨s, hs, e'⟩ := List.mem_map.mp this
  simp only [core, Prod.mk.injEq] at e'
  exact ⟨s, hs, by rw [e'.2.2.2, hc]⟩


/-! ### the end of a session task -/

/-- state after `apply_disconnect` (slot of the role cleared, the session gone), before the
    address-keyed tail of `run` -/
def afterApply (st : St) (s : Sess) : St :=
  { (st.setCtx s.ctx ((st.ctx s.ctx).set s.role none)) with live := st.live.filter fun x => x.sid != s.sid }

theorem find_sid {l : List Sess} {sid : Nat} {s : Sess} (h : l.find? (fun x => x.sid = sid) = some s) :
    s ∈ l ∧ s.sid = sid :=
  ⟨List.mem_of_find?_eq_some h, by simpa using List.find?_some h⟩

theorem inv_afterApply (st : St) (s : Sess) (hi : InvCore st) (hs : s ∈ st.live) : InvCore (afterApply st s) := by
  have hsc := (hi.liveLt s hs).2
  apply invCore_shrink st _ hi
  · intro e he; exact ⟨e, he, rfl, rfl, rfl⟩
  · exact hi.keys
  · intro x hx
    have : x ∈ st.live.filter fun y => y.sid != s.sid := hx
    exact ⟨x, (List.mem_filter.mp this).1, rfl⟩
  · exact hi.sids.sublist ((List.filter_sublist).map _)
  · exact Nat.le_refl _
  · simp [afterApply, St.setCtx]
  · intro j r sid' h
    have hctx : (afterApply st s).ctx j = if j = s.ctx then (st.ctx s.ctx).set s.role none else st.ctx j := by
      have := ctx_setCtx st s.ctx j ((st.ctx s.ctx).set s.role none) hsc
      simpa [afterApply, St.ctx, St.setCtx] using this
    rw [hctx] at h
    have key : ∃ s' ∈ st.live, s'.sid = sid' ∧ s'.ctx = j ∧ s'.role = r ∧ (j = s.ctx → r ≠ s.role) := by
      by_cases hj : j = s.ctx
      · simp only [hj, if_true, get_set] at h
        by_cases hr : r = s.role
        · simp [hr] at h
        · simp only [hr, if_false] at h
          obtain ⟨s', h1, h2, h3, h4⟩ := hi.slotLive s.ctx r sid' h
          exact ⟨s', h1, h2, by rw [h3, hj], h4, fun _ => hr⟩
      · simp only [hj, if_false] at h
        obtain ⟨s', h1, h2, h3, h4⟩ := hi.slotLive j r sid' h
        exact ⟨s', h1, h2, h3, h4, fun e => absurd e hj⟩
    obtain ⟨s', h1, h2, h3, h4, h5⟩ := key
    refine ⟨s', ?_, h2, h3, h4⟩
    show s' ∈ st.live.filter fun y => y.sid != s.sid
    rw [List.mem_filter]
    refine ⟨h1, ?_⟩
    simp only [bne_iff_ne, ne_eq]
    intro e
    have : s' = s := eq_of_sid hi.sids h1 hs e
    subst this
    exact h5 h3.symm h4.symm

theorem afterApply_fields (st : St) (s : Sess) :
    (afterApply st s).peers = st.peers ∧ (afterApply st s).nextSid = st.nextSid ∧
    (afterApply st s).live = st.live.filter (fun x => x.sid != s.sid) ∧
    (afterApply st s).asn = st.asn ∧ (afterApply st s).rid = st.rid ∧ (afterApply st s).confed = st.confed ∧
    (afterApply st s).groups = st.groups := ⟨rfl, rfl, rfl, rfl, rfl, rfl, rfl⟩

/-- `disconnect` in terms of `afterApply` -/
theorem disconnect_eq (st : St) (sid : Nat) (reply : Option Nat) (s : Sess) (h : st.live.find? (fun x => x.sid = sid) = some s) :
    (disconnect st sid reply).1 =
      (let st2 := afterApply st s
       let c := (st.ctx s.ctx).set s.role none
       match plookup s.addr st2.peers with
       | some p =>
           if c.slotA.isNone && c.slotP.isNone then
             if p.cfg.dyn then { st2 with peers := perase s.addr st2.peers } else st2.setCtx p.ctx {}
           else st2
       | none => st2) := by
  have hsid : s.sid = sid := (find_sid h).2
  unfold disconnect afterApply
  simp only [h, hsid, St.setCtx]
  cases hl : plookup s.addr st.peers with
  | none => rfl
  | some p =>
    simp only
    by_cases a : (((st.ctx s.ctx).set s.role none).slotA.isNone && ((st.ctx s.ctx).set s.role none).slotP.isNone) = true
    · by_cases b : p.cfg.dyn = true
      · simp only [a, b, if_true]
      · simp only [a, b, if_true, Bool.false_eq_true, if_false]
    · simp only [a, Bool.false_eq_true, if_false]

theorem disconnect_none (st : St) (sid : Nat) (reply : Option Nat) (h : st.live.find? (fun x => x.sid = sid) = none) :
    disconnect st sid reply = (st, .noSession) := by
  simp [disconnect, h]

theorem inv_disconnect (st : St) (sid : Nat) (reply : Option Nat) (hi : Inv st) : Inv (disconnect st sid reply).1 := by
  cases hf : st.live.find? (fun x => x.sid = sid) with
  | none => rw [disconnect_none st sid reply hf]; exact hi
  | some s =>
    obtain ⟨hs, hsid⟩ := find_sid hf
    rw [disconnect_eq st sid reply s hf]
    have hA := inv_afterApply st s hi.core hs
    -- the sessions that remain
    have hrem : ∀ x ∈ st.live, x.sid ≠ s.sid → x ∈ (afterApply st s).live := by
      intro x hx hne
      show x ∈ st.live.filter fun y => y.sid != s.sid
      rw [List.mem_filter]; exact ⟨hx, by simpa using hne⟩
    -- dynamic neighbours still have a connection, unless it is the one removed below
    have hdynA : ∀ e ∈ st.peers, e.2.cfg.dyn = true →
        (∃ x ∈ (afterApply st s).live, x.ctx = e.2.ctx) ∨
        (e.1 = s.addr ∧ ((st.ctx s.ctx).set s.role none).slotA.isNone ∧ ((st.ctx s.ctx).set s.role none).slotP.isNone) := by
      intro e he hd
      obtain ⟨x, hx, hxc⟩ := hi.dyn e he hd
      by_cases hxs : x.sid = s.sid
      · have : x = s := eq_of_sid hi.core.sids hx hs hxs
        subst this
        have haddr := hi.core.owner x hx e he hxc
        -- another slot of this context still occupied?
        cases hA' : ((st.ctx x.ctx).set x.role none).slotA with
        | some sidA =>
          left
          have hg : ((st.ctx x.ctx).set x.role none).get .active = some sidA := hA'
          rw [get_set] at hg
          by_cases hr : Role.active = x.role
          · simp [hr] at hg
          · simp only [hr, if_false] at hg
            obtain ⟨y, hy, h1, h2, h3⟩ := hi.core.slotLive x.ctx .active sidA hg
            refine ⟨y, hrem y hy ?_, by rw [h2, hxc]⟩
            intro e'
            have := eq_of_sid hi.core.sids hy hx e'
            subst this; exact hr h3.symm
        | none =>
          cases hP' : ((st.ctx x.ctx).set x.role none).slotP with
          | some sidP =>
            left
            have hg : ((st.ctx x.ctx).set x.role none).get .passive = some sidP := hP'
            rw [get_set] at hg
            by_cases hr : Role.passive = x.role
            · simp [hr] at hg
            · simp only [hr, if_false] at hg
              obtain ⟨y, hy, h1, h2, h3⟩ := hi.core.slotLive x.ctx .passive sidP hg
              refine ⟨y, hrem y hy ?_, by rw [h2, hxc]⟩
              intro e'
              have := eq_of_sid hi.core.sids hy hx e'
              subst this; exact hr h3.symm
          | none => right; exact ⟨haddr.symm, by simp, by simp⟩
      · left; exact ⟨x, hrem x hx hxs, hxc⟩
    simp only
    have hpeersA : (afterApply st s).peers = st.peers := rfl
    cases hl : plookup s.addr (afterApply st s).peers with
    | none =>
      simp only
      refine ⟨hA, ?_⟩
      intro e he hd
      rcases hdynA e he hd with h | ⟨h1, _, _⟩
      · exact h
      · exfalso
        have := (plookup_none s.addr st.peers).mp (by rw [← hpeersA]; exact hl)
        exact this (List.mem_map.mpr ⟨e, he, h1⟩)
    | some p =>
      simp only
      have hpm : (s.addr, p) ∈ st.peers := plookup_mem _ _ _ (by rw [← hpeersA]; exact hl)
      by_cases hno : (((st.ctx s.ctx).set s.role none).slotA.isNone && ((st.ctx s.ctx).set s.role none).slotP.isNone) = true
      · simp only [hno, if_true]
        by_cases hdp : p.cfg.dyn = true
        · simp only [hdp, if_true]
          constructor
          · apply invCore_shrink _ _ hA
            · intro e he
              have : e ∈ perase s.addr st.peers := he
              exact ⟨e, ((mem_perase _ _ _).mp this).1, rfl, rfl, rfl⟩
            · exact perase_nodup _ _ hi.core.keys
            · intro x hx; exact ⟨x, hx, rfl⟩
            · exact hA.sids
            · exact Nat.le_refl _
            · rfl
            · exact hA.slotLive
          · intro e he hd
            have hm : e ∈ perase s.addr st.peers := he
            obtain ⟨hm1, hm2⟩ := (mem_perase _ _ _).mp hm
            rcases hdynA e hm1 hd with h | ⟨h1, _, _⟩
            · exact h
            · exact absurd h1 hm2
        · simp only [hdp, Bool.false_eq_true, if_false]
          have hpl := hA.ctxLt (s.addr, p) hpm
          constructor
          · apply invCore_shrink _ _ hA
            · intro e he; exact ⟨e, he, rfl, rfl, rfl⟩
            · exact hA.keys
            · intro x hx; exact ⟨x, hx, rfl⟩
            · exact hA.sids
            · exact Nat.le_refl _
            · simp [St.setCtx]
            · intro j r sid' h
              rw [ctx_setCtx _ _ _ _ hpl] at h
              by_cases hj : j = p.ctx
              · simp [hj, Ctx.get] at h; cases r <;> simp at h
              · simp only [hj, if_false] at h; exact hA.slotLive j r sid' h
          · intro e he hd
            have he' : e ∈ st.peers := he
            rcases hdynA e he' hd with h | ⟨h1, _, _⟩
            · exact h
            · exfalso
              have : e = (s.addr, p) := eq_of_key hi.core.keys he' hpm h1
              rw [this] at hd; exact hdp hd
      · simp only [hno, Bool.false_eq_true, if_false]
        refine ⟨hA, ?_⟩
        intro e he hd
        rcases hdynA e he hd with h | ⟨_, h2, h3⟩
        · exact h
        · exfalso; apply hno; simp [h2, h3]


/-! ### administrative operations -/

theorem inv_setAdmin (st : St) (a : Ip) (p : Peer) (b : Bool) (hi : Inv st) (hm : (a, p) ∈ st.peers) :
    Inv { st with peers := pset a { p with adminDown := b } st.peers } := by
  have hmem : ∀ e ∈ pset a { p with adminDown := b } st.peers,
      ∃ e0 ∈ st.peers, e0.1 = e.1 ∧ e0.2.ctx = e.2.ctx ∧ e0.2.cfg = e.2.cfg := by
    intro e he
    rcases (mem_pset a _ e st.peers hi.core.keys).mp he with ⟨h1, _⟩ | ⟨h1, _⟩
    · exact ⟨e, h1, rfl, rfl, rfl⟩
    · exact ⟨(a, p), hm, by rw [h1], by rw [h1], by rw [h1]⟩
  constructor
  · apply invCore_shrink st _ hi.core
    · intro e he
      obtain ⟨e0, h0, h1, h2, h3⟩ := hmem e he
      exact ⟨e0, h0, h1, h2, by rw [h3]⟩
    · show ((pset a _ st.peers).map (·.1)).Nodup
      rw [keys_pset]; exact hi.core.keys
    · intro x hx; exact ⟨x, hx, rfl⟩
    · exact hi.core.sids
    · exact Nat.le_refl _
    · rfl
    · exact hi.core.slotLive
  · intro e he hd
    obtain ⟨e0, h0, _, h2, h3⟩ := hmem e he
    obtain ⟨x, hx, hxc⟩ := hi.dyn e0 h0 (by rw [h3]; exact hd)
    exact ⟨x, hx, by rw [hxc, h2]⟩

theorem inv_erase (st : St) (a : Ip) (hi : Inv st) : Inv { st with peers := perase a st.peers } := by
  constructor
  · apply invCore_shrink st _ hi.core
    · intro e he; exact ⟨e, ((mem_perase _ _ _).mp he).1, rfl, rfl, rfl⟩
    · exact perase_nodup _ _ hi.core.keys
    · intro x hx; exact ⟨x, hx, rfl⟩
    · exact hi.core.sids
    · exact Nat.le_refl _
    · rfl
    · exact hi.core.slotLive
  · intro e he hd
    exact hi.dyn e ((mem_perase _ _ _).mp he).1 hd

theorem inv_forceDown' (st : St) (c : Nat) (d : Doom) (hi : Inv st) : Inv (forceDown st c d) :=
  ⟨inv_forceDown st c d hi.core, dyn_forceDown st c d hi.dyn⟩

/-! ### accept_connection -/

theorem build_dyn (asn : Nat) (confed : Option (Nat × List Nat)) (p : Params) :
    (build (confedAdjust asn confed p) asn).dyn = p.dyn := by
  cases confed with
  | none => rfl
  | some c =>
    obtain ⟨id, m⟩ := c
    simp only [confedAdjust, build]
    repeat' split
    all_goals rfl

theorem inv_acceptDynamic (st st1 : St) (g : Group) (a : Ip) (role : Role) (p : Peer) (hi : Inv st)
    (h1 : addPeer st (paramsOfGroup g a) = some st1) (h2 : plookup a st1.peers = some p) :
    Inv (openSession st1 a p role).1 := by
  have hd : (newPeer st (paramsOfGroup g a)).2.cfg.dyn = true := by
    simp only [newPeer]; rw [build_dyn]; rfl
  have hc1 := inv_addPeer st _ st1 h1 hi.core (Or.inl hd)
  have hm := plookup_mem a p st1.peers h2
  refine ⟨inv_openSession st1 a p role hc1 hm, ?_⟩
  obtain ⟨hnone, rfl⟩ := addPeer_eq st _ st1 h1
  obtain ⟨f1, _, _, _, _, _, _, s, f4, _, _, _, s4, _⟩ := openSession_fields
    { st with peers := st.peers ++ [newPeer st (paramsOfGroup g a)], ctxs := st.ctxs ++ [{}] } a p role
  intro e he hdy
  rw [f1] at he
  rw [f4]
  rcases List.mem_append.mp he with he | he
  · obtain ⟨x, hx, hxc⟩ := hi.dyn e he hdy
    exact ⟨x, by simp [show x ∈ st.live from hx], hxc⟩
  · have e1 : e = newPeer st (paramsOfGroup g a) := by simpa using he
    have hpa : (a, p) = e := by
      apply eq_of_key hc1.keys hm (by rw [e1]; simp)
      rw [e1]; rfl
    refine ⟨s, by simp, ?_⟩
    rw [s4, ← hpa]

theorem inv_acceptConnection (st : St) (a : Ip) (role : Role) (hi : Inv st) (st' : St) (r : Res) (b : Bool)
    (h : acceptConnection st a role = .ok (st', r, b)) : Inv st' := by
  unfold acceptConnection at h
  cases hl : plookup a st.peers with
  | some p =>
    simp only [hl] at h
    by_cases had : p.adminDown = true
    · simp only [had, if_true, Out.ok.injEq, Prod.mk.injEq] at h; rw [← h.1]; exact hi
    · simp only [had, Bool.false_eq_true, if_false] at h
      by_cases hs : ((st.ctx p.ctx).get role).isSome = true
      · simp only [hs, if_true, Out.ok.injEq, Prod.mk.injEq] at h; rw [← h.1]; exact hi
      · simp only [hs, Bool.false_eq_true, if_false, Out.ok.injEq, Prod.mk.injEq] at h
        rw [← h.1]
        exact ⟨inv_openSession st a p role hi.core (plookup_mem _ _ _ hl), dyn_openSession st a p role hi.dyn⟩
  | none =>
    simp only [hl, bind, Bind.bind] at h
    cases hm : matching st.groups a with
    | panic => simp [hm] at h
    | ok cands =>
      simp only [hm] at h
      match cands, h with
      | [], h => simp only [pure, Out.ok.injEq, Prod.mk.injEq] at h; rw [← h.1]; exact hi
      | [g], h =>
        simp only at h
        cases h1 : addPeer st (paramsOfGroup g a) with
        | none => simp [h1] at h
        | some st1 =>
          simp only [h1] at h
          cases h2 : plookup a st1.peers with
          | none => simp [h2] at h
          | some p =>
            simp only [h2, pure, Out.ok.injEq, Prod.mk.injEq] at h
            rw [← h.1]
            exact inv_acceptDynamic st st1 g a role p hi h1 h2
      | _ :: _ :: _, h => simp only [pure, Out.ok.injEq, Prod.mk.injEq] at h; rw [← h.1]; exact hi

/-- every operation of a history preserves the invariant -/
theorem inv_step (st : St) (op : Op) (hi : Inv st) (st' : St) (r : Res) (b : Bool)
    (h : step st op = .ok (st', r, b)) : Inv st' := by
  cases op with
  | connect a role => exact inv_acceptConnection st a role hi st' r b h
  | disc sid =>
    simp only [step, Out.ok.injEq, Prod.mk.injEq] at h
    rw [← h.1]; exact inv_disconnect st sid none hi
  | discx sid asn hold =>
    simp only [step, Out.ok.injEq, Prod.mk.injEq] at h
    rw [← h.1]; exact inv_disconnect st sid (some asn) hi
  | enable a =>
    simp only [step, apiOp] at h
    cases hl : plookup a st.peers with
    | none => simp only [hl, Out.ok.injEq, Prod.mk.injEq] at h; rw [← h.1]; exact hi
    | some p =>
      simp only [hl, Out.ok.injEq, Prod.mk.injEq] at h; rw [← h.1]
      split
      · exact inv_setAdmin st a p false hi (plookup_mem _ _ _ hl)
      · exact hi
  | disable a =>
    simp only [step, apiOp] at h
    cases hl : plookup a st.peers with
    | none => simp only [hl, Out.ok.injEq, Prod.mk.injEq] at h; rw [← h.1]; exact hi
    | some p =>
      simp only [hl, Out.ok.injEq, Prod.mk.injEq] at h; rw [← h.1]
      split
      · exact inv_forceDown' _ _ _ (inv_setAdmin st a p true hi (plookup_mem _ _ _ hl))
      · exact hi
  | shutdown a =>
    simp only [step, apiOp] at h
    cases hl : plookup a st.peers with
    | none => simp only [hl, Out.ok.injEq, Prod.mk.injEq] at h; rw [← h.1]; exact hi
    | some p => simp only [hl, Out.ok.injEq, Prod.mk.injEq] at h; rw [← h.1]; exact inv_forceDown' _ _ _ hi
  | reset a =>
    simp only [step, apiOp] at h
    cases hl : plookup a st.peers with
    | none => simp only [hl, Out.ok.injEq, Prod.mk.injEq] at h; rw [← h.1]; exact hi
    | some p => simp only [hl, Out.ok.injEq, Prod.mk.injEq] at h; rw [← h.1]; exact inv_forceDown' _ _ _ hi
  | delete a =>
    simp only [step, apiOp] at h
    cases hl : plookup a st.peers with
    | none => simp only [hl, Out.ok.injEq, Prod.mk.injEq] at h; rw [← h.1]; exact hi
    | some p =>
      simp only [hl, Out.ok.injEq, Prod.mk.injEq] at h; rw [← h.1]
      exact inv_forceDown' _ _ _ (inv_erase st a hi)

/-! ### configuration loading -/

theorem inv_init (g : GlobalCfg) (groups : List Group) : Inv (initSt g groups) := by
  refine ⟨⟨by simp [initSt], by simp [initSt], by simp [initSt], ?_, by simp [initSt], by simp [initSt],
    by simp [initSt], by simp [initSt], by simp [initSt]⟩, by simp [DynLive, initSt]⟩
  intro c r sid h
  simp [initSt, St.ctx, Ctx.get] at h
  cases r <;> simp at h

theorem setup_inv : ∀ (pcs : List PeerCase) (st : St), Inv st → st.live = [] →
    (∀ e ∈ st.peers, e.2.cfg.dyn = false) → (∀ pc ∈ pcs, pc.params.dyn = false) →
    Inv (setupPeers st pcs).1 ∧ (setupPeers st pcs).1.live = [] ∧ (∀ e ∈ (setupPeers st pcs).1.peers, e.2.cfg.dyn = false)
  | [], st, hi, hl, hd, _ => ⟨hi, hl, hd⟩
  | pc :: rest, st, hi, hl, hd, hdyn => by
    simp only [setupPeers]
    cases ha : addPeer st (resolveParams st.groups pc) with
    | none => exact setup_inv rest st hi hl hd (fun pc hpc => hdyn pc (List.mem_cons_of_mem _ hpc))
    | some st' =>
      simp only
      obtain ⟨_, heq⟩ := addPeer_eq st _ st' ha
      have hc := inv_addPeer st _ st' ha hi.core (Or.inr hl)
      have hl' : st'.live = [] := by rw [heq]; exact hl
      have hpd : (resolveParams st.groups pc).dyn = false := by
        unfold resolveParams
        cases pc.group.bind (findGroup st.groups) with
        | none => exact hdyn pc (by simp)
        | some g => simp only [applyPeerGroup]; exact hdyn pc (by simp)
      have hd' : ∀ e ∈ st'.peers, e.2.cfg.dyn = false := by
        intro e he
        rw [heq] at he
        rcases List.mem_append.mp he with he | he
        · exact hd e he
        · have : e = newPeer st (resolveParams st.groups pc) := by simpa using he
          rw [this]; simp only [newPeer]; rw [build_dyn]; exact hpd
      have hi' : Inv st' := ⟨hc, by
        intro e he hdy
        rw [hd' e he] at hdy; cases hdy⟩
      exact setup_inv rest st' hi' hl' hd' (fun pc hpc => hdyn pc (List.mem_cons_of_mem _ hpc))

end Rbgp.Accept.ProofsHist
