/- The reference checker accepts every negotiation the model computes (C16 master theorem, part 1). -/
import Rbgp.Accept.Proofs
namespace Rbgp.Accept.ProofsNeg
open Rbgp.Accept Rbgp.Accept.Proofs

theorem all_of_forall {α} (l : List α) (p : α → Bool) (h : ∀ x, p x = true) : l.all p = true := by
  simp [List.all_eq_true, h]

/-! ### reading the model's codec through the spec's accessors -/

theorem famsOf_negotiate (l r : List Cap) : Spec.famsOf (negotiate l r) = commonFams l r :=
  negotiate_fams_map l r

theorem stOf_negotiate (l r : List Cap) (f : Family) :
    Spec.stOf (negotiate l r) f = if f ∈ commonFams l r then some (famStateOf l r f) else none :=
  state_eq l r f

theorem rxOf_negotiate (l r : List Cap) (f : Family) :
    Spec.rxOf (negotiate l r) f =
      (decide (f ∈ commonFams l r) && (bit0 (lastMode f (addPathTuples l)) && bit1 (lastMode f (addPathTuples r)))) := by
  unfold Spec.rxOf; rw [stOf_negotiate]
  by_cases h : f ∈ commonFams l r <;> simp [h, famStateOf]

theorem txOf_negotiate (l r : List Cap) (f : Family) :
    Spec.txOf (negotiate l r) f =
      (decide (f ∈ commonFams l r) && (bit1 (lastMode f (addPathTuples l)) && bit0 (lastMode f (addPathTuples r)))) := by
  unfold Spec.txOf; rw [stOf_negotiate]
  by_cases h : f ∈ commonFams l r <;> simp [h, famStateOf]

theorem enhOf_negotiate (l r : List Cap) (f : Family) :
    Spec.enhOf (negotiate l r) f = (decide (f ∈ commonFams l r) && (enhAdv f l && enhAdv f r)) := by
  unfold Spec.enhOf; rw [stOf_negotiate]
  by_cases h : f ∈ commonFams l r <;> simp [h, famStateOf]

theorem tx_eq (c : Codec) (f : Family) : c.tx f = Spec.txOf c f := rfl

theorem advMp_iff (v : List Cap) (f : Family) : Spec.advMp v f = true ↔ Cap.mp f ∈ v := by
  simp only [Spec.advMp, List.any_eq_true]
  constructor
  · rintro ⟨c, hc, h⟩; cases c <;> simp at h; subst h; exact hc
  · intro h; exact ⟨_, h, by simp⟩

theorem contains_common (l r : List Cap) (f : Family) :
    (commonFams l r).contains f = (Spec.advMp l f && Spec.advMp r f) := by
  rw [Bool.eq_iff_iff]
  simp only [List.contains_iff_mem, Bool.and_eq_true, advMp_iff, mem_commonFams, mem_mpFams]

/-! ### add-path modes -/

theorem modesFor_eq (v : List Cap) (f : Family) :
    Spec.modesFor v f = ((addPathTuples v).filter (fun t => t.1 = f)).map (·.2) := by
  induction v with
  | nil => simp [Spec.modesFor, addPathTuples]
  | cons c rest ih =>
    simp only [Spec.modesFor, addPathTuples, List.flatMap_cons, List.filter_append, List.map_append] at ih ⊢
    rw [ih]
    cases c <;> simp

theorem someMode_iff (v : List Cap) (f : Family) (p : Nat → Bool) :
    Spec.someMode v f p = true ↔ ∃ m, (f, m) ∈ addPathTuples v ∧ p m = true := by
  simp only [Spec.someMode, modesFor_eq, List.any_eq_true, List.mem_map, List.mem_filter, decide_eq_true_eq]
  constructor
  · rintro ⟨m, ⟨⟨g, m'⟩, ⟨hm, hg⟩, rfl⟩, hp⟩
    simp at hg; subst hg; exact ⟨m', hm, hp⟩
  · rintro ⟨m, hm, hp⟩; exact ⟨m, ⟨(f, m), ⟨hm, rfl⟩, rfl⟩, hp⟩

theorem allModes_iff (v : List Cap) (f : Family) (p : Nat → Bool) :
    Spec.allModes v f p = true ↔
      (∃ x ∈ addPathTuples v, x.1 = f) ∧ ∀ x ∈ addPathTuples v, x.1 = f → p x.2 = true := by
  simp only [Spec.allModes, modesFor_eq, Bool.and_eq_true, Bool.not_eq_true', List.isEmpty_eq_false_iff,
    List.all_eq_true, List.mem_map, List.mem_filter, decide_eq_true_eq]
  constructor
  · rintro ⟨hne, hall⟩
    refine ⟨?_, ?_⟩
    · cases h : (List.filter (fun t => decide (t.1 = f)) (addPathTuples v)) with
      | nil => simp [h] at hne
      | cons x t =>
        have : x ∈ List.filter (fun t => decide (t.1 = f)) (addPathTuples v) := by rw [h]; simp
        rw [List.mem_filter] at this
        exact ⟨x, this.1, by simpa using this.2⟩
    · intro x hx hf; exact hall x.2 ⟨x, ⟨hx, hf⟩, rfl⟩
  · rintro ⟨⟨x, hx, hf⟩, hall⟩
    refine ⟨?_, ?_⟩
    · intro h
      have : x ∈ List.filter (fun t => decide (t.1 = f)) (addPathTuples v) := by
        rw [List.mem_filter]; exact ⟨hx, by simpa using hf⟩
      simp at h
      exact absurd this (by
        intro hm
        have := h x.1 x.2 hx
        exact this hf)
    · rintro m ⟨y, ⟨hy, hyf⟩, rfl⟩; exact hall y hy hyf

/-- when the side lists the family at all, the mode in force is one it listed -/
theorem foldl_mem_of_exists (f : Family) : ∀ (t : List (Family × Nat)) (init : Nat), (∃ x ∈ t, x.1 = f) →
    (f, List.foldl (fun acc t => if t.1 = f then t.2 else acc) init t) ∈ t
  | [], _, ⟨x, hx, _⟩ => by simp at hx
  | a :: rest, init, hne => by
    simp only [List.foldl_cons]
    by_cases h : a.1 = f
    · simp only [h, if_true]
      rcases lastMode_mem f rest a.2 with e | m
      · rw [e]
        have : a = (f, a.2) := by cases a; simp_all
        rw [← this]; exact List.mem_cons_self
      · exact List.mem_cons_of_mem _ m
    · simp only [h, if_false]
      rcases hne with ⟨x, hx, hxf⟩
      rcases List.mem_cons.mp hx with rfl | hx
      · exact absurd hxf h
      · exact List.mem_cons_of_mem _ (foldl_mem_of_exists f rest init ⟨x, hx, hxf⟩)

theorem bit_of_lastMode (f : Family) (t : List (Family × Nat)) (p : Nat → Bool) (hp0 : p 0 = false)
    (h : p (lastMode f t) = true) : ∃ m, (f, m) ∈ t ∧ p m = true := by
  rcases lastMode_mem f t 0 with e | m
  · unfold lastMode at h; rw [e, hp0] at h; cases h
  · exact ⟨_, m, h⟩

theorem lastMode_of_all (f : Family) (t : List (Family × Nat)) (p : Nat → Bool)
    (hne : ∃ x ∈ t, x.1 = f) (hall : ∀ x ∈ t, x.1 = f → p x.2 = true) : p (lastMode f t) = true :=
  hall _ (foldl_mem_of_exists f t 0 hne) rfl

/-! ### flags -/

theorem advExtMsg_eq (v : List Cap) : Spec.advExtMsg v = hasExtMsg v := rfl
theorem advAs4_eq (v : List Cap) : Spec.advAs4 v = hasAs4 v := rfl

theorem advEnh_eq (v : List Cap) (f : Family) : Spec.advEnh v f = enhAdv f v := by
  unfold Spec.advEnh enhAdv
  congr 1; funext c
  cases c <;> simp
  rename_i l
  congr 1; funext t
  simp only [famAfi, AFI_IP, AFI_IP6]
  by_cases h1 : t.1 = f <;> by_cases h2 : t.1 / 65536 = 1 <;> by_cases h3 : t.2 = 2 <;> simp [h1, h2, h3]

/-! ### send-max -/

theorem nodupKeys_of_keys (l : List (Nat × Nat)) (h : Keys l) : Spec.nodupKeys l = true := by
  unfold Spec.nodupKeys
  rw [List.all_eq_true]
  intro e he
  simp only [decide_eq_true_eq]
  induction l with
  | nil => simp at he
  | cons a t ih =>
    unfold Keys at h
    simp only [List.map_cons] at h
    have hp := List.pairwise_cons.mp h
    simp only [List.filter_cons]
    rcases List.mem_cons.mp he with rfl | he'
    · simp only [decide_true, if_true, List.length_cons]
      have : List.filter (fun x => decide (x.1 = e.1)) t = [] := by
        apply List.filter_eq_nil_iff.mpr
        intro x hx; simp
        have := hp.1 x.1 (List.mem_map.mpr ⟨x, hx, rfl⟩); omega
      simp [this]
    · have hne : a.1 ≠ e.1 := by
        have := hp.1 e.1 (List.mem_map.mpr ⟨e, he', rfl⟩); omega
      simp only [hne, decide_false, Bool.false_eq_true, if_false]
      exact ih hp.2 he'

theorem emaxOk_model (sm : List (Family × Nat)) (l r : List Cap) :
    Spec.emaxOk sm (negotiate l r) (effectiveMax sm l r) = true := by
  unfold Spec.emaxOk
  simp only [Bool.and_eq_true]
  refine ⟨⟨nodupKeys_of_keys _ (effectiveMax_keys sm l r), ?_⟩, ?_⟩
  · rw [List.all_eq_true]; intro e he
    have := (mem_effectiveMax sm l r e.1 e.2).mp (by simpa using he)
    simp only [Bool.and_eq_true, decide_eq_true_eq]
    exact ⟨this.1, this.2⟩
  · rw [List.all_eq_true]; intro e he
    simp only [Spec.imp, Bool.or_eq_true, Bool.not_eq_true', List.any_eq_true, decide_eq_true_eq]
    by_cases ht : Spec.txOf (negotiate l r) e.1 = true
    · right
      -- the last configured value for that family is present
      have hlast : ∃ n, Spec.lastOf sm e.1 = some n := by
        unfold Spec.lastOf
        have : ∀ (t : List (Nat × Nat)) (init : Option Nat), ((∃ x ∈ t, x.1 = e.1) ∨ init.isSome) →
            ∃ n, List.foldl (fun acc x => if x.1 = e.1 then some x.2 else acc) init t = some n := by
          intro t
          induction t with
          | nil => intro init h; rcases h with ⟨x, hx, _⟩ | h
                   · simp at hx
                   · cases init <;> simp_all
          | cons a rest ih =>
            intro init h
            simp only [List.foldl_cons]
            apply ih
            by_cases ha : a.1 = e.1
            · right; simp [ha]
            · rcases h with ⟨x, hx, hxe⟩ | h
              · rcases List.mem_cons.mp hx with rfl | hx
                · exact absurd hxe ha
                · left; exact ⟨x, hx, hxe⟩
              · right; simp [ha, h]
        exact this sm none (Or.inl ⟨e, he, rfl⟩)
      obtain ⟨n, hn⟩ := hlast
      exact ⟨(e.1, n), (mem_effectiveMax sm l r e.1 n).mpr ⟨hn, ht⟩, rfl⟩
    · left; simpa using ht


/-! ### graceful restart -/

theorem sameSet_iff (a b : List Nat) : Spec.sameSet a b = true ↔ ∀ x, x ∈ a ↔ x ∈ b := by
  simp only [Spec.sameSet, Bool.and_eq_true, List.all_eq_true, List.contains_iff_mem]
  constructor
  · rintro ⟨h1, h2⟩ x; exact ⟨h1 x, h2 x⟩
  · intro h; exact ⟨fun x hx => (h x).mp hx, fun x hx => (h x).mpr hx⟩

theorem advGr_iff (v : List Cap) (f : Family) :
    Spec.advGr v f = true ↔ ∃ fl t fs, Cap.gr fl t fs ∈ v ∧ f ∈ fs.map (·.1) := by
  simp only [Spec.advGr, Spec.grCaps, List.any_eq_true, List.mem_filterMap, List.contains_iff_mem]
  constructor
  · rintro ⟨g, ⟨c, hc, hg⟩, hf⟩
    cases c <;> simp at hg
    rename_i fl t fs
    subst hg; exact ⟨fl, t, fs, hc, hf⟩
  · rintro ⟨fl, t, fs, hc, hf⟩; exact ⟨(fl, fs.map (·.1)), ⟨_, hc, rfl⟩, hf⟩

theorem mem_grFams (l r : List Cap) (f : Family) :
    f ∈ Spec.grFams (negotiateGr l r) ↔
      ∃ lf lt lfams pf pt pfams, firstGr l = some (lf, lt, lfams) ∧ firstGr r = some (pf, pt, pfams) ∧
        f ∈ lfams.map (·.1) ∧ f ∈ pfams.map (·.1) := by
  unfold negotiateGr
  cases hl : firstGr l with
  | none => simp [Spec.grFams]
  | some a =>
    obtain ⟨lf, lt, lfams⟩ := a
    cases hr : firstGr r with
    | none => simp [Spec.grFams]
    | some b =>
      obtain ⟨pf, pt, pfams⟩ := b
      simp only
      split
      · rename_i hemp
        simp only [Spec.grFams, List.not_mem_nil, false_iff]
        rintro ⟨_, _, _, _, _, _, h1, h2, h3, h4⟩
        cases h1; cases h2
        have := (mem_negGr_fams lfams pfams f).mpr ⟨h3, h4⟩
        rw [List.isEmpty_iff] at hemp; rw [hemp] at this; simp at this
      · simp only [Spec.grFams, mem_negGr_fams]
        constructor
        · intro h; exact ⟨_, _, _, _, _, _, rfl, rfl, h.1, h.2⟩
        · rintro ⟨_, _, _, _, _, _, h1, h2, h3, h4⟩; cases h1; cases h2; exact ⟨h3, h4⟩

theorem gr_without_both (l r : List Cap) :
    (Spec.grFams (negotiateGr l r)).all (fun f => Spec.advGr l f && Spec.advGr r f) = true := by
  rw [List.all_eq_true]; intro f hf
  obtain ⟨lf, lt, lfams, pf, pt, pfams, h1, h2, h3, h4⟩ := (mem_grFams l r f).mp hf
  simp only [Bool.and_eq_true, advGr_iff]
  exact ⟨⟨_, _, _, firstGr_mem _ _ _ _ h1, h3⟩, ⟨_, _, _, firstGr_mem _ _ _ _ h2, h4⟩⟩

/-- a side with exactly one GR capability: that capability is the one read -/
theorem grCaps_single : ∀ (v : List Cap), (Spec.grCaps v).length = 1 →
    ∃ fl t fs, firstGr v = some (fl, t, fs) ∧ ∀ fl' t' fs', Cap.gr fl' t' fs' ∈ v → fs' = fs
  | [], h => by simp [Spec.grCaps] at h
  | c :: rest, h => by
    cases c with
    | gr fl t fs =>
      refine ⟨fl, t, fs, rfl, ?_⟩
      have hrest : Spec.grCaps rest = [] := by
        simp [Spec.grCaps] at h ⊢
        simpa [Spec.grCaps] using h
      intro fl' t' fs' hm
      rcases List.mem_cons.mp hm with e | hm
      · cases e; rfl
      · exfalso
        have : (fl', fs'.map (·.1)) ∈ Spec.grCaps rest := by
          simp only [Spec.grCaps, List.mem_filterMap]; exact ⟨_, hm, rfl⟩
        rw [hrest] at this; simp at this
    | _ =>
      have h' : (Spec.grCaps rest).length = 1 := by simpa [Spec.grCaps] using h
      obtain ⟨fl, t, fs, h1, h2⟩ := grCaps_single rest h'
      refine ⟨fl, t, fs, by simpa [firstGr] using h1, ?_⟩
      intro fl' t' fs' hm
      rcases List.mem_cons.mp hm with e | hm
      · cases e
      · exact h2 _ _ _ hm

theorem gr_missing (l r : List Cap) (all : List Family) :
    Spec.imp ((Spec.grCaps l).length = 1 && (Spec.grCaps r).length = 1)
      (all.all (fun f => Spec.imp (Spec.advGr l f && Spec.advGr r f) ((Spec.grFams (negotiateGr l r)).contains f))) = true := by
  unfold Spec.imp
  by_cases h : ((Spec.grCaps l).length = 1 ∧ (Spec.grCaps r).length = 1)
  · simp only [h, decide_true, Bool.and_self, Bool.not_true, Bool.false_or]
    apply all_of_forall
    intro f
    obtain ⟨lf, lt, lfams, h1, hu1⟩ := grCaps_single l h.1
    obtain ⟨pf, pt, pfams, h2, hu2⟩ := grCaps_single r h.2
    by_cases ha : (Spec.advGr l f && Spec.advGr r f) = true
    · simp only [ha, Bool.not_true, Bool.false_or, List.contains_iff_mem]
      simp only [Bool.and_eq_true, advGr_iff] at ha
      obtain ⟨⟨_, _, fs1, m1, f1⟩, ⟨_, _, fs2, m2, f2⟩⟩ := ha
      rw [hu1 _ _ _ m1] at f1; rw [hu2 _ _ _ m2] at f2
      exact (mem_grFams l r f).mpr ⟨_, _, _, _, _, _, h1, h2, f1, f2⟩
    · simp [ha]
  · have : ((decide ((Spec.grCaps l).length = 1)) && (decide ((Spec.grCaps r).length = 1))) = false := by
      simp only [Bool.and_eq_false_imp, decide_eq_true_eq, decide_eq_false_iff_not]
      intro h1 h2; exact h ⟨h1, h2⟩
    simp [this]

theorem gr_sym_clause (l r : List Cap) :
    ((negotiateGr l r).isSome == (negotiateGr r l).isSome
      && Spec.sameSet (Spec.grFams (negotiateGr l r)) (Spec.grFams (negotiateGr r l))
      && (negotiateGr l r).map (·.notif) == (negotiateGr r l).map (·.notif)) = true := by
  obtain ⟨h1, h2, h3⟩ := gr_symmetric l r
  simp only [Bool.and_eq_true, beq_iff_eq, sameSet_iff]
  exact ⟨⟨h1, h2⟩, h3⟩


/-! ### long-lived graceful restart -/

theorem firstLlgr_mem (v : List Cap) (lf : List (Family × Nat × Nat)) :
    firstLlgr v = some lf → Cap.llgr lf ∈ v := by
  induction v with
  | nil => simp [firstLlgr]
  | cons c rest ih =>
    intro h
    cases c with
    | llgr a =>
      simp only [firstLlgr, Option.some.injEq] at h
      subst h; exact List.mem_cons_self
    | _ => exact List.mem_cons_of_mem _ (ih (by simpa [firstLlgr] using h))

theorem mem_llgrTuples (v : List Cap) (e : Family × Nat) :
    e ∈ Spec.llgrTuples v ↔ ∃ lf, Cap.llgr lf ∈ v ∧ ∃ x ∈ lf, (x.1, x.2.2) = e := by
  simp only [Spec.llgrTuples, List.mem_flatMap]
  constructor
  · rintro ⟨c, hc, h⟩
    cases c <;> simp at h
    rename_i lf
    obtain ⟨a, b, t, hx, rfl⟩ := h
    exact ⟨lf, hc, (a, b, t), hx, rfl⟩
  · rintro ⟨lf, hc, x, hx, rfl⟩
    exact ⟨_, hc, by simp; exact ⟨x.2.1, by simpa using hx⟩⟩

theorem advLlgr_iff (v : List Cap) (f : Family) :
    Spec.advLlgr v f = true ↔ ∃ lf, Cap.llgr lf ∈ v ∧ ∃ x ∈ lf, x.1 = f := by
  simp only [Spec.advLlgr, List.any_eq_true, decide_eq_true_eq]
  constructor
  · rintro ⟨e, he, rfl⟩
    obtain ⟨lf, hc, x, hx, rfl⟩ := (mem_llgrTuples v e).mp he
    exact ⟨lf, hc, x, hx, rfl⟩
  · rintro ⟨lf, hc, x, hx, rfl⟩
    exact ⟨(x.1, x.2.2), (mem_llgrTuples v _).mpr ⟨lf, hc, x, hx, rfl⟩, rfl⟩

theorem mem_firstTuples (e : Family × Nat × Nat) : ∀ (l : List (Family × Nat × Nat)) (seen : List Family),
    e ∈ firstTuples l seen ↔ (e.1 ∉ seen ∧ l.find? (fun x => x.1 = e.1) = some e)
  | [], seen => by simp [firstTuples]
  | a :: t, seen => by
    simp only [firstTuples, List.find?_cons]
    by_cases hs : seen.contains a.1 = true
    · simp only [hs, if_true, mem_firstTuples e t seen]
      have hs' : a.1 ∈ seen := by simpa using hs
      constructor
      · rintro ⟨h1, h2⟩
        have : a.1 ≠ e.1 := fun h => h1 (h ▸ hs')
        simp [this, h1, h2]
      · rintro ⟨h1, h2⟩
        have : a.1 ≠ e.1 := fun h => h1 (h ▸ hs')
        simp only [this, decide_false] at h2
        exact ⟨h1, h2⟩
    · have hs' : a.1 ∉ seen := by simpa using hs
      simp only [hs, Bool.false_eq_true, if_false, List.mem_cons, mem_firstTuples e t (a.1 :: seen), not_or]
      by_cases ha : a.1 = e.1
      · simp only [ha, decide_true, Option.some.injEq]
        constructor
        · rintro (h | ⟨⟨h, _⟩, _⟩)
          · subst h; exact ⟨hs', rfl⟩
          · exact absurd trivial h
        · rintro ⟨_, h⟩; left; exact h.symm
      · simp only [ha, decide_false]
        constructor
        · rintro (h | ⟨⟨_, h1⟩, h2⟩)
          · subst h; exact absurd rfl ha
          · exact ⟨h1, h2⟩
        · rintro ⟨h1, h2⟩; right; exact ⟨⟨fun h => ha h.symm, h1⟩, h2⟩

/-- what `negotiate_llgr` puts into force: the family is listed by both sides and the stale time
    taken from the first tuple of each side (the peer's, or ours when the peer's is zero) is non-zero -/
theorem mem_llgrFams (l r : List Cap) (f : Family) :
    f ∈ Spec.llgrFams (negotiateLlgr l r) ↔
      ∃ lf pf, firstLlgr l = some lf ∧ firstLlgr r = some pf ∧
        ∃ e p, lf.find? (fun x => x.1 = f) = some e ∧ pf.find? (fun x => x.1 = f) = some p ∧
          (if p.2.2 > 0 then p.2.2 else e.2.2) ≠ 0 := by
  unfold negotiateLlgr
  cases hl : firstLlgr l with
  | none => simp [Spec.llgrFams]
  | some lf =>
    cases hr : firstLlgr r with
    | none => simp [Spec.llgrFams]
    | some pf =>
      simp only
      have key : ∀ x, x ∈ ((firstTuples lf []).filterMap (llgrEntry pf)).map (·.1) ↔
          ∃ e p, lf.find? (fun y => y.1 = x) = some e ∧ pf.find? (fun y => y.1 = x) = some p ∧
            (if p.2.2 > 0 then p.2.2 else e.2.2) ≠ 0 := by
        intro x
        simp only [List.mem_map, List.mem_filterMap, llgrEntry]
        constructor
        · rintro ⟨y, ⟨e, he, hy⟩, rfl⟩
          have hfe := ((mem_firstTuples e lf []).mp he).2
          cases hf : pf.find? (fun p => p.1 = e.1) with
          | none => simp [hf] at hy
          | some p =>
            simp only [hf] at hy
            have hpe : p.1 = e.1 := by simpa using List.find?_some hf
            by_cases hz : (if p.2.2 > 0 then p.2.2 else e.2.2) = 0
            · simp [hz] at hy
            · simp only [hz, if_false, Option.some.injEq] at hy
              subst hy
              simp only [hpe]
              exact ⟨e, p, hfe, hf, hz⟩
        · rintro ⟨e, p, hfe, hf, hne⟩
          have hex : e.1 = x := by simpa using List.find?_some hfe
          subst hex
          have hpe : p.1 = e.1 := by simpa using List.find?_some hf
          refine ⟨(p.1, if p.2.2 > 0 then p.2.2 else e.2.2), ⟨e, (mem_firstTuples e lf []).mpr ⟨by simp, hfe⟩, ?_⟩, hpe⟩
          simp only [hf]; simp [hne]
      split
      · rename_i hemp
        simp only [Spec.llgrFams, List.not_mem_nil, false_iff]
        rintro ⟨_, _, h1, h2, h⟩
        cases h1; cases h2
        have := (key f).mpr h
        rw [List.isEmpty_iff] at hemp; rw [hemp] at this; simp at this
      · simp only [Spec.llgrFams]
        rw [key]
        constructor
        · intro h; exact ⟨_, _, rfl, rfl, h⟩
        · rintro ⟨_, _, h1, h2, h⟩; cases h1; cases h2; exact h

theorem llgr_without_both (l r : List Cap) :
    (Spec.llgrFams (negotiateLlgr l r)).all (fun f => Spec.advLlgr l f && Spec.advLlgr r f) = true := by
  rw [List.all_eq_true]; intro f hf
  obtain ⟨lf, pf, h1, h2, e, p, hfe, hfp, _⟩ := (mem_llgrFams l r f).mp hf
  simp only [Bool.and_eq_true, advLlgr_iff]
  exact ⟨⟨lf, firstLlgr_mem _ _ h1, e, List.mem_of_find?_eq_some hfe, by simpa using List.find?_some hfe⟩,
    ⟨pf, firstLlgr_mem _ _ h2, p, List.mem_of_find?_eq_some hfp, by simpa using List.find?_some hfp⟩⟩

/-- no family is listed twice by this side (in any LLGR capability) -/
theorem uniq_of_not_dup (v : List Cap) (hd : Spec.llgrDup v = false) (lf : List (Family × Nat × Nat))
    (hm : Cap.llgr lf ∈ v) : ∀ e1 ∈ lf, ∀ e2 ∈ lf, e1.1 = e2.1 → (e1.1, e1.2.2) = (e2.1, e2.2.2) := by
  intro e1 h1 e2 h2 hf
  by_cases heq : (e1.1, e1.2.2) = (e2.1, e2.2.2)
  · exact heq
  · exfalso
    have m1 : (e1.1, e1.2.2) ∈ Spec.llgrTuples v := (mem_llgrTuples v _).mpr ⟨lf, hm, e1, h1, rfl⟩
    have m2 : (e2.1, e2.2.2) ∈ Spec.llgrTuples v := (mem_llgrTuples v _).mpr ⟨lf, hm, e2, h2, rfl⟩
    have hcount : Spec.llgrCount v e1.1 > 1 := by
      unfold Spec.llgrCount
      have f1 : (e1.1, e1.2.2) ∈ (Spec.llgrTuples v).filter (fun e => e.1 = e1.1) := by
        rw [List.mem_filter]; exact ⟨m1, by simp⟩
      have f2 : (e2.1, e2.2.2) ∈ (Spec.llgrTuples v).filter (fun e => e.1 = e1.1) := by
        rw [List.mem_filter]; exact ⟨m2, by simp [hf]⟩
      generalize (Spec.llgrTuples v).filter (fun e => e.1 = e1.1) = L at f1 f2
      match L, f1, f2 with
      | [], f1, _ => simp at f1
      | [x], f1, f2 => simp at f1 f2; rw [f1, f2] at heq; exact absurd rfl heq
      | _ :: _ :: _, _, _ => simp
    have : Spec.llgrDup v = true := by
      simp only [Spec.llgrDup, List.any_eq_true, decide_eq_true_eq]
      exact ⟨_, m1, hcount⟩
    rw [hd] at this; cases this

theorem find_of_mem (pf : List (Family × Nat × Nat)) (p : Family × Nat × Nat) (hp : p ∈ pf) :
    ∃ q, pf.find? (fun x => x.1 = p.1) = some q ∧ q ∈ pf ∧ q.1 = p.1 := by
  cases h : pf.find? (fun x => x.1 = p.1) with
  | none =>
    have := List.find?_eq_none.mp h p hp
    simp at this
  | some q =>
    exact ⟨q, rfl, List.mem_of_find?_eq_some h, by simpa using List.find?_some h⟩

/-- **both ends put the same LLGR families into force** (whatever the lists look like) -/
theorem llgr_sym (l r : List Cap) (f : Family) :
    f ∈ Spec.llgrFams (negotiateLlgr l r) → f ∈ Spec.llgrFams (negotiateLlgr r l) := by
  intro hf
  obtain ⟨lf, pf, h1, h2, e, p, hfe, hfp, hne⟩ := (mem_llgrFams l r f).mp hf
  refine (mem_llgrFams r l f).mpr ⟨pf, lf, h2, h1, p, e, hfp, hfe, ?_⟩
  by_cases a : p.2.2 > 0 <;> by_cases b : e.2.2 > 0 <;> simp_all <;> omega

theorem llgr_sym_clause (l r : List Cap) :
    ((negotiateLlgr l r).isSome == (negotiateLlgr r l).isSome
      && Spec.sameSet (Spec.llgrFams (negotiateLlgr l r)) (Spec.llgrFams (negotiateLlgr r l))) = true := by
  have hiff : ∀ f, f ∈ Spec.llgrFams (negotiateLlgr l r) ↔ f ∈ Spec.llgrFams (negotiateLlgr r l) :=
    fun f => ⟨llgr_sym l r f, llgr_sym r l f⟩
  simp only [Bool.and_eq_true, beq_iff_eq, sameSet_iff]
  refine ⟨?_, hiff⟩
  -- in force at all iff some family is in force
  have some_iff : ∀ a b : List Cap, (negotiateLlgr a b).isSome = true ↔ ∃ f, f ∈ Spec.llgrFams (negotiateLlgr a b) := by
    intro a b
    unfold negotiateLlgr
    cases firstLlgr a with
    | none => simp [Spec.llgrFams]
    | some x =>
      cases firstLlgr b with
      | none => simp [Spec.llgrFams]
      | some y =>
        simp only
        split
        · simp [Spec.llgrFams]
        · rename_i hne
          simp only [Option.isSome_some, Spec.llgrFams, true_iff]
          cases hh : List.filterMap (llgrEntry y) (firstTuples x []) with
          | nil => simp [hh] at hne
          | cons z _ => exact ⟨z.1, by simp⟩
  rw [Bool.eq_iff_iff, some_iff, some_iff]
  exact ⟨fun ⟨f, h⟩ => ⟨f, (hiff f).mp h⟩, fun ⟨f, h⟩ => ⟨f, (hiff f).mpr h⟩⟩

theorem llgrCaps_single : ∀ (v : List Cap) (lf : List (Family × Nat × Nat)), Spec.llgrCaps v ≤ 1 →
    Cap.llgr lf ∈ v → firstLlgr v = some lf
  | [], _, _, h => by simp at h
  | c :: rest, lf, hc, hm => by
    cases c with
    | llgr a =>
      rcases List.mem_cons.mp hm with e | hm
      · cases e; rfl
      · exfalso
        have : Spec.llgrCaps rest ≥ 1 := by
          unfold Spec.llgrCaps
          apply List.length_pos_iff.mpr
          intro hnil
          have := List.filter_eq_nil_iff.mp hnil _ hm
          simp at this
        have h2 : Spec.llgrCaps (Cap.llgr a :: rest) = Spec.llgrCaps rest + 1 := by
          simp [Spec.llgrCaps]
        omega
    | _ =>
      have hc' : Spec.llgrCaps rest ≤ 1 := by simpa [Spec.llgrCaps] using hc
      rcases List.mem_cons.mp hm with e | hm
      · cases e
      · simpa [firstLlgr] using llgrCaps_single rest lf hc' hm

theorem llgrNonZero_iff (v : List Cap) (f : Family) :
    Spec.llgrNonZero v f = true ↔ ∃ lf, Cap.llgr lf ∈ v ∧ ∃ x ∈ lf, x.1 = f ∧ x.2.2 > 0 := by
  simp only [Spec.llgrNonZero, List.any_eq_true, Bool.and_eq_true, decide_eq_true_eq]
  constructor
  · rintro ⟨e, he, rfl, ht⟩
    obtain ⟨lf, hc, x, hx, rfl⟩ := (mem_llgrTuples v e).mp he
    exact ⟨lf, hc, x, hx, rfl, ht⟩
  · rintro ⟨lf, hc, x, hx, rfl, ht⟩
    exact ⟨(x.1, x.2.2), (mem_llgrTuples v _).mpr ⟨lf, hc, x, hx, rfl⟩, rfl, ht⟩

theorem llgr_missing (l r : List Cap) (all : List Family) :
    Spec.imp (!Spec.llgrDup l && !Spec.llgrDup r && Spec.llgrCaps l ≤ 1 && Spec.llgrCaps r ≤ 1)
      (all.all (fun f => Spec.imp (Spec.llgrNonZero l f && Spec.llgrNonZero r f)
        ((Spec.llgrFams (negotiateLlgr l r)).contains f))) = true := by
  unfold Spec.imp
  by_cases h : (!Spec.llgrDup l && !Spec.llgrDup r && decide (Spec.llgrCaps l ≤ 1) && decide (Spec.llgrCaps r ≤ 1)) = true
  · rw [h]
    simp only [Bool.not_true, Bool.false_or]
    simp only [Bool.and_eq_true, Bool.not_eq_true', decide_eq_true_eq] at h
    obtain ⟨⟨⟨hl, hr⟩, cl⟩, cr⟩ := h
    apply all_of_forall
    intro f
    by_cases ha : (Spec.llgrNonZero l f && Spec.llgrNonZero r f) = true
    · simp only [ha, Bool.not_true, Bool.false_or, List.contains_iff_mem]
      simp only [Bool.and_eq_true, llgrNonZero_iff] at ha
      obtain ⟨⟨lf, m1, x, hx, hxf, hxt⟩, ⟨pf, m2, y, hy, hyf, hyt⟩⟩ := ha
      have h1 := llgrCaps_single l lf cl m1
      have h2 := llgrCaps_single r pf cr m2
      obtain ⟨q, hq, hqm, hqf⟩ := find_of_mem pf y hy
      have huq := uniq_of_not_dup r hr pf m2 q hqm y hy hqf
      have hqt : q.2.2 = y.2.2 := by injection huq
      obtain ⟨e, he, _, hef⟩ := find_of_mem lf x hx
      refine (mem_llgrFams l r f).mpr ⟨lf, pf, h1, h2, e, q, ?_, ?_, ?_⟩
      · rw [← hxf]; exact he
      · rw [← hyf]; exact hq
      · rw [hqt]; simp [hyt]; omega
    · simp [ha]
  · have : (!Spec.llgrDup l && !Spec.llgrDup r && decide (Spec.llgrCaps l ≤ 1) && decide (Spec.llgrCaps r ≤ 1)) = false := by
      cases hh : (!Spec.llgrDup l && !Spec.llgrDup r && decide (Spec.llgrCaps l ≤ 1) && decide (Spec.llgrCaps r ≤ 1)) <;> simp_all
    rw [this]; simp

/-! ### the checker on the model's output -/

theorem stOf_swap (c : Codec) (f : Family) :
    Spec.stOf { c with fams := c.fams.map swapFs } f = (Spec.stOf c f).map swapFs := by
  unfold Spec.stOf
  simp only
  induction c.fams with
  | nil => simp
  | cons a t ih =>
    simp only [List.map_cons, List.find?_cons]
    have : (swapFs a).fam = a.fam := rfl
    rw [this]
    by_cases h : a.fam = f <;> simp [h, ih]

theorem mirror_addpath (l r : List Cap) (f : Family) :
    (Spec.rxOf (negotiate l r) f == Spec.txOf (negotiate r l) f && Spec.txOf (negotiate l r) f == Spec.rxOf (negotiate r l) f) = true := by
  rw [rxOf_negotiate, txOf_negotiate, rxOf_negotiate, txOf_negotiate, commonFams_comm r l]
  simp [Bool.and_comm]

/-- **master theorem, negotiation cases.**  The reference checker accepts what the model computes for
    every pair of capability lists. -/
theorem checkNeg_model (l r : List Cap) (sm : List (Family × Nat)) :
    Spec.checkNeg l r sm (runNeg l r sm) = .ok := by
  have hfl := famsOf_negotiate l r
  have hfr := famsOf_negotiate r l
  have c1 : (Spec.famsOf (negotiate l r) == Spec.famsOf (negotiate r l)) = true := by
    rw [hfl, hfr, commonFams_comm r l]; simp
  have c2 : (Spec.famsOf (negotiate l r)).all (fun f => Spec.rxOf (negotiate l r) f == Spec.txOf (negotiate r l) f
      && Spec.txOf (negotiate l r) f == Spec.rxOf (negotiate r l) f) = true :=
    all_of_forall _ _ (mirror_addpath l r)
  have c3 : ((negotiate l r).extMsg == (negotiate r l).extMsg && (negotiate l r).enh == (negotiate r l).enh
      && (negotiate l r).as4 == (negotiate r l).as4) = true := by
    rw [negotiate_mirror l r]; simp
  have c5 : (Spec.famsOf (negotiate l r)).all (fun f => Spec.imp (Spec.rxOf (negotiate l r) f)
      (Spec.someMode l f Spec.rxBit && Spec.someMode r f Spec.txBit)) = true := by
    apply all_of_forall; intro f
    unfold Spec.imp
    by_cases h : Spec.rxOf (negotiate l r) f = true
    · rw [rxOf_negotiate] at h
      simp only [Bool.and_eq_true] at h
      have a := bit_of_lastMode f (addPathTuples l) bit0 (by decide) h.2.1
      have b := bit_of_lastMode f (addPathTuples r) bit1 (by decide) h.2.2
      have : (Spec.someMode l f Spec.rxBit && Spec.someMode r f Spec.txBit) = true := by
        rw [Bool.and_eq_true, someMode_iff, someMode_iff]; exact ⟨a, b⟩
      simp [this]
    · simp [h]
  have c6 : (Spec.famsOf (negotiate l r)).all (fun f => Spec.imp (Spec.txOf (negotiate l r) f)
      (Spec.someMode l f Spec.txBit && Spec.someMode r f Spec.rxBit)) = true := by
    apply all_of_forall; intro f
    unfold Spec.imp
    by_cases h : Spec.txOf (negotiate l r) f = true
    · rw [txOf_negotiate] at h
      simp only [Bool.and_eq_true] at h
      have a := bit_of_lastMode f (addPathTuples l) bit1 (by decide) h.2.1
      have b := bit_of_lastMode f (addPathTuples r) bit0 (by decide) h.2.2
      have : (Spec.someMode l f Spec.txBit && Spec.someMode r f Spec.rxBit) = true := by
        rw [Bool.and_eq_true, someMode_iff, someMode_iff]; exact ⟨a, b⟩
      simp [this]
    · simp [h]
  have c7 : (Spec.famsOf (negotiate l r)).all (fun f => Spec.imp (Spec.allModes l f Spec.rxBit && Spec.allModes r f Spec.txBit)
      (Spec.rxOf (negotiate l r) f)) = true := by
    rw [List.all_eq_true]; intro f hf
    rw [hfl] at hf
    unfold Spec.imp
    by_cases h : (Spec.allModes l f Spec.rxBit && Spec.allModes r f Spec.txBit) = true
    · rw [Bool.and_eq_true, allModes_iff, allModes_iff] at h
      have a := lastMode_of_all f _ bit0 h.1.1 h.1.2
      have b := lastMode_of_all f _ bit1 h.2.1 h.2.2
      rw [rxOf_negotiate]; simp [hf, a, b]
    · simp [h]
  have c8 : (Spec.famsOf (negotiate l r)).all (fun f => Spec.imp (Spec.allModes l f Spec.txBit && Spec.allModes r f Spec.rxBit)
      (Spec.txOf (negotiate l r) f)) = true := by
    rw [List.all_eq_true]; intro f hf
    rw [hfl] at hf
    unfold Spec.imp
    by_cases h : (Spec.allModes l f Spec.txBit && Spec.allModes r f Spec.rxBit) = true
    · rw [Bool.and_eq_true, allModes_iff, allModes_iff] at h
      have a := lastMode_of_all f _ bit1 h.1.1 h.1.2
      have b := lastMode_of_all f _ bit0 h.2.1 h.2.2
      rw [txOf_negotiate]; simp [hf, a, b]
    · simp [h]
  have c2e : (Spec.famsOf (negotiate l r)).all (fun f => Spec.enhOf (negotiate l r) f == Spec.enhOf (negotiate r l) f) = true := by
    apply all_of_forall; intro f
    rw [enhOf_negotiate, enhOf_negotiate, commonFams_comm r l]; simp [Bool.and_comm]
  have c11 : (Spec.famsOf (negotiate l r)).all (fun f => Spec.enhOf (negotiate l r) f == (Spec.advEnh l f && Spec.advEnh r f)) = true := by
    rw [List.all_eq_true]; intro f hf
    rw [hfl] at hf
    rw [enhOf_negotiate, advEnh_eq, advEnh_eq]; simp [hf]
  have c11b : ((negotiate l r).enh == Spec.enhOf (negotiate l r) 65537) = true := by
    rw [beq_iff_eq, enhOf_negotiate]; rfl
  have c9 : ((negotiate l r).extMsg == (Spec.advExtMsg l && Spec.advExtMsg r)) = true := by simp [negotiate, advExtMsg_eq]
  have c10 : ((negotiate l r).as4 == (Spec.advAs4 l && Spec.advAs4 r)) = true := by simp [negotiate, advAs4_eq]
  have c13 : (Spec.emaxOk sm (negotiate l r) (effectiveMax sm l r) && Spec.emaxOk sm (negotiate r l) (effectiveMax sm r l)) = true := by
    rw [emaxOk_model, emaxOk_model]; rfl
  have c14 := gr_sym_clause l r
  have c15 := gr_without_both l r
  have c19 := llgr_without_both l r
  unfold Spec.checkNeg runNeg
  simp only
  generalize hall : (Spec.famsOf (negotiate l r) ++ Spec.famsOf (negotiate r l) ++
      List.filterMap (fun c => match c with | Cap.mp f => some f | _ => none) (l ++ r)) = all
  have c4 : all.all (fun f => (Spec.famsOf (negotiate l r)).contains f == (Spec.advMp l f && Spec.advMp r f)) = true := by
    apply all_of_forall; intro f; rw [hfl, contains_common]; simp
  have c16 := gr_missing l r all
  have c20 := llgr_missing l r all
  simp only [Spec.firstFail, c1, c2, c2e, c3, c4, c5, c6, c7, c8, c9, c10, c11, c11b, c13, c14, c15, c16, c19, c20]
  have hs := llgr_sym_clause l r
  simp [Spec.imp, hs, Spec.firstFail]

end Rbgp.Accept.ProofsNeg
