/-
  C16 — property-level theorems (statements; proofs are `exact`s to Rbgp/Accept/Proofs*.lean).
-/
import Rbgp.Accept.Proofs
import Rbgp.Accept.ProofsNet
namespace Rbgp.Accept.Props
open Rbgp.Accept Rbgp.Accept.Proofs Rbgp.Accept.ProofsNet

/-- **contains_iff_cover.**  For a well-formed prefix (same address family, mask within the address
    length, octets < 256) `IpNet::contains` does not panic and answers exactly "the first `mask`
    bits of the address equal those of the prefix" — whatever host bits the configured prefix has. -/
theorem contains_iff_cover (n : Net) (a : Ip) (hlen : n.bytes.length = a.bytes.length)
    (hm : n.mask ≤ 8 * n.bytes.length) (hn : bytesOk n.bytes) (ha : bytesOk a.bytes) :
    n.contains a = .ok (Spec.covers n a) := by
  rw [covers_eq]
  simp only [Net.contains, hlen, if_true, decide_true, Bool.true_and]
  exact containsF_cover n.bytes a.bytes n.mask hlen hm hn ha

/-- other address family: never contained, never a panic -/
theorem contains_other_family (n : Net) (a : Ip) (hlen : n.bytes.length ≠ a.bytes.length) :
    n.contains a = .ok false ∧ Spec.covers n a = false := by
  simp [Net.contains, Spec.covers, hlen]

/-- out-of-range mask: the outcome is explicit (here: a panic, as in the Rust code) -/
example : (Net.contains ⟨[10, 0, 0, 0], 40⟩ ⟨[10, 0, 0, 0]⟩) = .panic := by decide
example : (Net.contains ⟨[10, 0, 0, 0], 40⟩ ⟨[11, 0, 0, 0]⟩) = .ok false := by decide
/-- non-vacuity: host bits in the partial octet of the configured prefix do not matter -/
example : (Net.contains ⟨[10, 0, 1, 0], 23⟩ ⟨[10, 0, 1, 5]⟩) = .ok true := by decide

/-- **negotiate_mirror.**  The two ends compute the same family set, the same extended-message /
    extended-next-hop / 4-octet-AS outcome, and add-path directions with rx/tx swapped. -/
theorem negotiate_mirror (l r : List Cap) :
    negotiate r l =
      { fams := (negotiate l r).fams.map swapFs, extMsg := (negotiate l r).extMsg
        enh := (negotiate l r).enh, as4 := (negotiate l r).as4 } :=
  Proofs.negotiate_mirror l r

/-- **feature_iff_both.**  A family is in force iff both OPENs carry it; for a family in force an
    add-path direction is in force iff both advertised it (the last tuple a side lists for the family
    is its advertisement); extended message / 4-octet AS iff both; extended next hop iff for some
    family in force both sides list an RFC 8950 tuple. -/
theorem feature_iff_both (l r : List Cap) :
    (∀ f, (∃ s ∈ (negotiate l r).fams, s.fam = f) ↔ (Cap.mp f ∈ l ∧ Cap.mp f ∈ r)) ∧
    (∀ f s, (negotiate l r).state f = some s →
        s.rx = (bit0 (lastMode f (addPathTuples l)) && bit1 (lastMode f (addPathTuples r))) ∧
        s.tx = (bit1 (lastMode f (addPathTuples l)) && bit0 (lastMode f (addPathTuples r)))) ∧
    ((negotiate l r).extMsg = true ↔ (Cap.extMsg ∈ l ∧ Cap.extMsg ∈ r)) ∧
    ((negotiate l r).as4 = true ↔ ((∃ n, Cap.as4 n ∈ l) ∧ (∃ n, Cap.as4 n ∈ r))) ∧
    ((negotiate l r).enh = true ↔
        ∃ f, Cap.mp f ∈ l ∧ Cap.mp f ∈ r ∧ enhAdv f l = true ∧ enhAdv f r = true) :=
  ⟨family_iff_both l r, addpath_iff_both l r, extmsg_iff_both l r, as4_iff_both l r, enh_iff_both l r⟩

/-- what "the last tuple wins" means for a side that lists a family once or consistently -/
theorem advertised_mode_unanimous (f : Family) (m : Nat) (t : List (Family × Nat))
    (hne : ∃ x ∈ t, x.1 = f) (hall : ∀ x ∈ t, x.1 = f → x.2 = m) : lastMode f t = m :=
  lastMode_unanimous f m t hne hall

/-- **sendmax_agrees_with_codec (S26).**  The effective send-max handed to the session has an entry
    for a family exactly when a send-max is configured for it and the negotiated codec encodes path
    identifiers for it in the send direction. -/
theorem sendmax_agrees_with_codec (sm : List (Family × Nat)) (l r : List Cap) (f : Family) (n : Nat) :
    (f, n) ∈ effectiveMax sm l r ↔ (Spec.lastOf sm f = some n ∧ (negotiate l r).tx f = true) :=
  mem_effectiveMax sm l r f n

/-- the S26 witness: conflicting duplicate tuples from the remote side -/
example : effectiveMax [(65537, 4)] [.mp 65537, .addPath [(65537, 3)]] [.mp 65537, .addPath [(65537, 1), (65537, 0)]] = [] := by
  decide
example : effectiveMax [(65537, 4)] [.mp 65537, .addPath [(65537, 3)]] [.mp 65537, .addPath [(65537, 1)]] = [(65537, 4)] := by
  decide

/-- **gr_negotiation_symmetric.**  Both ends agree on whether GR is in force, on the set of GR
    families and on the RFC 8538 N-bit outcome. -/
theorem gr_negotiation_symmetric (l r : List Cap) :
    ((negotiateGr l r).isSome = (negotiateGr r l).isSome) ∧
    (∀ f, f ∈ Spec.grFams (negotiateGr l r) ↔ f ∈ Spec.grFams (negotiateGr r l)) ∧
    ((negotiateGr l r).map (·.notif) = (negotiateGr r l).map (·.notif)) :=
  gr_symmetric l r

end Rbgp.Accept.Props
